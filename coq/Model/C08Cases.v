From V Require Import Model.Num Model.Status Model.Settle.
Open Scope Z_scope.
Definition mk_s (sd : side) (ew : bool) (dn dd : Z) (line : bool) (lr : option Z) (m a : Z) (r : result) (n : Z) : settle_in :=
  {| st_side := sd; st_each_way := ew; st_div_n := dn; st_div_d := dd; st_line := line; st_line_result := lr; st_m := m; st_a := a; st_result := r; st_dead := n |}.
(* 0 equal, 1 rounding-ambiguous, 2 mismatch *)
Definition profit_cmp (c : settle_in * Z) : Z :=
  let '(s, e) := c in let u := profit tb_up s in let d := profit tb_down s in
  if u =? d then (if u =? e then 0 else 2) else (if (e =? u) || (e =? d) then 1 else 2).
Definition cleared_cmp (c : list Z * Z * Z * (Z * Z * Z)) : Z :=
  let '(ps, rn, rd, e) := c in
  let u := cleared tb_up ps rn rd in let d := cleared tb_down ps rn rd in
  let eq3 (x y : Z * Z * Z) := (fst (fst x) =? fst (fst y)) && (snd (fst x) =? snd (fst y)) && (snd x =? snd y) in
  if eq3 u d then (if eq3 u e then 0 else 2) else (if eq3 u e || eq3 d e then 1 else 2).
Definition dead_cmp (c : Z * Z * option Z) : bool := let '(w, d, e) := c in opt_eqb Z.eqb (dead_heat w d None) e.
Definition result_eqb (a b : result) : bool := match a, b with RsWinner, RsWinner | RsLoser, RsLoser | RsPlaced, RsPlaced | RsRemoved, RsRemoved | RsNone, RsNone => true | _, _ => false end.
Definition closed_cmp (c : list (Z * Z * result) * (Z * Z) * result) : bool := let '(rs, k, e) := c in result_eqb (closed_result rs k RsNone) e.

(* SimGuard.v — executable side conditions of the whole-run conservation theorem (C04): evaluated by the harness on every scenario. *)
From V Require Import Model.Num Model.Status Model.Sim Model.SimLoop.
Open Scope Z_scope.

Definition untouched_b (o : sorder) : bool :=
  match so_frags o with [] => true | _ => false end && (so_matched o =? 0) && (so_cancelled o =? 0) && (so_lapsed o =? 0) && (so_voided o =? 0).

(* a placement package finds its order as it was created *)
Definition place_guard_b (s : sim) (p : pkg) : bool :=
  match pk_kind p with
  | KPlace =>
      match get_market (pk_market p) (s_markets s) with
      | Some m => match get_order (pk_order p) (mk_orders m) with
                  | Some o => match so_type o with TLimit => untouched_b o && (0 <=? so_size o) | _ => true end
                  | None => true
                  end
      | None => true
      end
  | _ => true
  end.

Fixpoint pkgs_guard_b (tb : tiebreak) (cf : config) (now : Z) (ps : list pkg) (s : sim) : bool :=
  match ps with
  | [] => true
  | p :: r => (s_aborted s || place_guard_b s p) && pkgs_guard_b tb cf now r (if s_aborted s then s else exec_pkg tb cf now s p)
  end.

Definition step_guard_b (tb : tiebreak) (cf : config) (s : sim) (e : event) : bool :=
  s_aborted s ||
  match s_queue s with
  | [] => true
  | _ => pkgs_guard_b tb cf (b_pt (ev_book e))
           (filter (fun p => (pk_market p =? ev_market e) && due cf (b_pt (ev_book e)) p) (s_queue s)) s
  end.

Fixpoint run_guard_b (tb : tiebreak) (cf : config) (n : Z) (sc : script) (es : list event) (s : sim) : bool :=
  match es with [] => true | e :: r => step_guard_b tb cf s e && run_guard_b tb cf n sc r (step tb cf n sc s e) end.

(* books and scripts in the domain of the theorem *)
Definition ladder_b (l : list (Z * Z)) : bool := forallb (fun ps => (0 <? fst ps) && (0 <? snd ps)) l.
Definition ladders_b (b : book) : bool := forallb (fun r => ladder_b (r_atb r) && ladder_b (r_atl r)) (b_runners b).
Definition book_b (b : book) : bool :=
  negb (b_bsp_rec b) && ladders_b b &&
  forallb (fun r => forallb (fun e => 0 <=? snd e) (r_trd r) && negb (match r_status r with RRemoved => true | _ => false end)) (b_runners b).
Definition action_b0 (a : action) : bool :=
  match a with
  | APlace _ _ _ (OLimit p s _ _ _) _ => (0 <? p) && (0 <=? s)
  | ACancel _ (Some x) => 0 <=? x
  | AReplace _ price _ => 0 <? price
  | _ => true
  end.
Definition action_b (a : action) : bool := match a with AOn _ a' => action_b0 a' | _ => action_b0 a end.
Definition event_b (sc : script) (n : Z) (e : event) : bool :=
  (if mstatus_eqb (b_status (ev_book e)) MClosed then ladders_b (ev_book e) else book_b (ev_book e)) &&
  forallb (fun st => forallb action_b (sc st (ev_market e) (ev_idx e))) (map Z.of_nat (seq 0 (Z.to_nat n))).

(* ---- side condition of the whole-run acknowledgement-time theorem (C07): a placement package finds the order it was created with, bet delays >= 0 ---- *)
Definition ack_guard_b (s : sim) (p : pkg) : bool :=
  match pk_kind p with
  | KPlace =>
      (0 <=? pk_bet_delay p) &&
      match get_market (pk_market p) (s_markets s) with
      | Some m => match get_order (pk_order p) (mk_orders m) with
                  | Some o => (so_created o =? pk_created p) && negb (so_repl o)
                  | None => true
                  end
      | None => true
      end
  | KReplace => 0 <=? pk_bet_delay p
  | _ => true
  end.
Fixpoint pkgs_ack_guard_b (tb : tiebreak) (cf : config) (now : Z) (ps : list pkg) (s : sim) : bool :=
  match ps with
  | [] => true
  | p :: r => (s_aborted s || ack_guard_b s p) && pkgs_ack_guard_b tb cf now r (if s_aborted s then s else exec_pkg tb cf now s p)
  end.
Definition step_ack_guard_b (tb : tiebreak) (cf : config) (s : sim) (e : event) : bool :=
  s_aborted s ||
  match s_queue s with
  | [] => true
  | _ => pkgs_ack_guard_b tb cf (b_pt (ev_book e))
           (filter (fun p => (pk_market p =? ev_market e) && due cf (b_pt (ev_book e)) p) (s_queue s)) s
  end.
Fixpoint run_ack_guard_b (tb : tiebreak) (cf : config) (n : Z) (sc : script) (es : list event) (s : sim) : bool :=
  match es with [] => true | e :: r => step_ack_guard_b tb cf s e && run_ack_guard_b tb cf n sc r (step tb cf n sc s e) end.

(* ---- the (market, name) keys under which a run's script places orders; side condition of the names theorem (C13): each used once, all below
        the first replacement name ---- *)
Definition act_keys0 (mid : Z) (a : action) : list (Z * Z) := match a with APlace name _ _ _ _ => [(mid, name)] | _ => [] end.
Definition act_keys (mid : Z) (a : action) : list (Z * Z) := match a with AOn mid' a' => act_keys0 mid' a' | _ => act_keys0 mid a end.
Definition ev_keys (sc : script) (n : Z) (e : event) : list (Z * Z) :=
  flat_map (fun st => flat_map (act_keys (ev_market e)) (sc st (ev_market e) (ev_idx e))) (map Z.of_nat (seq 0 (Z.to_nat n))).
Definition run_keys (sc : script) (n : Z) (es : list event) : list (Z * Z) := flat_map (ev_keys sc n) es.
Fixpoint nodup_keys_b (l : list (Z * Z)) : bool :=
  match l with [] => true | k :: r => negb (existsb (fun x => (fst x =? fst k) && (snd x =? snd k)) r) && nodup_keys_b r end.
Definition keys_ok_b (sc : script) (n : Z) (es : list event) : bool :=
  nodup_keys_b (run_keys sc n es) && forallb (fun k => snd k <? 1000) (run_keys sc n es).

(* ---- static side conditions (Proofs/SimLinkP.v guards_hold): with these, run_guard_b and run_ack_guard_b are theorems ---- *)
Definition event_b2 (sc : script) (n : Z) (e : event) : bool := event_b sc n e && (0 <=? b_delay (ev_book e)).
Definition cfg_ok_b (cf : config) : bool := negb (status_in SPending (cf_mw_live cf)) && negb (status_in SExecComplete (cf_mw_live cf)).
Definition initial_b (s : sim) : bool :=
  nodup_keys_b (map (fun m => (mk_id m, 0)) (s_markets s)) &&
  forallb (fun m => match mk_orders m, mk_analytics m, mk_book m with [], [], None => true | _, _, _ => false end) (s_markets s) &&
  match s_queue s with [] => true | _ => false end && (1000 <=? s_next_name s).

(* ---- C03 (simulation): the documented lifecycle as a relation on consecutive entries of an order's status log; writing Executable or
        Execution complete again on an order that already has that status is not a transition ---- *)
Definition lifecycle_ok (a b : status) : bool :=
  match a, b with
  | SNone, SPending | SNone, SViolation => true
  | SPending, SExecutable | SPending, SExecComplete | SPending, SExpired | SPending, SViolation => true
  | SExecutable, SCancelling | SExecutable, SUpdating | SExecutable, SReplacing | SExecutable, SExecComplete => true
  | SCancelling, SExecutable | SCancelling, SExecComplete | SUpdating, SExecutable | SUpdating, SExecComplete
  | SReplacing, SExecutable | SReplacing, SExecComplete => true
  | SExecutable, SExecutable | SExecComplete, SExecComplete => true
  | _, _ => false
  end.
Fixpoint lifecycle_path (a : status) (l : list status) : bool :=
  match l with [] => true | b :: r => lifecycle_ok a b && lifecycle_path b r end.
(* sizes the order validation control accepts: strictly positive *)
Definition action_b3 (a : action) : bool :=
  match (match a with AOn _ a' => a' | _ => a end) with
  | APlace _ _ _ (OLimit _ s _ _ _) _ => 0 <? s
  | _ => true
  end.
Definition event_b3 (sc : script) (n : Z) (e : event) : bool :=
  forallb (fun st => forallb action_b3 (sc st (ev_market e) (ev_idx e))) (map Z.of_nat (seq 0 (Z.to_nat n))).

(* Ladder.v — model of flumine/utils.py make_prices, get_nearest_price,
   price_ticks_away, make_line_prices and of controls/tradingcontrols.py
   OrderValidation.  Prices are integers in 1/100 (cents); inputs of
   get_nearest_price are arbitrary rationals n/d (d > 0), which is what
   Decimal(str(x)) produces for every float x.  Executable definitions only. *)
From V Require Export Model.Num.
Open Scope Z_scope.

(* cut-offs as the generator emits them: (cutoff in cents, increment in cents) *)
Definition cutoffs := list (Z * Z).

(* arange(lo, hi, inc) for Decimals: lo, lo+inc, ... < hi *)
Fixpoint band_aux (x inc : Z) (n : nat) : list Z :=
  match n with O => [] | S m => x :: band_aux (x + inc) inc m end.
Definition band (lo hi inc : Z) : list Z :=
  band_aux lo inc (Z.to_nat ((hi - lo + inc - 1) / inc)).

Fixpoint mk_prices (cursor : Z) (cs : cutoffs) : list Z :=
  match cs with
  | [] => []
  | (c, inc) :: r => band cursor c inc ++ mk_prices c r
  end.

(* make_prices(min_price, cutoffs): ... ; prices.append(MAX_PRICE) *)
Definition make_prices (minp maxp : Z) (cs : cutoffs) : list Z := mk_prices minp cs ++ [maxp].

(* for cutoff, step in cutoffs: if price < cutoff: break   -> step of the band
   (the last band's step when the loop runs to its end) *)
Fixpoint band_inc (n d : Z) (cs : cutoffs) (last : Z) : Z :=
  match cs with
  | [] => last
  | (c, inc) :: r => if 100 * n <? c * d then inc else band_inc n d r inc
  end.

(* get_nearest_price(price = n/d, cutoffs) in cents *)
Definition nearest (minp maxp : Z) (cs : cutoffs) (n d : Z) : Z :=
  if 100 * n <=? minp * d then minp
  else if maxp * d <? 100 * n then maxp
  else let inc := band_inc n d cs 1 in
       inc * rnd_half_up (100 * n) (d * inc).

Fixpoint index_of (p : Z) (l : list Z) : option nat :=
  match l with
  | [] => None
  | x :: r => if x =? p then Some O
              else match index_of p r with Some i => Some (S i) | None => None end
  end.

(* price_ticks_away(price, n_ticks, prices): None models ValueError (price not a tick) *)
Definition ticks_away (minp maxp : Z) (L : list Z) (p n : Z) : option Z :=
  match index_of p L with
  | None => None
  | Some i => let j := Z.of_nat i + n in
              if j <? 0 then Some minp else Some (nth (Z.to_nat j) L maxp)
  end.

(* ---- the exchange's published increment table, written independently ---- *)
Definition spec_inc (p : Z) : option Z :=
  if p <? 101 then None
  else if p <? 200 then Some 1
  else if p <? 300 then Some 2
  else if p <? 400 then Some 5
  else if p <? 600 then Some 10
  else if p <? 1000 then Some 20
  else if p <? 2000 then Some 50
  else if p <? 3000 then Some 100
  else if p <? 5000 then Some 200
  else if p <? 10000 then Some 500
  else if p <=? 100000 then Some 1000
  else None.
Definition valid_tick (p : Z) : bool :=
  match spec_inc p with Some i => p mod i =? 0 | None => false end.

(* Betdaq's published ladder *)
Definition betdaq_inc (p : Z) : option Z :=
  if p <? 101 then None
  else if p <? 300 then Some 1
  else if p <? 400 then Some 5
  else if p <? 1000 then Some 10
  else if p <? 2000 then Some 50
  else if p <? 5000 then Some 100
  else if p <? 20000 then Some 200
  else if p <=? 100000 then Some 500
  else None.
Definition valid_betdaq_tick (p : Z) : bool :=
  match betdaq_inc p with Some i => p mod i =? 0 | None => false end.

Definition valid_finest_tick (p : Z) : bool := (101 <=? p) && (p <=? 100000).

(* ---- OrderValidation ----
   All money/price inputs in 1/1000 so that values with three decimals (which
   the control must refuse) can be expressed. *)
Inductive ladder_def := Classic | Finest | LineRange (lo hi step : Z) (* 1/1000 *).
Inductive vside := VBack | VLay.
Inductive vtype :=
  | VLimit (price size : Z) (ld : ladder_def)      (* 1/1000 *)
  | VLimitOnClose (price liability : Z) (ld : ladder_def)
  | VMarketOnClose (liability : Z).
Inductive vexch := XBetfair | XBetdaq.
Record vclient := { min_validation : bool; min_bet_size : Z; min_bet_payout : Z; min_bsp_liability : Z (* 1/1000 *) }.

Definition on_cent_grid (x : Z) := x mod 10 =? 0.

(* membership of a 1/1000 price in a ladder given as a predicate on cents *)
Definition price_on (valid : Z -> bool) (p : Z) := on_cent_grid p && valid (p / 10).

Definition line_ok (lo hi step p : Z) : bool :=
  (lo <=? p) && (p <=? hi) && ((p - lo) mod step =? 0).

Definition price_ok (PR : list Z) (ld : ladder_def) (p : Z) : bool :=
  match ld with
  | Classic => price_on (fun c => existsb (Z.eqb c) PR) p
  | Finest => price_on valid_finest_tick p
  | LineRange lo hi step => line_ok lo hi step p
  end.

Definition amount_ok (x : Z) : bool := (0 <? x) && on_cent_grid x.

(* price * size < min_payout with price,size,payout in 1/1000: p*s < payout*1000 *)
Definition min_size_ok (c : vclient) (sd : vside) (t : vtype) : bool :=
  if negb (min_validation c) then true
  else match t with
       | VLimit p s _ => negb ((s <? min_bet_size c) && (p * s <? min_bet_payout c * 1000))
       | VLimitOnClose _ l _ | VMarketOnClose l =>
           match sd with
           | VBack => negb (l <? min_bet_size c)
           | VLay => negb (l <? min_bsp_liability c)
           end
       end.

Definition validate (PR BQ : list Z) (x : vexch) (c : vclient) (sd : vside) (t : vtype) : bool :=
  match x, t with
  | XBetfair, VLimit p s ld => amount_ok s && price_ok PR ld p && min_size_ok c sd t
  | XBetfair, VLimitOnClose p l ld => price_ok PR ld p && amount_ok l && min_size_ok c sd t
  | XBetfair, VMarketOnClose l => amount_ok l && min_size_ok c sd t
  | XBetdaq, VLimit p s _ => amount_ok s && price_on (fun c => existsb (Z.eqb c) BQ) p
  | XBetdaq, _ => false
  end.

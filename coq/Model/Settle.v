(* Settle.v — model of SimulatedOrder.profit, Blotter.process_closed_market (dead-heat count) and Market.cleared.
   matched size m in cents, average matched price a in bp (1/10000), results in cents. *)
From V Require Export Model.Num Model.Status.
Open Scope Z_scope.

Inductive result := RsWinner | RsLoser | RsPlaced | RsRemoved | RsNone.

Record settle_in := {
  st_side : side;
  st_each_way : bool;            (* market_type == "EACH_WAY" *)
  st_div_n : Z; st_div_d : Z;    (* each_way_divisor = n/d *)
  st_line : bool;                (* LIMIT order with price ladder LINE_RANGE *)
  st_line_result : option Z;     (* bp; None = unavailable (None or 0 in the code) *)
  st_m : Z; st_a : Z;            (* size_matched (cents), average_price_matched (bp) *)
  st_result : result;
  st_dead : Z                    (* number_of_dead_heat_winners or 1 *)
}.

Definition neg_if_lay (sd : side) (x : Z) : Z := match sd with Back => x | Lay => - x end.

Definition profit (tb : tiebreak) (s : settle_in) : Z :=
  let m := st_m s in let a := st_a s in
  if st_each_way s then
    (* win = m (a-1); place = m (a-1) / divisor *)
    let win_n := m * (a - 10000) in                         (* / 10000 cents *)
    let place_n := m * (a - 10000) * st_div_d s in          (* / (10000 * div_n) cents *)
    match st_result s with
    | RsWinner => neg_if_lay (st_side s) (rnd tb (win_n * st_div_n s + place_n) (10000 * st_div_n s))
    | RsPlaced =>
        match st_side s with
        | Back => rnd tb (place_n - m * 10000 * st_div_n s) (10000 * st_div_n s)
        | Lay => rnd tb (m * 10000 * st_div_n s - place_n) (10000 * st_div_n s)
        end
    | RsLoser => neg_if_lay (st_side s) (- (2 * m))
    | _ => 0
    end
  else if st_line s then
    match st_line_result s with
    | None => 0
    | Some r =>
        if (match st_side s with Back => r <? a | Lay => a <? r end) then m else - m
    end
  else
    match st_result s with
    | RsWinner =>
        let n := st_dead s in
        (* (m/n)(a-1) - m(n-1)/n   [n = 1: no deduction] *)
        let num := m * (a - 10000) - (if n =? 1 then 0 else 10000 * m * (n - 1)) in
        match st_side s with
        | Back => rnd tb num (10000 * n)
        | Lay => rnd tb (- num) (10000 * n)
        end
    | RsLoser => neg_if_lay (st_side s) (- m)
    | _ => 0
    end.

(* Blotter.process_closed_market: number_of_dead_heat_winners *)
Definition dead_heat (winners_in_book declared : Z) (previous : option Z) : option Z :=
  if declared =? 0 then Some 1 else if declared <? winners_in_book then Some winners_in_book else previous.

(* Market.cleared(client): (profit, commission, betCount) from the profits of the client's matched orders *)
Definition cleared (tb : tiebreak) (profits : list Z) (rate_n rate_d : Z) : Z * Z * Z :=
  let p := sumZ profits in
  (p, rnd tb (zmax (p * rate_n) 0) rate_d, Z.of_nat (length profits)).

(* Blotter.process_closed_market: which runner of the closing book settles an order.  The code walks every runner of the book and copies the status
   of each one whose (selection_id, handicap) equals the order's - no break, so with a duplicated key the last one listed wins; an order whose key
   is not in the book keeps what it had (None: profit 0).  Keys: selection id, handicap in tenths. *)
Definition runner_key_eqb (k1 k2 : Z * Z) : bool := (fst k1 =? fst k2) && (snd k1 =? snd k2).
Fixpoint closed_result (runners : list (Z * Z * result)) (k : Z * Z) (acc : result) : result :=
  match runners with
  | nil => acc
  | cons (k', r) rest => closed_result rest k (if runner_key_eqb k k' then r else acc)
  end.
(* the profit of an order after the closing book has been processed: the settlement terms with the result the lookup gives *)
Definition with_result (s : settle_in) (r : result) : settle_in :=
  {| st_side := st_side s; st_each_way := st_each_way s; st_div_n := st_div_n s; st_div_d := st_div_d s; st_line := st_line s; st_line_result := st_line_result s;
     st_m := st_m s; st_a := st_a s; st_result := r; st_dead := st_dead s |}.
Definition profit_at_close (tb : tiebreak) (rs : list (Z * Z * result)) (k : Z * Z) (s : settle_in) : Z := profit tb (with_result s (closed_result rs k RsNone)).

(* Merge.v — model of the event-group loop in FlumineSimulation.run:
     cycles = [[head publish time, head, generator] per stream]
     while cycles: cycles.sort(key=head time)  (stable);  pop(0);  process;  push the stream's next at the END.
   A stream is the list of its updates (publish time, payload); the payload is opaque (Z). *)
From V Require Export Model.Num.
Open Scope Z_scope.

Definition upd := (Z * Z)%type.            (* publish time, payload id *)
Definition stream := list upd.

Fixpoint insert_stream (s : stream) (l : list stream) : list stream :=
  match l with
  | [] => [s]
  | x :: r => if (match s, x with (p, _) :: _, (q, _) :: _ => p <? q | _, _ => false end) then s :: l else x :: insert_stream s r
  end.
(* stable sort of the non-empty streams by the publish time of their head *)
Definition sort_streams (l : list stream) : list stream := fold_left (fun acc s => insert_stream s acc) l [].

Fixpoint merge (fuel : nat) (cycles : list stream) : list upd :=
  match fuel with
  | O => []
  | S f =>
      match sort_streams cycles with
      | [] => []
      | [] :: rest => merge f rest               (* never happens: empty streams are not kept *)
      | (u :: s) :: rest => u :: merge f (match s with [] => rest | _ => rest ++ [s] end)
      end
  end.

Definition total_len (l : list stream) : nat := length (concat l).
Definition run_merge (streams : list stream) : list upd :=
  merge (total_len streams) (filter (fun s => match s with [] => false | _ => true end) streams).

(* ---- listener filters (FlumineMarketStream._process), one market ---- *)
Record lopts := { lo_inplay : option bool; lo_seconds_to_start : option Z (* s *); lo_max_inplay : option Z (* s *) }.
Record mupd := { mu_pt : Z; mu_open : bool; mu_inplay : bool; mu_market_time : Z (* ms *) }.
Record fstate := { fs_prev_inplay : bool; fs_inplay_pt : option Z }.
Definition fstate0 := {| fs_prev_inplay := false; fs_inplay_pt := None |}.

Definition filter_step (lo : lopts) (st : fstate) (u : mupd) : fstate * bool :=
  let ipt := match lo_max_inplay lo with
             | Some _ => if mu_inplay u && negb (fs_prev_inplay st) then Some (mu_pt u) else fs_inplay_pt st
             | None => fs_inplay_pt st
             end in
  let active :=
    if mu_open u then
      let a1 := match lo_inplay lo with
                | Some true => mu_inplay u
                | _ => match lo_seconds_to_start lo with
                       | Some sts => if sts =? 0 then true else negb (sts * 1000 <? mu_market_time u - mu_pt u)
                       | None => true
                       end
                end in
      let a2 := match lo_inplay lo with Some false => negb (mu_inplay u) | _ => true end in
      let a3 := match lo_max_inplay lo, ipt with
                | Some mx, Some t0 => negb (mx * 1000 <? mu_pt u - t0)
                | _, _ => true
                end in
      a1 && a2 && a3
    else true in
  ({| fs_prev_inplay := mu_inplay u; fs_inplay_pt := ipt |}, active).

Fixpoint delivered (lo : lopts) (st : fstate) (us : list mupd) : list mupd :=
  match us with
  | [] => []
  | u :: r => let '(st', a) := filter_step lo st u in if a then u :: delivered lo st' r else delivered lo st' r
  end.

(* TxCount.v — model of controls/clientcontrols.py MaxTransactionCount and of
   BaseClient.add_transaction (one control state per client).  Time in ms since epoch. *)
From V Require Export Model.Num.
Open Scope Z_scope.

Record tx := { next_hour : option Z;    (* clock-hour index of (now + 1h) at the last restart *)
               cur : Z; cur_failed : Z; tot : Z; tot_failed : Z }.
Definition tx0 := {| next_hour := None; cur := 0; cur_failed := 0; tot := 0; tot_failed := 0 |}.

Definition hour_of (t : Z) : Z := t / 3600000.

(* add_transaction(count, failed) *)
Definition add (s : tx) (n : Z) (failed : bool) : tx :=
  if failed then {| next_hour := next_hour s; cur := cur s; cur_failed := cur_failed s + n; tot := tot s; tot_failed := tot_failed s + n |}
  else {| next_hour := next_hour s; cur := cur s + n; cur_failed := cur_failed s; tot := tot s + n; tot_failed := tot_failed s |}.

(* _set_next_hour *)
Definition set_next_hour (s : tx) (now : Z) : tx :=
  {| next_hour := Some (hour_of now + 1); cur := 0; cur_failed := 0; tot := tot s; tot_failed := tot_failed s |}.

(* _check_hour: restart iff (date, hour) of now+1h differs from the stored next hour *)
Definition check_hour (s : tx) (now : Z) : tx :=
  match next_hour s with
  | None => set_next_hour s now
  | Some nh => if nh =? hour_of now + 1 then s else set_next_hour s now
  end.

Definition cur_total (s : tx) := cur s + cur_failed s.
Definition tot_total (s : tx) := tot s + tot_failed s.

(* safe: limit None => True; current total <= limit *)
Definition safe (limit : option Z) (s : tx) : bool :=
  match limit with None => true | Some l => cur_total s <=? l end.

(* _validate for a non-forced request at time [now]: new state, accepted? *)
Definition validate (limit : option Z) (s : tx) (now : Z) : tx * bool :=
  let s' := check_hour s now in (s', safe limit s').

Inductive ev := Add (n : Z) (failed : bool) | Req (now : Z) (force : bool).

(* a forced request does not consult the controls at all *)
Definition step (limit : option Z) (s : tx) (e : ev) : tx * option bool :=
  match e with
  | Add n f => (add s n f, None)
  | Req now true => (s, Some true)
  | Req now false => let '(s', ok) := validate limit s now in (s', Some ok)
  end.

Fixpoint run (limit : option Z) (s : tx) (es : list ev) : tx * list (option bool) :=
  match es with
  | [] => (s, [])
  | e :: r => let '(s1, o) := step limit s e in let '(s2, os) := run limit s1 r in (s2, o :: os)
  end.

(* count sites of the execution layer: what one answered package charges *)
Inductive pkind := PPlace | PCancel | PUpdate | PReplace.
Definition charges (k : pkind) (len nfail : Z) : list ev :=
  match k with
  | PPlace => [Add len false]
  | PCancel | PUpdate => if nfail =? 0 then [] else [Add nfail true]
  | PReplace => Add len false :: (if nfail =? 0 then [] else [Add nfail true])
  end.

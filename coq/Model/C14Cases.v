From V Require Import Model.Num Model.Merge.
Open Scope Z_scope.
(* groups of streams in the order the run processes them; a group with one stream is read sequentially *)
Definition delivery_order (groups : list (list stream)) : list upd :=
  concat (map (fun g => match g with [s] => s | _ => run_merge g end) groups).
Definition order_ok (c : list (list stream) * list upd) : bool :=
  list_eqb zz_eqb (delivery_order (fst c)) (snd c).
Definition mk_u (pt : Z) (op ip : bool) (mt : Z) : mupd := {| mu_pt := pt; mu_open := op; mu_inplay := ip; mu_market_time := mt |}.
Definition filter_ok (c : lopts * list mupd * list Z) : bool :=
  let '(lo, us, e) := c in lz_eqb (map mu_pt (delivered lo fstate0 us)) e.

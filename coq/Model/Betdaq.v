(* Betdaq.v — the status machine of ONE BetdaqOrder as the BETDAQ execution handlers and the order poll drive it (flumine/execution/betdaqexecution.py,
   flumine/order/process.py process_betdaq_current_order, BetdaqOrder guards).  The exchange is unconstrained: answers and poll rows of any content
   arrive at any time; the only bookkeeping is which requests of the order are still waiting for their answer (an answer nobody is waiting for is
   not an event of the system).
   Definitions only; proofs in Proofs/BetdaqP.v.  Tied to the code by harness/impl/betdaqlib.py, which records the events in the order the real
   handlers process them (harness/betdaqcheck.py compares the status logs). *)
From Coq Require Import ZArith List Bool.
From V Require Import Model.Num Model.Status.
Import ListNotations.

Record border := { bo_status : status; bo_log : list status; bo_bet : bool; bo_place_out : bool; bo_upd_out : nat; bo_can_out : nat }.

Inductive bevent :=
  | BReceipt (ok : bool)          (* execute_place: a report for the order; ok = return code 0 (the receipt carries the order id) *)
  | BPlaceFailed                  (* execute_place: the call gave no response *)
  | BPoll (final seqnew : bool)   (* a polled row: final = Matched / Cancelled / Settled / Void, else Unmatched / Suspended; seqnew = new sequence number *)
  | BReqUpdate | BReqCancel       (* strategy requests (BetdaqOrder.update / cancel guards) *)
  | BUpdateAnswer (err : bool) | BUpdateFailed
  | BCancelAnswer (returned : bool) | BCancelFailed.

Definition bset (o : border) (st : status) : border :=
  {| bo_status := st; bo_log := bo_log o ++ [st]; bo_bet := bo_bet o; bo_place_out := bo_place_out o; bo_upd_out := bo_upd_out o; bo_can_out := bo_can_out o |}.
Definition banswered (o : border) (bet : bool) : border :=
  {| bo_status := bo_status o; bo_log := bo_log o; bo_bet := bet; bo_place_out := false; bo_upd_out := bo_upd_out o; bo_can_out := bo_can_out o |}.
Definition bcount (o : border) (u c : nat) : border :=
  {| bo_status := bo_status o; bo_log := bo_log o; bo_bet := bo_bet o; bo_place_out := bo_place_out o; bo_upd_out := u; bo_can_out := c |}.
(* BetdaqExecution._reset_order (repair of F-C03-4): back to executable unless the order polling has completed the order meanwhile *)
Definition breset (o : border) : border :=
  if status_eqb (bo_status o) SExecComplete then o else bset o SExecutable.

Definition bfresh : border := {| bo_status := SPending; bo_log := [SPending]; bo_bet := false; bo_place_out := true; bo_upd_out := 0; bo_can_out := 0 |}.

Definition bstep (o : border) (e : bevent) : border :=
  match e with
  | BReceipt ok =>
      if bo_place_out o then (if ok then bset (banswered o true) SExecutable else bset (banswered o (bo_bet o)) SExecComplete) else o
  | BPlaceFailed => if bo_place_out o then bset (banswered o (bo_bet o)) SExecComplete else o
  | BPoll final seqnew =>
      match bo_status o with
      | SPending => if bo_bet o then bset o (if final then SExecComplete else SExecutable) else o
      | SUpdating => if seqnew then bset o (if final then SExecComplete else SExecutable) else o
      | SExecutable => if final then bset o SExecComplete else o
      | _ => o
      end
  | BReqUpdate => if status_eqb (bo_status o) SExecutable && bo_bet o then bcount (bset o SUpdating) (S (bo_upd_out o)) (bo_can_out o) else o
  | BReqCancel => if status_eqb (bo_status o) SExecutable && bo_bet o then bcount (bset o SCancelling) (bo_upd_out o) (S (bo_can_out o)) else o
  | BUpdateAnswer err =>
      match bo_upd_out o with O => o | S n => let o1 := bcount o n (bo_can_out o) in if err then breset o1 else o1 end
  | BUpdateFailed => match bo_upd_out o with O => o | S n => breset (bcount o n (bo_can_out o)) end
  | BCancelAnswer returned =>
      match bo_can_out o with O => o | S n => let o1 := bcount o (bo_upd_out o) n in if returned then bset o1 SExecComplete else breset o1 end
  | BCancelFailed => match bo_can_out o with O => o | S n => breset (bcount o (bo_upd_out o) n) end
  end.
Definition brun (es : list bevent) : border := fold_left bstep es bfresh.

(* SimLoop.v — the simulation loop around Sim.v:
   FlumineSimulation._process_market_books / _check_pending_packages / _process_simulated_orders,
   SimulatedExecution.execute_*, SimulatedMiddleware.__call__ (analytics, removals, matching),
   the request layer (order guards + the default controls that can refuse in these scenarios).
   One event = one market book of one market. *)
From V Require Export Model.Sim.
Open Scope Z_scope.

Inductive pkind := KPlace | KCancel | KUpdate | KReplace.
Record pkg := { pk_kind : pkind; pk_market : Z; pk_order : Z; pk_created : Z; pk_bet_delay : Z; pk_mv : option Z }.

Inductive otspec := OLimit (price size : Z) (p : persist) (fok : bool) (minfill : option Z)
                  | OLoc (liab price : Z) | OMoc (liab : Z).
Inductive action :=
  | APlace (name sel : Z) (sd : side) (t : otspec) (mv : option Z)
  | ACancel (name : Z) (red : option Z)
  | AUpdate (name : Z) (p : persist)
  | AReplace (name : Z) (price : Z) (mv : option Z)
  | AOn (mid : Z) (a : action)    (* the same request issued on ANOTHER market than the one whose update is being processed *).

(* per-market state *)
Record analytics := { an_sel : Z; an_pv : list (Z * Z) (* cached volume *); an_tv : list (Z * Z); an_traded : traded }.
Record market := { mk_id : Z; mk_static : mstatic; mk_book : option book; mk_closed : bool; mk_seen : bool;
                   mk_analytics : list analytics; mk_orders : list sorder (* blotter, insertion order *);
                   mk_active : bool }.

Record config := { cf_lat_place : Z; cf_lat_cancel : Z; cf_lat_update : Z; cf_lat_replace : Z;  (* ms *)
                   cf_isolation : bool; cf_complete : list status; cf_mw_live : list status;
                   cf_min_adj : Z (* x100 *); cf_clients : list client (* per strategy *) }.

Record sim := { s_markets : list market; s_queue : list pkg; s_bet : Z; s_removals : list (Z * (Z * option Z)) (* (market, (selection, factor)): once per market *);
                s_next_name : Z; s_aborted : bool; s_tx : Z; s_tx_failed : Z }.

Definition client_of (cf : config) (strat : Z) : client :=
  nth (Z.to_nat strat) (cf_clients cf) {| c_bpe := true; c_full := false; c_min_bsp := 1000 |}.

(* ---------- helpers on lists of orders ---------- *)
Fixpoint upd_order (name : Z) (f : sorder -> sorder) (l : list sorder) : list sorder :=
  match l with [] => [] | o :: r => if so_name o =? name then f o :: r else o :: upd_order name f r end.
Definition get_order (name : Z) (l : list sorder) : option sorder := find (fun o => so_name o =? name) l.

Fixpoint upd_market (id : Z) (f : market -> market) (l : list market) : list market :=
  match l with [] => [] | m :: r => if mk_id m =? id then f m :: r else m :: upd_market id f r end.
Definition get_market (id : Z) (l : list market) : option market := find (fun m => mk_id m =? id) l.

Definition set_orders (m : market) (os : list sorder) : market :=
  {| mk_id := mk_id m; mk_static := mk_static m; mk_book := mk_book m; mk_closed := mk_closed m; mk_seen := mk_seen m;
     mk_analytics := mk_analytics m; mk_orders := os; mk_active := mk_active m || negb (match os with [] => true | _ => false end) |}.

(* ---------- delays ---------- *)
Definition delay_ms (cf : config) (k : pkind) (bet_delay : Z) : Z :=
  match k with
  | KPlace => cf_lat_place cf + 1000 * bet_delay
  | KCancel => cf_lat_cancel cf
  | KUpdate => cf_lat_update cf
  | KReplace => cf_lat_replace cf + 1000 * bet_delay
  end.
(* order_package.elapsed_seconds > order_package.simulated_delay *)
Definition due (cf : config) (now : Z) (p : pkg) : bool := delay_ms cf (pk_kind p) (pk_bet_delay p) <? now - pk_created p.

(* ---------- SimulatedExecution ---------- *)
Definition new_order (name strat mk sel : Z) (sd : side) (t : otspec) (now : Z) (repl : bool) : sorder :=
  let '(ty, price, size, ln, pers, fok, mf) :=
    match t with
    | OLimit p s pe f m => (TLimit, p, s, 0, pe, f, m)
    | OLoc l p => (TLoc, p, 0, l, PLapse, false, None)
    | OMoc l => (TMoc, 0, 0, l, PLapse, false, None)
    end in
  {| so_name := name; so_strat := strat; so_market := mk; so_sel := sel; so_side := sd; so_type := ty;
     so_price := price; so_size := size; so_liab_n := ln; so_liab_d := 1;
     so_persist := pers; so_fok := fok; so_minfill := mf; so_repl := repl;
     so_status := SNone; so_log := []; so_complete := false; so_bet := None; so_red := None; so_newprice := None;
     so_frags := []; so_matched := 0; so_avg := 0; so_cancelled := 0; so_lapsed := 0; so_voided := 0;
     so_mver := None; so_piq2 := 0; so_bsp := false;
     so_created := now; so_placed := None; so_stat_t := now; so_done_t := None; so_in_live := false |}.

(* SimulatedExecution._reset_order (repair of F-C03-1): the request is answered, the order goes back to executable unless it has
   completed while the request was in flight *)
Definition reset_order (cs : list status) (now : Z) (o : sorder) : sorder :=
  if status_eqb (so_status o) SExecComplete then o else executable cs now o.

Definition exec_pkg (tb : tiebreak) (cf : config) (now : Z) (s : sim) (p : pkg) : sim :=
  match get_market (pk_market p) (s_markets s) with
  | None => s
  | Some m =>
    match mk_book m, get_order (pk_order p) (mk_orders m) with
    | Some b, Some o =>
      (* BaseOrderPackage.orders filters VIOLATION at every read *)
      if status_eqb (so_status o) SViolation then
        match pk_kind p with
        | KPlace | KReplace => s   (* add_transaction(len(package)) with len = 0 *)
        | _ => s
        end
      else
      let cs := cf_complete cf in
      let c := client_of cf (so_strat o) in
      let put (s : sim) (o' : sorder) := upd_market (pk_market p) (fun m => set_orders m (upd_order (so_name o') (fun _ => o') (mk_orders m))) (s_markets s) in
      let mk_sim (mks : list market) (bet : Z) (nn : Z) (ab : bool) (tx txf : Z) :=
        {| s_markets := mks; s_queue := s_queue s; s_bet := bet; s_removals := s_removals s; s_next_name := nn;
           s_aborted := ab; s_tx := tx; s_tx_failed := txf |} in
      match pk_kind p with
      | KPlace =>
          let bet := s_bet s + 1 in
          let '(o1, ok) := sim_place tb c (mk_static m) b (pk_mv p) o in
          let o2 := set_bet_placed o1 (if ok then Some bet else so_bet o1) (Some now) in
          let o3 := if ok then executable cs now o2 else exec_complete cs now o2 in
          mk_sim (put s o3) bet (s_next_name s) (s_aborted s) (s_tx s + 1) (s_tx_failed s)
      | KCancel =>
          let '(o1, ok, _) := sim_cancel b o in
          let o2 := if ok then (if remaining o1 =? 0 then exec_complete cs now o1 else executable cs now o1)
                    else reset_order cs now o1 in
          mk_sim (put s o2) (s_bet s) (s_next_name s) (s_aborted s) (s_tx s) (s_tx_failed s + (if ok then 0 else 1))
      | KUpdate =>
          let ok := sim_update (mk_static m) b o in
          mk_sim (put s (reset_order cs now o)) (s_bet s) (s_next_name s) (s_aborted s) (s_tx s) (s_tx_failed s + (if ok then 0 else 1))
      | KReplace =>
          (* replace_instructions skips EXECUTION_COMPLETE orders; with one order per package the zip is then empty *)
          if status_eqb (so_status o) SExecComplete then mk_sim (s_markets s) (s_bet s) (s_next_name s) (s_aborted s) (s_tx s + 1) (s_tx_failed s)
          else
          let '(o1, ok, sc) := sim_cancel b o in
          if negb ok then
            mk_sim (put s (reset_order cs now o1)) (s_bet s) (s_next_name s) (s_aborted s) (s_tx s + 1) (s_tx_failed s + 1)
          else
            let o2 := exec_complete cs now o1 in
            let bet := s_bet s + 1 in
            if sc =? 0 then
              (* LimitOrder(size=0.0): size_remaining evaluates `0.0 or None` - the run aborts with a TypeError *)
              mk_sim (put s o2) bet (s_next_name s) true (s_tx s) (s_tx_failed s)
            else
            let newp := match so_newprice o with Some x => x | None => so_price o end in
            let r0 := new_order (s_next_name s) (so_strat o2) (so_market o2) (so_sel o2) (so_side o2)
                                (OLimit newp sc (so_persist o2) false None) (pk_created p) true in
            let '(r1, okp) := sim_place tb c (mk_static m) b (pk_mv p) r0 in
            if okp then
              let r2 := set_bet_placed r1 (Some bet) (Some now) in
              (* market.place_order(replacement, execute=False): order.place -> PENDING, added to the blotter *)
              let r3 := set_live (set_status cs now r2 SPending false) true in
              let r4 := executable cs now r3 in
              let mks := put s o2 in
              let mks := upd_market (pk_market p) (fun m => set_orders m (mk_orders m ++ [r4])) mks in
              mk_sim mks bet (s_next_name s + 1) (s_aborted s) (s_tx s + 1) (s_tx_failed s)
            else
              mk_sim (put s (reset_order cs now o2)) bet (s_next_name s) (s_aborted s) (s_tx s + 1) (s_tx_failed s)
      end
    | _, _ => s
    end
  end.

(* _check_pending_packages(market_id) *)
Definition check_pending (tb : tiebreak) (cf : config) (now : Z) (mid : Z) (s : sim) : sim :=
  let ready := filter (fun p => (pk_market p =? mid) && due cf now p) (s_queue s) in
  let s1 := fold_left (fun s p => if s_aborted s then s else exec_pkg tb cf now s p) ready s in
  {| s_markets := s_markets s1;
     s_queue := filter (fun p => negb ((pk_market p =? mid) && due cf now p)) (s_queue s1);
     s_bet := s_bet s1; s_removals := s_removals s1; s_next_name := s_next_name s1; s_aborted := s_aborted s1;
     s_tx := s_tx s1; s_tx_failed := s_tx_failed s1 |}.

(* ---------- RunnerAnalytics ---------- *)
Fixpoint lookup (k : Z) (l : list (Z * Z)) : option Z :=
  match l with [] => None | (a, b) :: r => if a =? k then Some b else lookup k r end.
Fixpoint assoc_set (k v : Z) (l : list (Z * Z)) : list (Z * Z) :=
  match l with [] => [(k, v)] | (a, b) :: r => if a =? k then (a, v) :: r else (a, b) :: assoc_set k v r end.
(* dict built from a list of (price, size): later duplicates overwrite, first-insertion order kept *)
Definition to_dict (l : list (Z * Z)) : list (Z * Z) := fold_left (fun d ps => assoc_set (fst ps) (snd ps) d) l [].

Definition calc_traded_dict (pv : list (Z * Z)) (tv : list (Z * Z)) : traded :=
  fold_left (fun tr ps =>
               match lookup (fst ps) pv with
               | Some old => if 0 <? snd ps - old then assoc_set (fst ps) (snd ps - old) tr else tr
               | None => assoc_set (fst ps) (snd ps) tr
               end) (to_dict tv) [].

Definition pair_list_eqb (a b : list (Z * Z)) : bool := list_eqb zz_eqb a b.

Definition analytics_step (r : runner) (a : option analytics) : analytics :=
  match a with
  | None => {| an_sel := r_sel r; an_pv := to_dict (r_trd r); an_tv := r_trd r; an_traded := [] |}
  | Some a =>
      if pair_list_eqb (an_tv a) (r_trd r) then {| an_sel := an_sel a; an_pv := an_pv a; an_tv := an_tv a; an_traded := [] |}
      else {| an_sel := an_sel a; an_pv := to_dict (r_trd r); an_tv := r_trd r; an_traded := calc_traded_dict (an_pv a) (r_trd r) |}
  end.

Definition get_an (sel : Z) (l : list analytics) : option analytics := find (fun a => an_sel a =? sel) l.
Fixpoint put_an (a : analytics) (l : list analytics) : list analytics :=
  match l with [] => [a] | x :: r => if an_sel x =? an_sel a then a :: r else x :: put_an a r end.

(* ---------- runner removal ---------- *)
Definition reduce_price (tb : tiebreak) (p adj : Z) : Z :=
  zmax (100 * rnd tb (p * (10000 - adj)) 1000000) 10100.

(* None = the Python raises (TypeError on a missing adjustment factor) *)
Definition removal_order (tb : tiebreak) (mt : mtype) (b : book) (rsel : Z) (adj : option Z) (min_adj : Z) (o : sorder) : option sorder :=
  if so_sel o =? rsel then
    let o1 := set_frags tb o [] in
    Some (upd_buckets o1 (so_cancelled o1) (so_lapsed o1)
                (match so_type o1 with TLimit => so_size o1 | _ => rnd tb (so_liab_n o1) (so_liab_d o1) end))
  else
    match so_type o, so_side o with
    | TMoc, Lay =>
        match adj with
        | None => Some o                      (* no adjustment factor: nothing to reduce (repair of F-C09-2) *)
        | Some a =>
          if a =? 0 then Some o else
          let scale (n d : Z) :=
            let n' := so_liab_n o * n in let d' := so_liab_d o * d in
            let m := if so_avg o =? 0 then so_matched o else rnd tb (n' * 10000) (d' * (so_avg o - 10000)) in
            set_liab_matched o n' d' m in
          match mt with
          | MWin =>
              match find_runner b (so_sel o) with
              | Some r => let ra := match r_adj r with Some x => x | None => 0 end in
                          Some (scale (10000 - ra - a) (10000 - ra))
              | None => None
              end
          | MPlace | MOtherPlace => Some (scale (10000 - a) 10000)
          | _ => Some o
          end
        end
    | _, _ =>
        match adj with
        | Some a =>
            if (negb (a =? 0)) && (min_adj <=? a) then
              let fr := map (fun f => {| f_pt := f_pt f; f_price := reduce_price tb (f_price f) a; f_size := f_size f |}) (so_frags o) in
              (* only average_price_matched is recomputed; size_matched is kept *)
              let avg := snd (wap tb fr) in
              let o1 := set_frags tb o fr in
              Some {| so_name := so_name o1; so_strat := so_strat o1; so_market := so_market o1; so_sel := so_sel o1; so_side := so_side o1; so_type := so_type o1;
                 so_price := so_price o1; so_size := so_size o1; so_liab_n := so_liab_n o1; so_liab_d := so_liab_d o1;
                 so_persist := so_persist o1; so_fok := so_fok o1; so_minfill := so_minfill o1; so_repl := so_repl o1;
                 so_status := so_status o1; so_log := so_log o1; so_complete := so_complete o1; so_bet := so_bet o1;
                 so_red := so_red o1; so_newprice := so_newprice o1;
                 so_frags := fr; so_matched := so_matched o; so_avg := avg;
                 so_cancelled := so_cancelled o1; so_lapsed := so_lapsed o1; so_voided := so_voided o1;
                 so_mver := so_mver o1; so_piq2 := so_piq2 o1; so_bsp := so_bsp o1;
                 so_created := so_created o1; so_placed := so_placed o1; so_stat_t := so_stat_t o1; so_done_t := so_done_t o1;
                 so_in_live := so_in_live o1 |}
            else Some o
        | None => Some o
        end
    end.

Fixpoint apply_removal (f : sorder -> option sorder) (os : list sorder) : list sorder * bool :=
  match os with
  | [] => ([], false)
  | o :: r => match f o with
              | None => (o :: r, true)
              | Some o' => let '(r', e) := apply_removal f r in (o' :: r', e)
              end
  end.

(* ---------- matching of the live orders (per strategy, or per instance) ---------- *)
Definition sort_key_lay (o : sorder) := - so_price o.
Fixpoint insert_by (key : sorder -> Z) (o : sorder) (l : list sorder) : list sorder :=
  match l with
  | [] => [o]
  | x :: r => if key o <? key x then o :: l else x :: insert_by key o r
  end.
(* stable sort ascending by key (Python's sorted) *)
Definition sort_by (key : sorder -> Z) (l : list sorder) : list sorder := fold_left (fun acc o => insert_by key o acc) l [].

Definition is_moc (o : sorder) := match so_type o with TMoc => true | _ => false end.
Definition sort_orders (l : list sorder) : list sorder :=
  sort_by sort_key_lay (filter (fun o => side_eqb (so_side o) Lay && negb (is_moc o)) l)
  ++ sort_by so_price (filter (fun o => side_eqb (so_side o) Back && negb (is_moc o)) l)
  ++ filter is_moc l.

(* one strategy's (or everybody's) sorted live orders against one copy of the traded dicts *)
Definition match_orders (tb : tiebreak) (cf : config) (b : book) (ans : list analytics) (live : list sorder) (orders : list sorder)
  : list sorder :=
  let lookup0 := map (fun a => (an_sel a, an_traded a)) ans in
  let '(orders', _) :=
    fold_left (fun (st : list sorder * list (Z * traded)) (o0 : sorder) =>
                 let '(os, lk) := st in
                 match get_order (so_name o0) os with
                 | None => st
                 | Some o =>
                   let tr := match find (fun e => fst e =? so_sel o) lk with Some e => snd e | None => [] end in
                   match find_runner b (so_sel o) with
                   | None => st
                   | Some r =>
                       let '(o1, tr', done) := on_book tb (client_of cf (so_strat o)) b r tr o in
                       let o2 := if done then exec_complete (cf_complete cf) (b_pt b) o1 else o1 in
                       (upd_order (so_name o) (fun _ => o2) os,
                        map (fun e => if fst e =? so_sel o then (fst e, tr') else e) lk)
                   end
                 end) (sort_orders live) (orders, lookup0) in
  orders'.

Fixpoint strategies_in_order (os : list sorder) (seen : list Z) : list Z :=
  match os with
  | [] => []
  | o :: r => if existsb (Z.eqb (so_strat o)) seen then strategies_in_order r seen
              else so_strat o :: strategies_in_order r (so_strat o :: seen)
  end.

Definition process_sim_orders (tb : tiebreak) (cf : config) (b : book) (ans : list analytics) (orders : list sorder) : list sorder :=
  if cf_isolation cf then
    fold_left (fun os st =>
                 let live := filter (fun o => (so_strat o =? st) && status_in (so_status o) (cf_mw_live cf)) os in
                 match live with [] => os | _ => match_orders tb cf b ans live os end)
              (strategies_in_order orders []) orders
  else
    let live := filter (fun o => so_in_live o) orders in
    match live with
    | [] => orders
    | _ => (* sorted list of the live orders; status re-tested per order at its turn *)
        let lookup0 := map (fun a => (an_sel a, an_traded a)) ans in
        fst (fold_left (fun (st : list sorder * list (Z * traded)) (o0 : sorder) =>
                 let '(os, lk) := st in
                 match get_order (so_name o0) os with
                 | None => st
                 | Some o =>
                   if negb (status_in (so_status o) (cf_mw_live cf)) then st else
                   let tr := match find (fun e => fst e =? so_sel o) lk with Some e => snd e | None => [] end in
                   match find_runner b (so_sel o) with
                   | None => st
                   | Some r =>
                       let '(o1, tr', done) := on_book tb (client_of cf (so_strat o)) b r tr o in
                       let o2 := if done then exec_complete (cf_complete cf) (b_pt b) o1 else o1 in
                       (upd_order (so_name o) (fun _ => o2) os,
                        map (fun e => if fst e =? so_sel o then (fst e, tr') else e) lk)
                   end
                 end) (sort_orders live) (orders, lookup0))
    end.

(* FlumineSimulation._process_simulated_orders: completion sweep over the live list *)
Definition completion_sweep (cf : config) (now : Z) (orders : list sorder) : list sorder :=
  map (fun o =>
         if negb (so_in_live o) then o
         else if so_complete o then set_live o false
         else match so_type o with
              | TLimit => if remaining o =? 0 then set_live (exec_complete (cf_complete cf) now o) false else o
              | _ => if so_bsp o then set_live (exec_complete (cf_complete cf) now o) false else o
              end) orders.

(* SimulatedMiddleware.__call__ *)
Definition middleware (tb : tiebreak) (cf : config) (s : sim) (m : market) (b : book) : sim * market :=
  (* analytics for ACTIVE runners; removals collected against the instance-wide list *)
  let '(ans, rems, newrems) :=
    fold_left (fun (st : list analytics * list (Z * (Z * option Z)) * list (Z * option Z)) (r : runner) =>
                 let '(ans, rems, nr) := st in
                 match r_status r with
                 | RActive => (put_an (analytics_step r (get_an (r_sel r) ans)) ans, rems, nr)
                 | RRemoved =>
                     let key := (r_sel r, r_adj r) in
                     if existsb (fun k => (fst k =? mk_id m) && (fst (snd k) =? fst key) && opt_eqb Z.eqb (snd (snd k)) (snd key)) rems then st
                     else (ans, rems ++ [(mk_id m, key)], nr ++ [key])
                 | _ => st
                 end) (b_runners b) (mk_analytics m, s_removals s, []) in
  let '(orders1, raised) :=
    fold_left (fun (st : list sorder * bool) k =>
                 if snd st then st
                 else apply_removal (removal_order tb (ms_type (mk_static m)) b (fst k) (snd k) (cf_min_adj cf)) (fst st))
              newrems (mk_orders m, false) in
  (* an exception inside the middleware is logged and swallowed: the matching of this update is skipped *)
  let orders2 := if raised then orders1 else if mk_active m then process_sim_orders tb cf b ans orders1 else orders1 in
  ({| s_markets := s_markets s; s_queue := s_queue s; s_bet := s_bet s; s_removals := rems; s_next_name := s_next_name s;
      s_aborted := s_aborted s; s_tx := s_tx s; s_tx_failed := s_tx_failed s |},
   {| mk_id := mk_id m; mk_static := mk_static m; mk_book := Some b; mk_closed := mk_closed m; mk_seen := true;
      mk_analytics := ans; mk_orders := orders2; mk_active := mk_active m |}).

(* ---------- requests (strategy actions at a book callback) ---------- *)
Definition market_open (m : market) : bool :=
  match mk_book m with Some b => mstatus_eqb (b_status b) MOpen | None => false end.

(* OrderValidation is run for every request kind; on a placed order it can only fail when a
   market-on-close lay liability was scaled off the penny grid by a non-runner *)
Definition order_validation_ok (o : sorder) : bool :=
  match so_type o with
  | TLimit => true
  | _ => (0 <? so_liab_n o) && ((so_liab_n o * 100) mod so_liab_d o =? 0) && ((so_liab_n o) mod so_liab_d o =? 0)
  end.

Definition request0 (cf : config) (now : Z) (strat : Z) (mid : Z) (s : sim) (a : action) : sim :=
  match get_market mid (s_markets s) with
  | None => s
  | Some m =>
    let cs := cf_complete cf in
    let bet_delay := match mk_book m with Some b => b_delay b | None => 0 end in
    let with_orders (os : list sorder) (q : list pkg) :=
      {| s_markets := upd_market mid (fun m => set_orders m os) (s_markets s); s_queue := q; s_bet := s_bet s;
         s_removals := s_removals s; s_next_name := s_next_name s; s_aborted := s_aborted s; s_tx := s_tx s; s_tx_failed := s_tx_failed s |} in
    match a with
    | APlace name sel sd t mv =>
        let o := new_order name strat mid sel sd t now false in
        if negb (market_open m) then s      (* MarketValidation: refused, VIOLATION, never enters the blotter *)
        else
          let o1 := set_live (set_status cs now o SPending false) true in
          with_orders (mk_orders m ++ [o1])
                      (s_queue s ++ [{| pk_kind := KPlace; pk_market := mid; pk_order := name; pk_created := now; pk_bet_delay := bet_delay; pk_mv := mv |}])
    | ACancel name red =>
        match get_order name (mk_orders m) with
        | None => s
        | Some o =>
          if negb (order_validation_ok o) || negb (market_open m) then s  (* refused by a control: the placed order keeps its status *)
          else match so_bet o, so_type o with
               | Some _, TLimit =>
                   if (match red with Some x => negb (x =? 0) && (remaining o - x <? 0) | None => false end) then s
                   else if negb (status_eqb (so_status o) SExecutable) then s
                   else with_orders (upd_order name (fun o => set_status cs now (set_upd o red (so_newprice o) (so_persist o)) SCancelling false) (mk_orders m))
                                    (s_queue s ++ [{| pk_kind := KCancel; pk_market := mid; pk_order := name; pk_created := now; pk_bet_delay := bet_delay; pk_mv := None |}])
               | _, _ => s
               end
        end
    | AUpdate name p =>
        match get_order name (mk_orders m) with
        | None => s
        | Some o =>
          if negb (order_validation_ok o) || negb (market_open m) then s
          else match so_bet o, so_type o with
               | Some _, TLimit =>
                   if persist_eqb (so_persist o) p then s
                   else if negb (status_eqb (so_status o) SExecutable) then s
                   else with_orders (upd_order name (fun o => set_status cs now (set_upd o (so_red o) (so_newprice o) p) SUpdating false) (mk_orders m))
                                    (s_queue s ++ [{| pk_kind := KUpdate; pk_market := mid; pk_order := name; pk_created := now; pk_bet_delay := bet_delay; pk_mv := None |}])
               | _, _ => s
               end
        end
    | AReplace name price mv =>
        match get_order name (mk_orders m) with
        | None => s
        | Some o =>
          if negb (order_validation_ok o) || negb (market_open m) then s
          else match so_bet o, so_type o with
               | Some _, TLimit | Some _, TLoc =>
                   if so_price o =? price then s
                   else if negb (status_eqb (so_status o) SExecutable) then s
                   else with_orders (upd_order name (fun o => set_status cs now (set_upd o (so_red o) (Some price) (so_persist o)) SReplacing false) (mk_orders m))
                                    (s_queue s ++ [{| pk_kind := KReplace; pk_market := mid; pk_order := name; pk_created := now; pk_bet_delay := bet_delay; pk_mv := mv |}])
               | _, _ => s
               end
        end
    | AOn _ _ => s
    end
  end.

(* a request names its market: the one being processed, or (AOn) another one of the same framework; the time of the request is
   the time of the update being processed in both cases *)
Definition request (cf : config) (now : Z) (strat : Z) (mid : Z) (s : sim) (a : action) : sim :=
  match a with
  | AOn mid' a' => request0 cf now strat mid' s a'
  | _ => request0 cf now strat mid s a
  end.

(* ---------- one market book ---------- *)
Definition script := Z -> Z -> Z -> list action.   (* strategy, market, update index -> actions *)

Record event := { ev_market : Z; ev_idx : Z; ev_book : book }.

Definition step (tb : tiebreak) (cf : config) (nstrat : Z) (sc : script) (s : sim) (e : event) : sim :=
  if s_aborted s then s else
  let b := ev_book e in
  let now := b_pt b in
  let mid := ev_market e in
  let s1 := match s_queue s with [] => s | _ => check_pending tb cf now mid s end in
  if s_aborted s1 then s1 else
  match get_market mid (s_markets s1) with
  | None => s1
  | Some m =>
    if mstatus_eqb (b_status b) MClosed then
      (* _process_close_market: only for a market already known; analytics dropped (remove_market) *)
      if mk_seen m then
        {| s_markets := upd_market mid (fun m => {| mk_id := mk_id m; mk_static := mk_static m; mk_book := Some b; mk_closed := true; mk_seen := true;
                                                     mk_analytics := []; mk_orders := mk_orders m; mk_active := mk_active m |}) (s_markets s1);
           s_queue := s_queue s1; s_bet := s_bet s1; s_removals := s_removals s1; s_next_name := s_next_name s1; s_aborted := s_aborted s1;
           s_tx := s_tx s1; s_tx_failed := s_tx_failed s1 |}
      else s1
    else
      let m0 := {| mk_id := mk_id m; mk_static := mk_static m; mk_book := mk_book m; mk_closed := false; mk_seen := mk_seen m;
                   mk_analytics := mk_analytics m; mk_orders := mk_orders m; mk_active := mk_active m |} in
      let '(s2, m1) := middleware tb cf s1 m0 b in
      let m2 := if mk_active m1 then set_orders m1 (completion_sweep cf now (mk_orders m1)) else m1 in
      let s3 := {| s_markets := upd_market mid (fun _ => m2) (s_markets s2); s_queue := s_queue s2; s_bet := s_bet s2;
                   s_removals := s_removals s2; s_next_name := s_next_name s2; s_aborted := s_aborted s2; s_tx := s_tx s2; s_tx_failed := s_tx_failed s2 |} in
      (* strategies in registration order; each runs its scripted actions for this (market, update) *)
      fold_left (fun s st => fold_left (request cf now st mid) (sc st mid (ev_idx e)) s)
                (map Z.of_nat (seq 0 (Z.to_nat nstrat))) s3
  end.

(* observation after each event: the orders of the event's market (what a strategy sees at its NEXT call is the
   state after this step; the harness samples at the beginning of process_market_book, i.e. before the actions) *)
Definition step_obs (tb : tiebreak) (cf : config) (nstrat : Z) (sc : script) (s : sim) (e : event) : sim * (list sorder * Z) :=
  if s_aborted s then (s, ([], 0)) else
  let b := ev_book e in
  let now := b_pt b in
  let mid := ev_market e in
  let s1 := match s_queue s with [] => s | _ => check_pending tb cf now mid s end in
  if s_aborted s1 then (s1, ([], 0)) else
  match get_market mid (s_markets s1) with
  | None => (s1, ([], 0))
  | Some m =>
    if mstatus_eqb (b_status b) MClosed then (step tb cf nstrat sc s e, (mk_orders m, s_tx s1 + s_tx_failed s1))
    else
      let m0 := {| mk_id := mk_id m; mk_static := mk_static m; mk_book := mk_book m; mk_closed := false; mk_seen := mk_seen m;
                   mk_analytics := mk_analytics m; mk_orders := mk_orders m; mk_active := mk_active m |} in
      let '(s2, m1) := middleware tb cf s1 m0 b in
      let m2 := if mk_active m1 then set_orders m1 (completion_sweep cf now (mk_orders m1)) else m1 in
      (step tb cf nstrat sc s e, (mk_orders m2, s_tx s1 + s_tx_failed s1))
  end.

Fixpoint run_obs (tb : tiebreak) (cf : config) (nstrat : Z) (sc : script) (s : sim) (es : list event) : list (list sorder * Z) * sim :=
  match es with
  | [] => ([], s)
  | e :: r => let '(s1, ob) := step_obs tb cf nstrat sc s e in
              let '(obs, sf) := run_obs tb cf nstrat sc s1 r in (ob :: obs, sf)
  end.

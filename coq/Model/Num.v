(* Num.v — exact decimal arithmetic on Z with an explicit tie-breaker.
   Model of Python's round(x, 2) / round(x) on values that live on a decimal
   grid: [rnd tb n d] is the integer nearest to n/d (d > 0); on an exact tie the
   parameter [tb] chooses between the two neighbours.  Every theorem is proved
   for all [tb], so whatever the binary float does on a tie is covered.
   Executable definitions only; proofs are in Proofs/NumP.v. *)
From Coq Require Export ZArith List Bool.
Export ListNotations.
Open Scope Z_scope.

Definition tiebreak := Z -> Z -> bool.   (* numerator, denominator -> round up? *)
Definition tb_up   : tiebreak := fun _ _ => true.
Definition tb_down : tiebreak := fun _ _ => false.

(* nearest integer to n/d, d > 0 *)
Definition rnd (tb : tiebreak) (n d : Z) : Z :=
  let q := (2 * n + d) / (2 * d) in
  if (2 * n + d) mod (2 * d) =? 0 then (if tb n d then q else q - 1) else q.

(* ROUND_HALF_UP on a non-negative rational (Decimal.quantize(..., ROUND_HALF_UP)) *)
Definition rnd_half_up (n d : Z) : Z := (2 * n + d) / (2 * d).

Definition zmax (a b : Z) := if a <? b then b else a.
Definition zmin (a b : Z) := if a <? b then a else b.

Fixpoint sumZ (l : list Z) : Z :=
  match l with [] => 0 | x :: r => x + sumZ r end.

(* generic helpers used by the correspondence cases *)
Fixpoint bad_idx_aux {A} (ok : A -> bool) (l : list A) (i : N) : list N :=
  match l with
  | [] => []
  | x :: r => if ok x then bad_idx_aux ok r (i + 1)%N else i :: bad_idx_aux ok r (i + 1)%N
  end.
Definition bad_idx {A} (ok : A -> bool) (l : list A) : list N := bad_idx_aux ok l 0%N.

Fixpoint list_eqb {A} (eqb : A -> A -> bool) (a b : list A) : bool :=
  match a, b with
  | [], [] => true
  | x :: a', y :: b' => eqb x y && list_eqb eqb a' b'
  | _, _ => false
  end.
Definition opt_eqb {A} (eqb : A -> A -> bool) (a b : option A) : bool :=
  match a, b with
  | None, None => true
  | Some x, Some y => eqb x y
  | _, _ => false
  end.
Definition pair_eqb {A B} (ea : A -> A -> bool) (eb : B -> B -> bool) (a b : A * B) : bool :=
  ea (fst a) (fst b) && eb (snd a) (snd b).
Definition zz_eqb := pair_eqb Z.eqb Z.eqb.
Definition lz_eqb := list_eqb Z.eqb.

(* SimCases.v — evaluation helpers for the correspondence of the simulation model. *)
From V Require Import Model.Num Model.Status Model.Sim Model.SimLoop Model.SimGuard Gen.StatusC.
Open Scope Z_scope.

Definition oobs := (Z * status * list status * list Z * list (Z * Z * Z) * Z * option Z * bool)%type.

Definition obs_of (o : sorder) : oobs :=
  (so_name o, so_status o, so_log o,
   [so_matched o; so_avg o; remaining o; so_cancelled o; so_lapsed o; so_voided o],
   map (fun f => (f_pt f, f_price f, f_size f)) (so_frags o), so_piq2 o, so_placed o, so_in_live o).

Definition zzz_eqb (a b : Z * Z * Z) := (fst (fst a) =? fst (fst b)) && (snd (fst a) =? snd (fst b)) && (snd a =? snd b).
Definition oobs_eqb (a b : oobs) : bool :=
  let '(n1, s1, l1, b1, f1, p1, pl1, lv1) := a in
  let '(n2, s2, l2, b2, f2, p2, pl2, lv2) := b in
  (n1 =? n2) && status_eqb s1 s2 && list_eqb status_eqb l1 l2 && lz_eqb b1 b2 && list_eqb zzz_eqb f1 f2
  && (p1 =? p2) && opt_eqb Z.eqb pl1 pl2 && Bool.eqb lv1 lv2.

Definition mkcfg (lp lc lu lr : Z) (iso : bool) (cls : list client) : config :=
  {| cf_lat_place := lp; cf_lat_cancel := lc; cf_lat_update := lu; cf_lat_replace := lr; cf_isolation := iso;
     cf_complete := COMPLETE_STATUS; cf_mw_live := MW_LIVE_STATUS; cf_min_adj := WIN_MIN_ADJ_FACTOR_X100; cf_clients := cls |}.

Definition mkmarket (id : Z) (ms : mstatic) : market :=
  {| mk_id := id; mk_static := ms; mk_book := None; mk_closed := false; mk_seen := false; mk_analytics := []; mk_orders := []; mk_active := false |}.
Definition sim0 (ms : list market) : sim :=
  {| s_markets := ms; s_queue := []; s_bet := 0; s_removals := []; s_next_name := 1000; s_aborted := false; s_tx := 0; s_tx_failed := 0 |}.

Definition script_of (l : list (Z * Z * Z * list action)) : script :=
  fun st mk idx => concat (map (fun e => let '(a, b, c, acts) := e in if (a =? st) && (b =? mk) && (c =? idx) then acts else []) l).

Record scen := { sc_cfg : config; sc_nstrat : Z; sc_script : list (Z * Z * Z * list action); sc_markets : list market;
                 sc_events : list event; sc_expect : list (list oobs * Z); sc_abort : bool; sc_tx : Z * Z }.

Definition model_run (tb : tiebreak) (sc : scen) : list (list oobs * Z) * bool * (Z * Z) :=
  let '(obs, sf) := run_obs tb (sc_cfg sc) (sc_nstrat sc) (script_of (sc_script sc)) (sim0 (sc_markets sc)) (sc_events sc) in
  (map (fun x => (map obs_of (fst x), snd x)) obs, s_aborted sf, (s_tx sf, s_tx_failed sf)).

Definition ev_eqb (x y : list oobs * Z) : bool := list_eqb oobs_eqb (fst x) (fst y) && (snd x =? snd y).
Definition runs_eqb (a b : list (list oobs * Z)) : bool := list_eqb ev_eqb a b.

(* first event at which the orders agree everywhere so far but the transaction total differs *)
Fixpoint first_tx_diff (a b : list (list oobs * Z)) (i : Z) : Z :=
  match a, b with
  | x :: a', y :: b' => if list_eqb oobs_eqb (fst x) (fst y) then (if snd x =? snd y then first_tx_diff a' b' (i + 1) else i) else -1
  | _, _ => -1
  end.
Fixpoint first_diff (a b : list (list oobs * Z)) (i : Z) : Z :=
  match a, b with
  | [], [] => -1
  | x :: a', y :: b' => if ev_eqb x y then first_diff a' b' (i + 1) else i
  | _, _ => i
  end.

(* 0 equal; 1 rounding-ambiguous; 2 mismatch (with index of the first differing event: 1000 + i) *)
Definition scen_cmp (sc : scen) : Z :=
  let '(u, au, txu) := model_run tb_up sc in
  let '(d, ad, txd) := model_run tb_down sc in
  if runs_eqb u d then
    (if sc_abort sc then (if au then 0 else 2000000)
     else if au then 2000001
     else if runs_eqb u (sc_expect sc) then (if fst txu + snd txu =? fst (sc_tx sc) then 0 else 3000000) else (if 0 <=? first_tx_diff u (sc_expect sc) 0 then 4000000 + first_tx_diff u (sc_expect sc) 0 else 1000 + first_diff u (sc_expect sc) 0))
  else 1.

(* side conditions of the whole-run conservation theorem (Proofs/SimRunP.v run_conserves_b), evaluated per scenario:
   bit 0 = every placement package found its order as created, bit 1 = the scenario's books and script are in the domain of the
   conservation theorem (no removed runner, no reconciled starting price, positive ladders), bit 2 = side condition of the
   acknowledgement-time theorem C07_run_ack_after_latency (must hold on EVERY scenario), bit 3 = side condition of the names theorem
   C13_order_names_unique_in_every_reachable_state: every (market, name) used once, names below 1000 (must hold on EVERY scenario), bit 4 = the static side conditions
   of the *_static theorems (configuration, initial state, books incl. bet delays): with bit 3 they make bits 0 and 2 theorems,
   bit 5 = order sizes strictly positive (extra hypothesis of the C03 whole-run theorems), bit 6 = the conclusion of those theorems evaluated on the
   final state of this scenario (every status log a lifecycle path ending in the status, no two queued packages for one order): with bits 3, 4, 5 a theorem *)
Definition scen_hyp (sc : scen) : Z :=
  let scr := script_of (sc_script sc) in
  let g := run_guard_b tb_up (sc_cfg sc) (sc_nstrat sc) scr (sc_events sc) (sim0 (sc_markets sc))
           && run_guard_b tb_down (sc_cfg sc) (sc_nstrat sc) scr (sc_events sc) (sim0 (sc_markets sc)) in
  let d := forallb (event_b scr (sc_nstrat sc)) (sc_events sc) in
  let a := run_ack_guard_b tb_up (sc_cfg sc) (sc_nstrat sc) scr (sc_events sc) (sim0 (sc_markets sc))
           && run_ack_guard_b tb_down (sc_cfg sc) (sc_nstrat sc) scr (sc_events sc) (sim0 (sc_markets sc)) in
  let k := keys_ok_b scr (sc_nstrat sc) (sc_events sc) in
  let st := cfg_ok_b (sc_cfg sc) && initial_b (sim0 (sc_markets sc)) && forallb (event_b2 scr (sc_nstrat sc)) (sc_events sc) in
  let pos := forallb (event_b3 scr (sc_nstrat sc)) (sc_events sc) in
  let life (tb : tiebreak) :=
    let sf := fold_left (step tb (sc_cfg sc) (sc_nstrat sc) scr) (sc_events sc) (sim0 (sc_markets sc)) in
    forallb (fun m => forallb (fun o => lifecycle_path SNone (so_log o) && status_eqb (last (so_log o) SNone) (so_status o)) (mk_orders m)) (s_markets sf)
    && nodup_keys_b (map (fun p => (pk_market p, pk_order p)) (s_queue sf)) in
  (if g then 1 else 0) + (if d then 2 else 0) + (if a then 4 else 0) + (if k then 8 else 0) + (if st then 16 else 0)
  + (if pos then 32 else 0) + (if life tb_up && life tb_down then 64 else 0).

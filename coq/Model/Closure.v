(* Closure.v — model of BaseFlumine._process_market_books (closure part), _process_close_market,
   Markets.add_market/close_market/remove_market, Market.open_market/close_market, _remove_market,
   FlumineSimulation's CLOSED branch.  Time in seconds. *)
From V Require Export Model.Num.
Open Scope Z_scope.

Inductive cstatus := CsOpen | CsSuspended | CsClosed.
Record cmarket := { cm_id : Z; cm_closed : bool; cm_closed_at : Z; cm_flags : bool (* cleared flags non-empty *);
                    cm_ctx : list Z (* strategies holding runner accounting for it *); cm_mw : bool (* middleware entry *) }.
Record cstate := { cs_now : Z; cs_markets : list cmarket }.

(* outputs of one step: closed-market callbacks (strategy, market), cleared events (sim) *)
Inductive cout := OClosedCb (strat m : Z) | OBookCb (strat m : Z) | OClearedOrders (m : Z) | OClearedMarket (m client : Z).

Inductive cev :=
  | EBook (m : Z) (st : cstatus) (subs : list Z) (* strategies subscribed to the stream + those with an empty filter *)
  | EAdvance (secs : Z)
  | EWorkerCleared (m : Z).                   (* live: poll_market_closure marks the market cleared *)

Definition cget (m : Z) (l : list cmarket) : option cmarket := find (fun x => cm_id x =? m) l.
Fixpoint cupd (m : Z) (f : cmarket -> cmarket) (l : list cmarket) : list cmarket :=
  match l with [] => [] | x :: r => if cm_id x =? m then f x :: r else x :: cupd m f r end.

Definition reopen (x : cmarket) : cmarket :=
  if cm_closed x then {| cm_id := cm_id x; cm_closed := false; cm_closed_at := cm_closed_at x; cm_flags := false; cm_ctx := cm_ctx x; cm_mw := cm_mw x |} else x.
Definition fresh_market (m : Z) : cmarket := {| cm_id := m; cm_closed := false; cm_closed_at := 0; cm_flags := false; cm_ctx := []; cm_mw := true |}.
Definition touch (subs : list Z) (x : cmarket) : cmarket :=
  {| cm_id := cm_id x; cm_closed := cm_closed x; cm_closed_at := cm_closed_at x; cm_flags := cm_flags x;
     cm_ctx := fold_left (fun acc s => if existsb (Z.eqb s) acc then acc else acc ++ [s]) subs (cm_ctx x); cm_mw := true |}.
Definition close_at (now : Z) (x : cmarket) : cmarket :=
  {| cm_id := cm_id x; cm_closed := true; cm_closed_at := (if cm_closed x then cm_closed_at x else now); cm_flags := cm_flags x; cm_ctx := cm_ctx x; cm_mw := cm_mw x |}.
Definition release (x : cmarket) : cmarket :=
  {| cm_id := cm_id x; cm_closed := cm_closed x; cm_closed_at := cm_closed_at x; cm_flags := cm_flags x; cm_ctx := []; cm_mw := false |}.

(* live framework *)
Definition live_step (s : cstate) (e : cev) : cstate * list cout :=
  match e with
  | EAdvance d => ({| cs_now := cs_now s + d; cs_markets := cs_markets s |}, [])
  | EWorkerCleared m => ({| cs_now := cs_now s; cs_markets := cupd m (fun x => {| cm_id := cm_id x; cm_closed := cm_closed x; cm_closed_at := cm_closed_at x; cm_flags := true; cm_ctx := cm_ctx x; cm_mw := cm_mw x |}) (cs_markets s) |}, [])
  | EBook m st subs =>
      let ms1 := match cget m (cs_markets s) with
                 | None => cs_markets s ++ [fresh_market m]
                 | Some _ => cupd m reopen (cs_markets s)
                 end in
      match st with
      | CsClosed =>
          (* CloseMarketEvent processed from the handler queue *)
          let ms2 := cupd m (close_at (cs_now s)) ms1 in
          let ms3 := filter (fun x => negb (cm_closed x && (3600 <? cs_now s - cm_closed_at x))) ms2 in
          ({| cs_now := cs_now s; cs_markets := ms3 |}, map (fun st => OClosedCb st m) subs)
      | _ =>
          ({| cs_now := cs_now s; cs_markets := cupd m (touch subs) ms1 |}, map (fun st => OBookCb st m) subs)
      end
  end.

(* simulation: [known] = the market has been seen with a non-closed book before; nclients cleared summaries; orders? *)
Definition sim_step (nclients : Z) (has_orders : Z -> bool) (s : cstate) (e : cev) : cstate * list cout :=
  match e with
  | EBook m st subs =>
      match st with
      | CsClosed =>
          match cget m (cs_markets s) with
          | None => (s, [])                                   (* "Market not present when closing": dropped *)
          | Some _ =>
              let ms2 := cupd m (fun x => release (close_at (cs_now s) x)) (cs_markets s) in
              ({| cs_now := cs_now s; cs_markets := ms2 |},
               map (fun st => OClosedCb st m) subs ++ (if has_orders m then [OClearedOrders m] else [])
               ++ map (fun c => OClearedMarket m (Z.of_nat c)) (seq 0 (Z.to_nat nclients)))
          end
      | _ =>
          let ms1 := match cget m (cs_markets s) with
                     | None => cs_markets s ++ [fresh_market m]
                     | Some _ => cupd m reopen (cs_markets s)
                     end in
          ({| cs_now := cs_now s; cs_markets := cupd m (touch subs) ms1 |}, map (fun st => OBookCb st m) subs)
      end
  | EAdvance d => ({| cs_now := cs_now s + d; cs_markets := cs_markets s |}, [])
  | EWorkerCleared _ => (s, [])
  end.

Fixpoint crun (step : cstate -> cev -> cstate * list cout) (s : cstate) (es : list cev) : list (cstate * list cout) :=
  match es with [] => [] | e :: r => let '(s1, o) := step s e in (s1, o) :: crun step s1 r end.

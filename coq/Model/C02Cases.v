From V Require Import Model.Num Model.Status Model.Sim Model.Txn Gen.TxnC.
Open Scope Z_scope.
(* script item: a request with the controls' verdict, or execute / begin / end of a transaction block *)
Inductive item := IReq (r : treq) (ctl_ok : bool) | IExec | IBegin | IEnd.
Definition res_code (r : tres) : Z := match r with TAccepted => 0 | TRefused => 1 | TRaisedGuard => 2 | TRaisedClient => 3 | TRaisedPlaced => 4 end.
Definition mk_t (name : Z) (st : status) (bet : bool) (ty : otype) (p : persist) (price rem : Z) (inb : bool) : tord :=
  {| to_name := name; to_status := st; to_bet := bet; to_type := ty; to_persist := p; to_price := price; to_remaining := rem;
     to_in_blotter := inb; to_client := 0; to_red := None; to_newprice := None; to_ctx := false |}.
Definition pkg_out := (Z * option Z * list Z)%type.
Definition kcode (k : kind) : Z := match k with KdPlace => 0 | KdCancel => 1 | KdUpdate => 2 | KdReplace => 3 end.
Definition pk_of (p : package) : pkg_out := (kcode (pg_kind p), pg_mv p, pg_orders p).
(* run: inside a block requests share the transaction; outside each request is its own transaction (market.x_order) *)
Fixpoint run_items (lim : limits_of) (cur : option txn) (os : list tord) (its : list item) : list Z * list package * list tord :=
  match its with
  | [] => ([], match cur with Some t => snd (txn_exit lim t) | None => [] end, os)
  | it :: r =>
      match it with
      | IBegin => run_items lim (Some (txn0 0)) os r
      | IEnd => let ps := match cur with Some t => snd (txn_exit lim t) | None => [] end in
                let '(rs, ps2, os2) := run_items lim None os r in (rs, ps ++ ps2, os2)
      | IExec => match cur with
                 | Some t => let '(t', ps) := execute lim t in let '(rs, ps2, os2) := run_items lim (Some t') os r in (rs, ps ++ ps2, os2)
                 | None => run_items lim None os r
                 end
      | IReq q ok =>
          match cur with
          | Some t => let '(t', os', res) := do_req ok t os q in
                      let '(rs, ps2, os2) := run_items lim (Some t') os' r in (res_code res :: rs, ps2, os2)
          | None => (* market.cancel/update/replace_order open a transaction for the ORDER's client; market.place_order for client 0 *)
                    let c := match q with
                             | TPlace _ _ _ _ => 0
                             | TCancel n _ _ | TUpdate n _ _ | TReplace n _ _ _ => match tget n os with Some o => to_client o | None => 0 end
                             end in
                    let '(t', os', res) := do_req ok (txn0 c) os q in
                    let ps := snd (txn_exit lim t') in
                    let '(rs, ps2, os2) := run_items lim None os' r in (res_code res :: rs, ps ++ ps2, os2)
          end
      end
  end.
Definition obs_t (o : tord) := (to_name o, to_status o, to_in_blotter o, to_ctx o, to_red o, to_newprice o, to_persist o).
Definition case := (limits_of * list tord * list item * (list Z * list pkg_out * list (Z * status * bool * bool * option Z * option Z * persist)))%type.
Definition pkg_eqb (a b : pkg_out) : bool :=
  (fst (fst a) =? fst (fst b)) && opt_eqb Z.eqb (snd (fst a)) (snd (fst b)) && lz_eqb (snd a) (snd b).
Definition obs_eqb (a b : Z * status * bool * bool * option Z * option Z * persist) : bool :=
  let '(n1, s1, b1, c1, r1, p1, pe1) := a in let '(n2, s2, b2, c2, r2, p2, pe2) := b in
  (n1 =? n2) && status_eqb s1 s2 && Bool.eqb b1 b2 && Bool.eqb c1 c2 && opt_eqb Z.eqb r1 r2 && opt_eqb Z.eqb p1 p2 && persist_eqb pe1 pe2.
Definition case_ok (lim : limits_of) (c : list tord * list item * (list Z * list pkg_out * list (Z * status * bool * bool * option Z * option Z * persist))) : bool :=
  let '(os, its, (eres, epk, eobs)) := c in
  let '(rs, ps, os') := run_items lim None os its in
  lz_eqb rs eres && list_eqb pkg_eqb (map pk_of ps) epk && list_eqb obs_eqb (map obs_t os') eobs.

(* Examples.v — concrete orders / books used by the non-vacuity examples and refutation witnesses. *)
From V Require Export Model.Num Model.Status Model.Sim Model.SimLoop Gen.StatusC Model.SimCases.
Open Scope Z_scope.

Definition xorder (name sel : Z) (sd : side) (p s : Z) (st : status) (m avg c l v : Z) (fr : list frag) : sorder :=
  {| so_name := name; so_strat := 0; so_market := 0; so_sel := sel; so_side := sd; so_type := TLimit; so_price := p; so_size := s;
     so_liab_n := 0; so_liab_d := 1; so_persist := PLapse; so_fok := false; so_minfill := None; so_repl := false;
     so_status := st; so_log := [SPending; st]; so_complete := status_in st COMPLETE_STATUS; so_bet := Some 1; so_red := None; so_newprice := None;
     so_frags := fr; so_matched := m; so_avg := avg; so_cancelled := c; so_lapsed := l; so_voided := v;
     so_mver := Some 1; so_piq2 := 0; so_bsp := false; so_created := 0; so_placed := Some 1; so_stat_t := 1; so_done_t := None; so_in_live := true |}.

Definition xrunner (sel : Z) (st : rstatus) (adj : option Z) (atb atl trd : list (Z * Z)) : runner :=
  {| r_sel := sel; r_status := st; r_adj := adj; r_atb := atb; r_atl := atl; r_trd := trd; r_sp := None |}.
Definition xbook (pt : Z) (st : mstatus) (ver : Z) (rs : list runner) : book :=
  {| b_pt := pt; b_status := st; b_version := ver; b_inplay := false; b_bsp_rec := false; b_delay := 0; b_runners := rs |}.
Definition std_static := {| ms_bsp := true; ms_persist := true; ms_type := MWin |}.
Definition std_cfg := mkcfg 120 170 150 280 true [{| c_bpe := true; c_full := false; c_min_bsp := 1000 |}].

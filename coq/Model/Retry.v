(* Retry.v — BetfairExecution._execution_helper with BaseOrderPackage.retry:
   the call is attempted; on BetfairError it is retried while retry_count < max_retries; attempt k (0-based) raises iff k < errors. *)
From Coq Require Export ZArith List Bool.
Open Scope Z_scope.

Fixpoint helper (fuel : nat) (retry_count max errors calls : Z) : Z * bool :=
  match fuel with
  | O => (calls, false)
  | S f =>
      if calls <? errors
      then if retry_count <? max then helper f (retry_count + 1) max errors (calls + 1) else (calls + 1, false)   (* reset_orders *)
      else (calls + 1, true)                                                                                   (* answered *)
  end.
Definition run_helper (max errors : Z) : Z * bool := helper (Z.to_nat max + 2) 0 max errors 0.

(* LiveCases.v — observation of the live model, compared with the real Flumine + BetfairExecution + process_current_orders. *)
From V Require Export Model.Live Gen.StatusC.
Open Scope Z_scope.

Fixpoint zinsert' (x : Z) (l : list Z) : list Z := match l with [] => [x] | y :: r => if x <=? y then x :: l else y :: zinsert' x r end.
Definition zsort' (l : list Z) : list Z := fold_right zinsert' [] l.

Definition st_code (s : status) : Z :=
  match s with SNone => 0 | SPending => 1 | SCancelling => 2 | SUpdating => 3 | SReplacing => 4 | SExecutable => 5 | SExecComplete => 6 | SExpired => 7 | SViolation => 8 end.
Definition ts_code (t : tstatus) : Z := match t with TLive => 0 | TPending => 1 | TComplete => 2 end.

(* one order: [name; status; complete; bet (-1 = none); matched; remaining; in live list; trade status] ++ -7 :: log ++ -8 :: trade log ++ -9 :: names of the trade's orders *)
Definition obs_order (s : lstate) (o : lorder) : list Z :=
  let t := tget' (lo_trade o) (ls_trades s) in
  [lo_name o; st_code (lo_status o); if lo_complete o then 1 else 0; match lo_bet o with Some b => b | None => -1 end; lo_matched o; lo_remaining o;
   if lo_in_live o then 1 else 0; match t with Some t => ts_code (lt_status t) | None => -1 end]
  ++ (-7) :: map st_code (lo_log o)
  ++ (-8) :: match t with Some t => map ts_code (lt_log t) | None => [] end
  ++ (-9) :: zsort' (map lo_name (filter (fun x => lo_trade x =? lo_trade o) (ls_orders s))).
Definition obs_ctx (c : rctx) : list Z := [rc_strat c; rc_sel c; Z.of_nat (length (rc_trades c)); Z.of_nat (length (rc_live c)); rc_resets c].
Definition ctx_key (c : rctx) : Z := rc_strat c * 1000000 + rc_sel c.
Fixpoint cinsert (x : rctx) (l : list rctx) : list rctx := match l with [] => [x] | y :: r => if ctx_key x <=? ctx_key y then x :: l else y :: cinsert x r end.
Definition csort (l : list rctx) : list rctx := fold_right cinsert [] l.
Definition lobs := (list (list Z) * list (list Z) * (Z * Z))%type.
Definition obs_state (s : lstate) : lobs :=
  (map (obs_order s) (filter lo_in_blotter (ls_orders s)),
   map obs_ctx (csort (filter (fun c => negb (length (rc_trades c) =? 0)%nat || negb (rc_resets c =? 0)) (ls_ctx s))),
   (ls_tx s, ls_tx_failed s)).
Definition llz_eqb := list_eqb lz_eqb.
Definition lobs_eqb (a b : lobs) : bool :=
  llz_eqb (fst (fst a)) (fst (fst b)) && llz_eqb (snd (fst a)) (snd (fst b)) && zz_eqb (snd a) (snd b).

Fixpoint run_cmp (s : lstate) (es : list (levent * lobs)) (i : Z) : Z :=
  match es with
  | [] => 0
  | (e, want) :: r => let s' := lstep s e in if lobs_eqb (obs_state s') want then run_cmp s' r (i + 1) else 1000 + i
  end.
Definition live_cmp (es : list (levent * lobs)) : Z := run_cmp (lstate0 COMPLETE_STATUS) es 0.
Definition live_trace (es : list levent) : list lobs :=
  snd (fold_left (fun acc e => let s' := lstep (fst acc) e in (s', snd acc ++ [obs_state s'])) es (lstate0 COMPLETE_STATUS, [])).

Fixpoint run_cmp_opt (s : lstate) (es : list (levent * option lobs)) (i : Z) : Z :=
  match es with
  | [] => 0
  | (e, want) :: r => if negb (wfe_b s e) then 5000 + i else     (* the trace itself is not well-formed: a reference is re-used *)
                      let s' := lstep s e in
                      match want with
                      | Some w => if lobs_eqb (obs_state s') w then run_cmp_opt s' r (i + 1) else 1000 + i
                      | None => run_cmp_opt s' r (i + 1)
                      end
  end.
Definition live_cmp_opt (es : list (levent * option lobs)) : Z := run_cmp_opt (lstate0 COMPLETE_STATUS) es 0.
Definition live_obs_at (es : list (levent * option lobs)) (n : nat) : lobs := obs_state (lrun (lstate0 COMPLETE_STATUS) (map fst (firstn n es))).

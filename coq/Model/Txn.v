(* Txn.v — model of execution/transaction.py Transaction (requests, batching, packaging), utils.chunks,
   BaseOrderPackage.order_limit, the order guards of BetfairOrder.cancel/update/replace and BaseControl._on_error. *)
From V Require Export Model.Num Model.Status Model.Sim.
Open Scope Z_scope.

Inductive kind := KdPlace | KdCancel | KdUpdate | KdReplace.
Definition kind_eqb (a b : kind) := match a, b with KdPlace, KdPlace | KdCancel, KdCancel | KdUpdate, KdUpdate | KdReplace, KdReplace => true | _, _ => false end.

(* utils.chunks(l, n) for n > 0 *)
Fixpoint chunks_aux {A} (fuel : nat) (n : nat) (l : list A) : list (list A) :=
  match fuel with
  | O => []
  | S f => match l with [] => [] | _ => firstn n l :: chunks_aux f n (skipn n l) end
  end.
Definition chunks {A} (n : nat) (l : list A) : list (list A) := chunks_aux (length l) n l.

(* group by key in first-appearance order (defaultdict(list) filled in request order) *)
Fixpoint keys_in_order (seen : list (option Z)) (l : list (Z * option Z)) : list (option Z) :=
  match l with
  | [] => []
  | (_, k) :: r => if existsb (opt_eqb Z.eqb k) seen then keys_in_order seen r else k :: keys_in_order (k :: seen) r
  end.
Definition group_by_version (l : list (Z * option Z)) : list (option Z * list Z) :=
  map (fun k => (k, map fst (filter (fun e => opt_eqb Z.eqb (snd e) k) l))) (keys_in_order [] l).

Record package := { pg_kind : kind; pg_mv : option Z; pg_orders : list Z }.

(* _create_order_package *)
Definition create_packages (limit : nat) (k : kind) (pending : list (Z * option Z)) : list package :=
  concat (map (fun g => map (fun ch => {| pg_kind := k; pg_mv := fst g; pg_orders := ch |}) (chunks limit (snd g))) (group_by_version pending)).

(* the order as the transaction layer sees it *)
Record tord := { to_name : Z; to_status : status; to_bet : bool; to_type : otype; to_persist : persist; to_price : Z;
                 to_remaining : Z; to_in_blotter : bool; to_client : Z; to_red : option Z; to_newprice : option Z; to_ctx : bool (* runner_context.place ran *) }.

Record txn := { tx_client : Z; tx_pending_flag : bool;
                tx_place : list (Z * option Z); tx_cancel : list (Z * option Z); tx_update : list (Z * option Z); tx_replace : list (Z * option Z) }.
Definition txn0 (c : Z) := {| tx_client := c; tx_pending_flag := false; tx_place := []; tx_cancel := []; tx_update := []; tx_replace := [] |}.

Inductive treq :=
  | TPlace (name : Z) (mv : option Z) (execute force : bool)
  | TCancel (name : Z) (red : option Z) (force : bool)
  | TUpdate (name : Z) (p : persist) (force : bool)
  | TReplace (name : Z) (price : Z) (mv : option Z) (force : bool).
Inductive tres := TAccepted | TRefused | TRaisedGuard | TRaisedClient | TRaisedPlaced.

Definition limits_of := kind -> nat.

Fixpoint tupd (name : Z) (f : tord -> tord) (l : list tord) : list tord :=
  match l with [] => [] | o :: r => if to_name o =? name then f o :: r else o :: tupd name f r end.
Definition tget (name : Z) (l : list tord) : option tord := find (fun o => to_name o =? name) l.

Definition set_st (o : tord) (st : status) (clear : bool) : tord :=
  {| to_name := to_name o; to_status := st; to_bet := to_bet o; to_type := to_type o; to_persist := to_persist o; to_price := to_price o;
     to_remaining := to_remaining o; to_in_blotter := to_in_blotter o; to_client := to_client o;
     to_red := if clear then None else to_red o; to_newprice := if clear then None else to_newprice o; to_ctx := to_ctx o |}.

(* BaseControl._on_error: only an order that has not been placed yet (status None) is marked VIOLATION; an order that has been
   sent keeps its status (it only gets the violation message, which is not part of the model) *)
Definition refuse_mark (o : tord) : tord := if status_eqb (to_status o) SNone then set_st o SViolation true else o.

(* one request inside a transaction; [ctl_ok]: do all the controls accept this request (oracle) *)
Definition do_req (ctl_ok : bool) (t : txn) (os : list tord) (r : treq) : txn * list tord * tres :=
  match r with
  | TPlace name mv execute force =>
      match tget name os with
      | None => (t, os, TRaisedGuard)
      | Some o =>
          let os := tupd name (fun o => {| to_name := to_name o; to_status := to_status o; to_bet := to_bet o; to_type := to_type o; to_persist := to_persist o; to_price := to_price o;
                                          to_remaining := to_remaining o; to_in_blotter := to_in_blotter o; to_client := tx_client t; to_red := to_red o; to_newprice := to_newprice o; to_ctx := to_ctx o |}) os in
          if execute && negb force && negb ctl_ok then (t, tupd name refuse_mark os, TRefused)
          else
            if to_in_blotter o then (t, os, TRaisedPlaced)           (* the membership test comes first (repair of F-C02-2): the order is not touched *)
            else
            let os1 := tupd name (fun o => set_st o SPending false) os in
              let os2 := tupd name (fun o => {| to_name := to_name o; to_status := to_status o; to_bet := to_bet o; to_type := to_type o; to_persist := to_persist o; to_price := to_price o;
                                                to_remaining := to_remaining o; to_in_blotter := true; to_client := to_client o; to_red := to_red o; to_newprice := to_newprice o; to_ctx := to_ctx o || execute |}) os1 in
              if execute then
                ({| tx_client := tx_client t; tx_pending_flag := true; tx_place := tx_place t ++ [(name, mv)]; tx_cancel := tx_cancel t; tx_update := tx_update t; tx_replace := tx_replace t |}, os2, TAccepted)
              else (t, os2, TAccepted)
      end
  | TCancel name red force =>
      match tget name os with
      | None => (t, os, TRaisedGuard)
      | Some o =>
          if negb (to_client o =? tx_client t) then (t, os, TRaisedClient)
          else if negb force && negb ctl_ok then (t, tupd name refuse_mark os, TRefused)
          else if negb (to_bet o) then (t, os, TRaisedGuard)
          else match to_type o with
               | TLimit =>
                   if (match red with Some x => negb (x =? 0) && (to_remaining o - x <? 0) | None => false end) then (t, os, TRaisedGuard)
                   else if negb (status_eqb (to_status o) SExecutable) then (t, os, TRaisedGuard)
                   else ({| tx_client := tx_client t; tx_pending_flag := true; tx_place := tx_place t; tx_cancel := tx_cancel t ++ [(name, None)]; tx_update := tx_update t; tx_replace := tx_replace t |},
                         tupd name (fun o => set_st {| to_name := to_name o; to_status := to_status o; to_bet := to_bet o; to_type := to_type o; to_persist := to_persist o; to_price := to_price o;
                                                      to_remaining := to_remaining o; to_in_blotter := to_in_blotter o; to_client := to_client o; to_red := red; to_newprice := to_newprice o; to_ctx := to_ctx o |} SCancelling false) os,
                         TAccepted)
               | _ => (t, os, TRaisedGuard)
               end
      end
  | TUpdate name p force =>
      match tget name os with
      | None => (t, os, TRaisedGuard)
      | Some o =>
          if negb (to_client o =? tx_client t) then (t, os, TRaisedClient)
          else if negb force && negb ctl_ok then (t, tupd name refuse_mark os, TRefused)
          else if negb (to_bet o) then (t, os, TRaisedGuard)
          else match to_type o with
               | TLimit =>
                   if persist_eqb (to_persist o) p then (t, os, TRaisedGuard)
                   else if negb (status_eqb (to_status o) SExecutable) then (t, os, TRaisedGuard)
                   else ({| tx_client := tx_client t; tx_pending_flag := true; tx_place := tx_place t; tx_cancel := tx_cancel t; tx_update := tx_update t ++ [(name, None)]; tx_replace := tx_replace t |},
                         tupd name (fun o => set_st {| to_name := to_name o; to_status := to_status o; to_bet := to_bet o; to_type := to_type o; to_persist := p; to_price := to_price o;
                                                      to_remaining := to_remaining o; to_in_blotter := to_in_blotter o; to_client := to_client o; to_red := to_red o; to_newprice := to_newprice o; to_ctx := to_ctx o |} SUpdating false) os,
                         TAccepted)
               | _ => (t, os, TRaisedGuard)
               end
      end
  | TReplace name price mv force =>
      match tget name os with
      | None => (t, os, TRaisedGuard)
      | Some o =>
          if negb (to_client o =? tx_client t) then (t, os, TRaisedClient)
          else if negb force && negb ctl_ok then (t, tupd name refuse_mark os, TRefused)
          else if negb (to_bet o) then (t, os, TRaisedGuard)
          else match to_type o with
               | TLimit | TLoc =>
                   if to_price o =? price then (t, os, TRaisedGuard)
                   else if negb (status_eqb (to_status o) SExecutable) then (t, os, TRaisedGuard)
                   else ({| tx_client := tx_client t; tx_pending_flag := true; tx_place := tx_place t; tx_cancel := tx_cancel t; tx_update := tx_update t; tx_replace := tx_replace t ++ [(name, mv)] |},
                         tupd name (fun o => set_st {| to_name := to_name o; to_status := to_status o; to_bet := to_bet o; to_type := to_type o; to_persist := to_persist o; to_price := to_price o;
                                                      to_remaining := to_remaining o; to_in_blotter := to_in_blotter o; to_client := to_client o; to_red := to_red o; to_newprice := Some price; to_ctx := to_ctx o |} SReplacing false) os,
                         TAccepted)
               | _ => (t, os, TRaisedGuard)
               end
      end
  end.

(* Transaction.execute(): packages in the order place, cancel, update, replace; pending lists cleared *)
Definition execute (lim : limits_of) (t : txn) : txn * list package :=
  let ps := (match tx_place t with [] => [] | l => create_packages (lim KdPlace) KdPlace l end)
         ++ (match tx_cancel t with [] => [] | l => create_packages (lim KdCancel) KdCancel l end)
         ++ (match tx_update t with [] => [] | l => create_packages (lim KdUpdate) KdUpdate l end)
         ++ (match tx_replace t with [] => [] | l => create_packages (lim KdReplace) KdReplace l end) in
  ({| tx_client := tx_client t; tx_pending_flag := match ps with [] => tx_pending_flag t | _ => false end;
      tx_place := []; tx_cancel := []; tx_update := []; tx_replace := [] |}, ps).

(* __exit__ *)
Definition txn_exit (lim : limits_of) (t : txn) : txn * list package :=
  if tx_pending_flag t then execute lim t else (t, []).

(* Blotter.v — model of markets/blotter.py Blotter.__setitem__, complete_order, the views and their filters. *)
From V Require Export Model.Num Model.Status.
Open Scope Z_scope.

Record bord := { bo_id : Z; bo_strat : Z; bo_sel : Z; bo_client : Z; bo_trade : Z; bo_bet : option Z;
                 bo_status : status; bo_matched : Z }.

Definition view (K : Type) := list (K * list Z).

Record blotter := {
  bl_orders : list (Z * bord);            (* dict _orders: id -> order, insertion order, overwrite keeps the position *)
  bl_live : list Z;
  bl_by_strategy : view Z;
  bl_by_selection : view (Z * Z);         (* (strategy, selection [handicap folded in]) *)
  bl_by_client : view Z;
  bl_by_client_strategy : view (Z * Z);
  bl_by_trade : view Z;
  bl_bet_lookup : list (option Z * Z)     (* dict: bet id (None for a fresh order) -> order id; later entries overwrite *)
}.
Definition blotter0 := {| bl_orders := []; bl_live := []; bl_by_strategy := []; bl_by_selection := []; bl_by_client := [];
                          bl_by_client_strategy := []; bl_by_trade := []; bl_bet_lookup := [] |}.

Fixpoint dict_set {V} (k : Z) (v : V) (l : list (Z * V)) : list (Z * V) :=
  match l with [] => [(k, v)] | (a, b) :: r => if a =? k then (a, v) :: r else (a, b) :: dict_set k v r end.

Fixpoint view_add {K} (eqb : K -> K -> bool) (k : K) (id : Z) (v : view K) : view K :=
  match v with [] => [(k, [id])] | (a, l) :: r => if eqb a k then (a, l ++ [id]) :: r else (a, l) :: view_add eqb k id r end.
Definition view_get {K} (eqb : K -> K -> bool) (k : K) (v : view K) : list Z :=
  match find (fun e => eqb (fst e) k) v with Some e => snd e | None => [] end.

Definition setitem (b : blotter) (o : bord) : blotter :=
  {| bl_orders := dict_set (bo_id o) o (bl_orders b);
     bl_live := bl_live b ++ [bo_id o];
     bl_by_strategy := view_add Z.eqb (bo_strat o) (bo_id o) (bl_by_strategy b);
     bl_by_selection := view_add zz_eqb (bo_strat o, bo_sel o) (bo_id o) (bl_by_selection b);
     bl_by_client := view_add Z.eqb (bo_client o) (bo_id o) (bl_by_client b);
     bl_by_client_strategy := view_add zz_eqb (bo_client o, bo_strat o) (bo_id o) (bl_by_client_strategy b);
     bl_by_trade := view_add Z.eqb (bo_trade o) (bo_id o) (bl_by_trade b);
     bl_bet_lookup := bl_bet_lookup b ++ [(bo_bet o, bo_id o)] |}.

Fixpoint remove_first (x : Z) (l : list Z) : option (list Z) :=
  match l with
  | [] => None                                  (* list.remove raises ValueError *)
  | y :: r => if y =? x then Some r else match remove_first x r with Some r' => Some (y :: r') | None => None end
  end.
Definition complete_order (b : blotter) (id : Z) : option blotter :=
  match remove_first id (bl_live b) with
  | None => None
  | Some l => Some {| bl_orders := bl_orders b; bl_live := l; bl_by_strategy := bl_by_strategy b; bl_by_selection := bl_by_selection b;
                      bl_by_client := bl_by_client b; bl_by_client_strategy := bl_by_client_strategy b; bl_by_trade := bl_by_trade b;
                      bl_bet_lookup := bl_bet_lookup b |}
  end.

(* filters of the view accessors: order_status list (empty/None = no filter), matched_only *)
Definition apply_filters (orders : list bord) (st : list status) (matched_only : bool) : list bord :=
  let l1 := match st with [] => orders | _ => filter (fun o => status_in (bo_status o) st) orders end in
  if matched_only then filter (fun o => 0 <? bo_matched o) l1 else l1.

(* the abstract specification: everything is a function of the list of orders placed *)
Definition spec_view {K} (key : bord -> K) (eqb : K -> K -> bool) (k : K) (placed : list bord) : list Z :=
  map bo_id (filter (fun o => eqb (key o) k) placed).

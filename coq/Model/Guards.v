(* Guards.v — BetfairOrder.cancel/update/replace and BetdaqOrder.cancel/update: when is a request accepted, and what does it do to the status.
   None = OrderUpdateError, nothing changes. *)
From V Require Export Model.Num Model.Status.
Open Scope Z_scope.

Inductive ocls := OBetfair | OBetdaq.
Inductive otyp := TyLimit | TyLoc | TyMoc.
Inductive greq :=
  | GCancel                      (* cancel, no size reduction *)
  | GCancelReduce (too_large : bool)
  | GUpdate (changes : bool)     (* Betfair: another persistence type or the same; Betdaq: any delta *)
  | GReplace (changes : bool).   (* another price or the same *)

Definition guard (c : ocls) (t : otyp) (st : status) (bet : bool) (r : greq) : option status :=
  let exe (target : status) := if status_eqb st SExecutable then Some target else None in
  match c, r with
  | OBetfair, GCancel | OBetfair, GCancelReduce false => if bet then match t with TyLimit => exe SCancelling | _ => None end else None
  | OBetfair, GCancelReduce true => None
  | OBetfair, GUpdate ch => if bet then match t with TyLimit => if ch then exe SUpdating else None | _ => None end else None
  | OBetfair, GReplace ch => if bet then match t with TyLimit | TyLoc => if ch then exe SReplacing else None | TyMoc => None end else None
  | OBetdaq, GCancel => if bet then match t with TyLimit => exe SCancelling | _ => None end else None
  | OBetdaq, GCancelReduce _ => None
  | OBetdaq, GUpdate _ => if bet then match t with TyLimit => exe SUpdating | _ => None end else None
  | OBetdaq, GReplace _ => None
  end.

(* encoding used by the harness *)
Definition cls_of (z : Z) := if z =? 0 then OBetfair else OBetdaq.
Definition typ_of (z : Z) := if z =? 0 then TyLimit else if z =? 1 then TyLoc else TyMoc.
Definition req_of (z : Z) := if z =? 0 then GCancel else if z =? 1 then GCancelReduce false else if z =? 2 then GCancelReduce true
                             else if z =? 3 then GUpdate true else if z =? 4 then GUpdate false else if z =? 5 then GReplace true else GReplace false.
Definition status_opt_eqb (a b : option status) := match a, b with Some x, Some y => status_eqb x y | None, None => true | _, _ => false end.
(* (class, type, status, bet, request, implementation: accepted?, new status) *)
Definition guard_ok (c : Z * Z * status * bool * Z * bool * status) : bool :=
  let '(cl, ty, st, bet, rq, acc, st') := c in
  match guard (cls_of cl) (typ_of ty) st bet (req_of rq) with
  | Some s => acc && status_eqb s st'
  | None => negb acc && status_eqb st st'
  end.

(* Sim.v — executable model of the simulated exchange of flumine:
     simulation/simulatedorder.py   SimulatedOrder.place / cancel / update / __call__ / _process_*
     markets/middleware.py          SimulatedMiddleware (RunnerAnalytics, removals, order processing)
     execution/simulatedexecution.py  execute_place / cancel / update / replace
     simulation/simulation.py       _process_market_books, _check_pending_packages, _process_simulated_orders
     order/order.py                 BetfairOrder.place/cancel/update/replace guards and status setters
     controls                        MarketValidation (the only default control that can refuse in the
                                     scenario families run against this model)
   Units: sizes/liabilities in cents (Z); prices in 1/10000 ("bp": 2.02 -> 20200) so that starting
   prices with 4 decimals fit; queue position in half-cents (piq2 = 2 * piq).
   Definitions only; proofs are in Proofs/Sim*.v. *)
From V Require Export Model.Num Model.Status.
Open Scope Z_scope.

Inductive persist := PLapse | PPersist | PMoc.
Inductive otype := TLimit | TLoc | TMoc.
Inductive rstatus := RActive | RRemoved | RWinner | RLoser | RPlaced | ROther.
Inductive mstatus := MOpen | MSuspended | MClosed | MInactive.
Inductive mtype := MWin | MPlace | MOtherPlace | MEachWay | MOtherType.

Definition persist_eqb (a b : persist) := match a, b with PLapse, PLapse | PPersist, PPersist | PMoc, PMoc => true | _, _ => false end.
Definition mstatus_eqb (a b : mstatus) := match a, b with MOpen, MOpen | MSuspended, MSuspended | MClosed, MClosed | MInactive, MInactive => true | _, _ => false end.

Record frag := { f_pt : Z; f_price : Z; f_size : Z }.

Record sorder := {
  so_name : Z; so_strat : Z; so_market : Z; so_sel : Z; so_side : side; so_type : otype;
  so_price : Z; so_size : Z;                 (* LIMIT: price bp, size cents; LOC: price *)
  so_liab_n : Z; so_liab_d : Z;              (* liability = n/d cents (MOC LAY liabilities are scaled unrounded) *)
  so_persist : persist; so_fok : bool; so_minfill : option Z; so_repl : bool;
  so_status : status; so_log : list status; so_complete : bool; so_bet : option Z;
  so_red : option Z;                         (* update_data["size_reduction"] (None or falsy -> whole remainder) *)
  so_newprice : option Z;                    (* update_data["new_price"] *)
  so_frags : list frag; so_matched : Z; so_avg : Z;
  so_cancelled : Z; so_lapsed : Z; so_voided : Z;
  so_mver : option Z; so_piq2 : Z; so_bsp : bool;
  so_created : Z; so_placed : option Z; so_stat_t : Z; so_done_t : option Z;
  so_in_live : bool                          (* member of blotter._live_orders *)
}.

Record runner := { r_sel : Z; r_status : rstatus; r_adj : option Z (* x100 *);
                   r_atb : list (Z * Z); r_atl : list (Z * Z); r_trd : list (Z * Z); r_sp : option Z }.
Record book := { b_pt : Z; b_status : mstatus; b_version : Z; b_inplay : bool; b_bsp_rec : bool;
                 b_delay : Z; b_runners : list runner }.
Record mstatic := { ms_bsp : bool; ms_persist : bool; ms_type : mtype }.

Record client := { c_bpe : bool; c_full : bool; c_min_bsp : Z (* cents *) }.

(* ---------- wap / buckets ---------- *)
Definition wap (tb : tiebreak) (fr : list frag) : Z * Z :=
  let a := sumZ (map (fun f => f_price f * f_size f) fr) in
  let b := sumZ (map f_size fr) in
  if (b =? 0) || (a =? 0) then (0, 0) else (b, 100 * rnd tb a (100 * b)).

Definition remaining (o : sorder) : Z :=
  match so_type o with
  | TLimit => so_size o - so_matched o - so_cancelled o - so_lapsed o - so_voided o
  | _ => 0
  end.

Definition set_frags (tb : tiebreak) (o : sorder) (fr : list frag) : sorder :=
  let '(m, a) := wap tb fr in
  {| so_name := so_name o; so_strat := so_strat o; so_market := so_market o; so_sel := so_sel o; so_side := so_side o; so_type := so_type o;
     so_price := so_price o; so_size := so_size o; so_liab_n := so_liab_n o; so_liab_d := so_liab_d o;
     so_persist := so_persist o; so_fok := so_fok o; so_minfill := so_minfill o; so_repl := so_repl o;
     so_status := so_status o; so_log := so_log o; so_complete := so_complete o; so_bet := so_bet o;
     so_red := so_red o; so_newprice := so_newprice o;
     so_frags := fr; so_matched := m; so_avg := a;
     so_cancelled := so_cancelled o; so_lapsed := so_lapsed o; so_voided := so_voided o;
     so_mver := so_mver o; so_piq2 := so_piq2 o; so_bsp := so_bsp o;
     so_created := so_created o; so_placed := so_placed o; so_stat_t := so_stat_t o; so_done_t := so_done_t o;
     so_in_live := so_in_live o |}.

Definition add_frag (tb : tiebreak) (o : sorder) (pt p s : Z) : sorder :=
  set_frags tb o (so_frags o ++ [{| f_pt := pt; f_price := p; f_size := s |}]).

(* generic field updates (kept explicit: no record-update library) *)
Definition upd_buckets (o : sorder) (c l v : Z) : sorder :=
  {| so_name := so_name o; so_strat := so_strat o; so_market := so_market o; so_sel := so_sel o; so_side := so_side o; so_type := so_type o;
     so_price := so_price o; so_size := so_size o; so_liab_n := so_liab_n o; so_liab_d := so_liab_d o;
     so_persist := so_persist o; so_fok := so_fok o; so_minfill := so_minfill o; so_repl := so_repl o;
     so_status := so_status o; so_log := so_log o; so_complete := so_complete o; so_bet := so_bet o;
     so_red := so_red o; so_newprice := so_newprice o;
     so_frags := so_frags o; so_matched := so_matched o; so_avg := so_avg o;
     so_cancelled := c; so_lapsed := l; so_voided := v;
     so_mver := so_mver o; so_piq2 := so_piq2 o; so_bsp := so_bsp o;
     so_created := so_created o; so_placed := so_placed o; so_stat_t := so_stat_t o; so_done_t := so_done_t o;
     so_in_live := so_in_live o |}.
Definition add_cancelled o x := upd_buckets o (so_cancelled o + x) (so_lapsed o) (so_voided o).
Definition add_lapsed o x := upd_buckets o (so_cancelled o) (so_lapsed o + x) (so_voided o).
Definition add_voided o x := upd_buckets o (so_cancelled o) (so_lapsed o) (so_voided o + x).

Definition upd_sim (o : sorder) (mver : option Z) (piq2 : Z) (bsp : bool) : sorder :=
  {| so_name := so_name o; so_strat := so_strat o; so_market := so_market o; so_sel := so_sel o; so_side := so_side o; so_type := so_type o;
     so_price := so_price o; so_size := so_size o; so_liab_n := so_liab_n o; so_liab_d := so_liab_d o;
     so_persist := so_persist o; so_fok := so_fok o; so_minfill := so_minfill o; so_repl := so_repl o;
     so_status := so_status o; so_log := so_log o; so_complete := so_complete o; so_bet := so_bet o;
     so_red := so_red o; so_newprice := so_newprice o;
     so_frags := so_frags o; so_matched := so_matched o; so_avg := so_avg o;
     so_cancelled := so_cancelled o; so_lapsed := so_lapsed o; so_voided := so_voided o;
     so_mver := mver; so_piq2 := piq2; so_bsp := bsp;
     so_created := so_created o; so_placed := so_placed o; so_stat_t := so_stat_t o; so_done_t := so_done_t o;
     so_in_live := so_in_live o |}.

(* order-level fields: status machine *)
Definition upd_ord (o : sorder) (st : status) (log : list status) (cpl : bool) (bet : option Z)
           (red newp : option Z) (pers : persist) (placed : option Z) (stat_t : Z) (done_t : option Z) (live : bool)
           (liab_n liab_d matched : Z) : sorder :=
  {| so_name := so_name o; so_strat := so_strat o; so_market := so_market o; so_sel := so_sel o; so_side := so_side o; so_type := so_type o;
     so_price := so_price o; so_size := so_size o; so_liab_n := liab_n; so_liab_d := liab_d;
     so_persist := pers; so_fok := so_fok o; so_minfill := so_minfill o; so_repl := so_repl o;
     so_status := st; so_log := log; so_complete := cpl; so_bet := bet;
     so_red := red; so_newprice := newp;
     so_frags := so_frags o; so_matched := matched; so_avg := so_avg o;
     so_cancelled := so_cancelled o; so_lapsed := so_lapsed o; so_voided := so_voided o;
     so_mver := so_mver o; so_piq2 := so_piq2 o; so_bsp := so_bsp o;
     so_created := so_created o; so_placed := placed; so_stat_t := stat_t; so_done_t := done_t;
     so_in_live := live |}.

Definition is_complete_status (complete_status : list status) (st : status) : bool := status_in st complete_status.

(* _update_status; executable()/execution_complete()/violation() also clear update_data *)
Definition set_status (cs : list status) (now : Z) (o : sorder) (st : status) (clear_upd : bool) : sorder :=
  upd_ord o st (so_log o ++ [st]) (is_complete_status cs st) (so_bet o)
          (if clear_upd then None else so_red o) (if clear_upd then None else so_newprice o)
          (so_persist o) (so_placed o) now
          (match st with SExecComplete => Some now | _ => so_done_t o end) (so_in_live o)
          (so_liab_n o) (so_liab_d o) (so_matched o).
Definition executable cs now o := set_status cs now o SExecutable true.
Definition exec_complete cs now o := set_status cs now o SExecComplete true.
Definition violation cs now o := set_status cs now o SViolation true.
Definition set_live (o : sorder) (b : bool) : sorder :=
  upd_ord o (so_status o) (so_log o) (so_complete o) (so_bet o) (so_red o) (so_newprice o) (so_persist o)
          (so_placed o) (so_stat_t o) (so_done_t o) b (so_liab_n o) (so_liab_d o) (so_matched o).
Definition set_bet_placed (o : sorder) (bet : option Z) (placed : option Z) : sorder :=
  upd_ord o (so_status o) (so_log o) (so_complete o) bet (so_red o) (so_newprice o) (so_persist o)
          placed (so_stat_t o) (so_done_t o) (so_in_live o) (so_liab_n o) (so_liab_d o) (so_matched o).
Definition set_upd (o : sorder) (red newp : option Z) (pers : persist) : sorder :=
  upd_ord o (so_status o) (so_log o) (so_complete o) (so_bet o) red newp pers
          (so_placed o) (so_stat_t o) (so_done_t o) (so_in_live o) (so_liab_n o) (so_liab_d o) (so_matched o).
Definition set_liab_matched (o : sorder) (n d m : Z) : sorder :=
  upd_ord o (so_status o) (so_log o) (so_complete o) (so_bet o) (so_red o) (so_newprice o) (so_persist o)
          (so_placed o) (so_stat_t o) (so_done_t o) (so_in_live o) n d m.

(* ---------- SimulatedOrder.place ---------- *)
Definition find_runner (b : book) (sel : Z) : option runner :=
  find (fun r => r_sel r =? sel) (b_runners b).

(* _process_price_matched *)
Fixpoint price_matched (tb : tiebreak) (pt : Z) (sd : side) (price : Z) (rem : Z) (avail : list (Z * Z)) (o : sorder) : sorder :=
  match avail with
  | [] => o
  | (ap, asz) :: r =>
      if rem =? 0 then o
      else if (match sd with Back => price <=? ap | Lay => ap <=? price end) then
             let rem' := zmax (rem - asz) 0 in
             let m := if rem' =? 0 then rem else asz in
             price_matched tb pt sd price rem' r (add_frag tb o pt ap m)
           else o
  end.

(* _process_price_matched_vwap (loop part) *)
Fixpoint vwap_loop (tb : tiebreak) (pt : Z) (sd : side) (price : Z) (rem : Z) (avail : list (Z * Z)) (o : sorder) : sorder :=
  match avail with
  | [] => o
  | (ap, asz) :: r =>
      if rem =? 0 then o
      else let rem' := zmax (rem - asz) 0 in
           let m := if rem' =? 0 then rem else asz in
           let all := so_frags o ++ [{| f_pt := pt; f_price := ap; f_size := m |}] in
           let avg := snd (wap tb all) in
           if (match sd with Back => price <=? avg | Lay => avg <=? price end)
           then vwap_loop tb pt sd price rem' r (add_frag tb o pt ap m)
           else o
  end.
Definition vwap_matched (tb : tiebreak) (pt : Z) (sd : side) (price size : Z) (avail : list (Z * Z)) (minfill : Z) (o : sorder) : sorder :=
  let o1 := vwap_loop tb pt sd price size avail o in
  if so_matched o1 <? minfill then
    let o2 := set_frags tb o1 [] in add_cancelled o2 (remaining o2)
  else o1.

Definition first_price (l : list (Z * Z)) (dflt : Z) : Z :=
  match l with (p, _) :: _ => if p =? 0 then dflt else p | [] => dflt end.
Definition first_size (l : list (Z * Z)) : Z := match l with (_, s) :: _ => s | [] => 0 end.
Fixpoint piq_of (price : Z) (l : list (Z * Z)) : option Z :=
  match l with [] => None | (p, s) :: r => if p =? price then Some s else piq_of price r end.

(* _create_place_response: only the side effect (simulated_full_match) matters *)
Definition place_resp (tb : tiebreak) (c : client) (o : sorder) (success : bool) : sorder * bool :=
  if c_full c && success && negb (remaining o =? 0)
  then (add_frag tb o 0 (so_price o) (remaining o), success)
  else (o, success).

Definition sim_place (tb : tiebreak) (c : client) (ms : mstatic) (b : book) (pkg_mv : option Z) (o : sorder) : sorder * bool :=
  if negb (mstatus_eqb (b_status b) MOpen) then place_resp tb c (add_voided o (remaining o)) false
  else
    let o := upd_sim o (Some (b_version b)) (so_piq2 o) (so_bsp o) in
    if (match pkg_mv with Some v => negb (v =? 0) && negb (v =? b_version b) | None => false end)
    then place_resp tb c (add_lapsed o (remaining o)) false
    else match find_runner b (so_sel o) with
    | None => place_resp tb c o false     (* the Python raises AttributeError; scenarios never do this *)
    | Some r =>
      if (match r_status r with RRemoved => true | _ => false end) then place_resp tb c (add_voided o (remaining o)) false
      else match so_type o with
      | TLimit =>
          let price := so_price o in let size := so_size o in
          let fok := so_fok o && negb (so_repl o) in
          let minfill := if so_repl o then 0 else match so_minfill o with Some m => if m =? 0 then size else m | None => size end in
          if fok && (size <? minfill) then place_resp tb c (add_cancelled o (remaining o)) false
          else
            let pt := b_pt b in
            match so_side o with
            | Back =>
                let best := first_price (r_atb r) 10100 in
                if negb (c_bpe c) && (price <? best) then place_resp tb c (add_lapsed o (remaining o)) false
                else if fok then
                  if best <? price then place_resp tb c (add_cancelled o (remaining o)) true
                  else if price =? best then
                    let o1 := if minfill <=? first_size (r_atb r) then price_matched tb pt Back price size (r_atb r) o else o in
                    place_resp tb c (add_cancelled o1 (remaining o1)) true
                  else let o1 := vwap_matched tb pt Back price size (r_atb r) minfill o in
                       place_resp tb c (add_cancelled o1 (remaining o1)) true
                else if price <=? best then place_resp tb c (price_matched tb pt Back price size (r_atb r) o) true
                else let o1 := match piq_of price (r_atl r) with Some s => upd_sim o (so_mver o) (2 * s) (so_bsp o) | None => o end in
                     place_resp tb c o1 true
            | Lay =>
                let best := first_price (r_atl r) 10000000 in
                if negb (c_bpe c) && (best <? price) then place_resp tb c (add_lapsed o (remaining o)) false
                else if fok then
                  if price <? best then place_resp tb c (add_cancelled o (remaining o)) true
                  else if price =? best then
                    let o1 := if minfill <=? first_size (r_atl r) then price_matched tb pt Lay price size (r_atl r) o else o in
                    place_resp tb c (add_cancelled o1 (remaining o1)) true
                  else let o1 := vwap_matched tb pt Lay price size (r_atl r) minfill o in
                       place_resp tb c (add_cancelled o1 (remaining o1)) true
                else if best <=? price then place_resp tb c (price_matched tb pt Lay price size (r_atl r) o) true
                else let o1 := match piq_of price (r_atb r) with Some s => upd_sim o (so_mver o) (2 * s) (so_bsp o) | None => o end in
                     place_resp tb c o1 true
            end
      | _ =>
          if negb (ms_bsp ms) || b_bsp_rec b || b_inplay b then place_resp tb c (add_voided o (remaining o)) false
          else place_resp tb c o true
      end
    end.

(* SimulatedOrder.cancel: (order', success, size_cancelled) *)
Definition sim_cancel (b : book) (o : sorder) : sorder * bool * Z :=
  if negb (mstatus_eqb (b_status b) MOpen) then (o, false, 0)
  else match so_type o with
       | TLimit =>
           let red := match so_red o with Some x => if x =? 0 then remaining o else x | None => remaining o end in
           let c := zmin red (remaining o) in
           (add_cancelled o c, true, c)
       | _ => (o, false, 0)
       end.

(* SimulatedOrder.update: success? (persistence was already changed by order.update at request time) *)
Definition sim_update (ms : mstatic) (b : book) (o : sorder) : bool :=
  if negb (mstatus_eqb (b_status b) MOpen) then false
  else if negb (ms_persist ms) then false
  else match so_type o with TLimit => 0 <? remaining o | _ => false end.

(* ---------- SimulatedOrder.__call__ ---------- *)
Definition take_sp (o : sorder) : bool :=
  match so_type o with TLimit => persist_eqb (so_persist o) PMoc | _ => true end.

(* traded: association list price -> size (cents), in the insertion order of the Python dict *)
Definition traded := list (Z * Z).

(* _calculate_process_traded: (order', value returned) *)
Definition calc_traded (tb : tiebreak) (pt : Z) (ts : Z) (o : sorder) : sorder * Z :=
  if so_piq2 o <? ts then
    let size2 := ts - so_piq2 o in
    let size := rnd tb (zmin (2 * remaining o) size2) 2 in
    let o1 := if size =? 0 then o else add_frag tb o pt (so_price o) size in
    let m := so_piq2 o + 2 * size in
    (upd_sim o1 (so_mver o1) 0 (so_bsp o1), m)
  else (upd_sim o (so_mver o) (so_piq2 o - ts) (so_bsp o), ts).

(* _process_traded: walks the dict, mutating the values it consumed *)
Fixpoint process_traded (tb : tiebreak) (pt : Z) (tr : traded) (o : sorder) : sorder * traded :=
  match tr with
  | [] => (o, [])
  | (tp, ts) :: r =>
      if (match so_side o with Back => so_price o <=? tp | Lay => tp <=? so_price o end) then
        let '(o1, m) := calc_traded tb pt ts o in
        let ts' := if m =? 0 then ts else zmax (ts - m) 0 in
        let '(o2, r') := process_traded tb pt r o1 in
        (o2, (tp, ts') :: r')
      else let '(o2, r') := process_traded tb pt r o in (o2, (tp, ts) :: r')
  end.

(* _process_sp: returns (order', completed?) — completed means order.execution_complete() was called *)
Definition process_sp (tb : tiebreak) (c : client) (pt : Z) (r : runner) (o : sorder) : sorder * bool :=
  match r_sp r with
  | None => (o, false)
  | Some sp =>
      if sp =? 0 then (o, false)
      else
        let o := upd_sim o (so_mver o) (so_piq2 o) true in
        match so_type o, so_side o with
        | TLimit, Back => (add_frag tb o pt sp (remaining o), true)
        | TLimit, Lay =>
            let risk := (so_price o - 10000) * remaining o in          (* 1/10^6 *)
            if c_min_bsp c * 10000 <=? risk then
              let size := rnd tb risk (sp - 10000) in
              let o1 := add_cancelled o (remaining o - size) in
              (add_frag tb o1 pt sp size, true)
            else (add_lapsed o (remaining o), true)
        | TLoc, Back =>
            if sp <? so_price o then (o, true)
            else (add_frag tb o pt sp (rnd tb (so_liab_n o) (so_liab_d o)), true)
        | TLoc, Lay =>
            if so_price o <? sp then (o, true)
            else (add_frag tb o pt sp (rnd tb (so_liab_n o * 10000) (so_liab_d o * (sp - 10000))), true)
        | TMoc, Back => (add_frag tb o pt sp (rnd tb (so_liab_n o) (so_liab_d o)), true)
        | TMoc, Lay => (add_frag tb o pt sp (rnd tb (so_liab_n o * 10000) (so_liab_d o * (sp - 10000))), true)
        end
  end.

(* __call__(market_book, runner_traded): (order', traded', completed?) *)
Definition on_book (tb : tiebreak) (c : client) (b : book) (r : runner) (tr : traded) (o : sorder) : sorder * traded * bool :=
  let sp_step :=
    if negb (so_bsp o) && b_bsp_rec b then
      if take_sp o then Some (process_sp tb c (b_pt b) r o)
      else None
    else None in
  match sp_step with
  | Some (o1, done) => (o1, tr, done)
  | None =>
      let o := if negb (so_bsp o) && b_bsp_rec b then upd_sim o (so_mver o) (so_piq2 o) true else o in
      match so_type o with
      | TLimit =>
          let changed := negb (opt_eqb Z.eqb (so_mver o) (Some (b_version b))) in
          let o1 := if changed then upd_sim o (Some (b_version b)) (so_piq2 o) (so_bsp o) else o in
          if changed && mstatus_eqb (b_status b) MSuspended && persist_eqb (so_persist o1) PLapse
          then (add_lapsed o1 (remaining o1), tr, false)
          else match tr with
               | [] => (o1, tr, false)
               | _ => let '(o2, tr') := process_traded tb (b_pt b) tr o1 in (o2, tr', false)
               end
      | _ => (o, tr, false)
      end
  end.

(* ExposureCtl.v — model of controls/tradingcontrols.py StrategyExposure._validate (the three limits).
   Limits in cents; the per-order exposure in 1/100 cent so that the LAY product (price-1)*size is exact. *)
From V Require Export Model.Exposure Model.ExposureSpec.
Open Scope Z_scope.

Inductive pkt := PkPlace | PkReplace.
Record limits := { max_order : option Z; max_sel : option Z; max_mkt : option Z }.

(* order_exposure * 100 *)
Definition order_exposure100 (o : osum) : Z :=
  match o_kind o with
  | KLimit false => match o_side o with Back => 100 * o_remaining o | Lay => (o_price o - 100) * o_remaining o end
  | KLimit true => 100 * o_remaining o
  | KSP => 100 * o_liab o
  end.
(* for a new order size_remaining = size; for a REPLACE the code reads order_type.size: the harness passes it as o_remaining *)

Definition exposure_ok (tb : tiebreak) (pending : list status) (lim : limits) (k : pkt)
           (orders : list osum) (active nwin : Z) (o : osum) : bool :=
  let oe := order_exposure100 o in
  let ok_order := match max_order lim with Some m => negb (100 * m <? oe) | None => true end in
  let ok_sel :=
    match max_sel lim with
    | Some m =>
        let excl := match k with PkReplace => Some (o_id o) | PkPlace => None end in
        let e := get_exposures tb pending (filter (fun x => o_sel x =? o_sel o) orders) excl None in
        let cur := match o_side o with Back => - e_lose e | Lay => - e_win e end in
        negb (100 * m <? 100 * cur + oe)
    | None => true
    end in
  let ok_mkt :=
    match max_mkt lim with
    | Some m =>
        let excl := match k with PkReplace => Some (o_id o) | PkPlace => None end in
        negb (m <? - market_exposure tb pending orders active nwin excl (Some o))
    | None => true
    end in
  ok_order && ok_sel && ok_mkt.

From V Require Import Model.Num Model.Status Model.Exposure Model.ExposureSpec Model.ExposureCtl Gen.StatusC Model.C16Cases.
Open Scope Z_scope.
Definition dq := (limits * pkt * list osum * Z * Z * osum * bool)%type.   (* ..., implementation accepted? *)
(* 0 equal, 1 rounding-ambiguous, 2 mismatch *)
Definition dec_cmp (q : dq) : Z :=
  let '(lim, k, os, active, nwin, o, acc) := q in
  let u := exposure_ok tb_up PENDING_STATUS lim k os active nwin o in
  let d := exposure_ok tb_down PENDING_STATUS lim k os active nwin o in
  if Bool.eqb u d then (if Bool.eqb u acc then 0 else 2) else 1.
(* the property on the implementation's decision for a PLACE: accepted => limits hold with the order in full (brute force) *)
Definition dec_prop (q : dq) : bool :=
  let '(lim, k, os, active, nwin, o, acc) := q in
  match k with
  | PkReplace => true
  | PkPlace =>
      if negb acc then true else
      let pos := position PENDING_STATUS None (filter (fun x => o_sel x =? o_sel o) os) None in
      (match max_order lim with Some m => order_exposure100 o <=? 100 * m | None => true end) &&
      (match max_sel lim with Some m => - worst (match o_side o with Back => false | Lay => true end) (pos ++ [o]) <=? 100 * m + 100 | None => true end)
  end.

(* C17Cases.v — evaluation helpers for the C17 correspondence (no proofs). *)
From V Require Import Model.Num Model.Ladder Gen.LadderC.
Open Scope Z_scope.

Fixpoint expand (r : list (Z * Z)) : list Z :=
  match r with [] => [] | (v, c) :: t => repeat v (Z.to_nat c) ++ expand t end.

(* model on k/1000 for k = lo, lo+1, ...  against expected list; returns the bad k (at most 20) *)
Fixpoint grid_bad (minp maxp : Z) (cs : cutoffs) (k : Z) (exp : list Z) (fuel : nat) : list Z :=
  match exp with
  | [] => []
  | e :: r =>
      if nearest minp maxp cs k 1000 =? e then grid_bad minp maxp cs (k + 1) r fuel
      else match fuel with O => [] | S f => k :: grid_bad minp maxp cs (k + 1) r f end
  end.

Definition point_ok (c : Z * Z * Z) : bool :=
  let '(n, d, e) := c in nearest MIN_PRICE MAX_PRICE CUTOFFS n d =? e.

Definition ticks_row_ok (minp maxp : Z) (L : list Z) (nlo : Z) (c : Z * list (option Z)) : bool :=
  let '(p, row) := c in
  (fix go (n : Z) (row : list (option Z)) : bool :=
     match row with
     | [] => true
     | e :: r => opt_eqb Z.eqb (ticks_away minp maxp L p n) e && go (n + 1) r
     end) nlo row.

Definition validate_ok (c : vexch * vclient * vside * vtype * bool) : bool :=
  let '(x, cl, sd, t, e) := c in Bool.eqb (validate PRICES BETDAQ_PRICES x cl sd t) e.

(* the same number on both ladders: (k, classic, betdaq, classic again, betdaq again) *)
Definition mixed_ok (c : Z * Z * Z * Z * Z) : bool :=
  let '(k, a, b, a2, b2) := c in
  let ma := nearest MIN_PRICE MAX_PRICE CUTOFFS k 1000 in
  let mb := nearest BETDAQ_MIN_PRICE BETDAQ_MAX_PRICE BETDAQ_CUTOFFS k 1000 in
  (ma =? a) && (ma =? a2) && (mb =? b) && (mb =? b2).

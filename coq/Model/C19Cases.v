From V Require Import Model.Num Model.Refs Gen.RefsC.
Open Scope Z_scope.
(* separator table: (candidate string, accepted by the setter?) *)
Definition sep_ok (c : str * bool) : bool := Bool.eqb (valid_sep VALID_CHARS (fst c)) (snd c).
(* reference case: (hash, sep, id, ref produced by the implementation) *)
Definition ref_ok (c : str * str * str * str) : bool :=
  let '(h, sep, id, r) := c in
  lz_eqb (mk_ref h sep id) r && lz_eqb (parse_hash HASH_LEN r) h && lz_eqb (parse_id HASH_LEN r) id
  && all_valid VALID_CHARS r && (Nat.leb (length r) 32) && (Nat.eqb (length h) HASH_LEN) && forallb is_hex h && forallb is_digit id.
(* property alone, evaluated on the implementation's reference *)
Definition ref_prop (c : str * str * str * str) : bool :=
  let '(h, sep, id, r) := c in
  lz_eqb (parse_hash HASH_LEN r) h && lz_eqb (parse_id HASH_LEN r) id && all_valid VALID_CHARS r && (Nat.leb (length r) 32).
(* attribution case: order ids, strategy hashes, reference, resolved (order idx, strategy idx) by the implementation *)
Definition on_eqb (a b : option nat) := opt_eqb Nat.eqb a b.
Definition res_ok (c : list str * list str * str * (option nat * option nat)) : bool :=
  let '(ids, hs, r, e) := c in
  let m := resolve HASH_LEN ids hs r in
  on_eqb (fst m) (fst e) && (match fst m with Some _ => true | None => on_eqb (snd m) (snd e) end).

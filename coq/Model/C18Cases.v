From V Require Import Model.Num Model.TxCount.
Open Scope Z_scope.
(* a history of one client: limit, events, and per event what the implementation showed:
   (accepted? for requests, current_transaction_count_total, transaction_count_total) *)
Definition obs := (option bool * Z * Z)%type.
Fixpoint run_obs (limit : option Z) (s : tx) (es : list ev) : list obs :=
  match es with
  | [] => []
  | e :: r => let '(s1, o) := step limit s e in (o, cur_total s1, tot_total s1) :: run_obs limit s1 r
  end.
Definition obs_eqb (a b : obs) : bool :=
  let '(oa, ca, ta) := a in let '(ob, cb, tb) := b in opt_eqb Bool.eqb oa ob && (ca =? cb) && (ta =? tb).
Definition hist_ok (c : option Z * list ev * list obs) : bool :=
  let '(limit, es, exp) := c in list_eqb obs_eqb (run_obs limit tx0 es) exp.

(* the property on the implementation's own observations (no model state): totals = sum of adds;
   a request is refused only if the hourly total shown just before exceeded the limit and no new
   clock hour began; never refused without a limit / when forced *)
Fixpoint prop_obs (limit : option Z) (es : list ev) (exp : list obs) (sum : Z) (last_hour : option Z) (since : Z) : bool :=
  match es, exp with
  | [], [] => true
  | e :: r, (o, c, t) :: xr =>
      match e with
      | Add n f => opt_eqb Bool.eqb o None && (t =? sum + n) && (c =? since + n) && prop_obs limit r xr (sum + n) last_hour (since + n)
      | Req now true => opt_eqb Bool.eqb o (Some true) && (t =? sum) && (c =? since) && prop_obs limit r xr sum last_hour since
      | Req now false =>
          let restart := match last_hour with None => true | Some h => negb (h =? hour_of now) end in
          let since' := if restart then 0 else since in
          let should := match limit with None => true | Some l => since' <=? l end in
          opt_eqb Bool.eqb o (Some should) && (t =? sum) && (c =? since') && prop_obs limit r xr sum (Some (hour_of now)) since'
      end
  | _, _ => false
  end.
Definition hist_prop (c : option Z * list ev * list obs) : bool :=
  let '(limit, es, exp) := c in prop_obs limit es exp 0 None 0.

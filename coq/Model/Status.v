(* Status.v — order / trade status enumerations shared by the models. *)
From V Require Export Model.Num.

Inductive status := SNone | SPending | SCancelling | SUpdating | SReplacing
                  | SExecutable | SExecComplete | SExpired | SViolation.
Definition status_eqb (a b : status) : bool :=
  match a, b with
  | SNone, SNone | SPending, SPending | SCancelling, SCancelling | SUpdating, SUpdating
  | SReplacing, SReplacing | SExecutable, SExecutable | SExecComplete, SExecComplete
  | SExpired, SExpired | SViolation, SViolation => true
  | _, _ => false
  end.
Definition status_in (s : status) (l : list status) : bool := existsb (status_eqb s) l.
Definition all_status := [SNone; SPending; SCancelling; SUpdating; SReplacing; SExecutable; SExecComplete; SExpired; SViolation].

Inductive side := Back | Lay.
Definition side_eqb (a b : side) := match a, b with Back, Back | Lay, Lay => true | _, _ => false end.

(* C16Cases.v — evaluation helpers for the C16 correspondence and the property checker
   evaluated on the implementation's own figures. *)
From V Require Import Model.Num Model.Status Model.Exposure Model.ExposureSpec Gen.StatusC.
Open Scope Z_scope.

Definition mk (id sel : Z) (sd : side) (k : okind) (st : status) (cpl : bool) (m avg rem price liab : Z) : osum :=
  {| o_id := id; o_sel := sel; o_side := sd; o_kind := k; o_status := st; o_complete := cpl;
     o_matched := m; o_avg := avg; o_remaining := rem; o_price := price; o_liab := liab |}.

Definition exp6 (e : exposures) : list Z := [e_mwin e; e_mlose e; e_uwin e; e_ulose e; e_win e; e_lose e].

(* selection query: orders on the selection, exclusion, new, implementation's six figures + selection_exposure (cents) *)
Definition selq := (list osum * option Z * option osum * list Z * Z)%type.

Definition sel_model (tb : tiebreak) (q : selq) : list Z :=
  let '(os, ex, nw, _, _) := q in exp6 (get_exposures tb PENDING_STATUS os ex nw).

(* result: 0 = equal, 1 = rounding-ambiguous (tie-breaks differ), 2 = mismatch *)
Definition sel_cmp (q : selq) : Z :=
  let '(os, ex, nw, impl, isel) := q in
  let u := sel_model tb_up q in let d := sel_model tb_down q in
  if lz_eqb u d then
    (if lz_eqb u impl && (match ex, nw with None, None => selection_exposure tb_up PENDING_STATUS os =? isel | _, _ => true end) then 0 else 2)
  else 1.

(* the property itself on the implementation's figures: within a penny of the brute-force worst
   case, equal to it when the model's raw sums are on the penny grid (tie-free) *)
Definition sel_prop (q : selq) : bool :=
  let '(os, ex, nw, impl, isel) := q in
  let pos := position PENDING_STATUS ex os nw in
  let w := nth 4 impl 0 in let l := nth 5 impl 0 in
  (Z.abs (100 * w - worst true pos) <=? 100) && (Z.abs (100 * l - worst false pos) <=? 100) &&
  (match ex, nw with None, None => isel =? zmax (- zmin w l) 0 | _, _ => true end).

(* market query *)
Definition mktq := (list osum * Z * Z * option Z * option osum * Z)%type.
Definition mkt_cmp (q : mktq) : Z :=
  let '(os, active, k, ex, nw, impl) := q in
  let u := market_exposure tb_up PENDING_STATUS os active k ex nw in
  let d := market_exposure tb_down PENDING_STATUS os active k ex nw in
  if u =? d then (if u =? impl then 0 else 2) else 1.

(* brute force: minimum over k-subsets of the sum *)
Fixpoint min_choose (k : nat) (l : list Z) : option Z :=
  match k, l with
  | O, _ => Some 0
  | S _, [] => None
  | S k', x :: r =>
      match min_choose k' r, min_choose k r with
      | Some a, Some b => Some (Z.min (x + a) b)
      | Some a, None => Some (x + a)
      | None, b => b
      end
  end.

Definition mkt_prop (q : mktq) : bool :=
  let '(os, active, k, ex, nw, impl) := q in
  let sels := dedup (map o_sel os ++ match nw with Some n => [o_sel n] | None => [] end) in
  let poss := map (fun s => position PENDING_STATUS ex (filter (fun o => o_sel o =? s) os)
                     (match nw with Some n => if o_sel n =? s then Some n else None | None => None end)) sels in
  let loses := map (worst false) poss in
  let diffs := map (fun p => worst true p - worst false p) poss ++ repeat 0 (Z.to_nat (active - Z.of_nat (length sels))) in
  let kk := Nat.min (Z.to_nat k) (length diffs) in
  match min_choose kk diffs with
  | Some m => Z.abs (100 * impl - (sumZ loses + m)) <=? 200 * Z.of_nat (length sels)
  | None => false
  end.

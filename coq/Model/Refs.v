(* Refs.v — model of BaseOrder.customer_order_ref, the separator setter
   (BetfairOrder.is_valid_customer_order_ref_character) and the parsing in
   order/process.py.  Strings are lists of code points (Z). *)
From V Require Export Model.Num.
Open Scope Z_scope.

Definition str := list Z.

(* "%s%s%s" % (strategy.name_hash, sep, id) *)
Definition mk_ref (h sep id : str) : str := h ++ sep ++ id.

(* ref[:HASH_LEN], ref[HASH_LEN+1:] *)
Definition parse_hash (hl : nat) (r : str) : str := firstn hl r.
Definition parse_id (hl : nat) (r : str) : str := skipn (S hl) r.

(* the setter accepts new_sep iff len == 1 and the character is in the valid set *)
Definition valid_sep (valid : list Z) (c : str) : bool :=
  match c with [x] => existsb (Z.eqb x) valid | _ => false end.

Definition all_valid (valid : list Z) (s : str) : bool := forallb (fun x => existsb (Z.eqb x) valid) s.

(* str(n) for a non-negative integer: decimal digits, most significant first *)
Fixpoint digits_aux (fuel : nat) (n : Z) (acc : str) : str :=
  match fuel with
  | O => acc
  | S f => let acc' := (48 + n mod 10) :: acc in
           if n <? 10 then acc' else digits_aux f (n / 10) acc'
  end.
Definition digits (n : Z) : str := digits_aux 80 n [].

Definition is_hex (x : Z) : bool := ((48 <=? x) && (x <=? 57)) || ((97 <=? x) && (x <=? 102)).
Definition is_digit (x : Z) : bool := (48 <=? x) && (x <=? 57).

(* attribution in process_current_orders / create_order_from_current:
   the order is looked up by parse_id, the strategy by parse_hash *)
Fixpoint find_idx (eqb : str -> str -> bool) (k : str) (l : list str) (i : nat) : option nat :=
  match l with
  | [] => None
  | x :: r => if eqb x k then Some i else find_idx eqb k r (S i)
  end.
Definition resolve (hl : nat) (order_ids strat_hashes : list str) (r : str) : option nat * option nat :=
  (find_idx lz_eqb (parse_id hl r) order_ids 0, find_idx lz_eqb (parse_hash hl r) strat_hashes 0).

From V Require Import Model.Num Model.Status Model.Blotter.
Open Scope Z_scope.
Definition mk_b (id st sel cl tr : Z) (bet : option Z) (stt : status) (m : Z) : bord :=
  {| bo_id := id; bo_strat := st; bo_sel := sel; bo_client := cl; bo_trade := tr; bo_bet := bet; bo_status := stt; bo_matched := m |}.
Definition vz := list (Z * list Z).
Definition vzz := list (Z * Z * list Z).
(* orders in _orders order; the implementation's views keyed by the same keys *)
Definition views_ok (c : list bord * vz * vzz * vz * vzz * vz * (vz * vz)) : bool :=
  let '(os, vs, vsel, vc, vcs, vt, (vex, vmo)) := c in
  let b := fold_left setitem os blotter0 in
  forallb (fun e => lz_eqb (view_get Z.eqb (fst e) (bl_by_strategy b)) (snd e)) vs &&
  forallb (fun e => lz_eqb (view_get zz_eqb (fst e) (bl_by_selection b)) (snd e)) vsel &&
  forallb (fun e => lz_eqb (view_get Z.eqb (fst e) (bl_by_client b)) (snd e)) vc &&
  forallb (fun e => lz_eqb (view_get zz_eqb (fst e) (bl_by_client_strategy b)) (snd e)) vcs &&
  forallb (fun e => lz_eqb (view_get Z.eqb (fst e) (bl_by_trade b)) (snd e)) vt &&
  (* every key of the model's views appears in the implementation's with the same content (no extra keys either way) *)
  (Nat.eqb (length (bl_by_strategy b)) (length vs)) && (Nat.eqb (length (bl_by_selection b)) (length vsel)) &&
  (Nat.eqb (length (bl_by_client b)) (length vc)) && (Nat.eqb (length (bl_by_client_strategy b)) (length vcs)) && (Nat.eqb (length (bl_by_trade b)) (length vt)) &&
  forallb (fun e => lz_eqb (map bo_id (apply_filters (filter (fun o => bo_strat o =? fst e) os) [SExecutable] false)) (snd e)) vex &&
  forallb (fun e => lz_eqb (map bo_id (apply_filters (filter (fun o => bo_strat o =? fst e) os) [] true)) (snd e)) vmo.

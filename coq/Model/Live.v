(* Live.v — model at handler granularity of live trading:
     execution/betfairexecution.py   execute_place / cancel / update / replace, _execution_helper (retries, reset_orders)
     order/process.py                process_current_orders, process_current_order, create_order_from_current
     order/order.py, order/trade.py  status setters with the trade-completion hook, `with order.trade`
     strategy/runnercontext.py       place / reset
     markets/blotter.py              live list, bet-id lookup
   One event = one handler run to completion (the thread pool is modelled as "responses arrive in any order"). *)
From V Require Export Model.Num Model.Status.
Open Scope Z_scope.

Inductive tstatus := TLive | TPending | TComplete.
Definition tstatus_eqb (a b : tstatus) := match a, b with TLive, TLive | TPending, TPending | TComplete, TComplete => true | _, _ => false end.

(* the exchange's row for a bet, as the stream reports it *)
Record row := { rw_bet : Z; rw_complete : bool (* EXECUTION_COMPLETE / EXPIRED *); rw_matched : Z; rw_remaining : Z; rw_cancelled : Z }.

Record lorder := {
  lo_name : Z; lo_trade : Z; lo_strat : Z; lo_sel : Z; lo_size : Z; lo_price : Z;
  lo_status : status; lo_log : list status; lo_complete : bool; lo_bet : option Z; lo_async : bool;
  lo_view : option row;            (* responses.current_order *)
  lo_place_resp : option (option Z * Z * bool) (* place_response: (bet id, size matched, size_remaining forced to 0) *);
  lo_in_live : bool; lo_in_blotter : bool;
  lo_newprice : option Z
}.
Record ltrade := { lt_id : Z; lt_status : tstatus; lt_log : list tstatus; lt_pending_orders : bool; lt_strat : Z; lt_sel : Z }.
Record rctx := { rc_strat : Z; rc_sel : Z; rc_trades : list Z; rc_live : list Z; rc_resets : Z }.

Record lstate := { ls_orders : list lorder; ls_trades : list ltrade; ls_ctx : list rctx; ls_bet_lookup : list (option Z * Z);
                   ls_tx : Z; ls_tx_failed : Z; ls_next_name : Z; ls_next_trade : Z; ls_complete : list status }.

(* ---- sizes as BetfairOrder reads them ---- *)
Definition lo_matched (o : lorder) : Z :=
  match lo_view o with Some r => rw_matched r | None => match lo_place_resp o with Some (_, m, _) => m | None => 0 end end.
Definition lo_remaining (o : lorder) : Z :=
  match lo_view o with
  | Some r => rw_remaining r
  | None => match lo_place_resp o with
            | Some (_, m, true) => 0                                   (* forced to 0.0 on a FAILURE without bet id *)
            | Some (_, m, false) => if 0 <? m then lo_size o - m else lo_size o   (* placeResponse carries no sizeRemaining -> falsy -> 0.0 ... *)
            | None => lo_size o
            end
  end.

(* ---- generic updates ---- *)
Fixpoint oupd (name : Z) (f : lorder -> lorder) (l : list lorder) : list lorder :=
  match l with [] => [] | o :: r => if lo_name o =? name then f o :: r else o :: oupd name f r end.
Definition oget (name : Z) (l : list lorder) : option lorder := find (fun o => lo_name o =? name) l.
Fixpoint tupd' (id : Z) (f : ltrade -> ltrade) (l : list ltrade) : list ltrade :=
  match l with [] => [] | t :: r => if lt_id t =? id then f t :: r else t :: tupd' id f r end.
Definition tget' (id : Z) (l : list ltrade) : option ltrade := find (fun t => lt_id t =? id) l.

Definition set_lo (o : lorder) (st : status) (cs : list status) : lorder :=
  {| lo_name := lo_name o; lo_trade := lo_trade o; lo_strat := lo_strat o; lo_sel := lo_sel o; lo_size := lo_size o; lo_price := lo_price o;
     lo_status := st; lo_log := lo_log o ++ [st]; lo_complete := status_in st cs; lo_bet := lo_bet o; lo_async := lo_async o;
     lo_view := lo_view o; lo_place_resp := lo_place_resp o; lo_in_live := lo_in_live o; lo_in_blotter := lo_in_blotter o;
     lo_newprice := match st with SExecutable | SExecComplete | SViolation => None | _ => lo_newprice o end |}.

Definition with_ls (s : lstate) (os : list lorder) (ts : list ltrade) (cx : list rctx) : lstate :=
  {| ls_orders := os; ls_trades := ts; ls_ctx := cx; ls_bet_lookup := ls_bet_lookup s; ls_tx := ls_tx s; ls_tx_failed := ls_tx_failed s;
     ls_next_name := ls_next_name s; ls_next_trade := ls_next_trade s; ls_complete := ls_complete s |}.

(* Trade.complete *)
Definition trade_complete (s : lstate) (t : ltrade) : bool :=
  tstatus_eqb (lt_status t) TLive && negb (lt_pending_orders t) &&
  forallb (fun o => negb (lo_trade o =? lt_id t) || lo_complete o) (ls_orders s).

Definition ctx_reset (tid strat sel : Z) (cx : list rctx) : list rctx :=
  map (fun c => if (rc_strat c =? strat) && (rc_sel c =? sel)
                then {| rc_strat := rc_strat c; rc_sel := rc_sel c; rc_trades := rc_trades c;
                        rc_live := (fix rm (l : list Z) := match l with [] => [] | x :: r => if x =? tid then r else x :: rm r end) (rc_live c);
                        rc_resets := rc_resets c + 1 |}
                else c) cx.
Definition ctx_place (tid strat sel : Z) (cx : list rctx) : list rctx :=
  let add (l : list Z) := if existsb (Z.eqb tid) l then l else l ++ [tid] in
  if existsb (fun c => (rc_strat c =? strat) && (rc_sel c =? sel)) cx
  then map (fun c => if (rc_strat c =? strat) && (rc_sel c =? sel)
                     then {| rc_strat := rc_strat c; rc_sel := rc_sel c; rc_trades := add (rc_trades c); rc_live := add (rc_live c); rc_resets := rc_resets c |} else c) cx
  else cx ++ [{| rc_strat := strat; rc_sel := sel; rc_trades := [tid]; rc_live := [tid]; rc_resets := 0 |}].

(* Trade.complete_trade *)
Definition complete_trade (s : lstate) (tid : Z) : lstate :=
  match tget' tid (ls_trades s) with
  | None => s
  | Some t =>
      with_ls s (ls_orders s)
              (tupd' tid (fun t => {| lt_id := lt_id t; lt_status := TComplete; lt_log := lt_log t ++ [TComplete]; lt_pending_orders := lt_pending_orders t; lt_strat := lt_strat t; lt_sel := lt_sel t |}) (ls_trades s))
              (ctx_reset tid (lt_strat t) (lt_sel t) (ls_ctx s))
  end.

(* BaseOrder._update_status with the trade hook *)
Definition order_status (s : lstate) (name : Z) (st : status) : lstate :=
  let s1 := with_ls s (oupd name (fun o => set_lo o st (ls_complete s)) (ls_orders s)) (ls_trades s) (ls_ctx s) in
  match oget name (ls_orders s1) with
  | None => s1
  | Some o =>
      if lo_complete o && negb (status_eqb st SViolation) then
        match tget' (lo_trade o) (ls_trades s1) with
        | Some t => if trade_complete s1 t then complete_trade s1 (lo_trade o) else s1
        | None => s1
        end
      else s1
  end.

(* with order.trade: body  (no exception) *)
Definition trade_set (s : lstate) (tid : Z) (st : tstatus) : lstate :=
  let s1 := with_ls s (ls_orders s)
              (tupd' tid (fun t => {| lt_id := lt_id t; lt_status := st; lt_log := lt_log t ++ [st]; lt_pending_orders := lt_pending_orders t; lt_strat := lt_strat t; lt_sel := lt_sel t |}) (ls_trades s))
              (ls_ctx s) in
  match tget' tid (ls_trades s1) with
  | Some t => if trade_complete s1 t then complete_trade s1 tid else s1
  | None => s1
  end.
Definition with_trade (s : lstate) (name : Z) (body : lstate -> lstate) : lstate :=
  match oget name (ls_orders s) with
  | None => s
  | Some o => trade_set (body (trade_set s (lo_trade o) TPending)) (lo_trade o) TLive
  end.

Definition set_fields (s : lstate) (name : Z) (f : lorder -> lorder) : lstate :=
  with_ls s (oupd name f (ls_orders s)) (ls_trades s) (ls_ctx s).
Definition add_tx (s : lstate) (n nf : Z) : lstate :=
  {| ls_orders := ls_orders s; ls_trades := ls_trades s; ls_ctx := ls_ctx s; ls_bet_lookup := ls_bet_lookup s; ls_tx := ls_tx s + n; ls_tx_failed := ls_tx_failed s + nf;
     ls_next_name := ls_next_name s; ls_next_trade := ls_next_trade s; ls_complete := ls_complete s |}.

(* ---- instruction reports ---- *)
Inductive pstat := PSuccess (order_status : Z (* 0 EXECUTABLE, 1 PENDING, 2 EXPIRED, 3 EXECUTION_COMPLETE *)) (bet : option Z) (matched : Z)
                 | PFailure (bet : option Z) | PTimeout (bet : option Z).
Inductive cstat := CSuccess (size_cancelled : Z) | CFailure (taken_or_lapsed : bool) | CTimeout.
Inductive ustat := USuccess | UFailure | UTimeout.
Inductive rstat := RReport (c : cstat) (p : option (Z * Z * Z)) (* place SUCCESS: bet id, price, size *) .

(* packages: the orders as given at creation; BaseOrderPackage.orders filters VIOLATION at every read *)
Definition pkg_orders (s : lstate) (names : list Z) : list Z :=
  filter (fun n => match oget n (ls_orders s) with Some o => negb (status_eqb (lo_status o) SViolation) | None => false end) names.

Fixpoint zip {A B} (a : list A) (b : list B) : list (A * B) :=
  match a, b with x :: a', y :: b' => (x, y) :: zip a' b' | _, _ => [] end.

Definition exec_place (s : lstate) (names : list Z) (reports : list pstat) : lstate :=
  let s1 := fold_left (fun s nr =>
      let '(n, r) := nr in
      with_trade s n (fun s =>
        let setbet (b : option Z) (m : Z) (s : lstate) :=
          set_fields s n (fun o => {| lo_name := lo_name o; lo_trade := lo_trade o; lo_strat := lo_strat o; lo_sel := lo_sel o; lo_size := lo_size o; lo_price := lo_price o;
                                     lo_status := lo_status o; lo_log := lo_log o; lo_complete := lo_complete o; lo_bet := match b with Some _ => b | None => lo_bet o end; lo_async := lo_async o;
                                     lo_view := lo_view o; lo_place_resp := Some (b, m, false); lo_in_live := lo_in_live o; lo_in_blotter := lo_in_blotter o; lo_newprice := lo_newprice o |}) in
        match r with
        | PSuccess os b m =>
            let s := setbet b m s in
            if os =? 1 then s else if os =? 2 then order_status s n SExecComplete else order_status s n SExecutable
        | PFailure b =>
            let s := setbet b 0 s in
            (* order.current_order.bet_id is None -> size_remaining forced to 0 on that object *)
            let s := match oget n (ls_orders s) with
                     | Some o => match lo_view o, b with
                                 | None, None => set_fields s n (fun o => {| lo_name := lo_name o; lo_trade := lo_trade o; lo_strat := lo_strat o; lo_sel := lo_sel o; lo_size := lo_size o; lo_price := lo_price o;
                                                                             lo_status := lo_status o; lo_log := lo_log o; lo_complete := lo_complete o; lo_bet := lo_bet o; lo_async := lo_async o;
                                                                             lo_view := lo_view o; lo_place_resp := Some (None, 0, true); lo_in_live := lo_in_live o; lo_in_blotter := lo_in_blotter o; lo_newprice := lo_newprice o |})
                                 | _, _ => s
                                 end
                     | None => s
                     end in
            order_status s n SExecComplete
        | PTimeout b => setbet b 0 s
        end)) (zip (pkg_orders s names) reports) s in
  add_tx s1 (Z.of_nat (length (pkg_orders s1 names))) 0.

(* cancel reports carry the bet id of their instruction; they may come in any order or be missing *)
Definition exec_cancel (s : lstate) (names : list Z) (reports : list (Z * cstat)) : lstate :=
  let pk := pkg_orders s names in
  let by_bet (b : Z) := find (fun n => match oget n (ls_orders s) with Some o => opt_eqb Z.eqb (lo_bet o) (Some b) | None => false end) pk in
  let '(s1, rest, nf) := fold_left (fun (acc : lstate * list Z * Z) br =>
      let '(s, rest, nf) := acc in
      let '(b, r) := br in
      match by_bet b with
      | None => acc
      | Some n =>
        if negb (existsb (Z.eqb n) rest) then acc else
        let rest' := filter (fun x => negb (x =? n)) rest in
        let s' := with_trade s n (fun s =>
            match oget n (ls_orders s) with
            | None => s
            | Some o =>
              match r with
              | CSuccess sc => if (sc =? lo_remaining o) || (lo_remaining o =? 0) then order_status s n SExecComplete else order_status s n SExecutable
              | CFailure true => order_status s n SExecComplete
              | CFailure false => order_status s n SExecutable
              | CTimeout => order_status s n SExecutable
              end
            end) in
        (s', rest', nf + match r with CFailure _ => 1 | _ => 0 end)
      end) reports (s, pk, 0) in
  let s2 := fold_left (fun s n => with_trade s n (fun s => order_status s n SExecutable)) rest s1 in
  add_tx s2 0 nf.

Definition exec_update (s : lstate) (names : list Z) (reports : list ustat) : lstate :=
  let s1 := fold_left (fun s nr => with_trade s (fst nr) (fun s => order_status s (fst nr) SExecutable)) (zip (pkg_orders s names) reports) s in
  add_tx s1 0 (Z.of_nat (length (filter (fun nr => match snd nr with UFailure => true | _ => false end) (zip (pkg_orders s names) reports)))).

Definition new_lorder (name tid strat sel size price : Z) (bet : option Z) : lorder :=
  {| lo_name := name; lo_trade := tid; lo_strat := strat; lo_sel := sel; lo_size := size; lo_price := price;
     lo_status := SNone; lo_log := []; lo_complete := false; lo_bet := bet; lo_async := false; lo_view := None; lo_place_resp := None;
     lo_in_live := false; lo_in_blotter := false; lo_newprice := None |}.

(* the handler zips the (VIOLATION-filtered) orders with the reports of the instructions that were SENT; the harness gives
   the reports in instruction order, i.e. for the orders that were not EXECUTION_COMPLETE when the call was made *)
Definition exec_replace (s : lstate) (names : list Z) (reports : list rstat) : lstate :=
  let '(s1, nf) := fold_left (fun (acc : lstate * Z) nr =>
      let '(s, nf) := acc in
      let '(n, RReport c p) := nr in
      match oget n (ls_orders s) with
      | None => acc
      | Some o0 =>
        let s' := with_trade s n (fun s =>
            let s := match c with
                     | CSuccess _ => order_status s n SExecComplete
                     | CFailure _ => order_status s n SExecutable
                     | CTimeout => order_status s n SExecutable
                     end in
            match p with
            | Some (bet, price, size) =>
                let nn := ls_next_name s in
                let r := new_lorder nn (lo_trade o0) (lo_strat o0) (lo_sel o0) size price (Some bet) in
                let r := {| lo_name := lo_name r; lo_trade := lo_trade r; lo_strat := lo_strat r; lo_sel := lo_sel r; lo_size := lo_size r; lo_price := lo_price r;
                            lo_status := SPending; lo_log := [SPending]; lo_complete := false; lo_bet := lo_bet r; lo_async := false; lo_view := None;
                            lo_place_resp := Some (Some bet, 0, false); lo_in_live := true; lo_in_blotter := true; lo_newprice := None |} in
                let s := {| ls_orders := ls_orders s ++ [r]; ls_trades := ls_trades s; ls_ctx := ls_ctx s; ls_bet_lookup := ls_bet_lookup s ++ [(Some bet, nn)];
                            ls_tx := ls_tx s; ls_tx_failed := ls_tx_failed s; ls_next_name := nn + 1; ls_next_trade := ls_next_trade s; ls_complete := ls_complete s |} in
                order_status s nn SExecutable
            | None => s
            end) in
        (s', nf + match c with CFailure _ => 1 | _ => 0 end)
      end) (zip (pkg_orders s names) reports) (s, 0) in
  add_tx s1 (Z.of_nat (length (pkg_orders s1 names))) nf.

(* exhausted retries / unknown API error: reset_orders *)
Definition reset_orders (s : lstate) (names : list Z) (complete : bool) : lstate :=
  fold_left (fun s n => with_trade s n (fun s => order_status s n (if complete then SExecComplete else SExecutable))) (pkg_orders s names) s.

(* ---- order stream ---- *)
Definition apply_row (s : lstate) (name : Z) (r : row) : lstate :=
  let s := set_fields s name (fun o => {| lo_name := lo_name o; lo_trade := lo_trade o; lo_strat := lo_strat o; lo_sel := lo_sel o; lo_size := lo_size o; lo_price := lo_price o;
                                          lo_status := lo_status o; lo_log := lo_log o; lo_complete := lo_complete o;
                                          lo_bet := if lo_async o then match lo_bet o with None => Some (rw_bet r) | b => b end else lo_bet o; lo_async := lo_async o;
                                          lo_view := Some r; lo_place_resp := lo_place_resp o; lo_in_live := lo_in_live o; lo_in_blotter := lo_in_blotter o; lo_newprice := lo_newprice o |}) in
  let s := match oget name (ls_orders s) with
           | None => s
           | Some o =>
               match lo_bet o, lo_status o with
               | Some _, SPending => order_status s name (if rw_complete r then SExecComplete else SExecutable)
               | _, SExecutable => if rw_complete r then order_status s name SExecComplete else s
               | _, _ => s
               end
           end in
  (* complete -> leaves the live list *)
  match oget name (ls_orders s) with
  | Some o => if lo_complete o then set_fields s name (fun o => {| lo_name := lo_name o; lo_trade := lo_trade o; lo_strat := lo_strat o; lo_sel := lo_sel o; lo_size := lo_size o; lo_price := lo_price o;
                                                                  lo_status := lo_status o; lo_log := lo_log o; lo_complete := lo_complete o; lo_bet := lo_bet o; lo_async := lo_async o;
                                                                  lo_view := lo_view o; lo_place_resp := lo_place_resp o; lo_in_live := false; lo_in_blotter := lo_in_blotter o; lo_newprice := lo_newprice o |}) else s
  | None => s
  end.

(* one row of a snapshot: (order name encoded in the customer ref, known strategy?, strategy, selection, row, size, price) *)
Record srow := { sr_name : Z; sr_strategy : option Z; sr_sel : Z; sr_row : row; sr_size : Z; sr_price : Z }.

Definition process_row (s : lstate) (x : srow) : lstate :=
  match oget (sr_name x) (ls_orders s) with
  | None =>
      match sr_strategy x with
      | None => s                                        (* unknown strategy: ignored *)
      | Some st =>
          (* create_order_from_current: new trade, order with the exchange's bet id, blotter, runner_context.place, placing() *)
          let tid := ls_next_trade s in
          let o := new_lorder (sr_name x) tid st (sr_sel x) (sr_size x) (sr_price x) (Some (rw_bet (sr_row x))) in
          let o := {| lo_name := lo_name o; lo_trade := tid; lo_strat := st; lo_sel := lo_sel o; lo_size := lo_size o; lo_price := lo_price o;
                      lo_status := SPending; lo_log := [SPending]; lo_complete := false; lo_bet := lo_bet o; lo_async := false; lo_view := None; lo_place_resp := None;
                      lo_in_live := true; lo_in_blotter := true; lo_newprice := None |} in
          let s := {| ls_orders := ls_orders s ++ [o];
                      ls_trades := ls_trades s ++ [{| lt_id := tid; lt_status := TLive; lt_log := []; lt_pending_orders := false; lt_strat := st; lt_sel := sr_sel x |}];
                      ls_ctx := ctx_place tid st (sr_sel x) (ls_ctx s); ls_bet_lookup := ls_bet_lookup s ++ [(Some (rw_bet (sr_row x)), sr_name x)];
                      ls_tx := ls_tx s; ls_tx_failed := ls_tx_failed s; ls_next_name := ls_next_name s; ls_next_trade := tid + 1; ls_complete := ls_complete s |} in
          apply_row s (sr_name x) (sr_row x)
      end
  | Some o =>
      match lo_bet o with
      | Some b =>
          if b =? rw_bet (sr_row x) then apply_row s (sr_name x) (sr_row x)
          else (* replaced bet: new bet id under the old customer reference -> the replacement order found by bet id *)
            match find (fun e => opt_eqb Z.eqb (fst e) (Some (rw_bet (sr_row x)))) (rev (ls_bet_lookup s)) with
            | Some e => apply_row s (snd e) (sr_row x)
            | None => s
            end
      | None => apply_row s (sr_name x) (sr_row x)
      end
  end.

Definition process_snapshot (s : lstate) (rows : list srow) : lstate := fold_left process_row rows s.

(* ---- requests (controls accepting): what Transaction.place_order / order.cancel|update|replace do locally ---- *)
Definition req_place (s : lstate) (name tid strat sel size price : Z) (async : bool) : lstate :=
  let o := new_lorder name tid strat sel size price None in
  let o := {| lo_name := name; lo_trade := tid; lo_strat := strat; lo_sel := sel; lo_size := size; lo_price := price;
              lo_status := SPending; lo_log := [SPending]; lo_complete := false; lo_bet := None; lo_async := async; lo_view := None; lo_place_resp := None;
              lo_in_live := true; lo_in_blotter := true; lo_newprice := None |} in
  let ts := match tget' tid (ls_trades s) with
            | Some _ => ls_trades s
            | None => ls_trades s ++ [{| lt_id := tid; lt_status := TLive; lt_log := []; lt_pending_orders := false; lt_strat := strat; lt_sel := sel |}]
            end in
  {| ls_orders := ls_orders s ++ [o]; ls_trades := ts; ls_ctx := ctx_place tid strat sel (ls_ctx s); ls_bet_lookup := ls_bet_lookup s ++ [(None, name)];
     ls_tx := ls_tx s; ls_tx_failed := ls_tx_failed s; ls_next_name := ls_next_name s; ls_next_trade := Z.max (ls_next_trade s) (tid + 1); ls_complete := ls_complete s |}.

(* 0 cancel, 1 update, 2 replace; the guards: bet id known and status EXECUTABLE (the harness never asks for a no-change) *)
Definition req_other (s : lstate) (name : Z) (k : Z) (newprice : Z) : lstate :=
  match oget name (ls_orders s) with
  | Some o =>
      match lo_bet o with
      | Some _ => if status_eqb (lo_status o) SExecutable then
                    let s := if k =? 2 then set_fields s name (fun o => {| lo_name := lo_name o; lo_trade := lo_trade o; lo_strat := lo_strat o; lo_sel := lo_sel o; lo_size := lo_size o; lo_price := lo_price o;
                                                                           lo_status := lo_status o; lo_log := lo_log o; lo_complete := lo_complete o; lo_bet := lo_bet o; lo_async := lo_async o;
                                                                           lo_view := lo_view o; lo_place_resp := lo_place_resp o; lo_in_live := lo_in_live o; lo_in_blotter := lo_in_blotter o; lo_newprice := Some newprice |}) else s in
                    order_status s name (if k =? 0 then SCancelling else if k =? 1 then SUpdating else SReplacing)
                  else s
      | None => s
      end
  | None => s
  end.

(* ---- events ---- *)
Inductive levent :=
  | LPlace (name tid strat sel size price : Z) (async : bool)
  | LReq (name k newprice : Z)
  | LResponsePlace (names : list Z) (reports : list pstat)
  | LResponseCancel (names : list Z) (reports : list (Z * cstat))
  | LResponseUpdate (names : list Z) (reports : list ustat)
  | LResponseReplace (names : list Z) (reports : list rstat)
  | LExhausted (names : list Z) (is_place : bool)          (* BetfairError on every attempt: reset_orders *)
  | LUnknownError (names : list Z)                          (* a non-BetfairError exception: nothing happens *)
  | LSnapshot (rows : list srow)
  | LNop
  | LRefused (name : Z)                                     (* a trading control refuses a cancel/update/replace: order.violation() on the live order *)
  | LRestart.                                               (* a new process: local state gone, the exchange keeps its bets *)

Definition lstate0 (cs : list status) : lstate :=
  {| ls_orders := []; ls_trades := []; ls_ctx := []; ls_bet_lookup := []; ls_tx := 0; ls_tx_failed := 0; ls_next_name := 1000; ls_next_trade := 0; ls_complete := cs |}.

Definition lstep (s : lstate) (e : levent) : lstate :=
  match e with
  | LPlace n t st sl sz p a => req_place s n t st sl sz p a
  | LReq n k np => req_other s n k np
  | LResponsePlace ns rs => exec_place s ns rs
  | LResponseCancel ns rs => exec_cancel s ns rs
  | LResponseUpdate ns rs => exec_update s ns rs
  | LResponseReplace ns rs => exec_replace s ns rs
  | LExhausted ns p => reset_orders s ns p
  | LUnknownError _ => s
  | LSnapshot rows => process_snapshot s rows
  | LNop => s
  | LRefused n => order_status s n SViolation
  | LRestart => {| ls_orders := []; ls_trades := []; ls_ctx := []; ls_bet_lookup := []; ls_tx := 0; ls_tx_failed := 0;
                   ls_next_name := ls_next_name s; ls_next_trade := ls_next_trade s; ls_complete := ls_complete s |}
  end.
Definition lrun (s : lstate) (es : list levent) : lstate := fold_left lstep es s.

(* Live.v — model at handler granularity of live trading:
     execution/betfairexecution.py   execute_place / cancel / update / replace, _execution_helper (retries, reset_orders)
     order/process.py                process_current_orders, process_current_order, create_order_from_current
     order/order.py, order/trade.py  status setters with the trade-completion hook, `with order.trade`
     strategy/runnercontext.py       place / reset
     markets/blotter.py              live list, bet-id lookup
   One event = one handler run to completion (the thread pool is modelled as "responses arrive in any order"). *)
From V Require Export Model.Num Model.Status.
Open Scope Z_scope.

Inductive tstatus := TLive | TPending | TComplete.
Definition tstatus_eqb (a b : tstatus) := match a, b with TLive, TLive | TPending, TPending | TComplete, TComplete => true | _, _ => false end.

(* the exchange's row for a bet, as the stream reports it *)
Record row := { rw_bet : Z; rw_complete : bool (* EXECUTION_COMPLETE / EXPIRED *); rw_matched : Z; rw_remaining : Z; rw_cancelled : Z }.

Record lorder := {
  lo_name : Z; lo_trade : Z; lo_strat : Z; lo_sel : Z; lo_size : Z; lo_price : Z;
  lo_status : status; lo_log : list status; lo_complete : bool; lo_bet : option Z; lo_async : bool;
  lo_view : option row;            (* responses.current_order *)
  lo_place_resp : option (option Z * Z * bool) (* place_response: (bet id, size matched, size_remaining forced to 0) *);
  lo_in_live : bool; lo_in_blotter : bool;
  lo_newprice : option Z
}.
Record ltrade := { lt_id : Z; lt_status : tstatus; lt_log : list tstatus; lt_pending_orders : bool; lt_strat : Z; lt_sel : Z }.
Record rctx := { rc_strat : Z; rc_sel : Z; rc_trades : list Z; rc_live : list Z; rc_resets : Z }.

Record lstate := { ls_orders : list lorder; ls_trades : list ltrade; ls_ctx : list rctx; ls_bet_lookup : list (option Z * Z);
                   ls_tx : Z; ls_tx_failed : Z; ls_next_name : Z; ls_next_trade : Z; ls_complete : list status }.

(* ---- sizes as BetfairOrder reads them ---- *)
Definition lo_matched (o : lorder) : Z :=
  match lo_view o with Some r => rw_matched r | None => match lo_place_resp o with Some (_, m, _) => m | None => 0 end end.
Definition lo_remaining (o : lorder) : Z :=
  match lo_view o with
  | Some r => rw_remaining r
  | None => match lo_place_resp o with
            | Some (_, m, true) => 0                                   (* forced to 0.0 on a FAILURE without bet id *)
            | Some (_, m, false) => if 0 <? m then lo_size o - m else lo_size o   (* placeResponse carries no sizeRemaining -> falsy -> 0.0 ... *)
            | None => lo_size o
            end
  end.

(* ---- generic updates ---- *)
(* names / trade ids are unique in every run (checked by the correspondence), so "the" order is every order of that name *)
Definition oupd (name : Z) (f : lorder -> lorder) (l : list lorder) : list lorder :=
  map (fun o => if lo_name o =? name then f o else o) l.
Definition oget (name : Z) (l : list lorder) : option lorder := find (fun o => lo_name o =? name) l.
Definition tupd' (id : Z) (f : ltrade -> ltrade) (l : list ltrade) : list ltrade :=
  map (fun t => if lt_id t =? id then f t else t) l.
Definition tget' (id : Z) (l : list ltrade) : option ltrade := find (fun t => lt_id t =? id) l.

Definition set_lo (o : lorder) (st : status) (cs : list status) : lorder :=
  {| lo_name := lo_name o; lo_trade := lo_trade o; lo_strat := lo_strat o; lo_sel := lo_sel o; lo_size := lo_size o; lo_price := lo_price o;
     lo_status := st; lo_log := lo_log o ++ [st]; lo_complete := status_in st cs; lo_bet := lo_bet o; lo_async := lo_async o;
     lo_view := lo_view o; lo_place_resp := lo_place_resp o; lo_in_live := lo_in_live o; lo_in_blotter := lo_in_blotter o;
     lo_newprice := match st with SExecutable | SExecComplete | SViolation => None | _ => lo_newprice o end |}.

Definition with_ls (s : lstate) (os : list lorder) (ts : list ltrade) (cx : list rctx) : lstate :=
  {| ls_orders := os; ls_trades := ts; ls_ctx := cx; ls_bet_lookup := ls_bet_lookup s; ls_tx := ls_tx s; ls_tx_failed := ls_tx_failed s;
     ls_next_name := ls_next_name s; ls_next_trade := ls_next_trade s; ls_complete := ls_complete s |}.

(* Trade.complete *)
Definition trade_complete (s : lstate) (t : ltrade) : bool :=
  tstatus_eqb (lt_status t) TLive && negb (lt_pending_orders t) &&
  forallb (fun o => negb (lo_trade o =? lt_id t) || lo_complete o) (ls_orders s).

Definition ctx_reset (tid strat sel : Z) (cx : list rctx) : list rctx :=
  map (fun c => if (rc_strat c =? strat) && (rc_sel c =? sel)
                then {| rc_strat := rc_strat c; rc_sel := rc_sel c; rc_trades := rc_trades c;
                        rc_live := (fix rm (l : list Z) := match l with [] => [] | x :: r => if x =? tid then r else x :: rm r end) (rc_live c);
                        rc_resets := rc_resets c + 1 |}
                else c) cx.
Definition ctx_place (tid strat sel : Z) (cx : list rctx) : list rctx :=
  let add (l : list Z) := if existsb (Z.eqb tid) l then l else l ++ [tid] in
  if existsb (fun c => (rc_strat c =? strat) && (rc_sel c =? sel)) cx
  then map (fun c => if (rc_strat c =? strat) && (rc_sel c =? sel)
                     then {| rc_strat := rc_strat c; rc_sel := rc_sel c; rc_trades := add (rc_trades c); rc_live := add (rc_live c); rc_resets := rc_resets c |} else c) cx
  else cx ++ [{| rc_strat := strat; rc_sel := sel; rc_trades := [tid]; rc_live := [tid]; rc_resets := 0 |}].

(* Trade.complete_trade *)
Definition complete_trade (s : lstate) (tid : Z) : lstate :=
  match tget' tid (ls_trades s) with
  | None => s
  | Some t =>
      with_ls s (ls_orders s)
              (tupd' tid (fun t => {| lt_id := lt_id t; lt_status := TComplete; lt_log := lt_log t ++ [TComplete]; lt_pending_orders := lt_pending_orders t; lt_strat := lt_strat t; lt_sel := lt_sel t |}) (ls_trades s))
              (ctx_reset tid (lt_strat t) (lt_sel t) (ls_ctx s))
  end.

(* BaseOrder._update_status with the trade hook *)
Definition order_status (s : lstate) (name : Z) (st : status) : lstate :=
  let s1 := with_ls s (oupd name (fun o => set_lo o st (ls_complete s)) (ls_orders s)) (ls_trades s) (ls_ctx s) in
  match oget name (ls_orders s1) with
  | None => s1
  | Some o =>
      if lo_complete o && negb (status_eqb st SViolation) then
        match tget' (lo_trade o) (ls_trades s1) with
        | Some t => if trade_complete s1 t then complete_trade s1 (lo_trade o) else s1
        | None => s1
        end
      else s1
  end.

(* with order.trade: body  (no exception) *)
Definition trade_set (s : lstate) (tid : Z) (st : tstatus) : lstate :=
  let s1 := with_ls s (ls_orders s)
              (tupd' tid (fun t => {| lt_id := lt_id t; lt_status := st; lt_log := lt_log t ++ [st]; lt_pending_orders := lt_pending_orders t; lt_strat := lt_strat t; lt_sel := lt_sel t |}) (ls_trades s))
              (ls_ctx s) in
  match tget' tid (ls_trades s1) with
  | Some t => if trade_complete s1 t then complete_trade s1 tid else s1
  | None => s1
  end.
Definition with_trade (s : lstate) (name : Z) (body : lstate -> lstate) : lstate :=
  match oget name (ls_orders s) with
  | None => s
  | Some o => trade_set (body (trade_set s (lo_trade o) TPending)) (lo_trade o) TLive
  end.

Definition set_fields (s : lstate) (name : Z) (f : lorder -> lorder) : lstate :=
  with_ls s (oupd name f (ls_orders s)) (ls_trades s) (ls_ctx s).
Definition add_tx (s : lstate) (n nf : Z) : lstate :=
  {| ls_orders := ls_orders s; ls_trades := ls_trades s; ls_ctx := ls_ctx s; ls_bet_lookup := ls_bet_lookup s; ls_tx := ls_tx s + n; ls_tx_failed := ls_tx_failed s + nf;
     ls_next_name := ls_next_name s; ls_next_trade := ls_next_trade s; ls_complete := ls_complete s |}.

(* ---- instruction reports ---- *)
Inductive pstat := PSuccess (order_status : Z (* 0 EXECUTABLE, 1 PENDING, 2 EXPIRED, 3 EXECUTION_COMPLETE *)) (bet : option Z) (matched : Z)
                 | PFailure (bet : option Z) | PTimeout (bet : option Z).
Inductive cstat := CSuccess (size_cancelled : Z) | CFailure (taken_or_lapsed : bool) | CTimeout.
Inductive ustat := USuccess | UFailure | UTimeout.
Inductive rstat := RReport (c : cstat) (p : option (Z * Z * Z)) (* place SUCCESS: bet id, price, size *) .

(* packages: the orders as given at creation; BaseOrderPackage.orders filters VIOLATION at every read *)
Definition pkg_orders (s : lstate) (names : list Z) : list Z :=
  filter (fun n => match oget n (ls_orders s) with Some o => negb (status_eqb (lo_status o) SViolation) | None => false end) names.

Fixpoint zip {A B} (a : list A) (b : list B) : list (A * B) :=
  match a, b with x :: a', y :: b' => (x, y) :: zip a' b' | _, _ => [] end.

Definition upd_place_resp (o : lorder) (b : option Z) (m : Z) (zero : bool) (setbet : bool) : lorder :=
  {| lo_name := lo_name o; lo_trade := lo_trade o; lo_strat := lo_strat o; lo_sel := lo_sel o; lo_size := lo_size o; lo_price := lo_price o;
     lo_status := lo_status o; lo_log := lo_log o; lo_complete := lo_complete o;
     lo_bet := if setbet then match b with Some _ => b | None => lo_bet o end else lo_bet o; lo_async := lo_async o;
     lo_view := lo_view o; lo_place_resp := Some (b, m, zero); lo_in_live := lo_in_live o; lo_in_blotter := lo_in_blotter o; lo_newprice := lo_newprice o |}.
(* _order_logger: responses.placed(report); bet id if the report carries one *)
Definition setbet (s : lstate) (n : Z) (b : option Z) (m : Z) : lstate := set_fields s n (fun o => upd_place_resp o b m false true).
(* FAILURE: order.current_order.bet_id is None -> size_remaining forced to 0 on that object (the place report) *)
Definition force_zero (s : lstate) (n : Z) (b : option Z) : lstate :=
  match oget n (ls_orders s) with
  | Some o => match lo_view o, b with
              | None, None => set_fields s n (fun o => upd_place_resp o None 0 true false)
              | _, _ => s
              end
  | None => s
  end.
Definition place_body (n : Z) (r : pstat) (s : lstate) : lstate :=
  match r with
  | PSuccess os b m =>
      let s := setbet s n b m in
      if os =? 1 then s else if os =? 2 then order_status s n SExecComplete else order_status s n SExecutable
  | PFailure b => order_status (force_zero (setbet s n b 0) n b) n SExecComplete
  | PTimeout b => setbet s n b 0
  end.
Definition exec_place (s : lstate) (names : list Z) (reports : list pstat) : lstate :=
  let s1 := fold_left (fun s (nr : Z * pstat) => with_trade s (fst nr) (place_body (fst nr) (snd nr))) (zip (pkg_orders s names) reports) s in
  add_tx s1 (Z.of_nat (length (pkg_orders s1 names))) 0.

(* cancel reports carry the bet id of their instruction; they may come in any order or be missing *)
Definition cancel_status (remaining : Z) (r : cstat) : status :=
  match r with
  | CSuccess sc => if (sc =? remaining) || (remaining =? 0) then SExecComplete else SExecutable
  | CFailure true => SExecComplete
  | CFailure false => SExecutable
  | CTimeout => SExecutable
  end.
Definition cancel_body (n : Z) (r : cstat) (s : lstate) : lstate :=
  match oget n (ls_orders s) with
  | None => s
  | Some o => order_status s n (cancel_status (lo_remaining o) r)
  end.
Definition by_bet (s : lstate) (pk : list Z) (b : Z) : option Z :=
  find (fun n => match oget n (ls_orders s) with Some o => opt_eqb Z.eqb (lo_bet o) (Some b) | None => false end) pk.
Definition cancel_step (s0 : lstate) (pk : list Z) (acc : lstate * list Z * Z) (br : Z * cstat) : lstate * list Z * Z :=
  let '(s, rest, nf) := acc in
  match by_bet s0 pk (fst br) with
  | None => acc                                        (* (order_lookup.pop would raise KeyError: not produced by an exchange) *)
  | Some n =>
      if negb (existsb (Z.eqb n) rest) then acc else
      (with_trade s n (cancel_body n (snd br)), filter (fun x => negb (x =? n)) rest, nf + match snd br with CFailure _ => 1 | _ => 0 end)
  end.
Definition exec_cancel (s : lstate) (names : list Z) (reports : list (Z * cstat)) : lstate :=
  let pk := pkg_orders s names in
  let acc := fold_left (cancel_step s pk) reports (s, pk, 0) in
  let s2 := fold_left (fun s n => with_trade s n (fun s => order_status s n SExecutable)) (snd (fst acc)) (fst (fst acc)) in
  add_tx s2 0 (snd acc).

Definition exec_update (s : lstate) (names : list Z) (reports : list ustat) : lstate :=
  let s1 := fold_left (fun s nr => with_trade s (fst nr) (fun s => order_status s (fst nr) SExecutable)) (zip (pkg_orders s names) reports) s in
  add_tx s1 0 (Z.of_nat (length (filter (fun nr => match snd nr with UFailure => true | _ => false end) (zip (pkg_orders s names) reports)))).

Definition new_lorder (name tid strat sel size price : Z) (bet : option Z) : lorder :=
  {| lo_name := name; lo_trade := tid; lo_strat := strat; lo_sel := sel; lo_size := size; lo_price := price;
     lo_status := SNone; lo_log := []; lo_complete := false; lo_bet := bet; lo_async := false; lo_view := None; lo_place_resp := None;
     lo_in_live := false; lo_in_blotter := false; lo_newprice := None |}.

(* trade.create_order_replacement + responses.placed(report) + market.place_order(execute=False) + executable() *)
Definition add_replacement (s : lstate) (o0 : lorder) (bet price size : Z) : lstate :=
  let nn := ls_next_name s in
  let r := {| lo_name := nn; lo_trade := lo_trade o0; lo_strat := lo_strat o0; lo_sel := lo_sel o0; lo_size := size; lo_price := price;
              lo_status := SPending; lo_log := [SPending]; lo_complete := false; lo_bet := Some bet; lo_async := false; lo_view := None;
              lo_place_resp := Some (Some bet, 0, false); lo_in_live := true; lo_in_blotter := true; lo_newprice := None |} in
  let s := {| ls_orders := ls_orders s ++ [r]; ls_trades := ls_trades s; ls_ctx := ls_ctx s; ls_bet_lookup := ls_bet_lookup s ++ [(Some bet, nn)];
              ls_tx := ls_tx s; ls_tx_failed := ls_tx_failed s; ls_next_name := nn + 1; ls_next_trade := ls_next_trade s; ls_complete := ls_complete s |} in
  order_status s nn SExecutable.
Definition replace_body (n : Z) (o0 : lorder) (r : rstat) (s : lstate) : lstate :=
  let '(RReport c p) := r in
  let s := match c with
           | CSuccess _ => order_status s n SExecComplete
           | CFailure _ => order_status s n SExecutable
           | CTimeout => order_status s n SExecutable
           end in
  match p with
  | Some (bet, price, size) => add_replacement s o0 bet price size
  | None => s
  end.
Definition replace_step (acc : lstate * Z) (nr : Z * rstat) : lstate * Z :=
  match oget (fst nr) (ls_orders (fst acc)) with
  | None => acc
  | Some o0 => (with_trade (fst acc) (fst nr) (replace_body (fst nr) o0 (snd nr)),
                snd acc + match snd nr with RReport (CFailure _) _ => 1 | _ => 0 end)
  end.
(* replace_instructions skips the orders of the package that are already EXECUTION_COMPLETE; since the repair of F-C12-1 the handler
   skips them too, so that each report meets the order its instruction was built for *)
Definition pkg_sendable (s : lstate) (names : list Z) : list Z :=
  filter (fun n => match oget n (ls_orders s) with Some o => negb (status_eqb (lo_status o) SExecComplete) | None => false end) (pkg_orders s names).
Definition exec_replace (s : lstate) (names : list Z) (reports : list rstat) : lstate :=
  let acc := fold_left replace_step (zip (pkg_sendable s names) reports) (s, 0) in
  add_tx (fst acc) (Z.of_nat (length (pkg_orders (fst acc) names))) (snd acc).

(* exhausted retries / unknown API error: reset_orders *)
Definition reset_orders (s : lstate) (names : list Z) (complete : bool) : lstate :=
  fold_left (fun s n => with_trade s n (fun s => order_status s n (if complete then SExecComplete else SExecutable))) (pkg_orders s names) s.

(* ---- order stream ---- *)
(* order.update_current_order(row); async orders learn their bet id from the stream *)
Definition set_view (o : lorder) (r : row) : lorder :=
  {| lo_name := lo_name o; lo_trade := lo_trade o; lo_strat := lo_strat o; lo_sel := lo_sel o; lo_size := lo_size o; lo_price := lo_price o;
     lo_status := lo_status o; lo_log := lo_log o; lo_complete := lo_complete o;
     lo_bet := if lo_async o then match lo_bet o with None => Some (rw_bet r) | b => b end else lo_bet o; lo_async := lo_async o;
     lo_view := Some r; lo_place_resp := lo_place_resp o; lo_in_live := lo_in_live o; lo_in_blotter := lo_in_blotter o; lo_newprice := lo_newprice o |}.
(* process_current_order: PENDING with a bet id / EXECUTABLE follow the row; every other status is left alone *)
Definition row_status (s : lstate) (name : Z) (r : row) : lstate :=
  match oget name (ls_orders s) with
  | None => s
  | Some o =>
      match lo_bet o, lo_status o with
      | Some _, SPending => order_status s name (if rw_complete r then SExecComplete else SExecutable)
      | _, SExecutable => if rw_complete r then order_status s name SExecComplete else s
      | _, _ => s
      end
  end.
Definition set_live (o : lorder) (b : bool) : lorder :=
  {| lo_name := lo_name o; lo_trade := lo_trade o; lo_strat := lo_strat o; lo_sel := lo_sel o; lo_size := lo_size o; lo_price := lo_price o;
     lo_status := lo_status o; lo_log := lo_log o; lo_complete := lo_complete o; lo_bet := lo_bet o; lo_async := lo_async o;
     lo_view := lo_view o; lo_place_resp := lo_place_resp o; lo_in_live := b; lo_in_blotter := lo_in_blotter o; lo_newprice := lo_newprice o |}.
(* complete -> blotter.complete_order: leaves the live list *)
Definition leave_live (s : lstate) (name : Z) : lstate :=
  match oget name (ls_orders s) with
  | Some o => if lo_complete o then set_fields s name (fun o => set_live o false) else s
  | None => s
  end.
Definition apply_row (s : lstate) (name : Z) (r : row) : lstate :=
  leave_live (row_status (set_fields s name (fun o => set_view o r)) name r) name.

(* one row of a snapshot: (order name encoded in the customer ref, known strategy?, strategy, selection, row, size, price) *)
Record srow := { sr_name : Z; sr_strategy : option Z; sr_sel : Z; sr_row : row; sr_size : Z; sr_price : Z }.

(* create_order_from_current: new trade, order with the exchange's bet id, blotter, runner_context.place, placing() *)
Definition adopt (s : lstate) (x : srow) (st : Z) : lstate :=
  let tid := ls_next_trade s in
  let o := {| lo_name := sr_name x; lo_trade := tid; lo_strat := st; lo_sel := sr_sel x; lo_size := sr_size x; lo_price := sr_price x;
              lo_status := SPending; lo_log := [SPending]; lo_complete := false; lo_bet := Some (rw_bet (sr_row x)); lo_async := false; lo_view := None; lo_place_resp := None;
              lo_in_live := true; lo_in_blotter := true; lo_newprice := None |} in
  {| ls_orders := ls_orders s ++ [o];
     ls_trades := ls_trades s ++ [{| lt_id := tid; lt_status := TLive; lt_log := []; lt_pending_orders := false; lt_strat := st; lt_sel := sr_sel x |}];
     ls_ctx := ctx_place tid st (sr_sel x) (ls_ctx s); ls_bet_lookup := ls_bet_lookup s ++ [(Some (rw_bet (sr_row x)), sr_name x)];
     ls_tx := ls_tx s; ls_tx_failed := ls_tx_failed s; ls_next_name := ls_next_name s; ls_next_trade := tid + 1; ls_complete := ls_complete s |}.
Definition process_row (s : lstate) (x : srow) : lstate :=
  match oget (sr_name x) (ls_orders s) with
  | None =>
      match sr_strategy x with
      | None => s                                        (* unknown strategy: ignored *)
      | Some st => apply_row (adopt s x st) (sr_name x) (sr_row x)
      end
  | Some o =>
      match lo_bet o with
      | Some b =>
          if b =? rw_bet (sr_row x) then apply_row s (sr_name x) (sr_row x)
          else (* replaced bet: new bet id under the old customer reference -> the replacement order found by bet id *)
            match find (fun e => opt_eqb Z.eqb (fst e) (Some (rw_bet (sr_row x)))) (rev (ls_bet_lookup s)) with
            | Some e => apply_row s (snd e) (sr_row x)
            | None => s
            end
      | None => apply_row s (sr_name x) (sr_row x)
      end
  end.

Definition process_snapshot (s : lstate) (rows : list srow) : lstate := fold_left process_row rows s.

(* ---- requests (controls accepting): what Transaction.place_order / order.cancel|update|replace do locally ---- *)
Definition req_place (s : lstate) (name tid strat sel size price : Z) (async : bool) : lstate :=
  let o := new_lorder name tid strat sel size price None in
  let o := {| lo_name := name; lo_trade := tid; lo_strat := strat; lo_sel := sel; lo_size := size; lo_price := price;
              lo_status := SPending; lo_log := [SPending]; lo_complete := false; lo_bet := None; lo_async := async; lo_view := None; lo_place_resp := None;
              lo_in_live := true; lo_in_blotter := true; lo_newprice := None |} in
  let ts := match tget' tid (ls_trades s) with
            | Some _ => ls_trades s
            | None => ls_trades s ++ [{| lt_id := tid; lt_status := TLive; lt_log := []; lt_pending_orders := false; lt_strat := strat; lt_sel := sel |}]
            end in
  {| ls_orders := ls_orders s ++ [o]; ls_trades := ts; ls_ctx := ctx_place tid strat sel (ls_ctx s); ls_bet_lookup := ls_bet_lookup s ++ [(None, name)];
     ls_tx := ls_tx s; ls_tx_failed := ls_tx_failed s; ls_next_name := ls_next_name s; ls_next_trade := Z.max (ls_next_trade s) (tid + 1); ls_complete := ls_complete s |}.

(* 0 cancel, 1 update, 2 replace; the guards: bet id known and status EXECUTABLE (the harness never asks for a no-change) *)
Definition req_other (s : lstate) (name : Z) (k : Z) (newprice : Z) : lstate :=
  match oget name (ls_orders s) with
  | Some o =>
      match lo_bet o with
      | Some _ => if status_eqb (lo_status o) SExecutable then
                    let s := if k =? 2 then set_fields s name (fun o => {| lo_name := lo_name o; lo_trade := lo_trade o; lo_strat := lo_strat o; lo_sel := lo_sel o; lo_size := lo_size o; lo_price := lo_price o;
                                                                           lo_status := lo_status o; lo_log := lo_log o; lo_complete := lo_complete o; lo_bet := lo_bet o; lo_async := lo_async o;
                                                                           lo_view := lo_view o; lo_place_resp := lo_place_resp o; lo_in_live := lo_in_live o; lo_in_blotter := lo_in_blotter o; lo_newprice := Some newprice |}) else s in
                    order_status s name (if k =? 0 then SCancelling else if k =? 1 then SUpdating else SReplacing)
                  else s
      | None => s
      end
  | None => s
  end.

(* ---- events ---- *)
Inductive levent :=
  | LPlace (name tid strat sel size price : Z) (async : bool)
  | LReq (name k newprice : Z)
  | LResponsePlace (names : list Z) (reports : list pstat)
  | LResponseCancel (names : list Z) (reports : list (Z * cstat))
  | LResponseUpdate (names : list Z) (reports : list ustat)
  | LResponseReplace (names : list Z) (reports : list rstat)
  | LExhausted (names : list Z) (is_place : bool)          (* BetfairError on every attempt: reset_orders *)
  | LUnknownError (names : list Z)                          (* a non-BetfairError exception: nothing happens *)
  | LSnapshot (rows : list srow)
  | LNop
  | LPlaceRefused (name tid strat sel size price : Z)      (* strategy / controls refuse a placement: order.violation(), never in the blotter, but listed in trade.orders *)
  | LRefused (name : Z)                                     (* a trading control refuses a cancel/update/replace: the placed order keeps its status *)
  | LRestart.                                               (* a new process: local state gone, the exchange keeps its bets *)

Definition lstate0 (cs : list status) : lstate :=
  {| ls_orders := []; ls_trades := []; ls_ctx := []; ls_bet_lookup := []; ls_tx := 0; ls_tx_failed := 0; ls_next_name := 1000; ls_next_trade := 0; ls_complete := cs |}.

Definition lstep (s : lstate) (e : levent) : lstate :=
  match e with
  | LPlace n t st sl sz p a => req_place s n t st sl sz p a
  | LReq n k np => req_other s n k np
  | LResponsePlace ns rs => exec_place s ns rs
  | LResponseCancel ns rs => exec_cancel s ns rs
  | LResponseUpdate ns rs => exec_update s ns rs
  | LResponseReplace ns rs => exec_replace s ns rs
  | LExhausted ns p => reset_orders s ns p
  | LUnknownError _ => s
  | LSnapshot rows => process_snapshot s rows
  | LNop => s
  | LPlaceRefused n t st sl sz p =>
      let o := new_lorder n t st sl sz p None in
      let o := {| lo_name := n; lo_trade := t; lo_strat := st; lo_sel := sl; lo_size := sz; lo_price := p;
                  lo_status := SViolation; lo_log := [SViolation]; lo_complete := true; lo_bet := None; lo_async := false; lo_view := None; lo_place_resp := None;
                  lo_in_live := false; lo_in_blotter := false; lo_newprice := None |} in
      {| ls_orders := ls_orders s ++ [o]; ls_trades := ls_trades s; ls_ctx := ls_ctx s; ls_bet_lookup := ls_bet_lookup s;
         ls_tx := ls_tx s; ls_tx_failed := ls_tx_failed s; ls_next_name := ls_next_name s; ls_next_trade := Z.max (ls_next_trade s) (t + 1); ls_complete := ls_complete s |}
  | LRefused n => s
  | LRestart => {| ls_orders := []; ls_trades := []; ls_ctx := []; ls_bet_lookup := []; ls_tx := 0; ls_tx_failed := 0;
                   ls_next_name := ls_next_name s; ls_next_trade := ls_next_trade s; ls_complete := ls_complete s |}
  end.
Definition lrun (s : lstate) (es : list levent) : lstate := fold_left lstep es s.


(* decidable form of "new references are new" (Proofs/LiveP.v wfe), evaluated by the correspondence check on every event of every real trace *)
Definition wfe_b (s : lstate) (e : levent) : bool :=
  match e with
  | LPlace n _ _ _ _ _ _ | LPlaceRefused n _ _ _ _ _ => (match oget n (ls_orders s) with None => true | Some _ => false end) && (n <? ls_next_name s)
  | LSnapshot rows => forallb (fun x => sr_name x <? ls_next_name s) rows
  | _ => true
  end.

(* Exposure.v — model of utils.calculate_matched_exposure / calculate_unmatched_exposure,
   Blotter.get_exposures / selection_exposure / market_exposure.
   Money in cents (1/100), prices in cents; products (p-100)*s in 1/10000. *)
From Coq Require Import Sorting.Mergesort Orders.
From V Require Export Model.Num Model.Status.
Open Scope Z_scope.

Inductive okind := KLimit (line : bool) | KSP.

(* what get_exposures reads from an order *)
Record osum := {
  o_id : Z;               (* identity (exclusion is compared by identity) *)
  o_sel : Z;              (* lookup: selection (handicap folded in by the harness) *)
  o_side : side;
  o_kind : okind;
  o_status : status;
  o_complete : bool;
  o_matched : Z;          (* size_matched, cents *)
  o_avg : Z;              (* average_price_matched, cents *)
  o_remaining : Z;        (* size_remaining, cents *)
  o_price : Z;            (* order_type.price, cents; 0 models None/0 ("if order_type_price") *)
  o_liab : Z              (* order_type.liability, cents (SP types) *)
}.

Record acc := { mb : list (Z*Z); ml : list (Z*Z); ub : list (Z*Z); ul : list (Z*Z);
                moc_win : Z; moc_lose : Z }.
Definition acc0 := {| mb := []; ml := []; ub := []; ul := []; moc_win := 0; moc_lose := 0 |}.

Definition add_order (pending : list status) (excl : option Z) (a : acc) (o : osum) : acc :=
  if (match excl with Some e => e =? o_id o | None => false end) then a
  else if status_in (o_status o) pending then a
  else match o_kind o with
       | KLimit line =>
           let a1 :=
             if o_matched o =? 0 then a
             else let p := if line then 200 else o_avg o in
                  match o_side o with
                  | Back => {| mb := mb a ++ [(p, o_matched o)]; ml := ml a; ub := ub a; ul := ul a; moc_win := moc_win a; moc_lose := moc_lose a |}
                  | Lay  => {| mb := mb a; ml := ml a ++ [(p, o_matched o)]; ub := ub a; ul := ul a; moc_win := moc_win a; moc_lose := moc_lose a |}
                  end in
           if o_complete o then a1
           else let p := if line then 200 else o_price o in
                if (p =? 0) || (o_remaining o =? 0) then a1
                else match o_side o with
                     | Back => {| mb := mb a1; ml := ml a1; ub := ub a1 ++ [(p, o_remaining o)]; ul := ul a1; moc_win := moc_win a1; moc_lose := moc_lose a1 |}
                     | Lay  => {| mb := mb a1; ml := ml a1; ub := ub a1; ul := ul a1 ++ [(p, o_remaining o)]; moc_win := moc_win a1; moc_lose := moc_lose a1 |}
                     end
       | KSP =>
           match o_side o with
           | Back => {| mb := mb a; ml := ml a; ub := ub a; ul := ul a; moc_win := moc_win a; moc_lose := moc_lose a - o_liab o |}
           | Lay  => {| mb := mb a; ml := ml a; ub := ub a; ul := ul a; moc_win := moc_win a - o_liab o; moc_lose := moc_lose a |}
           end
       end.

Definition sum_ps (l : list (Z*Z)) : Z := sumZ (map (fun ps => (fst ps - 100) * snd ps) l).  (* 1/10000 *)
Definition sum_s (l : list (Z*Z)) : Z := sumZ (map snd l).                                  (* cents *)

(* raw (unrounded) figures in 1/10000 *)
Definition matched_win_raw (a : acc) := sum_ps (mb a) - sum_ps (ml a).
Definition matched_lose_raw (a : acc) := 100 * (sum_s (ml a) - sum_s (mb a)).
Definition unmatched_win_raw (a : acc) := - sum_ps (ul a).
Definition unmatched_lose_raw (a : acc) := - (100 * sum_s (ub a)).

Record exposures := { e_mwin : Z; e_mlose : Z; e_uwin : Z; e_ulose : Z; e_win : Z; e_lose : Z }.

Definition of_acc (tb : tiebreak) (a : acc) : exposures :=
  let mw := rnd tb (matched_win_raw a) 100 in
  let mlo := rnd tb (matched_lose_raw a) 100 in
  let uw := rnd tb (unmatched_win_raw a) 100 in
  let ulo := rnd tb (unmatched_lose_raw a) 100 in
  {| e_mwin := mw; e_mlose := mlo; e_uwin := uw; e_ulose := ulo;
     e_win := mw + uw + moc_win a; e_lose := mlo + ulo + moc_lose a |}.

(* Blotter.get_exposures(strategy, lookup, exclusion, new_order): [orders] are the
   strategy's orders on that selection in blotter order *)
Definition get_exposures (tb : tiebreak) (pending : list status) (orders : list osum)
           (excl : option Z) (new : option osum) : exposures :=
  of_acc tb (fold_left (add_order pending excl) (orders ++ match new with Some n => [n] | None => [] end) acc0).

Definition selection_exposure (tb : tiebreak) (pending : list status) (orders : list osum) : Z :=
  zmax (- zmin (e_win (get_exposures tb pending orders None None))
                (e_lose (get_exposures tb pending orders None None))) 0.

(* ---- market exposure ---- *)
Module ZOrder <: TotalLeBool.
  Definition t := Z.
  Definition leb := Z.leb.
  Theorem leb_total : forall a b, leb a b = true \/ leb b a = true.
  Proof. intros a b. unfold leb. destruct (Z.leb_spec a b); [left; reflexivity|right]. apply Z.leb_le. apply Z.lt_le_incl. assumption. Qed.
End ZOrder.
Module ZSort := Sort ZOrder.

Fixpoint dedup (l : list Z) : list Z :=
  match l with [] => [] | x :: r => if existsb (Z.eqb x) r then dedup r else x :: dedup r end.

(* market_exposure(strategy, market_book, exclusion, new_order):
   [orders] all orders of the strategy in the market; [active] number_of_active_runners;
   [k] number_of_winners *)
Definition market_exposure (tb : tiebreak) (pending : list status) (orders : list osum)
           (active k : Z) (excl : option Z) (new : option osum) : Z :=
  let sels := dedup (map o_sel orders ++ match new with Some n => [o_sel n] | None => [] end) in
  let exps := map (fun s =>
                     get_exposures tb pending (filter (fun o => o_sel o =? s) orders) excl
                       (match new with Some n => if o_sel n =? s then Some n else None | None => None end)) sels in
  let loses := map e_lose exps in
  let diffs := map (fun e => e_win e - e_lose e) exps ++ repeat 0 (Z.to_nat (active - Z.of_nat (length sels))) in
  sumZ loses + sumZ (firstn (Z.to_nat k) (ZSort.sort diffs)).

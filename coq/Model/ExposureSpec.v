(* ExposureSpec.v — the reading specification for C16: profit/loss by brute force over
   every combination of which open orders fill (each fully or not at all, at its limit
   price) and over every admissible set of winners.  Figures in 1/10000. *)
From V Require Export Model.Exposure.
Open Scope Z_scope.

(* an order "counts" iff it is not the exclusion and its status is not pending/refused *)
Definition counted (pending : list status) (excl : option Z) (o : osum) : bool :=
  negb (match excl with Some e => e =? o_id o | None => false end) && negb (status_in (o_status o) pending).

Definition eff_avg (o : osum) : Z := match o_kind o with KLimit true => 200 | _ => o_avg o end.
Definition eff_price (o : osum) : Z := match o_kind o with KLimit true => 200 | _ => o_price o end.

(* P/L (1/10000) of a bet of size s at price p *)
Definition bet_pl (sd : side) (win : bool) (p s : Z) : Z :=
  match sd, win with
  | Back, true => (p - 100) * s
  | Back, false => - (100 * s)
  | Lay, true => - ((p - 100) * s)
  | Lay, false => 100 * s
  end.

(* the part already matched *)
Definition matched_pl (win : bool) (o : osum) : Z :=
  match o_kind o with
  | KLimit _ => bet_pl (o_side o) win (eff_avg o) (o_matched o)
  | KSP => 0
  end.

(* has an open part that may still fill? *)
Definition open_size (o : osum) : Z :=
  match o_kind o with
  | KLimit _ => if o_complete o then 0 else if eff_price o =? 0 then 0 else o_remaining o
  | KSP => 0
  end.

(* the open part if it fills at its limit; starting-price orders: their liability is lost
   on the losing side, nothing is assumed won on the other *)
Definition open_pl (win : bool) (o : osum) : Z :=
  match o_kind o with
  | KLimit _ => bet_pl (o_side o) win (eff_price o) (open_size o)
  | KSP => match o_side o, win with
           | Back, false => - (100 * o_liab o)
           | Lay, true => - (100 * o_liab o)
           | _, _ => 0
           end
  end.

(* outcome when exactly the orders flagged in [fills] have their open part filled *)
Fixpoint outcome_pl (win : bool) (fills : list bool) (pos : list osum) : Z :=
  match pos, fills with
  | o :: r, f :: fr => matched_pl win o + (if f then open_pl win o else 0) + outcome_pl win fr r
  | _, _ => 0
  end.

Fixpoint all_bools (n : nat) : list (list bool) :=
  match n with O => [[]] | S m => map (cons true) (all_bools m) ++ map (cons false) (all_bools m) end.

Fixpoint list_min (d : Z) (l : list Z) : Z :=
  match l with [] => d | [x] => x | x :: r => Z.min x (list_min d r) end.

(* the true worst case over every combination of fills *)
Definition worst (win : bool) (pos : list osum) : Z :=
  list_min 0 (map (fun f => outcome_pl win f pos) (all_bools (length pos))).

Definition position (pending : list status) (excl : option Z) (orders : list osum) (new : option osum) : list osum :=
  filter (counted pending excl) (orders ++ match new with Some n => [n] | None => [] end).

(* well-formed order summary: sizes non-negative, prices at least 1.0 *)
Definition wf_o (o : osum) : bool :=
  (0 <=? o_matched o) && (0 <=? o_remaining o) && (0 <=? o_liab o) &&
  ((o_matched o =? 0) || (100 <=? eff_avg o)) && ((eff_price o =? 0) || (100 <=? eff_price o)).

From V Require Import Model.Num Model.Closure.
Open Scope Z_scope.
Definition cs0 := {| cs_now := 0; cs_markets := [] |}.
(* observation after a step: callbacks (kind 0 = book, 1 = closed; strategy; market) and per market of interest
   (present?, closed, flags, ctx, mw) *)
Definition mobs := option (bool * bool * list Z * bool).
Fixpoint zinsert (x : Z) (l : list Z) : list Z := match l with [] => [x] | y :: r => if x <=? y then x :: l else y :: zinsert x r end.
Definition zsort (l : list Z) : list Z := fold_right zinsert [] l.
Definition obs_market (s : cstate) (m : Z) : mobs :=
  match cget m (cs_markets s) with None => None | Some x => Some (cm_closed x, cm_flags x, zsort (cm_ctx x), cm_mw x) end.
Definition cb_of (o : cout) : list (Z * Z * Z) :=
  match o with OBookCb st m => [(0, st, m)] | OClosedCb st m => [(1, st, m)] | _ => [] end.
Definition ev_of (o : cout) : list (Z * Z * Z) :=
  match o with OClearedOrders m => [(2, 0, m)] | OClearedMarket m c => [(3, c, m)] | _ => [] end.
Definition z3_eqb (a b : Z * Z * Z) := (fst (fst a) =? fst (fst b)) && (snd (fst a) =? snd (fst b)) && (snd a =? snd b).
Definition mobs_eqb (a b : mobs) : bool :=
  match a, b with
  | None, None => true
  | Some (c1, f1, x1, w1), Some (c2, f2, x2, w2) => Bool.eqb c1 c2 && Bool.eqb f1 f2 && lz_eqb x1 x2 && Bool.eqb w1 w2
  | _, _ => false
  end.
(* live case: a "step" of the script is a list of model events (one per stream carrying the market);
   expected: callbacks of the whole step and the markets' state after it *)
Fixpoint run_steps (s : cstate) (steps : list (list cev)) (ms : list Z) : list (list (Z * Z * Z) * list mobs) :=
  match steps with
  | [] => []
  | es :: r =>
      let '(s', outs) := fold_left (fun (acc : cstate * list cout) e => let '(s1, o) := live_step (fst acc) e in (s1, snd acc ++ o)) es (s, []) in
      (concat (map cb_of outs), map (obs_market s') ms) :: run_steps s' r ms
  end.
Definition live_ok (c : list (list cev) * list Z * list (list (Z * Z * Z) * list mobs)) : bool :=
  let '(steps, ms, e) := c in
  list_eqb (fun a b => list_eqb z3_eqb (fst a) (fst b) && list_eqb mobs_eqb (snd a) (snd b)) (run_steps cs0 steps ms) e.
(* simulation case: events in processing order; expected closed callbacks, cleared events, final (closed, ctx, mw) per market *)
(* each event comes with "the market's blotter holds orders at that moment" (observed on the implementation) *)
Definition sim_outs (n : Z) (es : list (cev * bool)) : list cout * cstate :=
  fold_left (fun (acc : list cout * cstate) eh => let '(s1, o) := sim_step n (fun _ => snd eh) (snd acc) (fst eh) in (fst acc ++ o, s1)) es ([], cs0).
Definition sim_ok (c : Z * list (cev * bool) * list Z * (list (Z * Z * Z) * list (Z * Z * Z) * list mobs)) : bool :=
  let '(n, es, ms, e) := c in
  let '(outs, sf) := sim_outs n es in
  let '(ecb, eev, em) := e in
  list_eqb z3_eqb (filter (fun x => fst (fst x) =? 1) (concat (map cb_of outs))) ecb
  && list_eqb z3_eqb (concat (map ev_of outs)) eev
  && list_eqb (fun a b => match a, b with
                          | None, None => true
                          | Some (c1, _, x1, w1), Some (c2, _, x2, w2) =>
                              (* runner accounting is compared when the market ends closed (must be released); while open it
                                 depends on what the strategy did *)
                              Bool.eqb c1 c2 && Bool.eqb w1 w2 && (if c1 then lz_eqb x2 [] else true)
                          | _, _ => false
                          end) (map (obs_market sf) ms) em.

(* MergeP.v — C14: the event-group merge is complete, order preserving and chronological. *)
From Coq Require Import ZArith List Bool Lia Permutation Sorting.Sorted.
From V Require Import Model.Num Model.Merge.
Open Scope Z_scope.

Definition head_pt (s : stream) : Z := match s with (p, _) :: _ => p | [] => 0 end.
Definition nonempty (s : stream) : Prop := s <> [].

Lemma insert_stream_perm s : forall l, Permutation (insert_stream s l) (s :: l).
Proof.
  induction l as [|x r IH]; cbn [insert_stream]; [reflexivity|].
  destruct (match s, x with (p, _) :: _, (q, _) :: _ => p <? q | _, _ => false end); [reflexivity|].
  rewrite IH. apply perm_swap.
Qed.

Lemma sort_streams_perm_aux : forall l acc, Permutation (fold_left (fun acc s => insert_stream s acc) l acc) (l ++ acc).
Proof.
  induction l as [|s l IH]; intros acc; cbn [fold_left app]; [reflexivity|].
  rewrite IH, insert_stream_perm. symmetry. apply Permutation_middle.
Qed.
Lemma sort_streams_perm l : Permutation (sort_streams l) l.
Proof. unfold sort_streams. rewrite sort_streams_perm_aux, app_nil_r. reflexivity. Qed.

Definition heads_sorted (l : list stream) : Prop := StronglySorted (fun a b => head_pt a <= head_pt b) l.

Lemma insert_stream_sorted s : forall l, nonempty s -> Forall nonempty l -> heads_sorted l -> heads_sorted (insert_stream s l).
Proof.
  induction l as [|x r IH]; intros Hs Hne Hsd; cbn [insert_stream]; [constructor; constructor|].
  inversion Hsd as [|? ? Hr Hall]; subst. inversion Hne as [|? ? Hx Hne']; subst.
  destruct s as [|[p ps] s']; [congruence|]. destruct x as [|[q qs] x']; [congruence|].
  destruct (p <? q) eqn:E.
  - constructor; [exact Hsd|]. constructor; [cbn; lia|]. rewrite Forall_forall in *. intros y Hy. specialize (Hall y Hy). cbn in *. lia.
  - constructor; [apply IH; assumption|]. rewrite Forall_forall in *. intros y Hy.
    assert (Hin : In y (((p, ps) :: s') :: r)) by (eapply Permutation_in; [apply insert_stream_perm|exact Hy]).
    destruct Hin as [<-|Hin]; [cbn; lia|apply Hall; exact Hin].
Qed.

Lemma sort_streams_sorted l : Forall nonempty l -> heads_sorted (sort_streams l).
Proof.
  unfold sort_streams.
  assert (H : forall l acc, Forall nonempty l -> Forall nonempty acc -> heads_sorted acc ->
              heads_sorted (fold_left (fun acc s => insert_stream s acc) l acc)).
  { induction l0 as [|s l0 IH]; intros acc Hl Ha Hs; cbn [fold_left]; [exact Hs|].
    inversion Hl; subst. apply IH; [assumption| |apply insert_stream_sorted; assumption].
    rewrite Forall_forall in *. intros y Hy.
    assert (In y (s :: acc)) by (eapply Permutation_in; [apply insert_stream_perm|exact Hy]).
    destruct H as [<-|H]; [assumption|apply Ha; exact H]. }
  intros Hl. apply H; [exact Hl|constructor|constructor].
Qed.

Lemma sort_streams_nonempty l : Forall nonempty l -> Forall nonempty (sort_streams l).
Proof.
  intros H. rewrite Forall_forall in *. intros y Hy. apply H. eapply Permutation_in; [apply sort_streams_perm|exact Hy].
Qed.

Lemma concat_perm {A} (l1 l2 : list (list A)) : Permutation l1 l2 -> Permutation (concat l1) (concat l2).
Proof.
  induction 1; cbn [concat]; [reflexivity|apply Permutation_app_head; assumption| |etransitivity; eassumption].
  rewrite !app_assoc. apply Permutation_app_tail. apply Permutation_app_comm.
Qed.

(* 1a. complete: with enough fuel the output is a permutation of all the updates of all the streams *)
Theorem merge_perm : forall fuel cycles, Forall nonempty cycles -> (length (concat cycles) <= fuel)%nat ->
  Permutation (merge fuel cycles) (concat cycles).
Proof.
  induction fuel as [|f IH]; intros cycles Hne Hlen.
  - destruct cycles as [|s r]; [reflexivity|]. inversion Hne; subst. destruct s; [congruence|]. simpl in Hlen. lia.
  - cbn [merge]. pose proof (sort_streams_perm cycles) as Hp. pose proof (sort_streams_nonempty cycles Hne) as Hn.
    destruct (sort_streams cycles) as [|s rest] eqn:E.
    + apply Permutation_nil in Hp. subst. reflexivity.
    + inversion Hn as [|? ? Hs Hrest]; subst. destruct s as [|u s]; [congruence|].
      assert (Hc : Permutation (concat cycles) (u :: s ++ concat rest)).
      { symmetry. apply (concat_perm _ _ Hp). }
      rewrite Hc. apply perm_skip.
      assert (Hl2 : (length (s ++ concat rest) <= f)%nat).
      { apply Permutation_length in Hc. simpl in Hc. lia. }
      destruct s as [|v s'].
      * cbn [app]. apply IH; [exact Hrest|simpl in Hl2; exact Hl2].
      * rewrite IH.
        -- rewrite concat_app. cbn [concat]. rewrite app_nil_r. apply Permutation_app_comm.
        -- apply Forall_app. split; [exact Hrest|constructor; [discriminate|constructor]].
        -- rewrite concat_app. cbn [concat]. rewrite app_nil_r, app_length in *. lia.
Qed.

(* subsequence *)
Inductive subseq {A} : list A -> list A -> Prop :=
| sub_nil : forall l, subseq [] l
| sub_take : forall x a l, subseq a l -> subseq (x :: a) (x :: l)
| sub_skip : forall x a l, subseq a l -> subseq a (x :: l).

(* 1b. order preserving: every stream still queued is a subsequence of the output *)
Theorem merge_keeps_stream_order : forall fuel cycles, Forall nonempty cycles -> (length (concat cycles) <= fuel)%nat ->
  forall s, In s cycles -> subseq s (merge fuel cycles).
Proof.
  induction fuel as [|f IH]; intros cycles Hne Hlen s Hin.
  - destruct cycles as [|x r]; [destruct Hin|]. inversion Hne; subst. destruct x; [congruence|]. simpl in Hlen. lia.
  - cbn [merge]. pose proof (sort_streams_perm cycles) as Hp. pose proof (sort_streams_nonempty cycles Hne) as Hn.
    assert (Hin' : In s (sort_streams cycles)) by (eapply Permutation_in; [symmetry; exact Hp|exact Hin]).
    destruct (sort_streams cycles) as [|t rest] eqn:E; [destruct Hin'|].
    inversion Hn as [|? ? Ht Hrest]; subst. destruct t as [|u t]; [congruence|].
    assert (Hc : Permutation (concat cycles) (u :: t ++ concat rest)) by (symmetry; apply (concat_perm _ _ Hp)).
    assert (Hl2 : (length (t ++ concat rest) <= f)%nat).
    { apply Permutation_length in Hc. simpl in Hc. lia. }
    assert (Hne2 : Forall nonempty (match t with [] => rest | _ => rest ++ [t] end)).
    { destruct t; [exact Hrest|apply Forall_app; split; [exact Hrest|constructor; [discriminate|constructor]]]. }
    assert (Hlen2 : (length (concat (match t with [] => rest | _ => rest ++ [t] end)) <= f)%nat).
    { destruct t; [simpl in Hl2; exact Hl2|rewrite concat_app; cbn [concat]; rewrite app_nil_r, app_length in *; lia]. }
    destruct Hin' as [<-|Hin'].
    + apply sub_take. destruct t as [|v t']; [constructor|].
      apply (IH _ Hne2 Hlen2). apply in_or_app. right. left. reflexivity.
    + apply sub_skip. apply (IH _ Hne2 Hlen2). destruct t; [exact Hin'|apply in_or_app; left; exact Hin'].
Qed.

(* 1c. chronological: if every stream is itself in non-decreasing publish-time order, so is the output *)
Definition stream_sorted (s : stream) : Prop := StronglySorted (fun a b => fst a <= fst b) s.

Lemma merge_lower_bound : forall fuel cycles lo, Forall nonempty cycles ->
  Forall (fun s => Forall (fun u => lo <= fst u) s) cycles -> Forall (fun u => lo <= fst u) (merge fuel cycles).
Proof.
  induction fuel as [|f IH]; intros cycles lo Hne Hlo; cbn [merge]; [constructor|].
  pose proof (sort_streams_perm cycles) as Hp. pose proof (sort_streams_nonempty cycles Hne) as Hn.
  assert (Hlo' : Forall (fun s => Forall (fun u => lo <= fst u) s) (sort_streams cycles)).
  { rewrite Forall_forall in *. intros y Hy. apply Hlo. eapply Permutation_in; [exact Hp|exact Hy]. }
  destruct (sort_streams cycles) as [|t rest]; [constructor|].
  inversion Hn as [|? ? Ht Hrest]; subst. inversion Hlo' as [|? ? Hlt Hlrest]; subst.
  destruct t as [|u t]; [congruence|]. inversion Hlt as [|? ? Hu Hlt']; subst.
  constructor; [exact Hu|]. apply IH.
  - destruct t; [exact Hrest|apply Forall_app; split; [exact Hrest|constructor; [discriminate|constructor]]].
  - destruct t; [exact Hlrest|apply Forall_app; split; [exact Hlrest|constructor; [exact Hlt'|constructor]]].
Qed.

Theorem merge_chronological : forall fuel cycles, Forall nonempty cycles -> Forall stream_sorted cycles ->
  StronglySorted (fun a b => fst a <= fst b) (merge fuel cycles).
Proof.
  induction fuel as [|f IH]; intros cycles Hne Hss; cbn [merge]; [constructor|].
  pose proof (sort_streams_perm cycles) as Hp. pose proof (sort_streams_nonempty cycles Hne) as Hn.
  pose proof (sort_streams_sorted cycles Hne) as Hhs.
  assert (Hss' : Forall stream_sorted (sort_streams cycles)).
  { rewrite Forall_forall in *. intros y Hy. apply Hss. eapply Permutation_in; [exact Hp|exact Hy]. }
  destruct (sort_streams cycles) as [|t rest]; [constructor|].
  inversion Hn as [|? ? Ht Hrest]; subst. inversion Hss' as [|? ? Hts Hrs]; subst.
  destruct t as [|u t]; [congruence|].
  assert (Hne2 : Forall nonempty (match t with [] => rest | _ => rest ++ [t] end)).
  { destruct t; [exact Hrest|apply Forall_app; split; [exact Hrest|constructor; [discriminate|constructor]]]. }
  inversion Hts as [|? ? Hts' Hut]; subst.
  constructor.
  - apply IH; [exact Hne2|]. destruct t; [exact Hrs|apply Forall_app; split; [exact Hrs|constructor; [exact Hts'|constructor]]].
  - apply merge_lower_bound; [exact Hne2|].
    inversion Hhs as [|? ? Hhs' Hhall]; subst.
    assert (Hrest_lo : Forall (fun s => Forall (fun v => fst u <= fst v) s) rest).
    { rewrite Forall_forall in *. intros s Hs. specialize (Hhall s Hs). specialize (Hrs s Hs). specialize (Hrest s Hs).
      destruct s as [|[q qs] s']; [exfalso; apply Hrest; reflexivity|]. cbn in Hhall. destruct u as [p ps]. cbn in *.
      inversion Hrs as [|? ? _ Hq]; subst. constructor; [cbn; lia|]. rewrite Forall_forall in *. intros w Hw. specialize (Hq w Hw). cbn in *. lia. }
    destruct t; [exact Hrest_lo|apply Forall_app; split; [exact Hrest_lo|constructor; [exact Hut|constructor]]].
Qed.

(* the fuel the model uses (total number of updates) is enough: nothing is lost *)
Theorem run_merge_complete streams : Permutation (run_merge streams) (concat streams).
Proof.
  unfold run_merge.
  assert (Hc : concat (filter (fun s => match s with [] => false | _ => true end) streams) = concat streams).
  { induction streams as [|s r IH]; [reflexivity|]. cbn [filter]. destruct s; cbn [concat app]; [exact IH|]. rewrite IH. reflexivity. }
  etransitivity; [apply merge_perm|rewrite Hc; reflexivity].
  - rewrite Forall_forall. intros s Hs. apply filter_In in Hs as [_ Hs]. destruct s; [discriminate|discriminate].
  - rewrite Hc. unfold total_len. lia.
Qed.

(* SettleP.v — C08. *)
From Coq Require Import ZArith List Bool Lia ZifyBool.
From V Require Import Model.Num Model.Status Model.Settle Proofs.NumP.
Ltac Zify.zify_post_hook ::= Z.to_euclidean_division_equations.
Open Scope Z_scope.

(* Python's round is sign-symmetric; the tie-breaker must be too for "back = - lay" *)
Definition sym (tb : tiebreak) : Prop := forall n d, tb (- n) d = negb (tb n d).

Lemma rnd_neg tb n d : 0 < d -> sym tb -> rnd tb (- n) d = - rnd tb n d.
Proof.
  intros Hd Hs. unfold rnd. rewrite (Hs n d).
  destruct ((2 * n + d) mod (2 * d) =? 0) eqn:E1; destruct ((2 * - n + d) mod (2 * d) =? 0) eqn:E2; try (destruct (tb n d); cbn [negb]); nia.
Qed.

Definition flip (s : settle_in) : settle_in :=
  {| st_side := match st_side s with Back => Lay | Lay => Back end; st_each_way := st_each_way s;
     st_div_n := st_div_n s; st_div_d := st_div_d s; st_line := st_line s; st_line_result := st_line_result s;
     st_m := st_m s; st_a := st_a s; st_result := st_result s; st_dead := st_dead s |}.

(* 2. identical fills: a back and a lay have exactly opposite profit - for every result, dead heat, each-way
      divisor; for line markets whenever the struck line differs from the result *)
Theorem back_lay_opposite tb s : sym tb -> 0 < st_dead s -> 0 < st_div_n s ->
  (st_line s = true -> st_each_way s = false -> st_line_result s <> Some (st_a s)) ->
  profit tb (flip s) = - profit tb s.
Proof.
  intros Hs Hd Hn Hl. unfold profit, flip. cbv zeta. cbn [st_side st_each_way st_div_n st_div_d st_line st_line_result st_m st_a st_result st_dead].
  destruct (st_each_way s).
  - destruct (st_result s); destruct (st_side s); cbn [neg_if_lay]; try lia.
    + replace (st_m s * 10000 * st_div_n s - st_m s * (st_a s - 10000) * st_div_d s) with (- (st_m s * (st_a s - 10000) * st_div_d s - st_m s * 10000 * st_div_n s)) by lia.
      apply rnd_neg; [lia|exact Hs].
    + replace (st_m s * (st_a s - 10000) * st_div_d s - st_m s * 10000 * st_div_n s) with (- (st_m s * 10000 * st_div_n s - st_m s * (st_a s - 10000) * st_div_d s)) by lia.
      rewrite rnd_neg by (lia || exact Hs). lia.
  - destruct (st_line s) eqn:El.
    + specialize (Hl eq_refl eq_refl). destruct (st_line_result s) as [r|]; [|lia].
      assert (r <> st_a s) by congruence.
      destruct (st_side s); destruct (r <? st_a s) eqn:E1; destruct (st_a s <? r) eqn:E2; lia.
    + destruct (st_result s); destruct (st_side s); cbn [neg_if_lay]; try lia.
      * apply rnd_neg; [lia|exact Hs].
      * rewrite rnd_neg by (lia || exact Hs). lia.
Qed.

(* REFUTED instance (finding F-C08-1): line market, average matched price equal to the line result: both lose *)
Theorem line_tie_both_lose tb m a : 0 < m ->
  let s := {| st_side := Back; st_each_way := false; st_div_n := 1; st_div_d := 1; st_line := true; st_line_result := Some a;
              st_m := m; st_a := a; st_result := RsNone; st_dead := 1 |} in
  profit tb s = - m /\ profit tb (flip s) = - m.
Proof. intros Hm. cbv zeta. unfold profit, flip. cbn [st_each_way st_line st_line_result st_result st_side st_m st_a st_dead]. rewrite Z.ltb_irrefl. split; reflexivity. Qed.

(* 1. the cases of the exchange's rules, read off the model *)
Lemma rnd_zero tb x d : 0 < d -> x = 0 -> rnd tb x d = 0.
Proof. intros Hd ->. apply (rnd_exact tb 0). exact Hd. Qed.

Theorem unmatched_or_removed_is_zero tb s :
  (st_m s = 0 \/ (st_line s = false /\ (st_result s = RsRemoved \/ st_result s = RsNone)) \/ (st_each_way s = true /\ (st_result s = RsRemoved \/ st_result s = RsNone))) ->
  0 < st_dead s -> 0 < st_div_n s -> profit tb s = 0.
Proof.
  intros H Hd Hn. unfold profit. cbv zeta. destruct H as [Hm|[[Hl Hr]|[He Hr]]].
  - rewrite Hm. destruct (st_each_way s).
    + destruct (st_result s), (st_side s); unfold neg_if_lay; try reflexivity; rewrite ?rnd_zero by (lia || nia); lia.
    + destruct (st_line s); [destruct (st_line_result s); [destruct (match st_side s with Back => _ | Lay => _ end)|]; lia|].
      destruct (st_result s), (st_side s); unfold neg_if_lay; try reflexivity; try lia;
        destruct (st_dead s =? 1); rewrite rnd_zero by (lia || nia); lia.
  - rewrite Hl. destruct (st_each_way s); destruct Hr as [-> | ->]; reflexivity.
  - rewrite He. destruct Hr as [-> | ->]; reflexivity.
Qed.

Theorem plain_winner_loser tb m a sd : 0 <= m ->
  let s r := {| st_side := sd; st_each_way := false; st_div_n := 1; st_div_d := 1; st_line := false; st_line_result := None;
                st_m := m; st_a := a; st_result := r; st_dead := 1 |} in
  profit tb (s RsLoser) = neg_if_lay sd (- m) /\
  profit tb (s RsWinner) = match sd with Back => rnd tb (m * (a - 10000)) 10000 | Lay => rnd tb (- (m * (a - 10000))) 10000 end.
Proof. intros Hm. cbv zeta. unfold profit. cbn [st_each_way st_line st_result st_side st_m st_a st_dead]. cbv zeta. rewrite Z.eqb_refl. split; [reflexivity|]. destruct sd; f_equal; lia. Qed.

(* dead heat of n winners in a one-winner market: stake/n wins at full odds, stake (n-1)/n loses *)
Theorem dead_heat_reduction tb m a n : 2 <= n ->
  profit tb {| st_side := Back; st_each_way := false; st_div_n := 1; st_div_d := 1; st_line := false; st_line_result := None;
               st_m := m; st_a := a; st_result := RsWinner; st_dead := n |}
  = rnd tb (m * (a - 10000) - 10000 * m * (n - 1)) (10000 * n).
Proof. intros Hn. unfold profit. cbn [st_each_way st_line st_result st_side st_m st_a st_dead]. cbv zeta. replace (n =? 1) with false by lia. reflexivity. Qed.

(* the worst a matched bet can cost: a back never loses more than its stake (used by C01) *)
Theorem back_loss_bounded tb s : st_side s = Back -> 0 <= st_m s -> 10000 <= st_a s -> 0 < st_dead s -> 0 < st_div_n s -> 0 <= st_div_d s ->
  st_line s = false -> - (if st_each_way s then 2 * st_m s else st_m s) <= profit tb s.
Proof.
  intros Hsd Hm Ha Hd Hn Hdd Hl. unfold profit. rewrite Hsd, Hl.
  destruct (st_each_way s).
  - destruct (st_result s); cbn [neg_if_lay]; try lia.
    + apply rnd_ge_of_ge_int; nia.
    + apply rnd_ge_of_ge_int; nia.
  - destruct (st_result s); cbn [neg_if_lay]; try lia.
    destruct (st_dead s =? 1) eqn:E; apply rnd_ge_of_ge_int; nia.
Qed.

(* 3. cleared summary: sum of the client's matched orders; commission only on a net win *)
Theorem cleared_spec tb profits rn rd : 0 < rd -> 0 <= rn ->
  let '(p, c, k) := cleared tb profits rn rd in
  p = sumZ profits /\ k = Z.of_nat (length profits) /\ 0 <= c /\ (p <= 0 -> c = 0) /\
  (0 < p -> c = rnd tb (p * rn) rd).
Proof.
  intros Hd Hn. unfold cleared. rewrite zmax_spec. repeat split; try reflexivity.
  - apply rnd_nonneg; lia.
  - intros Hp. replace (Z.max (sumZ profits * rn) 0) with 0 by nia. apply (rnd_exact tb 0). lia.
  - intros Hp. f_equal. nia.
Qed.

Theorem dead_heat_count w d prev :
  dead_heat w d prev = if d =? 0 then Some 1 else if d <? w then Some w else prev.
Proof. reflexivity. Qed.

(* ---- process_closed_market: an order is settled by the runner on ITS (selection, handicap) line and by nothing else ---- *)
Lemma runner_key_eqb_eq k1 k2 : runner_key_eqb k1 k2 = true <-> k1 = k2.
Proof.
  destruct k1 as [a b], k2 as [c d]. unfold runner_key_eqb. cbn [fst snd]. rewrite andb_true_iff, !Z.eqb_eq. split; [intros [-> ->]; reflexivity|intros H; inversion H; split; reflexivity].
Qed.
Lemma closed_result_absent rs k acc : ~ In k (map fst rs) -> closed_result rs k acc = acc.
Proof.
  revert acc. induction rs as [|[k' r] rs IH]; intros acc Hn; cbn [closed_result]; [reflexivity|].
  cbn [map fst In] in Hn. destruct (runner_key_eqb k k') eqn:E.
  - apply runner_key_eqb_eq in E. exfalso. apply Hn. left. symmetry. exact E.
  - apply IH. intros Hx. apply Hn. right. exact Hx.
Qed.
Lemma closed_result_unique rs k r acc : NoDup (map fst rs) -> In (k, r) rs -> closed_result rs k acc = r.
Proof.
  revert acc. induction rs as [|[k' r'] rs IH]; intros acc Hnd Hin; [contradiction|].
  cbn [map fst] in Hnd. apply NoDup_cons_iff in Hnd as [Hk Hnd]. cbn [closed_result]. destruct Hin as [Hin|Hin].
  - inversion Hin. replace (runner_key_eqb k k) with true by (symmetry; apply runner_key_eqb_eq; reflexivity).
    apply closed_result_absent. congruence.
  - apply IH; assumption.
Qed.
(* runners on other lines (another selection, or the same selection at another handicap) play no part, wherever they are listed *)
Lemma closed_result_only_own_line rs k acc : closed_result rs k acc = closed_result (filter (fun x => runner_key_eqb k (fst x)) rs) k acc.
Proof.
  revert acc. induction rs as [|[k' r] rs IH]; intros acc; cbn [closed_result filter fst]; [reflexivity|].
  destruct (runner_key_eqb k k') eqn:E; cbn [closed_result]; [rewrite E|]; apply IH.
Qed.

(* profit at the close: only the order's own line counts, and an order on a line the closing book does not list makes nothing and loses nothing *)
Lemma profit_at_close_own_line tb rs k s : profit_at_close tb rs k s = profit_at_close tb (filter (fun x => runner_key_eqb k (fst x)) rs) k s.
Proof. unfold profit_at_close. rewrite <- closed_result_only_own_line. reflexivity. Qed.
Lemma profit_at_close_unlisted tb rs k s : ~ In k (map fst rs) -> st_line s = false -> 0 < st_dead s -> 0 < st_div_n s -> profit_at_close tb rs k s = 0.
Proof.
  intros Hn Hl Hd Hv. unfold profit_at_close. rewrite closed_result_absent by exact Hn.
  apply unmatched_or_removed_is_zero; [|exact Hd|exact Hv]. right. left. cbn [with_result st_line st_result]. split; [exact Hl|right; reflexivity].
Qed.
Lemma profit_at_close_listed tb rs k r s : NoDup (map fst rs) -> In (k, r) rs -> profit_at_close tb rs k s = profit tb (with_result s r).
Proof. intros Hnd Hin. unfold profit_at_close. rewrite (closed_result_unique rs k r RsNone Hnd Hin). reflexivity. Qed.

(* SimFrameP.v — C13, frame conditions of the loop operations that are NOT the matcher (for which Proofs/SimIsolationP.v proves non-interference):
   a request changes at most the order it names (and appends the order it places), the execution of a package changes at most the order the package
   names (and appends the replacement it creates).  Every other order of every market is, literally, the same record afterwards.  The only
   hypothesis on the state: market ids are pairwise different. *)
From Coq Require Import ZArith List Bool Lia ZifyBool.
From V Require Import Model.Num Model.Status Model.Sim Model.SimLoop Model.SimGuard Proofs.SimIsolationP Proofs.SimNamesP Proofs.SimLinkP Proofs.SimLifeP Proofs.SimFrozenP.
Open Scope Z_scope.

(* the key a request may write: the order it manages, or the name it places *)
Definition writes0 (mid : Z) (a : action) : option (Z * Z) :=
  match a with
  | APlace n _ _ _ _ | ACancel n _ | AUpdate n _ | AReplace n _ _ => Some (mid, n)
  | AOn _ _ => None
  end.
Definition writes (mid : Z) (a : action) : option (Z * Z) := match a with AOn mid' a' => writes0 mid' a' | _ => writes0 mid a end.

(* replacing the market mid by one whose order list keeps o (when o was in the old one) keeps o at its key *)
Lemma at_key_market_replaced ms mid m m' k o : NoDup (map mk_id ms) -> get_market mid ms = Some m -> mk_id m' = mid ->
  (In o (mk_orders m) -> so_name o = snd k -> fst k = mid -> In o (mk_orders m')) ->
  at_key ms k o -> at_key (upd_market mid (fun _ => m') ms) k o.
Proof.
  intros Hids Em Hid' Hkeep (m1 & A & B & C & D). destruct (get_market_id _ _ _ Em) as [Hin Hmid].
  destruct (Z.eq_dec (mk_id m1) mid) as [E|E].
  - assert (m1 = m) by (apply (nodup_ids_unique ms); [exact Hids|exact A|exact Hin|lia]). subst m1.
    exists m'. split; [apply (upd_const_new mid m' m ms Hin Hmid)|]. split; [lia|]. split; [apply Hkeep; [exact C|exact D|lia]|exact D].
  - exists m1. split; [apply upd_const_keep; assumption|split; [exact B|split; assumption]].
Qed.

(* ---------- requests ---------- *)
Theorem request0_frame cf now st mid s a k o : NoDup (map mk_id (s_markets s)) ->
  writes0 mid a <> Some k -> at_key (s_markets s) k o -> at_key (s_markets (request0 cf now st mid s a)) k o.
Proof.
  intros Hids Hw Hat. unfold request0. destruct (get_market mid (s_markets s)) as [m|] eqn:Em; [|exact Hat].
  destruct (get_market_id _ _ _ Em) as [Hin Hmid].
  assert (OTHER : forall name (f : sorder -> sorder), (mid, name) <> k ->
            at_key (upd_market mid (fun m0 => set_orders m0 (upd_order name f (mk_orders m))) (s_markets s)) k o).
  { intros name f Hne. rewrite (upd_market_const _ _ m _ Em).
    apply (at_key_market_replaced _ mid m _ k o Hids Em); [exact Hmid| |exact Hat]. cbn [set_orders mk_orders]. intros Ho Hn Hk.
    apply upd_order_keeps_other; [exact Ho|]. intro Hc. apply Hne. destruct k as [k1 k2]. cbn in *. f_equal; lia. }
  destruct a as [name sel sd t mv|name red|name p|name price mv|mid' a']; [| | | |exact Hat].
  - destruct (negb (market_open m)); [exact Hat|]. cbn [s_markets]. rewrite (upd_market_const _ _ m _ Em).
    apply (at_key_market_replaced _ mid m _ k o Hids Em); [exact Hmid| |exact Hat]. cbn [set_orders mk_orders]. intros Ho _ _. apply in_or_app. left. exact Ho.
  - assert (Hne : (mid, name) <> k) by (intro Hc; apply Hw; cbn; rewrite Hc; reflexivity).
    destruct (get_order name (mk_orders m)) as [o0|]; [|exact Hat].
    destruct (negb (order_validation_ok o0) || negb (market_open m)); [exact Hat|].
    destruct (so_bet o0); [|exact Hat]. destruct (so_type o0); try exact Hat.
    destruct (match red with Some x => negb (x =? 0) && (remaining o0 - x <? 0) | None => false end); [exact Hat|].
    destruct (negb (status_eqb (so_status o0) SExecutable)); [exact Hat|]. cbn [s_markets]. apply OTHER. exact Hne.
  - assert (Hne : (mid, name) <> k) by (intro Hc; apply Hw; cbn; rewrite Hc; reflexivity).
    destruct (get_order name (mk_orders m)) as [o0|]; [|exact Hat].
    destruct (negb (order_validation_ok o0) || negb (market_open m)); [exact Hat|].
    destruct (so_bet o0); [|exact Hat]. destruct (so_type o0); try exact Hat.
    destruct (persist_eqb (so_persist o0) p); [exact Hat|].
    destruct (negb (status_eqb (so_status o0) SExecutable)); [exact Hat|]. cbn [s_markets]. apply OTHER. exact Hne.
  - assert (Hne : (mid, name) <> k) by (intro Hc; apply Hw; cbn; rewrite Hc; reflexivity).
    destruct (get_order name (mk_orders m)) as [o0|]; [|exact Hat].
    destruct (negb (order_validation_ok o0) || negb (market_open m)); [exact Hat|].
    destruct (so_bet o0); [|exact Hat].
    destruct (so_type o0); try exact Hat;
      (destruct (so_price o0 =? price); [exact Hat|]; destruct (negb (status_eqb (so_status o0) SExecutable)); [exact Hat|]; cbn [s_markets]; apply OTHER; exact Hne).
Qed.
Theorem request_frame cf now st mid s a k o : NoDup (map mk_id (s_markets s)) ->
  writes mid a <> Some k -> at_key (s_markets s) k o -> at_key (s_markets (request cf now st mid s a)) k o.
Proof. intros Hids Hw Hat. unfold request, writes in *. destruct a; apply request0_frame; assumption. Qed.

(* ---------- packages ---------- *)
Theorem exec_pkg_frame tb cf now s p k o : NoDup (map mk_id (s_markets s)) ->
  pkey p <> k -> at_key (s_markets s) k o -> at_key (s_markets (exec_pkg tb cf now s p)) k o.
Proof.
  intros Hids Hne Hat. unfold exec_pkg.
  destruct (get_market (pk_market p) (s_markets s)) as [m|] eqn:Em; [|exact Hat].
  destruct (get_market_id _ _ _ Em) as [Hin Hmid].
  destruct (mk_book m) as [b|]; [|exact Hat].
  destruct (get_order (pk_order p) (mk_orders m)) as [o0|] eqn:Eo; [|exact Hat].
  destruct (get_order_in _ _ _ Eo) as [Hino Hname].
  destruct (status_eqb (so_status o0) SViolation); [destruct (pk_kind p); exact Hat|].
  cbv zeta.
  assert (PUTX : forall m' o' ex, mk_id m' = pk_market p -> mk_orders m' = upd_order (so_name o') (fun _ => o') (mk_orders m) ++ ex -> so_name o' = so_name o0 ->
            at_key (upd_market (pk_market p) (fun _ => m') (s_markets s)) k o).
  { intros m' o' ex Hid' Hord Hn'. apply (at_key_market_replaced _ (pk_market p) m m' k o Hids Em Hid'); [|exact Hat]. rewrite Hord. intros Ho Hn Hk.
    apply in_or_app. left. apply upd_order_keeps_other; [exact Ho|]. intro Hc. apply Hne. unfold pkey. destruct k as [k1 k2]. cbn in *. f_equal; lia. }
  assert (PUT : forall o', so_name o' = so_name o0 ->
            at_key (upd_market (pk_market p) (fun m0 => set_orders m0 (upd_order (so_name o') (fun _ => o') (mk_orders m0))) (s_markets s)) k o).
  { intros o' Hn'. rewrite (upd_market_const _ _ m _ Em). apply (PUTX _ o' []); [exact Hmid|cbn [set_orders mk_orders]; rewrite app_nil_r; reflexivity|exact Hn']. }
  destruct (pk_kind p).
  - pose proof (nm_sim_place tb (client_of cf (so_strat o0)) (mk_static m) b (pk_mv p) o0) as HNm.
    destruct (sim_place tb (client_of cf (so_strat o0)) (mk_static m) b (pk_mv p) o0) as [o1 ok]. cbn [fst] in HNm. rewrite mk_sim_markets.
    destruct ok; apply PUT; cbn; exact HNm.
  - pose proof (nm_sim_cancel b o0) as HNm. destruct (sim_cancel b o0) as [[o1 ok] c]. cbn [fst] in HNm. rewrite mk_sim_markets.
    destruct ok; [destruct (remaining o1 =? 0)|]; apply PUT; try (cbn; exact HNm). rewrite nm_reset_order. exact HNm.
  - rewrite mk_sim_markets. apply PUT. apply nm_reset_order.
  - destruct (status_eqb (so_status o0) SExecComplete); [rewrite mk_sim_markets; exact Hat|].
    pose proof (nm_sim_cancel b o0) as HNm. destruct (sim_cancel b o0) as [[o1 ok] sc]. cbn [fst] in HNm.
    destruct (negb ok); [rewrite mk_sim_markets; apply PUT; rewrite nm_reset_order; exact HNm|].
    set (o2 := exec_complete (cf_complete cf) now o1). assert (N2 : so_name o2 = so_name o0) by exact HNm.
    destruct (sc =? 0); [rewrite mk_sim_markets; apply PUT; exact N2|].
    match goal with |- context [sim_place tb ?c ?ms0 b ?mv ?r0] => destruct (sim_place tb c ms0 b mv r0) as [r1 okp] end.
    destruct okp; rewrite mk_sim_markets.
    + rewrite upd_market_twice by reflexivity. rewrite (upd_market_const _ _ m _ Em).
      match goal with |- context [set_orders _ (_ ++ [?x])] => set (r4 := x) end.
      apply (PUTX _ o2 [r4]); [exact Hmid|reflexivity|exact N2].
    + apply PUT. rewrite nm_reset_order. exact N2.
Qed.

(* market ids are not changed by either operation, so the frame conditions chain along any sequence of requests and packages *)
Lemma ids_request cf now st mid s a : map mk_id (s_markets (request cf now st mid s a)) = map mk_id (s_markets s).
Proof.
  assert (H0 : forall mid0 a0, map mk_id (s_markets (request0 cf now st mid0 s a0)) = map mk_id (s_markets s)).
  { intros mid0 a0. unfold request0. destruct (get_market mid0 (s_markets s)) as [m|]; [|reflexivity].
    destruct a0 as [name sel sd t mv|name red|name p|name price mv|mid' a']; [| | | |reflexivity].
    - destruct (negb (market_open m)); [reflexivity|]. cbn [s_markets]. apply ids_upd_market. reflexivity.
    - destruct (get_order name (mk_orders m)) as [o0|]; [|reflexivity]. destruct (negb (order_validation_ok o0) || negb (market_open m)); [reflexivity|].
      destruct (so_bet o0); [|reflexivity]. destruct (so_type o0); try reflexivity.
      destruct (match red with Some x => negb (x =? 0) && (remaining o0 - x <? 0) | None => false end); [reflexivity|].
      destruct (negb (status_eqb (so_status o0) SExecutable)); [reflexivity|]. cbn [s_markets]. apply ids_upd_market. reflexivity.
    - destruct (get_order name (mk_orders m)) as [o0|]; [|reflexivity]. destruct (negb (order_validation_ok o0) || negb (market_open m)); [reflexivity|].
      destruct (so_bet o0); [|reflexivity]. destruct (so_type o0); try reflexivity. destruct (persist_eqb (so_persist o0) p); [reflexivity|].
      destruct (negb (status_eqb (so_status o0) SExecutable)); [reflexivity|]. cbn [s_markets]. apply ids_upd_market. reflexivity.
    - destruct (get_order name (mk_orders m)) as [o0|]; [|reflexivity]. destruct (negb (order_validation_ok o0) || negb (market_open m)); [reflexivity|].
      destruct (so_bet o0); [|reflexivity].
      destruct (so_type o0); try reflexivity; (destruct (so_price o0 =? price); [reflexivity|]; destruct (negb (status_eqb (so_status o0) SExecutable)); [reflexivity|]; cbn [s_markets]; apply ids_upd_market; reflexivity). }
  unfold request. destruct a; apply H0.
Qed.

(* all the requests of one strategy call: an order none of them names is untouched *)
Theorem requests_frame cf now st mid : forall acts s k o, NoDup (map mk_id (s_markets s)) ->
  Forall (fun a => writes mid a <> Some k) acts -> at_key (s_markets s) k o -> at_key (s_markets (fold_left (request cf now st mid) acts s)) k o.
Proof.
  induction acts as [|a acts IH]; intros s k o Hids Hw Hat; cbn [fold_left]; [exact Hat|]. inversion Hw; subst.
  apply IH; [rewrite ids_request; exact Hids|assumption|apply request_frame; assumption].
Qed.

(* ---------- a whole update of one market: the orders of every OTHER market are untouched unless a request of this update names them ---------- *)
Lemma ids_exec_pkg tb cf now s p : map mk_id (s_markets (exec_pkg tb cf now s p)) = map mk_id (s_markets s).
Proof.
  unfold exec_pkg. destruct (get_market (pk_market p) (s_markets s)) as [m|] eqn:Em; [|reflexivity].
  destruct (mk_book m) as [b|]; [|reflexivity]. destruct (get_order (pk_order p) (mk_orders m)) as [o0|]; [|reflexivity].
  destruct (status_eqb (so_status o0) SViolation); [destruct (pk_kind p); reflexivity|]. cbv zeta.
  destruct (pk_kind p).
  - destruct (sim_place tb (client_of cf (so_strat o0)) (mk_static m) b (pk_mv p) o0) as [o1 ok]. rewrite mk_sim_markets. apply ids_upd_market. reflexivity.
  - destruct (sim_cancel b o0) as [[o1 ok] c]. rewrite mk_sim_markets. apply ids_upd_market. reflexivity.
  - rewrite mk_sim_markets. apply ids_upd_market. reflexivity.
  - destruct (status_eqb (so_status o0) SExecComplete); [reflexivity|]. destruct (sim_cancel b o0) as [[o1 ok] sc].
    destruct (negb ok); [rewrite mk_sim_markets; apply ids_upd_market; reflexivity|].
    destruct (sc =? 0); [rewrite mk_sim_markets; apply ids_upd_market; reflexivity|].
    match goal with |- context [sim_place tb ?c ?ms0 b ?mv ?r0] => destruct (sim_place tb c ms0 b mv r0) as [r1 okp] end.
    destruct okp; rewrite mk_sim_markets; [rewrite !ids_upd_market by reflexivity; reflexivity|apply ids_upd_market; reflexivity].
Qed.

Lemma fold_exec_frame tb cf now k o : forall ps s, NoDup (map mk_id (s_markets s)) -> Forall (fun p => pkey p <> k) ps -> at_key (s_markets s) k o ->
  at_key (s_markets (fold_left (fun s1 p => if s_aborted s1 then s1 else exec_pkg tb cf now s1 p) ps s)) k o /\
  map mk_id (s_markets (fold_left (fun s1 p => if s_aborted s1 then s1 else exec_pkg tb cf now s1 p) ps s)) = map mk_id (s_markets s).
Proof.
  induction ps as [|p ps IH]; intros s Hids Hne Hat; cbn [fold_left]; [split; [exact Hat|reflexivity]|]. inversion Hne; subst.
  destruct (s_aborted s); [apply IH; assumption|].
  destruct (IH (exec_pkg tb cf now s p)) as [A B]; [rewrite ids_exec_pkg; exact Hids|assumption|apply exec_pkg_frame; assumption|].
  split; [exact A|rewrite B; apply ids_exec_pkg].
Qed.

Lemma strategies_frame cf now mid (f : Z -> list action) k o : forall sts s, NoDup (map mk_id (s_markets s)) ->
  (forall st, In st sts -> Forall (fun a => writes mid a <> Some k) (f st)) -> at_key (s_markets s) k o ->
  at_key (s_markets (fold_left (fun s st => fold_left (request cf now st mid) (f st) s) sts s)) k o.
Proof.
  induction sts as [|st sts IH]; intros s Hids Hw Hat; cbn [fold_left]; [exact Hat|].
  apply IH; [|intros st' H'; apply Hw; right; exact H'|apply requests_frame; [exact Hids|apply Hw; left; reflexivity|exact Hat]].
  assert (G0 : forall acts s0, map mk_id (s_markets (fold_left (request cf now st mid) acts s0)) = map mk_id (s_markets s0)).
  { induction acts as [|a acts IHa]; intros s0; cbn [fold_left]; [reflexivity|]. rewrite IHa. apply ids_request. }
  rewrite G0. exact Hids.
Qed.

Theorem step_frame_other_market tb cf n sc s e k o : NoDup (map mk_id (s_markets s)) -> fst k <> ev_market e ->
  (forall st, In st (map Z.of_nat (seq 0 (Z.to_nat n))) -> Forall (fun a => writes (ev_market e) a <> Some k) (sc st (ev_market e) (ev_idx e))) ->
  at_key (s_markets s) k o -> at_key (s_markets (step tb cf n sc s e)) k o.
Proof.
  intros Hids Hne Hw Hat. unfold step. destruct (s_aborted s); [exact Hat|].
  set (s1 := match s_queue s with [] => s | _ => check_pending tb cf (b_pt (ev_book e)) (ev_market e) s end).
  assert (H1 : at_key (s_markets s1) k o /\ map mk_id (s_markets s1) = map mk_id (s_markets s)).
  { subst s1. destruct (s_queue s) eqn:Eq; [split; [exact Hat|reflexivity]|]. unfold check_pending. cbn [s_markets].
    apply fold_exec_frame; [exact Hids| |exact Hat]. rewrite Forall_forall. intros p0 Hp. apply filter_In in Hp as [_ Hp]. apply andb_true_iff in Hp as [Hp _].
    intro Hc. apply Hne. rewrite <- Hc. unfold pkey. cbn. lia. }
  destruct H1 as [Hat1 Hids1]. assert (Hid1 : NoDup (map mk_id (s_markets s1))) by (rewrite Hids1; exact Hids).
  destruct (s_aborted s1); [exact Hat1|].
  destruct (get_market (ev_market e) (s_markets s1)) as [m|] eqn:Em; [|exact Hat1].
  destruct (get_market_id _ _ _ Em) as [Hin Hmid].
  destruct (mstatus_eqb (b_status (ev_book e)) MClosed).
  - destruct (mk_seen m); [|exact Hat1]. cbn [s_markets]. rewrite (upd_market_const _ _ m _ Em).
    apply (at_key_market_replaced _ (ev_market e) m _ k o Hid1 Em); [exact Hmid| |exact Hat1]. intros _ _ Hc. contradiction.
  - match goal with |- context [middleware tb cf s1 ?mm ?b] => set (m0 := mm) end.
    pose proof (middleware_N tb cf s1 m0 (ev_book e)) as (E1 & E2 & E3 & E4).
    destruct (middleware tb cf s1 m0 (ev_book e)) as [s2 m1]. cbn [fst snd] in *. unfold m0 in E3. cbn [mk_id] in E3.
    set (m2 := if mk_active m1 then set_orders m1 (completion_sweep cf (b_pt (ev_book e)) (mk_orders m1)) else m1).
    assert (Hid2 : mk_id m2 = ev_market e) by (subst m2; destruct (mk_active m1); cbn; lia).
    apply strategies_frame.
    + cbn [s_markets]. rewrite E1. rewrite ids_upd_market_c by (intros x _; exact Hid2). exact Hid1.
    + exact Hw.
    + cbn [s_markets]. rewrite E1. apply (at_key_market_replaced _ (ev_market e) m m2 k o Hid1 Em Hid2); [|exact Hat1]. intros _ _ Hc. contradiction.
Qed.

(* SimFrozenP.v — C03 (simulated execution), last clause, over whole runs: once an order has been reported complete, its status, its matched size
   and its fragments are the same in every later state of the run.  Same domain as SimLifeP (whose invariant it uses). *)
From Coq Require Import ZArith List Bool Lia ZifyBool Permutation.
From V Require Import Model.Num Model.Status Model.Sim Model.SimLoop Model.SimGuard Proofs.NumP Proofs.SimPlaceP Proofs.SimPlaceP2
     Proofs.SimIsolationP Proofs.SimRemovalsP Proofs.SimRunP Proofs.SimAckRunP Proofs.SimNamesP Proofs.SimLinkP Proofs.SimAwaitP Proofs.SimStaticP Proofs.SimLifeP.
Open Scope Z_scope.

Definition frozen (o o' : sorder) : Prop :=
  so_name o' = so_name o /\ (so_status o = SExecComplete -> so_status o' = SExecComplete /\ so_matched o' = so_matched o /\ so_frags o' = so_frags o).
Lemma frozen_refl o : frozen o o.  Proof. split; [reflexivity|intros H; repeat split; assumption]. Qed.
Lemma frozen_trans a b c : frozen a b -> frozen b c -> frozen a c.
Proof.
  intros [N1 F1] [N2 F2]. split; [congruence|]. intros H. destruct (F1 H) as (S1 & M1 & R1). destruct (F2 S1) as (S2 & M2 & R2). repeat split; congruence.
Qed.
Lemma frozen_live o o' : so_name o' = so_name o -> so_status o <> SExecComplete -> frozen o o'.
Proof. intros N H. split; [exact N|]. intros Hc. contradiction. Qed.

Definition persists (ms ms' : list market) : Prop := forall k o, at_key ms k o -> exists o', at_key ms' k o' /\ frozen o o'.
Lemma persists_refl ms : persists ms ms.
Proof. intros k o H. exists o. split; [exact H|apply frozen_refl]. Qed.
Lemma persists_trans a b c : persists a b -> persists b c -> persists a c.
Proof. intros H1 H2 k o H. destruct (H1 k o H) as [o1 [A1 F1]]. destruct (H2 k o1 A1) as [o2 [A2 F2]]. exists o2. split; [exact A2|eapply frozen_trans; eassumption]. Qed.

(* one market replaced: every order of the old market has a frozen successor in the new one *)
Lemma persists_upd ms mid m m' : NoDup (map mk_id ms) -> get_market mid ms = Some m -> mk_id m' = mid ->
  (forall o, In o (mk_orders m) -> exists o', In o' (mk_orders m') /\ frozen o o') -> persists ms (upd_market mid (fun _ => m') ms).
Proof.
  intros Hids Em Hid' H k o (m0 & A & B & C & D). destruct (get_market_id _ _ _ Em) as [Hin Hmid].
  destruct (Z.eq_dec (mk_id m0) mid) as [E|E].
  - assert (m0 = m) by (apply (nodup_ids_unique ms); [exact Hids|exact A|exact Hin|lia]). subst m0.
    destruct (H o C) as [o' [Ho' F]]. exists o'. split; [|exact F]. exists m'. split; [apply (upd_const_new mid m' m ms Hin Hmid)|].
    split; [lia|split; [exact Ho'|destruct F as [N _]; lia]].
  - exists o. split; [|apply frozen_refl]. exists m0. split; [apply upd_const_keep; assumption|split; [exact B|split; assumption]].
Qed.
Lemma persists_F2 (R : sorder -> sorder -> Prop) ms mid m m' : NoDup (map mk_id ms) -> get_market mid ms = Some m -> mk_id m' = mid ->
  Forall2 R (mk_orders m) (mk_orders m') -> (forall o o', R o o' -> frozen o o') -> persists ms (upd_market mid (fun _ => m') ms).
Proof.
  intros Hids Em Hid' HR HF. apply (persists_upd ms mid m m' Hids Em Hid'). intros o Ho.
  destruct (Forall2_in_l _ _ _ _ HR Ho) as [o' [Ho' Ro]]. exists o'. split; [exact Ho'|apply HF; exact Ro].
Qed.

Lemma upd_order_keeps_other n f : forall os x, In x os -> so_name x <> n -> In x (upd_order n f os).
Proof.
  induction os as [|y r IH]; intros x H Hne; [destruct H|]. cbn [upd_order]. destruct (so_name y =? n) eqn:E.
  - destruct H as [<-|H]; [lia|right; exact H].
  - destruct H as [<-|H]; [left; reflexivity|right; apply IH; assumption].
Qed.
Lemma upd_order_has_new n f : forall os o, get_order n os = Some o -> In (f o) (upd_order n f os).
Proof.
  induction os as [|y r IH]; intros o H; [discriminate|]. unfold get_order in H. cbn [find] in H. cbn [upd_order].
  destruct (so_name y =? n); [inversion H; left; reflexivity|right; apply IH; exact H].
Qed.
(* the target of a package / request replaced by a frozen successor, new orders appended *)
Lemma persists_target ms mid m m' n o o' ex : NoDup (map mk_id ms) -> get_market mid ms = Some m -> NoDup (names (mk_orders m)) ->
  get_order n (mk_orders m) = Some o -> frozen o o' -> mk_id m' = mid -> mk_orders m' = upd_order n (fun _ => o') (mk_orders m) ++ ex ->
  persists ms (upd_market mid (fun _ => m') ms).
Proof.
  intros Hids Em Hnd Eo F Hid' Hord. destruct (get_market_id _ _ _ Em) as [Hin Hmid]. destruct (get_order_in _ _ _ Eo) as [Hino Hname].
  apply (persists_upd ms mid m _ Hids Em); [exact Hid'|]. rewrite Hord. intros x Hx.
  destruct (Z.eq_dec (so_name x) n) as [E|E].
  - assert (x = o) by (apply (unique_by_name (mk_orders m)); [exact Hnd|exact Hx|exact Hino|lia]). subst x.
    exists o'. split; [apply in_or_app; left; apply (upd_order_has_new n (fun _ => o') _ o Eo)|exact F].
  - exists x. split; [apply in_or_app; left; apply upd_order_keeps_other; assumption|apply frozen_refl].
Qed.

Lemma sim_cancel_matched b o : so_matched (fst (fst (sim_cancel b o))) = so_matched o /\ so_frags (fst (fst (sim_cancel b o))) = so_frags o.
Proof. unfold sim_cancel. destruct (negb (mstatus_eqb (b_status b) MOpen)); [split; reflexivity|]. destruct (so_type o); split; reflexivity. Qed.

(* ---------- one package ---------- *)
Theorem exec_pkg_frozen tb cf now fut s p L :
  simN fut s -> linkI cf (p :: L) (s_markets s) -> lifeI (p :: L) (s_markets s) -> persists (s_markets s) (s_markets (exec_pkg tb cf now s p)).
Proof.
  intros HN HK HL. pose proof HN as (Hids & Hmk & Hnx & _ & _).
  unfold exec_pkg.
  destruct (get_market (pk_market p) (s_markets s)) as [m|] eqn:Em; [|apply persists_refl].
  destruct (get_market_id _ _ _ Em) as [Hin Hmid].
  assert (Hnd : NoDup (names (mk_orders m))) by (rewrite Forall_forall in Hmk; apply (Hmk m Hin)).
  destruct (mk_book m) as [b|] eqn:Eb; [|apply persists_refl].
  destruct (get_order (pk_order p) (mk_orders m)) as [o|] eqn:Eo; [|apply persists_refl].
  destruct (get_order_in _ _ _ Eo) as [Hino Hname].
  assert (Hat : at_key (s_markets s) (pkey p) o) by (exists m; split; [exact Hin|split; [exact Hmid|split; [exact Hino|exact Hname]]]).
  destruct (status_eqb (so_status o) SViolation); [destruct (pk_kind p); apply persists_refl|].
  cbv zeta.
  assert (HGo : G o) by (apply (proj1 HL m Hin o Hino)).
  assert (PUTX : forall m' o' ex, mk_id m' = pk_market p -> mk_orders m' = upd_order (so_name o') (fun _ => o') (mk_orders m) ++ ex -> so_name o' = so_name o -> frozen o o' ->
            persists (s_markets s) (upd_market (pk_market p) (fun _ => m') (s_markets s))).
  { intros m' o' ex Hid' Hord Hn' F. rewrite Hn', Hname in Hord. apply (persists_target (s_markets s) (pk_market p) m m' (pk_order p) o o' ex); assumption. }
  assert (PUT : forall o', so_name o' = so_name o -> frozen o o' ->
            persists (s_markets s) (upd_market (pk_market p) (fun m0 => set_orders m0 (upd_order (so_name o') (fun _ => o') (mk_orders m0))) (s_markets s))).
  { intros o' Hn' F. rewrite (upd_market_const _ _ m _ Em). apply (PUTX _ o' []); [exact Hmid|cbn [set_orders mk_orders]; rewrite app_nil_r; reflexivity|exact Hn'|exact F]. }
  destruct (pk_kind p) eqn:Ek.
  - (* place: the target is Pending *)
    assert (Hpl : so_placed o = None).
    { destruct HK as [_ _ LC _ _ _]. destruct (LC p (or_introl eq_refl)) as [_ HC]; [unfold is_place; rewrite Ek; reflexivity|]. apply (HC o Hat). }
    destruct (g_unpl o HGo Hpl) as (Hst & _).
    pose proof (core_sim_place tb (client_of cf (so_strat o)) (mk_static m) b (pk_mv p) o) as HC1.
    destruct (sim_place tb (client_of cf (so_strat o)) (mk_static m) b (pk_mv p) o) as [o1 ok]. cbn [fst] in HC1. rewrite mk_sim_markets.
    destruct (core_eq _ _ HC1) as (N1 & _).
    destruct ok; apply PUT; try (cbn; exact N1); (apply frozen_live; [cbn; exact N1|rewrite Hst; discriminate]).
  - (* cancel *)
    assert (Hk : is_place p = false) by (unfold is_place; rewrite Ek; reflexivity).
    destruct (proj1 (proj2 HL) p (or_introl eq_refl) Hk o Hat) as [Hbet Hs].
    pose proof (sim_cancel_spec b o) as HS. pose proof (sim_cancel_matched b o) as [HM HF].
    destruct (sim_cancel b o) as [[o1 ok] c]. cbn [fst] in HM, HF. destruct HS as (HC1 & Hno & Hyes). rewrite mk_sim_markets.
    destruct (core_eq _ _ HC1) as (N1 & St1 & _).
    destruct ok.
    + destruct (Hyes eq_refl) as (Ht & Hr1 & Hc). destruct (remaining o1 =? 0) eqn:Er.
      * apply PUT; [cbn; exact N1|]. split; [cbn; exact N1|]. intros _. cbn. repeat split; assumption.
      * apply PUT; [cbn; exact N1|]. apply frozen_live; [cbn; exact N1|]. intro Hec.
        pose proof (g_done o HGo Hec Hbet) as H0. assert (c = 0); [|lia]. rewrite Hc, H0.
        destruct (so_red o) as [x|] eqn:Ered; [pose proof (g_red2 o HGo x Ered); destruct (x =? 0)|]; unfold zmin; match goal with |- context [if ?cc then _ else _] => destruct cc eqn:? end; lia.
    + rewrite (Hno eq_refl). apply PUT; [apply nm_reset_order|]. split; [apply nm_reset_order|]. intros Hec. unfold reset_order. rewrite Hec. cbn. repeat split; assumption.
  - (* update *)
    rewrite mk_sim_markets. apply PUT; [apply nm_reset_order|]. split; [apply nm_reset_order|]. intros Hec. unfold reset_order. rewrite Hec. cbn. repeat split; assumption.
  - (* replace *)
    destruct (status_eqb (so_status o) SExecComplete) eqn:Ec; [rewrite mk_sim_markets; apply persists_refl|].
    assert (Hne : so_status o <> SExecComplete) by (intro Hc; rewrite Hc in Ec; discriminate).
    pose proof (sim_cancel_spec b o) as HS. destruct (sim_cancel b o) as [[o1 ok] sc]. destruct HS as (HC1 & Hno & Hyes).
    destruct (core_eq _ _ HC1) as (N1 & _).
    destruct ok; cbn [negb].
    2:{ rewrite mk_sim_markets. apply PUT; [rewrite nm_reset_order; exact N1|apply frozen_live; [rewrite nm_reset_order; exact N1|exact Hne]]. }
    set (o2 := exec_complete (cf_complete cf) now o1). assert (N2 : so_name o2 = so_name o) by exact N1.
    destruct (sc =? 0); [rewrite mk_sim_markets; apply PUT; [exact N2|apply frozen_live; assumption]|].
    match goal with |- context [sim_place tb ?c ?ms0 b ?mv ?r0] => destruct (sim_place tb c ms0 b mv r0) as [r1 okp] end.
    destruct okp; rewrite mk_sim_markets.
    + rewrite upd_market_twice by reflexivity. rewrite (upd_market_const _ _ m _ Em).
      match goal with |- context [set_orders _ (_ ++ [?x])] => set (r4 := x) end.
      apply (PUTX _ o2 [r4]); [exact Hmid|reflexivity|exact N2|apply frozen_live; assumption].
    + apply PUT; [rewrite nm_reset_order; exact N2|apply frozen_live; [rewrite nm_reset_order; exact N2|exact Hne]].
Qed.

(* ---------- requests ---------- *)
Lemma manage_frozen ms mid m name o (f : sorder -> sorder) :
  NoDup (map mk_id ms) -> get_market mid ms = Some m -> NoDup (names (mk_orders m)) -> get_order name (mk_orders m) = Some o ->
  so_status o = SExecutable -> so_name (f o) = so_name o ->
  persists ms (upd_market mid (fun m0 => set_orders m0 (upd_order name f (mk_orders m))) ms).
Proof.
  intros Hids Em Hnd Eo Hs Hfn. destruct (get_market_id _ _ _ Em) as [Hin Hmid].
  rewrite (upd_market_const _ _ m _ Em). rewrite (upd_order_const name f _ o Eo).
  apply (persists_target ms mid m _ name o (f o) []); [exact Hids|exact Em|exact Hnd|exact Eo| |exact Hmid|cbn [set_orders mk_orders]; rewrite app_nil_r; reflexivity].
  apply frozen_live; [exact Hfn|rewrite Hs; discriminate].
Qed.

Theorem request0_frozen cf now st mid fut s a : simN (act_keys0 mid a ++ fut) s -> persists (s_markets s) (s_markets (request0 cf now st mid s a)).
Proof.
  intros HN. pose proof HN as (Hids & Hmk & _).
  unfold request0. destruct (get_market mid (s_markets s)) as [m|] eqn:Em; [|apply persists_refl].
  destruct (get_market_id _ _ _ Em) as [Hin Hmid].
  assert (Hnd : NoDup (names (mk_orders m))) by (rewrite Forall_forall in Hmk; apply (Hmk m Hin)).
  destruct a as [name sel sd t mv|name red|name p|name price mv|mid' a']; [| | | |apply persists_refl].
  - destruct (negb (market_open m)); [apply persists_refl|]. cbn [s_queue s_markets]. rewrite (upd_market_const _ _ m _ Em).
    apply (persists_upd _ mid m _ Hids Em); [exact Hmid|]. cbn [set_orders mk_orders]. intros o Ho. exists o. split; [apply in_or_app; left; exact Ho|apply frozen_refl].
  - destruct (get_order name (mk_orders m)) as [o|] eqn:Eo; [|apply persists_refl].
    destruct (negb (order_validation_ok o) || negb (market_open m)); [apply persists_refl|].
    destruct (so_bet o); [|apply persists_refl]. destruct (so_type o); try apply persists_refl.
    destruct (match red with Some x => negb (x =? 0) && (remaining o - x <? 0) | None => false end); [apply persists_refl|].
    destruct (negb (status_eqb (so_status o) SExecutable)) eqn:Est; [apply persists_refl|]. cbn [s_queue s_markets].
    assert (Hs : so_status o = SExecutable) by (apply negb_false_iff in Est; destruct (so_status o); try discriminate; reflexivity).
    apply (manage_frozen (s_markets s) mid m name o _ Hids Em Hnd Eo Hs). reflexivity.
  - destruct (get_order name (mk_orders m)) as [o|] eqn:Eo; [|apply persists_refl].
    destruct (negb (order_validation_ok o) || negb (market_open m)); [apply persists_refl|].
    destruct (so_bet o); [|apply persists_refl]. destruct (so_type o); try apply persists_refl.
    destruct (persist_eqb (so_persist o) p); [apply persists_refl|].
    destruct (negb (status_eqb (so_status o) SExecutable)) eqn:Est; [apply persists_refl|]. cbn [s_queue s_markets].
    assert (Hs : so_status o = SExecutable) by (apply negb_false_iff in Est; destruct (so_status o); try discriminate; reflexivity).
    apply (manage_frozen (s_markets s) mid m name o _ Hids Em Hnd Eo Hs). reflexivity.
  - destruct (get_order name (mk_orders m)) as [o|] eqn:Eo; [|apply persists_refl].
    destruct (negb (order_validation_ok o) || negb (market_open m)); [apply persists_refl|].
    destruct (so_bet o); [|apply persists_refl].
    destruct (so_type o); try apply persists_refl;
    (destruct (so_price o =? price); [apply persists_refl|]; destruct (negb (status_eqb (so_status o) SExecutable)) eqn:Est; [apply persists_refl|]; cbn [s_queue s_markets];
     assert (Hs : so_status o = SExecutable) by (apply negb_false_iff in Est; destruct (so_status o); try discriminate; reflexivity);
     apply (manage_frozen (s_markets s) mid m name o _ Hids Em Hnd Eo Hs); reflexivity).
Qed.

(* ---------- middleware and sweep ---------- *)
Lemma evo_frozen cf o o' : cfg_ok cf -> evo cf o o' -> frozen o o'.
Proof.
  intros [_ Hc2] [->|[Hl E]]; [apply frozen_refl|]. apply frozen_live; [apply (core_eq _ _ E)|]. intro Hc. rewrite Hc in Hl. congruence.
Qed.
Lemma swept_frozen cf now o o' : swept cf now o o' -> frozen o o'.
Proof.
  intros [->|[->|[-> _]]]; [apply frozen_refl| |]; (split; [reflexivity|]); intros H; cbn; repeat split; assumption || reflexivity.
Qed.

(* ---------- the loop ---------- *)
Lemma fold_exec_frozen tb cf now fut rest : forall ps s, simN fut s -> linkI cf (ps ++ rest) (s_markets s) -> lifeI (ps ++ rest) (s_markets s) ->
  persists (s_markets s) (s_markets (fold_left (fun s1 p => if s_aborted s1 then s1 else exec_pkg tb cf now s1 p) ps s)).
Proof.
  induction ps as [|p ps IH]; intros s HN HK HL; cbn [fold_left app] in *; [apply persists_refl|].
  destruct (s_aborted s) eqn:Ea.
  - apply IH; [exact HN|eapply linkI_tail; exact HK|eapply lifeI_tail; exact HL].
  - eapply persists_trans; [eapply exec_pkg_frozen; eassumption|].
    apply IH; [apply exec_pkg_N; exact HN|eapply exec_pkg_link; eassumption|eapply exec_pkg_life; eassumption].
Qed.
Theorem check_pending_frozen tb cf now mid fut s : simQ cf fut s -> lifeI (s_queue s) (s_markets s) ->
  persists (s_markets s) (s_markets (check_pending tb cf now mid s)).
Proof.
  intros [HN HK] HL. unfold check_pending.
  set (fr := fun p => (pk_market p =? mid) && due cf now p).
  set (ps := filter fr (s_queue s)). set (rest := filter (fun p => negb (fr p)) (s_queue s)).
  assert (HK' : linkI cf (ps ++ rest) (s_markets s)) by (apply (linkI_perm cf (s_queue s)); [apply filter_partition_perm|exact HK]).
  assert (HL' : lifeI (ps ++ rest) (s_markets s)) by (apply (lifeI_perm (s_queue s)); [apply filter_partition_perm|exact HL]).
  cbn [s_markets]. apply (fold_exec_frozen tb cf now fut rest ps s HN HK' HL').
Qed.

Lemma requests_frozen cf now st mid : cfg_ok cf -> forall acts fut s, Forall action_ok acts -> Forall action_pos acts -> lifeQ cf (flat_map (act_keys mid) acts ++ fut) s ->
  persists (s_markets s) (s_markets (fold_left (request cf now st mid) acts s)).
Proof.
  intros Hc. induction acts as [|a acts IH]; intros fut s Ha Hp HI; cbn [fold_left flat_map app] in *; [apply persists_refl|].
  inversion Ha; subst. inversion Hp; subst. rewrite <- app_assoc in HI.
  eapply persists_trans; [|apply (IH fut); [assumption|assumption|apply request_life; [exact Hc|assumption|assumption|exact HI]]].
  destruct HI as [[[HN _] _] _]. unfold request, act_keys in *. destruct a; eapply request0_frozen; exact HN.
Qed.
Lemma strategies_frozen cf now mid (f : Z -> list action) : cfg_ok cf -> forall sts fut s, (forall st, In st sts -> Forall action_ok (f st)) -> (forall st, In st sts -> Forall action_pos (f st)) ->
  lifeQ cf (flat_map (fun st => flat_map (act_keys mid) (f st)) sts ++ fut) s ->
  persists (s_markets s) (s_markets (fold_left (fun s st => fold_left (request cf now st mid) (f st) s) sts s)).
Proof.
  intros Hc. induction sts as [|st sts IH]; intros fut s Hf Hp HI; cbn [fold_left flat_map app] in *; [apply persists_refl|].
  rewrite <- app_assoc in HI.
  eapply persists_trans; [eapply requests_frozen; [exact Hc|apply Hf; left; reflexivity|apply Hp; left; reflexivity|exact HI]|].
  apply (IH fut); [intros st' H'; apply Hf; right; exact H'|intros st' H'; apply Hp; right; exact H'|].
  apply requests_life; [exact Hc|apply Hf; left; reflexivity|apply Hp; left; reflexivity|exact HI].
Qed.

(* ---------- one event ---------- *)
Theorem step_frozen tb cf n sc fut s e : cfg_ok cf -> event_ok2 sc n e -> event_pos sc n e -> lifeQ cf (ev_keys sc n e ++ fut) s ->
  persists (s_markets s) (s_markets (step tb cf n sc s e)).
Proof.
  intros Hc He Hpos [HQ HL].
  destruct He as [[Hbk Hsc] Hdl]. destruct HQ as [[HN HK] Hbd].
  unfold step. destruct (s_aborted s) eqn:Eab; [apply persists_refl|].
  set (s1 := match s_queue s with [] => s | _ => check_pending tb cf (b_pt (ev_book e)) (ev_market e) s end).
  assert (H1 : simQB cf (ev_keys sc n e ++ fut) s1 /\ lifeI (s_queue s1) (s_markets s1) /\ persists (s_markets s) (s_markets s1)).
  { subst s1. destruct (check_pending_link tb cf (b_pt (ev_book e)) (ev_market e) _ s (conj HN HK) Hbd) as (_ & _ & C & D).
    pose proof (check_pending_life tb cf (b_pt (ev_book e)) (ev_market e) _ s (conj HN HK) HL) as E.
    pose proof (check_pending_frozen tb cf (b_pt (ev_book e)) (ev_market e) _ s (conj HN HK) HL) as F.
    destruct (s_queue s) eqn:Eq; [split; [rewrite <- Eq in HK; exact (conj (conj HN HK) Hbd)|split; [rewrite <- Eq in HL; exact HL|apply persists_refl]]|].
    split; [exact (conj C D)|split; [exact E|exact F]]. }
  destruct H1 as [[[HN1 HK1] Hbd1] [HL1 HP1]].
  destruct (s_aborted s1); [exact HP1|].
  destruct (get_market (ev_market e) (s_markets s1)) as [m|] eqn:Em; [|exact HP1].
  destruct (get_market_id _ _ _ Em) as [Hin Hmid].
  pose proof HN1 as (Hids & Hmk & _).
  assert (Hnd : NoDup (names (mk_orders m))) by (rewrite Forall_forall in Hmk; apply (Hmk m Hin)).
  eapply persists_trans; [exact HP1|].
  destruct (mstatus_eqb (b_status (ev_book e)) MClosed) eqn:Ecl.
  - destruct (mk_seen m); [|apply persists_refl]. cbn [s_queue s_markets]. rewrite (upd_market_const _ _ m _ Em).
    match goal with |- persists _ (upd_market _ (fun _ => ?mm) _) => apply (persists_F2 eq (s_markets s1) (ev_market e) m mm Hids Em Hmid) end; [cbn [mk_orders]; apply F2_refl; reflexivity|].
    intros o o' <-. apply frozen_refl.
  - match goal with |- context [middleware tb cf s1 ?mm ?b] => set (m0 := mm) end.
    pose proof (middleware_N tb cf s1 m0 (ev_book e)) as (E1 & E2 & E3 & E4).
    pose proof (middleware_queue tb cf s1 m0 (ev_book e)) as E5.
    pose proof (middleware_book tb cf s1 m0 (ev_book e)) as E6.
    assert (HK0 : Forall2 (keeps cf) (mk_orders m) (mk_orders (snd (middleware tb cf s1 m0 (ev_book e)))))
      by (apply (middleware_keeps tb cf s1 m0 (ev_book e) Hbk Hnd); destruct HK1 as [LA _ _ _ _ _]; apply (LA m Hin)).
    assert (HE0 : Forall2 (evo cf) (mk_orders m) (mk_orders (snd (middleware tb cf s1 m0 (ev_book e)))))
      by (apply (middleware_evo tb cf s1 m0 (ev_book e) Hbk Hnd)).
    destruct (middleware tb cf s1 m0 (ev_book e)) as [s2 m1]. cbn [fst snd] in *. unfold m0 in E3, E4. cbn [mk_id mk_orders] in E3, E4, HK0, HE0.
    set (m2 := if mk_active m1 then set_orders m1 (completion_sweep cf (b_pt (ev_book e)) (mk_orders m1)) else m1).
    assert (HK2 : Forall2 (keeps cf) (mk_orders m) (mk_orders m2)).
    { subst m2. destruct (mk_active m1); [|exact HK0]. cbn [set_orders mk_orders]. eapply Forall2_trans_keeps; [exact HK0|]. apply completion_sweep_keeps. apply Hc. }
    assert (HE2 : Forall2 (fun o o'' => exists o', evo cf o o' /\ (swept cf (b_pt (ev_book e)) o' o'')) (mk_orders m) (mk_orders m2)).
    { subst m2. destruct (mk_active m1); cbn [set_orders mk_orders].
      - apply (F2_comp _ _ _ _ _ HE0). apply completion_sweep_swept.
      - apply (F2_comp _ _ _ _ _ HE0). apply F2_refl. intros x. left. reflexivity. }
    assert (Hid2 : mk_id m2 = ev_market e) by (subst m2; destruct (mk_active m1); cbn; lia).
    assert (Hbk2 : match mk_book m2 with Some b => 0 <= b_delay b | None => True end)
      by (subst m2; destruct (mk_active m1); cbn [set_orders mk_book]; rewrite E6; exact Hdl).
    eapply persists_trans.
    2:{ refine (strategies_frozen cf (b_pt (ev_book e)) (ev_market e) (fun st => sc st (ev_market e) (ev_idx e)) Hc _ fut _ Hsc Hpos _).
        fold (ev_keys sc n e). split; [split; [split|]|].
        + destruct HN1 as (A & B & C & D & E). unfold simN. cbn [s_markets s_next_name]. rewrite E1, E2.
          rewrite ids_upd_market_c by (intros x _; exact Hid2). split; [exact A|]. split; [|split; [exact C|split; assumption]].
          rewrite (Forall_forall) in B. rewrite Forall_forall. intros x Hx.
          destruct (upd_const_in (ev_market e) m2 m (s_markets s1) x A Hin Hmid Hx) as [->|[Hx' _]]; [|apply B; exact Hx'].
          apply (mkN_same_names _ _ m); [lia|rewrite (Forall2_names cf _ _ HK2); reflexivity|apply B; exact Hin].
        + cbn [s_queue s_markets]. rewrite E1, E5. apply (market_evolves_link cf (s_queue s1) (s_markets s1) (ev_market e) m m2 Hids Em Hid2 HK2 Hbk2 HK1).
        + unfold queue_bd_ok. cbn [s_queue]. rewrite E5. exact Hbd1.
        + cbn [s_queue s_markets]. rewrite E1, E5.
          apply (life_evolves _ (s_queue s1) (s_markets s1) (ev_market e) m m2 Hids Em Hid2 HE2); [|exact HL1].
          intros o o'' (o' & H1 & H2). destruct (evo_facts cf o o' Hc H1) as (N1 & G1 & B1 & S1). destruct (swept_facts cf _ o' o'' H2) as (N2 & G2 & B2 & S2).
          split; [congruence|]. split; [auto|]. split; [congruence|]. destruct S2 as [S2|S2]; [left; congruence|right; exact S2]. }
    cbn [s_markets]. rewrite E1. apply (persists_F2 _ (s_markets s1) (ev_market e) m m2 Hids Em Hid2 HE2).
    intros o o'' (o' & H1 & H2). eapply frozen_trans; [eapply evo_frozen; eassumption|eapply swept_frozen; eassumption].
Qed.

(* ---------- whole runs ---------- *)
Theorem run_frozen tb cf n sc : cfg_ok cf -> forall es fut s, Forall (event_ok2 sc n) es -> Forall (event_pos sc n) es -> lifeQ cf (run_keys sc n es ++ fut) s ->
  persists (s_markets s) (s_markets (fold_left (step tb cf n sc) es s)).
Proof.
  intros Hc. induction es as [|e es IH]; intros fut s He Hp HI; cbn [fold_left run_keys flat_map app] in *; [apply persists_refl|].
  inversion He as [|? ? He1 He2]; subst. inversion Hp as [|? ? Hp1 Hp2]; subst. unfold run_keys in HI. rewrite <- app_assoc in HI.
  eapply persists_trans; [eapply step_frozen; eassumption|].
  apply (IH fut); [exact He2|exact Hp2|]. apply step_life; assumption.
Qed.

Lemma run_keys_app sc n es1 es2 : run_keys sc n (es1 ++ es2) = run_keys sc n es1 ++ run_keys sc n es2.
Proof. unfold run_keys. apply flat_map_app. Qed.

Section FrozenStatic.
  Variables (tb : tiebreak) (cf : config) (n : Z) (sc : script) (es1 es2 : list event) (s : sim).
  Hypothesis Hcfg : cfg_ok_b cf = true.
  Hypothesis Hinit : initial_b s = true.
  Hypothesis Hev : forallb (event_b2 sc n) (es1 ++ es2) = true.
  Hypothesis Hpos : forallb (event_b3 sc n) (es1 ++ es2) = true.
  Hypothesis Hkeys : keys_ok_b sc n (es1 ++ es2) = true.

  (* an order that is complete after a prefix of a run has the same status, matched size and fragments after the whole run *)
  Theorem run_matched_frozen_after_completion_static m o :
    In m (s_markets (fold_left (step tb cf n sc) es1 s)) -> In o (mk_orders m) -> so_status o = SExecComplete ->
    exists m' o', In m' (s_markets (fold_left (step tb cf n sc) (es1 ++ es2) s)) /\ mk_id m' = mk_id m /\ In o' (mk_orders m') /\ so_name o' = so_name o /\
                  so_status o' = SExecComplete /\ so_matched o' = so_matched o /\ so_frags o' = so_frags o.
  Proof.
    intros Hm Ho Hs. destruct (keys_ok_b_sound sc n _ Hkeys) as [Hd Hk]. pose proof (cfg_ok_b_sound cf Hcfg) as Hc.
    assert (HE : Forall (event_ok2 sc n) (es1 ++ es2)) by (rewrite forallb_forall in Hev; rewrite Forall_forall; intros e He; apply event_b2_sound; apply Hev; exact He).
    assert (HP : Forall (event_pos sc n) (es1 ++ es2)) by (rewrite forallb_forall in Hpos; rewrite Forall_forall; intros e He; apply event_b3_sound; apply Hpos; exact He).
    apply Forall_app in HE as [HE1 HE2]. apply Forall_app in HP as [HP1 HP2].
    pose proof (initial_life cf _ s (initial_b_sound s Hinit) Hd Hk) as H0. rewrite run_keys_app, <- app_assoc in H0.
    pose proof (run_life tb cf n sc Hc es1 _ s HE1 HP1 H0) as H1.
    pose proof (run_frozen tb cf n sc Hc es2 [] _ HE2 HP2 H1) as H2.
    rewrite fold_left_app.
    destruct (H2 (mk_id m, so_name o) o) as [o' [(m' & A & B & C & D) [N F]]]; [exists m; split; [exact Hm|split; [reflexivity|split; [exact Ho|reflexivity]]]|].
    destruct (F Hs) as (S1 & M1 & R1). exists m', o'. cbn [fst snd] in B, D. repeat split; assumption.
  Qed.
End FrozenStatic.

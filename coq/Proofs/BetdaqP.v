(* BetdaqP.v — C03 for the BETDAQ order class: every history of execution answers, poll rows and strategy requests drives a BetdaqOrder along the
   documented lifecycle, and an order reported complete stays complete. *)
From Coq Require Import ZArith List Bool Lia.
From V Require Import Model.Num Model.Status Model.Sim Model.SimLoop Model.SimGuard Model.Betdaq.
Import ListNotations.

Definition bfive (st : status) : bool := match st with SPending | SExecutable | SUpdating | SCancelling | SExecComplete => true | _ => false end.
Record BI (o : border) : Prop := {
  bi_path : lifecycle_path SNone (bo_log o) = true;
  bi_last : last (bo_log o) SNone = bo_status o;
  bi_five : bfive (bo_status o) = true;
  bi_place : bo_place_out o = true -> bo_status o = SPending /\ bo_bet o = false /\ bo_upd_out o = O /\ bo_can_out o = O }.

Lemma lpath_app a l b : lifecycle_path a (l ++ [b]) = lifecycle_path a l && lifecycle_ok (last l a) b.
Proof.
  revert a. induction l as [|x r IH]; intros a; cbn [app lifecycle_path last]; [rewrite andb_true_r; reflexivity|].
  rewrite IH, andb_assoc. destruct r as [|y r]; [reflexivity|]. f_equal. f_equal. clear. revert y. induction r as [|z r IH]; intros y; [reflexivity|]. cbn [last] in *. apply IH.
Qed.

Lemma BI_bset o st : BI o -> lifecycle_ok (bo_status o) st = true -> bfive st = true -> bo_place_out o = false -> BI (bset o st).
Proof.
  intros [P L F Q] Hl Hf Hp. constructor; cbn [bset bo_log bo_status bo_place_out bo_bet bo_upd_out bo_can_out].
  - rewrite lpath_app, P, L, Hl. reflexivity.
  - apply last_last.
  - exact Hf.
  - intros Hc. congruence.
Qed.
Lemma BI_bcount o u c : BI o -> bo_place_out o = false -> BI (bcount o u c).
Proof. intros [P L F Q] Hp. constructor; cbn; try assumption. intros Hc. congruence. Qed.
Lemma BI_breset o : BI o -> bo_place_out o = false -> BI (breset o).
Proof.
  intros H Hp. unfold breset. destruct (status_eqb (bo_status o) SExecComplete) eqn:E; [exact H|].
  apply BI_bset; [exact H| |reflexivity|exact Hp]. pose proof (bi_five o H) as F. destruct (bo_status o); try discriminate; reflexivity.
Qed.

Theorem bstep_BI o e : BI o -> BI (bstep o e).
Proof.
  intros H. pose proof (bi_five o H) as F. pose proof (bi_place o H) as Q.
  destruct e as [ok| |final seqnew| | |err| |returned| ]; cbn [bstep].
  - destruct (bo_place_out o) eqn:Ep; [|exact H]. destruct (Q eq_refl) as (Hs & Hb & Hu & Hc).
    assert (HA : forall b, BI (banswered o b)).
    { intros b. destruct H as [P L F' Q']. constructor; cbn; try assumption. intros Hx. discriminate. }
    destruct ok; (apply BI_bset; [apply HA| |reflexivity|reflexivity]); change (bo_status (banswered o ?b)) with (bo_status o); rewrite Hs; reflexivity.
  - destruct (bo_place_out o) eqn:Ep; [|exact H]. destruct (Q eq_refl) as (Hs & Hb & Hu & Hc).
    assert (HA : forall b, BI (banswered o b)).
    { intros b. destruct H as [P L F' Q']. constructor; cbn; try assumption. intros Hx. discriminate. }
    apply BI_bset; [apply HA| |reflexivity|reflexivity]. change (bo_status (banswered o (bo_bet o))) with (bo_status o). rewrite Hs. reflexivity.
  - assert (Hp : bo_status o <> SPending \/ bo_bet o = true -> bo_place_out o = false).
    { intros Hx. destruct (bo_place_out o) eqn:Ep; [|reflexivity]. destruct (Q eq_refl) as (Hs & Hb & _). destruct Hx; congruence. }
    destruct (bo_status o) eqn:Es; try exact H.
    + destruct (bo_bet o) eqn:Eb; [|exact H]. apply BI_bset; [exact H|rewrite Es; destruct final; reflexivity|destruct final; reflexivity|apply Hp; right; reflexivity].
    + destruct seqnew; [|exact H]. apply BI_bset; [exact H|rewrite Es; destruct final; reflexivity|destruct final; reflexivity|apply Hp; left; discriminate].
    + destruct final; [|exact H]. apply BI_bset; [exact H|rewrite Es; reflexivity|reflexivity|apply Hp; left; discriminate].
  - destruct (status_eqb (bo_status o) SExecutable && bo_bet o) eqn:E; [|exact H]. apply andb_true_iff in E as [E1 E2].
    assert (Hs : bo_status o = SExecutable) by (destruct (bo_status o); try discriminate; reflexivity).
    assert (Hp : bo_place_out o = false) by (destruct (bo_place_out o) eqn:Ep; [destruct (Q eq_refl) as (Hx & _); congruence|reflexivity]).
    apply BI_bcount; [|exact Hp]. apply BI_bset; [exact H|rewrite Hs; reflexivity|reflexivity|exact Hp].
  - destruct (status_eqb (bo_status o) SExecutable && bo_bet o) eqn:E; [|exact H]. apply andb_true_iff in E as [E1 E2].
    assert (Hs : bo_status o = SExecutable) by (destruct (bo_status o); try discriminate; reflexivity).
    assert (Hp : bo_place_out o = false) by (destruct (bo_place_out o) eqn:Ep; [destruct (Q eq_refl) as (Hx & _); congruence|reflexivity]).
    apply BI_bcount; [|exact Hp]. apply BI_bset; [exact H|rewrite Hs; reflexivity|reflexivity|exact Hp].
  - destruct (bo_upd_out o) as [|n] eqn:En; [exact H|].
    assert (Hp : bo_place_out o = false) by (destruct (bo_place_out o) eqn:Ep; [destruct (Q eq_refl) as (_ & _ & Hx & _); congruence|reflexivity]).
    destruct err; [apply BI_breset; [apply BI_bcount; assumption|exact Hp]|apply BI_bcount; assumption].
  - destruct (bo_upd_out o) as [|n] eqn:En; [exact H|].
    assert (Hp : bo_place_out o = false) by (destruct (bo_place_out o) eqn:Ep; [destruct (Q eq_refl) as (_ & _ & Hx & _); congruence|reflexivity]).
    apply BI_breset; [apply BI_bcount; assumption|exact Hp].
  - destruct (bo_can_out o) as [|n] eqn:En; [exact H|].
    assert (Hp : bo_place_out o = false) by (destruct (bo_place_out o) eqn:Ep; [destruct (Q eq_refl) as (_ & _ & _ & Hx); congruence|reflexivity]).
    destruct returned; [|apply BI_breset; [apply BI_bcount; assumption|exact Hp]].
    apply BI_bset; [apply BI_bcount; assumption| |reflexivity|exact Hp]. cbn. destruct (bo_status o); try discriminate; reflexivity.
  - destruct (bo_can_out o) as [|n] eqn:En; [exact H|].
    assert (Hp : bo_place_out o = false) by (destruct (bo_place_out o) eqn:Ep; [destruct (Q eq_refl) as (_ & _ & _ & Hx); congruence|reflexivity]).
    apply BI_breset; [apply BI_bcount; assumption|exact Hp].
Qed.

Lemma BI_fresh : BI bfresh.
Proof. constructor; cbn; try reflexivity. intros _. repeat split; reflexivity. Qed.

Theorem brun_BI : forall es o, BI o -> BI (fold_left bstep es o).
Proof. induction es as [|e es IH]; intros o H; cbn [fold_left]; [exact H|]. apply IH. apply bstep_BI. exact H. Qed.

(* every status log of a BetdaqOrder is a path of the documented lifecycle ending in its status *)
Theorem betdaq_lifecycle_legal es : lifecycle_path SNone (bo_log (brun es)) = true /\ last (bo_log (brun es)) SNone = bo_status (brun es).
Proof. pose proof (brun_BI es bfresh BI_fresh) as H. split; [apply (bi_path _ H)|apply (bi_last _ H)]. Qed.

(* finality: whatever happens after an order has been reported complete, it stays complete *)
Lemma bstep_final o e : BI o -> bo_status o = SExecComplete -> bo_status (bstep o e) = SExecComplete.
Proof.
  intros H Hs. assert (Hp : bo_place_out o = false) by (destruct (bo_place_out o) eqn:Ep; [destruct (bi_place o H Ep) as (Hx & _); congruence|reflexivity]).
  assert (R : forall x, bo_status x = SExecComplete -> bo_status (breset x) = SExecComplete) by (intros x Hx; unfold breset; rewrite Hx; cbn; exact Hx).
  destruct e as [ok| |final seqnew| | |err| |returned| ]; cbn [bstep]; rewrite ?Hp; try exact Hs.
  - rewrite Hs. exact Hs.
  - rewrite Hs. cbn. exact Hs.
  - rewrite Hs. cbn. exact Hs.
  - destruct (bo_upd_out o); [exact Hs|]. destruct err; [apply R; exact Hs|exact Hs].
  - destruct (bo_upd_out o); [exact Hs|]. apply R. exact Hs.
  - destruct (bo_can_out o); [exact Hs|]. destruct returned; [reflexivity|apply R; exact Hs].
  - destruct (bo_can_out o); [exact Hs|]. apply R. exact Hs.
Qed.
Theorem betdaq_complete_is_final es1 es2 : bo_status (brun es1) = SExecComplete -> bo_status (brun (es1 ++ es2)) = SExecComplete.
Proof.
  unfold brun. rewrite fold_left_app. generalize (brun_BI es1 bfresh BI_fresh). unfold brun. generalize (fold_left bstep es1 bfresh). intros o H Hs.
  revert o H Hs. induction es2 as [|e es IH]; intros o H Hs; cbn [fold_left]; [exact Hs|]. apply IH; [apply bstep_BI; exact H|apply bstep_final; assumption].
Qed.

(* a request on an order that does not rest Executable with a bet id changes nothing *)
Theorem betdaq_request_rejected o : bo_status o <> SExecutable \/ bo_bet o = false -> bstep o BReqUpdate = o /\ bstep o BReqCancel = o.
Proof.
  intros H. cbn [bstep]. assert (E : status_eqb (bo_status o) SExecutable && bo_bet o = false).
  { destruct H as [H|H]; [destruct (bo_status o); try reflexivity; contradiction|rewrite H; apply andb_false_r]. }
  rewrite E. split; reflexivity.
Qed.

(* BetdaqP.v — C03 for the BETDAQ order class: every history of execution answers, poll rows and strategy requests drives a BetdaqOrder along the
   documented lifecycle, and an order reported complete stays complete. *)
From Coq Require Import ZArith List Bool Lia.
From V Require Import Model.Num Model.Status Model.Sim Model.SimLoop Model.SimGuard Model.Betdaq.
Import ListNotations.

Definition bfive (st : status) : bool := match st with SPending | SExecutable | SUpdating | SCancelling | SExecComplete => true | _ => false end.
Record BI (o : border) : Prop := {
  bi_path : lifecycle_path SNone (bo_log o) = true;
  bi_last : last (bo_log o) SNone = bo_status o;
  bi_five : bfive (bo_status o) = true;
  bi_place : bo_place_out o = true -> bo_status o = SPending /\ bo_bet o = false /\ bo_upd_out o = O /\ bo_can_out o = O }.

Lemma lpath_app a l b : lifecycle_path a (l ++ [b]) = lifecycle_path a l && lifecycle_ok (last l a) b.
Proof.
  revert a. induction l as [|x r IH]; intros a; cbn [app lifecycle_path last]; [rewrite andb_true_r; reflexivity|].
  rewrite IH, andb_assoc. destruct r as [|y r]; [reflexivity|]. f_equal. f_equal. clear. revert y. induction r as [|z r IH]; intros y; [reflexivity|]. cbn [last] in *. apply IH.
Qed.

Lemma BI_bset o st : BI o -> lifecycle_ok (bo_status o) st = true -> bfive st = true -> bo_place_out o = false -> BI (bset o st).
Proof.
  intros [P L F Q] Hl Hf Hp. constructor; cbn [bset bo_log bo_status bo_place_out bo_bet bo_upd_out bo_can_out].
  - rewrite lpath_app, P, L, Hl. reflexivity.
  - apply last_last.
  - exact Hf.
  - intros Hc. congruence.
Qed.
Lemma BI_bcount o u c : BI o -> bo_place_out o = false -> BI (bcount o u c).
Proof. intros [P L F Q] Hp. constructor; cbn; try assumption. intros Hc. congruence. Qed.
Lemma BI_breset o : BI o -> bo_place_out o = false -> BI (breset o).
Proof.
  intros H Hp. unfold breset. destruct (status_eqb (bo_status o) SExecComplete) eqn:E; [exact H|].
  apply BI_bset; [exact H| |reflexivity|exact Hp]. pose proof (bi_five o H) as F. destruct (bo_status o); try discriminate; reflexivity.
Qed.

Theorem bstep_BI o e : BI o -> BI (bstep o e).
Proof.
  intros H. pose proof (bi_five o H) as F. pose proof (bi_place o H) as Q.
  destruct e as [ok| |final seqnew| | |err| |returned| ]; cbn [bstep].
  - destruct (bo_place_out o) eqn:Ep; [|exact H]. destruct (Q eq_refl) as (Hs & Hb & Hu & Hc).
    assert (HA : forall b, BI (banswered o b)).
    { intros b. destruct H as [P L F' Q']. constructor; cbn; try assumption. intros Hx. discriminate. }
    destruct ok; (apply BI_bset; [apply HA| |reflexivity|reflexivity]); change (bo_status (banswered o ?b)) with (bo_status o); rewrite Hs; reflexivity.
  - destruct (bo_place_out o) eqn:Ep; [|exact H]. destruct (Q eq_refl) as (Hs & Hb & Hu & Hc).
    assert (HA : forall b, BI (banswered o b)).
    { intros b. destruct H as [P L F' Q']. constructor; cbn; try assumption. intros Hx. discriminate. }
    apply BI_bset; [apply HA| |reflexivity|reflexivity]. change (bo_status (banswered o (bo_bet o))) with (bo_status o). rewrite Hs. reflexivity.
  - assert (Hp : bo_status o <> SPending \/ bo_bet o = true -> bo_place_out o = false).
    { intros Hx. destruct (bo_place_out o) eqn:Ep; [|reflexivity]. destruct (Q eq_refl) as (Hs & Hb & _). destruct Hx; congruence. }
    destruct (bo_status o) eqn:Es; try exact H.
    + destruct (bo_bet o) eqn:Eb; [|exact H]. apply BI_bset; [exact H|rewrite Es; destruct final; reflexivity|destruct final; reflexivity|apply Hp; right; reflexivity].
    + destruct seqnew; [|exact H]. apply BI_bset; [exact H|rewrite Es; destruct final; reflexivity|destruct final; reflexivity|apply Hp; left; discriminate].
    + destruct final; [|exact H]. apply BI_bset; [exact H|rewrite Es; reflexivity|reflexivity|apply Hp; left; discriminate].
  - destruct (status_eqb (bo_status o) SExecutable && bo_bet o) eqn:E; [|exact H]. apply andb_true_iff in E as [E1 E2].
    assert (Hs : bo_status o = SExecutable) by (destruct (bo_status o); try discriminate; reflexivity).
    assert (Hp : bo_place_out o = false) by (destruct (bo_place_out o) eqn:Ep; [destruct (Q eq_refl) as (Hx & _); congruence|reflexivity]).
    apply BI_bcount; [|exact Hp]. apply BI_bset; [exact H|rewrite Hs; reflexivity|reflexivity|exact Hp].
  - destruct (status_eqb (bo_status o) SExecutable && bo_bet o) eqn:E; [|exact H]. apply andb_true_iff in E as [E1 E2].
    assert (Hs : bo_status o = SExecutable) by (destruct (bo_status o); try discriminate; reflexivity).
    assert (Hp : bo_place_out o = false) by (destruct (bo_place_out o) eqn:Ep; [destruct (Q eq_refl) as (Hx & _); congruence|reflexivity]).
    apply BI_bcount; [|exact Hp]. apply BI_bset; [exact H|rewrite Hs; reflexivity|reflexivity|exact Hp].
  - destruct (bo_upd_out o) as [|n] eqn:En; [exact H|].
    assert (Hp : bo_place_out o = false) by (destruct (bo_place_out o) eqn:Ep; [destruct (Q eq_refl) as (_ & _ & Hx & _); congruence|reflexivity]).
    destruct err; [apply BI_breset; [apply BI_bcount; assumption|exact Hp]|apply BI_bcount; assumption].
  - destruct (bo_upd_out o) as [|n] eqn:En; [exact H|].
    assert (Hp : bo_place_out o = false) by (destruct (bo_place_out o) eqn:Ep; [destruct (Q eq_refl) as (_ & _ & Hx & _); congruence|reflexivity]).
    apply BI_breset; [apply BI_bcount; assumption|exact Hp].
  - destruct (bo_can_out o) as [|n] eqn:En; [exact H|].
    assert (Hp : bo_place_out o = false) by (destruct (bo_place_out o) eqn:Ep; [destruct (Q eq_refl) as (_ & _ & _ & Hx); congruence|reflexivity]).
    destruct returned; [|apply BI_breset; [apply BI_bcount; assumption|exact Hp]].
    apply BI_bset; [apply BI_bcount; assumption| |reflexivity|exact Hp]. cbn. destruct (bo_status o); try discriminate; reflexivity.
  - destruct (bo_can_out o) as [|n] eqn:En; [exact H|].
    assert (Hp : bo_place_out o = false) by (destruct (bo_place_out o) eqn:Ep; [destruct (Q eq_refl) as (_ & _ & _ & Hx); congruence|reflexivity]).
    apply BI_breset; [apply BI_bcount; assumption|exact Hp].
Qed.

Lemma BI_fresh : BI bfresh.
Proof. constructor; cbn; try reflexivity. intros _. repeat split; reflexivity. Qed.

Theorem brun_BI : forall es o, BI o -> BI (fold_left bstep es o).
Proof. induction es as [|e es IH]; intros o H; cbn [fold_left]; [exact H|]. apply IH. apply bstep_BI. exact H. Qed.

(* every status log of a BetdaqOrder is a path of the documented lifecycle ending in its status *)
Theorem betdaq_lifecycle_legal es : lifecycle_path SNone (bo_log (brun es)) = true /\ last (bo_log (brun es)) SNone = bo_status (brun es).
Proof. pose proof (brun_BI es bfresh BI_fresh) as H. split; [apply (bi_path _ H)|apply (bi_last _ H)]. Qed.

(* finality: whatever happens after an order has been reported complete, it stays complete *)
Lemma bstep_final o e : BI o -> bo_status o = SExecComplete -> bo_status (bstep o e) = SExecComplete.
Proof.
  intros H Hs. assert (Hp : bo_place_out o = false) by (destruct (bo_place_out o) eqn:Ep; [destruct (bi_place o H Ep) as (Hx & _); congruence|reflexivity]).
  assert (R : forall x, bo_status x = SExecComplete -> bo_status (breset x) = SExecComplete) by (intros x Hx; unfold breset; rewrite Hx; cbn; exact Hx).
  destruct e as [ok| |final seqnew| | |err| |returned| ]; cbn [bstep]; rewrite ?Hp; try exact Hs.
  - rewrite Hs. exact Hs.
  - rewrite Hs. cbn. exact Hs.
  - rewrite Hs. cbn. exact Hs.
  - destruct (bo_upd_out o); [exact Hs|]. destruct err; [apply R; exact Hs|exact Hs].
  - destruct (bo_upd_out o); [exact Hs|]. apply R. exact Hs.
  - destruct (bo_can_out o); [exact Hs|]. destruct returned; [reflexivity|apply R; exact Hs].
  - destruct (bo_can_out o); [exact Hs|]. apply R. exact Hs.
Qed.
Theorem betdaq_complete_is_final es1 es2 : bo_status (brun es1) = SExecComplete -> bo_status (brun (es1 ++ es2)) = SExecComplete.
Proof.
  unfold brun. rewrite fold_left_app. generalize (brun_BI es1 bfresh BI_fresh). unfold brun. generalize (fold_left bstep es1 bfresh). intros o H Hs.
  revert o H Hs. induction es2 as [|e es IH]; intros o H Hs; cbn [fold_left]; [exact Hs|]. apply IH; [apply bstep_BI; exact H|apply bstep_final; assumption].
Qed.

(* a request on an order that does not rest Executable with a bet id changes nothing *)
Theorem betdaq_request_rejected o : bo_status o <> SExecutable \/ bo_bet o = false -> bstep o BReqUpdate = o /\ bstep o BReqCancel = o.
Proof.
  intros H. cbn [bstep]. assert (E : status_eqb (bo_status o) SExecutable && bo_bet o = false).
  { destruct H as [H|H]; [destruct (bo_status o); try reflexivity; contradiction|rewrite H; apply andb_false_r]. }
  rewrite E. split; reflexivity.
Qed.

(* ---- third session: history monotonicity of the same machine ---- *)

(* the status log is append-only: one event appends at most one entry and never rewrites what is there *)
Lemma bstep_log_grows o e : exists l, bo_log (bstep o e) = bo_log o ++ l /\ (length l <= 1)%nat.
Proof.
  assert (Z0 : exists l, bo_log o = bo_log o ++ l /\ (length l <= 1)%nat) by (exists []; rewrite app_nil_r; split; [reflexivity|cbn; lia]).
  assert (R : forall x, bo_log x = bo_log o -> exists l, bo_log (breset x) = bo_log o ++ l /\ (length l <= 1)%nat).
  { intros x Hx. unfold breset. destruct (status_eqb (bo_status x) SExecComplete); [rewrite Hx; exact Z0|]. cbn [bset bo_log]. rewrite Hx. eexists; split; [reflexivity|cbn; lia]. }
  assert (S1 : forall x st, bo_log x = bo_log o -> exists l, bo_log (bset x st) = bo_log o ++ l /\ (length l <= 1)%nat).
  { intros x st Hx. cbn [bset bo_log]. rewrite Hx. eexists; split; [reflexivity|cbn; lia]. }
  destruct e as [ok| |final seqnew| | |err| |returned| ]; cbn [bstep].
  - destruct (bo_place_out o); [|exact Z0]. destruct ok; apply S1; reflexivity.
  - destruct (bo_place_out o); [|exact Z0]. apply S1; reflexivity.
  - destruct (bo_status o); try exact Z0.
    + destruct (bo_bet o); [apply S1; reflexivity|exact Z0].
    + destruct seqnew; [apply S1; reflexivity|exact Z0].
    + destruct final; [apply S1; reflexivity|exact Z0].
  - destruct (status_eqb (bo_status o) SExecutable && bo_bet o); [|exact Z0]. cbn [bcount bo_log]. apply S1; reflexivity.
  - destruct (status_eqb (bo_status o) SExecutable && bo_bet o); [|exact Z0]. cbn [bcount bo_log]. apply S1; reflexivity.
  - destruct (bo_upd_out o); [exact Z0|]. destruct err; [apply R; reflexivity|exact Z0].
  - destruct (bo_upd_out o); [exact Z0|]. apply R; reflexivity.
  - destruct (bo_can_out o); [exact Z0|]. destruct returned; [apply S1; reflexivity|apply R; reflexivity].
  - destruct (bo_can_out o); [exact Z0|]. apply R; reflexivity.
Qed.
Theorem betdaq_log_append_only es1 es2 : exists l, bo_log (brun (es1 ++ es2)) = bo_log (brun es1) ++ l /\ (length l <= length es2)%nat.
Proof.
  unfold brun. rewrite fold_left_app. generalize (fold_left bstep es1 bfresh). intros o.
  revert o. induction es2 as [|e es IH]; intros o; cbn [fold_left].
  - exists []. rewrite app_nil_r. split; [reflexivity|cbn; lia].
  - destruct (bstep_log_grows o e) as (l1 & E1 & L1). destruct (IH (bstep o e)) as (l2 & E2 & L2).
    exists (l1 ++ l2). rewrite E2, E1, app_assoc. split; [reflexivity|]. rewrite app_length. cbn [length]. lia.
Qed.

(* the id the exchange gave the order is never lost again, whatever answers and poll rows arrive later *)
Lemma bstep_keeps_bet o e : bo_bet o = true -> bo_bet (bstep o e) = true.
Proof.
  intros Hb.
  assert (R : forall x, bo_bet x = true -> bo_bet (breset x) = true) by (intros x Hx; unfold breset; destruct (status_eqb (bo_status x) SExecComplete); [exact Hx|exact Hx]).
  destruct e as [ok| |final seqnew| | |err| |returned| ]; cbn [bstep].
  - destruct (bo_place_out o); [|exact Hb]. destruct ok; [reflexivity|exact Hb].
  - destruct (bo_place_out o); [|exact Hb]. exact Hb.
  - destruct (bo_status o); try exact Hb.
    + rewrite Hb. exact Hb.
    + destruct seqnew; exact Hb.
    + destruct final; exact Hb.
  - destruct (status_eqb (bo_status o) SExecutable && bo_bet o); exact Hb.
  - destruct (status_eqb (bo_status o) SExecutable && bo_bet o); exact Hb.
  - destruct (bo_upd_out o); [exact Hb|]. destruct err; [apply R; exact Hb|exact Hb].
  - destruct (bo_upd_out o); [exact Hb|]. apply R; exact Hb.
  - destruct (bo_can_out o); [exact Hb|]. destruct returned; [exact Hb|apply R; exact Hb].
  - destruct (bo_can_out o); [exact Hb|]. apply R; exact Hb.
Qed.
Theorem betdaq_bet_id_kept es1 es2 : bo_bet (brun es1) = true -> bo_bet (brun (es1 ++ es2)) = true.
Proof.
  unfold brun. rewrite fold_left_app. generalize (fold_left bstep es1 bfresh). intros o Hb.
  revert o Hb. induction es2 as [|e es IH]; intros o Hb; cbn [fold_left]; [exact Hb|]. apply IH. apply bstep_keeps_bet. exact Hb.
Qed.

(* while the placement has not been answered the order rests Pending without an id and with nothing else in flight: no poll row, request or stray
   answer moves it (the F-C11-3 window: rows polled in this window are dropped, which is why the order cannot move) *)
Theorem betdaq_unanswered_placement_is_pending es :
  bo_place_out (brun es) = true -> bo_status (brun es) = SPending /\ bo_bet (brun es) = false /\ bo_upd_out (brun es) = O /\ bo_can_out (brun es) = O.
Proof. intros H. exact (bi_place _ (brun_BI es bfresh BI_fresh) H). Qed.

(* a request that changes anything was made on an order resting Executable with an id, moves it to exactly the requested status and registers exactly
   one more outstanding call of its own kind *)
Theorem betdaq_request_accepted o :
  (bstep o BReqUpdate <> o -> bo_status o = SExecutable /\ bo_bet o = true /\ bo_status (bstep o BReqUpdate) = SUpdating /\
     bo_upd_out (bstep o BReqUpdate) = S (bo_upd_out o) /\ bo_can_out (bstep o BReqUpdate) = bo_can_out o) /\
  (bstep o BReqCancel <> o -> bo_status o = SExecutable /\ bo_bet o = true /\ bo_status (bstep o BReqCancel) = SCancelling /\
     bo_can_out (bstep o BReqCancel) = S (bo_can_out o) /\ bo_upd_out (bstep o BReqCancel) = bo_upd_out o).
Proof.
  cbn [bstep]. destruct (status_eqb (bo_status o) SExecutable && bo_bet o) eqn:E.
  - apply andb_true_iff in E as [E1 E2]. assert (Hs : bo_status o = SExecutable) by (destruct (bo_status o); try discriminate; reflexivity).
    split; intros _; repeat split; try assumption; reflexivity.
  - split; intros H; contradiction H; reflexivity.
Qed.

(* SimAckRunP.v — C07 over whole simulated runs, for EVERY book (removals, starting prices, suspensions included):
   an order that carries an acknowledgement time was acknowledged more than the configured latency (placement latency, or replacement
   latency for the order a replace creates) after the time its request was made; nothing in a run - matching, starting-price
   conversion, runner removal, the completion sweep, later requests - ever changes the recorded request / acknowledgement times. *)
From Coq Require Import ZArith List Bool Lia ZifyBool.
From V Require Import Model.Num Model.Status Model.Sim Model.SimLoop Proofs.NumP Proofs.SimPlaceP Proofs.SimPlaceP2 Proofs.SimIsolationP
     Proofs.SimRemovalsP Proofs.SimRunP.
Open Scope Z_scope.

Definition stamp (o : sorder) := (so_created o, so_placed o, so_repl o).

Lemma stamp_set_frags tb o fr : stamp (set_frags tb o fr) = stamp o.
Proof. unfold set_frags. destruct (wap tb fr). reflexivity. Qed.
Lemma stamp_add_frag tb o pt p s : stamp (add_frag tb o pt p s) = stamp o.
Proof. apply stamp_set_frags. Qed.
Lemma stamp_calc_traded tb pt ts o : stamp (fst (calc_traded tb pt ts o)) = stamp o.
Proof.
  unfold calc_traded. destruct (so_piq2 o <? ts); [|reflexivity]. cbv zeta. cbn [fst].
  destruct (rnd tb (zmin (2 * remaining o) (ts - so_piq2 o)) 2 =? 0); [reflexivity|].
  change (stamp (upd_sim ?x _ _ _)) with (stamp x). apply stamp_add_frag.
Qed.
Lemma stamp_process_traded tb pt : forall tr o, stamp (fst (process_traded tb pt tr o)) = stamp o.
Proof.
  induction tr as [|[tp ts] r IH]; intros o; cbn [process_traded]; [reflexivity|].
  destruct (match so_side o with Back => so_price o <=? tp | Lay => tp <=? so_price o end).
  - pose proof (stamp_calc_traded tb pt ts o) as H1. destruct (calc_traded tb pt ts o) as [o1 m]. cbn [fst] in H1.
    pose proof (IH o1) as H2. destruct (process_traded tb pt r o1) as [o2 r']. cbn [fst] in *. congruence.
  - pose proof (IH o) as H2. destruct (process_traded tb pt r o) as [o2 r']. exact H2.
Qed.
Lemma stamp_process_sp tb c pt r o : stamp (fst (process_sp tb c pt r o)) = stamp o.
Proof.
  unfold process_sp. destruct (r_sp r) as [sp|]; [|reflexivity]. destruct (sp =? 0); [reflexivity|]. cbv zeta.
  set (o' := upd_sim o (so_mver o) (so_piq2 o) true). assert (H0 : stamp o' = stamp o) by reflexivity.
  destruct (so_type o'); destruct (so_side o'); cbn [fst];
    repeat match goal with |- context [if ?c then _ else _] => destruct c end; cbn [fst]; rewrite ?stamp_add_frag; try exact H0; reflexivity.
Qed.
Lemma stamp_on_book tb c b r tr o : stamp (fst (fst (on_book tb c b r tr o))) = stamp o.
Proof.
  unfold on_book. cbv zeta.
  destruct (negb (so_bsp o) && b_bsp_rec b) eqn:E1.
  - destruct (take_sp o).
    + pose proof (stamp_process_sp tb c (b_pt b) r o) as H. destruct (process_sp tb c (b_pt b) r o) as [o1 d]. exact H.
    + set (o' := upd_sim o (so_mver o) (so_piq2 o) true). assert (H0 : stamp o' = stamp o) by reflexivity.
      destruct (so_type o'); [|exact H0|exact H0].
      set (o1 := if negb (opt_eqb Z.eqb (so_mver o') (Some (b_version b))) then upd_sim o' (Some (b_version b)) (so_piq2 o') (so_bsp o') else o').
      assert (H1 : stamp o1 = stamp o) by (unfold o1; destruct (negb (opt_eqb Z.eqb (so_mver o') (Some (b_version b)))); exact H0).
      destruct (negb (opt_eqb Z.eqb (so_mver o') (Some (b_version b))) && mstatus_eqb (b_status b) MSuspended && persist_eqb (so_persist o1) PLapse); [exact H1|].
      destruct tr as [|t0 tr0]; [exact H1|]. pose proof (stamp_process_traded tb (b_pt b) (t0 :: tr0) o1) as H.
      destruct (process_traded tb (b_pt b) (t0 :: tr0) o1) as [o2 tr']. cbn [fst] in *. rewrite H. exact H1.
  - destruct (so_type o); [|reflexivity|reflexivity].
    set (o1 := if negb (opt_eqb Z.eqb (so_mver o) (Some (b_version b))) then upd_sim o (Some (b_version b)) (so_piq2 o) (so_bsp o) else o).
    assert (H1 : stamp o1 = stamp o) by (unfold o1; destruct (negb (opt_eqb Z.eqb (so_mver o) (Some (b_version b)))); reflexivity).
    destruct (negb (opt_eqb Z.eqb (so_mver o) (Some (b_version b))) && mstatus_eqb (b_status b) MSuspended && persist_eqb (so_persist o1) PLapse); [exact H1|].
    destruct tr as [|t0 tr0]; [exact H1|]. pose proof (stamp_process_traded tb (b_pt b) (t0 :: tr0) o1) as H.
    destruct (process_traded tb (b_pt b) (t0 :: tr0) o1) as [o2 tr']. cbn [fst] in *. rewrite H. exact H1.
Qed.

Lemma stamp_removal_order tb mt b rsel adj min_adj o o' : removal_order tb mt b rsel adj min_adj o = Some o' -> stamp o' = stamp o.
Proof.
  unfold removal_order. destruct (so_sel o =? rsel).
  - intros H. inversion H; subst. change (stamp (upd_buckets ?x _ _ _)) with (stamp x). apply stamp_set_frags.
  - destruct (so_type o); destruct (so_side o); destruct adj as [a|];
      repeat match goal with
             | |- context [if ?c then _ else _] => destruct c
             | |- context [match ?mt0 with MWin => _ | _ => _ end] => destruct mt0
             | |- context [match find_runner ?x ?y with _ => _ end] => destruct (find_runner x y)
             end;
      intros H; inversion H; subst; try reflexivity;
      try (cbn [stamp so_created so_placed so_repl]; pose proof (stamp_set_frags tb o (map (fun f => {| f_pt := f_pt f; f_price := reduce_price tb (f_price f) a; f_size := f_size f |}) (so_frags o))) as E;
           unfold stamp in E; exact E).
Qed.

(* ---------- the invariant ---------- *)
Definition ackI (cf : config) (o : sorder) : Prop :=
  forall t, so_placed o = Some t -> (if so_repl o then cf_lat_replace cf else cf_lat_place cf) < t - so_created o.

Lemma ackI_stamp cf o o' : stamp o' = stamp o -> ackI cf o -> ackI cf o'.
Proof. unfold stamp, ackI. intros E H. inversion E as [[E1 E2 E3]]. rewrite E1, E2, E3. exact H. Qed.

Lemma ackI_upd_ord cf o st log cpl bet red newp pers stat_t done_t live ln ld m :
  ackI cf o -> ackI cf (upd_ord o st log cpl bet red newp pers (so_placed o) stat_t done_t live ln ld m).
Proof. apply ackI_stamp. reflexivity. Qed.
Lemma ackI_set_status cf cs now o st cl : ackI cf o -> ackI cf (set_status cs now o st cl).
Proof. apply ackI_stamp. reflexivity. Qed.
Lemma ackI_set_live cf o b0 : ackI cf o -> ackI cf (set_live o b0).
Proof. apply ackI_stamp. reflexivity. Qed.
Lemma ackI_set_upd cf o r np p : ackI cf o -> ackI cf (set_upd o r np p).
Proof. apply ackI_stamp. reflexivity. Qed.
Lemma ackI_reset_order cf cs now o : ackI cf o -> ackI cf (reset_order cs now o).
Proof. intros H. unfold reset_order. destruct (status_eqb (so_status o) SExecComplete); [exact H|apply ackI_set_status; exact H]. Qed.
Lemma ackI_unplaced cf o : so_placed o = None -> ackI cf o.
Proof. intros E t H. congruence. Qed.

(* placement keeps the stamps (the acknowledgement time is written by the execution layer afterwards) *)
Lemma stamp_buckets o c l v : stamp (upd_buckets o c l v) = stamp o.
Proof. reflexivity. Qed.
Lemma stamp_place_resp tb c o s : stamp (fst (place_resp tb c o s)) = stamp o.
Proof. unfold place_resp. destruct (c_full c && s && negb (remaining o =? 0)); [apply stamp_add_frag|reflexivity]. Qed.
Lemma stamp_price_matched tb pt sd price : forall avail rem o, stamp (price_matched tb pt sd price rem avail o) = stamp o.
Proof.
  induction avail as [|[ap asz] r IH]; intros rem o; cbn [price_matched]; [reflexivity|].
  destruct (rem =? 0); [reflexivity|]. destruct (match sd with Back => price <=? ap | Lay => ap <=? price end); [|reflexivity].
  rewrite IH. apply stamp_add_frag.
Qed.
Lemma stamp_vwap_loop tb pt sd price : forall avail rem o, stamp (vwap_loop tb pt sd price rem avail o) = stamp o.
Proof.
  induction avail as [|[ap asz] r IH]; intros rem o; cbn [vwap_loop]; [reflexivity|].
  destruct (rem =? 0); [reflexivity|]. cbv zeta. match goal with |- stamp (if ?c then _ else _) = _ => destruct c end; [|reflexivity].
  rewrite IH. apply stamp_add_frag.
Qed.
Lemma stamp_vwap_matched tb pt sd price size avail minfill o : stamp (vwap_matched tb pt sd price size avail minfill o) = stamp o.
Proof.
  unfold vwap_matched. destruct (so_matched (vwap_loop tb pt sd price size avail o) <? minfill); [|apply stamp_vwap_loop].
  change (stamp (add_cancelled ?x _)) with (stamp x). rewrite stamp_set_frags. apply stamp_vwap_loop.
Qed.
Lemma stamp_sim_place tb c ms b mv o : stamp (fst (sim_place tb c ms b mv o)) = stamp o.
Proof.
  unfold sim_place.
  destruct (negb (mstatus_eqb (b_status b) MOpen)); [rewrite stamp_place_resp; reflexivity|].
  destruct (match mv with Some v => negb (v =? 0) && negb (v =? b_version b) | None => false end); [rewrite stamp_place_resp; reflexivity|].
  destruct (find_runner b _) as [r|]; [|rewrite stamp_place_resp; reflexivity].
  destruct (match r_status r with RRemoved => true | _ => false end); [rewrite stamp_place_resp; reflexivity|].
  destruct (so_type _); [|destruct (negb (ms_bsp ms) || b_bsp_rec b || b_inplay b); rewrite stamp_place_resp; reflexivity
                          |destruct (negb (ms_bsp ms) || b_bsp_rec b || b_inplay b); rewrite stamp_place_resp; reflexivity].
  cbv zeta.
  repeat match goal with
         | |- stamp (fst (if ?c then _ else _)) = _ => destruct c
         | |- stamp (fst (match ?x with Back => _ | Lay => _ end)) = _ => destruct x
         end;
    rewrite stamp_place_resp; unfold add_cancelled, add_lapsed, add_voided;
    repeat match goal with
           | |- context [if ?c then _ else _] => destruct c
           | |- context [match piq_of ?a ?b with _ => _ end] => destruct (piq_of a b)
           end;
    rewrite ?stamp_buckets, ?stamp_vwap_matched, ?stamp_price_matched; reflexivity.
Qed.
Lemma stamp_sim_cancel b o : stamp (fst (fst (sim_cancel b o))) = stamp o.
Proof. unfold sim_cancel. destruct (negb (mstatus_eqb (b_status b) MOpen)); [reflexivity|]. destruct (so_type o); reflexivity. Qed.

(* ---------- matching, removals, sweep: every book ---------- *)
Lemma mstep_A cfi tb cf b st o0 : Forall (ackI cfi) (fst st) -> Forall (ackI cfi) (fst (mstep tb cf b st o0)).
Proof.
  intros Hos. destruct st as [os lk]. cbn [fst] in *. unfold mstep.
  destruct (get_order (so_name o0) os) as [o|] eqn:Eg; [|exact Hos].
  cbv zeta. destruct (find_runner b (so_sel o)) as [r|]; [|exact Hos].
  assert (Ho : ackI cfi o) by (unfold get_order in Eg; apply find_some in Eg as [Hin _]; rewrite Forall_forall in Hos; apply Hos; exact Hin).
  set (tr := match find (fun e => fst e =? so_sel o) lk with Some e => snd e | None => [] end).
  pose proof (stamp_on_book tb (client_of cf (so_strat o)) b r tr o) as A.
  destruct (on_book tb (client_of cf (so_strat o)) b r tr o) as [[o1 tr'] done]. cbn [fst snd] in *.
  apply Proofs.SimLiftP.Forall_upd_order; [exact Hos|].
  destruct done; [apply ackI_set_status|]; eapply ackI_stamp; eassumption.
Qed.
Lemma match_orders_A cfi tb cf b ans live os : Forall (ackI cfi) os -> Forall (ackI cfi) (match_orders tb cf b ans live os).
Proof.
  intros Hos. rewrite match_orders_fold.
  assert (G : forall l st, Forall (ackI cfi) (fst st) -> Forall (ackI cfi) (fst (fold_left (mstep tb cf b) l st))).
  { induction l as [|x r IH]; intros st Hst; cbn [fold_left]; [exact Hst|]. apply IH. apply mstep_A; assumption. }
  apply G. exact Hos.
Qed.
Theorem process_sim_orders_A cfi tb cf b ans os : Forall (ackI cfi) os -> Forall (ackI cfi) (process_sim_orders tb cf b ans os).
Proof.
  intros Hos. unfold process_sim_orders. destruct (cf_isolation cf).
  - assert (G : forall sts os0, Forall (ackI cfi) os0 ->
              Forall (ackI cfi) (fold_left (fun os1 st => let live := filter (fun o => (so_strat o =? st) && status_in (so_status o) (cf_mw_live cf)) os1 in
                                                    match live with [] => os1 | _ :: _ => match_orders tb cf b ans live os1 end) sts os0)).
    { induction sts as [|s r IH]; intros os0 H0; cbn [fold_left]; [exact H0|]. apply IH. cbv zeta.
      destruct (filter _ os0); [exact H0|apply match_orders_A; assumption]. }
    apply G. exact Hos.
  - cbv zeta. destruct (filter (fun o => so_in_live o) os) as [|l0 ls]; [exact Hos|].
    match goal with |- Forall _ (fst (fold_left ?F _ _)) => set (F0 := F) end.
    assert (G : forall l st, Forall (ackI cfi) (fst st) -> Forall (ackI cfi) (fst (fold_left F0 l st))).
    { induction l as [|x r IH]; intros st Hst; cbn [fold_left]; [exact Hst|]. apply IH.
      destruct st as [os1 lk]. unfold F0. destruct (get_order (so_name x) os1) as [o|] eqn:Eg; [|exact Hst].
      destruct (negb (status_in (so_status o) (cf_mw_live cf))); [exact Hst|].
      pose proof (mstep_A cfi tb cf b (os1, lk) x Hst) as Hm. unfold mstep in Hm. rewrite Eg in Hm. exact Hm. }
    apply G. exact Hos.
Qed.
Lemma completion_sweep_A cfi cf now os : Forall (ackI cfi) os -> Forall (ackI cfi) (completion_sweep cf now os).
Proof.
  intros H. unfold completion_sweep. rewrite Forall_forall in *. intros x Hx. apply in_map_iff in Hx. destruct Hx as [o [<- Ho]]. specialize (H o Ho).
  destruct (negb (so_in_live o)); [exact H|]. destruct (so_complete o); [apply ackI_set_live; exact H|].
  destruct (so_type o) eqn:Et; [destruct (remaining o =? 0)|destruct (so_bsp o)|destruct (so_bsp o)]; try exact H; apply ackI_set_live, ackI_set_status; exact H.
Qed.
Lemma apply_removal_A cfi (f : sorder -> option sorder) : (forall o o', f o = Some o' -> stamp o' = stamp o) ->
  forall os, Forall (ackI cfi) os -> Forall (ackI cfi) (fst (apply_removal f os)).
Proof.
  intros Hf. induction os as [|o r IH]; intros H; cbn [apply_removal]; [constructor|]. inversion H; subst.
  destruct (f o) as [o'|] eqn:E; [|exact H]. specialize (IH H3). destruct (apply_removal f r) as [r' e]. cbn [fst] in *.
  constructor; [eapply ackI_stamp; [apply Hf; exact E|assumption]|exact IH].
Qed.

Definition mktA (cfi : config) (m : market) : Prop := Forall (ackI cfi) (mk_orders m).
Definition simA (cfi : config) (s : sim) : Prop := Forall (mktA cfi) (s_markets s).

Theorem middleware_A cfi tb cf s m b : mktA cfi m ->
  s_markets (fst (middleware tb cf s m b)) = s_markets s /\ mktA cfi (snd (middleware tb cf s m b)).
Proof.
  intros Ho. rewrite middleware_unfold.
  destruct (collect (mk_id m) (b_runners b) (mk_analytics m, s_removals s, [])) as [[ans rems] newrems].
  assert (G : forall l st, Forall (ackI cfi) (fst st) ->
            Forall (ackI cfi) (fst (fold_left (fun (st : list sorder * bool) k => if snd st then st
                 else apply_removal (removal_order tb (ms_type (mk_static m)) b (fst k) (snd k) (cf_min_adj cf)) (fst st)) l st))).
  { induction l as [|k l IH]; intros st Hst; cbn [fold_left]; [exact Hst|]. apply IH. destruct (snd st); [exact Hst|].
    apply apply_removal_A; [|exact Hst]. intros o o' E. eapply stamp_removal_order. exact E. }
  unfold apply_new. specialize (G newrems (mk_orders m, false) Ho).
  destruct (fold_left _ newrems (mk_orders m, false)) as [orders1 raised]. cbn [fst snd] in *. split; [reflexivity|].
  unfold mktA. cbn [mk_orders]. destruct raised; [exact G|]. destruct (mk_active m); [apply process_sim_orders_A; exact G|exact G].
Qed.

(* ---------- packages ---------- *)
(* the side condition under which a package is executed: a placement package finds the order it was created with (same request time,
   not a replacement), and bet delays are not negative.  Evaluated on every scenario by [run_ack_guard_b]. *)
Definition ack_guard (s : sim) (p : pkg) : Prop :=
  match pk_kind p with
  | KPlace => 0 <= pk_bet_delay p /\
      forall m o, get_market (pk_market p) (s_markets s) = Some m -> get_order (pk_order p) (mk_orders m) = Some o ->
                  so_created o = pk_created p /\ so_repl o = false
  | KReplace => 0 <= pk_bet_delay p
  | _ => True
  end.

Lemma put_A cfi mid l o' : Forall (mktA cfi) l -> ackI cfi o' ->
  Forall (mktA cfi) (upd_market mid (fun m => set_orders m (upd_order (so_name o') (fun _ => o') (mk_orders m))) l).
Proof.
  intros H Ho. apply Forall_upd_market; [exact H|]. intros m Hm. unfold mktA. cbn [set_orders mk_orders].
  apply Forall_upd_order_f; [exact Hm|]. intros _ _. exact Ho.
Qed.
Lemma append_A cfi mid l o' : Forall (mktA cfi) l -> ackI cfi o' -> Forall (mktA cfi) (upd_market mid (fun m => set_orders m (mk_orders m ++ [o'])) l).
Proof.
  intros H Ho. apply Forall_upd_market; [exact H|]. intros m Hm. unfold mktA. cbn [set_orders mk_orders].
  apply Forall_app. split; [exact Hm|constructor; [exact Ho|constructor]].
Qed.

Theorem exec_pkg_A tb cf now s p : simA cf s -> due cf now p = true -> ack_guard s p -> simA cf (exec_pkg tb cf now s p).
Proof.
  intros HI Hdue Hg. unfold exec_pkg.
  destruct (get_market (pk_market p) (s_markets s)) as [m|] eqn:Em; [|exact HI].
  assert (Hm : mktA cf m) by (unfold get_market in Em; apply find_some in Em as [Hin _]; unfold simA in HI; rewrite Forall_forall in HI; apply HI; exact Hin).
  destruct (mk_book m) as [b|] eqn:Eb; [|exact HI].
  destruct (get_order (pk_order p) (mk_orders m)) as [o|] eqn:Eo; [|exact HI].
  assert (Ho : ackI cf o) by (unfold get_order in Eo; apply find_some in Eo as [Hin _]; unfold mktA in Hm; rewrite Forall_forall in Hm; apply Hm; exact Hin).
  destruct (status_eqb (so_status o) SViolation); [destruct (pk_kind p); exact HI|].
  cbv zeta. unfold simA in *. unfold due, delay_ms in Hdue. unfold ack_guard in Hg.
  destruct (pk_kind p) eqn:Ek.
  - destruct Hg as [Hbd Hg]. destruct (Hg m o Em Eo) as [Ec Er].
    pose proof (stamp_sim_place tb (client_of cf (so_strat o)) (mk_static m) b (pk_mv p) o) as HS.
    destruct (sim_place tb (client_of cf (so_strat o)) (mk_static m) b (pk_mv p) o) as [o1 ok]. cbn [fst] in HS. cbn [s_markets].
    apply put_A; [exact HI|]. unfold stamp in HS. inversion HS as [[E1 E2 E3]].
    assert (HA : ackI cf (set_bet_placed o1 (if ok then Some (s_bet s + 1) else so_bet o1) (Some now))).
    { intros t Ht. cbn in Ht. inversion Ht; subst t. cbn [set_bet_placed upd_ord so_repl so_created]. rewrite E3, Er, E1, Ec. lia. }
    destruct ok; apply ackI_set_status; exact HA.
  - pose proof (stamp_sim_cancel b o) as HS.
    destruct (sim_cancel b o) as [[o1 ok] c]. cbn [fst] in HS. cbn [s_markets]. apply put_A; [exact HI|].
    assert (H1 : ackI cf o1) by (eapply ackI_stamp; eassumption).
    destruct ok; [destruct (remaining o1 =? 0)|]; [apply ackI_set_status|apply ackI_set_status|apply ackI_reset_order]; exact H1.
  - cbn [s_markets]. apply put_A; [exact HI|apply ackI_reset_order; exact Ho].
  - destruct (status_eqb (so_status o) SExecComplete); [exact HI|].
    pose proof (stamp_sim_cancel b o) as HS.
    destruct (sim_cancel b o) as [[o1 ok] sc]. cbn [fst] in HS.
    assert (H1 : ackI cf o1) by (eapply ackI_stamp; eassumption).
    destruct ok; cbn [negb]; [|cbn [s_markets]; apply put_A; [exact HI|apply ackI_reset_order; exact H1]].
    assert (H2 : ackI cf (exec_complete (cf_complete cf) now o1)) by (apply ackI_set_status; exact H1).
    destruct (sc =? 0); [cbn [s_markets]; apply put_A; assumption|].
    match goal with |- context [sim_place tb ?c ?ms b ?mv ?r0] =>
      pose proof (stamp_sim_place tb c ms b mv r0) as HS2; destruct (sim_place tb c ms b mv r0) as [r1 okp] end.
    cbn [fst] in HS2. destruct okp; cbn [s_markets].
    + apply append_A; [apply put_A; assumption|]. apply ackI_set_status, ackI_set_live, ackI_set_status.
      unfold stamp in HS2. inversion HS2 as [[E1 E2 E3]]. cbn in E1, E3.
      intros t Ht. cbn in Ht. inversion Ht; subst t. cbn [set_bet_placed upd_ord so_repl so_created]. rewrite E3, E1. lia.
    + apply put_A; [exact HI|apply ackI_reset_order; exact H2].
Qed.

Fixpoint pkgs_ack_guard (tb : tiebreak) (cf : config) (now : Z) (ps : list pkg) (s : sim) : Prop :=
  match ps with
  | [] => True
  | p :: r => (s_aborted s = false -> ack_guard s p) /\ pkgs_ack_guard tb cf now r (if s_aborted s then s else exec_pkg tb cf now s p)
  end.

Lemma fold_exec_A tb cf now : forall ps s, simA cf s -> Forall (fun p => due cf now p = true) ps -> pkgs_ack_guard tb cf now ps s ->
  simA cf (fold_left (fun s p => if s_aborted s then s else exec_pkg tb cf now s p) ps s).
Proof.
  induction ps as [|p ps IH]; intros s HI Hd Hg; cbn [fold_left]; [exact HI|]. destruct Hg as [Hp Hr]. inversion Hd; subst.
  apply IH; [|assumption|exact Hr]. destruct (s_aborted s); [exact HI|apply exec_pkg_A; [exact HI|assumption|apply Hp; reflexivity]].
Qed.

Definition ready (cf : config) (now mid : Z) (s : sim) : list pkg := filter (fun p => (pk_market p =? mid) && due cf now p) (s_queue s).

Lemma check_pending_A tb cf now mid s : simA cf s -> pkgs_ack_guard tb cf now (ready cf now mid s) s -> simA cf (check_pending tb cf now mid s).
Proof.
  intros HI Hg. unfold check_pending, simA. cbn [s_markets]. apply fold_exec_A; [exact HI| |exact Hg].
  rewrite Forall_forall. intros p Hp. apply filter_In in Hp as [_ Hp]. apply andb_true_iff in Hp as [_ Hp]. exact Hp.
Qed.

(* ---------- requests ---------- *)
Theorem request0_A cfi cf now st mid s a : simA cfi s -> simA cfi (request0 cf now st mid s a).
Proof.
  intros HI. unfold request0. destruct (get_market mid (s_markets s)) as [m|] eqn:Em; [|exact HI].
  assert (Hos : Forall (ackI cfi) (mk_orders m)) by (unfold get_market in Em; apply find_some in Em as [Hin _]; unfold simA in HI; rewrite Forall_forall in HI; apply (HI m Hin)).
  unfold simA in *.
  assert (W : forall os, Forall (ackI cfi) os -> Forall (mktA cfi) (upd_market mid (fun m0 => set_orders m0 os) (s_markets s))).
  { intros os H. apply Forall_upd_market; [exact HI|]. intros m0 _. exact H. }
  destruct a as [name sel sd t mv|name red|name p|name price mv|mid' a']; [| | | |exact HI].
  - destruct (negb (market_open m)); [exact HI|]. cbn [s_markets]. apply W.
    apply Forall_app. split; [exact Hos|]. constructor; [|constructor]. apply ackI_set_live, ackI_set_status, ackI_unplaced. destruct t; reflexivity.
  - destruct (get_order name (mk_orders m)) as [o|]; [|exact HI].
    destruct (negb (order_validation_ok o) || negb (market_open m)); [exact HI|].
    destruct (so_bet o); [|exact HI]. destruct (so_type o); try exact HI.
    destruct (match red with Some x => negb (x =? 0) && (remaining o - x <? 0) | None => false end); [exact HI|].
    destruct (negb (status_eqb (so_status o) SExecutable)); [exact HI|]. cbn [s_markets]. apply W.
    apply Forall_upd_order_f; [exact Hos|]. intros o' Ho'. apply ackI_set_status, ackI_set_upd. exact Ho'.
  - destruct (get_order name (mk_orders m)) as [o|]; [|exact HI].
    destruct (negb (order_validation_ok o) || negb (market_open m)); [exact HI|].
    destruct (so_bet o); [|exact HI]. destruct (so_type o); try exact HI.
    destruct (persist_eqb (so_persist o) p); [exact HI|].
    destruct (negb (status_eqb (so_status o) SExecutable)); [exact HI|]. cbn [s_markets]. apply W.
    apply Forall_upd_order_f; [exact Hos|]. intros o' Ho'. apply ackI_set_status, ackI_set_upd. exact Ho'.
  - destruct (get_order name (mk_orders m)) as [o|]; [|exact HI].
    destruct (negb (order_validation_ok o) || negb (market_open m)); [exact HI|].
    destruct (so_bet o); [|exact HI].
    destruct (so_type o); try exact HI;
    (destruct (so_price o =? price); [exact HI|]; destruct (negb (status_eqb (so_status o) SExecutable)); [exact HI|];
     cbn [s_markets]; apply W; apply Forall_upd_order_f; [exact Hos|]; intros o' Ho'; apply ackI_set_status, ackI_set_upd; exact Ho').
Qed.
Theorem request_A cfi cf now st mid s a : simA cfi s -> simA cfi (request cf now st mid s a).
Proof. intros HI. unfold request. destruct a; apply request0_A; exact HI. Qed.
Lemma strategies_A cfi cf now mid (f : Z -> list action) : forall sts s, simA cfi s ->
  simA cfi (fold_left (fun s st => fold_left (request cf now st mid) (f st) s) sts s).
Proof.
  induction sts as [|st sts IH]; intros s HI; cbn [fold_left]; [exact HI|]. apply IH.
  generalize (f st). intros acts. revert s HI. induction acts as [|a acts IHa]; intros s HI; cbn [fold_left]; [exact HI|]. apply IHa. apply request_A. exact HI.
Qed.

(* ---------- one event, whole runs: NO condition on the books ---------- *)
Definition step_ack_guard (tb : tiebreak) (cf : config) (s : sim) (e : event) : Prop :=
  s_aborted s = false ->
  match s_queue s with [] => True | _ => pkgs_ack_guard tb cf (b_pt (ev_book e)) (ready cf (b_pt (ev_book e)) (ev_market e) s) s end.

Theorem step_A tb cf n sc s e : simA cf s -> step_ack_guard tb cf s e -> simA cf (step tb cf n sc s e).
Proof.
  intros HI Hg. unfold step. destruct (s_aborted s) eqn:Eab; [exact HI|].
  set (s1 := match s_queue s with [] => s | _ => check_pending tb cf (b_pt (ev_book e)) (ev_market e) s end).
  assert (H1 : simA cf s1) by (subst s1; specialize (Hg Eab); destruct (s_queue s); [exact HI|apply check_pending_A; assumption]).
  destruct (s_aborted s1); [exact H1|].
  destruct (get_market (ev_market e) (s_markets s1)) as [m|] eqn:Em; [|exact H1].
  assert (Hm : mktA cf m) by (unfold get_market in Em; apply find_some in Em as [Hin _]; unfold simA in H1; rewrite Forall_forall in H1; apply H1; exact Hin).
  destruct (mstatus_eqb (b_status (ev_book e)) MClosed).
  - destruct (mk_seen m); [|exact H1]. unfold simA. cbn [s_markets]. apply Forall_upd_market; [exact H1|]. intros m' Hm'. exact Hm'.
  - match goal with |- context [middleware tb cf s1 ?m0 ?b] =>
      assert (Hm0 : mktA cf m0) by exact Hm;
      pose proof (middleware_A cf tb cf s1 m0 b Hm0) as [E2 Hm1]; destruct (middleware tb cf s1 m0 b) as [s2 m1] end.
    cbn [fst snd] in E2, Hm1.
    apply strategies_A. unfold simA. cbn [s_markets]. rewrite E2.
    apply Forall_upd_market; [exact H1|]. intros _ _.
    destruct (mk_active m1); [|exact Hm1]. unfold mktA. cbn [set_orders mk_orders]. apply completion_sweep_A. exact Hm1.
Qed.

Fixpoint run_ack_guard (tb : tiebreak) (cf : config) (n : Z) (sc : script) (es : list event) (s : sim) : Prop :=
  match es with [] => True | e :: r => step_ack_guard tb cf s e /\ run_ack_guard tb cf n sc r (step tb cf n sc s e) end.

Theorem run_A tb cf n sc : forall es s, simA cf s -> run_ack_guard tb cf n sc es s -> simA cf (fold_left (step tb cf n sc) es s).
Proof.
  induction es as [|e es IH]; intros s HI Hg; cbn [fold_left]; [exact HI|].
  destruct Hg as [Hg1 Hg2]. apply IH; [apply step_A; assumption|assumption].
Qed.

(* ---------- boolean side condition (Model/SimGuard.v) ---------- *)
From V Require Import Model.SimGuard.

Lemma ack_guard_b_sound s p : ack_guard_b s p = true -> ack_guard s p.
Proof.
  unfold ack_guard_b, ack_guard. destruct (pk_kind p); intros H; try exact I; [|lia].
  apply andb_true_iff in H as [H1 H2]. split; [lia|]. intros m o Em Eo. rewrite Em, Eo in H2. apply andb_true_iff in H2 as [A B].
  split; [lia|destruct (so_repl o); [discriminate|reflexivity]].
Qed.
Lemma pkgs_ack_guard_b_sound tb cf now : forall ps s, pkgs_ack_guard_b tb cf now ps s = true -> pkgs_ack_guard tb cf now ps s.
Proof.
  induction ps as [|p ps IH]; intros s H; cbn [pkgs_ack_guard_b pkgs_ack_guard] in *; [exact I|].
  apply andb_true_iff in H as [H1 H2]. split; [|apply IH; exact H2]. intros Ea. rewrite Ea in H1. apply ack_guard_b_sound. exact H1.
Qed.
Lemma step_ack_guard_b_sound tb cf s e : step_ack_guard_b tb cf s e = true -> step_ack_guard tb cf s e.
Proof.
  unfold step_ack_guard_b, step_ack_guard, ready. intros H Ea. rewrite Ea in H. cbn [orb] in H.
  destruct (s_queue s); [exact I|apply pkgs_ack_guard_b_sound; exact H].
Qed.
Lemma run_ack_guard_b_sound tb cf n sc : forall es s, run_ack_guard_b tb cf n sc es s = true -> run_ack_guard tb cf n sc es s.
Proof.
  induction es as [|e es IH]; intros s H; cbn [run_ack_guard_b run_ack_guard] in *; [exact I|].
  apply andb_true_iff in H as [H1 H2]. split; [apply step_ack_guard_b_sound; exact H1|apply IH; exact H2].
Qed.

(* C07 over whole runs: any books, any script *)
Theorem run_ack_after_latency tb cf n sc es s m o t :
  (forall m0, In m0 (s_markets s) -> mk_orders m0 = []) -> run_ack_guard_b tb cf n sc es s = true ->
  In m (s_markets (fold_left (step tb cf n sc) es s)) -> In o (mk_orders m) -> so_placed o = Some t ->
  (if so_repl o then cf_lat_replace cf else cf_lat_place cf) < t - so_created o.
Proof.
  intros H0 Hg Hm Ho Ht.
  assert (HI : simA cf s) by (unfold simA; rewrite Forall_forall; intros m0 Hm0; unfold mktA; rewrite (H0 m0 Hm0); constructor).
  pose proof (run_A tb cf n sc es s HI (run_ack_guard_b_sound tb cf n sc es s Hg)) as H. unfold simA in H. rewrite Forall_forall in H.
  specialize (H m Hm). unfold mktA in H. rewrite Forall_forall in H. exact (H o Ho t Ht).
Qed.

(* SimRunP.v — C04 over whole simulated runs: every limit order of every market stays "sound"
   (positive fragments summing to the matched size; remaining, cancelled, lapsed, voided all non-negative, i.e.
   size = matched + remaining + cancelled + lapsed + voided with five non-negative terms) after every event of a run
   whose books show no removed runner and no reconciled starting price. *)
From Coq Require Import ZArith List Bool Lia ZifyBool.
From V Require Import Model.Num Model.Status Model.Sim Model.SimLoop Proofs.NumP Proofs.SimPlaceP Proofs.SimPlaceP2 Proofs.SimTradedP
     Proofs.SimBucketsP Proofs.SimIsolationP Proofs.SimLiftP Proofs.SimRemovalsP.
Open Scope Z_scope.

Definition soundL (o : sorder) : Prop := good o /\ 0 < so_price o /\ 0 <= so_piq2 o.
Definition sound (o : sorder) : Prop := so_type o = TLimit -> soundL o.
Definition red_ok (o : sorder) : Prop := match so_red o with Some x => 0 <= x | None => True end.

Lemma soundL_okL o : soundL o -> okL o.
Proof. intros ((T & P & M & R & _) & Hp & Hq). repeat split; assumption. Qed.
Lemma okL_soundL o : okL o -> 0 <= so_cancelled o -> 0 <= so_lapsed o -> 0 <= so_voided o -> soundL o.
Proof. intros ((P & M & T & Hp) & R & Hq) C L V. repeat split; assumption. Qed.

(* the conservation equation, for the record *)
Lemma soundL_conserved o : soundL o ->
  so_size o = so_matched o + remaining o + so_cancelled o + so_lapsed o + so_voided o /\
  0 <= so_matched o /\ 0 <= remaining o /\ 0 <= so_cancelled o /\ 0 <= so_lapsed o /\ 0 <= so_voided o /\
  so_matched o = frag_sum (so_frags o).
Proof.
  intros (G & _). destruct (good_conserved o G) as (E & Hm & Hr). destruct G as (T & P & M & R & C & L & V).
  repeat split; assumption.
Qed.

(* ---------- field facts ---------- *)
Lemma add_frag_misc tb o pt p s : so_price (add_frag tb o pt p s) = so_price o /\ so_piq2 (add_frag tb o pt p s) = so_piq2 o.
Proof. unfold add_frag, set_frags. destruct (wap tb _). cbn. split; reflexivity. Qed.

Lemma soundL_add_frag tb o pt p s : soundL o -> 0 < p -> 0 < s <= remaining o ->
  soundL (add_frag tb o pt p s) /\ remaining (add_frag tb o pt p s) = remaining o - s.
Proof.
  intros (G & Hp & Hq) Hpp Hs. destruct (good_add_frag tb o pt p s G Hpp Hs) as (G' & _ & R' & _).
  destruct (add_frag_misc tb o pt p s) as [E1 E2]. split; [|exact R']. split; [exact G'|]. rewrite E1, E2. split; assumption.
Qed.

Lemma soundL_upd_sim o mv piq bsp : soundL o -> 0 <= piq -> soundL (upd_sim o mv piq bsp).
Proof.
  intros ((T & P & M & R & C & L & V) & Hp & Hq) Hpq. unfold soundL, good, remaining in *.
  cbn [upd_sim so_frags so_matched so_type so_price so_size so_cancelled so_lapsed so_voided so_piq2] in *. repeat split; assumption.
Qed.

Lemma soundL_buckets o c l v : soundL o -> 0 <= c -> 0 <= l -> 0 <= v ->
  c + l + v <= remaining o + so_cancelled o + so_lapsed o + so_voided o -> soundL (upd_buckets o c l v).
Proof. intros (G & Hp & Hq) Hc Hl Hv Hs. split; [apply good_buckets; assumption|]. cbn. split; assumption. Qed.

Lemma soundL_add_cancelled_all o : soundL o -> soundL (add_cancelled o (remaining o)) /\ remaining (add_cancelled o (remaining o)) = 0.
Proof.
  intros H. pose proof H as ((T & P & M & R & C & L & V) & _). split; [apply soundL_buckets; try assumption; lia|apply rem_add_cancelled; exact T].
Qed.
Lemma soundL_add_lapsed_all o : soundL o -> soundL (add_lapsed o (remaining o)) /\ remaining (add_lapsed o (remaining o)) = 0.
Proof.
  intros H. pose proof H as ((T & P & M & R & C & L & V) & _). split; [apply soundL_buckets; try assumption; lia|apply rem_add_lapsed; exact T].
Qed.
Lemma soundL_add_voided_all o : soundL o -> soundL (add_voided o (remaining o)) /\ remaining (add_voided o (remaining o)) = 0.
Proof.
  intros H. pose proof H as ((T & P & M & R & C & L & V) & _). split; [apply soundL_buckets; try assumption; lia|apply rem_add_voided; exact T].
Qed.

(* ---------- arrival: matching against the ladder ---------- *)
Lemma price_matched_sound tb pt sd price : forall avail rem o,
  soundL o -> 0 <= rem <= remaining o -> wf_ladder avail -> soundL (price_matched tb pt sd price rem avail o).
Proof.
  induction avail as [|[ap asz] r IH]; intros rem o Ho Hrem Hwf; cbn [price_matched]; [exact Ho|].
  inversion Hwf as [|? ? [Hp Hs] Hr]; subst. cbn in Hp, Hs.
  destruct (rem =? 0) eqn:E0; [exact Ho|].
  destruct (match sd with Back => price <=? ap | Lay => ap <=? price end); [|exact Ho].
  rewrite zmax_spec.
  assert (Hm : 0 < (if Z.max (rem - asz) 0 =? 0 then rem else asz) <= remaining o) by (destruct (Z.max (rem - asz) 0 =? 0) eqn:E; lia).
  destruct (soundL_add_frag tb o pt ap _ Ho Hp Hm) as [Ho' Hr'].
  apply IH; [exact Ho'| |exact Hr]. rewrite Hr'. destruct (Z.max (rem - asz) 0 =? 0) eqn:E; lia.
Qed.

Lemma vwap_loop_sound tb pt sd price : forall avail rem o,
  soundL o -> 0 <= rem <= remaining o -> wf_ladder avail -> soundL (vwap_loop tb pt sd price rem avail o).
Proof.
  induction avail as [|[ap asz] r IH]; intros rem o Ho Hrem Hwf; cbn [vwap_loop]; [exact Ho|].
  inversion Hwf as [|? ? [Hp Hs] Hr]; subst. cbn in Hp, Hs.
  destruct (rem =? 0) eqn:E0; [exact Ho|]. cbv zeta.
  match goal with |- soundL (if ?c then _ else _) => destruct c end; [|exact Ho].
  rewrite zmax_spec.
  assert (Hm : 0 < (if Z.max (rem - asz) 0 =? 0 then rem else asz) <= remaining o) by (destruct (Z.max (rem - asz) 0 =? 0) eqn:E; lia).
  destruct (soundL_add_frag tb o pt ap _ Ho Hp Hm) as [Ho' Hr'].
  apply IH; [exact Ho'| |exact Hr]. rewrite Hr'. destruct (Z.max (rem - asz) 0 =? 0) eqn:E; lia.
Qed.

Lemma soundL_clear_frags tb o : soundL o -> soundL (set_frags tb o []).
Proof.
  intros ((T & P & M & R & C & L & V) & Hp & Hq).
  destruct (set_frags_fields tb o []) as (F&S&Cc&Ll&Vv&Tt&Pp&Sd&Mm&A).
  assert (Hq' : so_piq2 (set_frags tb o []) = so_piq2 o) by (unfold set_frags; destruct (wap tb []); reflexivity).
  assert (M0 : so_matched (set_frags tb o []) = 0) by (rewrite Mm; reflexivity).
  assert (Hm : 0 <= so_matched o).
  { rewrite M. clear -P. unfold frag_sum. induction (so_frags o) as [|f r IH]; simpl; [lia|]. inversion P as [|? ? [Hs _] Hr]; subst. specialize (IH Hr). lia. }
  unfold soundL, good, remaining in *. rewrite Tt, F, S, Cc, Ll, Vv, Pp, Hq', M0, T in *.
  repeat split; try assumption; try constructor; try reflexivity; lia.
Qed.

Lemma vwap_matched_sound tb pt sd price size avail minfill o :
  soundL o -> 0 <= size <= remaining o -> wf_ladder avail -> soundL (vwap_matched tb pt sd price size avail minfill o).
Proof.
  intros Ho Hs Hwf. unfold vwap_matched. pose proof (vwap_loop_sound tb pt sd price avail size o Ho Hs Hwf) as H1.
  destruct (so_matched (vwap_loop tb pt sd price size avail o) <? minfill); [|exact H1].
  apply soundL_add_cancelled_all. apply soundL_clear_frags. exact H1.
Qed.

Lemma place_resp_sound tb c o s : soundL o -> soundL (fst (place_resp tb c o s)).
Proof.
  intros Ho. unfold place_resp. destruct (c_full c && s && negb (remaining o =? 0)) eqn:E; [|exact Ho]. cbn [fst].
  pose proof Ho as ((_ & _ & _ & R & _) & Hp & _).
  apply soundL_add_frag; [exact Ho|exact Hp|]. apply andb_true_iff in E as [_ E]. lia.
Qed.

(* SimulatedOrder.place on an order that has not been placed before, on EVERY path: market not open, stale market version,
   removed runner, fill-or-kill (all branches), best-price execution off, match on arrival, rest in the queue, full-match clients *)
Definition untouched (o : sorder) : Prop :=
  so_frags o = [] /\ so_matched o = 0 /\ so_cancelled o = 0 /\ so_lapsed o = 0 /\ so_voided o = 0.

Lemma untouched_soundL o : untouched o -> so_type o = TLimit -> 0 <= so_size o -> 0 < so_price o -> 0 <= so_piq2 o ->
  soundL o /\ remaining o = so_size o.
Proof.
  intros (F & M & C & L & V) T Hs Hp Hq. unfold soundL, good, remaining. rewrite T, F, M, C, L, V.
  split; [|lia]. repeat split; try lia; try assumption. constructor.
Qed.

Definition wf_runner (r : runner) : Prop := wf_ladder (r_atb r) /\ wf_ladder (r_atl r).

Lemma piq_of_nonneg price : forall l s, wf_ladder l -> piq_of price l = Some s -> 0 <= s.
Proof.
  induction l as [|[p q] r IH]; intros s Hwf H; cbn [piq_of] in H; [discriminate|].
  inversion Hwf as [|? ? [_ Hq] Hr]; subst. cbn in Hq. destruct (p =? price); [inversion H; subst; lia|apply IH; assumption].
Qed.

Theorem sim_place_sound tb c ms b mv o :
  so_type o = TLimit -> untouched o -> 0 <= so_size o -> 0 < so_price o -> 0 <= so_piq2 o ->
  (forall r, find_runner b (so_sel o) = Some r -> wf_runner r) ->
  soundL (fst (sim_place tb c ms b mv o)).
Proof.
  intros T U Hs Hp Hq Hwf. destruct (untouched_soundL o U T Hs Hp Hq) as [Ho Hrem].
  unfold sim_place.
  destruct (negb (mstatus_eqb (b_status b) MOpen)); [apply place_resp_sound, soundL_add_voided_all; exact Ho|].
  set (o1 := upd_sim o (Some (b_version b)) (so_piq2 o) (so_bsp o)).
  assert (H1 : soundL o1) by (apply soundL_upd_sim; assumption).
  destruct (upd_sim_fields o (Some (b_version b)) (so_piq2 o) (so_bsp o)) as (F1&M1&T1&Rm1&S1&C1&L1&V1&P1&Sd1&A1).
  fold o1 in F1, M1, T1, Rm1, S1, C1, L1, V1, P1, Sd1, A1.
  destruct (match mv with Some v => negb (v =? 0) && negb (v =? b_version b) | None => false end);
    [apply place_resp_sound, soundL_add_lapsed_all; exact H1|].
  change (so_sel o1) with (so_sel o).
  destruct (find_runner b (so_sel o)) as [r|] eqn:Er; [|apply place_resp_sound; exact H1].
  destruct (Hwf r eq_refl) as [Wb Wl].
  destruct (match r_status r with RRemoved => true | _ => false end); [apply place_resp_sound, soundL_add_voided_all; exact H1|].
  rewrite T1, T. cbv zeta.
  assert (Hsz : 0 <= so_size o1 <= remaining o1) by (rewrite Rm1, S1, Hrem; lia).
  destruct (so_fok o1 && negb (so_repl o1) && (so_size o1 <? _)); [apply place_resp_sound, soundL_add_cancelled_all; exact H1|].
  assert (PM : forall sd avail, wf_ladder avail -> soundL (price_matched tb (b_pt b) sd (so_price o1) (so_size o1) avail o1))
    by (intros; apply price_matched_sound; assumption).
  assert (Q : forall l, wf_ladder l -> soundL (match piq_of (so_price o1) l with Some s => upd_sim o1 (so_mver o1) (2 * s) (so_bsp o1) | None => o1 end)).
  { intros l Hl. destruct (piq_of (so_price o1) l) as [s|] eqn:E; [|exact H1]. apply soundL_upd_sim; [exact H1|]. pose proof (piq_of_nonneg _ _ _ Hl E). lia. }
  destruct (so_side o1).
  - destruct (negb (c_bpe c) && (so_price o1 <? first_price (r_atb r) 10100)); [apply place_resp_sound, soundL_add_lapsed_all; exact H1|].
    destruct (so_fok o1 && negb (so_repl o1)).
    + destruct (first_price (r_atb r) 10100 <? so_price o1); [apply place_resp_sound, soundL_add_cancelled_all; exact H1|].
      destruct (so_price o1 =? first_price (r_atb r) 10100).
      * apply place_resp_sound, soundL_add_cancelled_all. destruct (_ <=? first_size (r_atb r)); [apply PM; exact Wb|exact H1].
      * apply place_resp_sound, soundL_add_cancelled_all. apply vwap_matched_sound; assumption.
    + destruct (so_price o1 <=? first_price (r_atb r) 10100); [apply place_resp_sound, PM; exact Wb|].
      apply place_resp_sound, Q; exact Wl.
  - destruct (negb (c_bpe c) && (first_price (r_atl r) 10000000 <? so_price o1)); [apply place_resp_sound, soundL_add_lapsed_all; exact H1|].
    destruct (so_fok o1 && negb (so_repl o1)).
    + destruct (so_price o1 <? first_price (r_atl r) 10000000); [apply place_resp_sound, soundL_add_cancelled_all; exact H1|].
      destruct (so_price o1 =? first_price (r_atl r) 10000000).
      * apply place_resp_sound, soundL_add_cancelled_all. destruct (_ <=? first_size (r_atl r)); [apply PM; exact Wl|exact H1].
      * apply place_resp_sound, soundL_add_cancelled_all. apply vwap_matched_sound; assumption.
    + destruct (first_price (r_atl r) 10000000 <=? so_price o1); [apply place_resp_sound, PM; exact Wl|].
      apply place_resp_sound, Q; exact Wb.
Qed.

(* ====================== the state invariant ====================== *)
Definition newp_ok (o : sorder) : Prop := match so_newprice o with Some x => 0 < x | None => True end.
Definition ordI (o : sorder) : Prop := sound o /\ red_ok o /\ newp_ok o.

Definition wf_ladders (b : book) : Prop := Forall wf_runner (b_runners b).
(* a book the matcher may see in these theorems: ladders with positive prices and sizes, traded volume non-negative,
   no removed runner (F-C04-1 is about those) and starting prices not reconciled *)
Definition wf_book (b : book) : Prop :=
  b_bsp_rec b = false /\ wf_ladders b /\
  Forall (fun r => Forall (fun e => 0 <= snd e) (r_trd r) /\ r_status r <> RRemoved) (b_runners b).

Definition mktI (m : market) : Prop :=
  Forall ordI (mk_orders m) /\ Forall (fun a => ok_traded (an_traded a)) (mk_analytics m) /\
  match mk_book m with Some b => wf_ladders b | None => True end.
Definition simI (s : sim) : Prop := Forall mktI (s_markets s).

(* ---------- order-level wrappers ---------- *)
Lemma sound_upd_ord o st log cpl bet red newp pers placed stat_t done_t live ln ld :
  sound o -> sound (upd_ord o st log cpl bet red newp pers placed stat_t done_t live ln ld (so_matched o)).
Proof. intros H T. exact (H T). Qed.

Lemma ordI_set_status cs now o st : ordI o -> ordI (set_status cs now o st true).
Proof. intros (S & _ & _). split; [apply sound_upd_ord; exact S|]. split; exact I. Qed.
Lemma ordI_set_status_keep cs now o st : ordI o -> ordI (set_status cs now o st false).
Proof. intros (S & R & N). split; [apply sound_upd_ord; exact S|]. split; assumption. Qed.
Lemma ordI_set_live o b0 : ordI o -> ordI (set_live o b0).
Proof. intros (S & R & N). split; [apply sound_upd_ord; exact S|]. split; assumption. Qed.
Lemma ordI_set_bet_placed o bet pl : ordI o -> ordI (set_bet_placed o bet pl).
Proof. intros (S & R & N). split; [apply sound_upd_ord; exact S|]. split; assumption. Qed.
Lemma ordI_set_upd o red newp pers : ordI o -> (match red with Some x => 0 <= x | None => True end) ->
  (match newp with Some x => 0 < x | None => True end) -> ordI (set_upd o red newp pers).
Proof. intros (S & R & N) Hr Hn. split; [apply sound_upd_ord; exact S|]. split; assumption. Qed.
Lemma ordI_reset_order cs now o : ordI o -> ordI (reset_order cs now o).
Proof. intros H. unfold reset_order. destruct (status_eqb (so_status o) SExecComplete); [exact H|apply ordI_set_status; exact H]. Qed.

Lemma ordI_of_soundL (o' : sorder) : so_red o' = None -> so_newprice o' = None -> (so_type o' = TLimit -> soundL o') -> ordI o'.
Proof. intros R N S. split; [exact S|]. unfold red_ok, newp_ok. rewrite R, N. split; exact I. Qed.

(* ---------- list / market plumbing ---------- *)
Lemma Forall_upd_market (P : market -> Prop) id f : forall l, Forall P l -> (forall m, P m -> P (f m)) -> Forall P (upd_market id f l).
Proof.
  induction l as [|m r IH]; intros H Hf; cbn [upd_market]; [constructor|]. inversion H; subst.
  destruct (mk_id m =? id); constructor; auto.
Qed.
Lemma Forall_upd_order_f (P : sorder -> Prop) n f : forall os, Forall P os -> (forall o, P o -> P (f o)) -> Forall P (upd_order n f os).
Proof.
  induction os as [|x r IH]; intros H Hf; cbn [upd_order]; [constructor|]. inversion H; subst. destruct (so_name x =? n); constructor; auto.
Qed.
Lemma mktI_set_orders m os : mktI m -> Forall ordI os -> mktI (set_orders m os).
Proof. intros (_ & A & B) H. split; [exact H|]. split; assumption. Qed.

Lemma get_market_I s mid m : simI s -> get_market mid (s_markets s) = Some m -> mktI m.
Proof. intros H E. unfold get_market in E. apply find_some in E as [Hin _]. unfold simI in H. rewrite Forall_forall in H. apply H. exact Hin. Qed.
Lemma get_order_I m n o : mktI m -> get_order n (mk_orders m) = Some o -> ordI o.
Proof. intros (H & _) E. unfold get_order in E. apply find_some in E as [Hin _]. rewrite Forall_forall in H. apply H. exact Hin. Qed.
Lemma find_runner_wf b sel r : wf_ladders b -> find_runner b sel = Some r -> wf_runner r.
Proof. intros H E. unfold wf_ladders in H. unfold find_runner in E. apply find_some in E as [Hin _]. rewrite Forall_forall in H. apply (H r Hin). Qed.

Lemma put_I mid l o' : Forall mktI l -> ordI o' ->
  Forall mktI (upd_market mid (fun m => set_orders m (upd_order (so_name o') (fun _ => o') (mk_orders m))) l).
Proof.
  intros H Ho. apply Forall_upd_market; [exact H|]. intros m Hm. apply mktI_set_orders; [exact Hm|].
  apply Forall_upd_order_f; [apply Hm|]. intros _ _. exact Ho.
Qed.
Lemma append_I mid l o' : Forall mktI l -> ordI o' -> Forall mktI (upd_market mid (fun m => set_orders m (mk_orders m ++ [o'])) l).
Proof.
  intros H Ho. apply Forall_upd_market; [exact H|]. intros m Hm. apply mktI_set_orders; [exact Hm|].
  apply Forall_app. split; [apply Hm|constructor; [exact Ho|constructor]].
Qed.

(* ---------- placement, cancel ---------- *)
Lemma place_resp_type tb c o s : so_type (fst (place_resp tb c o s)) = so_type o.
Proof.
  unfold place_resp. destruct (c_full c && s && negb (remaining o =? 0)); [|reflexivity]. cbn [fst]. unfold add_frag.
  destruct (set_frags_fields tb o (so_frags o ++ [{| f_pt := 0; f_price := so_price o; f_size := remaining o |}])) as (_&_&_&_&_&T&_). exact T.
Qed.
Lemma sim_place_type_other tb c ms b mv o : so_type o <> TLimit -> so_type (fst (sim_place tb c ms b mv o)) = so_type o.
Proof.
  intros Hn. unfold sim_place.
  destruct (negb (mstatus_eqb (b_status b) MOpen)); [rewrite place_resp_type; reflexivity|].
  destruct (match mv with Some v => negb (v =? 0) && negb (v =? b_version b) | None => false end); [rewrite place_resp_type; reflexivity|].
  destruct (find_runner b _) as [r|]; [|rewrite place_resp_type; reflexivity].
  destruct (match r_status r with RRemoved => true | _ => false end); [rewrite place_resp_type; reflexivity|].
  change (so_type (upd_sim o (Some (b_version b)) (so_piq2 o) (so_bsp o))) with (so_type o).
  destruct (so_type o) eqn:T; [congruence| |];
    (destruct (negb (ms_bsp ms) || b_bsp_rec b || b_inplay b); rewrite place_resp_type; cbn; exact T).
Qed.

Lemma sim_place_I tb c ms b mv o : ordI o -> wf_ladders b -> (so_type o = TLimit -> untouched o /\ 0 <= so_size o) ->
  so_type (fst (sim_place tb c ms b mv o)) = TLimit -> soundL (fst (sim_place tb c ms b mv o)).
Proof.
  intros (S & _) Hb Hg T'. destruct (so_type o) eqn:T.
  - destruct (Hg eq_refl) as [U Hs]. destruct (S T) as (_ & Hp & Hq).
    apply sim_place_sound; try assumption. intros r Hr. eapply find_runner_wf; eassumption.
  - rewrite sim_place_type_other in T' by congruence. congruence.
  - rewrite sim_place_type_other in T' by congruence. congruence.
Qed.

Lemma sim_cancel_I b o : ordI o ->
  sound (fst (fst (sim_cancel b o))) /\ so_red (fst (fst (sim_cancel b o))) = so_red o /\ so_newprice (fst (fst (sim_cancel b o))) = so_newprice o /\
  (snd (fst (sim_cancel b o)) = true -> so_type o = TLimit /\ 0 <= snd (sim_cancel b o)) /\
  so_type (fst (fst (sim_cancel b o))) = so_type o /\ so_price (fst (fst (sim_cancel b o))) = so_price o.
Proof.
  intros (S & R & N). unfold sim_cancel.
  destruct (negb (mstatus_eqb (b_status b) MOpen)); [cbn [fst snd]; (split; [exact S|]); (split; [reflexivity|]); (split; [reflexivity|]); (split; [intros; discriminate|]); (split; [first [reflexivity|exact T|symmetry; exact T]|reflexivity])|].
  destruct (so_type o) eqn:T; [|cbn [fst snd]; (split; [exact S|]); (split; [reflexivity|]); (split; [reflexivity|]); (split; [intros; discriminate|]); (split; [first [reflexivity|exact T|symmetry; exact T]|reflexivity])
                                 |cbn [fst snd]; (split; [exact S|]); (split; [reflexivity|]); (split; [reflexivity|]); (split; [intros; discriminate|]); (split; [first [reflexivity|exact T|symmetry; exact T]|reflexivity])].
  cbn [fst snd]. destruct (S T) as (G & Hp & Hq). pose proof G as (_ & _ & _ & Rm & C & L & V).
  set (red := match so_red o with Some x => if x =? 0 then remaining o else x | None => remaining o end).
  assert (Hred : 0 <= red) by (unfold red, red_ok in *; destruct (so_red o) as [x|]; [destruct (x =? 0)|]; lia).
  rewrite zmin_spec. split; [|split; [reflexivity|split; [reflexivity|split; [intros _; split; [reflexivity|lia]|split; [cbn; exact T|reflexivity]]]]].
  intros _. unfold add_cancelled. apply soundL_buckets; [split; [exact G|split; assumption]| | | |]; lia.
Qed.

(* ---------- one package ---------- *)
(* the hypothesis under which a placement package is executed: it finds its order as it was created.  (In the model as in the code a
   place package is built once per new order; that this holds in a run is evaluated on every scenario by [run_guard_b] below.) *)
Definition place_guard (s : sim) (p : pkg) : Prop :=
  pk_kind p = KPlace ->
  forall m o, get_market (pk_market p) (s_markets s) = Some m -> get_order (pk_order p) (mk_orders m) = Some o ->
              so_type o = TLimit -> untouched o /\ 0 <= so_size o.

Lemma new_order_limit name strat mk sel sd p s pe f mf now repl :
  let o := new_order name strat mk sel sd (OLimit p s pe f mf) now repl in
  so_type o = TLimit /\ untouched o /\ so_size o = s /\ so_price o = p /\ so_piq2 o = 0 /\ so_red o = None /\ so_newprice o = None /\ so_sel o = sel.
Proof. cbn. unfold untouched. cbn. repeat split; reflexivity. Qed.

Lemma ordI_new_order name strat mk sel sd t now repl :
  (match t with OLimit p s _ _ _ => 0 < p /\ 0 <= s | _ => True end) -> ordI (new_order name strat mk sel sd t now repl).
Proof.
  intros H. destruct t as [p s pe f mf|l p|l].
  - destruct H as [Hp Hs]. apply ordI_of_soundL; [reflexivity|reflexivity|]. intros _.
    apply untouched_soundL; cbn; try lia; try reflexivity. unfold untouched. cbn. repeat split; reflexivity.
  - apply ordI_of_soundL; [reflexivity|reflexivity|]. cbn. discriminate.
  - apply ordI_of_soundL; [reflexivity|reflexivity|]. cbn. discriminate.
Qed.

Lemma status_wrappers_soundL cs now o st cl : soundL o -> soundL (set_status cs now o st cl).
Proof. intros H. exact H. Qed.

Theorem exec_pkg_I tb cf now s p : simI s -> place_guard s p -> simI (exec_pkg tb cf now s p).
Proof.
  intros HI Hg. unfold exec_pkg.
  destruct (get_market (pk_market p) (s_markets s)) as [m|] eqn:Em; [|exact HI].
  pose proof (get_market_I s _ m HI Em) as Hm.
  destruct (mk_book m) as [b|] eqn:Eb; [|exact HI].
  destruct (get_order (pk_order p) (mk_orders m)) as [o|] eqn:Eo; [|exact HI].
  pose proof (get_order_I m _ o Hm Eo) as Ho.
  assert (Hb : wf_ladders b) by (destruct Hm as (_ & _ & Hb); rewrite Eb in Hb; exact Hb).
  destruct (status_eqb (so_status o) SViolation); [destruct (pk_kind p); exact HI|].
  cbv zeta. unfold simI in *.
  destruct (pk_kind p) eqn:Ek.
  - (* place *)
    pose proof (sim_place_I tb (client_of cf (so_strat o)) (mk_static m) b (pk_mv p) o Ho Hb (Hg Ek m o Em Eo)) as HS.
    destruct (sim_place tb (client_of cf (so_strat o)) (mk_static m) b (pk_mv p) o) as [o1 ok]. cbn [fst] in HS. cbn [s_markets].
    apply put_I; [exact HI|].
    assert (H2 : so_type o1 = TLimit -> soundL (set_bet_placed o1 (if ok then Some (s_bet s + 1) else so_bet o1) (Some now))) by (intros T; exact (HS T)).
    destruct ok; apply ordI_of_soundL; try reflexivity; intros T; exact (H2 T).
  - (* cancel *)
    destruct (sim_cancel_I b o Ho) as (S1 & R1 & N1 & _).
    destruct (sim_cancel b o) as [[o1 ok] c]. cbn [fst snd] in *. cbn [s_markets].
    apply put_I; [exact HI|].
    assert (H1 : ordI o1) by (destruct Ho as (_ & R & N); split; [exact S1|split; [unfold red_ok; rewrite R1; exact R|unfold newp_ok; rewrite N1; exact N]]).
    destruct ok; [destruct (remaining o1 =? 0)|]; [apply ordI_set_status|apply ordI_set_status|apply ordI_reset_order]; exact H1.
  - (* update *)
    cbn [s_markets]. apply put_I; [exact HI|apply ordI_reset_order; exact Ho].
  - (* replace *)
    destruct (status_eqb (so_status o) SExecComplete); [exact HI|].
    destruct (sim_cancel_I b o Ho) as (S1 & R1 & N1 & Hok & T1 & P1).
    destruct (sim_cancel b o) as [[o1 ok] sc]. cbn [fst snd] in *.
    assert (H1 : ordI o1) by (destruct Ho as (_ & R & N); split; [exact S1|split; [unfold red_ok; rewrite R1; exact R|unfold newp_ok; rewrite N1; exact N]]).
    destruct ok; cbn [negb]; [|cbn [s_markets]; apply put_I; [exact HI|apply ordI_reset_order; exact H1]].
    destruct (Hok eq_refl) as [T Hsc].
    assert (H2 : ordI (exec_complete (cf_complete cf) now o1)) by (apply ordI_set_status; exact H1).
    destruct (sc =? 0) eqn:E0; [cbn [s_markets]; apply put_I; assumption|].
    set (newp := match so_newprice o with Some x => x | None => so_price o end).
    assert (Hnewp : 0 < newp).
    { unfold newp. destruct Ho as (S & _ & N). unfold newp_ok in N. destruct (so_newprice o); [exact N|]. destruct (S T) as (_ & Hp & _). exact Hp. }
    set (r0 := new_order (s_next_name s) _ _ _ _ (OLimit newp sc _ false None) (pk_created p) true).
    assert (Hr0 : ordI r0) by (apply ordI_new_order; split; lia).
    assert (Hg0 : so_type r0 = TLimit -> untouched r0 /\ 0 <= so_size r0).
    { intros _. split; [unfold untouched; cbn; repeat split; reflexivity|cbn; lia]. }
    pose proof (sim_place_I tb (client_of cf (so_strat o)) (mk_static m) b (pk_mv p) r0 Hr0 Hb Hg0) as HS.
    destruct (sim_place tb (client_of cf (so_strat o)) (mk_static m) b (pk_mv p) r0) as [r1 okp]. cbn [fst] in HS.
    destruct okp; cbn [s_markets].
    + apply append_I; [apply put_I; assumption|]. apply ordI_of_soundL; try reflexivity. intros T'. exact (HS T').
    + apply put_I; [exact HI|apply ordI_reset_order; exact H2].
Qed.

(* ---------- passive matching ---------- *)
Definition aux_fields (o : sorder) := (so_cancelled o, so_lapsed o, so_voided o, so_red o, so_newprice o).

Lemma add_frag_aux tb o pt p s : aux_fields (add_frag tb o pt p s) = aux_fields o.
Proof. unfold add_frag, set_frags. destruct (wap tb _). reflexivity. Qed.

Lemma calc_traded_aux tb pt ts o : aux_fields (fst (calc_traded tb pt ts o)) = aux_fields o.
Proof.
  unfold calc_traded. destruct (so_piq2 o <? ts); [|reflexivity]. cbv zeta. cbn [fst].
  destruct (rnd tb (zmin (2 * remaining o) (ts - so_piq2 o)) 2 =? 0); [reflexivity|].
  change (aux_fields (upd_sim ?x _ _ _)) with (aux_fields x). apply add_frag_aux.
Qed.

Lemma process_traded_aux tb pt : forall tr o, aux_fields (fst (process_traded tb pt tr o)) = aux_fields o.
Proof.
  induction tr as [|[tp ts] r IH]; intros o; cbn [process_traded]; [reflexivity|].
  destruct (match so_side o with Back => so_price o <=? tp | Lay => tp <=? so_price o end).
  - pose proof (calc_traded_aux tb pt ts o) as H1. destruct (calc_traded tb pt ts o) as [o1 m]. cbn [fst] in H1.
    pose proof (IH o1) as H2. destruct (process_traded tb pt r o1) as [o2 r']. cbn [fst] in *. congruence.
  - pose proof (IH o) as H2. destruct (process_traded tb pt r o) as [o2 r']. exact H2.
Qed.

Lemma ordI_of_okL o o' : ordI o -> so_type o = TLimit -> okL o' -> aux_fields o' = aux_fields o -> ordI o'.
Proof.
  intros (S & R & N) T H E. unfold aux_fields in E. inversion E as [[E1 E2 E3 E4 E5]].
  destruct (S T) as ((_ & _ & _ & _ & C & L & V) & _).
  split; [intros _; apply okL_soundL; [exact H|rewrite E1; exact C|rewrite E2; exact L|rewrite E3; exact V]|].
  unfold red_ok, newp_ok. rewrite E4, E5. split; assumption.
Qed.

Lemma ordI_upd_sim o mv piq bsp : ordI o -> 0 <= piq -> ordI (upd_sim o mv piq bsp).
Proof.
  intros (S & R & N) Hq. split; [|split; assumption]. intros T. apply soundL_upd_sim; [exact (S T)|exact Hq].
Qed.

Lemma on_book_I tb c b r tr o : ordI o -> b_bsp_rec b = false -> ok_traded tr ->
  ordI (fst (fst (on_book tb c b r tr o))) /\ ok_traded (snd (fst (on_book tb c b r tr o))) /\ snd (on_book tb c b r tr o) = false.
Proof.
  intros Ho Hb Htr. unfold on_book. cbv zeta. rewrite Hb, andb_false_r.
  destruct (so_type o) eqn:Et; [|cbn [fst snd]; split; [exact Ho|split; [exact Htr|reflexivity]]
                                 |cbn [fst snd]; split; [exact Ho|split; [exact Htr|reflexivity]]].
  pose proof Ho as (S & _). destruct (S Et) as (G0 & Hp0 & Hq0).
  set (o1 := if negb (opt_eqb Z.eqb (so_mver o) (Some (b_version b))) then upd_sim o (Some (b_version b)) (so_piq2 o) (so_bsp o) else o).
  assert (H1 : ordI o1) by (unfold o1; destruct (negb (opt_eqb Z.eqb (so_mver o) (Some (b_version b)))); [apply ordI_upd_sim; assumption|exact Ho]).
  assert (T1 : so_type o1 = TLimit) by (unfold o1; destruct (negb (opt_eqb Z.eqb (so_mver o) (Some (b_version b)))); exact Et).
  pose proof H1 as (S1 & R1 & N1). pose proof (S1 T1) as SL1.
  destruct (negb (opt_eqb Z.eqb (so_mver o) (Some (b_version b))) && mstatus_eqb (b_status b) MSuspended && persist_eqb (so_persist o1) PLapse).
  - cbn [fst snd]. split; [|split; [exact Htr|reflexivity]].
    split; [intros _; apply soundL_add_lapsed_all; exact SL1|split; [exact R1|exact N1]].
  - destruct tr as [|t0 tr0]; [cbn [fst snd]; split; [exact H1|split; [constructor|reflexivity]]|].
    pose proof (soundL_okL o1 SL1) as (Hf & Hr & Hq).
    pose proof (process_traded_spec tb (b_pt b) (t0 :: tr0) o1 Hf Hr Hq Htr) as Hs.
    pose proof (process_traded_aux tb (b_pt b) (t0 :: tr0) o1) as Ha.
    destruct (process_traded tb (b_pt b) (t0 :: tr0) o1) as [o2 tr']. cbn [fst snd] in *.
    destruct Hs as (A & B & C & _ & _ & _ & G & _). split; [|split; [exact G|reflexivity]].
    eapply ordI_of_okL; [exact H1|exact T1|split; [exact A|split; assumption]|exact Ha].
Qed.

Definition stI (st : list sorder * list (Z * traded)) : Prop := Forall ordI (fst st) /\ Forall (fun e => ok_traded (snd e)) (snd st).

Lemma mstep_I tb cf b st o0 : b_bsp_rec b = false -> stI st -> stI (mstep tb cf b st o0).
Proof.
  intros Hb [Hos Hlk]. destruct st as [os lk]. cbn [fst snd] in *. unfold mstep.
  destruct (get_order (so_name o0) os) as [o|] eqn:Eg; [|split; assumption].
  cbv zeta. destruct (find_runner b (so_sel o)) as [r|]; [|split; assumption].
  assert (Ho : ordI o).
  { unfold get_order in Eg. apply find_some in Eg. destruct Eg as [Hin _]. rewrite Forall_forall in Hos. apply Hos. exact Hin. }
  set (tr := match find (fun e => fst e =? so_sel o) lk with Some e => snd e | None => [] end).
  assert (Htr : ok_traded tr).
  { unfold tr. destruct (find (fun e => fst e =? so_sel o) lk) as [e|] eqn:Ef; [|constructor]. apply find_some in Ef. destruct Ef as [Hin _]. rewrite Forall_forall in Hlk. apply Hlk. exact Hin. }
  destruct (on_book_I tb (client_of cf (so_strat o)) b r tr o Ho Hb Htr) as (A & B & C).
  destruct (on_book tb (client_of cf (so_strat o)) b r tr o) as [[o1 tr'] done]. cbn [fst snd] in *. subst done.
  split; cbn [fst snd].
  - apply Forall_upd_order; assumption.
  - rewrite Forall_forall in *. intros e He. apply in_map_iff in He. destruct He as [e0 [<- He0]]. destruct (fst e0 =? so_sel o); [exact B|apply Hlk; exact He0].
Qed.

Definition ansI (ans : list analytics) : Prop := Forall (fun a => ok_traded (an_traded a)) ans.

Lemma match_orders_I tb cf b ans live os : b_bsp_rec b = false -> Forall ordI os -> ansI ans -> Forall ordI (match_orders tb cf b ans live os).
Proof.
  intros Hb Hos Hans. rewrite match_orders_fold.
  assert (G : forall l st, stI st -> stI (fold_left (mstep tb cf b) l st)).
  { induction l as [|x r IH]; intros st Hst; cbn [fold_left]; [exact Hst|]. apply IH. apply mstep_I; assumption. }
  apply G. split; cbn [fst snd]; [exact Hos|]. unfold ansI in Hans. rewrite Forall_forall in *. intros e He. apply in_map_iff in He. destruct He as [a [<- Ha]]. cbn. apply Hans. exact Ha.
Qed.

(* one market update's matching, with and without strategy isolation *)
Theorem process_sim_orders_I tb cf b ans os : b_bsp_rec b = false -> Forall ordI os -> ansI ans -> Forall ordI (process_sim_orders tb cf b ans os).
Proof.
  intros Hb Hos Hans. unfold process_sim_orders. destruct (cf_isolation cf).
  - assert (G : forall sts os0, Forall ordI os0 ->
              Forall ordI (fold_left (fun os1 st => let live := filter (fun o => (so_strat o =? st) && status_in (so_status o) (cf_mw_live cf)) os1 in
                                                    match live with [] => os1 | _ :: _ => match_orders tb cf b ans live os1 end) sts os0)).
    { induction sts as [|s r IH]; intros os0 H0; cbn [fold_left]; [exact H0|]. apply IH. cbv zeta.
      destruct (filter _ os0); [exact H0|apply match_orders_I; assumption]. }
    apply G. exact Hos.
  - cbv zeta. destruct (filter (fun o => so_in_live o) os) as [|l0 ls]; [exact Hos|].
    match goal with |- Forall ordI (fst (fold_left ?F _ _)) => set (F0 := F) end.
    assert (G : forall l st, stI st -> stI (fold_left F0 l st)).
    { induction l as [|x r IH]; intros st Hst; cbn [fold_left]; [exact Hst|]. apply IH.
      destruct st as [os1 lk]. unfold F0. destruct (get_order (so_name x) os1) as [o|] eqn:Eg; [|exact Hst].
      destruct (negb (status_in (so_status o) (cf_mw_live cf))); [exact Hst|].
      pose proof (mstep_I tb cf b (os1, lk) x Hb Hst) as Hm. unfold mstep in Hm. rewrite Eg in Hm. exact Hm. }
    apply G. split; cbn [fst snd]; [exact Hos|]. unfold ansI in Hans. rewrite Forall_forall in *. intros e He. apply in_map_iff in He. destruct He as [a [<- Ha]]. cbn. apply Hans. exact Ha.
Qed.

Theorem completion_sweep_I cf now os : Forall ordI os -> Forall ordI (completion_sweep cf now os).
Proof.
  intros H. unfold completion_sweep. rewrite Forall_forall in *. intros x Hx. apply in_map_iff in Hx. destruct Hx as [o [<- Ho]]. specialize (H o Ho).
  destruct (negb (so_in_live o)); [exact H|]. destruct (so_complete o); [apply ordI_set_live; exact H|].
  destruct (so_type o) eqn:Et; [destruct (remaining o =? 0)|destruct (so_bsp o)|destruct (so_bsp o)]; try exact H; apply ordI_set_live, ordI_set_status; exact H.
Qed.

(* ---------- analytics: traded increments are never negative ---------- *)
Definition nn (l : list (Z * Z)) : Prop := Forall (fun e => 0 <= snd e) l.

Lemma assoc_set_nn k v : forall l, nn l -> 0 <= v -> nn (assoc_set k v l).
Proof.
  induction l as [|[a b0] r IH]; intros H Hv; cbn [assoc_set]; [constructor; [exact Hv|constructor]|].
  inversion H as [|? ? Hh Ht]; subst. destruct (a =? k); constructor; [exact Hv|exact Ht|exact Hh|apply IH; assumption].
Qed.
Lemma to_dict_nn l : nn l -> nn (to_dict l).
Proof.
  unfold to_dict. assert (G : forall l d, nn l -> nn d -> nn (fold_left (fun d ps => assoc_set (fst ps) (snd ps) d) l d)).
  { induction l0 as [|x r IH]; intros d Hl Hd; cbn [fold_left]; [exact Hd|]. inversion Hl; subst. apply IH; [assumption|apply assoc_set_nn; assumption]. }
  intros H. apply G; [exact H|constructor].
Qed.
Lemma calc_traded_dict_nn pv tv : nn tv -> ok_traded (calc_traded_dict pv tv).
Proof.
  intros H. unfold calc_traded_dict. pose proof (to_dict_nn tv H) as Hd. revert Hd. generalize (to_dict tv). intros d Hd.
  assert (G : forall d tr, nn d -> nn tr -> nn (fold_left (fun tr ps => match lookup (fst ps) pv with
                 | Some old => if 0 <? snd ps - old then assoc_set (fst ps) (snd ps - old) tr else tr
                 | None => assoc_set (fst ps) (snd ps) tr end) d tr)).
  { induction d0 as [|x r IH]; intros tr Hl Ht; cbn [fold_left]; [exact Ht|]. inversion Hl; subst. apply IH; [assumption|].
    destruct (lookup (fst x) pv) as [old|]; [destruct (0 <? snd x - old) eqn:E; [apply assoc_set_nn; [exact Ht|lia]|exact Ht]|apply assoc_set_nn; assumption]. }
  apply G; [exact Hd|constructor].
Qed.
Lemma analytics_step_ok r a : nn (r_trd r) -> ok_traded (an_traded (analytics_step r a)).
Proof.
  intros H. unfold analytics_step. destruct a as [a|]; [|constructor].
  destruct (pair_list_eqb (an_tv a) (r_trd r)); [constructor|]. cbn. apply calc_traded_dict_nn. exact H.
Qed.
Lemma put_an_I a : forall l, ansI l -> ok_traded (an_traded a) -> ansI (put_an a l).
Proof.
  induction l as [|x r IH]; intros H Ha; cbn [put_an]; [constructor; [exact Ha|constructor]|].
  inversion H; subst. destruct (an_sel x =? an_sel a); constructor; auto. apply IH; assumption.
Qed.

(* ---------- the middleware on a book without removed runners ---------- *)
Lemma collect_plain mid : forall rs ans rems,
  Forall (fun r => nn (r_trd r) /\ r_status r <> RRemoved) rs -> ansI ans ->
  exists ans', collect mid rs (ans, rems, []) = (ans', rems, []) /\ ansI ans'.
Proof.
  induction rs as [|x rs IH]; intros ans rems H Ha; [exists ans; split; [reflexivity|exact Ha]|].
  inversion H as [|? ? [Hx Hs] Hr]; subst. rewrite collect_cons. unfold collect_step.
  destruct (r_status x); try (apply IH; assumption); [|congruence].
  apply IH; [exact Hr|]. apply put_an_I; [exact Ha|apply analytics_step_ok; exact Hx].
Qed.

Theorem middleware_I tb cf s m b : mktI m -> wf_book b ->
  s_markets (fst (middleware tb cf s m b)) = s_markets s /\ mktI (snd (middleware tb cf s m b)).
Proof.
  intros (Ho & Ha & _) (Hb & Hl & Hr). rewrite middleware_unfold.
  destruct (collect_plain (mk_id m) (b_runners b) (mk_analytics m) (s_removals s) Hr Ha) as [ans [E Hans]]. rewrite E.
  unfold apply_new. cbn [fold_left fst snd]. split; [reflexivity|].
  split; [|split; [exact Hans|exact Hl]]. cbn [mk_orders].
  destruct (mk_active m); [apply process_sim_orders_I; assumption|exact Ho].
Qed.

(* ---------- requests ---------- *)
Definition action_ok0 (a : action) : Prop :=
  match a with
  | APlace _ _ _ (OLimit p s _ _ _) _ => 0 < p /\ 0 <= s
  | ACancel _ (Some x) => 0 <= x
  | AReplace _ price _ => 0 < price
  | _ => True
  end.
Definition action_ok (a : action) : Prop := match a with AOn _ a' => action_ok0 a' | _ => action_ok0 a end.

Lemma with_orders_I mid l os : Forall mktI l -> Forall ordI os -> Forall mktI (upd_market mid (fun m => set_orders m os) l).
Proof. intros H Ho. apply Forall_upd_market; [exact H|]. intros m Hm. apply mktI_set_orders; assumption. Qed.

Theorem request0_I cf now st mid s a : simI s -> action_ok0 a -> simI (request0 cf now st mid s a).
Proof.
  intros HI Ha. unfold request0. destruct (get_market mid (s_markets s)) as [m|] eqn:Em; [|exact HI].
  pose proof (get_market_I s mid m HI Em) as Hm. pose proof Hm as (Hos & _).
  unfold simI in *.
  destruct a as [name sel sd t mv|name red|name p|name price mv|mid' a']; [| | | |exact HI].
  - destruct (negb (market_open m)); [exact HI|]. cbn [s_markets]. apply with_orders_I; [exact HI|].
    apply Forall_app. split; [exact Hos|]. constructor; [|constructor].
    apply ordI_set_live, ordI_set_status_keep, ordI_new_order. destruct t; try exact I. exact Ha.
  - destruct (get_order name (mk_orders m)) as [o|]; [|exact HI].
    destruct (negb (order_validation_ok o) || negb (market_open m)); [exact HI|].
    destruct (so_bet o); [|exact HI]. destruct (so_type o); try exact HI.
    destruct (match red with Some x => negb (x =? 0) && (remaining o - x <? 0) | None => false end); [exact HI|].
    destruct (negb (status_eqb (so_status o) SExecutable)); [exact HI|]. cbn [s_markets]. apply with_orders_I; [exact HI|].
    apply Forall_upd_order_f; [exact Hos|]. intros o' Ho'. apply ordI_set_status_keep.
    pose proof Ho' as (_ & _ & N). apply ordI_set_upd; [exact Ho'| |exact N]. destruct red; [exact Ha|exact I].
  - destruct (get_order name (mk_orders m)) as [o|]; [|exact HI].
    destruct (negb (order_validation_ok o) || negb (market_open m)); [exact HI|].
    destruct (so_bet o); [|exact HI]. destruct (so_type o); try exact HI.
    destruct (persist_eqb (so_persist o) p); [exact HI|].
    destruct (negb (status_eqb (so_status o) SExecutable)); [exact HI|]. cbn [s_markets]. apply with_orders_I; [exact HI|].
    apply Forall_upd_order_f; [exact Hos|]. intros o' Ho'. apply ordI_set_status_keep.
    pose proof Ho' as (_ & R & N). apply ordI_set_upd; assumption.
  - destruct (get_order name (mk_orders m)) as [o|]; [|exact HI].
    destruct (negb (order_validation_ok o) || negb (market_open m)); [exact HI|].
    destruct (so_bet o); [|exact HI].
    destruct (so_type o); try exact HI;
    (destruct (so_price o =? price); [exact HI|]; destruct (negb (status_eqb (so_status o) SExecutable)); [exact HI|];
     cbn [s_markets]; apply with_orders_I; [exact HI|];
     apply Forall_upd_order_f; [exact Hos|]; intros o' Ho'; apply ordI_set_status_keep;
     pose proof Ho' as (_ & R & _); apply ordI_set_upd; [exact Ho'|exact R|exact Ha]).
Qed.

(* ---------- the pending phase ---------- *)
Fixpoint pkgs_guard (tb : tiebreak) (cf : config) (now : Z) (ps : list pkg) (s : sim) : Prop :=
  match ps with
  | [] => True
  | p :: r => (s_aborted s = false -> place_guard s p) /\ pkgs_guard tb cf now r (if s_aborted s then s else exec_pkg tb cf now s p)
  end.

Lemma fold_exec_I tb cf now : forall ps s, simI s -> pkgs_guard tb cf now ps s ->
  simI (fold_left (fun s p => if s_aborted s then s else exec_pkg tb cf now s p) ps s).
Proof.
  induction ps as [|p ps IH]; intros s HI Hg; cbn [fold_left]; [exact HI|]. destruct Hg as [Hp Hr]. apply IH; [|exact Hr].
  destruct (s_aborted s); [exact HI|apply exec_pkg_I; [exact HI|apply Hp; reflexivity]].
Qed.

Definition pending_guard (tb : tiebreak) (cf : config) (now mid : Z) (s : sim) : Prop :=
  pkgs_guard tb cf now (filter (fun p => (pk_market p =? mid) && due cf now p) (s_queue s)) s.

Lemma check_pending_I tb cf now mid s : simI s -> pending_guard tb cf now mid s -> simI (check_pending tb cf now mid s).
Proof. intros HI Hg. unfold check_pending, simI. cbn [s_markets]. apply fold_exec_I; assumption. Qed.

(* ---------- one event, whole runs ---------- *)
Definition event_ok (sc : script) (n : Z) (e : event) : Prop :=
  (if mstatus_eqb (b_status (ev_book e)) MClosed then wf_ladders (ev_book e) else wf_book (ev_book e)) /\
  forall st, In st (map Z.of_nat (seq 0 (Z.to_nat n))) -> Forall action_ok (sc st (ev_market e) (ev_idx e)).

Definition step_guard (tb : tiebreak) (cf : config) (s : sim) (e : event) : Prop :=
  s_aborted s = false ->
  match s_queue s with [] => True | _ => pending_guard tb cf (b_pt (ev_book e)) (ev_market e) s end.

Theorem request_I cf now st mid s a : simI s -> action_ok a -> simI (request cf now st mid s a).
Proof. intros HI Ha. unfold request. destruct a; apply request0_I; assumption. Qed.

Lemma requests_I cf now st mid : forall acts s, simI s -> Forall action_ok acts -> simI (fold_left (request cf now st mid) acts s).
Proof.
  induction acts as [|a acts IH]; intros s HI Ha; cbn [fold_left]; [exact HI|]. inversion Ha; subst. apply IH; [apply request_I; assumption|assumption].
Qed.
Lemma strategies_I cf now mid (f : Z -> list action) : forall sts s, (forall st, In st sts -> Forall action_ok (f st)) -> simI s ->
  simI (fold_left (fun s st => fold_left (request cf now st mid) (f st) s) sts s).
Proof.
  induction sts as [|st sts IH]; intros s Hf HI; cbn [fold_left]; [exact HI|].
  apply IH; [intros st' Hin; apply Hf; right; exact Hin|]. apply requests_I; [exact HI|apply Hf; left; reflexivity].
Qed.

Theorem step_I tb cf n sc s e : simI s -> event_ok sc n e -> step_guard tb cf s e -> simI (step tb cf n sc s e).
Proof.
  intros HI [Hbk Hsc] Hg. unfold step. destruct (s_aborted s) eqn:Eab; [exact HI|].
  set (s1 := match s_queue s with [] => s | _ => check_pending tb cf (b_pt (ev_book e)) (ev_market e) s end).
  assert (H1 : simI s1).
  { subst s1. specialize (Hg Eab). destruct (s_queue s); [exact HI|apply check_pending_I; assumption]. }
  destruct (s_aborted s1); [exact H1|].
  destruct (get_market (ev_market e) (s_markets s1)) as [m|] eqn:Em; [|exact H1].
  pose proof (get_market_I s1 _ m H1 Em) as Hm.
  destruct (mstatus_eqb (b_status (ev_book e)) MClosed).
  - destruct (mk_seen m); [|exact H1]. unfold simI. cbn [s_markets]. apply Forall_upd_market; [exact H1|].
    intros m' (Ho & _ & _). split; [exact Ho|]. split; [constructor|exact Hbk].
  - match goal with |- context [middleware tb cf s1 ?m0 ?b] =>
      assert (Hm0 : mktI m0) by (destruct Hm as (A & B & C); split; [exact A|split; [exact B|exact C]]);
      pose proof (middleware_I tb cf s1 m0 b Hm0 Hbk) as [E2 Hm1]; destruct (middleware tb cf s1 m0 b) as [s2 m1] end.
    cbn [fst snd] in E2, Hm1.
    apply strategies_I; [exact Hsc|]. unfold simI. cbn [s_markets]. rewrite E2.
    apply Forall_upd_market; [exact H1|]. intros _ _.
    destruct (mk_active m1); [|exact Hm1]. apply mktI_set_orders; [exact Hm1|]. apply completion_sweep_I. apply Hm1.
Qed.

Fixpoint run_guard (tb : tiebreak) (cf : config) (n : Z) (sc : script) (es : list event) (s : sim) : Prop :=
  match es with [] => True | e :: r => step_guard tb cf s e /\ run_guard tb cf n sc r (step tb cf n sc s e) end.

Theorem run_I tb cf n sc : forall es s, simI s -> Forall (event_ok sc n) es -> run_guard tb cf n sc es s ->
  simI (fold_left (step tb cf n sc) es s).
Proof.
  induction es as [|e es IH]; intros s HI He Hg; cbn [fold_left]; [exact HI|].
  inversion He; subst. destruct Hg as [Hg1 Hg2]. apply IH; [apply step_I; assumption|assumption|assumption].
Qed.

(* C04 over whole runs: at the end of any prefix of such a run every limit order of every market satisfies the conservation equation
   with non-negative terms, and its matched size is the sum of its (positive) fragments *)
Theorem run_conserves tb cf n sc es s m o :
  simI s -> Forall (event_ok sc n) es -> run_guard tb cf n sc es s ->
  In m (s_markets (fold_left (step tb cf n sc) es s)) -> In o (mk_orders m) -> so_type o = TLimit ->
  so_size o = so_matched o + remaining o + so_cancelled o + so_lapsed o + so_voided o /\
  0 <= so_matched o /\ 0 <= remaining o /\ 0 <= so_cancelled o /\ 0 <= so_lapsed o /\ 0 <= so_voided o /\
  so_matched o = frag_sum (so_frags o) /\ frags_pos (so_frags o).
Proof.
  intros HI He Hg Hm Ho T. pose proof (run_I tb cf n sc es s HI He Hg) as H. unfold simI in H. rewrite Forall_forall in H.
  destruct (H m Hm) as (Hos & _). rewrite Forall_forall in Hos. destruct (Hos o Ho) as (S & _).
  pose proof (S T) as SL. destruct (soundL_conserved o SL) as (A & B & C & D & E & F & G).
  repeat split; try assumption. destruct SL as ((_ & P & _) & _). exact P.
Qed.

(* the initial state of every scenario: markets without orders *)
Lemma simI_initial s : (forall m, In m (s_markets s) -> mk_orders m = [] /\ mk_analytics m = [] /\ mk_book m = None) -> simI s.
Proof.
  intros H. unfold simI. rewrite Forall_forall. intros m Hm. destruct (H m Hm) as (A & B & C). unfold mktI. rewrite A, B, C.
  split; [constructor|split; [constructor|exact I]].
Qed.

(* ---------- the boolean side conditions (Model/SimGuard.v) imply the propositional ones ---------- *)
From V Require Import Model.SimGuard.

Lemma untouched_b_sound o : untouched_b o = true -> untouched o.
Proof.
  unfold untouched_b, untouched. intros H. repeat (apply andb_true_iff in H as [H ?]).
  destruct (so_frags o); [|discriminate]. repeat split; try reflexivity; lia.
Qed.

Lemma place_guard_b_sound s p : place_guard_b s p = true -> place_guard s p.
Proof.
  unfold place_guard_b, place_guard. intros H Ek m o Em Eo T. rewrite Ek, Em, Eo, T in H.
  apply andb_true_iff in H as [H1 H2]. split; [apply untouched_b_sound; exact H1|lia].
Qed.

Lemma pkgs_guard_b_sound tb cf now : forall ps s, pkgs_guard_b tb cf now ps s = true -> pkgs_guard tb cf now ps s.
Proof.
  induction ps as [|p ps IH]; intros s H; cbn [pkgs_guard_b pkgs_guard] in *; [exact I|].
  apply andb_true_iff in H as [H1 H2]. split; [|apply IH; exact H2].
  intros Ea. rewrite Ea in H1. apply place_guard_b_sound. exact H1.
Qed.

Lemma step_guard_b_sound tb cf s e : step_guard_b tb cf s e = true -> step_guard tb cf s e.
Proof.
  unfold step_guard_b, step_guard, pending_guard. intros H Ea. rewrite Ea in H. cbn [orb] in H.
  destruct (s_queue s); [exact I|apply pkgs_guard_b_sound; exact H].
Qed.

Lemma run_guard_b_sound tb cf n sc : forall es s, run_guard_b tb cf n sc es s = true -> run_guard tb cf n sc es s.
Proof.
  induction es as [|e es IH]; intros s H; cbn [run_guard_b run_guard] in *; [exact I|].
  apply andb_true_iff in H as [H1 H2]. split; [apply step_guard_b_sound; exact H1|apply IH; exact H2].
Qed.

Lemma ladder_b_sound l : ladder_b l = true -> wf_ladder l.
Proof.
  unfold ladder_b, wf_ladder. intros H. rewrite forallb_forall in H. rewrite Forall_forall. intros x Hx. specialize (H x Hx). lia.
Qed.
Lemma ladders_b_sound b : ladders_b b = true -> wf_ladders b.
Proof.
  unfold ladders_b, wf_ladders, wf_runner. intros H. rewrite forallb_forall in H. rewrite Forall_forall. intros r Hr.
  specialize (H r Hr). apply andb_true_iff in H as [H1 H2]. split; apply ladder_b_sound; assumption.
Qed.
Lemma book_b_sound b : book_b b = true -> wf_book b.
Proof.
  unfold book_b, wf_book. intros H. apply andb_true_iff in H as [H H3]. apply andb_true_iff in H as [H1 H2].
  split; [destruct (b_bsp_rec b); [discriminate|reflexivity]|]. split; [apply ladders_b_sound; exact H2|].
  rewrite forallb_forall in H3. rewrite Forall_forall. intros r Hr. specialize (H3 r Hr). apply andb_true_iff in H3 as [A B].
  split; [|destruct (r_status r); try discriminate; congruence].
  rewrite forallb_forall in A. rewrite Forall_forall. intros x Hx. specialize (A x Hx). lia.
Qed.
Lemma action_b0_sound a : action_b0 a = true -> action_ok0 a.
Proof.
  destruct a as [name sel sd t mv|name red|name p|name price mv|mid' a']; cbn; intros H; try exact I.
  - destruct t; try exact I. lia.
  - destruct red; [lia|exact I].
  - lia.
Qed.
Lemma action_b_sound a : action_b a = true -> action_ok a.
Proof. unfold action_b, action_ok. destruct a; apply action_b0_sound. Qed.
Lemma event_b_sound sc n e : event_b sc n e = true -> event_ok sc n e.
Proof.
  unfold event_b, event_ok. intros H. apply andb_true_iff in H as [H1 H2]. split.
  - destruct (mstatus_eqb (b_status (ev_book e)) MClosed); [apply ladders_b_sound|apply book_b_sound]; exact H1.
  - intros st Hst. rewrite forallb_forall in H2. specialize (H2 st Hst). rewrite forallb_forall in H2.
    rewrite Forall_forall. intros a Ha. apply action_b_sound. apply H2. exact Ha.
Qed.

(* the statement used by Props/C04.v: everything on the left of the arrow is a boolean that the harness evaluates on each scenario *)
Theorem run_conserves_b tb cf n sc es s m o :
  (forall m0, In m0 (s_markets s) -> mk_orders m0 = [] /\ mk_analytics m0 = [] /\ mk_book m0 = None) ->
  forallb (event_b sc n) es = true -> run_guard_b tb cf n sc es s = true ->
  In m (s_markets (fold_left (step tb cf n sc) es s)) -> In o (mk_orders m) -> so_type o = TLimit ->
  so_size o = so_matched o + remaining o + so_cancelled o + so_lapsed o + so_voided o /\
  0 <= so_matched o /\ 0 <= remaining o /\ 0 <= so_cancelled o /\ 0 <= so_lapsed o /\ 0 <= so_voided o /\
  so_matched o = frag_sum (so_frags o) /\ frags_pos (so_frags o).
Proof.
  intros H0 He Hg. apply run_conserves; [apply simI_initial; exact H0| |apply run_guard_b_sound; exact Hg].
  rewrite forallb_forall in He. rewrite Forall_forall. intros e Hin. apply event_b_sound. apply He. exact Hin.
Qed.

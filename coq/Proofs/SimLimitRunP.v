(* SimLimitRunP.v — C05 over whole simulated runs: every fragment of an ordinary (not fill-or-kill) limit order is at its limit price or
   better, after every event of a run whose books show no removed runner and no reconciled starting price.  (A removal re-prices fragments,
   a starting-price conversion fills at the SP: both are outside; a fill-or-kill order is bounded on its AVERAGE, C05_fok_vwap.) *)
From Coq Require Import ZArith List Bool Lia ZifyBool.
From V Require Import Model.Num Model.Status Model.Sim Model.SimLoop Proofs.NumP Proofs.SimPlaceP Proofs.SimPlaceP2 Proofs.SimTradedP
     Proofs.SimBucketsP Proofs.SimIsolationP Proofs.SimLiftP Proofs.SimRemovalsP Model.SimGuard Proofs.SimRunP.
Open Scope Z_scope.

Definition frag_within (sd : side) (limit : Z) (f : frag) : Prop := match sd with Back => limit <= f_price f | Lay => f_price f <= limit end.
Definition within (o : sorder) : Prop := Forall (frag_within (so_side o) (so_price o)) (so_frags o).
(* the invariant: ordinary limit orders only *)
Definition limI (o : sorder) : Prop := so_type o = TLimit -> so_fok o = false -> within o.

Definition key_fields (o : sorder) := (so_type o, so_fok o, so_side o, so_price o, so_frags o).
Lemma limI_same o o' : key_fields o' = key_fields o -> limI o -> limI o'.
Proof. unfold key_fields, limI, within. intros E H. inversion E as [[E1 E2 E3 E4 E5]]. rewrite E1, E2, E3, E4, E5. exact H. Qed.

Lemma limI_upd_ord o st log cpl bet red newp pers placed stat_t done_t live ln ld m :
  limI o -> limI (upd_ord o st log cpl bet red newp pers placed stat_t done_t live ln ld m).
Proof. apply limI_same. reflexivity. Qed.
Lemma limI_upd_sim o mv piq bsp : limI o -> limI (upd_sim o mv piq bsp).
Proof. apply limI_same. reflexivity. Qed.
Lemma limI_buckets o c l v : limI o -> limI (upd_buckets o c l v).
Proof. apply limI_same. reflexivity. Qed.
Lemma limI_reset_order cs now o : limI o -> limI (reset_order cs now o).
Proof. intros H. unfold reset_order. destruct (status_eqb (so_status o) SExecComplete); [exact H|apply limI_upd_ord; exact H]. Qed.

Lemma add_frag_keys tb o pt p s :
  so_type (add_frag tb o pt p s) = so_type o /\ so_fok (add_frag tb o pt p s) = so_fok o /\ so_side (add_frag tb o pt p s) = so_side o /\
  so_price (add_frag tb o pt p s) = so_price o /\ so_frags (add_frag tb o pt p s) = so_frags o ++ [{| f_pt := pt; f_price := p; f_size := s |}].
Proof. unfold add_frag, set_frags. destruct (wap tb _). cbn. repeat split; reflexivity. Qed.

Lemma limI_add_frag tb o pt p s : limI o -> (match so_side o with Back => so_price o <= p | Lay => p <= so_price o end) -> limI (add_frag tb o pt p s).
Proof.
  intros H Hp. destruct (add_frag_keys tb o pt p s) as (T & F & Sd & P & Fr). unfold limI, within. rewrite T, F, Sd, P, Fr. intros Ht Hf.
  apply Forall_app. split; [exact (H Ht Hf)|]. constructor; [|constructor]. unfold frag_within. cbn. exact Hp.
Qed.

Lemma limI_price_matched tb pt : forall avail rem o, limI o -> limI (price_matched tb pt (so_side o) (so_price o) rem avail o).
Proof.
  induction avail as [|[ap asz] r IH]; intros rem o H; cbn [price_matched]; [exact H|].
  destruct (rem =? 0); [exact H|].
  destruct (match so_side o with Back => so_price o <=? ap | Lay => ap <=? so_price o end) eqn:E; [|exact H].
  set (o' := add_frag tb o pt ap _).
  assert (H' : limI o') by (apply limI_add_frag; [exact H|destruct (so_side o); lia]).
  destruct (add_frag_keys tb o pt ap (if zmax (rem - asz) 0 =? 0 then rem else asz)) as (_ & _ & Sd & P & _). fold o' in Sd, P.
  rewrite <- Sd, <- P. apply IH. exact H'.
Qed.

Lemma limI_place_resp tb c o s : limI o -> limI (fst (place_resp tb c o s)).
Proof.
  intros H. unfold place_resp. destruct (c_full c && s && negb (remaining o =? 0)); [|exact H]. cbn [fst].
  apply limI_add_frag; [exact H|destruct (so_side o); lia].
Qed.

(* the fill-or-kill flag is never changed by the placement *)
Lemma add_frag_fok tb o pt p s : so_fok (add_frag tb o pt p s) = so_fok o.
Proof. destruct (add_frag_keys tb o pt p s) as (_ & F & _). exact F. Qed.
Lemma price_matched_fok tb pt sd price : forall avail rem o, so_fok (price_matched tb pt sd price rem avail o) = so_fok o.
Proof.
  induction avail as [|[ap asz] r IH]; intros rem o; cbn [price_matched]; [reflexivity|].
  destruct (rem =? 0); [reflexivity|]. destruct (match sd with Back => price <=? ap | Lay => ap <=? price end); [|reflexivity].
  rewrite IH. apply add_frag_fok.
Qed.
Lemma vwap_loop_fok tb pt sd price : forall avail rem o, so_fok (vwap_loop tb pt sd price rem avail o) = so_fok o.
Proof.
  induction avail as [|[ap asz] r IH]; intros rem o; cbn [vwap_loop]; [reflexivity|].
  destruct (rem =? 0); [reflexivity|]. cbv zeta. match goal with |- so_fok (if ?c then _ else _) = _ => destruct c end; [|reflexivity].
  rewrite IH. apply add_frag_fok.
Qed.
Lemma vwap_matched_fok tb pt sd price size avail minfill o : so_fok (vwap_matched tb pt sd price size avail minfill o) = so_fok o.
Proof.
  unfold vwap_matched. destruct (so_matched (vwap_loop tb pt sd price size avail o) <? minfill); [|apply vwap_loop_fok].
  change (so_fok (add_cancelled ?x _)) with (so_fok x). unfold set_frags. destruct (wap tb []). cbn [so_fok]. apply vwap_loop_fok.
Qed.
Lemma place_resp_fok tb c o s : so_fok (fst (place_resp tb c o s)) = so_fok o.
Proof. unfold place_resp. destruct (c_full c && s && negb (remaining o =? 0)); [apply add_frag_fok|reflexivity]. Qed.

Lemma sim_place_fok tb c ms b mv o : so_fok (fst (sim_place tb c ms b mv o)) = so_fok o.
Proof.
  unfold sim_place.
  destruct (negb (mstatus_eqb (b_status b) MOpen)); [rewrite place_resp_fok; reflexivity|].
  destruct (match mv with Some v => negb (v =? 0) && negb (v =? b_version b) | None => false end); [rewrite place_resp_fok; reflexivity|].
  destruct (find_runner b _) as [r|]; [|rewrite place_resp_fok; reflexivity].
  destruct (match r_status r with RRemoved => true | _ => false end); [rewrite place_resp_fok; reflexivity|].
  destruct (so_type _); [|destruct (negb (ms_bsp ms) || b_bsp_rec b || b_inplay b); rewrite place_resp_fok; reflexivity
                          |destruct (negb (ms_bsp ms) || b_bsp_rec b || b_inplay b); rewrite place_resp_fok; reflexivity].
  cbv zeta.
  repeat match goal with
         | |- so_fok (fst (if ?c then _ else _)) = _ => destruct c
         | |- so_fok (fst (match ?x with Back => _ | Lay => _ end)) = _ => destruct x
         end;
    rewrite place_resp_fok; cbn [add_cancelled add_lapsed upd_buckets so_fok];
    repeat match goal with
           | |- context [if ?c then _ else _] => destruct c
           | |- context [match piq_of ?a ?b with _ => _ end] => destruct (piq_of a b)
           end;
    rewrite ?vwap_matched_fok, ?price_matched_fok; reflexivity.
Qed.

Lemma sim_place_type tb c ms b mv o : so_type o = TLimit -> so_type (fst (sim_place tb c ms b mv o)) = TLimit.
Proof.
  (* through soundness-free reasoning: every primitive keeps the type *)
  intros T. unfold sim_place.
  assert (PR : forall x s, so_type x = TLimit -> so_type (fst (place_resp tb c x s)) = TLimit) by (intros x s Hx; rewrite place_resp_type; exact Hx).
  assert (PM : forall sd price rem avail x, so_type (price_matched tb (b_pt b) sd price rem avail x) = so_type x).
  { intros sd price rem avail x. rewrite price_matched_is_fills. apply add_fills_type. }
  assert (VL : forall sd price avail rem x, so_type (vwap_loop tb (b_pt b) sd price rem avail x) = so_type x).
  { intros sd price. induction avail as [|[ap asz] r IH]; intros rem x; cbn [vwap_loop]; [reflexivity|].
    destruct (rem =? 0); [reflexivity|]. cbv zeta. match goal with |- so_type (if ?c then _ else _) = _ => destruct c end; [|reflexivity].
    rewrite IH. destruct (add_frag_keys tb x (b_pt b) ap (if zmax (rem - asz) 0 =? 0 then rem else asz)) as (A & _). exact A. }
  assert (VM : forall sd price size avail mf x, so_type (vwap_matched tb (b_pt b) sd price size avail mf x) = so_type x).
  { intros. unfold vwap_matched. destruct (_ <? mf); [|apply VL]. change (so_type (add_cancelled ?y _)) with (so_type y).
    unfold set_frags. destruct (wap tb []). cbn [so_type]. apply VL. }
  destruct (negb (mstatus_eqb (b_status b) MOpen)); [apply PR; exact T|].
  destruct (match mv with Some v => negb (v =? 0) && negb (v =? b_version b) | None => false end); [apply PR; exact T|].
  destruct (find_runner b _) as [r|]; [|apply PR; exact T].
  destruct (match r_status r with RRemoved => true | _ => false end); [apply PR; exact T|].
  change (so_type (upd_sim o (Some (b_version b)) (so_piq2 o) (so_bsp o))) with (so_type o). rewrite T. cbv zeta.
  repeat match goal with
         | |- so_type (fst (if ?c then _ else _)) = _ => destruct c
         | |- so_type (fst (match ?x with Back => _ | Lay => _ end)) = _ => destruct x
         end;
    apply PR; cbn [add_cancelled add_lapsed upd_buckets so_type];
    repeat match goal with
           | |- context [if ?c then _ else _] => destruct c
           | |- context [match piq_of ?a ?b with _ => _ end] => destruct (piq_of a b)
           end;
    rewrite ?VM, ?PM; exact T.
Qed.

(* placement of an order without fragments: whatever path, an ordinary limit order only gets fragments within its limit *)
Theorem sim_place_limI tb c ms b mv o : so_frags o = [] -> limI (fst (sim_place tb c ms b mv o)).
Proof.
  intros F0. destruct (so_fok o) eqn:Ef.
  { intros _ F. rewrite sim_place_fok in F. congruence. }
  assert (H0 : limI o) by (unfold limI, within; rewrite F0; constructor).
  unfold sim_place.
  destruct (negb (mstatus_eqb (b_status b) MOpen)); [apply limI_place_resp, limI_buckets; exact H0|].
  set (o1 := upd_sim o (Some (b_version b)) (so_piq2 o) (so_bsp o)).
  assert (H1 : limI o1) by (apply limI_upd_sim; exact H0).
  destruct (match mv with Some v => negb (v =? 0) && negb (v =? b_version b) | None => false end); [apply limI_place_resp, limI_buckets; exact H1|].
  destruct (find_runner b (so_sel o1)) as [r|]; [|apply limI_place_resp; exact H1].
  destruct (match r_status r with RRemoved => true | _ => false end); [apply limI_place_resp, limI_buckets; exact H1|].
  destruct (so_type o1) eqn:T1; [|destruct (negb (ms_bsp ms) || b_bsp_rec b || b_inplay b); [apply limI_place_resp, limI_buckets|apply limI_place_resp]; exact H1
                                  |destruct (negb (ms_bsp ms) || b_bsp_rec b || b_inplay b); [apply limI_place_resp, limI_buckets|apply limI_place_resp]; exact H1].
  cbv zeta. change (so_fok o1) with (so_fok o). rewrite Ef. cbn [andb].
  assert (Q : forall l, limI (match piq_of (so_price o1) l with Some s => upd_sim o1 (so_mver o1) (2 * s) (so_bsp o1) | None => o1 end))
    by (intros l; destruct (piq_of (so_price o1) l); [apply limI_upd_sim|]; exact H1).
  destruct (so_side o1) eqn:Sd.
  - destruct (negb (c_bpe c) && (so_price o1 <? first_price (r_atb r) 10100)); [apply limI_place_resp, limI_buckets; exact H1|].
    destruct (so_price o1 <=? first_price (r_atb r) 10100); [|apply limI_place_resp, Q].
    apply limI_place_resp. rewrite <- Sd at 1. apply limI_price_matched. exact H1.
  - destruct (negb (c_bpe c) && (first_price (r_atl r) 10000000 <? so_price o1)); [apply limI_place_resp, limI_buckets; exact H1|].
    destruct (first_price (r_atl r) 10000000 <=? so_price o1); [|apply limI_place_resp, Q].
    apply limI_place_resp. rewrite <- Sd at 1. apply limI_price_matched. exact H1.
Qed.

(* ---------- passive matching only adds fragments at the order's own price ---------- *)
Lemma calc_traded_limI tb pt ts o : limI o -> limI (fst (calc_traded tb pt ts o)).
Proof.
  intros H. unfold calc_traded. destruct (so_piq2 o <? ts); [|apply limI_upd_sim; exact H]. cbv zeta. cbn [fst]. apply limI_upd_sim.
  destruct (rnd tb (zmin (2 * remaining o) (ts - so_piq2 o)) 2 =? 0); [exact H|]. apply limI_add_frag; [exact H|destruct (so_side o); lia].
Qed.
Lemma process_traded_limI tb pt : forall tr o, limI o -> limI (fst (process_traded tb pt tr o)).
Proof.
  induction tr as [|[tp ts] r IH]; intros o H; cbn [process_traded]; [exact H|].
  destruct (match so_side o with Back => so_price o <=? tp | Lay => tp <=? so_price o end).
  - pose proof (calc_traded_limI tb pt ts o H) as H1. destruct (calc_traded tb pt ts o) as [o1 m]. cbn [fst] in H1.
    pose proof (IH o1 H1) as H2. destruct (process_traded tb pt r o1) as [o2 r']. exact H2.
  - pose proof (IH o H) as H2. destruct (process_traded tb pt r o) as [o2 r']. exact H2.
Qed.

Lemma on_book_limI tb c b r tr o : limI o -> b_bsp_rec b = false -> limI (fst (fst (on_book tb c b r tr o))).
Proof.
  intros H Hb. unfold on_book. cbv zeta. rewrite Hb, andb_false_r.
  destruct (so_type o) eqn:Et; [|exact H|exact H].
  set (o1 := if negb (opt_eqb Z.eqb (so_mver o) (Some (b_version b))) then upd_sim o (Some (b_version b)) (so_piq2 o) (so_bsp o) else o).
  assert (H1 : limI o1) by (unfold o1; destruct (negb (opt_eqb Z.eqb (so_mver o) (Some (b_version b)))); [apply limI_upd_sim|]; exact H).
  destruct (negb (opt_eqb Z.eqb (so_mver o) (Some (b_version b))) && mstatus_eqb (b_status b) MSuspended && persist_eqb (so_persist o1) PLapse);
    [cbn [fst]; apply limI_buckets; exact H1|].
  destruct tr as [|t0 tr0]; [exact H1|].
  pose proof (process_traded_limI tb (b_pt b) (t0 :: tr0) o1 H1) as H2. destruct (process_traded tb (b_pt b) (t0 :: tr0) o1) as [o2 tr']. exact H2.
Qed.

Lemma on_book_done tb c b r tr o : b_bsp_rec b = false -> snd (on_book tb c b r tr o) = false.
Proof.
  intros Hb. unfold on_book. cbv zeta. rewrite Hb, andb_false_r. destruct (so_type o); try reflexivity.
  destruct (_ && _ && _); [reflexivity|]. destruct tr; [reflexivity|]. destruct (process_traded _ _ _ _). reflexivity.
Qed.

Lemma mstep_limI tb cf b st o0 : b_bsp_rec b = false -> Forall limI (fst st) -> Forall limI (fst (mstep tb cf b st o0)).
Proof.
  intros Hb Hos. destruct st as [os lk]. cbn [fst] in *. unfold mstep.
  destruct (get_order (so_name o0) os) as [o|] eqn:Eg; [|exact Hos].
  cbv zeta. destruct (find_runner b (so_sel o)) as [r|]; [|exact Hos].
  assert (Ho : limI o) by (unfold get_order in Eg; apply find_some in Eg as [Hin _]; rewrite Forall_forall in Hos; apply Hos; exact Hin).
  set (tr := match find (fun e => fst e =? so_sel o) lk with Some e => snd e | None => [] end).
  pose proof (on_book_limI tb (client_of cf (so_strat o)) b r tr o Ho Hb) as A.
  pose proof (on_book_done tb (client_of cf (so_strat o)) b r tr o Hb) as C.
  destruct (on_book tb (client_of cf (so_strat o)) b r tr o) as [[o1 tr'] done]. cbn [fst snd] in *. subst done.
  apply Forall_upd_order; assumption.
Qed.

Lemma match_orders_limI tb cf b ans live os : b_bsp_rec b = false -> Forall limI os -> Forall limI (match_orders tb cf b ans live os).
Proof.
  intros Hb Hos. rewrite match_orders_fold.
  assert (G : forall l st, Forall limI (fst st) -> Forall limI (fst (fold_left (mstep tb cf b) l st))).
  { induction l as [|x r IH]; intros st Hst; cbn [fold_left]; [exact Hst|]. apply IH. apply mstep_limI; assumption. }
  apply G. exact Hos.
Qed.

Theorem process_sim_orders_limI tb cf b ans os : b_bsp_rec b = false -> Forall limI os -> Forall limI (process_sim_orders tb cf b ans os).
Proof.
  intros Hb Hos. unfold process_sim_orders. destruct (cf_isolation cf).
  - assert (G : forall sts os0, Forall limI os0 ->
              Forall limI (fold_left (fun os1 st => let live := filter (fun o => (so_strat o =? st) && status_in (so_status o) (cf_mw_live cf)) os1 in
                                                    match live with [] => os1 | _ :: _ => match_orders tb cf b ans live os1 end) sts os0)).
    { induction sts as [|s r IH]; intros os0 H0; cbn [fold_left]; [exact H0|]. apply IH. cbv zeta.
      destruct (filter _ os0); [exact H0|apply match_orders_limI; assumption]. }
    apply G. exact Hos.
  - cbv zeta. destruct (filter (fun o => so_in_live o) os) as [|l0 ls]; [exact Hos|].
    match goal with |- Forall limI (fst (fold_left ?F _ _)) => set (F0 := F) end.
    assert (G : forall l st, Forall limI (fst st) -> Forall limI (fst (fold_left F0 l st))).
    { induction l as [|x r IH]; intros st Hst; cbn [fold_left]; [exact Hst|]. apply IH.
      destruct st as [os1 lk]. unfold F0. destruct (get_order (so_name x) os1) as [o|] eqn:Eg; [|exact Hst].
      destruct (negb (status_in (so_status o) (cf_mw_live cf))); [exact Hst|].
      pose proof (mstep_limI tb cf b (os1, lk) x Hb Hst) as Hm. unfold mstep in Hm. rewrite Eg in Hm. exact Hm. }
    apply G. exact Hos.
Qed.

Lemma completion_sweep_limI cf now os : Forall limI os -> Forall limI (completion_sweep cf now os).
Proof.
  intros H. unfold completion_sweep. rewrite Forall_forall in *. intros x Hx. apply in_map_iff in Hx. destruct Hx as [o [<- Ho]]. specialize (H o Ho).
  destruct (negb (so_in_live o)); [exact H|]. destruct (so_complete o); [apply limI_upd_ord; exact H|].
  destruct (so_type o) eqn:Et; [destruct (remaining o =? 0)|destruct (so_bsp o)|destruct (so_bsp o)]; try exact H; apply limI_upd_ord, limI_upd_ord; exact H.
Qed.

(* ---------- the state invariant ---------- *)
Definition mktL (m : market) : Prop := Forall limI (mk_orders m).
Definition simL (s : sim) : Prop := Forall mktL (s_markets s).

Lemma put_L mid l o' : Forall mktL l -> limI o' ->
  Forall mktL (upd_market mid (fun m => set_orders m (upd_order (so_name o') (fun _ => o') (mk_orders m))) l).
Proof.
  intros H Ho. apply Forall_upd_market; [exact H|]. intros m Hm. unfold mktL. cbn [set_orders mk_orders].
  apply Forall_upd_order_f; [exact Hm|]. intros _ _. exact Ho.
Qed.
Lemma append_L mid l o' : Forall mktL l -> limI o' -> Forall mktL (upd_market mid (fun m => set_orders m (mk_orders m ++ [o'])) l).
Proof.
  intros H Ho. apply Forall_upd_market; [exact H|]. intros m Hm. unfold mktL. cbn [set_orders mk_orders].
  apply Forall_app. split; [exact Hm|constructor; [exact Ho|constructor]].
Qed.

Lemma sim_cancel_limI b o : limI o -> limI (fst (fst (sim_cancel b o))).
Proof.
  intros H. unfold sim_cancel. destruct (negb (mstatus_eqb (b_status b) MOpen)); [exact H|].
  destruct (so_type o); [cbn [fst]; apply limI_buckets; exact H|exact H|exact H].
Qed.

Theorem exec_pkg_L tb cf now s p : simL s -> place_guard s p -> simL (exec_pkg tb cf now s p).
Proof.
  intros HI Hg. unfold exec_pkg.
  destruct (get_market (pk_market p) (s_markets s)) as [m|] eqn:Em; [|exact HI].
  assert (Hm : mktL m) by (unfold get_market in Em; apply find_some in Em as [Hin _]; unfold simL in HI; rewrite Forall_forall in HI; apply HI; exact Hin).
  destruct (mk_book m) as [b|] eqn:Eb; [|exact HI].
  destruct (get_order (pk_order p) (mk_orders m)) as [o|] eqn:Eo; [|exact HI].
  assert (Ho : limI o) by (unfold get_order in Eo; apply find_some in Eo as [Hin _]; unfold mktL in Hm; rewrite Forall_forall in Hm; apply Hm; exact Hin).
  destruct (status_eqb (so_status o) SViolation); [destruct (pk_kind p); exact HI|].
  cbv zeta. unfold simL in *.
  destruct (pk_kind p) eqn:Ek.
  - assert (HS : limI (fst (sim_place tb (client_of cf (so_strat o)) (mk_static m) b (pk_mv p) o))).
    { destruct (so_type o) eqn:T.
      - destruct (Hg Ek m o Em Eo T) as [(F & _) _]. apply sim_place_limI. exact F.
      - intros T'. rewrite sim_place_type_other in T' by congruence. congruence.
      - intros T'. rewrite sim_place_type_other in T' by congruence. congruence. }
    destruct (sim_place tb (client_of cf (so_strat o)) (mk_static m) b (pk_mv p) o) as [o1 ok]. cbn [fst] in HS. cbn [s_markets].
    apply put_L; [exact HI|]. destruct ok; apply limI_upd_ord, limI_upd_ord; exact HS.
  - pose proof (sim_cancel_limI b o Ho) as H1.
    destruct (sim_cancel b o) as [[o1 ok] c]. cbn [fst] in H1. cbn [s_markets]. apply put_L; [exact HI|].
    destruct ok; [destruct (remaining o1 =? 0)|]; [apply limI_upd_ord|apply limI_upd_ord|apply limI_reset_order]; exact H1.
  - cbn [s_markets]. apply put_L; [exact HI|apply limI_reset_order; exact Ho].
  - destruct (status_eqb (so_status o) SExecComplete); [exact HI|].
    pose proof (sim_cancel_limI b o Ho) as H1.
    destruct (sim_cancel b o) as [[o1 ok] sc]. cbn [fst] in H1.
    destruct ok; cbn [negb]; [|cbn [s_markets]; apply put_L; [exact HI|apply limI_reset_order; exact H1]].
    assert (H2 : limI (exec_complete (cf_complete cf) now o1)) by (apply limI_upd_ord; exact H1).
    destruct (sc =? 0); [cbn [s_markets]; apply put_L; assumption|].
    match goal with |- context [sim_place tb ?c ?ms b ?mv ?r0] =>
      pose proof (sim_place_limI tb c ms b mv r0 eq_refl) as HS; destruct (sim_place tb c ms b mv r0) as [r1 okp] end.
    cbn [fst] in HS. destruct okp; cbn [s_markets].
    + apply append_L; [apply put_L; assumption|]. apply limI_upd_ord, limI_upd_ord, limI_upd_ord, limI_upd_ord. exact HS.
    + apply put_L; [exact HI|apply limI_reset_order; exact H2].
Qed.

Lemma fold_exec_L tb cf now : forall ps s, simL s -> pkgs_guard tb cf now ps s ->
  simL (fold_left (fun s p => if s_aborted s then s else exec_pkg tb cf now s p) ps s).
Proof.
  induction ps as [|p ps IH]; intros s HI Hg; cbn [fold_left]; [exact HI|]. destruct Hg as [Hp Hr]. apply IH; [|exact Hr].
  destruct (s_aborted s); [exact HI|apply exec_pkg_L; [exact HI|apply Hp; reflexivity]].
Qed.
Lemma check_pending_L tb cf now mid s : simL s -> pending_guard tb cf now mid s -> simL (check_pending tb cf now mid s).
Proof. intros HI Hg. unfold check_pending, simL. cbn [s_markets]. apply fold_exec_L; assumption. Qed.

Theorem middleware_L tb cf s m b : mktL m -> wf_book b ->
  s_markets (fst (middleware tb cf s m b)) = s_markets s /\ mktL (snd (middleware tb cf s m b)).
Proof.
  intros Ho (Hb & Hl & Hr). rewrite middleware_unfold.
  assert (NR : forall r, In r (b_runners b) -> r_status r = RRemoved -> recorded (mk_id m) (r_sel r, r_adj r) (s_removals s) = true).
  { intros r Hin Hst. rewrite Forall_forall in Hr. destruct (Hr r Hin) as [_ Hn]. congruence. }
  destruct (collect_nothing_new (mk_id m) (b_runners b) (mk_analytics m) (s_removals s) NR) as [ans E]. rewrite E.
  unfold apply_new. cbn [fold_left fst snd]. split; [reflexivity|]. unfold mktL. cbn [mk_orders].
  destruct (mk_active m); [apply process_sim_orders_limI; assumption|exact Ho].
Qed.

Lemma limI_new_order name strat mk sel sd t now repl : limI (new_order name strat mk sel sd t now repl).
Proof. destruct t; unfold limI, within; cbn; intros; constructor. Qed.

Theorem request0_L cf now st mid s a : simL s -> simL (request0 cf now st mid s a).
Proof.
  intros HI. unfold request0. destruct (get_market mid (s_markets s)) as [m|] eqn:Em; [|exact HI].
  assert (Hos : Forall limI (mk_orders m)) by (unfold get_market in Em; apply find_some in Em as [Hin _]; unfold simL in HI; rewrite Forall_forall in HI; apply (HI m Hin)).
  unfold simL in *.
  assert (W : forall os (q : Z), Forall limI os -> Forall mktL (upd_market mid (fun m0 => set_orders m0 os) (s_markets s))).
  { intros os _ H. apply Forall_upd_market; [exact HI|]. intros m0 _. exact H. }
  destruct a as [name sel sd t mv|name red|name p|name price mv|mid' a']; [| | | |exact HI].
  - destruct (negb (market_open m)); [exact HI|]. cbn [s_markets]. apply (W _ 0).
    apply Forall_app. split; [exact Hos|]. constructor; [|constructor]. apply limI_upd_ord, limI_upd_ord, limI_new_order.
  - destruct (get_order name (mk_orders m)) as [o|]; [|exact HI].
    destruct (negb (order_validation_ok o) || negb (market_open m)); [exact HI|].
    destruct (so_bet o); [|exact HI]. destruct (so_type o); try exact HI.
    destruct (match red with Some x => negb (x =? 0) && (remaining o - x <? 0) | None => false end); [exact HI|].
    destruct (negb (status_eqb (so_status o) SExecutable)); [exact HI|]. cbn [s_markets]. apply (W _ 0).
    apply Forall_upd_order_f; [exact Hos|]. intros o' Ho'. apply limI_upd_ord, limI_upd_ord. exact Ho'.
  - destruct (get_order name (mk_orders m)) as [o|]; [|exact HI].
    destruct (negb (order_validation_ok o) || negb (market_open m)); [exact HI|].
    destruct (so_bet o); [|exact HI]. destruct (so_type o); try exact HI.
    destruct (persist_eqb (so_persist o) p); [exact HI|].
    destruct (negb (status_eqb (so_status o) SExecutable)); [exact HI|]. cbn [s_markets]. apply (W _ 0).
    apply Forall_upd_order_f; [exact Hos|]. intros o' Ho'. apply limI_upd_ord, limI_upd_ord. exact Ho'.
  - destruct (get_order name (mk_orders m)) as [o|]; [|exact HI].
    destruct (negb (order_validation_ok o) || negb (market_open m)); [exact HI|].
    destruct (so_bet o); [|exact HI].
    destruct (so_type o); try exact HI;
    (destruct (so_price o =? price); [exact HI|]; destruct (negb (status_eqb (so_status o) SExecutable)); [exact HI|];
     cbn [s_markets]; apply (W _ 0); apply Forall_upd_order_f; [exact Hos|]; intros o' Ho'; apply limI_upd_ord, limI_upd_ord; exact Ho').
Qed.
Theorem request_L cf now st mid s a : simL s -> simL (request cf now st mid s a).
Proof. intros HI. unfold request. destruct a; apply request0_L; exact HI. Qed.

Lemma strategies_L cf now mid (f : Z -> list action) : forall sts s, simL s ->
  simL (fold_left (fun s st => fold_left (request cf now st mid) (f st) s) sts s).
Proof.
  induction sts as [|st sts IH]; intros s HI; cbn [fold_left]; [exact HI|]. apply IH.
  generalize (f st). intros acts. revert s HI. induction acts as [|a acts IHa]; intros s HI; cbn [fold_left]; [exact HI|]. apply IHa. apply request_L. exact HI.
Qed.

Theorem step_L tb cf n sc s e : simL s -> event_ok sc n e -> step_guard tb cf s e -> simL (step tb cf n sc s e).
Proof.
  intros HI [Hbk _] Hg. unfold step. destruct (s_aborted s) eqn:Eab; [exact HI|].
  set (s1 := match s_queue s with [] => s | _ => check_pending tb cf (b_pt (ev_book e)) (ev_market e) s end).
  assert (H1 : simL s1) by (subst s1; specialize (Hg Eab); destruct (s_queue s); [exact HI|apply check_pending_L; assumption]).
  destruct (s_aborted s1); [exact H1|].
  destruct (get_market (ev_market e) (s_markets s1)) as [m|] eqn:Em; [|exact H1].
  assert (Hm : mktL m) by (unfold get_market in Em; apply find_some in Em as [Hin _]; unfold simL in H1; rewrite Forall_forall in H1; apply H1; exact Hin).
  destruct (mstatus_eqb (b_status (ev_book e)) MClosed).
  - destruct (mk_seen m); [|exact H1]. unfold simL. cbn [s_markets]. apply Forall_upd_market; [exact H1|]. intros m' Hm'. exact Hm'.
  - match goal with |- context [middleware tb cf s1 ?m0 ?b] =>
      assert (Hm0 : mktL m0) by exact Hm;
      pose proof (middleware_L tb cf s1 m0 b Hm0 Hbk) as [E2 Hm1]; destruct (middleware tb cf s1 m0 b) as [s2 m1] end.
    cbn [fst snd] in E2, Hm1.
    apply strategies_L. unfold simL. cbn [s_markets]. rewrite E2.
    apply Forall_upd_market; [exact H1|]. intros _ _.
    destruct (mk_active m1); [|exact Hm1]. unfold mktL. cbn [set_orders mk_orders]. apply completion_sweep_limI. exact Hm1.
Qed.

Theorem run_L tb cf n sc : forall es s, simL s -> Forall (event_ok sc n) es -> run_guard tb cf n sc es s ->
  simL (fold_left (step tb cf n sc) es s).
Proof.
  induction es as [|e es IH]; intros s HI He Hg; cbn [fold_left]; [exact HI|].
  inversion He; subst. destruct Hg as [Hg1 Hg2]. apply IH; [apply step_L; assumption|assumption|assumption].
Qed.

(* C05 over whole runs *)
Theorem run_respects_limits tb cf n sc es s m o f :
  (forall m0, In m0 (s_markets s) -> mk_orders m0 = []) ->
  forallb (event_b sc n) es = true -> run_guard_b tb cf n sc es s = true ->
  In m (s_markets (fold_left (step tb cf n sc) es s)) -> In o (mk_orders m) -> so_type o = TLimit -> so_fok o = false -> In f (so_frags o) ->
  match so_side o with Back => so_price o <= f_price f | Lay => f_price f <= so_price o end.
Proof.
  intros H0 He Hg Hm Ho T F Hf.
  assert (HI : simL s) by (unfold simL; rewrite Forall_forall; intros m0 Hm0; unfold mktL; rewrite (H0 m0 Hm0); constructor).
  assert (He' : Forall (event_ok sc n) es) by (rewrite forallb_forall in He; rewrite Forall_forall; intros e Hin; apply event_b_sound; apply He; exact Hin).
  pose proof (run_L tb cf n sc es s HI He' (run_guard_b_sound tb cf n sc es s Hg)) as H. unfold simL in H. rewrite Forall_forall in H.
  specialize (H m Hm). unfold mktL in H. rewrite Forall_forall in H. specialize (H o Ho T F). unfold within in H. rewrite Forall_forall in H.
  exact (H f Hf).
Qed.

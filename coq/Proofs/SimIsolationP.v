(* SimIsolationP.v — C13 (crux lemmas): matching one strategy's live orders touches no other order, and never the
   analytics (the traded volume every strategy starts from). *)
From Coq Require Import ZArith List Bool Lia.
From V Require Import Model.Num Model.Status Model.Sim Model.SimLoop.
Open Scope Z_scope.

Lemma upd_order_other name f : forall l o, so_name o <> name -> In o l -> In o (upd_order name f l).
Proof.
  induction l as [|x r IH]; intros o Hne Hin; [destruct Hin|]. cbn [upd_order].
  destruct Hin as [<-|Hin].
  - replace (so_name x =? name) with false by lia. left. reflexivity.
  - destruct (so_name x =? name); right; [exact Hin|apply IH; assumption].
Qed.

(* frame: an order whose name is not among the live orders being matched is left exactly as it was *)
Theorem match_orders_frame tb cf b ans live orders o :
  In o orders -> ~ In (so_name o) (map so_name live) -> In o (match_orders tb cf b ans live orders).
Proof.
  intros Hin Hnot. unfold match_orders.
  assert (Hsorted : forall n, In n (map so_name (sort_orders live)) -> In n (map so_name live)).
  { intros n Hn. unfold sort_orders in Hn. rewrite !map_app, !in_app_iff in Hn.
    assert (P : forall key (l : list sorder) x, In x (map so_name (sort_by key l)) -> In x (map so_name l)).
    { intros key l x Hx. unfold sort_by in Hx.
      assert (G : forall l0 acc, In x (map so_name (fold_left (fun acc o => insert_by key o acc) l0 acc)) -> In x (map so_name l0) \/ In x (map so_name acc)).
      { induction l0 as [|y l0 IH]; intros acc H; cbn [fold_left] in H; [right; exact H|].
        destruct (IH _ H) as [H1|H1]; [left; right; exact H1|].
        assert (I : forall acc0, In x (map so_name (insert_by key y acc0)) -> x = so_name y \/ In x (map so_name acc0)).
        { induction acc0 as [|a acc0 IHa]; cbn [insert_by map In]; [intros [<-|[]]; left; reflexivity|].
          destruct (key y <? key a); cbn [map In]; [intros [<-|H2]; [left; reflexivity|right; exact H2]|].
          intros [<-|H2]; [right; left; reflexivity|]. destruct (IHa H2) as [->|H3]; [left; reflexivity|right; right; exact H3]. }
        destruct (I _ H1) as [->|H2]; [left; left; reflexivity|right; exact H2]. }
      destruct (G l [] Hx) as [H1|[]]. exact H1. }
    assert (F : forall (p : sorder -> bool) x, In x (map so_name (filter p live)) -> In x (map so_name live)).
    { intros p x Hx. apply in_map_iff in Hx as [y [<- Hy]]. apply filter_In in Hy as [Hy _]. apply in_map. exact Hy. }
    destruct Hn as [Hn|[Hn|Hn]]; [apply P in Hn|apply P in Hn|]; eapply F; exact Hn. }
  set (step := fun (st : list sorder * list (Z * traded)) (o0 : sorder) =>
                 let '(os, lk) := st in
                 match get_order (so_name o0) os with
                 | None => st
                 | Some o1 =>
                   let tr := match find (fun e => fst e =? so_sel o1) lk with Some e => snd e | None => [] end in
                   match find_runner b (so_sel o1) with
                   | None => st
                   | Some r =>
                       let '(o2, tr', done) := on_book tb (client_of cf (so_strat o1)) b r tr o1 in
                       let o3 := if done then exec_complete (cf_complete cf) (b_pt b) o2 else o2 in
                       (upd_order (so_name o1) (fun _ => o3) os, map (fun e => if fst e =? so_sel o1 then (fst e, tr') else e) lk)
                   end
                 end).
  assert (G : forall l st, (forall n, In n (map so_name l) -> In n (map so_name live)) -> In o (fst st) -> In o (fst (fold_left step l st))).
  { induction l as [|x l IH]; intros st Hl Hst; cbn [fold_left]; [exact Hst|].
    apply IH; [intros n Hn; apply Hl; right; exact Hn|].
    unfold step. destruct st as [os lk]. cbn [fst] in *.
    destruct (get_order (so_name x) os) as [o1|] eqn:Eg; [|exact Hst].
    destruct (find_runner b (so_sel o1)); [|exact Hst].
    destruct (on_book tb (client_of cf (so_strat o1)) b r _ o1) as [[o2 tr'] done] eqn:Eo. cbn [fst].
    assert (Hn1 : so_name o1 = so_name x).
    { unfold get_order in Eg. apply find_some in Eg as [_ Eg]. lia. }
    apply upd_order_other; [|exact Hst].
    rewrite Hn1. intro E. apply Hnot. apply Hl. left. symmetry. exact E. }
  specialize (G (sort_orders live) (orders, map (fun a => (an_sel a, an_traded a)) ans) Hsorted Hin).
  fold step. destruct (fold_left step (sort_orders live) (orders, map (fun a => (an_sel a, an_traded a)) ans)) as [os' lk']. exact G.
Qed.

(* SimIsolationP.v — C13 (crux lemmas): matching one strategy's live orders touches no other order, and never the
   analytics (the traded volume every strategy starts from). *)
From Coq Require Import ZArith List Bool Lia ZifyBool.
From V Require Import Model.Num Model.Status Model.Sim Model.SimLoop.
Open Scope Z_scope.

Lemma upd_order_other name f : forall l o, so_name o <> name -> In o l -> In o (upd_order name f l).
Proof.
  induction l as [|x r IH]; intros o Hne Hin; [destruct Hin|]. cbn [upd_order].
  destruct Hin as [<-|Hin].
  - replace (so_name x =? name) with false by lia. left. reflexivity.
  - destruct (so_name x =? name); right; [exact Hin|apply IH; assumption].
Qed.

(* frame: an order whose name is not among the live orders being matched is left exactly as it was *)
Theorem match_orders_frame tb cf b ans live orders o :
  In o orders -> ~ In (so_name o) (map so_name live) -> In o (match_orders tb cf b ans live orders).
Proof.
  intros Hin Hnot. unfold match_orders.
  assert (Hsorted : forall n, In n (map so_name (sort_orders live)) -> In n (map so_name live)).
  { intros n Hn. unfold sort_orders in Hn. rewrite !map_app, !in_app_iff in Hn.
    assert (P : forall key (l : list sorder) x, In x (map so_name (sort_by key l)) -> In x (map so_name l)).
    { intros key l x Hx. unfold sort_by in Hx.
      assert (G : forall l0 acc, In x (map so_name (fold_left (fun acc o => insert_by key o acc) l0 acc)) -> In x (map so_name l0) \/ In x (map so_name acc)).
      { induction l0 as [|y l0 IH]; intros acc H; cbn [fold_left] in H; [right; exact H|].
        destruct (IH _ H) as [H1|H1]; [left; right; exact H1|].
        assert (I : forall acc0, In x (map so_name (insert_by key y acc0)) -> x = so_name y \/ In x (map so_name acc0)).
        { induction acc0 as [|a acc0 IHa]; cbn [insert_by map In]; [intros [<-|[]]; left; reflexivity|].
          destruct (key y <? key a); cbn [map In]; [intros [<-|H2]; [left; reflexivity|right; exact H2]|].
          intros [<-|H2]; [right; left; reflexivity|]. destruct (IHa H2) as [->|H3]; [left; reflexivity|right; right; exact H3]. }
        destruct (I _ H1) as [->|H2]; [left; left; reflexivity|right; exact H2]. }
      destruct (G l [] Hx) as [H1|[]]. exact H1. }
    assert (F : forall (p : sorder -> bool) x, In x (map so_name (filter p live)) -> In x (map so_name live)).
    { intros p x Hx. apply in_map_iff in Hx as [y [<- Hy]]. apply filter_In in Hy as [Hy _]. apply in_map. exact Hy. }
    destruct Hn as [Hn|[Hn|Hn]]; [apply P in Hn|apply P in Hn|]; eapply F; exact Hn. }
  set (step := fun (st : list sorder * list (Z * traded)) (o0 : sorder) =>
                 let '(os, lk) := st in
                 match get_order (so_name o0) os with
                 | None => st
                 | Some o1 =>
                   let tr := match find (fun e => fst e =? so_sel o1) lk with Some e => snd e | None => [] end in
                   match find_runner b (so_sel o1) with
                   | None => st
                   | Some r =>
                       let '(o2, tr', done) := on_book tb (client_of cf (so_strat o1)) b r tr o1 in
                       let o3 := if done then exec_complete (cf_complete cf) (b_pt b) o2 else o2 in
                       (upd_order (so_name o1) (fun _ => o3) os, map (fun e => if fst e =? so_sel o1 then (fst e, tr') else e) lk)
                   end
                 end).
  assert (G : forall l st, (forall n, In n (map so_name l) -> In n (map so_name live)) -> In o (fst st) -> In o (fst (fold_left step l st))).
  { induction l as [|x l IH]; intros st Hl Hst; cbn [fold_left]; [exact Hst|].
    apply IH; [intros n Hn; apply Hl; right; exact Hn|].
    unfold step. destruct st as [os lk]. cbn [fst] in *.
    destruct (get_order (so_name x) os) as [o1|] eqn:Eg; [|exact Hst].
    destruct (find_runner b (so_sel o1)); [|exact Hst].
    destruct (on_book tb (client_of cf (so_strat o1)) b r _ o1) as [[o2 tr'] done] eqn:Eo. cbn [fst].
    assert (Hn1 : so_name o1 = so_name x).
    { unfold get_order in Eg. apply find_some in Eg as [_ Eg]. lia. }
    apply upd_order_other; [|exact Hst].
    rewrite Hn1. intro E. apply Hnot. apply Hl. left. symmetry. exact E. }
  specialize (G (sort_orders live) (orders, map (fun a => (an_sel a, an_traded a)) ans) Hsorted Hin).
  fold step. destruct (fold_left step (sort_orders live) (orders, map (fun a => (an_sel a, an_traded a)) ans)) as [os' lk']. exact G.
Qed.

(* ================= non-interference of the matcher ================= *)

(* ---------- identity of an order survives everything the matcher does to it ---------- *)
Definition ns (o : sorder) : Z * Z := (so_name o, so_strat o).

Lemma ns_set_frags tb o fr : ns (set_frags tb o fr) = ns o.
Proof. unfold set_frags. destruct (wap tb fr). reflexivity. Qed.
Lemma ns_add_frag tb o pt p s : ns (add_frag tb o pt p s) = ns o.
Proof. apply ns_set_frags. Qed.
Lemma ns_calc_traded tb pt ts o : ns (fst (calc_traded tb pt ts o)) = ns o.
Proof.
  unfold calc_traded. destruct (so_piq2 o <? ts); [|reflexivity]. cbv zeta. cbn [fst].
  destruct (rnd tb (zmin (2 * remaining o) (ts - so_piq2 o)) 2 =? 0); [reflexivity|]. unfold ns. cbn [upd_sim so_name so_strat]. apply (ns_add_frag tb o pt (so_price o)).
Qed.
Lemma ns_process_traded tb pt : forall tr o, ns (fst (process_traded tb pt tr o)) = ns o.
Proof.
  induction tr as [|[tp ts] r IH]; intros o; cbn [process_traded]; [reflexivity|].
  destruct (match so_side o with Back => so_price o <=? tp | Lay => tp <=? so_price o end).
  - destruct (calc_traded tb pt ts o) as [o1 m] eqn:E. specialize (IH o1). destruct (process_traded tb pt r o1) as [o2 r']. cbn [fst] in *.
    rewrite IH. pose proof (ns_calc_traded tb pt ts o) as H. rewrite E in H. exact H.
  - specialize (IH o). destruct (process_traded tb pt r o) as [o2 r']. exact IH.
Qed.
Lemma ns_process_sp tb c pt r o : ns (fst (process_sp tb c pt r o)) = ns o.
Proof.
  unfold process_sp. destruct (r_sp r) as [sp|]; [|reflexivity]. destruct (sp =? 0); [reflexivity|]. cbv zeta.
  set (o' := upd_sim o (so_mver o) (so_piq2 o) true). assert (H0 : ns o' = ns o) by reflexivity.
  destruct (so_type o'); destruct (so_side o'); cbn [fst];
    repeat match goal with |- context [if ?c then _ else _] => destruct c end; cbn [fst]; rewrite ?ns_add_frag; try exact H0; reflexivity.
Qed.
Lemma ns_on_book tb c b r tr o : ns (fst (fst (on_book tb c b r tr o))) = ns o.
Proof.
  unfold on_book. cbv zeta.
  destruct (negb (so_bsp o) && b_bsp_rec b) eqn:E1.
  - destruct (take_sp o).
    + pose proof (ns_process_sp tb c (b_pt b) r o) as H. destruct (process_sp tb c (b_pt b) r o) as [o1 d]. exact H.
    + set (o' := upd_sim o (so_mver o) (so_piq2 o) true). assert (H0 : ns o' = ns o) by reflexivity.
      destruct (so_type o'); [|exact H0|exact H0].
      set (o1 := if negb (opt_eqb Z.eqb (so_mver o') (Some (b_version b))) then upd_sim o' (Some (b_version b)) (so_piq2 o') (so_bsp o') else o').
      assert (H1 : ns o1 = ns o) by (unfold o1; destruct (negb (opt_eqb Z.eqb (so_mver o') (Some (b_version b)))); exact H0).
      destruct (negb (opt_eqb Z.eqb (so_mver o') (Some (b_version b))) && mstatus_eqb (b_status b) MSuspended && persist_eqb (so_persist o1) PLapse); [exact H1|].
      destruct tr as [|t0 tr0]; [exact H1|]. pose proof (ns_process_traded tb (b_pt b) (t0 :: tr0) o1) as H.
      destruct (process_traded tb (b_pt b) (t0 :: tr0) o1) as [o2 tr']. cbn [fst] in *. rewrite H. exact H1.
  - destruct (so_type o); [|reflexivity|reflexivity].
    set (o1 := if negb (opt_eqb Z.eqb (so_mver o) (Some (b_version b))) then upd_sim o (Some (b_version b)) (so_piq2 o) (so_bsp o) else o).
    assert (H1 : ns o1 = ns o) by (unfold o1; destruct (negb (opt_eqb Z.eqb (so_mver o) (Some (b_version b)))); reflexivity).
    destruct (negb (opt_eqb Z.eqb (so_mver o) (Some (b_version b))) && mstatus_eqb (b_status b) MSuspended && persist_eqb (so_persist o1) PLapse); [exact H1|].
    destruct tr as [|t0 tr0]; [exact H1|]. pose proof (ns_process_traded tb (b_pt b) (t0 :: tr0) o1) as H.
    destruct (process_traded tb (b_pt b) (t0 :: tr0) o1) as [o2 tr']. cbn [fst] in *. rewrite H. exact H1.
Qed.

(* ---------- projection on one strategy ---------- *)
Definition proj_strat (st : Z) (l : list sorder) : list sorder := filter (fun o => so_strat o =? st) l.

Lemma get_order_in n os o : get_order n os = Some o -> In o os /\ so_name o = n.
Proof. unfold get_order. intros H. apply find_some in H. destruct H as [H1 H2]. split; [exact H1|lia]. Qed.
Lemma get_order_absent n os : ~ In n (map so_name os) -> get_order n os = None.
Proof.
  intros H. unfold get_order. destruct (find (fun o => so_name o =? n) os) as [o|] eqn:E; [|reflexivity]. exfalso. apply find_some in E. destruct E as [E1 E2].
  apply H. apply in_map_iff. exists o. split; [lia|exact E1].
Qed.
Lemma upd_order_absent n f os : ~ In n (map so_name os) -> upd_order n f os = os.
Proof.
  induction os as [|x r IH]; intros H; cbn [upd_order]; [reflexivity|]. cbn [map In] in H.
  destruct (so_name x =? n) eqn:E; [exfalso; apply H; left; lia|]. rewrite IH by tauto. reflexivity.
Qed.
Lemma names_P st os n : In n (map so_name (proj_strat st os)) -> In n (map so_name os).
Proof. intros H. apply in_map_iff in H. destruct H as [o [E Ho]]. apply filter_In in Ho. apply in_map_iff. exists o. tauto. Qed.
Lemma nodup_P st os : NoDup (map so_name os) -> NoDup (map so_name (proj_strat st os)).
Proof.
  induction os as [|x r IH]; intros H; cbn [proj_strat filter map]; [constructor|]. cbn [map] in H. inversion H as [|? ? Hx Hr]; subst.
  destruct (so_strat x =? st); [|apply IH; exact Hr]. cbn [map]. constructor; [|apply IH; exact Hr]. intro Hin. apply Hx. eapply names_P. exact Hin.
Qed.

Lemma get_order_P st n os : NoDup (map so_name os) ->
  get_order n (proj_strat st os) = match get_order n os with Some o => if so_strat o =? st then Some o else None | None => None end.
Proof.
  induction os as [|x r IH]; intros Hnd; [reflexivity|]. cbn [map] in Hnd. inversion Hnd as [|? ? Hx Hr]; subst.
  unfold get_order in *. cbn [proj_strat filter find]. destruct (so_name x =? n) eqn:En.
  - destruct (so_strat x =? st) eqn:Es; cbn [find]; [rewrite En; reflexivity|].
    (* x is the one named n but belongs to another strategy: nobody else is named n *)
    change (find (fun o => so_name o =? n) (proj_strat st r) = None). apply get_order_absent. intro Hin. apply Hx. replace (so_name x) with n by lia. eapply names_P. exact Hin.
  - destruct (so_strat x =? st); cbn [find]; rewrite ?En; apply IH; exact Hr.
Qed.

Lemma upd_order_P st n f os : NoDup (map so_name os) -> (forall o, so_strat (f o) = so_strat o) ->
  proj_strat st (upd_order n f os) = upd_order n f (proj_strat st os).
Proof.
  intros Hnd Hf. induction os as [|x r IH]; [reflexivity|]. cbn [map] in Hnd. inversion Hnd as [|? ? Hx Hr]; subst. cbn [upd_order].
  destruct (so_name x =? n) eqn:En.
  - cbn [proj_strat filter]. rewrite Hf. destruct (so_strat x =? st) eqn:Es; cbn [upd_order]; [rewrite En; reflexivity|].
    symmetry. apply upd_order_absent. intro Hin. apply Hx. replace (so_name x) with n by lia. eapply names_P. exact Hin.
  - cbn [proj_strat filter]. destruct (so_strat x =? st); cbn [upd_order]; rewrite ?En; [f_equal|]; apply IH; exact Hr.
Qed.

Lemma map_ns_upd n o2 os o : get_order n os = Some o -> ns o2 = ns o -> map ns (upd_order n (fun _ => o2) os) = map ns os.
Proof.
  unfold get_order. induction os as [|x r IH]; intros Hg Hns; [reflexivity|]. cbn [find] in Hg. cbn [upd_order]. destruct (so_name x =? n).
  - inversion Hg; subst. cbn [map]. rewrite Hns. reflexivity.
  - cbn [map]. f_equal. apply IH; assumption.
Qed.
Lemma names_of_ns os : map so_name os = map fst (map ns os).
Proof. rewrite map_map. reflexivity. Qed.

Lemma upd_order_P_const st n o2 os o : NoDup (map so_name os) -> get_order n os = Some o -> so_strat o2 = so_strat o ->
  proj_strat st (upd_order n (fun _ => o2) os) = upd_order n (fun _ => o2) (proj_strat st os).
Proof.
  intros Hnd Hg Hs. induction os as [|x r IH]; [reflexivity|]. cbn [map] in Hnd. inversion Hnd as [|? ? Hx Hr]; subst. cbn [upd_order].
  unfold get_order in Hg. cbn [find] in Hg. destruct (so_name x =? n) eqn:En.
  - inversion Hg; subst x. cbn [proj_strat filter]. rewrite Hs. destruct (so_strat o =? st) eqn:Es; cbn [upd_order]; [rewrite En; reflexivity|].
    symmetry. apply upd_order_absent. intro Hin. apply Hx. replace (so_name o) with n by lia. eapply names_P. exact Hin.
  - cbn [proj_strat filter]. destruct (so_strat x =? st); cbn [upd_order]; rewrite ?En; [f_equal|]; apply IH; assumption.
Qed.

Section Matching.
  Variables (tb : tiebreak) (cf : config) (b : book).

  Definition mstep (st : list sorder * list (Z * traded)) (o0 : sorder) : list sorder * list (Z * traded) :=
    let '(os, lk) := st in
    match get_order (so_name o0) os with
    | None => st
    | Some o =>
      let tr := match find (fun e => fst e =? so_sel o) lk with Some e => snd e | None => [] end in
      match find_runner b (so_sel o) with
      | None => st
      | Some r =>
          let '(o1, tr', done) := on_book tb (client_of cf (so_strat o)) b r tr o in
          let o2 := if done then exec_complete (cf_complete cf) (b_pt b) o1 else o1 in
          (upd_order (so_name o) (fun _ => o2) os,
           map (fun e => if fst e =? so_sel o then (fst e, tr') else e) lk)
      end
    end.

  Lemma match_orders_fold ans live orders :
    match_orders tb cf b ans live orders = fst (fold_left mstep (sort_orders live) (orders, map (fun a => (an_sel a, an_traded a)) ans)).
  Proof. unfold match_orders. cbv zeta. fold mstep. destruct (fold_left mstep (sort_orders live) _). reflexivity. Qed.

  (* what one step does to the identities: nothing *)
  Lemma mstep_ns os lk o0 : map ns (fst (mstep (os, lk) o0)) = map ns os.
  Proof.
    unfold mstep. destruct (get_order (so_name o0) os) as [o|] eqn:Eg; [|reflexivity]. cbv zeta.
    destruct (find_runner b (so_sel o)) as [r|]; [|reflexivity].
    pose proof (ns_on_book tb (client_of cf (so_strat o)) b r (match find (fun e => fst e =? so_sel o) lk with Some e => snd e | None => [] end) o) as Hns.
    destruct (on_book tb (client_of cf (so_strat o)) b r _ o) as [[o1 tr'] done]. cbn [fst] in *.
    destruct (get_order_in _ _ _ Eg) as [_ Hn].
    eapply map_ns_upd; [rewrite Hn; exact Eg|]. destruct done; [|exact Hns]. unfold exec_complete, set_status, ns. cbn [upd_ord so_name so_strat]. exact Hns.
  Qed.

  Definition owner_is (st : Z) (os : list sorder) (n : Z) : Prop := forall p, In p (map ns os) -> fst p = n -> snd p = st.

  (* the step of an order owned by st commutes with the projection on st *)
  Lemma mstep_P st os lk o0 : NoDup (map so_name os) -> owner_is st os (so_name o0) ->
    mstep (proj_strat st os, lk) o0 = (proj_strat st (fst (mstep (os, lk) o0)), snd (mstep (os, lk) o0)).
  Proof.
    intros Hnd Hown. unfold mstep. rewrite get_order_P by exact Hnd.
    destruct (get_order (so_name o0) os) as [o|] eqn:Eg; [|reflexivity].
    destruct (get_order_in _ _ _ Eg) as [Hin Hn].
    assert (Hs : so_strat o = st) by (apply (Hown (ns o)); [apply in_map; exact Hin|exact Hn]).
    replace (so_strat o =? st) with true by lia. cbv zeta.
    destruct (find_runner b (so_sel o)) as [r|]; [|reflexivity].
    pose proof (ns_on_book tb (client_of cf (so_strat o)) b r (match find (fun e => fst e =? so_sel o) lk with Some e => snd e | None => [] end) o) as Hns.
    destruct (on_book tb (client_of cf (so_strat o)) b r _ o) as [[o1 tr'] done]. cbn [fst snd] in *.
    rewrite (upd_order_P_const st (so_name o) _ os o); [reflexivity|exact Hnd|rewrite Hn; exact Eg|].
    assert (Hs1 : so_strat o1 = so_strat o) by (apply (f_equal snd) in Hns; exact Hns).
    destruct done; [|exact Hs1]. exact Hs1.
  Qed.
  (* the step of an order owned by somebody else leaves the projection on st alone *)
  Lemma mstep_other st st' os lk o0 : NoDup (map so_name os) -> owner_is st' os (so_name o0) -> st' <> st -> proj_strat st (fst (mstep (os, lk) o0)) = proj_strat st os.
  Proof.
    intros Hnd Hown Hne. unfold mstep.
    destruct (get_order (so_name o0) os) as [o|] eqn:Eg; [|reflexivity].
    destruct (get_order_in _ _ _ Eg) as [Hin Hn].
    assert (Hs : so_strat o = st') by (apply (Hown (ns o)); [apply in_map; exact Hin|exact Hn]).
    cbv zeta. destruct (find_runner b (so_sel o)) as [r|]; [|reflexivity].
    pose proof (ns_on_book tb (client_of cf (so_strat o)) b r (match find (fun e => fst e =? so_sel o) lk with Some e => snd e | None => [] end) o) as Hns.
    destruct (on_book tb (client_of cf (so_strat o)) b r _ o) as [[o1 tr'] done]. cbn [fst snd] in *.
    assert (Hs1 : so_strat o1 = so_strat o) by (apply (f_equal snd) in Hns; exact Hns).
    rewrite (upd_order_P_const st (so_name o) _ os o); [|exact Hnd|rewrite Hn; exact Eg|destruct done; exact Hs1].
    apply upd_order_absent. intro Hin'. apply in_map_iff in Hin'. destruct Hin' as [x [Ex Hx]]. apply filter_In in Hx. destruct Hx as [Hx1 Hx2].
    (* x is named like o and in os: it is o (unique names), but its strategy is st *)
    assert (x = o).
    { clear - Hnd Hin Hx1 Ex. induction os as [|y r IH]; [destruct Hin|]. cbn [map] in Hnd. inversion Hnd as [|? ? Hy Hr]; subst.
      destruct Hin as [->|Hin]; destruct Hx1 as [->|Hx1]; try reflexivity.
      - exfalso. apply Hy. rewrite <- Ex. apply in_map. exact Hx1.
      - exfalso. apply Hy. rewrite Ex. apply in_map. exact Hin.
      - apply IH; assumption. }
    subst x. lia.
  Qed.
End Matching.

Section Matching2.
  Variables (tb : tiebreak) (cf : config) (b : book).
  Notation mstep := (mstep tb cf b).

  Lemma nodup_of_ns os os' : map ns os' = map ns os -> NoDup (map so_name os) -> NoDup (map so_name os').
  Proof. intros H Hn. rewrite names_of_ns, H, <- names_of_ns. exact Hn. Qed.
  Lemma owner_of_ns st os os' n : map ns os' = map ns os -> owner_is st os n -> owner_is st os' n.
  Proof. intros H Ho p Hp. rewrite H in Hp. apply Ho. exact Hp. Qed.

  Lemma fold_ns l : forall os lk, map ns (fst (fold_left mstep l (os, lk))) = map ns os.
  Proof.
    induction l as [|x r IH]; intros os lk; cbn [fold_left]; [reflexivity|].
    destruct (mstep (os, lk) x) as [os1 lk1] eqn:E. rewrite IH. pose proof (mstep_ns tb cf b os lk x) as H. rewrite E in H. exact H.
  Qed.

  Lemma fold_P st l : forall os lk, NoDup (map so_name os) -> (forall o0, In o0 l -> owner_is st os (so_name o0)) ->
    fold_left mstep l (proj_strat st os, lk) = (proj_strat st (fst (fold_left mstep l (os, lk))), snd (fold_left mstep l (os, lk))).
  Proof.
    induction l as [|x r IH]; intros os lk Hnd Hown; cbn [fold_left]; [reflexivity|].
    rewrite (mstep_P tb cf b st os lk x Hnd (Hown x (or_introl eq_refl))).
    pose proof (mstep_ns tb cf b os lk x) as Hns.
    destruct (mstep (os, lk) x) as [os1 lk1]. cbn [fst snd] in *.
    apply IH; [eapply nodup_of_ns; eassumption|]. intros o0 Ho0. eapply owner_of_ns; [exact Hns|]. apply Hown. right. exact Ho0.
  Qed.
  Lemma fold_other st st' l : st' <> st -> forall os lk, NoDup (map so_name os) -> (forall o0, In o0 l -> owner_is st' os (so_name o0)) ->
    proj_strat st (fst (fold_left mstep l (os, lk))) = proj_strat st os.
  Proof.
    intros Hne. induction l as [|x r IH]; intros os lk Hnd Hown; cbn [fold_left]; [reflexivity|].
    pose proof (mstep_other tb cf b st st' os lk x Hnd (Hown x (or_introl eq_refl)) Hne) as Hp.
    pose proof (mstep_ns tb cf b os lk x) as Hns.
    destruct (mstep (os, lk) x) as [os1 lk1]. cbn [fst] in *.
    rewrite IH; [exact Hp|eapply nodup_of_ns; eassumption|]. intros o0 Ho0. eapply owner_of_ns; [exact Hns|]. apply Hown. right. exact Ho0.
  Qed.

  (* the sorted list holds the same orders as the list it sorts *)
  Lemma sort_by_in key (l : list sorder) x : In x (sort_by key l) -> In x l.
  Proof.
    unfold sort_by. assert (match_strategy : forall l0 acc, In x (fold_left (fun acc o => insert_by key o acc) l0 acc) -> In x l0 \/ In x acc).
    { induction l0 as [|y l0 IH]; intros acc H; cbn [fold_left] in H; [right; exact H|].
      destruct (IH _ H) as [H1|H1]; [left; right; exact H1|].
      assert (I : forall acc0, In x (insert_by key y acc0) -> x = y \/ In x acc0).
      { induction acc0 as [|a acc0 IHa]; cbn [insert_by In]; [intros [<-|[]]; left; reflexivity|].
        destruct (key y <? key a); cbn [In]; [intros [<-|H2]; [left; reflexivity|right; exact H2]|].
        intros [<-|H2]; [right; left; reflexivity|]. destruct (IHa H2) as [->|H3]; [left; reflexivity|right; right; exact H3]. }
      destruct (I _ H1) as [->|H2]; [left; left; reflexivity|right; exact H2]. }
    intros H. destruct (match_strategy l [] H) as [H1|[]]. exact H1.
  Qed.
  Lemma sort_orders_in live x : In x (sort_orders live) -> In x live.
  Proof.
    unfold sort_orders. rewrite !in_app_iff. intros [H|[H|H]]; [apply sort_by_in in H|apply sort_by_in in H|]; apply filter_In in H; tauto.
  Qed.

  Lemma owner_of_member st os x : NoDup (map so_name os) -> In x os -> so_strat x = st -> owner_is st os (so_name x).
  Proof.
    intros Hnd Hin Hs p Hp Hfst. apply in_map_iff in Hp. destruct Hp as [y [<- Hy]]. cbn in Hfst.
    assert (y = x).
    { clear - Hnd Hin Hy Hfst. induction os as [|z r IH]; [destruct Hin|]. cbn [map] in Hnd. inversion Hnd as [|? ? Hz Hr]; subst.
      destruct Hin as [->|Hin]; destruct Hy as [->|Hy]; try reflexivity.
      - exfalso. apply Hz. rewrite <- Hfst. apply in_map. exact Hy.
      - exfalso. apply Hz. rewrite Hfst. apply in_map. exact Hin.
      - apply IH; assumption. }
    subst y. exact Hs.
  Qed.

  (* matching the live orders of strategy st: its own orders end up exactly as if the other strategies' orders were not there ... *)
  Theorem match_orders_P st ans live os : NoDup (map so_name os) -> (forall x, In x live -> In x os /\ so_strat x = st) ->
    proj_strat st (match_orders tb cf b ans live os) = match_orders tb cf b ans live (proj_strat st os).
  Proof.
    intros Hnd Hlive. rewrite !match_orders_fold. rewrite (fold_P st); [reflexivity|exact Hnd|].
    intros o0 Ho0. apply sort_orders_in in Ho0. destruct (Hlive o0 Ho0) as [Hin Hs]. apply owner_of_member; assumption.
  Qed.
  (* ... and matching another strategy's live orders does not touch them *)
  Theorem match_orders_other st st' ans live os : st' <> st -> NoDup (map so_name os) -> (forall x, In x live -> In x os /\ so_strat x = st') ->
    proj_strat st (match_orders tb cf b ans live os) = proj_strat st os.
  Proof.
    intros Hne Hnd Hlive. rewrite match_orders_fold. apply (fold_other st st'); [exact Hne|exact Hnd|].
    intros o0 Ho0. apply sort_orders_in in Ho0. destruct (Hlive o0 Ho0) as [Hin Hs]. apply owner_of_member; assumption.
  Qed.
  Lemma match_orders_ns ans live os : map ns (match_orders tb cf b ans live os) = map ns os.
  Proof. rewrite match_orders_fold. apply fold_ns. Qed.
End Matching2.

Section Isolation.
  Variables (tb : tiebreak) (cf : config) (b : book) (ans : list analytics).

  Definition match_strategy (st : Z) (os : list sorder) : list sorder :=
    let live := filter (fun o => (so_strat o =? st) && status_in (so_status o) (cf_mw_live cf)) os in
    match live with [] => os | _ => match_orders tb cf b ans live os end.

  Lemma G_ns st os : map ns (match_strategy st os) = map ns os.
  Proof. unfold match_strategy. cbv zeta. destruct (filter _ os); [reflexivity|apply match_orders_ns]. Qed.
  Lemma live_members st os x : In x (filter (fun o => (so_strat o =? st) && status_in (so_status o) (cf_mw_live cf)) os) -> In x os /\ so_strat x = st.
  Proof. intros H. apply filter_In in H. destruct H as [H1 H2]. apply andb_true_iff in H2. split; [exact H1|lia]. Qed.
  Lemma G_other st st' os : st' <> st -> NoDup (map so_name os) -> proj_strat st (match_strategy st' os) = proj_strat st os.
  Proof.
    intros Hne Hnd. unfold match_strategy. cbv zeta. destruct (filter _ os) as [|y l] eqn:E; [reflexivity|].
    apply (match_orders_other tb cf b st st'); [exact Hne|exact Hnd|]. intros x Hx. rewrite <- E in Hx. apply live_members. exact Hx.
  Qed.
  Lemma filter_filter_sub {A} (f g : A -> bool) l : (forall x, f x = true -> g x = true) -> filter f (filter g l) = filter f l.
  Proof.
    intros H. induction l as [|x r IH]; [reflexivity|]. cbn [filter]. destruct (g x) eqn:Eg; cbn [filter]; [rewrite IH; reflexivity|].
    destruct (f x) eqn:Ef; [rewrite (H x Ef) in Eg; discriminate|exact IH].
  Qed.
  Lemma G_P st os : NoDup (map so_name os) -> proj_strat st (match_strategy st os) = match_strategy st (proj_strat st os).
  Proof.
    intros Hnd. unfold match_strategy. cbv zeta.
    assert (El : filter (fun o => (so_strat o =? st) && status_in (so_status o) (cf_mw_live cf)) (proj_strat st os)
               = filter (fun o => (so_strat o =? st) && status_in (so_status o) (cf_mw_live cf)) os).
    { unfold proj_strat. apply filter_filter_sub. intros x Hx. apply andb_true_iff in Hx. tauto. }
    rewrite El. destruct (filter _ os) as [|y l] eqn:E; [reflexivity|].
    apply (match_orders_P tb cf b st); [exact Hnd|]. intros x Hx. rewrite <- E in Hx. apply live_members. exact Hx.
  Qed.

  Lemma fold_G st : forall sts os, NoDup (map so_name os) -> NoDup sts ->
    proj_strat st (fold_left (fun os s => match_strategy s os) sts os) = if existsb (Z.eqb st) sts then match_strategy st (proj_strat st os) else proj_strat st os.
  Proof.
    induction sts as [|s r IH]; intros os Hnd Hs; cbn [fold_left existsb]; [reflexivity|].
    inversion Hs as [|? ? Hsr Hr]; subst.
    assert (Hnd' : NoDup (map so_name (match_strategy s os))) by (eapply nodup_of_ns; [apply G_ns|exact Hnd]).
    rewrite IH by assumption. destruct (st =? s) eqn:E.
    - assert (s = st) by lia. subst s. cbn [orb].
      replace (existsb (Z.eqb st) r) with false; [apply G_P; exact Hnd|].
      symmetry. apply not_true_is_false. intro H. apply existsb_exists in H. destruct H as [x [Hx Ex]]. apply Hsr. replace st with x by lia. exact Hx.
    - cbn [orb]. rewrite (G_other st s) by (try lia; exact Hnd). reflexivity.
  Qed.

  (* strategies in first-appearance order *)
  Lemma sio_spec : forall os seen s, In s (strategies_in_order os seen) <-> (exists o, In o os /\ so_strat o = s) /\ ~ In s seen.
  Proof.
    induction os as [|o r IH]; intros seen s; cbn [strategies_in_order]; [split; [intros []|intros [[x [[] _]] _]]|].
    destruct (existsb (Z.eqb (so_strat o)) seen) eqn:E.
    - rewrite IH. split.
      + intros [[x [Hx Es]] Hn]. split; [exists x; split; [right; exact Hx|exact Es]|exact Hn].
      + intros [[x [[->|Hx] Es]] Hn]; [|split; [exists x; tauto|exact Hn]].
        exfalso. apply existsb_exists in E. destruct E as [y [Hy Ey]]. apply Hn. replace s with y by lia. exact Hy.
    - cbn [In]. rewrite IH. split.
      + intros [<-|[[x [Hx Es]] Hn]].
        * split; [exists o; split; [left; reflexivity|reflexivity]|]. intro H. assert (existsb (Z.eqb (so_strat o)) seen = true) by (apply existsb_exists; exists (so_strat o); split; [exact H|lia]). congruence.
        * split; [exists x; split; [right; exact Hx|exact Es]|]. intro H. apply Hn. right. exact H.
      + intros [[x [[->|Hx] Es]] Hn]; [left; exact Es|].
        destruct (Z.eq_dec (so_strat o) s) as [E2|E2]; [left; exact E2|]. right. split; [exists x; tauto|]. intros [H|H]; [congruence|tauto].
  Qed.
  Lemma sio_nodup : forall os seen, NoDup (strategies_in_order os seen).
  Proof.
    induction os as [|o r IH]; intros seen; cbn [strategies_in_order]; [constructor|].
    destruct (existsb (Z.eqb (so_strat o)) seen); [apply IH|]. constructor; [|apply IH]. intro H. apply sio_spec in H. destruct H as [_ H]. apply H. left. reflexivity.
  Qed.
  Lemma sio_single st : forall os seen, (forall o, In o os -> so_strat o = st) -> ~ In st seen ->
    strategies_in_order os seen = match os with [] => [] | _ => [st] end.
  Proof.
    induction os as [|o r IH]; intros seen Hall Hn; [reflexivity|]. cbn [strategies_in_order]. rewrite (Hall o) by (left; reflexivity).
    replace (existsb (Z.eqb st) seen) with false.
    - f_equal. assert (Hr : forall seen', In st seen' -> strategies_in_order r seen' = []).
      { clear - Hall. induction r as [|x r IH]; intros seen' Hs; [reflexivity|]. cbn [strategies_in_order]. rewrite (Hall x) by (right; left; reflexivity).
        replace (existsb (Z.eqb st) seen') with true; [apply IH; [intros y [->|Hy]; apply Hall; [left; reflexivity|right; right; exact Hy]|exact Hs]|].
        symmetry. apply existsb_exists. exists st. split; [exact Hs|lia]. }
      apply Hr. left. reflexivity.
    - symmetry. apply not_true_is_false. intro H. apply existsb_exists in H. destruct H as [x [Hx Ex]]. apply Hn. replace st with x by lia. exact Hx.
  Qed.

  (* NON-INTERFERENCE OF THE MATCHER under strategy isolation: what the simulated matching of one market update does to the orders of a
     strategy is exactly what it would do if the other strategies' orders were not in the market at all *)
  Theorem isolation_matching st orders : cf_isolation cf = true -> NoDup (map so_name orders) ->
    proj_strat st (process_sim_orders tb cf b ans orders) = process_sim_orders tb cf b ans (proj_strat st orders).
  Proof.
    intros Hiso Hnd. unfold process_sim_orders. rewrite Hiso. fold match_strategy.
    change (fun os st0 => let live := filter (fun o => (so_strat o =? st0) && status_in (so_status o) (cf_mw_live cf)) os in match live with [] => os | _ :: _ => match_orders tb cf b ans live os end)
      with (fun os s => match_strategy s os).
    rewrite (fold_G st) by (try exact Hnd; apply sio_nodup).
    rewrite (sio_single st (proj_strat st orders) []); [|intros o Ho; apply filter_In in Ho; destruct Ho as [_ Ho]; lia|intros []].
    destruct (proj_strat st orders) as [|y l] eqn:Ep.
    - cbn [fold_left]. replace (existsb (Z.eqb st) (strategies_in_order orders [])) with false; [reflexivity|].
      symmetry. apply not_true_is_false. intro H. apply existsb_exists in H. destruct H as [x [Hx Ex]]. apply sio_spec in Hx. destruct Hx as [[o [Ho Es]] _].
      assert (In o (proj_strat st orders)) by (apply filter_In; split; [exact Ho|lia]). rewrite Ep in H. destruct H.
    - cbn [fold_left]. replace (existsb (Z.eqb st) (strategies_in_order orders [])) with true; [reflexivity|].
      symmetry. apply existsb_exists. exists st. split; [|lia]. apply sio_spec. split; [|intros []].
      assert (Hy : In y (proj_strat st orders)) by (rewrite Ep; left; reflexivity). apply filter_In in Hy. exists y. split; [tauto|lia].
  Qed.
End Isolation.

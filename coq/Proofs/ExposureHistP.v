(* ExposureHistP.v — C01 over histories: with the strategy-exposure control accepting every placement, and the exchange filling
   orders at their limit or better, cancelling, lapsing or completing them, the true worst-case loss of a strategy on a selection
   (C16's specification `worst`) never exceeds the configured limit by more than a penny. *)
From Coq Require Import ZArith List Bool Lia ZifyBool.
From V Require Import Model.Num Model.Status Model.Exposure Model.ExposureSpec Model.ExposureCtl Proofs.NumP Proofs.ExposureP Proofs.ExposureCtlP.
Open Scope Z_scope.

(* o' is at least as good as o in both outcomes *)
Definition improves (pending : list status) (o o' : osum) : Prop :=
  wf_o o' = true /\ o_sel o' = o_sel o /\ counted pending None o' = counted pending None o /\
  contrib true o <= contrib true o' /\ contrib false o <= contrib false o'.

Section History.
  Variables (tb : tiebreak) (pending : list status) (lim : limits) (active nwin sel m : Z).
  Hypothesis Hlim : max_sel lim = Some m.

  Inductive step : list osum -> list osum -> Prop :=
    | step_place orders o :
        o_sel o = sel -> new_order_wf pending o -> wf_o o = true ->
        exposure_ok tb pending lim PkPlace orders active nwin o = true ->
        step orders (orders ++ [o])
    | step_change pre o o' post : improves pending o o' -> step (pre ++ o :: post) (pre ++ o' :: post).
  Inductive reach : list osum -> Prop :=
    | reach_nil : reach []
    | reach_step a b : reach a -> step a b -> reach b.

  Definition within (orders : list osum) : Prop :=
    let pos := position pending None orders None in
    - worst true pos <= 100 * m + 100 /\ - worst false pos <= 100 * m + 100.
  Definition inv (orders : list osum) : Prop :=
    forallb wf_o orders = true /\ (forall o, In o orders -> o_sel o = sel) /\ within orders.

  Lemma filter_all (orders : list osum) : (forall o, In o orders -> o_sel o = sel) -> filter (fun x => o_sel x =? sel) orders = orders.
  Proof.
    induction orders as [|o r IH]; intros H; cbn [filter]; [reflexivity|]. rewrite (H o) by (left; reflexivity). rewrite Z.eqb_refl. f_equal. apply IH. intros x Hx. apply H. right. exact Hx.
  Qed.
  Lemma position_app (a b : list osum) : position pending None (a ++ b) None = position pending None a None ++ position pending None b None.
  Proof. unfold position. rewrite !app_nil_r. apply filter_app. Qed.
  Lemma position_single o : position pending None [o] None = if counted pending None o then [o] else [].
  Proof. unfold position. cbn. destruct (counted pending None o); reflexivity. Qed.

  Lemma step_inv a b : 0 <= m + 1 -> inv a -> step a b -> inv b.
  Proof.
    intros Hm (Hwf & Hsel & Hw) Hs. destruct Hs as [orders o Ho Hnew Hwfo Hok|pre o o' post Himp].
    - split; [|split].
      + rewrite forallb_app, Hwf. cbn. rewrite Hwfo. reflexivity.
      + intros x Hx. apply in_app_or in Hx. destruct Hx as [Hx|[<-|[]]]; [apply Hsel; exact Hx|exact Ho].
      + unfold within in *. cbv zeta in *.
        assert (Hf : filter (fun x => o_sel x =? o_sel o) orders = orders) by (rewrite Ho; apply filter_all; exact Hsel).
        pose proof (place_keeps_selection_within_limit tb pending lim orders active nwin o m Hnew) as P. rewrite Hf in P.
        specialize (P Hwf Hlim Hok). cbv zeta in P. destruct Hw as [H1 H2]. specialize (P H1 H2).
        rewrite position_app, position_single.
        assert (Hc : counted pending None o = true).
        { destruct Hnew as (_ & _ & Hst & _). unfold counted. rewrite Hst. reflexivity. }
        rewrite Hc. exact P.
    - destruct Himp as (Hwf' & Hsel' & Hcnt & Ht & Hf).
      split; [|split].
      + rewrite forallb_app in *. cbn [forallb] in *. apply andb_true_iff in Hwf. destruct Hwf as [A B]. apply andb_true_iff in B. destruct B as [_ B]. rewrite A, Hwf', B. reflexivity.
      + intros x Hx. apply in_app_or in Hx. destruct Hx as [Hx|[<-|Hx]].
        * apply Hsel. apply in_or_app. left. exact Hx.
        * rewrite Hsel'. apply Hsel. apply in_or_app. right. left. reflexivity.
        * apply Hsel. apply in_or_app. right. right. exact Hx.
      + unfold within in *. cbv zeta in *.
        change (pre ++ o' :: post) with (pre ++ [o'] ++ post). change (pre ++ o :: post) with (pre ++ [o] ++ post) in Hw.
        rewrite !position_app, !position_single in Hw. rewrite !position_app, !position_single. rewrite Hcnt.
        destruct Hw as [H1 H2].
        assert (E : forall b x, worst b (position pending None pre None ++ (if counted pending None o then [x] else []) ++ position pending None post None)
                               = worst b (position pending None pre None) + (if counted pending None o then contrib b x else 0) + worst b (position pending None post None)).
        { intros b x. rewrite !worst_is_sum. rewrite !map_app, !sumZ_app. destruct (counted pending None o); cbn [map sumZ]; lia. }
        rewrite !E in *. destruct (counted pending None o); lia.
  Qed.

  Theorem reach_within orders : 0 <= m + 1 -> reach orders -> within orders.
  Proof.
    intros Hm Hr. assert (Hi : inv orders).
    { induction Hr as [|a b Ha IH Hs]; [|eapply step_inv; eassumption].
      split; [reflexivity|]. split; [intros o []|]. unfold within, position. cbv zeta. cbn [app filter]. rewrite !worst_is_sum. cbn [map sumZ]. lia. }
    apply Hi.
  Qed.
End History.

(* ---- the exchange-side changes that are improvements ---- *)
Definition with_sizes (o : osum) (matched avg remaining : Z) (complete : bool) : osum :=
  {| o_id := o_id o; o_sel := o_sel o; o_side := o_side o; o_kind := o_kind o; o_status := o_status o; o_complete := complete;
     o_matched := matched; o_avg := avg; o_remaining := remaining; o_price := o_price o; o_liab := o_liab o |}.

(* a fill of d at the limit price or better (the value of the matched part grows by at least / at most the limit value) *)
Ltac proj := cbn [with_sizes o_id o_sel o_side o_kind o_status o_complete o_matched o_avg o_remaining o_price o_liab].

Theorem fill_improves pending o d avg' :
  o_kind o = KLimit false -> o_complete o = false -> wf_o o = true -> 100 <= o_price o -> 0 <= d <= o_remaining o -> 100 <= avg' ->
  (match o_side o with
   | Back => (o_avg o - 100) * o_matched o + (o_price o - 100) * d <= (avg' - 100) * (o_matched o + d)
   | Lay  => (avg' - 100) * (o_matched o + d) <= (o_avg o - 100) * o_matched o + (o_price o - 100) * d
   end) ->
  improves pending o (with_sizes o (o_matched o + d) avg' (o_remaining o - d) false).
Proof.
  intros Hk Hc Hwf Hp Hd Ha Hval. unfold wf_o, eff_avg, eff_price in Hwf. rewrite Hk in Hwf.
  unfold improves, wf_o, counted, contrib, matched_pl, open_pl, open_size, eff_avg, eff_price, bet_pl. proj. rewrite Hk, Hc.
  replace (o_price o =? 0) with false by lia. cbv iota.
  repeat split; try reflexivity; [lia| |]; destruct (o_side o); nia.
Qed.

(* a cancellation / lapse of part or all of the open size, or completion *)
Theorem shrink_improves pending o rem' c :
  o_kind o = KLimit false -> wf_o o = true -> 0 <= rem' <= o_remaining o -> (o_complete o = true -> c = true) ->
  improves pending o (with_sizes o (o_matched o) (o_avg o) rem' c).
Proof.
  intros Hk Hwf Hr Hcc. unfold wf_o, eff_avg, eff_price in Hwf. rewrite Hk in Hwf.
  unfold improves, wf_o, counted, contrib, matched_pl, open_pl, open_size, eff_avg, eff_price, bet_pl. proj. rewrite Hk.
  repeat split; try reflexivity; [lia| |]; destruct (o_complete o); try (rewrite (Hcc eq_refl)); destruct c; destruct (o_price o =? 0) eqn:E; destruct (o_side o); cbv iota; try nia.
Qed.

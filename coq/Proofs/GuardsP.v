From Coq Require Import ZArith List Bool.
From V Require Import Model.Num Model.Status Model.Guards.
Open Scope Z_scope.

(* an accepted request: the order rests Executable with a known bet id and a compatible type, and moves to the matching transient status *)
Theorem guard_accepts c t st bet r st' : guard c t st bet r = Some st' ->
  st = SExecutable /\ bet = true /\
  (match r with GCancel | GCancelReduce _ => st' = SCancelling /\ t = TyLimit
              | GUpdate _ => st' = SUpdating /\ t = TyLimit
              | GReplace _ => st' = SReplacing /\ (t = TyLimit \/ t = TyLoc) /\ c = OBetfair end).
Proof.
  destruct c, r as [|[]|[]|[]], bet, t, st; cbn; intros H; try discriminate; inversion H; subst; repeat split; auto.
Qed.
(* while a placement or a request is in flight, and once the order is complete, every request is rejected *)
Theorem guard_rejects_unless_executable c t st bet r : st <> SExecutable -> guard c t st bet r = None.
Proof. intros H. destruct c, r as [|[]|[]|[]], bet, t, st; cbn; try reflexivity; congruence. Qed.
Theorem guard_rejects_without_bet c t st r : guard c t st false r = None.
Proof. destruct c, r as [|[]|[]|[]], t, st; reflexivity. Qed.

(* ExposureMarketP.v — C16.2: the market figure is the worst over every admissible set of winners:
   sum of the k smallest differences = minimum over all k-subsets. *)
From Coq Require Import ZArith List Bool Lia Permutation Sorting.Sorted.
From V Require Import Model.Num Model.Status Model.Exposure Proofs.NumP.
Open Scope Z_scope.

Lemma sumZ_perm l1 l2 : Permutation l1 l2 -> sumZ l1 = sumZ l2.
Proof. induction 1; simpl; lia. Qed.

Lemma sorted_head_le x l : StronglySorted (fun a b => is_true (Z.leb a b)) (x :: l) -> forall y, In y l -> x <= y.
Proof.
  intros H y Hy. inversion H as [|? ? _ Hall]; subst. rewrite Forall_forall in Hall.
  specialize (Hall y Hy). unfold is_true in Hall. lia.
Qed.

(* for an ascending list, the first k elements have the least sum among all k-element selections *)
Lemma ksmallest_sorted : forall k sl S rest,
  StronglySorted (fun a b => is_true (Z.leb a b)) sl ->
  Permutation sl (S ++ rest) -> length S = k -> sumZ (firstn k sl) <= sumZ S.
Proof.
  induction k as [|k IH]; intros sl S rest Hs Hp Hl.
  - destruct S; [simpl; lia|discriminate].
  - destruct S as [|y S']; [discriminate|]. simpl in Hl. injection Hl as Hl.
    destruct sl as [|x sl'].
    { apply Permutation_nil in Hp. discriminate. }
    assert (Hx : In x ((y :: S') ++ rest)) by (eapply Permutation_in; [exact Hp|left; reflexivity]).
    assert (Hs' : StronglySorted (fun a b => is_true (Z.leb a b)) sl') by (inversion Hs; assumption).
    cbn [firstn sumZ].
    apply in_app_or in Hx. destruct Hx as [Hx|Hx].
    + (* x is selected *)
      apply in_split in Hx as [S1 [S2 HS]].
      assert (Hp' : Permutation sl' ((S1 ++ S2) ++ rest)).
      { apply Permutation_cons_inv with (a := x).
        rewrite Hp, HS. rewrite <- !app_assoc. simpl.
        symmetry. apply Permutation_middle. }
      assert (Hl' : length (S1 ++ S2) = k).
      { assert (length (y :: S') = length (S1 ++ x :: S2)) by (rewrite HS; reflexivity).
        rewrite app_length in *. simpl in *. lia. }
      specialize (IH sl' (S1 ++ S2) rest Hs' Hp' Hl').
      assert (sumZ (y :: S') = x + sumZ (S1 ++ S2)).
      { rewrite HS, !sumZ_app. simpl. lia. }
      simpl in H. lia.
    + (* x is not selected: swap it in for y *)
      apply in_split in Hx as [R1 [R2 HR]].
      assert (Hp' : Permutation sl' (S' ++ (y :: R1 ++ R2))).
      { apply Permutation_cons_inv with (a := x).
        rewrite Hp, HR. simpl.
        transitivity (y :: x :: S' ++ R1 ++ R2).
        - apply perm_skip. rewrite app_assoc. symmetry. rewrite app_assoc. apply Permutation_middle.
        - rewrite perm_swap. apply perm_skip. apply Permutation_middle. }
      specialize (IH sl' S' (y :: R1 ++ R2) Hs' Hp' Hl).
      assert (x <= y).
      { apply (sorted_head_le x sl' Hs). eapply Permutation_in; [symmetry; exact Hp'|].
        apply in_or_app. right. left. reflexivity. }
      lia.
Qed.

Lemma sort_sorted l : StronglySorted (fun a b => is_true (Z.leb a b)) (ZSort.sort l).
Proof.
  apply ZSort.StronglySorted_sort. intros a b c H1 H2. unfold is_true, ZOrder.leb in *. lia.
Qed.

(* the k smallest: a lower bound for every selection of k winners ... *)
Theorem ksmallest_is_lower_bound k l S rest :
  Permutation l (S ++ rest) -> length S = k -> sumZ (firstn k (ZSort.sort l)) <= sumZ S.
Proof.
  intros Hp Hl. apply (ksmallest_sorted k (ZSort.sort l) S rest (sort_sorted l)); [|exact Hl].
  rewrite <- Hp. symmetry. apply ZSort.Permuted_sort.
Qed.

(* ... and attained by one of them *)
Theorem ksmallest_is_attained k l :
  exists S rest, Permutation l (S ++ rest) /\ length S = Nat.min k (length l) /\
                 sumZ S = sumZ (firstn k (ZSort.sort l)).
Proof.
  exists (firstn k (ZSort.sort l)), (skipn k (ZSort.sort l)). split; [|split].
  - rewrite firstn_skipn. apply ZSort.Permuted_sort.
  - rewrite firstn_length. f_equal. symmetry. apply Permutation_length, ZSort.Permuted_sort.
  - reflexivity.
Qed.

(* market_exposure = sum of the losing figures + the k smallest (win - lose) differences,
   the differences of runners without bets being 0 *)
Theorem market_exposure_unfold tb pending orders active k excl new :
  exists loses diffs,
    market_exposure tb pending orders active k excl new = sumZ loses + sumZ (firstn (Z.to_nat k) (ZSort.sort diffs)) /\
    let sels := dedup (map o_sel orders ++ match new with Some n => [o_sel n] | None => [] end) in
    let exps := map (fun s => get_exposures tb pending (filter (fun o => o_sel o =? s) orders) excl
                     (match new with Some n => if o_sel n =? s then Some n else None | None => None end)) sels in
    loses = map e_lose exps /\
    diffs = map (fun e => e_win e - e_lose e) exps ++ repeat 0 (Z.to_nat (active - Z.of_nat (length sels))).
Proof. eexists. eexists. split; [reflexivity|]. cbv zeta. split; reflexivity. Qed.

(* hence: for every choice W of k winners among the active runners (a k-element selection of the
   differences), the reported figure is at most the P/L of that outcome, and it equals the P/L of
   some such outcome *)
Theorem market_exposure_is_worst tb pending orders active k excl new :
  0 <= k ->
  let sels := dedup (map o_sel orders ++ match new with Some n => [o_sel n] | None => [] end) in
  let exps := map (fun s => get_exposures tb pending (filter (fun o => o_sel o =? s) orders) excl
                   (match new with Some n => if o_sel n =? s then Some n else None | None => None end)) sels in
  let loses := map e_lose exps in
  let diffs := map (fun e => e_win e - e_lose e) exps ++ repeat 0 (Z.to_nat (active - Z.of_nat (length sels))) in
  (forall W rest, Permutation diffs (W ++ rest) -> length W = Z.to_nat k ->
      market_exposure tb pending orders active k excl new <= sumZ loses + sumZ W) /\
  (exists W rest, Permutation diffs (W ++ rest) /\ length W = Nat.min (Z.to_nat k) (length diffs) /\
      market_exposure tb pending orders active k excl new = sumZ loses + sumZ W).
Proof.
  intros Hk sels exps loses diffs. split.
  - intros W rest Hp Hl. unfold market_exposure. fold sels. fold exps. fold loses. fold diffs.
    pose proof (ksmallest_is_lower_bound (Z.to_nat k) diffs W rest Hp Hl). lia.
  - destruct (ksmallest_is_attained (Z.to_nat k) diffs) as [W [rest [Hp [Hl Hs]]]].
    exists W, rest. split; [exact Hp|]. split; [exact Hl|].
    unfold market_exposure. fold sels. fold exps. fold loses. fold diffs. lia.
Qed.

(* SimLifeP.v — C03 (simulated execution) over whole runs: in every reachable state, the status log of every order is a path of the documented
   lifecycle that ends in its current status (so an order that has completed never becomes live again), a cancel / update / replace package in
   the queue names an order that is in exactly that transient status or has completed meanwhile, and no order has two packages outstanding.
   Domain: that of SimLinkP (books without starting-price reconciliation and without removed runners, names used once) with order sizes the
   validation control accepts (strictly positive). *)
From Coq Require Import ZArith List Bool Lia ZifyBool Permutation.
From V Require Import Model.Num Model.Status Model.Sim Model.SimLoop Model.SimGuard Proofs.NumP Proofs.SimPlaceP Proofs.SimPlaceP2
     Proofs.SimIsolationP Proofs.SimRemovalsP Proofs.SimRunP Proofs.SimAckRunP Proofs.SimNamesP Proofs.SimLinkP Proofs.SimAwaitP Proofs.SimStaticP.
Open Scope Z_scope.

(* ====================== the fields the matcher never writes ====================== *)
Definition core (o : sorder) := (so_name o, so_status o, so_log o, so_bet o, so_red o, so_placed o, so_complete o, so_in_live o, so_type o, so_size o).

Lemma core_set_frags tb o fr : core (set_frags tb o fr) = core o.
Proof. unfold set_frags. destruct (wap tb fr). reflexivity. Qed.
Lemma core_add_frag tb o pt p s : core (add_frag tb o pt p s) = core o.
Proof. apply core_set_frags. Qed.
Lemma core_calc_traded tb pt ts o : core (fst (calc_traded tb pt ts o)) = core o.
Proof.
  unfold calc_traded. destruct (so_piq2 o <? ts); [|reflexivity]. cbv zeta. cbn [fst].
  destruct (rnd tb (zmin (2 * remaining o) (ts - so_piq2 o)) 2 =? 0); [reflexivity|].
  change (core (upd_sim ?x _ _ _)) with (core x). apply core_add_frag.
Qed.
Lemma core_process_traded tb pt : forall tr o, core (fst (process_traded tb pt tr o)) = core o.
Proof.
  induction tr as [|[tp ts] r IH]; intros o; cbn [process_traded]; [reflexivity|].
  destruct (match so_side o with Back => so_price o <=? tp | Lay => tp <=? so_price o end).
  - pose proof (core_calc_traded tb pt ts o) as H1. destruct (calc_traded tb pt ts o) as [o1 m]. cbn [fst] in H1.
    pose proof (IH o1) as H2. destruct (process_traded tb pt r o1) as [o2 r']. cbn [fst] in *. congruence.
  - pose proof (IH o) as H2. destruct (process_traded tb pt r o) as [o2 r']. exact H2.
Qed.
(* without starting-price reconciliation the matcher completes nothing and keeps the core *)
Lemma on_book_dom tb c b r tr o : b_bsp_rec b = false ->
  core (fst (fst (on_book tb c b r tr o))) = core o /\ snd (on_book tb c b r tr o) = false.
Proof.
  intros Hb. unfold on_book. cbv zeta. rewrite Hb, andb_false_r.
  destruct (so_type o) eqn:Et; [|split; reflexivity|split; reflexivity].
  set (o1 := if negb (opt_eqb Z.eqb (so_mver o) (Some (b_version b))) then upd_sim o (Some (b_version b)) (so_piq2 o) (so_bsp o) else o).
  assert (H1 : core o1 = core o) by (unfold o1; destruct (negb (opt_eqb Z.eqb (so_mver o) (Some (b_version b)))); reflexivity).
  destruct (negb (opt_eqb Z.eqb (so_mver o) (Some (b_version b))) && mstatus_eqb (b_status b) MSuspended && persist_eqb (so_persist o1) PLapse); [split; [exact H1|reflexivity]|].
  destruct tr as [|t0 tr0]; [split; [exact H1|reflexivity]|]. pose proof (core_process_traded tb (b_pt b) (t0 :: tr0) o1) as H.
  destruct (process_traded tb (b_pt b) (t0 :: tr0) o1) as [o2 tr']. cbn [fst snd] in *. split; [rewrite H; exact H1|reflexivity].
Qed.

Lemma core_buckets o c l v : core (upd_buckets o c l v) = core o.
Proof. reflexivity. Qed.
Lemma core_place_resp tb c o s : core (fst (place_resp tb c o s)) = core o.
Proof. unfold place_resp. destruct (c_full c && s && negb (remaining o =? 0)); [apply core_add_frag|reflexivity]. Qed.
Lemma core_price_matched tb pt sd price : forall avail rem o, core (price_matched tb pt sd price rem avail o) = core o.
Proof.
  induction avail as [|[ap asz] r IH]; intros rem o; cbn [price_matched]; [reflexivity|].
  destruct (rem =? 0); [reflexivity|]. destruct (match sd with Back => price <=? ap | Lay => ap <=? price end); [|reflexivity].
  rewrite IH. apply core_add_frag.
Qed.
Lemma core_vwap_loop tb pt sd price : forall avail rem o, core (vwap_loop tb pt sd price rem avail o) = core o.
Proof.
  induction avail as [|[ap asz] r IH]; intros rem o; cbn [vwap_loop]; [reflexivity|].
  destruct (rem =? 0); [reflexivity|]. cbv zeta. match goal with |- core (if ?c then _ else _) = _ => destruct c end; [|reflexivity].
  rewrite IH. apply core_add_frag.
Qed.
Lemma core_vwap_matched tb pt sd price size avail minfill o : core (vwap_matched tb pt sd price size avail minfill o) = core o.
Proof.
  unfold vwap_matched. destruct (so_matched (vwap_loop tb pt sd price size avail o) <? minfill); [|apply core_vwap_loop].
  change (core (add_cancelled ?x _)) with (core x). rewrite core_set_frags. apply core_vwap_loop.
Qed.
Lemma core_sim_place tb c ms b mv o : core (fst (sim_place tb c ms b mv o)) = core o.
Proof.
  unfold sim_place.
  destruct (negb (mstatus_eqb (b_status b) MOpen)); [rewrite core_place_resp; reflexivity|].
  destruct (match mv with Some v => negb (v =? 0) && negb (v =? b_version b) | None => false end); [rewrite core_place_resp; reflexivity|].
  destruct (find_runner b _) as [r|]; [|rewrite core_place_resp; reflexivity].
  destruct (match r_status r with RRemoved => true | _ => false end); [rewrite core_place_resp; reflexivity|].
  destruct (so_type _); [|destruct (negb (ms_bsp ms) || b_bsp_rec b || b_inplay b); rewrite core_place_resp; reflexivity
                          |destruct (negb (ms_bsp ms) || b_bsp_rec b || b_inplay b); rewrite core_place_resp; reflexivity].
  cbv zeta.
  repeat match goal with
         | |- core (fst (if ?c then _ else _)) = _ => destruct c
         | |- core (fst (match ?x with Back => _ | Lay => _ end)) = _ => destruct x
         end;
    rewrite core_place_resp; unfold add_cancelled, add_lapsed, add_voided;
    repeat match goal with
           | |- context [if ?c then _ else _] => destruct c
           | |- context [match piq_of ?a ?b with _ => _ end] => destruct (piq_of a b)
           end;
    rewrite ?core_buckets, ?core_vwap_matched, ?core_price_matched; reflexivity.
Qed.
Lemma core_sim_cancel b o : core (fst (fst (sim_cancel b o))) = core o.
Proof. unfold sim_cancel. destruct (negb (mstatus_eqb (b_status b) MOpen)); [reflexivity|]. destruct (so_type o); reflexivity. Qed.

(* projections of an equality of cores *)
Lemma core_eq o o' : core o' = core o ->
  so_name o' = so_name o /\ so_status o' = so_status o /\ so_log o' = so_log o /\ so_bet o' = so_bet o /\ so_red o' = so_red o /\
  so_placed o' = so_placed o /\ so_complete o' = so_complete o /\ so_in_live o' = so_in_live o /\ so_type o' = so_type o /\ so_size o' = so_size o.
Proof. unfold core. intros H. inversion H. repeat split; assumption. Qed.

(* ====================== the per-order invariant ====================== *)
Definition six (st : status) : bool :=
  match st with SPending | SExecutable | SCancelling | SUpdating | SReplacing | SExecComplete => true | _ => false end.
Definition logI (o : sorder) : Prop := lifecycle_path SNone (so_log o) = true /\ last (so_log o) SNone = so_status o.

Lemma lifecycle_path_app a l b : lifecycle_path a (l ++ [b]) = lifecycle_path a l && lifecycle_ok (last l a) b.
Proof.
  revert a. induction l as [|x r IH]; intros a; cbn [app lifecycle_path last].
  - rewrite andb_true_r. reflexivity.
  - rewrite IH. rewrite andb_assoc. destruct r as [|y r]; [reflexivity|]. f_equal. f_equal. clear. revert y. induction r as [|z r IH]; intros y; [reflexivity|]. cbn [last] in *. apply IH.
Qed.
Lemma last_app1 {A} (l : list A) (b d : A) : last (l ++ [b]) d = b.
Proof. apply last_last. Qed.
Lemma logI_set_status cs now o st cl : logI o -> lifecycle_ok (so_status o) st = true -> logI (set_status cs now o st cl).
Proof.
  intros [A B] H. unfold logI. cbn [set_status upd_ord so_log so_status]. split; [|apply last_app1].
  rewrite lifecycle_path_app, A, B, H. reflexivity.
Qed.

Record G (o : sorder) : Prop := {
  g_log : logI o;
  g_six : six (so_status o) = true;
  g_red1 : so_status o = SPending \/ so_status o = SExecutable \/ so_status o = SUpdating \/ so_status o = SReplacing -> so_red o = None;
  g_red2 : forall x, so_red o = Some x -> 0 <= x;
  g_done : so_status o = SExecComplete -> so_bet o <> None -> remaining o = 0;
  g_unpl : so_placed o = None -> so_status o = SPending /\ so_bsp o = false /\ so_bet o = None /\ untouched o /\ (so_type o = TLimit -> 0 < so_size o) }.

(* writing a status *)
Lemma remaining_upd_ord o st log cpl bet red newp pers placed stat_t done_t live :
  remaining (upd_ord o st log cpl bet red newp pers placed stat_t done_t live (so_liab_n o) (so_liab_d o) (so_matched o)) = remaining o.
Proof. reflexivity. Qed.

Lemma G_exec_complete cs now o : G o -> so_placed o <> None -> (so_bet o <> None -> remaining o = 0) -> G (exec_complete cs now o).
Proof.
  intros [L S R1 R2 D U] Hp Hr. constructor.
  - apply logI_set_status; [exact L|]. destruct (so_status o); try discriminate; reflexivity.
  - reflexivity.
  - intros _. reflexivity.
  - intros x Hx. discriminate.
  - intros _. exact Hr.
  - intros Hc. contradiction.
Qed.
Lemma G_executable cs now o : G o -> so_placed o <> None -> so_status o <> SExecComplete -> G (executable cs now o).
Proof.
  intros [L S R1 R2 D U] Hp Hne. constructor.
  - apply logI_set_status; [exact L|]. destruct (so_status o); try discriminate; try reflexivity. contradiction.
  - reflexivity.
  - intros _. reflexivity.
  - intros x Hx. discriminate.
  - intros Hc. discriminate.
  - intros Hc. contradiction.
Qed.
Lemma G_reset_order cs now o : G o -> so_placed o <> None -> G (reset_order cs now o).
Proof.
  intros HG Hp. unfold reset_order. destruct (status_eqb (so_status o) SExecComplete) eqn:E; [exact HG|].
  apply G_executable; [exact HG|exact Hp|]. intro Hc. rewrite Hc in E. discriminate.
Qed.
Lemma G_set_live o b0 : G o -> G (set_live o b0).
Proof. intros [L S R1 R2 D U]. constructor; assumption. Qed.
(* an order whose core is kept while its status is one the middleware matches *)
Lemma G_core cf o o' : cfg_ok cf -> core o' = core o -> status_in (so_status o) (cf_mw_live cf) = true -> G o -> G o'.
Proof.
  intros [Hc1 Hc2] E Hl [L S R1 R2 D U]. destruct (core_eq _ _ E) as (N & St & Lg & Bt & Rd & Pl & _).
  constructor; unfold logI; rewrite ?St, ?Lg, ?Bt, ?Rd, ?Pl; try assumption.
  - intros Hc. rewrite Hc in Hl. congruence.
  - intros Hp. destruct (U Hp) as (Hs & _). rewrite Hs in Hl. congruence.
Qed.

(* ====================== what the middleware and the sweep do to an order (books of the domain) ====================== *)
Definition evo (cf : config) (o o' : sorder) : Prop :=
  o' = o \/ (status_in (so_status o) (cf_mw_live cf) = true /\ core o' = core o).
Lemma evo_refl cf o : evo cf o o.  Proof. left. reflexivity. Qed.
Lemma evo_trans cf a b c : evo cf a b -> evo cf b c -> evo cf a c.
Proof.
  intros [->|[L1 E1]] [->|[L2 E2]]; [left; reflexivity|right; split; assumption|right; split; assumption|].
  right. split; [exact L1|]. rewrite E2. exact E1.
Qed.
Lemma evo_name cf o o' : evo cf o o' -> so_name o' = so_name o.
Proof. intros [->|[_ E]]; [reflexivity|]. apply (core_eq _ _ E). Qed.
Lemma evo_status cf o o' : evo cf o o' -> so_status o' = so_status o.
Proof. intros [->|[_ E]]; [reflexivity|]. apply (core_eq _ _ E). Qed.

Lemma F2_refl {A} (R : A -> A -> Prop) : (forall x, R x x) -> forall l, Forall2 R l l.
Proof. intros H. induction l; constructor; auto. Qed.
Lemma F2_trans {A} (R : A -> A -> Prop) : (forall x y z, R x y -> R y z -> R x z) -> forall a b c, Forall2 R a b -> Forall2 R b c -> Forall2 R a c.
Proof.
  intros HT a b c H. revert c. induction H as [|x y l l' Hxy Hl IH]; intros c Hc; inversion Hc; subst; constructor; [eapply HT; eassumption|apply IH; assumption].
Qed.
Lemma get_order_F2 (R : sorder -> sorder -> Prop) n : (forall o o', R o o' -> so_name o' = so_name o) ->
  forall a b, Forall2 R a b -> forall o', get_order n b = Some o' -> exists o, get_order n a = Some o /\ R o o'.
Proof.
  intros HN. induction 1 as [|x y l l' Hxy Hl IH]; intros o' H; [discriminate|]. unfold get_order in *. cbn [find] in *.
  rewrite (HN _ _ Hxy) in H. destruct (so_name x =? n).
  - inversion H; subst. exists x. split; [reflexivity|exact Hxy].
  - apply IH. exact H.
Qed.
Lemma F2_names (R : sorder -> sorder -> Prop) : (forall o o', R o o' -> so_name o' = so_name o) -> forall a b, Forall2 R a b -> names b = names a.
Proof. intros HN. induction 1 as [|x y l l' Hxy Hl IH]; [reflexivity|]. cbn [names map]. rewrite (HN _ _ Hxy). f_equal. exact IH. Qed.

Section MatchEvo.
  Variables (tb : tiebreak) (cf : config) (b : book).
  Hypothesis Hb : b_bsp_rec b = false.

  Lemma mstep_evo os lk o0 : (forall o, get_order (so_name o0) os = Some o -> status_in (so_status o) (cf_mw_live cf) = true) ->
    Forall2 (evo cf) os (fst (mstep tb cf b (os, lk) o0)).
  Proof.
    intros Hl. unfold mstep. destruct (get_order (so_name o0) os) as [o|] eqn:Eg; [|apply F2_refl; apply evo_refl].
    cbv zeta. destruct (find_runner b (so_sel o)) as [r|]; [|apply F2_refl; apply evo_refl].
    set (tr := match find (fun e => fst e =? so_sel o) lk with Some e => snd e | None => [] end).
    destruct (on_book_dom tb (client_of cf (so_strat o)) b r tr o Hb) as [HC HD].
    destruct (on_book tb (client_of cf (so_strat o)) b r tr o) as [[o1 tr'] done]. cbn [fst snd] in *. subst done.
    destruct (get_order_in _ _ _ Eg) as [_ Hn]. rewrite Hn.
    apply (upd_order_first_R (evo cf) (so_name o0) o1 (evo_refl cf) os o Eg). right. split; [apply Hl; reflexivity|exact HC].
  Qed.

  Lemma fold_mstep_evo : forall l os lk, (forall o0, In o0 l -> forall o, get_order (so_name o0) os = Some o -> status_in (so_status o) (cf_mw_live cf) = true) ->
    Forall2 (evo cf) os (fst (fold_left (mstep tb cf b) l (os, lk))).
  Proof.
    induction l as [|x l IH]; intros os lk H; cbn [fold_left]; [apply F2_refl; apply evo_refl|].
    pose proof (mstep_evo os lk x (H x (or_introl eq_refl))) as H1.
    destruct (mstep tb cf b (os, lk) x) as [os1 lk1] eqn:E. cbn [fst] in H1.
    eapply (F2_trans _ (evo_trans cf)); [exact H1|]. apply IH. intros o0 Ho0 o' Hg.
    destruct (get_order_F2 (evo cf) (so_name o0) (evo_name cf) os os1 H1 o' Hg) as [o [Hg0 Hev]].
    rewrite (evo_status _ _ _ Hev). apply (H o0 (or_intror Ho0) o Hg0).
  Qed.

  Lemma match_orders_evo ans os (f : sorder -> bool) : NoDup (names os) -> (forall o, f o = true -> status_in (so_status o) (cf_mw_live cf) = true) ->
    Forall2 (evo cf) os (match_orders tb cf b ans (filter f os) os).
  Proof.
    intros Hn Hf. rewrite match_orders_fold. apply fold_mstep_evo. intros o0 Hin o Hg.
    apply sort_orders_in in Hin. apply filter_In in Hin as [Hin0 Hf0].
    destruct (get_order_in _ _ _ Hg) as [Hino Hname]. assert (o = o0) by (apply (unique_by_name os); [exact Hn|exact Hino|exact Hin0|exact Hname]). subst o.
    apply Hf. exact Hf0.
  Qed.

  Theorem process_sim_orders_evo ans os : NoDup (names os) -> Forall2 (evo cf) os (process_sim_orders tb cf b ans os).
  Proof.
    intros Hn. unfold process_sim_orders. destruct (cf_isolation cf).
    - assert (G0 : forall sts os0, NoDup (names os0) ->
                Forall2 (evo cf) os0 (fold_left (fun os1 st => let live := filter (fun o => (so_strat o =? st) && status_in (so_status o) (cf_mw_live cf)) os1 in
                                                      match live with [] => os1 | _ :: _ => match_orders tb cf b ans live os1 end) sts os0)).
      { induction sts as [|s r IH]; intros os0 Hn0; cbn [fold_left]; [apply F2_refl; apply evo_refl|]. cbv zeta.
        set (fl := fun o => (so_strat o =? s) && status_in (so_status o) (cf_mw_live cf)).
        assert (H1 : Forall2 (evo cf) os0 (match filter fl os0 with [] => os0 | _ :: _ => match_orders tb cf b ans (filter fl os0) os0 end)).
        { destruct (filter fl os0) eqn:Ef; [apply F2_refl; apply evo_refl|]. rewrite <- Ef.
          apply (match_orders_evo ans os0 fl Hn0). intros o Ho. unfold fl in Ho. apply andb_true_iff in Ho. apply Ho. }
        eapply (F2_trans _ (evo_trans cf)); [exact H1|]. apply IH. rewrite (F2_names _ (evo_name cf) _ _ H1). exact Hn0. }
      apply G0; assumption.
    - cbv zeta. destruct (filter (fun o => so_in_live o) os) as [|l0 ls]; [apply F2_refl; apply evo_refl|].
      match goal with |- Forall2 _ _ (fst (fold_left ?F ?l _)) => set (F0 := F); generalize l end. intros l.
      assert (G0 : forall lx st, Forall2 (evo cf) (fst st) (fst (fold_left F0 lx st))).
      { induction lx as [|x r IH]; intros st; cbn [fold_left]; [apply F2_refl; apply evo_refl|].
        assert (H1 : Forall2 (evo cf) (fst st) (fst (F0 st x))).
        { destruct st as [os1 lk]. unfold F0. cbn [fst]. destruct (get_order (so_name x) os1) as [o|] eqn:Eg; [|apply F2_refl; apply evo_refl].
          destruct (negb (status_in (so_status o) (cf_mw_live cf))) eqn:Est; [apply F2_refl; apply evo_refl|].
          pose proof (mstep_evo os1 lk x) as Hm. unfold mstep in Hm. rewrite Eg in Hm. apply Hm.
          intros o' Ho'. inversion Ho'; subst o'. apply negb_false_iff in Est. exact Est. }
        eapply (F2_trans _ (evo_trans cf)); [exact H1|]. apply IH. }
      apply (G0 l (os, map (fun a => (an_sel a, an_traded a)) ans)).
  Qed.
End MatchEvo.

(* the middleware on a book of the domain *)
Theorem middleware_evo tb cf s m b : wf_book b -> NoDup (names (mk_orders m)) ->
  Forall2 (evo cf) (mk_orders m) (mk_orders (snd (middleware tb cf s m b))).
Proof.
  intros (Hb & Hl & Hr) Hn. rewrite middleware_unfold.
  assert (NR : forall r, In r (b_runners b) -> r_status r = RRemoved -> recorded (mk_id m) (r_sel r, r_adj r) (s_removals s) = true).
  { intros r Hin Hst. rewrite Forall_forall in Hr. destruct (Hr r Hin) as [_ Hne]. congruence. }
  destruct (collect_nothing_new (mk_id m) (b_runners b) (mk_analytics m) (s_removals s) NR) as [ans E]. rewrite E.
  unfold apply_new. cbn [fold_left fst snd mk_orders].
  destruct (mk_active m); [apply process_sim_orders_evo; assumption|apply F2_refl; apply evo_refl].
Qed.

(* the sweep: an order is left alone, taken off the live list, or completed with nothing remaining *)
Definition swept (cf : config) (now : Z) (o o' : sorder) : Prop :=
  o' = o \/ o' = set_live o false \/
  (o' = set_live (exec_complete (cf_complete cf) now o) false /\ so_in_live o = true /\ (so_type o = TLimit -> remaining o = 0) /\ (so_type o <> TLimit -> so_bsp o = true)).
Lemma completion_sweep_swept cf now os : Forall2 (swept cf now) os (completion_sweep cf now os).
Proof.
  unfold completion_sweep. induction os as [|o r IH]; cbn [map]; constructor; [|exact IH].
  destruct (so_in_live o) eqn:El; cbn [negb]; [|left; reflexivity]. destruct (so_complete o); [right; left; reflexivity|].
  destruct (so_type o) eqn:Et.
  - destruct (remaining o =? 0) eqn:Er; [|left; reflexivity]. right. right. split; [reflexivity|]. split; [exact El|]. split; [intros _; lia|intros Hc; congruence].
  - destruct (so_bsp o) eqn:Eb; [|left; reflexivity]. right. right. split; [reflexivity|]. split; [exact El|]. split; [intros Hc; congruence|intros _; exact Eb].
  - destruct (so_bsp o) eqn:Eb; [|left; reflexivity]. right. right. split; [reflexivity|]. split; [exact El|]. split; [intros Hc; congruence|intros _; exact Eb].
Qed.
Lemma swept_name cf now o o' : swept cf now o o' -> so_name o' = so_name o.
Proof. intros [->|[->|[-> _]]]; reflexivity. Qed.

Lemma remaining_nonlimit o : so_type o <> TLimit -> remaining o = 0.
Proof. unfold remaining. destruct (so_type o); [congruence|reflexivity|reflexivity]. Qed.

Lemma G_evo cf o o' : cfg_ok cf -> evo cf o o' -> G o -> G o'.
Proof. intros Hc [->|[L E]] HG; [exact HG|eapply G_core; eassumption]. Qed.
Lemma G_swept cf now o o' : swept cf now o o' -> G o -> G o'.
Proof.
  intros [->|[->|(-> & Hl & Hr & Hb)]] HG; [exact HG|apply G_set_live; exact HG|]. apply G_set_live.
  assert (Hp : so_placed o <> None).
  { intro Hp. destruct (g_unpl o HG Hp) as (_ & Hbsp & _ & (F & M & C & L & V) & Hsz).
    destruct (so_type o) eqn:Et; [|rewrite Hb in Hbsp by discriminate; discriminate|rewrite Hb in Hbsp by discriminate; discriminate].
    specialize (Hr eq_refl). specialize (Hsz eq_refl). unfold remaining in Hr. rewrite Et in Hr. lia. }
  apply G_exec_complete; [exact HG|exact Hp|]. intros _.
  destruct (so_type o) eqn:Et; [apply Hr; reflexivity|apply remaining_nonlimit; congruence|apply remaining_nonlimit; congruence].
Qed.

(* writing a status on an order whose core is that of an order satisfying G *)
Lemma G_exec_complete' cs now o o1 : G o -> core o1 = core o -> so_placed o <> None -> (so_bet o <> None -> remaining o1 = 0) -> G (exec_complete cs now o1).
Proof.
  intros [L S R1 R2 D U] E Hp Hr. destruct (core_eq _ _ E) as (N & St & Lg & Bt & Rd & Pl & _). constructor.
  - apply logI_set_status; [unfold logI; rewrite Lg, St; exact L|]. rewrite St. destruct (so_status o); try discriminate; reflexivity.
  - reflexivity.
  - intros _. reflexivity.
  - intros x Hx. discriminate.
  - intros _. cbn [exec_complete set_status upd_ord so_bet]. rewrite Bt. exact Hr.
  - cbn [exec_complete set_status upd_ord so_placed]. rewrite Pl. intros Hc. contradiction.
Qed.
Lemma G_executable' cs now o o1 : G o -> core o1 = core o -> so_placed o <> None -> so_status o <> SExecComplete -> G (executable cs now o1).
Proof.
  intros [L S R1 R2 D U] E Hp Hne. destruct (core_eq _ _ E) as (N & St & Lg & Bt & Rd & Pl & _). constructor.
  - apply logI_set_status; [unfold logI; rewrite Lg, St; exact L|]. rewrite St. destruct (so_status o); try discriminate; try reflexivity. contradiction.
  - reflexivity.
  - intros _. reflexivity.
  - intros x Hx. discriminate.
  - intros Hc. discriminate.
  - cbn [executable set_status upd_ord so_placed]. rewrite Pl. intros Hc. contradiction.
Qed.

(* what a simulated cancel does *)
Lemma sim_cancel_spec b o : let '(o1, ok, c) := sim_cancel b o in
  core o1 = core o /\ (ok = false -> o1 = o) /\
  (ok = true -> so_type o = TLimit /\ remaining o1 = remaining o - c /\
                c = zmin (match so_red o with Some x => if x =? 0 then remaining o else x | None => remaining o end) (remaining o)).
Proof.
  unfold sim_cancel. destruct (negb (mstatus_eqb (b_status b) MOpen)); [split; [reflexivity|split; [reflexivity|discriminate]]|].
  destruct (so_type o) eqn:Et; [|split; [reflexivity|split; [reflexivity|discriminate]]|split; [reflexivity|split; [reflexivity|discriminate]]].
  split; [reflexivity|]. split; [discriminate|]. intros _. split; [reflexivity|]. split; [|reflexivity].
  unfold remaining, add_cancelled. cbn [upd_buckets so_type so_size so_matched so_cancelled so_lapsed so_voided]. rewrite Et. lia.
Qed.

(* ====================== packages in flight ====================== *)
Definition flightP (p : pkg) (o : sorder) : Prop := so_bet o <> None /\ (awaits (so_status o) (pk_kind p) \/ so_status o = SExecComplete).
Definition ordersG (ms : list market) : Prop := forall m, In m ms -> forall o, In o (mk_orders m) -> G o.
Definition flightI (Q : list pkg) (ms : list market) : Prop :=
  (forall p, In p Q -> is_place p = false -> forall o, at_key ms (pkey p) o -> flightP p o) /\ NoDup (map pkey Q).
Definition lifeI (Q : list pkg) (ms : list market) : Prop := ordersG ms /\ flightI Q ms.

Section LifeStep.
  Variables (Q Q' : list pkg) (ms : list market) (mid : Z) (m m' : market).
  Hypothesis Hids : NoDup (map mk_id ms).
  Hypothesis Hget : get_market mid ms = Some m.
  Hypothesis Hid' : mk_id m' = mid.
  Hypothesis HG' : forall o', In o' (mk_orders m') -> G o'.
  Hypothesis HF' : forall p, In p Q' -> is_place p = false -> pk_market p = mid -> forall o', In o' (mk_orders m') -> so_name o' = pk_order p -> flightP p o'.
  Hypothesis Hother : forall p, In p Q' -> pk_market p <> mid -> In p Q.
  Hypothesis Hnd : NoDup (map pkey Q').
  Hypothesis HL : lifeI Q ms.

  Theorem life_step : lifeI Q' (upd_market mid (fun _ => m') ms).
  Proof.
    destruct HL as [HG [HF _]]. destruct (get_market_id _ _ _ Hget) as [Hin Hmid]. split; [|split; [|exact Hnd]].
    - intros m0 Hm0 o Ho. destruct (upd_const_in mid m' m ms m0 Hids Hin Hmid Hm0) as [->|[A _]]; [apply HG'; exact Ho|apply (HG m0 A o Ho)].
    - intros p Hp Hk o (m0 & A & B & C & D). unfold pkey in B, D. cbn [fst snd] in B, D.
      destruct (upd_const_in mid m' m ms m0 Hids Hin Hmid A) as [->|[A' Hne]].
      + apply (HF' p Hp Hk); [lia|exact C|exact D].
      + apply (HF p); [apply Hother; [exact Hp|lia]|exact Hk|]. exists m0. split; [exact A'|split; [exact B|split; [exact C|exact D]]].
  Qed.
End LifeStep.

(* the orders of one market evolve, the queue stays *)
Lemma life_evolves (R : sorder -> sorder -> Prop) Q ms mid m m' :
  NoDup (map mk_id ms) -> get_market mid ms = Some m -> mk_id m' = mid -> Forall2 R (mk_orders m) (mk_orders m') ->
  (forall o o', R o o' -> so_name o' = so_name o /\ (G o -> G o') /\ so_bet o' = so_bet o /\ (so_status o' = so_status o \/ so_status o' = SExecComplete)) ->
  lifeI Q ms -> lifeI Q (upd_market mid (fun _ => m') ms).
Proof.
  intros Hids Em Hid' HR HP HL. destruct (get_market_id _ _ _ Em) as [Hin Hmid].
  apply (life_step Q Q ms mid m m' Hids Em Hid'); [| |intros p Hp _; exact Hp|apply HL|exact HL].
  - intros o' Ho'. destruct (Forall2_in_r _ _ _ _ HR Ho') as [o [Ho Ro]]. destruct (HP _ _ Ro) as (_ & HG & _). apply HG. apply (proj1 HL m Hin o Ho).
  - intros p Hp Hk Hm o' Ho' Hn. destruct (Forall2_in_r _ _ _ _ HR Ho') as [o [Ho Ro]]. destruct (HP _ _ Ro) as (N & _ & Bt & St).
    assert (Hat : at_key ms (pkey p) o) by (exists m; split; [exact Hin|split; [unfold pkey; cbn; lia|split; [exact Ho|unfold pkey; cbn; lia]]]).
    destruct (proj1 (proj2 HL) p Hp Hk o Hat) as [Hb Hs]. split; [rewrite Bt; exact Hb|].
    destruct St as [St|St]; [rewrite St; exact Hs|right; exact St].
Qed.

Lemma upd_order_in n o' : forall os x, NoDup (names os) -> In x (upd_order n (fun _ => o') os) -> x = o' \/ (In x os /\ so_name x <> n).
Proof.
  induction os as [|y r IH]; intros x Hn H; cbn [upd_order] in H; [destruct H|]. cbn [names map] in Hn. apply NoDup_cons_iff in Hn as [Hn1 Hn2].
  destruct (so_name y =? n) eqn:E.
  - destruct H as [<-|H]; [left; reflexivity|]. right. split; [right; exact H|]. intro Hc. apply Hn1. replace (so_name y) with (so_name x) by lia. apply in_map. exact H.
  - destruct H as [<-|H]; [right; split; [left; reflexivity|lia]|]. destruct (IH x Hn2 H) as [->|[A B]]; [left; reflexivity|right; split; [right; exact A|exact B]].
Qed.
Lemma lifeI_tail p L ms : lifeI (p :: L) ms -> lifeI L ms.
Proof.
  intros [HG [HF Hnd]]. split; [exact HG|split].
  - intros p0 H0. apply HF. right. exact H0.
  - cbn [map] in Hnd. apply NoDup_cons_iff in Hnd. apply Hnd.
Qed.

Lemma G_set_bet_placed o o1 bet t : G o -> core o1 = core o -> so_status o = SPending -> G (set_bet_placed o1 bet (Some t)).
Proof.
  intros [L S R1 R2 D U] E Hst. destruct (core_eq _ _ E) as (N & St & Lg & Bt & Rd & Pl & _).
  constructor; unfold logI; cbn [set_bet_placed upd_ord so_log so_status so_red so_bet so_placed]; rewrite ?Lg, ?St, ?Rd; try assumption.
  - intros Hc. rewrite Hst in Hc. discriminate.
  - intros Hc. discriminate.
Qed.
Lemma awaits_status st k : awaits st k -> st = match k with KPlace => SPending | KCancel => SCancelling | KUpdate => SUpdating | KReplace => SReplacing end.
Proof. destruct st, k; cbn; intros H; try destruct H; reflexivity. Qed.

(* ---------- one package ---------- *)
Theorem exec_pkg_life tb cf now fut s p L :
  simN fut s -> linkI cf (p :: L) (s_markets s) -> lifeI (p :: L) (s_markets s) -> lifeI L (s_markets (exec_pkg tb cf now s p)).
Proof.
  intros HN HK HL. pose proof (lifeI_tail _ _ _ HL) as HLQ. pose proof HN as (Hids & Hmk & Hnx & _ & _).
  unfold exec_pkg.
  destruct (get_market (pk_market p) (s_markets s)) as [m|] eqn:Em; [|exact HLQ].
  destruct (get_market_id _ _ _ Em) as [Hin Hmid].
  assert (HmkN : mkN (s_next_name s) fut m) by (rewrite Forall_forall in Hmk; apply (Hmk m Hin)). destruct HmkN as [Hnd Hfr].
  destruct (mk_book m) as [b|] eqn:Eb; [|exact HLQ].
  destruct (get_order (pk_order p) (mk_orders m)) as [o|] eqn:Eo; [|exact HLQ].
  destruct (get_order_in _ _ _ Eo) as [Hino Hname].
  assert (Hat : at_key (s_markets s) (pkey p) o) by (exists m; split; [exact Hin|split; [exact Hmid|split; [exact Hino|exact Hname]]]).
  destruct (status_eqb (so_status o) SViolation); [destruct (pk_kind p); exact HLQ|].
  cbv zeta.
  assert (HGo : G o) by (apply (proj1 HL m Hin o Hino)).
  assert (SHAPE : forall m' o' ex, mk_id m' = pk_market p -> mk_orders m' = upd_order (so_name o') (fun _ => o') (mk_orders m) ++ ex ->
            so_name o' = so_name o -> G o' -> (forall x, In x ex -> G x /\ so_name x = s_next_name s) ->
            lifeI L (upd_market (pk_market p) (fun _ => m') (s_markets s))).
  { intros m' o' ex Hid' Hord' Hn' HGo' Hex.
    apply (life_step (p :: L) L (s_markets s) (pk_market p) m m' Hids Em Hid'); [| |intros p0 H0 _; right; exact H0|apply HLQ|exact HL].
    - intros x Hx. rewrite Hord' in Hx. apply in_app_or in Hx as [Hx|Hx]; [|apply (Hex x Hx)].
      destruct (upd_order_in _ _ _ _ Hnd Hx) as [->|[A _]]; [exact HGo'|apply (proj1 HL m Hin x A)].
    - intros p0 H0 Hk0 Hm0 x Hx Hnx0. rewrite Hord' in Hx. apply in_app_or in Hx as [Hx|Hx].
      + destruct (upd_order_in _ _ _ _ Hnd Hx) as [->|[A B]].
        * exfalso. destruct HL as [_ [_ HndQ]]. cbn [map] in HndQ. apply NoDup_cons_iff in HndQ as [Hni _]. apply Hni.
          replace (pkey p) with (pkey p0); [apply in_map; exact H0|]. unfold pkey. f_equal; lia.
        * apply (proj1 (proj2 HL) p0 (or_intror H0) Hk0). exists m. split; [exact Hin|split; [unfold pkey; cbn; lia|split; [exact A|unfold pkey; cbn; lia]]].
      + exfalso. destruct (Hex x Hx) as [_ Hnn]. destruct HK as [_ _ _ _ LD2 _]. destruct (LD2 p0 (or_intror H0)) as [o0 (m1 & A1 & B1 & C1 & D1)].
        assert (m1 = m) by (apply (nodup_ids_unique (s_markets s)); [exact Hids|exact A1|exact Hin|unfold pkey in B1; cbn in B1; lia]). subst m1.
        assert (so_name o0 < s_next_name s) by (apply Hfr; apply in_map; exact C1). unfold pkey in D1; cbn in D1. lia. }
  assert (PUT : forall o', so_name o' = so_name o -> G o' ->
            lifeI L (upd_market (pk_market p) (fun m0 => set_orders m0 (upd_order (so_name o') (fun _ => o') (mk_orders m0))) (s_markets s))).
  { intros o' Hn' HG'. rewrite (upd_market_const _ _ m _ Em).
    apply (SHAPE _ o' []); [exact Hmid|cbn [set_orders mk_orders]; rewrite app_nil_r; reflexivity|exact Hn'|exact HG'|intros x []]. }
  destruct (pk_kind p) eqn:Ek.
  - (* place *)
    assert (Hpl : so_placed o = None).
    { destruct HK as [_ _ LC _ _ _]. destruct (LC p (or_introl eq_refl)) as [_ HC]; [unfold is_place; rewrite Ek; reflexivity|]. apply (HC o Hat). }
    destruct (g_unpl o HGo Hpl) as (Hst & Hbsp & Hbet & Hunt & Hsz).
    pose proof (core_sim_place tb (client_of cf (so_strat o)) (mk_static m) b (pk_mv p) o) as HC1.
    destruct (sim_place tb (client_of cf (so_strat o)) (mk_static m) b (pk_mv p) o) as [o1 ok]. cbn [fst] in HC1. rewrite mk_sim_markets.
    destruct (core_eq _ _ HC1) as (N1 & St1 & Lg1 & Bt1 & Rd1 & Pl1 & _).
    set (o2 := set_bet_placed o1 (if ok then Some (s_bet s + 1) else so_bet o1) (Some now)).
    assert (HG2 : G o2) by (apply (G_set_bet_placed o o1); assumption).
    assert (Hp2 : so_placed o2 <> None) by (cbn; discriminate).
    destruct ok; apply PUT; try (cbn; exact N1).
    + apply G_executable; [exact HG2|exact Hp2|]. cbn. rewrite St1, Hst. discriminate.
    + apply G_exec_complete; [exact HG2|exact Hp2|]. intros Hc. exfalso. apply Hc. cbn. rewrite Bt1. exact Hbet.
  - (* cancel *)
    assert (Hk : is_place p = false) by (unfold is_place; rewrite Ek; reflexivity).
    destruct (proj1 (proj2 HL) p (or_introl eq_refl) Hk o Hat) as [Hbet Hs].
    assert (Hpl : so_placed o <> None) by (destruct HK as [_ LB _ _ _ _]; apply (LB p (or_introl eq_refl) Hk o Hat)).
    pose proof (sim_cancel_spec b o) as HS. destruct (sim_cancel b o) as [[o1 ok] c]. destruct HS as (HC1 & Hno & Hyes). rewrite mk_sim_markets.
    destruct (core_eq _ _ HC1) as (N1 & _).
    destruct ok.
    + destruct (Hyes eq_refl) as (Ht & Hr1 & Hc). destruct (remaining o1 =? 0) eqn:Er.
      * apply PUT; [cbn; exact N1|]. apply (G_exec_complete' _ _ o o1 HGo HC1 Hpl). intros _. lia.
      * apply PUT; [cbn; exact N1|]. apply (G_executable' _ _ o o1 HGo HC1 Hpl). intro Hec.
        pose proof (g_done o HGo Hec Hbet) as H0. assert (c = 0); [|lia]. rewrite Hc, H0.
        destruct (so_red o) as [x|] eqn:Ered; [pose proof (g_red2 o HGo x Ered); destruct (x =? 0)|]; unfold zmin; match goal with |- context [if ?cc then _ else _] => destruct cc eqn:? end; lia.
    + rewrite (Hno eq_refl). apply PUT; [apply nm_reset_order|apply G_reset_order; assumption].
  - (* update *)
    assert (Hk : is_place p = false) by (unfold is_place; rewrite Ek; reflexivity).
    assert (Hpl : so_placed o <> None) by (destruct HK as [_ LB _ _ _ _]; apply (LB p (or_introl eq_refl) Hk o Hat)).
    rewrite mk_sim_markets. apply PUT; [apply nm_reset_order|apply G_reset_order; assumption].
  - (* replace *)
    assert (Hk : is_place p = false) by (unfold is_place; rewrite Ek; reflexivity).
    destruct (status_eqb (so_status o) SExecComplete) eqn:Ec; [rewrite mk_sim_markets; exact HLQ|].
    destruct (proj1 (proj2 HL) p (or_introl eq_refl) Hk o Hat) as [Hbet Hs].
    assert (Hst : so_status o = SReplacing).
    { destruct Hs as [Hs|Hs]; [rewrite Ek in Hs; apply (awaits_status _ _ Hs)|rewrite Hs in Ec; discriminate]. }
    assert (Hpl : so_placed o <> None) by (destruct HK as [_ LB _ _ _ _]; apply (LB p (or_introl eq_refl) Hk o Hat)).
    assert (Hred : so_red o = None) by (apply (g_red1 o HGo); right; right; right; exact Hst).
    pose proof (sim_cancel_spec b o) as HS. destruct (sim_cancel b o) as [[o1 ok] sc]. destruct HS as (HC1 & Hno & Hyes).
    destruct (core_eq _ _ HC1) as (N1 & St1 & Lg1 & Bt1 & Rd1 & Pl1 & _).
    destruct ok; cbn [negb].
    2:{ rewrite mk_sim_markets. rewrite (Hno eq_refl). apply PUT; [apply nm_reset_order|apply G_reset_order; assumption]. }
    destruct (Hyes eq_refl) as (Ht & Hr1 & Hc). rewrite Hred in Hc.
    assert (Hr0 : remaining o1 = 0) by (rewrite Hr1, Hc; unfold zmin; destruct (remaining o <? remaining o); lia).
    set (o2 := exec_complete (cf_complete cf) now o1).
    assert (HG2 : G o2) by (apply (G_exec_complete' _ _ o o1 HGo HC1 Hpl); intros _; exact Hr0).
    assert (N2 : so_name o2 = so_name o) by exact N1.
    destruct (sc =? 0); [rewrite mk_sim_markets; apply PUT; assumption|].
    match goal with |- context [sim_place tb ?c ?ms0 b ?mv ?r0] => pose proof (core_sim_place tb c ms0 b mv r0) as HCr; destruct (sim_place tb c ms0 b mv r0) as [r1 okp] end.
    cbn [fst] in HCr. destruct okp; rewrite mk_sim_markets.
    + rewrite upd_market_twice by reflexivity. rewrite (upd_market_const _ _ m _ Em).
      match goal with |- context [set_orders _ (_ ++ [?x])] => set (r4 := x) end.
      apply (SHAPE _ o2 [r4]); [exact Hmid|reflexivity|exact N2|exact HG2|]. intros x [<-|[]].
      destruct (core_eq _ _ HCr) as (Nr & Str & Lgr & Btr & Rdr & Plr & _). cbn in Nr, Str, Lgr, Rdr.
      split; [|exact Nr].
      constructor; unfold logI, r4; cbn [executable set_status set_live set_bet_placed upd_ord so_log so_status so_red so_bet so_placed]; rewrite ?Lgr.
      * split; reflexivity.
      * reflexivity.
      * intros _. reflexivity.
      * intros x Hx. discriminate.
      * intros Hx. discriminate.
      * intros Hx. discriminate.
    + apply PUT; [rewrite nm_reset_order; exact N2|]. apply G_reset_order; [exact HG2|]. cbn. rewrite Pl1. exact Hpl.
Qed.

(* ---------- requests ---------- *)
Definition action_pos0 (a : action) : Prop := match a with APlace _ _ _ (OLimit _ s _ _ _) _ => 0 < s | _ => True end.
Definition action_pos (a : action) : Prop := match a with AOn _ a' => action_pos0 a' | _ => action_pos0 a end.

Lemma NoDup_snoc {A} (l : list A) x : NoDup l -> ~ In x l -> NoDup (l ++ [x]).
Proof.
  intros Hn Hx. induction l as [|y r IH]; cbn [app]; [constructor; [intros []|constructor]|].
  apply NoDup_cons_iff in Hn as [H1 H2]. constructor.
  - intro Hc. apply in_app_or in Hc as [Hc|[Hc|[]]]; [contradiction|]. apply Hx. left. symmetry. exact Hc.
  - apply IH; [exact H2|]. intro Hc. apply Hx. right. exact Hc.
Qed.
Lemma upd_order_const n f : forall os o, get_order n os = Some o -> upd_order n f os = upd_order n (fun _ => f o) os.
Proof.
  induction os as [|y r IH]; intros o H; [reflexivity|]. unfold get_order in H. cbn [find] in H. cbn [upd_order].
  destruct (so_name y =? n); [inversion H; reflexivity|f_equal; apply IH; exact H].
Qed.

Lemma G_manage cs now o red newp pers st : G o -> so_status o = SExecutable ->
  st = SCancelling \/ st = SUpdating \/ st = SReplacing -> (st <> SCancelling -> red = so_red o) -> (forall x, red = Some x -> 0 <= x) ->
  G (set_status cs now (set_upd o red newp pers) st false).
Proof.
  intros HG Hs Hst Hred Hpos. pose proof HG as [L S R1 R2 D U]. constructor.
  - apply logI_set_status; [exact L|]. cbn [set_upd upd_ord so_status]. rewrite Hs. destruct Hst as [->|[->| ->]]; reflexivity.
  - destruct Hst as [->|[->| ->]]; reflexivity.
  - cbn [set_status set_upd upd_ord so_status so_red]. intros Hc. rewrite Hred; [apply R1; right; left; exact Hs|].
    destruct Hc as [Hc|[Hc|[Hc|Hc]]]; rewrite Hc; discriminate.
  - cbn [set_status set_upd upd_ord so_red]. exact Hpos.
  - cbn [set_status set_upd upd_ord so_status]. intros Hc. destruct Hst as [->|[->| ->]]; discriminate.
  - cbn [set_status set_upd upd_ord so_placed]. intros Hp. destruct (U Hp) as (Hc & _). rewrite Hs in Hc. discriminate.
Qed.

Lemma manage_life cf ms q mid m name o (f : sorder -> sorder) k now bd mv :
  NoDup (map mk_id ms) -> get_market mid ms = Some m -> NoDup (names (mk_orders m)) -> get_order name (mk_orders m) = Some o ->
  so_status o = SExecutable -> so_bet o <> None -> so_name (f o) = so_name o -> so_bet (f o) = so_bet o -> awaits (so_status (f o)) k -> k <> KPlace -> G (f o) ->
  linkI cf q ms -> lifeI q ms ->
  lifeI (q ++ [pkg_of k mid name now bd mv]) (upd_market mid (fun m0 => set_orders m0 (upd_order name f (mk_orders m))) ms).
Proof.
  intros Hids Em Hnd Eo Hs Hbet Hfn Hfb Hk Hkp HGf HK HL. destruct (get_market_id _ _ _ Em) as [Hin Hmid]. destruct (get_order_in _ _ _ Eo) as [Hino Hname].
  set (pn := pkg_of k mid name now bd mv).
  assert (Hat : at_key ms (mid, name) o) by (exists m; split; [exact Hin|split; [exact Hmid|split; [exact Hino|exact Hname]]]).
  assert (NOKEY : forall p0, In p0 q -> pkey p0 <> (mid, name)).
  { intros p0 H0 Hc. destruct (is_place p0) eqn:Ep.
    - destruct HK as [_ _ LC _ _ _]. destruct (LC p0 H0 Ep) as [_ HC]. rewrite Hc in HC. destruct (HC o Hat) as [Hp _].
      destruct (g_unpl o (proj1 HL m Hin o Hino) Hp) as (Hc2 & _). rewrite Hs in Hc2. discriminate.
    - rewrite <- Hc in Hat. destruct (proj1 (proj2 HL) p0 H0 Ep o Hat) as [_ [Hc2|Hc2]]; rewrite Hs in Hc2; [destruct (pk_kind p0); destruct Hc2|discriminate]. }
  rewrite (upd_market_const _ _ m _ Em). rewrite (upd_order_const name f _ o Eo).
  apply (life_step q (q ++ [pn]) ms mid m (set_orders m (upd_order name (fun _ => f o) (mk_orders m))) Hids Em Hmid); [| | | |exact HL].
  - cbn [set_orders mk_orders]. intros x Hx. destruct (upd_order_in _ _ _ _ Hnd Hx) as [->|[A _]]; [exact HGf|apply (proj1 HL m Hin x A)].
  - cbn [set_orders mk_orders]. intros p0 H0 Hk0 Hm0 x Hx Hnx. apply in_app_or in H0 as [H0|[<-|[]]].
    + destruct (upd_order_in _ _ _ _ Hnd Hx) as [->|[A B]].
      * exfalso. apply (NOKEY p0 H0). unfold pkey. f_equal; lia.
      * apply (proj1 (proj2 HL) p0 H0 Hk0). exists m. split; [exact Hin|split; [unfold pkey; cbn; lia|split; [exact A|unfold pkey; cbn; lia]]].
    + destruct (upd_order_in _ _ _ _ Hnd Hx) as [->|[A B]].
      * split; [rewrite Hfb; exact Hbet|left; exact Hk].
      * exfalso. cbn in Hnx. lia.
  - intros p0 H0 Hne. apply in_app_or in H0 as [H0|[<-|[]]]; [exact H0|]. cbn in Hne. lia.
  - rewrite map_app. cbn [map]. apply NoDup_snoc; [apply HL|]. intro Hc. apply in_map_iff in Hc as [p0 [Hpk H0]]. apply (NOKEY p0 H0). exact Hpk.
Qed.

Theorem request0_life cf now st mid fut s a :
  action_ok0 a -> action_pos0 a -> simN (act_keys0 mid a ++ fut) s -> linkI cf (s_queue s) (s_markets s) -> lifeI (s_queue s) (s_markets s) ->
  lifeI (s_queue (request0 cf now st mid s a)) (s_markets (request0 cf now st mid s a)).
Proof.
  intros Ha Hpos HN HK HL. pose proof HN as (Hids & Hmk & Hnx & Hdup & Hk).
  unfold request0. destruct (get_market mid (s_markets s)) as [m|] eqn:Em; [|exact HL].
  destruct (get_market_id _ _ _ Em) as [Hin Hmid].
  assert (Hnd : NoDup (names (mk_orders m))) by (rewrite Forall_forall in Hmk; apply (Hmk m Hin)).
  destruct a as [name sel sd t mv|name red|name p|name price mv|mid' a']; [| | | |exact HL].
  - destruct (negb (market_open m)); [exact HL|]. cbn [s_queue s_markets].
    set (o1 := set_live (set_status (cf_complete cf) now (new_order name st mid sel sd t now false) SPending false) true).
    assert (Hn1 : so_name o1 = name) by (subst o1; destruct t; reflexivity).
    assert (Hfresh : ~ In name (names (mk_orders m))).
    { intro Hc. rewrite Forall_forall in Hmk. destruct (Hmk m Hin) as [_ B]. destruct (B name Hc) as [_ D]. apply D. left. rewrite Hmid. reflexivity. }
    set (pn := {| pk_kind := KPlace; pk_market := mid; pk_order := name; pk_created := now; pk_bet_delay := match mk_book m with Some b => b_delay b | None => 0 end; pk_mv := mv |}).
    assert (NOKEY : forall p0, In p0 (s_queue s) -> pkey p0 <> (mid, name)).
    { intros p0 H0 Hc. destruct HK as [_ _ _ _ LD2 _]. destruct (LD2 p0 H0) as [o (m0 & A & B & C & D)]. rewrite Hc in B, D. cbn in B, D.
      assert (m0 = m) by (apply (nodup_ids_unique (s_markets s)); [exact Hids|exact A|exact Hin|lia]). subst m0.
      apply Hfresh. unfold names. apply in_map_iff. exists o. split; [exact D|exact C]. }
    assert (HG1 : G o1).
    { subst o1. destruct t as [pp ss pe ff mf|l pp|l]; cbn in Hpos; constructor; unfold logI; cbn;
        try (split; reflexivity); try reflexivity; try (intros; reflexivity); try (intros; discriminate);
        (intros _; split; [reflexivity|split; [reflexivity|split; [reflexivity|split; [unfold untouched; cbn; repeat split; reflexivity|intros; try discriminate; exact Hpos]]]]). }
    rewrite (upd_market_const _ _ m _ Em).
    apply (life_step (s_queue s) (s_queue s ++ [pn]) (s_markets s) mid m (set_orders m (mk_orders m ++ [o1])) Hids Em Hmid); [| | | |exact HL].
    + cbn [set_orders mk_orders]. intros x Hx. apply in_app_or in Hx as [Hx|[<-|[]]]; [apply (proj1 HL m Hin x Hx)|exact HG1].
    + cbn [set_orders mk_orders]. intros p0 H0 Hk0 Hm0 x Hx Hnx0. apply in_app_or in H0 as [H0|[<-|[]]]; [|discriminate].
      apply in_app_or in Hx as [Hx|[<-|[]]].
      * apply (proj1 (proj2 HL) p0 H0 Hk0). exists m. split; [exact Hin|split; [unfold pkey; cbn; lia|split; [exact Hx|unfold pkey; cbn; lia]]].
      * exfalso. apply (NOKEY p0 H0). unfold pkey. f_equal; lia.
    + intros p0 H0 Hne. apply in_app_or in H0 as [H0|[<-|[]]]; [exact H0|]. cbn in Hne. lia.
    + rewrite map_app. cbn [map]. apply NoDup_snoc; [apply HL|]. intro Hc. apply in_map_iff in Hc as [p0 [Hpk H0]]. apply (NOKEY p0 H0). exact Hpk.
  - destruct (get_order name (mk_orders m)) as [o|] eqn:Eo; [|exact HL].
    destruct (negb (order_validation_ok o) || negb (market_open m)); [exact HL|].
    destruct (so_bet o) eqn:Eb; [|exact HL]. destruct (so_type o); try exact HL.
    destruct (match red with Some x => negb (x =? 0) && (remaining o - x <? 0) | None => false end); [exact HL|].
    destruct (negb (status_eqb (so_status o) SExecutable)) eqn:Est; [exact HL|]. cbn [s_queue s_markets].
    assert (Hs : so_status o = SExecutable) by (apply negb_false_iff in Est; destruct (so_status o); try discriminate; reflexivity).
    destruct (get_order_in _ _ _ Eo) as [Hino _].
    apply (manage_life cf (s_markets s) (s_queue s) mid m name o _ KCancel now _ None Hids Em Hnd Eo Hs); try reflexivity; try exact I; try discriminate; try assumption; [rewrite Eb; discriminate|].
    apply G_manage; [apply (proj1 HL m Hin o Hino)|exact Hs|left; reflexivity|intros Hc; contradiction|]. intros x Hx. subst red. exact Ha.
  - destruct (get_order name (mk_orders m)) as [o|] eqn:Eo; [|exact HL].
    destruct (negb (order_validation_ok o) || negb (market_open m)); [exact HL|].
    destruct (so_bet o) eqn:Eb; [|exact HL]. destruct (so_type o); try exact HL.
    destruct (persist_eqb (so_persist o) p); [exact HL|].
    destruct (negb (status_eqb (so_status o) SExecutable)) eqn:Est; [exact HL|]. cbn [s_queue s_markets].
    assert (Hs : so_status o = SExecutable) by (apply negb_false_iff in Est; destruct (so_status o); try discriminate; reflexivity).
    destruct (get_order_in _ _ _ Eo) as [Hino _]. pose proof (proj1 HL m Hin o Hino) as HGo.
    apply (manage_life cf (s_markets s) (s_queue s) mid m name o _ KUpdate now _ None Hids Em Hnd Eo Hs); try reflexivity; try exact I; try discriminate; try assumption; [rewrite Eb; discriminate|].
    apply G_manage; [exact HGo|exact Hs|right; left; reflexivity|intros _; reflexivity|apply (g_red2 o HGo)].
  - destruct (get_order name (mk_orders m)) as [o|] eqn:Eo; [|exact HL].
    destruct (negb (order_validation_ok o) || negb (market_open m)); [exact HL|].
    destruct (so_bet o) eqn:Eb; [|exact HL].
    destruct (get_order_in _ _ _ Eo) as [Hino _]. pose proof (proj1 HL m Hin o Hino) as HGo.
    destruct (so_type o); try exact HL;
    (destruct (so_price o =? price); [exact HL|]; destruct (negb (status_eqb (so_status o) SExecutable)) eqn:Est; [exact HL|]; cbn [s_queue s_markets];
     assert (Hs : so_status o = SExecutable) by (apply negb_false_iff in Est; destruct (so_status o); try discriminate; reflexivity);
     apply (manage_life cf (s_markets s) (s_queue s) mid m name o _ KReplace now _ mv Hids Em Hnd Eo Hs); try reflexivity; try exact I; try discriminate; try assumption; [rewrite Eb; discriminate|];
     apply G_manage; [exact HGo|exact Hs|right; right; reflexivity|intros _; reflexivity|apply (g_red2 o HGo)]).
Qed.

(* ====================== the loop ====================== *)
Lemma lifeI_perm Q Q' ms : Permutation Q' Q -> lifeI Q ms -> lifeI Q' ms.
Proof.
  intros HP [HG [HF Hnd]]. split; [exact HG|split].
  - intros p Hp. apply HF. eapply Permutation_in; eassumption.
  - eapply Permutation_NoDup; [|exact Hnd]. apply Permutation_sym. apply Permutation_map. exact HP.
Qed.
Lemma lifeI_app_r ps rest ms : lifeI (ps ++ rest) ms -> lifeI rest ms.
Proof. induction ps as [|p ps IH]; cbn [app]; intros H; [exact H|]. apply IH. eapply lifeI_tail. exact H. Qed.

Lemma fold_exec_life tb cf now fut rest : forall ps s, simN fut s -> linkI cf (ps ++ rest) (s_markets s) -> lifeI (ps ++ rest) (s_markets s) ->
  lifeI rest (s_markets (fold_left (fun s1 p => if s_aborted s1 then s1 else exec_pkg tb cf now s1 p) ps s)).
Proof.
  induction ps as [|p ps IH]; intros s HN HK HL; cbn [fold_left app] in *; [exact HL|].
  destruct (s_aborted s) eqn:Ea.
  - apply IH; [exact HN|eapply linkI_tail; exact HK|eapply lifeI_tail; exact HL].
  - apply IH; [apply exec_pkg_N; exact HN|eapply exec_pkg_link; eassumption|eapply exec_pkg_life; eassumption].
Qed.

Theorem check_pending_life tb cf now mid fut s : simQ cf fut s -> lifeI (s_queue s) (s_markets s) ->
  lifeI (s_queue (check_pending tb cf now mid s)) (s_markets (check_pending tb cf now mid s)).
Proof.
  intros [HN HK] HL. unfold check_pending.
  set (fr := fun p => (pk_market p =? mid) && due cf now p).
  set (ps := filter fr (s_queue s)). set (rest := filter (fun p => negb (fr p)) (s_queue s)).
  assert (HK' : linkI cf (ps ++ rest) (s_markets s)) by (apply (linkI_perm cf (s_queue s)); [apply filter_partition_perm|exact HK]).
  assert (HL' : lifeI (ps ++ rest) (s_markets s)) by (apply (lifeI_perm (s_queue s)); [apply filter_partition_perm|exact HL]).
  pose proof (fold_exec_life tb cf now fut rest ps s HN HK' HL') as H.
  assert (Eq : s_queue (fold_left (fun s1 p => if s_aborted s1 then s1 else exec_pkg tb cf now s1 p) ps s) = s_queue s).
  { assert (G0 : forall l s0, s_queue (fold_left (fun s1 p => if s_aborted s1 then s1 else exec_pkg tb cf now s1 p) l s0) = s_queue s0).
    { induction l as [|p l IH]; intros s0; cbn [fold_left]; [reflexivity|]. rewrite IH. destruct (s_aborted s0); [reflexivity|apply exec_pkg_queue']. }
    apply G0. }
  cbn [s_queue s_markets]. rewrite Eq. exact H.
Qed.

Definition lifeQ (cf : config) (fut : list (Z * Z)) (s : sim) : Prop := simQB cf fut s /\ lifeI (s_queue s) (s_markets s).

Theorem request_life cf now st mid fut s a : cfg_ok cf -> action_ok a -> action_pos a -> lifeQ cf (act_keys mid a ++ fut) s -> lifeQ cf fut (request cf now st mid s a).
Proof.
  intros Hc Ha Hp [HQ HL]. split; [apply request_QB; assumption|]. destruct HQ as [[HN HK] _].
  unfold request, act_keys, action_ok, action_pos in *.
  destruct a as [name sel sd t mv|name red|name p|name price mv|mid' a']; eapply request0_life; eassumption.
Qed.
Lemma requests_life cf now st mid : cfg_ok cf -> forall acts fut s, Forall action_ok acts -> Forall action_pos acts -> lifeQ cf (flat_map (act_keys mid) acts ++ fut) s ->
  lifeQ cf fut (fold_left (request cf now st mid) acts s).
Proof.
  intros Hc. induction acts as [|a acts IH]; intros fut s Ha Hp HI; cbn [fold_left flat_map app] in *; [exact HI|].
  inversion Ha; subst. inversion Hp; subst. apply IH; [assumption|assumption|]. apply request_life; [exact Hc|assumption|assumption|]. rewrite app_assoc. exact HI.
Qed.
Lemma strategies_life cf now mid (f : Z -> list action) : cfg_ok cf -> forall sts fut s, (forall st, In st sts -> Forall action_ok (f st)) -> (forall st, In st sts -> Forall action_pos (f st)) ->
  lifeQ cf (flat_map (fun st => flat_map (act_keys mid) (f st)) sts ++ fut) s ->
  lifeQ cf fut (fold_left (fun s st => fold_left (request cf now st mid) (f st) s) sts s).
Proof.
  intros Hc. induction sts as [|st sts IH]; intros fut s Hf Hp HI; cbn [fold_left flat_map app] in *; [exact HI|].
  apply IH; [intros st' H'; apply Hf; right; exact H'|intros st' H'; apply Hp; right; exact H'|].
  apply requests_life; [exact Hc|apply Hf; left; reflexivity|apply Hp; left; reflexivity|]. rewrite app_assoc. exact HI.
Qed.

Definition event_pos (sc : script) (n : Z) (e : event) : Prop :=
  forall st, In st (map Z.of_nat (seq 0 (Z.to_nat n))) -> Forall action_pos (sc st (ev_market e) (ev_idx e)).

Lemma F2_comp {A} (R1 R2 : A -> A -> Prop) : forall a b c, Forall2 R1 a b -> Forall2 R2 b c -> Forall2 (fun x z => exists y, R1 x y /\ R2 y z) a c.
Proof.
  intros a b c H. revert c. induction H as [|x y l l' Hxy Hl IH]; intros c Hc; inversion Hc; subst; constructor; [exists y; split; assumption|apply IH; assumption].
Qed.
Lemma evo_facts cf o o' : cfg_ok cf -> evo cf o o' -> so_name o' = so_name o /\ (G o -> G o') /\ so_bet o' = so_bet o /\ so_status o' = so_status o.
Proof.
  intros Hc H. split; [eapply evo_name; exact H|]. split; [apply (G_evo cf); assumption|]. split; [|eapply evo_status; exact H].
  destruct H as [->|[_ E]]; [reflexivity|apply (core_eq _ _ E)].
Qed.
Lemma swept_facts cf now o o' : swept cf now o o' ->
  so_name o' = so_name o /\ (G o -> G o') /\ so_bet o' = so_bet o /\ (so_status o' = so_status o \/ so_status o' = SExecComplete).
Proof.
  intros H. split; [eapply swept_name; exact H|]. split; [apply (G_swept cf now); exact H|].
  destruct H as [->|[->|[-> _]]]; (split; [reflexivity|]); [left; reflexivity|left; reflexivity|right; reflexivity].
Qed.

(* ---------- one event ---------- *)
Theorem step_life tb cf n sc fut s e : cfg_ok cf -> event_ok2 sc n e -> event_pos sc n e -> lifeQ cf (ev_keys sc n e ++ fut) s -> lifeQ cf fut (step tb cf n sc s e).
Proof.
  intros Hc He Hpos [HQ HL]. split; [apply (step_QB tb cf n sc fut s e Hc He HQ)|].
  destruct He as [[Hbk Hsc] Hdl]. destruct HQ as [[HN HK] Hbd].
  unfold step. destruct (s_aborted s) eqn:Eab; [exact HL|].
  set (s1 := match s_queue s with [] => s | _ => check_pending tb cf (b_pt (ev_book e)) (ev_market e) s end).
  assert (H1 : simQB cf (ev_keys sc n e ++ fut) s1 /\ lifeI (s_queue s1) (s_markets s1)).
  { subst s1. destruct (check_pending_link tb cf (b_pt (ev_book e)) (ev_market e) _ s (conj HN HK) Hbd) as (_ & _ & C & D).
    pose proof (check_pending_life tb cf (b_pt (ev_book e)) (ev_market e) _ s (conj HN HK) HL) as E.
    destruct (s_queue s) eqn:Eq; [split; [rewrite <- Eq in HK; exact (conj (conj HN HK) Hbd)|rewrite <- Eq in HL; exact HL]|].
    split; [exact (conj C D)|exact E]. }
  destruct H1 as [[[HN1 HK1] Hbd1] HL1].
  destruct (s_aborted s1); [exact HL1|].
  destruct (get_market (ev_market e) (s_markets s1)) as [m|] eqn:Em; [|exact HL1].
  destruct (get_market_id _ _ _ Em) as [Hin Hmid].
  pose proof HN1 as (Hids & Hmk & _).
  assert (Hnd : NoDup (names (mk_orders m))) by (rewrite Forall_forall in Hmk; apply (Hmk m Hin)).
  destruct (mstatus_eqb (b_status (ev_book e)) MClosed) eqn:Ecl.
  - destruct (mk_seen m); [|exact HL1]. cbn [s_queue s_markets]. rewrite (upd_market_const _ _ m _ Em).
    match goal with |- lifeI _ (upd_market _ (fun _ => ?mm) _) => apply (life_evolves eq (s_queue s1) (s_markets s1) (ev_market e) m mm Hids Em Hmid) end; [cbn [mk_orders]; apply F2_refl; reflexivity| |exact HL1].
    intros o o' <-. split; [reflexivity|split; [auto|split; [reflexivity|left; reflexivity]]].
  - match goal with |- context [middleware tb cf s1 ?mm ?b] => set (m0 := mm) end.
    pose proof (middleware_N tb cf s1 m0 (ev_book e)) as (E1 & E2 & E3 & E4).
    pose proof (middleware_queue tb cf s1 m0 (ev_book e)) as E5.
    pose proof (middleware_book tb cf s1 m0 (ev_book e)) as E6.
    assert (HK0 : Forall2 (keeps cf) (mk_orders m) (mk_orders (snd (middleware tb cf s1 m0 (ev_book e)))))
      by (apply (middleware_keeps tb cf s1 m0 (ev_book e) Hbk Hnd); destruct HK1 as [LA _ _ _ _ _]; apply (LA m Hin)).
    assert (HE0 : Forall2 (evo cf) (mk_orders m) (mk_orders (snd (middleware tb cf s1 m0 (ev_book e)))))
      by (apply (middleware_evo tb cf s1 m0 (ev_book e) Hbk Hnd)).
    destruct (middleware tb cf s1 m0 (ev_book e)) as [s2 m1]. cbn [fst snd] in *. unfold m0 in E3, E4. cbn [mk_id mk_orders] in E3, E4, HK0, HE0.
    set (m2 := if mk_active m1 then set_orders m1 (completion_sweep cf (b_pt (ev_book e)) (mk_orders m1)) else m1).
    assert (HK2 : Forall2 (keeps cf) (mk_orders m) (mk_orders m2)).
    { subst m2. destruct (mk_active m1); [|exact HK0]. cbn [set_orders mk_orders]. eapply Forall2_trans_keeps; [exact HK0|]. apply completion_sweep_keeps. apply Hc. }
    assert (HE2 : Forall2 (fun o o'' => exists o', evo cf o o' /\ (swept cf (b_pt (ev_book e)) o' o'')) (mk_orders m) (mk_orders m2)).
    { subst m2. destruct (mk_active m1); cbn [set_orders mk_orders].
      - apply (F2_comp _ _ _ _ _ HE0). apply completion_sweep_swept.
      - apply (F2_comp _ _ _ _ _ HE0). apply F2_refl. intros x. left. reflexivity. }
    assert (Hid2 : mk_id m2 = ev_market e) by (subst m2; destruct (mk_active m1); cbn; lia).
    assert (Hbk2 : match mk_book m2 with Some b => 0 <= b_delay b | None => True end)
      by (subst m2; destruct (mk_active m1); cbn [set_orders mk_book]; rewrite E6; exact Hdl).
    refine (proj2 (strategies_life cf (b_pt (ev_book e)) (ev_market e) (fun st => sc st (ev_market e) (ev_idx e)) Hc _ fut _ Hsc Hpos _)).
    fold (ev_keys sc n e). split; [split; [split|]|].
    + destruct HN1 as (A & B & C & D & E). unfold simN. cbn [s_markets s_next_name]. rewrite E1, E2.
      rewrite ids_upd_market_c by (intros x _; exact Hid2). split; [exact A|]. split; [|split; [exact C|split; assumption]].
      rewrite (Forall_forall) in B. rewrite Forall_forall. intros x Hx.
      destruct (upd_const_in (ev_market e) m2 m (s_markets s1) x A Hin Hmid Hx) as [->|[Hx' _]]; [|apply B; exact Hx'].
      apply (mkN_same_names _ _ m); [lia|rewrite (Forall2_names cf _ _ HK2); reflexivity|apply B; exact Hin].
    + cbn [s_queue s_markets]. rewrite E1, E5. apply (market_evolves_link cf (s_queue s1) (s_markets s1) (ev_market e) m m2 Hids Em Hid2 HK2 Hbk2 HK1).
    + unfold queue_bd_ok. cbn [s_queue]. rewrite E5. exact Hbd1.
    + cbn [s_queue s_markets]. rewrite E1, E5.
      apply (life_evolves _ (s_queue s1) (s_markets s1) (ev_market e) m m2 Hids Em Hid2 HE2); [|exact HL1].
      intros o o'' (o' & H1 & H2). destruct (evo_facts cf o o' Hc H1) as (N1 & G1 & B1 & S1). destruct (swept_facts cf _ o' o'' H2) as (N2 & G2 & B2 & S2).
      split; [congruence|]. split; [auto|]. split; [congruence|]. destruct S2 as [S2|S2]; [left; congruence|right; exact S2].
Qed.

(* ---------- whole runs ---------- *)
Theorem run_life tb cf n sc : cfg_ok cf -> forall es fut s, Forall (event_ok2 sc n) es -> Forall (event_pos sc n) es -> lifeQ cf (run_keys sc n es ++ fut) s ->
  lifeQ cf fut (fold_left (step tb cf n sc) es s).
Proof.
  intros Hc. induction es as [|e es IH]; intros fut s He Hp HI; cbn [fold_left run_keys flat_map app] in *; [exact HI|].
  inversion He as [|? ? He1 He2]; subst. inversion Hp as [|? ? Hp1 Hp2]; subst. unfold run_keys in HI. rewrite <- app_assoc in HI.
  apply IH; [exact He2|exact Hp2|]. apply step_life; assumption.
Qed.

Lemma initial_life cf keys s : initial_ok s -> NoDup keys -> Forall (fun k => snd k < 1000) keys -> lifeQ cf (keys ++ []) s.
Proof.
  intros Hi Hd Hk. split; [apply initial_QB; assumption|]. destruct Hi as (_ & H0 & Hq & _). rewrite Hq. split; [|split; [intros p []|constructor]].
  intros m Hm o Ho. destruct (H0 m Hm) as (A & _). rewrite A in Ho. destruct Ho.
Qed.

(* THE WHOLE-RUN THEOREM *)
Theorem run_lifecycle tb cf n sc es s :
  cfg_ok cf -> initial_ok s -> Forall (event_ok2 sc n) es -> Forall (event_pos sc n) es -> NoDup (run_keys sc n es) -> Forall (fun k => snd k < 1000) (run_keys sc n es) ->
  lifeI (s_queue (fold_left (step tb cf n sc) es s)) (s_markets (fold_left (step tb cf n sc) es s)).
Proof. intros Hc Hi He Hp Hd Hk. apply (run_life tb cf n sc Hc es [] s He Hp (initial_life cf _ s Hi Hd Hk)). Qed.

(* ====================== the statements for users ====================== *)
(* once Execution complete is in a lifecycle path, everything after it is Execution complete *)
Lemma lifecycle_after_complete : forall l2, lifecycle_path SExecComplete l2 = true -> Forall (eq SExecComplete) l2.
Proof.
  induction l2 as [|b r IH]; intros H; [constructor|]. cbn [lifecycle_path] in H. apply andb_true_iff in H as [H1 H2].
  destruct b; try discriminate. constructor; [reflexivity|apply IH; exact H2].
Qed.
Lemma lifecycle_path_split a : forall l1 b l2, lifecycle_path a (l1 ++ b :: l2) = true -> lifecycle_path b l2 = true.
Proof.
  intros l1. revert a. induction l1 as [|x r IH]; intros a b l2 H; cbn [app lifecycle_path] in H; apply andb_true_iff in H as [_ H]; [exact H|eapply IH; exact H].
Qed.
Lemma last_all_eq {A} (d a : A) : forall l, Forall (eq a) l -> last (a :: l) d = a.
Proof. induction l as [|y r IH]; intros F; [reflexivity|]. apply Forall_cons_iff in F as [<- F]. change (last (a :: a :: r) d) with (last (a :: r) d). apply IH. exact F. Qed.
Lemma last_app_cons {A} (d x : A) l2 : forall l1, last (l1 ++ x :: l2) d = last (x :: l2) d.
Proof. induction l1 as [|y r IH]; [reflexivity|]. cbn [app]. destruct (r ++ x :: l2) eqn:E; [destruct r; discriminate|]. exact IH. Qed.
Theorem complete_is_final_in_log o l1 l2 : logI o -> so_log o = l1 ++ SExecComplete :: l2 -> Forall (eq SExecComplete) l2 /\ so_status o = SExecComplete.
Proof.
  intros [A B] E. rewrite E in A, B. pose proof (lifecycle_after_complete l2 (lifecycle_path_split _ _ _ _ A)) as F. split; [exact F|].
  rewrite <- B. rewrite last_app_cons. apply last_all_eq. exact F.
Qed.

Lemma event_b3_sound sc n e : event_b3 sc n e = true -> event_pos sc n e.
Proof.
  unfold event_b3, event_pos. intros H st Hst. rewrite forallb_forall in H. specialize (H st Hst). rewrite forallb_forall in H. rewrite Forall_forall.
  intros a Ha. specialize (H a Ha). unfold action_b3, action_pos, action_pos0 in *.
  destruct a as [? ? ? t ?|? ?|? ?|? ? ?|? a']; try exact I; [destruct t; try exact I; lia|].
  destruct a' as [? ? ? t ?|? ?|? ?|? ? ?|? ?]; try exact I. destruct t; try exact I; lia.
Qed.

Section LifeStatic.
  Variables (tb : tiebreak) (cf : config) (n : Z) (sc : script) (es : list event) (s : sim).
  Hypothesis Hcfg : cfg_ok_b cf = true.
  Hypothesis Hinit : initial_b s = true.
  Hypothesis Hev : forallb (event_b2 sc n) es = true.
  Hypothesis Hpos : forallb (event_b3 sc n) es = true.
  Hypothesis Hkeys : keys_ok_b sc n es = true.

  Let sf := fold_left (step tb cf n sc) es s.

  Lemma run_lifeI_static : lifeI (s_queue sf) (s_markets sf).
  Proof.
    destruct (keys_ok_b_sound sc n es Hkeys) as [Hd Hk].
    apply run_lifecycle; [apply cfg_ok_b_sound; exact Hcfg|apply initial_b_sound; exact Hinit| | |exact Hd|exact Hk].
    - rewrite forallb_forall in Hev. rewrite Forall_forall. intros e He. apply event_b2_sound. apply Hev. exact He.
    - rewrite forallb_forall in Hpos. rewrite Forall_forall. intros e He. apply event_b3_sound. apply Hpos. exact He.
  Qed.

  (* every status an order has passed through follows the documented lifecycle, and its current status is the last entry *)
  Theorem run_lifecycle_legal_static m o : In m (s_markets sf) -> In o (mk_orders m) ->
    lifecycle_path SNone (so_log o) = true /\ last (so_log o) SNone = so_status o.
  Proof. intros Hm Ho. exact (g_log o (proj1 run_lifeI_static m Hm o Ho)). Qed.

  (* an order that was reported complete never becomes live again *)
  Theorem run_complete_is_final_static m o l1 l2 : In m (s_markets sf) -> In o (mk_orders m) -> so_log o = l1 ++ SExecComplete :: l2 ->
    Forall (eq SExecComplete) l2 /\ so_status o = SExecComplete.
  Proof. intros Hm Ho. apply complete_is_final_in_log. exact (g_log o (proj1 run_lifeI_static m Hm o Ho)). Qed.

  (* at most one operation per order is outstanding *)
  Theorem run_one_operation_outstanding_static : NoDup (map pkey (s_queue sf)).
  Proof. exact (proj2 (proj2 run_lifeI_static)). Qed.

  (* a cancel / update / replace in the queue names an order that rests at the exchange with a bet id and is in exactly that transient status,
     or has completed while the request was in flight *)
  Theorem run_request_in_flight_static p m o : In p (s_queue sf) -> pk_kind p <> KPlace -> In m (s_markets sf) -> mk_id m = pk_market p ->
    In o (mk_orders m) -> so_name o = pk_order p -> so_bet o <> None /\ (awaits (so_status o) (pk_kind p) \/ so_status o = SExecComplete).
  Proof.
    intros Hp Hk Hm Hid Ho Hn. apply (proj1 (proj2 run_lifeI_static) p Hp); [unfold is_place; destruct (pk_kind p); [contradiction|reflexivity|reflexivity|reflexivity]|].
    exists m. split; [exact Hm|split; [exact Hid|split; [exact Ho|exact Hn]]].
  Qed.
End LifeStatic.

(* ---------- a request on an order that is not resting Executable with a bet id changes nothing at all ---------- *)
Definition manages (a : action) : option Z :=
  match a with ACancel n _ | AUpdate n _ | AReplace n _ _ => Some n | _ => None end.
Theorem request0_rejected_is_identity cf now st mid s a name m o :
  manages a = Some name -> get_market mid (s_markets s) = Some m -> get_order name (mk_orders m) = Some o ->
  so_status o <> SExecutable \/ so_bet o = None -> request0 cf now st mid s a = s.
Proof.
  intros Ha Em Eo Hrej. unfold request0. rewrite Em.
  assert (Hst : so_status o <> SExecutable -> negb (status_eqb (so_status o) SExecutable) = true) by (intros H; destruct (so_status o); try reflexivity; contradiction).
  destruct a as [? ? ? ? ?|n red|n p|n price mv|? ?]; cbn in Ha; try discriminate; inversion Ha; subst n; rewrite Eo;
    (destruct (negb (order_validation_ok o) || negb (market_open m)); [reflexivity|]);
    (destruct (so_bet o) eqn:Eb; [|reflexivity]); (destruct Hrej as [Hrej|Hrej]; [|discriminate]); specialize (Hst Hrej).
  - destruct (so_type o); try reflexivity. destruct (match red with Some x => negb (x =? 0) && (remaining o - x <? 0) | None => false end); [reflexivity|]. rewrite Hst. reflexivity.
  - destruct (so_type o); try reflexivity. destruct (persist_eqb (so_persist o) p); [reflexivity|]. rewrite Hst. reflexivity.
  - destruct (so_type o); try reflexivity; (destruct (so_price o =? price); [reflexivity|]; rewrite Hst; reflexivity).
Qed.
(* a request naming an order the market does not hold changes nothing either *)
Theorem request0_unknown_is_identity cf now st mid s a name m :
  manages a = Some name -> get_market mid (s_markets s) = Some m -> get_order name (mk_orders m) = None -> request0 cf now st mid s a = s.
Proof.
  intros Ha Em Eo. unfold request0. rewrite Em. destruct a as [? ? ? ? ?|n red|n p|n price mv|? ?]; cbn in Ha; try discriminate; inversion Ha; subst n; rewrite Eo; reflexivity.
Qed.

(* SimLatencyP.v — C07: latency / bet delay, no look-ahead, no free speed. *)
From Coq Require Import ZArith List Bool Lia ZifyBool.
From V Require Import Model.Num Model.Status Model.Sim Model.SimLoop Gen.StatusC Gen.DelayC Model.SimCases.
Open Scope Z_scope.

(* the threshold of the REAL float comparison (tabulated from the source for 4 kinds x bet delay 0..12) is the
   strict ">" on whole milliseconds: first due at latency + 1000*bet_delay + 1 ms *)
Definition default_cfg := mkcfg LAT_PLACE LAT_CANCEL LAT_UPDATE LAT_REPLACE true [].
Lemma delay_table_is_strict :
  forallb (fun row => let '(k, bd, ms) := row in delay_ms default_cfg k bd + 1 =? ms) DELAY_TABLE = true /\ length DELAY_TABLE = 52%nat.
Proof. vm_compute. split; reflexivity. Qed.

Lemma due_iff cf now p : due cf now p = true <-> delay_ms cf (pk_kind p) (pk_bet_delay p) < now - pk_created p.
Proof. unfold due. lia. Qed.

(* executing a package never touches the queue *)
Lemma exec_pkg_queue tb cf now s p : s_queue (exec_pkg tb cf now s p) = s_queue s.
Proof.
  unfold exec_pkg. destruct (get_market (pk_market p) (s_markets s)) as [m|]; [|reflexivity].
  destruct (mk_book m) as [b|]; [|reflexivity]. destruct (get_order (pk_order p) (mk_orders m)) as [o|]; [|reflexivity].
  destruct (status_eqb (so_status o) SViolation); [destruct (pk_kind p); reflexivity|].
  destruct (pk_kind p).
  - destruct (sim_place tb (client_of cf (so_strat o)) (mk_static m) b (pk_mv p) o) as [o1 ok]. reflexivity.
  - destruct (sim_cancel b o) as [[o1 ok] c]. reflexivity.
  - reflexivity.
  - destruct (status_eqb (so_status o) SExecComplete); [reflexivity|].
    destruct (sim_cancel b o) as [[o1 ok] sc]. destruct (negb ok); [reflexivity|].
    destruct (sc =? 0); [reflexivity|].
    destruct (sim_place tb (client_of cf (so_strat o)) (mk_static m) b (pk_mv p) _) as [r1 okp]. destruct okp; reflexivity.
Qed.

Lemma fold_exec_queue tb cf now : forall ps s,
  s_queue (fold_left (fun s p => if s_aborted s then s else exec_pkg tb cf now s p) ps s) = s_queue s.
Proof.
  induction ps as [|p ps IH]; intros s; cbn [fold_left]; [reflexivity|]. rewrite IH.
  destruct (s_aborted s); [reflexivity|apply exec_pkg_queue].
Qed.

(* C07.1: after the pending phase of an update of market m at time now, exactly the packages of m that are
   due have left the queue; every other package (other markets, not yet due) is still queued, in order *)
Theorem pending_phase_queue tb cf now mid s :
  s_queue (check_pending tb cf now mid s) = filter (fun p => negb ((pk_market p =? mid) && due cf now p)) (s_queue s).
Proof. unfold check_pending. cbn [s_queue]. rewrite fold_exec_queue. reflexivity. Qed.

Theorem executed_only_when_due tb cf now mid s p :
  In p (s_queue s) -> ~ In p (s_queue (check_pending tb cf now mid s)) ->
  pk_market p = mid /\ delay_ms cf (pk_kind p) (pk_bet_delay p) < now - pk_created p.
Proof.
  intros Hin Hout. rewrite pending_phase_queue in Hout.
  destruct ((pk_market p =? mid) && due cf now p) eqn:E.
  - apply andb_true_iff in E as [E1 E2]. split; [lia|apply due_iff; exact E2].
  - exfalso. apply Hout. apply filter_In. split; [exact Hin|rewrite E; reflexivity].
Qed.

Theorem not_due_stays_queued tb cf now mid s p :
  In p (s_queue s) -> (pk_market p <> mid \/ now - pk_created p <= delay_ms cf (pk_kind p) (pk_bet_delay p)) ->
  In p (s_queue (check_pending tb cf now mid s)).
Proof.
  intros Hin H. rewrite pending_phase_queue. apply filter_In. split; [exact Hin|].
  destruct H as [H|H]; [replace (pk_market p =? mid) with false by lia; reflexivity|].
  unfold due. replace (delay_ms cf (pk_kind p) (pk_bet_delay p) <? now - pk_created p) with false by lia. rewrite andb_false_r. reflexivity.
Qed.

(* C07.2/5 no look-ahead: the pending phase is a function of (time, market, previous state) only - the book that
   triggers it is not an argument; restated on [step]: two events at the same time for the same market whose
   books differ arbitrarily leave the same queue and execute the same packages *)
Theorem pending_phase_ignores_triggering_book tb cf s e1 e2 :
  ev_market e1 = ev_market e2 -> b_pt (ev_book e1) = b_pt (ev_book e2) ->
  check_pending tb cf (b_pt (ev_book e1)) (ev_market e1) s = check_pending tb cf (b_pt (ev_book e2)) (ev_market e2) s.
Proof. intros -> ->. reflexivity. Qed.

(* C07.4 timestamps of a placement: acknowledged at the executing update's publish time, which is later than
   request time + latency (+ bet delay) *)
Theorem place_ack_time tb cf now s p m b o :
  get_market (pk_market p) (s_markets s) = Some m -> mk_book m = Some b -> get_order (pk_order p) (mk_orders m) = Some o ->
  so_status o <> SViolation -> pk_kind p = KPlace ->
  exists o', In o' (concat (map mk_orders (s_markets (exec_pkg tb cf now s p)))) /\ so_name o' = so_name o /\
             so_placed o' = Some now /\ so_stat_t o' = now /\ (so_status o' = SExecutable \/ so_status o' = SExecComplete).
Proof.
  intros Hm Hb Ho Hv Hk. unfold exec_pkg. rewrite Hm, Hb, Ho.
  destruct (status_eqb (so_status o) SViolation) eqn:Ev; [destruct (so_status o); try discriminate; congruence|].
  rewrite Hk. destruct (sim_place tb (client_of cf (so_strat o)) (mk_static m) b (pk_mv p) o) as [o1 ok] eqn:Ep.
  cbn [s_markets].
  set (o3 := if ok then executable (cf_complete cf) now (set_bet_placed o1 (if ok then Some (s_bet s + 1) else so_bet o1) (Some now))
             else exec_complete (cf_complete cf) now (set_bet_placed o1 (if ok then Some (s_bet s + 1) else so_bet o1) (Some now))).
  assert (Hname1 : so_name o1 = so_name o).
  { clear - Ep. unfold sim_place in Ep.
    assert (PR : forall x s0, so_name (fst (place_resp tb (client_of cf (so_strat o)) x s0)) = so_name x).
    { intros x s0. unfold place_resp. destruct (c_full _ && s0 && negb (remaining x =? 0)); [|reflexivity].
      cbn [fst]. unfold add_frag, set_frags. destruct (wap tb _); reflexivity. }
    assert (AF : forall x fs pt, so_name (fold_left (fun o ps => add_frag tb o pt (fst ps) (snd ps)) fs x) = so_name x).
    { intros x fs pt. revert x. induction fs as [|f fs IH]; intros x; cbn [fold_left]; [reflexivity|]. rewrite IH. unfold add_frag, set_frags. destruct (wap tb _); reflexivity. }
    assert (PM : forall sd price rem avail x pt, so_name (price_matched tb pt sd price rem avail x) = so_name x).
    { intros sd price rem avail. revert rem. induction avail as [|[ap asz] r IH]; intros rem x pt; cbn [price_matched]; [reflexivity|].
      destruct (rem =? 0); [reflexivity|]. destruct (match sd with Back => price <=? ap | Lay => ap <=? price end); [|reflexivity].
      rewrite IH. unfold add_frag, set_frags. destruct (wap tb _); reflexivity. }
    assert (VL : forall sd price rem avail x pt, so_name (vwap_loop tb pt sd price rem avail x) = so_name x).
    { intros sd price rem avail. revert rem. induction avail as [|[ap asz] r IH]; intros rem x pt; cbn [vwap_loop]; [reflexivity|].
      destruct (rem =? 0); [reflexivity|].
      destruct (match sd with Back => _ | Lay => _ end); [|reflexivity]. rewrite IH. unfold add_frag, set_frags. destruct (wap tb _); reflexivity. }
    assert (VM : forall sd price size avail mf x pt, so_name (vwap_matched tb pt sd price size avail mf x) = so_name x).
    { intros. unfold vwap_matched. destruct (_ <? mf); [|apply VL]. unfold add_cancelled, upd_buckets. cbn [so_name]. unfold set_frags. destruct (wap tb []). cbn [so_name]. apply VL. }
    replace o1 with (fst (o1, ok)) by reflexivity. rewrite <- Ep. clear Ep.
    repeat (match goal with
            | |- context [if ?c then _ else _] => destruct c
            | |- context [match find_runner ?b ?s with _ => _ end] => destruct (find_runner b s)
            | |- context [match so_type ?x with _ => _ end] => destruct (so_type x)
            | |- context [match so_side ?x with _ => _ end] => destruct (so_side x)
            | |- context [match piq_of ?a ?b with _ => _ end] => destruct (piq_of a b)
            end); rewrite ?PR; unfold add_voided, add_lapsed, add_cancelled, upd_buckets; cbn [so_name]; rewrite ?PM, ?VM; try reflexivity. }
  assert (H3 : so_name o3 = so_name o /\ so_placed o3 = Some now /\ so_stat_t o3 = now /\ (so_status o3 = SExecutable \/ so_status o3 = SExecComplete)).
  { unfold o3. destruct ok; cbn; repeat split; auto. }
  destruct H3 as (N3 & P3 & T3 & S3).
  exists o3. split; [|repeat split; assumption].
  (* o3 is in the market's blotter after the update *)
  assert (Hmem : forall ms, get_market (pk_market p) ms = Some m ->
                 In o3 (concat (map mk_orders (upd_market (pk_market p) (fun m0 => set_orders m0 (upd_order (so_name o3) (fun _ => o3) (mk_orders m0))) ms)))).
  { induction ms as [|m0 ms IH]; intros Hg; cbn [get_market find] in Hg; [discriminate|].
    unfold get_market in *. cbn [find] in Hg. cbn [upd_market]. destruct (mk_id m0 =? pk_market p) eqn:Em.
    - inversion Hg; subst m0. cbn [map concat]. apply in_or_app. left. cbn [set_orders mk_orders].
      rewrite N3. clear - Ho. unfold get_order in Ho. induction (mk_orders m) as [|x l IH]; cbn [find] in Ho; [discriminate|].
      cbn [upd_order]. destruct (so_name x =? pk_order p) eqn:Ex.
      + inversion Ho; subst x. rewrite Z.eqb_refl. left. reflexivity.
      + apply find_some in Ho as Hf. destruct Hf as [_ Hf]. replace (so_name x =? so_name o) with false by lia. right. apply IH. exact Ho.
    - cbn [map concat]. apply in_or_app. right. apply IH. exact Hg. }
  apply Hmem. exact Hm.
Qed.

(* C07.3 until then a new order stays pending and is never handed to the matcher *)
Theorem pending_is_not_live_for_matching : status_in SPending MW_LIVE_STATUS = false /\
  status_in SCancelling MW_LIVE_STATUS = true /\ status_in SUpdating MW_LIVE_STATUS = true /\ status_in SReplacing MW_LIVE_STATUS = true.
Proof. repeat split; reflexivity. Qed.

(* the request side: a package enters the queue stamped with the time of the update being processed — also when the request
   targets another market than the one being processed (AOn) — and with the bet delay of ITS market's current book *)
Lemma request0_stamp cf now st mid s a p :
  In p (s_queue (request0 cf now st mid s a)) -> In p (s_queue s) \/
  (pk_created p = now /\ pk_market p = mid /\
   exists m, get_market mid (s_markets s) = Some m /\ pk_bet_delay p = match mk_book m with Some b => b_delay b | None => 0 end).
Proof.
  unfold request0. destruct (get_market mid (s_markets s)) as [m|] eqn:Em; [|left; assumption].
  assert (NEW : forall q k o mv, In p (q ++ [{| pk_kind := k; pk_market := mid; pk_order := o; pk_created := now;
                                              pk_bet_delay := match mk_book m with Some b => b_delay b | None => 0 end; pk_mv := mv |}]) ->
                 q = s_queue s -> In p (s_queue s) \/ (pk_created p = now /\ pk_market p = mid /\
                 exists m0, Some m = Some m0 /\ pk_bet_delay p = match mk_book m0 with Some b => b_delay b | None => 0 end)).
  { intros q k o mv Hin ->. apply in_app_or in Hin as [Hin|[<-|[]]]; [left; exact Hin|right]. cbn. split; [reflexivity|split; [reflexivity|]]. exists m. split; reflexivity. }
  destruct a as [name sel sd t mv|name red|name pp|name price mv|mid' a']; [| | | |intros H; left; exact H].
  - destruct (negb (market_open m)); [left; assumption|]. cbn [s_queue]. intros H. eapply NEW; [exact H|reflexivity].
  - destruct (get_order name (mk_orders m)) as [o|]; [|left; assumption].
    destruct (negb (order_validation_ok o) || negb (market_open m)); [left; assumption|].
    destruct (so_bet o); [|left; assumption]. destruct (so_type o); try (left; assumption).
    destruct (match red with Some x => negb (x =? 0) && (remaining o - x <? 0) | None => false end); [left; assumption|].
    destruct (negb (status_eqb (so_status o) SExecutable)); [left; assumption|]. cbn [s_queue]. intros H. eapply NEW; [exact H|reflexivity].
  - destruct (get_order name (mk_orders m)) as [o|]; [|left; assumption].
    destruct (negb (order_validation_ok o) || negb (market_open m)); [left; assumption|].
    destruct (so_bet o); [|left; assumption]. destruct (so_type o); try (left; assumption).
    destruct (persist_eqb (so_persist o) pp); [left; assumption|].
    destruct (negb (status_eqb (so_status o) SExecutable)); [left; assumption|]. cbn [s_queue]. intros H. eapply NEW; [exact H|reflexivity].
  - destruct (get_order name (mk_orders m)) as [o|]; [|left; assumption].
    destruct (negb (order_validation_ok o) || negb (market_open m)); [left; assumption|].
    destruct (so_bet o); [|left; assumption].
    destruct (so_type o); try (left; assumption);
    (destruct (so_price o =? price); [left; assumption|]; destruct (negb (status_eqb (so_status o) SExecutable)); [left; assumption|];
     cbn [s_queue]; intros H; eapply NEW; [exact H|reflexivity]).
Qed.

Theorem request_stamp cf now st mid s a p :
  In p (s_queue (request cf now st mid s a)) -> In p (s_queue s) \/
  (pk_created p = now /\
   exists target m, pk_market p = target /\ (target = mid \/ exists a', a = AOn target a') /\
                    get_market target (s_markets s) = Some m /\ pk_bet_delay p = match mk_book m with Some b => b_delay b | None => 0 end).
Proof.
  unfold request. intros H.
  destruct a as [name sel sd t mv|name red|name pp|name price mv|mid' a'];
    apply request0_stamp in H as [H|(E1 & E2 & m & Em & Ed)]; try (left; exact H); right; (split; [exact E1|]).
  1-4: exists mid, m; split; [exact E2|split; [left; reflexivity|split; assumption]].
  exists mid', m. split; [exact E2|split; [right; exists a'; reflexivity|split; assumption]].
Qed.

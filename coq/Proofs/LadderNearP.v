(* LadderNearP.v — get_nearest_price returns the closest tick (C17). *)
From Coq Require Import ZArith List Bool Lia ZifyBool.
From V Require Import Model.Num Model.Ladder Gen.LadderC Proofs.NumP Proofs.LadderP.
Ltac Zify.zify_post_hook ::= Z.to_euclidean_division_equations.
Open Scope Z_scope.

Ltac split_ifs H :=
  repeat match type of H with
  | context [if ?c then _ else _] => let E := fresh "E" in destruct c eqn:E
  end.

Lemma valid_tick_bands t : valid_tick t = true ->
  101 <= t <= 100000 /\
  (t <= 101 \/ 200 <= t \/ t mod 1 = 0) /\ (t <= 200 \/ 300 <= t \/ t mod 2 = 0) /\
  (t <= 300 \/ 400 <= t \/ t mod 5 = 0) /\ (t <= 400 \/ 600 <= t \/ t mod 10 = 0) /\
  (t <= 600 \/ 1000 <= t \/ t mod 20 = 0) /\ (t <= 1000 \/ 2000 <= t \/ t mod 50 = 0) /\
  (t <= 2000 \/ 3000 <= t \/ t mod 100 = 0) /\ (t <= 3000 \/ 5000 <= t \/ t mod 200 = 0) /\
  (t <= 5000 \/ 10000 <= t \/ t mod 500 = 0) /\ (t <= 10000 \/ 100000 <= t \/ t mod 1000 = 0).
Proof.
  intros H. unfold valid_tick, spec_inc in H. split_ifs H; try discriminate; lia.
Qed.

Lemma band_inc_cases n d : 0 < d -> 101 * d < 100 * n <= 100000 * d ->
  let x := 100 * n in let inc := band_inc n d CUTOFFS 1 in
  (inc = 1 /\ 1 * 101 * d <= x <= 1 * 200 * d) \/ (inc = 2 /\ 2 * 100 * d <= x <= 2 * 150 * d) \/
  (inc = 5 /\ 5 * 60 * d <= x <= 5 * 80 * d) \/ (inc = 10 /\ 10 * 40 * d <= x <= 10 * 60 * d) \/
  (inc = 20 /\ 20 * 30 * d <= x <= 20 * 50 * d) \/ (inc = 50 /\ 50 * 20 * d <= x <= 50 * 40 * d) \/
  (inc = 100 /\ 100 * 20 * d <= x <= 100 * 30 * d) \/ (inc = 200 /\ 200 * 15 * d <= x <= 200 * 25 * d) \/
  (inc = 500 /\ 500 * 10 * d <= x <= 500 * 20 * d) \/ (inc = 1000 /\ 1000 * 10 * d <= x <= 1000 * 100 * d).
Proof.
  intros Hd Hx. cbv zeta. unfold CUTOFFS. cbn [band_inc].
  destruct (100 * n <? 200 * d) eqn:E1; [lia|]. destruct (100 * n <? 300 * d) eqn:E2; [lia|].
  destruct (100 * n <? 400 * d) eqn:E3; [lia|]. destruct (100 * n <? 600 * d) eqn:E4; [lia|].
  destruct (100 * n <? 1000 * d) eqn:E5; [lia|]. destruct (100 * n <? 2000 * d) eqn:E6; [lia|].
  destruct (100 * n <? 3000 * d) eqn:E7; [lia|]. destruct (100 * n <? 5000 * d) eqn:E8; [lia|].
  destruct (100 * n <? 10000 * d) eqn:E9; [lia|]. destruct (100 * n <? 100000 * d) eqn:E10; lia.
Qed.

Lemma abs_below lo t d x : 0 < d -> lo <= t -> x <= lo * d -> Z.abs (lo * d - x) <= Z.abs (t * d - x).
Proof. intros Hd Ht Hx. assert (lo * d <= t * d) by nia. lia. Qed.
Lemma abs_above hi t d x : 0 < d -> t <= hi -> hi * d <= x -> Z.abs (hi * d - x) <= Z.abs (t * d - x).
Proof. intros Hd Ht Hx. assert (t * d <= hi * d) by nia. lia. Qed.

Theorem nearest_is_closest n d t : 0 < d -> valid_tick t = true ->
  Z.abs (near n d * d - 100 * n) <= Z.abs (t * d - 100 * n).
Proof.
  intros Hd Ht. pose proof (valid_tick_bands t Ht) as (Hr & B1 & B2 & B3 & B4 & B5 & B6 & B7 & B8 & B9 & B10).
  unfold near, nearest, MIN_PRICE, MAX_PRICE.
  destruct (100 * n <=? 101 * d) eqn:E1; [apply abs_below; lia|].
  destruct (100000 * d <? 100 * n) eqn:E2; [apply abs_above; lia|].
  cbv zeta.
  pose proof (band_inc_cases n d Hd ltac:(lia)) as Hc. cbv zeta in Hc.
  destruct Hc as [[-> Hx]|[[-> Hx]|[[-> Hx]|[[-> Hx]|[[-> Hx]|[[-> Hx]|[[-> Hx]|[[-> Hx]|[[-> Hx]|[-> Hx]]]]]]]]]];
    (eapply band_closest; [reflexivity|exact Hd|exact Hx|assumption]).
Qed.

Ltac solve_tick :=
  unfold valid_tick, spec_inc;
  repeat (match goal with |- context [if ?c then _ else _] => destruct c eqn:? end);
  lia.

Lemma tick_band p inc a b : inc * a <= p <= inc * b -> p mod inc = 0 ->
  ((inc, a, b) = (1, 101, 200) \/ (inc, a, b) = (2, 100, 150) \/ (inc, a, b) = (5, 60, 80) \/
   (inc, a, b) = (10, 40, 60) \/ (inc, a, b) = (20, 30, 50) \/ (inc, a, b) = (50, 20, 40) \/
   (inc, a, b) = (100, 20, 30) \/ (inc, a, b) = (200, 15, 25) \/ (inc, a, b) = (500, 10, 20) \/
   (inc, a, b) = (1000, 10, 100)) -> valid_tick p = true.
Proof.
  intros Hr Hm Hb.
  destruct Hb as [E|[E|[E|[E|[E|[E|[E|[E|[E|E]]]]]]]]]; inversion E; subst inc a b; clear E; solve_tick.
Qed.

Theorem nearest_is_tick n d : 0 < d -> valid_tick (near n d) = true.
Proof.
  intros Hd. unfold near, nearest, MIN_PRICE, MAX_PRICE.
  destruct (100 * n <=? 101 * d) eqn:E1; [reflexivity|].
  destruct (100000 * d <? 100 * n) eqn:E2; [reflexivity|].
  cbv zeta.
  pose proof (band_inc_cases n d Hd ltac:(lia)) as Hc. cbv zeta in Hc.
  destruct Hc as [[-> Hx]|[[-> Hx]|[[-> Hx]|[[-> Hx]|[[-> Hx]|[[-> Hx]|[[-> Hx]|[[-> Hx]|[[-> Hx]|[-> Hx]]]]]]]]]];
    match type of Hx with ?i * ?a * d <= _ <= ?i * ?b * d =>
      pose proof (rhu_range i a b d (100 * n) ltac:(reflexivity) Hd Hx) as Hq;
      apply (tick_band _ i a b Hq); [rewrite Z.mul_comm; apply Z_mod_mult|tauto]
    end.
Qed.

Theorem nearest_clamped n d : 0 < d -> 101 <= near n d <= 100000.
Proof. intros Hd. apply valid_tick_range, nearest_is_tick, Hd. Qed.

Theorem nearest_idempotent n d : 0 < d -> near (near n d) 100 = near n d.
Proof.
  intros Hd. pose proof (nearest_is_tick n d Hd) as Ht.
  pose proof (nearest_is_closest (near n d) 100 (near n d) ltac:(lia) Ht). lia.
Qed.

(* ties go to the upper tick (ROUND_HALF_UP) *)
Lemma band_tie inc a b d x t : 0 < inc -> 0 < d ->
  inc * a * d <= x <= inc * b * d ->
  (t <= inc * a \/ inc * b <= t \/ t mod inc = 0) ->
  Z.abs (inc * rnd_half_up x (d * inc) * d - x) = Z.abs (t * d - x) ->
  t <= inc * rnd_half_up x (d * inc).
Proof.
  intros Hi Hd Hx Ht He.
  pose proof (rhu_range inc a b d x Hi Hd Hx) as Hq.
  assert (Hm : forall t', t' mod inc = 0 ->
             Z.abs (inc * rnd_half_up x (d * inc) * d - x) = Z.abs (t' * d - x) ->
             t' <= inc * rnd_half_up x (d * inc)).
  { intros t' Hm' He'. pose proof (rhu_tie_up inc d x (t' / inc) Hi Hd) as Tu.
    replace (inc * (t' / inc)) with t' in Tu by (pose proof (Z_div_mod_eq_full t' inc); lia).
    specialize (Tu He'). set (q := rnd_half_up x (d * inc)) in *.
    assert (t' = inc * (t' / inc)) by (pose proof (Z_div_mod_eq_full t' inc); lia). nia. }
  destruct Ht as [Ht|[Ht|Ht]].
  - lia.
  - pose proof (rhu_closest inc d x b Hi Hd) as Cb.
    set (q := rnd_half_up x (d * inc)) in *.
    assert (inc * b * d <= t * d) by nia.
    assert (t * d <= inc * b * d) by lia.
    assert (t = inc * b) by nia. subst t. apply Hm; [|exact He].
    rewrite Z.mul_comm. apply Z_mod_mult.
  - apply Hm; assumption.
Qed.

Theorem nearest_tie_up n d t : 0 < d -> valid_tick t = true ->
  Z.abs (near n d * d - 100 * n) = Z.abs (t * d - 100 * n) -> t <= near n d.
Proof.
  intros Hd Ht. pose proof (valid_tick_bands t Ht) as (Hr & B1 & B2 & B3 & B4 & B5 & B6 & B7 & B8 & B9 & B10).
  unfold near, nearest, MIN_PRICE, MAX_PRICE.
  destruct (100 * n <=? 101 * d) eqn:E1.
  { clear B1 B2 B3 B4 B5 B6 B7 B8 B9 B10. intros He. assert (101 * d <= t * d) by nia.
    assert (t * d = 101 * d) by lia. nia. }
  destruct (100000 * d <? 100 * n) eqn:E2; [clear B1 B2 B3 B4 B5 B6 B7 B8 B9 B10; lia|].
  cbv zeta.
  pose proof (band_inc_cases n d Hd ltac:(lia)) as Hc. cbv zeta in Hc.
  destruct Hc as [[-> Hx]|[[-> Hx]|[[-> Hx]|[[-> Hx]|[[-> Hx]|[[-> Hx]|[[-> Hx]|[[-> Hx]|[[-> Hx]|[-> Hx]]]]]]]]]];
    (eapply band_tie; [reflexivity|exact Hd|exact Hx|assumption]).
Qed.

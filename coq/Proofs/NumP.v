(* NumP.v — lemmas about [rnd] valid for every tie-breaker. *)
From Coq Require Import ZArith List Bool Lia ZifyBool.
From V Require Import Model.Num.
Ltac Zify.zify_post_hook ::= Z.to_euclidean_division_equations.
Open Scope Z_scope.

Lemma rnd_bounds tb n d : 0 < d ->
  2 * n - d <= 2 * d * rnd tb n d <= 2 * n + d.
Proof.
  intros Hd. unfold rnd.
  destruct ((2 * n + d) mod (2 * d) =? 0) eqn:E; [destruct (tb n d)|]; lia.
Qed.

(* |rnd - n/d| <= 1/2 *)
Lemma rnd_half tb n d : 0 < d -> Z.abs (2 * (d * rnd tb n d - n)) <= d.
Proof. intros Hd. pose proof (rnd_bounds tb n d Hd). lia. Qed.

Lemma rnd_exact tb k d : 0 < d -> rnd tb (k * d) d = k.
Proof.
  intros Hd. unfold rnd.
  destruct ((2 * (k * d) + d) mod (2 * d) =? 0) eqn:E; [destruct (tb (k*d) d)|]; nia.
Qed.

Lemma rnd_one tb n : rnd tb n 1 = n.
Proof. replace n with (n * 1) at 1 by lia. apply rnd_exact; lia. Qed.

Lemma rnd_mono tb n m d : 0 < d -> n + d <= m -> rnd tb n d <= rnd tb m d.
Proof.
  intros Hd H. pose proof (rnd_bounds tb n d Hd). pose proof (rnd_bounds tb m d Hd). nia.
Qed.

Lemma rnd_mono_weak tb1 tb2 n m d : 0 < d -> n < m -> rnd tb1 n d <= rnd tb2 m d.
Proof.
  intros Hd H. unfold rnd.
  destruct ((2 * n + d) mod (2 * d) =? 0) eqn:E1; [destruct (tb1 n d)|];
  (destruct ((2 * m + d) mod (2 * d) =? 0) eqn:E2; [destruct (tb2 m d)|]); nia.
Qed.

Lemma rnd_nonneg tb n d : 0 < d -> 0 <= n -> 0 <= rnd tb n d.
Proof. intros Hd Hn. pose proof (rnd_bounds tb n d Hd). nia. Qed.

Lemma rnd_le_of_le_int tb n d k : 0 < d -> n <= k * d -> rnd tb n d <= k.
Proof. intros Hd H. pose proof (rnd_bounds tb n d Hd). nia. Qed.

Lemma rnd_ge_of_ge_int tb n d k : 0 < d -> k * d <= n -> k <= rnd tb n d.
Proof. intros Hd H. pose proof (rnd_bounds tb n d Hd). nia. Qed.

Lemma rnd_half_up_bounds n d : 0 < d ->
  2 * n - d < 2 * d * rnd_half_up n d <= 2 * n + d.
Proof. intros Hd. unfold rnd_half_up. lia. Qed.

Lemma rnd_half_up_exact k d : 0 < d -> rnd_half_up (k * d) d = k.
Proof. intros Hd. unfold rnd_half_up. nia. Qed.

Lemma zmax_spec a b : zmax a b = Z.max a b.
Proof. unfold zmax. destruct (a <? b) eqn:E; lia. Qed.
Lemma zmin_spec a b : zmin a b = Z.min a b.
Proof. unfold zmin. destruct (a <? b) eqn:E; lia. Qed.

Lemma sumZ_app a b : sumZ (a ++ b) = sumZ a + sumZ b.
Proof. induction a as [|x a IH]; simpl; lia. Qed.

Lemma list_eqb_Z_eq a b : list_eqb Z.eqb a b = true <-> a = b.
Proof.
  revert b; induction a as [|x a IH]; intros [|y b]; simpl; split; intros H;
    try congruence; try reflexivity.
  - apply andb_true_iff in H as [H1 H2]. apply Z.eqb_eq in H1. apply IH in H2. congruence.
  - inversion H; subst. rewrite Z.eqb_refl. simpl. apply IH. reflexivity.
Qed.

(* LadderTicksP.v — price_ticks_away and OrderValidation (C17). *)
From Coq Require Import ZArith List Bool Lia ZifyBool.
From V Require Import Model.Num Model.Ladder Gen.LadderC Proofs.NumP Proofs.LadderP.
Open Scope Z_scope.

Lemma index_of_Some p : forall L i, index_of p L = Some i -> (i < length L)%nat /\ forall d, nth i L d = p.
Proof.
  induction L as [|x L IH]; intros i H; cbn [index_of] in H; [discriminate|].
  destruct (x =? p) eqn:E.
  - inversion H; subst. split; [simpl; lia|]. intros d. simpl. lia.
  - destruct (index_of p L) as [j|] eqn:Ej; [|discriminate]. inversion H; subst.
    destruct (IH j eq_refl) as [Hl Hn]. split; [simpl; lia|]. intros d. simpl. apply Hn.
Qed.

Lemma index_of_In p : forall L, In p L -> exists i, index_of p L = Some i.
Proof.
  induction L as [|x L IH]; intros H; [destruct H|]. cbn [index_of].
  destruct (x =? p) eqn:E; [exists O; reflexivity|].
  destruct H as [H|H]; [lia|]. destruct (IH H) as [i Hi]. rewrite Hi. exists (S i). reflexivity.
Qed.

Lemma index_of_nth : forall L i d, NoDup L -> (i < length L)%nat -> index_of (nth i L d) L = Some i.
Proof.
  induction L as [|x L IH]; intros i d Hnd Hi; [simpl in Hi; lia|].
  inversion Hnd as [|? ? Hnotin Hnd']; subst. destruct i as [|i]; cbn [nth index_of].
  - rewrite Z.eqb_refl. reflexivity.
  - simpl in Hi. destruct (x =? nth i L d) eqn:E.
    + exfalso. apply Hnotin. apply Z.eqb_eq in E. rewrite E. apply nth_In. lia.
    + rewrite IH by (assumption || lia). reflexivity.
Qed.

(* the general statement: from the i-th tick, n ticks away is the (i+n)-th tick,
   clamped to the first / last tick; for every n : Z *)
Theorem ticks_away_general minp maxp L p n i :
  index_of p L = Some i ->
  ticks_away minp maxp L p n =
    Some (let j := Z.of_nat i + n in
          if j <? 0 then minp else if j <? Z.of_nat (length L) then nth (Z.to_nat j) L maxp else maxp).
Proof.
  intros Hi. unfold ticks_away. rewrite Hi. cbv zeta.
  destruct (Z.of_nat i + n <? 0) eqn:E1; [reflexivity|].
  destruct (Z.of_nat i + n <? Z.of_nat (length L)) eqn:E2; [reflexivity|].
  rewrite nth_overflow by lia. reflexivity.
Qed.

Lemma prices_nodup : NoDup PRICES.
Proof.
  assert (H : forall l : list Z, (fix sorted (l : list Z) : bool :=
     match l with x :: ((y :: _) as r) => (x <? y) && sorted r | _ => true end) l = true -> NoDup l).
  { induction l as [|x l IH]; intros Hs; [constructor|].
    destruct l as [|y l]; [constructor; [intros []|constructor]|].
    apply andb_true_iff in Hs as [Hxy Hs]. specialize (IH Hs). constructor; [|exact IH].
    assert (Hlt : forall l' y', (fix sorted (l : list Z) : bool :=
       match l with x :: ((y :: _) as r) => (x <? y) && sorted r | _ => true end) (y' :: l') = true ->
       forall z, In z (y' :: l') -> y' <= z).
    { induction l' as [|w l' IH']; intros y' Hs' z Hz.
      - destruct Hz as [->|[]]. lia.
      - apply andb_true_iff in Hs' as [Hyw Hs']. destruct Hz as [->|Hz]; [lia|].
        specialize (IH' w Hs' z Hz). lia. }
    intros Hin. specialize (Hlt l y Hs x Hin). lia. }
  apply H. vm_compute. reflexivity.
Qed.

Lemma prices_ends : hd 0 PRICES = MIN_PRICE /\ last PRICES 0 = MAX_PRICE /\ length PRICES = 350%nat.
Proof. vm_compute. auto. Qed.

(* from a valid price, n ticks away is a valid tick, exactly n ticks away unless clamped *)
Theorem ticks_away_valid p n : valid_tick p = true ->
  exists i r, index_of p PRICES = Some i /\
    ticks_away MIN_PRICE MAX_PRICE PRICES p n = Some r /\ valid_tick r = true /\
    (0 <= Z.of_nat i + n < 350 -> index_of r PRICES = Some (Z.to_nat (Z.of_nat i + n))) /\
    (Z.of_nat i + n < 0 -> r = MIN_PRICE) /\ (350 <= Z.of_nat i + n -> r = MAX_PRICE).
Proof.
  intros Hp. apply ladder_is_spec in Hp. destruct (index_of_In p PRICES Hp) as [i Hi].
  exists i. eexists. split; [exact Hi|]. split; [apply (ticks_away_general _ _ _ _ _ _ Hi)|].
  destruct prices_ends as (Hh & Hl & Hlen). rewrite Hlen. cbv zeta.
  change (Z.of_nat 350) with 350.
  destruct (Z.of_nat i + n <? 0) eqn:E1.
  { split; [reflexivity|]. split; [lia|]. split; [reflexivity|lia]. }
  destruct (Z.of_nat i + n <? 350) eqn:E2.
  - split. { apply ladder_is_spec. apply nth_In. lia. }
    split. { intros _. apply index_of_nth; [apply prices_nodup|lia]. }
    split; lia.
  - split; [reflexivity|]. split; [lia|]. split; [lia|reflexivity].
Qed.

(* ---------- OrderValidation: the model accepts exactly what the exchange's rules allow ---------- *)
Definition price_ok_spec (ld : ladder_def) (p : Z) : bool :=
  match ld with
  | Classic => on_cent_grid p && valid_tick (p / 10)
  | Finest => on_cent_grid p && valid_finest_tick (p / 10)
  | LineRange lo hi step => line_ok lo hi step p
  end.
Definition validate_spec (x : vexch) (c : vclient) (sd : vside) (t : vtype) : bool :=
  match x, t with
  | XBetfair, VLimit p s ld => amount_ok s && price_ok_spec ld p && min_size_ok c sd t
  | XBetfair, VLimitOnClose p l ld => price_ok_spec ld p && amount_ok l && min_size_ok c sd t
  | XBetfair, VMarketOnClose l => amount_ok l && min_size_ok c sd t
  | XBetdaq, VLimit p s _ => amount_ok s && on_cent_grid p && valid_betdaq_tick (p / 10)
  | XBetdaq, _ => false
  end.

Lemma existsb_eqb_In c L : existsb (Z.eqb c) L = true <-> In c L.
Proof.
  rewrite existsb_exists. split.
  - intros [x [Hin He]]. apply Z.eqb_eq in He. subst. exact Hin.
  - intros H. exists c. split; [exact H|apply Z.eqb_refl].
Qed.

Lemma existsb_prices c : existsb (Z.eqb c) PRICES = valid_tick c.
Proof.
  destruct (valid_tick c) eqn:E.
  - apply existsb_eqb_In, ladder_is_spec, E.
  - destruct (existsb (Z.eqb c) PRICES) eqn:E2; [|reflexivity].
    apply existsb_eqb_In, ladder_is_spec in E2. congruence.
Qed.
Lemma existsb_betdaq c : existsb (Z.eqb c) BETDAQ_PRICES = valid_betdaq_tick c.
Proof.
  destruct (valid_betdaq_tick c) eqn:E.
  - apply existsb_eqb_In, betdaq_ladder_is_spec, E.
  - destruct (existsb (Z.eqb c) BETDAQ_PRICES) eqn:E2; [|reflexivity].
    apply existsb_eqb_In, betdaq_ladder_is_spec in E2. congruence.
Qed.

Theorem validate_is_spec x c sd t : validate PRICES BETDAQ_PRICES x c sd t = validate_spec x c sd t.
Proof.
  destruct x, t as [p s ld|p l ld|l]; cbn [validate validate_spec]; try reflexivity;
    try (destruct ld; cbn [price_ok price_ok_spec]; unfold price_on; rewrite ?existsb_prices; reflexivity).
  unfold price_on. rewrite existsb_betdaq, andb_assoc. reflexivity.
Qed.

(* what acceptance means, spelled out *)
Theorem validate_limit_meaning c sd p s :
  validate PRICES BETDAQ_PRICES XBetfair c sd (VLimit p s Classic) = true <->
  (0 < s /\ s mod 10 = 0 /\ p mod 10 = 0 /\ valid_tick (p / 10) = true /\
   (min_validation c = true -> ~ (s < min_bet_size c /\ p * s < min_bet_payout c * 1000))).
Proof.
  rewrite validate_is_spec. cbn [validate_spec price_ok_spec]. unfold amount_ok, on_cent_grid, min_size_ok.
  destruct (min_validation c); cbn [negb];
  rewrite !andb_true_iff, ?negb_true_iff, ?andb_false_iff, ?Z.ltb_lt, ?Z.eqb_eq, ?Z.ltb_ge; split.
  - intros [[[H1 H2] [H3 H4]] H5]. repeat split; try assumption. intros _ [A B]. destruct H5; lia.
  - intros (H1 & H2 & H3 & H4 & H5). repeat split; try assumption.
    destruct (Z_lt_ge_dec s (min_bet_size c)); [|left; lia].
    destruct (Z_lt_ge_dec (p * s) (min_bet_payout c * 1000)); [exfalso; apply H5; auto|right; lia].
  - intros [[[H1 H2] [H3 H4]] _]. repeat split; try assumption. intros H; discriminate.
  - intros (H1 & H2 & H3 & H4 & _). repeat split; assumption.
Qed.

(* LadderP.v — proofs about the ladder model (C17). *)
From Coq Require Import ZArith List Bool Lia ZifyBool.
From V Require Import Model.Num Model.Ladder Gen.LadderC Proofs.NumP.
Ltac Zify.zify_post_hook ::= Z.to_euclidean_division_equations.
Open Scope Z_scope.

(* ---------- the model builds exactly the lists the module built ---------- *)
Lemma prices_eq_impl : make_prices MIN_PRICE MAX_PRICE CUTOFFS = PRICES.
Proof. vm_compute. reflexivity. Qed.
Lemma prices_float_eq : PRICES_FLOAT = PRICES.
Proof. vm_compute. reflexivity. Qed.
Lemma betdaq_prices_eq_impl : make_prices BETDAQ_MIN_PRICE BETDAQ_MAX_PRICE BETDAQ_CUTOFFS = BETDAQ_PRICES.
Proof. vm_compute. reflexivity. Qed.
Lemma betdaq_prices_float_eq : BETDAQ_PRICES_FLOAT = BETDAQ_PRICES.
Proof. vm_compute. reflexivity. Qed.
Lemma finest_summary :
  (FINEST_LEN, FINEST_FIRST, FINEST_PENULT, FINEST_LAST, FINEST_CONSECUTIVE) = (99900, 101, 99999, 100000, true).
Proof. vm_compute. reflexivity. Qed.

(* ---------- ladder = published increment table ---------- *)
Lemma in_band_aux n : forall x inc p,
  In p (band_aux x inc n) <-> exists k, 0 <= k < Z.of_nat n /\ p = x + k * inc.
Proof.
  induction n as [|n IH]; intros x inc p; cbn [band_aux In].
  - split; [tauto|]. intros [k [H _]]. lia.
  - rewrite IH. split.
    + intros [H|[k [Hk Hp]]]; [exists 0; lia|exists (k + 1); lia].
    + intros [k [Hk Hp]]. destruct (Z.eq_dec k 0) as [->|Hne]; [left; lia|].
      right. exists (k - 1). lia.
Qed.

Definition zrange (lo n : Z) : list Z := band_aux lo 1 (Z.to_nat n).

Lemma in_zrange lo n p : 0 <= n -> In p (zrange lo n) <-> lo <= p < lo + n.
Proof.
  intros Hn. unfold zrange. rewrite in_band_aux. split.
  - intros [k [Hk Hp]]. lia.
  - intros H. exists (p - lo). lia.
Qed.

Lemma valid_tick_range p : valid_tick p = true -> 101 <= p <= 100000.
Proof.
  unfold valid_tick, spec_inc.
  destruct (p <? 101) eqn:E1; [discriminate|].
  destruct (p <? 200) eqn:E2; [lia|]. destruct (p <? 300) eqn:E3; [lia|].
  destruct (p <? 400) eqn:E4; [lia|]. destruct (p <? 600) eqn:E5; [lia|].
  destruct (p <? 1000) eqn:E6; [lia|]. destruct (p <? 2000) eqn:E7; [lia|].
  destruct (p <? 3000) eqn:E8; [lia|]. destruct (p <? 5000) eqn:E9; [lia|].
  destruct (p <? 10000) eqn:E10; [lia|]. destruct (p <=? 100000) eqn:E11; [lia|discriminate].
Qed.

Lemma prices_filter : filter valid_tick (zrange 0 100100) = PRICES.
Proof. vm_compute. reflexivity. Qed.

Theorem ladder_is_spec p : In p PRICES <-> valid_tick p = true.
Proof.
  rewrite <- prices_filter, filter_In, in_zrange by lia. split; [tauto|].
  intros H. pose proof (valid_tick_range p H). split; [lia|exact H].
Qed.

Lemma betdaq_tick_range p : valid_betdaq_tick p = true -> 101 <= p <= 100000.
Proof.
  unfold valid_betdaq_tick, betdaq_inc.
  destruct (p <? 101) eqn:E1; [discriminate|].
  destruct (p <? 300) eqn:E2; [lia|]. destruct (p <? 400) eqn:E3; [lia|].
  destruct (p <? 1000) eqn:E4; [lia|]. destruct (p <? 2000) eqn:E5; [lia|].
  destruct (p <? 5000) eqn:E6; [lia|]. destruct (p <? 20000) eqn:E7; [lia|].
  destruct (p <=? 100000) eqn:E8; [lia|discriminate].
Qed.
Lemma betdaq_filter : filter valid_betdaq_tick (zrange 0 100100) = BETDAQ_PRICES.
Proof. vm_compute. reflexivity. Qed.
Theorem betdaq_ladder_is_spec p : In p BETDAQ_PRICES <-> valid_betdaq_tick p = true.
Proof.
  rewrite <- betdaq_filter, filter_In, in_zrange by lia. split; [tauto|].
  intros H. pose proof (betdaq_tick_range p H). split; [lia|exact H].
Qed.

(* FINEST: proved structurally, no 99 900-element literal *)
Lemma in_band lo hi inc p : 0 < inc -> lo <= hi ->
  In p (band lo hi inc) <-> (lo <= p < hi /\ (p - lo) mod inc = 0).
Proof.
  intros Hi Hl. unfold band. rewrite in_band_aux. split.
  - intros [k [Hk Hp]]. subst p.
    assert (k < (hi - lo + inc - 1) / inc) by lia.
    split; [nia|]. replace (lo + k * inc - lo) with (k * inc) by lia.
    apply Z_mod_mult.
  - intros [Hr Hm]. exists ((p - lo) / inc). nia.
Qed.

Theorem finest_is_spec p :
  In p (make_prices 101 100000 [(100000, 1)]) <-> valid_finest_tick p = true.
Proof.
  unfold make_prices, mk_prices, valid_finest_tick. rewrite app_nil_r, in_app_iff, in_band by lia.
  simpl. rewrite Z.mod_1_r. lia.
Qed.

(* ---------- get_nearest_price ---------- *)
Definition near := nearest MIN_PRICE MAX_PRICE CUTOFFS.

Lemma rhu_closest inc d x k : 0 < inc -> 0 < d ->
  Z.abs (inc * rnd_half_up x (d * inc) * d - x) <= Z.abs (inc * k * d - x).
Proof.
  intros Hi Hd. set (q := rnd_half_up x (d * inc)).
  assert (HD : 0 < d * inc) by nia.
  pose proof (rnd_half_up_bounds x (d * inc) HD) as Hb. fold q in Hb.
  assert (Hc : k <= q - 1 \/ k = q \/ q + 1 <= k) by lia.
  destruct Hc as [Hc|[Hc|Hc]].
  - assert (d * inc * k <= d * inc * q - d * inc) by nia. nia.
  - subst k. lia.
  - assert (d * inc * q + d * inc <= d * inc * k) by nia. nia.
Qed.

(* ties are resolved upward: an equidistant tick is never above the result *)
Lemma rhu_tie_up inc d x k : 0 < inc -> 0 < d ->
  Z.abs (inc * rnd_half_up x (d * inc) * d - x) = Z.abs (inc * k * d - x) ->
  k <= rnd_half_up x (d * inc).
Proof.
  intros Hi Hd. set (q := rnd_half_up x (d * inc)).
  assert (HD : 0 < d * inc) by nia.
  pose proof (rnd_half_up_bounds x (d * inc) HD) as Hb. fold q in Hb.
  intros He. destruct (Z_le_gt_dec k q) as [|Hgt]; [assumption|exfalso].
  assert (d * inc * q + d * inc <= d * inc * k) by nia. nia.
Qed.

Lemma rhu_range inc a b d x : 0 < inc -> 0 < d ->
  inc * a * d <= x <= inc * b * d -> inc * a <= inc * rnd_half_up x (d * inc) <= inc * b.
Proof.
  intros Hi Hd Hx. assert (HD : 0 < d * inc) by nia.
  pose proof (rnd_half_up_bounds x (d * inc) HD) as Hb.
  set (q := rnd_half_up x (d * inc)) in *.
  assert (a <= q) by nia. assert (q <= b) by nia. nia.
Qed.

Lemma band_closest inc a b d x t : 0 < inc -> 0 < d ->
  inc * a * d <= x <= inc * b * d ->
  (t <= inc * a \/ inc * b <= t \/ t mod inc = 0) ->
  Z.abs (inc * rnd_half_up x (d * inc) * d - x) <= Z.abs (t * d - x).
Proof.
  intros Hi Hd Hx Ht.
  destruct Ht as [Ht|[Ht|Ht]].
  - pose proof (rhu_closest inc d x a Hi Hd). assert (t * d <= inc * a * d) by nia. lia.
  - pose proof (rhu_closest inc d x b Hi Hd). assert (inc * b * d <= t * d) by nia. lia.
  - pose proof (rhu_closest inc d x (t / inc) Hi Hd).
    replace (inc * (t / inc)) with t in * by (pose proof (Z_div_mod_eq_full t inc); lia). assumption.
Qed.


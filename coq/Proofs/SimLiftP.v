(* SimLiftP.v — C04: lifting the per-primitive conservation lemmas to the matching loop of a market update. *)
From Coq Require Import ZArith List Bool Lia ZifyBool.
From V Require Import Model.Num Model.Status Model.Sim Model.SimLoop Proofs.NumP Proofs.SimPlaceP Proofs.SimPlaceP2 Proofs.SimTradedP Proofs.SimIsolationP.
Open Scope Z_scope.

(* a limit order whose books are in order: fragments positive and summing to the matched size, nothing negative *)
Definition okL (o : sorder) : Prop := frags_ok o /\ 0 <= remaining o /\ 0 <= so_piq2 o.
Definition ok_order (o : sorder) : Prop := so_type o = TLimit -> okL o.
Definition ok_traded (tr : traded) : Prop := Forall (fun e => 0 <= snd e) tr.

Lemma okL_upd_sim o mv piq bsp : okL o -> 0 <= piq -> okL (upd_sim o mv piq bsp).
Proof.
  intros ((Hp & Hm & Ht & Hpr) & Hr & Hq) Hpq. unfold okL, frags_ok, remaining in *. cbn [upd_sim so_frags so_matched so_type so_price so_size so_cancelled so_lapsed so_voided so_piq2] in *.
  repeat split; assumption.
Qed.
Lemma okL_add_lapsed o : okL o -> okL (add_lapsed o (remaining o)).
Proof.
  intros ((Hp & Hm & Ht & Hpr) & Hr & Hq). unfold okL, frags_ok, remaining, add_lapsed in *. cbn [upd_buckets so_frags so_matched so_type so_price so_size so_cancelled so_lapsed so_voided so_piq2] in *.
  rewrite Ht in *. repeat split; try assumption; lia.
Qed.

Lemma on_book_okL tb c b r tr o : okL o -> (negb (so_bsp o) && b_bsp_rec b) = false -> ok_traded tr ->
  okL (fst (fst (on_book tb c b r tr o))) /\ ok_traded (snd (fst (on_book tb c b r tr o))) /\ snd (on_book tb c b r tr o) = false.
Proof.
  intros Hok Hsp Htr. unfold on_book. cbv zeta. rewrite Hsp.
  pose proof Hok as ((_ & _ & Ht & _) & _). rewrite Ht.
  set (o1 := if negb (opt_eqb Z.eqb (so_mver o) (Some (b_version b))) then upd_sim o (Some (b_version b)) (so_piq2 o) (so_bsp o) else o).
  assert (H1 : okL o1) by (unfold o1; destruct (negb (opt_eqb Z.eqb (so_mver o) (Some (b_version b)))); [apply okL_upd_sim; [exact Hok|apply Hok]|exact Hok]).
  destruct (negb (opt_eqb Z.eqb (so_mver o) (Some (b_version b))) && mstatus_eqb (b_status b) MSuspended && persist_eqb (so_persist o1) PLapse).
  - cbn [fst snd]. split; [apply okL_add_lapsed; exact H1|]. split; [exact Htr|reflexivity].
  - destruct tr as [|t0 tr0]; [cbn [fst snd]; split; [exact H1|split; [constructor|reflexivity]]|].
    destruct H1 as (Hf & Hr & Hq).
    pose proof (process_traded_spec tb (b_pt b) (t0 :: tr0) o1 Hf Hr Hq Htr) as Hs.
    destruct (process_traded tb (b_pt b) (t0 :: tr0) o1) as [o2 tr']. cbn [fst snd].
    destruct Hs as (A & B & C & _ & _ & _ & G & _). split; [split; [exact A|split; assumption]|]. split; [exact G|reflexivity].
Qed.

Lemma on_book_ok tb c b r tr o : ok_order o -> b_bsp_rec b = false -> ok_traded tr ->
  ok_order (fst (fst (on_book tb c b r tr o))) /\ ok_traded (snd (fst (on_book tb c b r tr o))) /\ snd (on_book tb c b r tr o) = false.
Proof.
  intros Hok Hb Htr. destruct (so_type o) eqn:Et.
  - assert (Hsp : (negb (so_bsp o) && b_bsp_rec b) = false) by (rewrite Hb; apply andb_false_r).
    destruct (on_book_okL tb c b r tr o (Hok Et) Hsp Htr) as (A & B & C). split; [intros _; exact A|]. split; assumption.
  - unfold on_book. cbv zeta. rewrite Hb, andb_false_r, Et. cbn [fst snd]. split; [exact Hok|]. split; [exact Htr|reflexivity].
  - unfold on_book. cbv zeta. rewrite Hb, andb_false_r, Et. cbn [fst snd]. split; [exact Hok|]. split; [exact Htr|reflexivity].
Qed.

Lemma Forall_upd_order (Q : sorder -> Prop) n o2 : forall os, Forall Q os -> Q o2 -> Forall Q (upd_order n (fun _ => o2) os).
Proof.
  induction os as [|x r IH]; intros H Ho2; cbn [upd_order]; [constructor|]. inversion H; subst. destruct (so_name x =? n); constructor; auto.
Qed.

Definition ok_state (st : list sorder * list (Z * traded)) : Prop := Forall ok_order (fst st) /\ Forall (fun e => ok_traded (snd e)) (snd st).

Lemma mstep_ok tb cf b st o0 : b_bsp_rec b = false -> ok_state st -> ok_state (mstep tb cf b st o0).
Proof.
  intros Hb [Hos Hlk]. destruct st as [os lk]. cbn [fst snd] in *. unfold mstep.
  destruct (get_order (so_name o0) os) as [o|] eqn:Eg; [|split; assumption].
  cbv zeta. destruct (find_runner b (so_sel o)) as [r|]; [|split; assumption].
  assert (Ho : ok_order o).
  { unfold get_order in Eg. apply find_some in Eg. destruct Eg as [Hin _]. rewrite Forall_forall in Hos. apply Hos. exact Hin. }
  set (tr := match find (fun e => fst e =? so_sel o) lk with Some e => snd e | None => [] end).
  assert (Htr : ok_traded tr).
  { unfold tr. destruct (find (fun e => fst e =? so_sel o) lk) as [e|] eqn:Ef; [|constructor]. apply find_some in Ef. destruct Ef as [Hin _]. rewrite Forall_forall in Hlk. apply Hlk. exact Hin. }
  destruct (on_book_ok tb (client_of cf (so_strat o)) b r tr o Ho Hb Htr) as (A & B & C).
  destruct (on_book tb (client_of cf (so_strat o)) b r tr o) as [[o1 tr'] done]. cbn [fst snd] in *. subst done.
  split; cbn [fst snd].
  - apply Forall_upd_order; assumption.
  - rewrite Forall_forall in *. intros e He. apply in_map_iff in He. destruct He as [e0 [<- He0]]. destruct (fst e0 =? so_sel o); [exact B|apply Hlk; exact He0].
Qed.

(* one market update's matching (all strategies, isolation on) keeps every limit order consistent: positive fragments summing to the matched
   size, remaining and queue position non-negative - when the book does not reconcile starting prices *)
Theorem match_orders_ok tb cf b ans live os : b_bsp_rec b = false -> Forall ok_order os -> Forall (fun a => ok_traded (an_traded a)) ans ->
  Forall ok_order (match_orders tb cf b ans live os).
Proof.
  intros Hb Hos Hans. rewrite match_orders_fold.
  assert (G : forall l st, ok_state st -> ok_state (fold_left (mstep tb cf b) l st)).
  { induction l as [|x r IH]; intros st Hst; cbn [fold_left]; [exact Hst|]. apply IH. apply mstep_ok; assumption. }
  apply G. split; cbn [fst snd]; [exact Hos|]. rewrite Forall_forall in *. intros e He. apply in_map_iff in He. destruct He as [a [<- Ha]]. cbn. apply Hans. exact Ha.
Qed.
Theorem process_sim_orders_ok tb cf b ans os : cf_isolation cf = true -> b_bsp_rec b = false -> Forall ok_order os -> Forall (fun a => ok_traded (an_traded a)) ans ->
  Forall ok_order (process_sim_orders tb cf b ans os).
Proof.
  intros Hiso Hb Hos Hans. unfold process_sim_orders. rewrite Hiso.
  assert (G : forall sts os0, Forall ok_order os0 ->
            Forall ok_order (fold_left (fun os1 st => let live := filter (fun o => (so_strat o =? st) && status_in (so_status o) (cf_mw_live cf)) os1 in
                                                      match live with [] => os1 | _ :: _ => match_orders tb cf b ans live os1 end) sts os0)).
  { induction sts as [|s r IH]; intros os0 H0; cbn [fold_left]; [exact H0|]. apply IH. cbv zeta.
    destruct (filter _ os0); [exact H0|apply match_orders_ok; assumption]. }
  apply G. exact Hos.
Qed.

(* the completion sweep only touches status and live flag *)
Lemma ok_order_status cs now o st c : ok_order o -> ok_order (set_status cs now o st c).
Proof. intros H Ht. exact (H Ht). Qed.
Lemma ok_order_set_live o b0 : ok_order o -> ok_order (set_live o b0).
Proof. intros H Ht. exact (H Ht). Qed.
Theorem completion_sweep_ok cf now os : Forall ok_order os -> Forall ok_order (completion_sweep cf now os).
Proof.
  intros H. unfold completion_sweep. rewrite Forall_forall in *. intros x Hx. apply in_map_iff in Hx. destruct Hx as [o [<- Ho]]. specialize (H o Ho).
  destruct (negb (so_in_live o)); [exact H|]. destruct (so_complete o); [apply ok_order_set_live; exact H|].
  destruct (so_type o) eqn:Et; [destruct (remaining o =? 0)|destruct (so_bsp o)|destruct (so_bsp o)]; try exact H; apply ok_order_set_live, ok_order_status; exact H.
Qed.
(* a simulated cancel (full, partial, larger than the remainder) keeps the order consistent *)
Theorem sim_cancel_ok b o : ok_order o -> (match so_red o with Some x => 0 <= x | None => True end) -> ok_order (fst (fst (sim_cancel b o))).
Proof.
  intros H Hred. unfold sim_cancel. destruct (negb (mstatus_eqb (b_status b) MOpen)); [exact H|]. destruct (so_type o) eqn:Et; [|exact H|exact H].
  cbn [fst]. intros _. destruct (H Et) as ((Hp & Hm & Ht & Hpr) & Hr & Hq).
  unfold okL, frags_ok, remaining, add_cancelled in *. cbn [upd_buckets so_frags so_matched so_type so_price so_size so_cancelled so_lapsed so_voided so_piq2] in *. rewrite Ht in *.
  repeat split; try assumption. rewrite zmin_spec. destruct (so_red o) as [x|]; [destruct (x =? 0)|]; lia.
Qed.

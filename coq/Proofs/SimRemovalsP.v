(* SimRemovalsP.v — C09 "exactly once per market", over whole simulated runs.
   The de-duplication list of the middleware (s_removals, keyed (market, selection, factor)) is only ever extended:
   no request, no package execution, no CLOSED update and no re-opening forgets an entry; and a removal whose key is
   recorded is not applied again. *)
From Coq Require Import ZArith List Bool Lia ZifyBool.
From V Require Import Model.Num Model.Status Model.Sim Model.SimLoop.
Open Scope Z_scope.

Notation rkey := (Z * (Z * option Z))%type.

Definition recorded (mid : Z) (key : Z * option Z) (rems : list rkey) : bool :=
  existsb (fun k => (fst k =? mid) && (fst (snd k) =? fst key) && opt_eqb Z.eqb (snd (snd k)) (snd key)) rems.

(* the first fold of SimulatedMiddleware.__call__, named *)
Definition collect_step (mid : Z) (st : list analytics * list rkey * list (Z * option Z)) (r : runner) :=
  let '(ans, rems, nr) := st in
  match r_status r with
  | RActive => (put_an (analytics_step r (get_an (r_sel r) ans)) ans, rems, nr)
  | RRemoved =>
      let key := (r_sel r, r_adj r) in
      if recorded mid key rems then st else (ans, rems ++ [(mid, key)], nr ++ [key])
  | _ => st
  end.
Definition collect (mid : Z) (rs : list runner) st := fold_left (collect_step mid) rs st.

Definition apply_new (tb : tiebreak) (cf : config) (m : market) (b : book) (newrems : list (Z * option Z)) :=
  fold_left (fun (st : list sorder * bool) k =>
               if snd st then st
               else apply_removal (removal_order tb (ms_type (mk_static m)) b (fst k) (snd k) (cf_min_adj cf)) (fst st))
            newrems (mk_orders m, false).

Lemma middleware_unfold tb cf s m b :
  middleware tb cf s m b =
  let '(ans, rems, newrems) := collect (mk_id m) (b_runners b) (mk_analytics m, s_removals s, []) in
  let '(orders1, raised) := apply_new tb cf m b newrems in
  let orders2 := if raised then orders1 else if mk_active m then process_sim_orders tb cf b ans orders1 else orders1 in
  ({| s_markets := s_markets s; s_queue := s_queue s; s_bet := s_bet s; s_removals := rems; s_next_name := s_next_name s;
      s_aborted := s_aborted s; s_tx := s_tx s; s_tx_failed := s_tx_failed s |},
   {| mk_id := mk_id m; mk_static := mk_static m; mk_book := Some b; mk_closed := mk_closed m; mk_seen := true;
      mk_analytics := ans; mk_orders := orders2; mk_active := mk_active m |}).
Proof. reflexivity. Qed.

Lemma collect_cons mid r rs st : collect mid (r :: rs) st = collect mid rs (collect_step mid st r).
Proof. reflexivity. Qed.

Lemma recorded_app mid key l1 l2 : recorded mid key (l1 ++ l2) = recorded mid key l1 || recorded mid key l2.
Proof. unfold recorded. apply existsb_app. Qed.

Lemma opt_eqb_refl (o : option Z) : opt_eqb Z.eqb o o = true.
Proof. destruct o as [x|]; cbn; [apply Z.eqb_refl|reflexivity]. Qed.

Lemma recorded_self mid key : recorded mid key [(mid, key)] = true.
Proof. unfold recorded. cbn. rewrite !Z.eqb_refl, opt_eqb_refl. reflexivity. Qed.

(* the collection only appends to the list, and what it appends is exactly what it reports as new *)
Lemma collect_extends mid : forall rs ans rems nr,
  exists add, snd (fst (collect mid rs (ans, rems, nr))) = rems ++ map (fun k => (mid, k)) add /\
              snd (collect mid rs (ans, rems, nr)) = nr ++ add.
Proof.
  induction rs as [|r rs IH]; intros ans rems nr.
  - cbn. exists []. cbn. rewrite !app_nil_r. split; reflexivity.
  - rewrite collect_cons.
    unfold collect_step. destruct (r_status r); try apply IH.
    destruct (recorded mid (r_sel r, r_adj r) rems); [apply IH|].
    destruct (IH ans (rems ++ [(mid, (r_sel r, r_adj r))]) (nr ++ [(r_sel r, r_adj r)])) as [add [H1 H2]].
    exists ((r_sel r, r_adj r) :: add). cbn [map]. rewrite H1, H2, <- !app_assoc. split; reflexivity.
Qed.

Lemma collect_keeps mid rs ans rems nr k :
  In k rems -> In k (snd (fst (collect mid rs (ans, rems, nr)))).
Proof.
  intros Hin. destruct (collect_extends mid rs ans rems nr) as [add [H1 _]]. rewrite H1. apply in_or_app. left. exact Hin.
Qed.

(* after the collection every REMOVED runner of the book is recorded for this market *)
Lemma collect_records mid : forall rs ans rems nr r,
  In r rs -> r_status r = RRemoved -> recorded mid (r_sel r, r_adj r) (snd (fst (collect mid rs (ans, rems, nr)))) = true.
Proof.
  induction rs as [|x rs IH]; intros ans rems nr r Hin Hst; [destruct Hin|].
  rewrite collect_cons.
  destruct Hin as [->|Hin].
  - unfold collect_step. rewrite Hst.
    destruct (recorded mid (r_sel r, r_adj r) rems) eqn:E.
    + destruct (collect_extends mid rs ans rems nr) as [add [H1 _]]. rewrite H1, recorded_app, E. reflexivity.
    + destruct (collect_extends mid rs ans (rems ++ [(mid, (r_sel r, r_adj r))]) (nr ++ [(r_sel r, r_adj r)])) as [add [H1 _]].
      rewrite H1, !recorded_app, recorded_self, orb_true_r. reflexivity.
  - destruct (collect_step mid (ans, rems, nr) x) as [[a1 r1] n1]. apply IH; assumption.
Qed.

(* nothing is reported as new when every REMOVED runner of the book is already recorded *)
Lemma collect_nothing_new mid : forall rs ans rems,
  (forall r, In r rs -> r_status r = RRemoved -> recorded mid (r_sel r, r_adj r) rems = true) ->
  exists ans', collect mid rs (ans, rems, []) = (ans', rems, []).
Proof.
  induction rs as [|x rs IH]; intros ans rems H; [exists ans; reflexivity|].
  rewrite collect_cons.
  assert (Hrs : forall r, In r rs -> r_status r = RRemoved -> recorded mid (r_sel r, r_adj r) rems = true)
    by (intros r Hr; apply H; right; exact Hr).
  unfold collect_step. destruct (r_status x) eqn:E; try (apply IH; exact Hrs).
  rewrite (H x (or_introl eq_refl) E). apply IH; exact Hrs.
Qed.

(* ---- the middleware ---- *)
Theorem middleware_keeps_removals tb cf s m b k :
  In k (s_removals s) -> In k (s_removals (fst (middleware tb cf s m b))).
Proof.
  intros Hin. rewrite middleware_unfold.
  pose proof (collect_keeps (mk_id m) (b_runners b) (mk_analytics m) (s_removals s) [] k Hin) as H.
  destruct (collect (mk_id m) (b_runners b) (mk_analytics m, s_removals s, [])) as [[ans rems] nr] eqn:E.
  destruct (apply_new tb cf m b nr) as [o1 raised]. cbn in *. exact H.
Qed.

Theorem middleware_records_removed tb cf s m b r :
  In r (b_runners b) -> r_status r = RRemoved ->
  recorded (mk_id m) (r_sel r, r_adj r) (s_removals (fst (middleware tb cf s m b))) = true.
Proof.
  intros Hin Hst. rewrite middleware_unfold.
  pose proof (collect_records (mk_id m) (b_runners b) (mk_analytics m) (s_removals s) [] r Hin Hst) as H.
  destruct (collect (mk_id m) (b_runners b) (mk_analytics m, s_removals s, [])) as [[ans rems] nr] eqn:E.
  destruct (apply_new tb cf m b nr) as [o1 raised]. cbn in *. exact H.
Qed.

(* a book all of whose removals are recorded applies no removal: the orders only go through the matching of this update *)
Theorem recorded_removal_not_applied_again tb cf s m b :
  (forall r, In r (b_runners b) -> r_status r = RRemoved -> recorded (mk_id m) (r_sel r, r_adj r) (s_removals s) = true) ->
  exists ans, s_removals (fst (middleware tb cf s m b)) = s_removals s /\
              mk_orders (snd (middleware tb cf s m b)) = (if mk_active m then process_sim_orders tb cf b ans (mk_orders m) else mk_orders m).
Proof.
  intros H. rewrite middleware_unfold.
  destruct (collect_nothing_new (mk_id m) (b_runners b) (mk_analytics m) (s_removals s) H) as [ans E]. rewrite E.
  exists ans. cbn. split; reflexivity.
Qed.

(* recorded is monotone in the list *)
Lemma recorded_mono mid key l l' : (forall k, In k l -> In k l') -> recorded mid key l = true -> recorded mid key l' = true.
Proof.
  unfold recorded. intros Hsub H. apply existsb_exists in H as [k [Hk Hp]]. apply existsb_exists. exists k. split; [apply Hsub; exact Hk|exact Hp].
Qed.

(* ---- package execution, requests, whole steps ---- *)
Lemma exec_pkg_removals tb cf now s p : s_removals (exec_pkg tb cf now s p) = s_removals s.
Proof.
  unfold exec_pkg. destruct (get_market (pk_market p) (s_markets s)) as [m|]; [|reflexivity].
  destruct (mk_book m) as [b|]; [|reflexivity]. destruct (get_order (pk_order p) (mk_orders m)) as [o|]; [|reflexivity].
  destruct (status_eqb (so_status o) SViolation); [destruct (pk_kind p); reflexivity|].
  destruct (pk_kind p).
  - destruct (sim_place tb (client_of cf (so_strat o)) (mk_static m) b (pk_mv p) o) as [o1 ok]. reflexivity.
  - destruct (sim_cancel b o) as [[o1 ok] c]. reflexivity.
  - reflexivity.
  - destruct (status_eqb (so_status o) SExecComplete); [reflexivity|].
    destruct (sim_cancel b o) as [[o1 ok] sc]. destruct (negb ok); [reflexivity|].
    destruct (sc =? 0); [reflexivity|].
    destruct (sim_place tb (client_of cf (so_strat o)) (mk_static m) b (pk_mv p) _) as [r1 okp]. destruct okp; reflexivity.
Qed.

Lemma check_pending_removals tb cf now mid s : s_removals (check_pending tb cf now mid s) = s_removals s.
Proof.
  unfold check_pending. cbn [s_removals].
  generalize (filter (fun p => (pk_market p =? mid) && due cf now p) (s_queue s)). intros ps. revert s.
  induction ps as [|p ps IH]; intros s; cbn [fold_left]; [reflexivity|]. rewrite IH.
  destruct (s_aborted s); [reflexivity|apply exec_pkg_removals].
Qed.

Lemma request0_removals cf now st mid s a : s_removals (request0 cf now st mid s a) = s_removals s.
Proof.
  unfold request0. destruct (get_market mid (s_markets s)) as [m|]; [|reflexivity].
  destruct a as [name sel sd t mv|name red|name p|name price mv|mid' a']; [| | | |reflexivity].
  - destruct (negb (market_open m)); reflexivity.
  - destruct (get_order name (mk_orders m)) as [o|]; [|reflexivity].
    destruct (negb (order_validation_ok o) || negb (market_open m)); [reflexivity|].
    destruct (so_bet o); [|reflexivity]. destruct (so_type o); try reflexivity.
    destruct (match red with Some x => negb (x =? 0) && (remaining o - x <? 0) | None => false end); [reflexivity|].
    destruct (negb (status_eqb (so_status o) SExecutable)); reflexivity.
  - destruct (get_order name (mk_orders m)) as [o|]; [|reflexivity].
    destruct (negb (order_validation_ok o) || negb (market_open m)); [reflexivity|].
    destruct (so_bet o); [|reflexivity]. destruct (so_type o); try reflexivity.
    destruct (persist_eqb (so_persist o) p); [reflexivity|].
    destruct (negb (status_eqb (so_status o) SExecutable)); reflexivity.
  - destruct (get_order name (mk_orders m)) as [o|]; [|reflexivity].
    destruct (negb (order_validation_ok o) || negb (market_open m)); [reflexivity|].
    destruct (so_bet o); [|reflexivity]. destruct (so_type o); try reflexivity;
    (destruct (so_price o =? price); [reflexivity|]; destruct (negb (status_eqb (so_status o) SExecutable)); reflexivity).
Qed.

Lemma request_removals cf now st mid s a : s_removals (request cf now st mid s a) = s_removals s.
Proof. unfold request. destruct a; apply request0_removals. Qed.

Lemma requests_removals cf now st mid : forall acts s, s_removals (fold_left (request cf now st mid) acts s) = s_removals s.
Proof. induction acts as [|a acts IH]; intros s; cbn [fold_left]; [reflexivity|]. rewrite IH. apply request_removals. Qed.

Lemma strategies_removals cf now mid (f : Z -> list action) : forall sts s,
  s_removals (fold_left (fun s st => fold_left (request cf now st mid) (f st) s) sts s) = s_removals s.
Proof. induction sts as [|st sts IH]; intros s; cbn [fold_left]; [reflexivity|]. rewrite IH. apply requests_removals. Qed.

(* one event of the run — a book of any status, CLOSED included — forgets no recorded removal *)
Theorem step_keeps_removals tb cf n sc s e k : In k (s_removals s) -> In k (s_removals (step tb cf n sc s e)).
Proof.
  intros Hin. unfold step. destruct (s_aborted s); [exact Hin|].
  set (s1 := match s_queue s with [] => s | _ => check_pending tb cf (b_pt (ev_book e)) (ev_market e) s end).
  assert (H1 : s_removals s1 = s_removals s) by (subst s1; destruct (s_queue s); [reflexivity|apply check_pending_removals]).
  destruct (s_aborted s1); [rewrite H1; exact Hin|].
  destruct (get_market (ev_market e) (s_markets s1)) as [m|]; [|rewrite H1; exact Hin].
  destruct (mstatus_eqb (b_status (ev_book e)) MClosed).
  - destruct (mk_seen m); cbn [s_removals]; rewrite H1; exact Hin.
  - match goal with |- context [middleware tb cf s1 ?m0 ?b] =>
      pose proof (middleware_keeps_removals tb cf s1 m0 b k) as Hm; destruct (middleware tb cf s1 m0 b) as [s2 m1] end.
    rewrite strategies_removals. cbn [s_removals]. cbn [fst] in Hm. apply Hm. rewrite H1. exact Hin.
Qed.

(* every reachable later state of a run still holds every removal recorded now *)
Theorem run_keeps_removals tb cf n sc : forall es s k, In k (s_removals s) -> In k (s_removals (fold_left (step tb cf n sc) es s)).
Proof.
  induction es as [|e es IH]; intros s k Hin; cbn [fold_left]; [exact Hin|]. apply IH. apply step_keeps_removals. exact Hin.
Qed.

(* "exactly once per market" over histories: once the middleware has processed a book of market m, any later book of the same
   market showing the same removed runners (same factors) — after any events in between: other markets, requests, package
   executions, a CLOSED update and a re-opening — applies no removal *)
Theorem removal_once_over_history tb cf n sc s m b es m' b' :
  mk_id m' = mk_id m ->
  (forall r', In r' (b_runners b') -> r_status r' = RRemoved ->
     exists r, In r (b_runners b) /\ r_status r = RRemoved /\ r_sel r = r_sel r' /\ r_adj r = r_adj r') ->
  let s_after := fold_left (step tb cf n sc) es (fst (middleware tb cf s m b)) in
  exists ans, s_removals (fst (middleware tb cf s_after m' b')) = s_removals s_after /\
              mk_orders (snd (middleware tb cf s_after m' b')) =
              (if mk_active m' then process_sim_orders tb cf b' ans (mk_orders m') else mk_orders m').
Proof.
  intros Hid Hsame s_after. apply recorded_removal_not_applied_again.
  intros r' Hin Hst. destruct (Hsame r' Hin Hst) as [r [Hr [Hs [E1 E2]]]].
  rewrite Hid, <- E1, <- E2.
  eapply recorded_mono; [|apply (middleware_records_removed tb cf s m b r Hr Hs)].
  intros k Hk. subst s_after. apply run_keeps_removals. exact Hk.
Qed.

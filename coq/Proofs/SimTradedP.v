(* SimTradedP.v — C06: passive matching (queue position, halving, no double counting). *)
From Coq Require Import ZArith List Bool Lia ZifyBool.
From V Require Import Model.Num Model.Status Model.Sim Proofs.NumP Proofs.SimPlaceP Proofs.SimPlaceP2.
Ltac Zify.zify_post_hook ::= Z.to_euclidean_division_equations.
Open Scope Z_scope.

(* invariant linking the reported matched size with the fragments *)
Definition frags_ok (o : sorder) : Prop :=
  frags_pos (so_frags o) /\ so_matched o = frag_sum (so_frags o) /\ so_type o = TLimit /\ 0 < so_price o.

Lemma frags_ok_add tb o pt s : frags_ok o -> 0 < s ->
  frags_ok (add_frag tb o pt (so_price o) s) /\
  so_matched (add_frag tb o pt (so_price o) s) = so_matched o + s /\
  remaining (add_frag tb o pt (so_price o) s) = remaining o - s.
Proof.
  intros (Hp & Hm & Ht & Hpr) Hs. unfold add_frag.
  set (fr := so_frags o ++ [{| f_pt := pt; f_price := so_price o; f_size := s |}]).
  destruct (set_frags_fields tb o fr) as (F&S&C&L&V&T&P&Sd&M&A).
  assert (Hpos : frags_pos fr).
  { unfold fr, frags_pos. apply Forall_app. split; [exact Hp|]. constructor; [cbn; lia|constructor]. }
  assert (Hsum : frag_sum fr = frag_sum (so_frags o) + s).
  { unfold fr, frag_sum. rewrite map_app, sumZ_app. simpl. lia. }
  assert (M' : so_matched (set_frags tb o fr) = so_matched o + s) by (rewrite M, wap_matched by exact Hpos; lia).
  split; [|split].
  - unfold frags_ok. rewrite F, T, P. repeat split; try assumption. rewrite M', Hsum. lia.
  - exact M'.
  - unfold remaining. rewrite T, S, C, L, V, M', Ht. lia.
Qed.

(* the abstract queue/fill step that calc_traded implements *)
Definition fill_of (tb : tiebreak) (piq2 rem ts : Z) : Z :=
  if piq2 <? ts then rnd tb (zmin (2 * rem) (ts - piq2)) 2 else 0.
Definition piq_after (piq2 ts : Z) : Z := if piq2 <? ts then 0 else piq2 - ts.
Definition returned (tb : tiebreak) (piq2 rem ts : Z) : Z :=
  if piq2 <? ts then piq2 + 2 * fill_of tb piq2 rem ts else ts.

Lemma fill_bounds tb piq2 rem ts : 0 <= rem -> 0 <= piq2 ->
  0 <= fill_of tb piq2 rem ts <= rem /\ 2 * fill_of tb piq2 rem ts <= Z.max 0 (ts - piq2) + 1.
Proof.
  intros Hr Hq. unfold fill_of. destruct (piq2 <? ts) eqn:E; [|lia].
  rewrite zmin_spec. pose proof (rnd_bounds tb (Z.min (2 * rem) (ts - piq2)) 2 ltac:(lia)). lia.
Qed.

Lemma calc_traded_abs tb pt ts o : frags_ok o -> 0 <= remaining o -> 0 <= so_piq2 o ->
  let '(o', m) := calc_traded tb pt ts o in
  frags_ok o' /\ so_piq2 o' = piq_after (so_piq2 o) ts /\ m = returned tb (so_piq2 o) (remaining o) ts /\
  so_matched o' = so_matched o + fill_of tb (so_piq2 o) (remaining o) ts /\
  remaining o' = remaining o - fill_of tb (so_piq2 o) (remaining o) ts /\
  so_price o' = so_price o /\ so_side o' = so_side o.
Proof.
  intros Hok Hr Hq. unfold calc_traded, piq_after, returned, fill_of.
  destruct (so_piq2 o <? ts) eqn:E.
  - set (size := rnd tb (zmin (2 * remaining o) (ts - so_piq2 o)) 2).
    assert (Hsz : 0 <= size) by (unfold size; rewrite zmin_spec; apply rnd_nonneg; lia).
    destruct (size =? 0) eqn:E0.
    + assert (size = 0) by lia. destruct (upd_sim_fields o (so_mver o) 0 (so_bsp o)) as (F&M&T&R&S&C&L&V&P&Sd&A).
      split. { destruct Hok as (a&b&c&d). unfold frags_ok. rewrite F, M, T, P. auto. }
      cbn [so_piq2 upd_sim]. repeat split; try lia; try assumption.
    + destruct (frags_ok_add tb o pt size Hok ltac:(lia)) as (Hok' & M' & R').
      set (o1 := add_frag tb o pt (so_price o) size) in *.
      destruct (upd_sim_fields o1 (so_mver o1) 0 (so_bsp o1)) as (F&M&T&R&S&C&L&V&P&Sd&A).
      split. { destruct Hok' as (a&b&c&d). unfold frags_ok. rewrite F, M, T, P. auto. }
      cbn [so_piq2 upd_sim]. split; [reflexivity|]. split; [reflexivity|].
      split; [lia|]. split; [lia|].
      unfold o1, add_frag. destruct (set_frags_fields tb o (so_frags o ++ [{| f_pt := pt; f_price := so_price o; f_size := size |}])) as (_&_&_&_&_&_&P2&Sd2&_).
      split; [exact P2|exact Sd2].
  - destruct (upd_sim_fields o (so_mver o) (so_piq2 o - ts) (so_bsp o)) as (F&M&T&R&S&C&L&V&P&Sd&A).
    split. { destruct Hok as (a&b&c&d). unfold frags_ok. rewrite F, M, T, P. auto. }
    cbn [so_piq2 upd_sim]. repeat split; try lia; assumption.
Qed.

(* ---------- C06.1: a lone resting order over any sequence of traded amounts ---------- *)
(* the amounts it sees at eligible prices, one after the other (across prices and updates) *)
Fixpoint lone_run (tb : tiebreak) (piq2 rem : Z) (tss : list Z) : Z * Z * Z :=   (* piq2, rem, total filled *)
  match tss with
  | [] => (piq2, rem, 0)
  | ts :: r => let f := fill_of tb piq2 rem ts in
               let '(q, rm, tot) := lone_run tb (piq_after piq2 ts) (rem - f) r in (q, rm, f + tot)
  end.

(* exact closed form when the halved amounts are whole pennies: filled = min(remaining, max(0, E/2 - queue)) *)
Theorem lone_order_exact tb : forall tss piq2 rem,
  0 <= rem -> 0 <= piq2 -> Z.even piq2 = true -> Forall (fun ts => 0 <= ts /\ Z.even ts = true) tss ->
  let '(q, rm, tot) := lone_run tb piq2 rem tss in
  tot = Z.min rem (Z.max 0 ((sumZ tss - piq2) / 2)) /\ rm = rem - tot /\ q = Z.max 0 (piq2 - sumZ tss).
Proof.
  induction tss as [|ts r IH]; intros piq2 rem Hr Hq He Hall; cbn [lone_run sumZ].
  - apply Z.even_spec in He as [k Hk]. lia.
  - inversion Hall as [|? ? [Hts Hte] Hr']; subst.
    pose proof He as He'. apply Z.even_spec in He' as [k Hk]. apply Z.even_spec in Hte as [j Hj].
    assert (Hf : fill_of tb piq2 rem ts = if piq2 <? ts then Z.min rem (j - k) else 0).
    { unfold fill_of. destruct (piq2 <? ts) eqn:Eq; [|reflexivity]. rewrite zmin_spec.
      replace (Z.min (2 * rem) (ts - piq2)) with ((Z.min rem (j - k)) * 2) by lia. apply rnd_exact. lia. }
    assert (Hpa : 0 <= piq_after piq2 ts /\ Z.even (piq_after piq2 ts) = true).
    { unfold piq_after. destruct (piq2 <? ts) eqn:Eq; [split; [lia|reflexivity]|]. split; [lia|]. apply Z.even_spec. exists (k - j). lia. }
    destruct Hpa as [Hpa1 Hpa2].
    specialize (IH (piq_after piq2 ts) (rem - fill_of tb piq2 rem ts)
                   ltac:(rewrite Hf; destruct (piq2 <? ts); lia) Hpa1 Hpa2 Hr').
    destruct (lone_run tb (piq_after piq2 ts) (rem - fill_of tb piq2 rem ts) r) as [[q rm] tot].
    destruct IH as (I1 & I2 & I3). rewrite Hf in *. unfold piq_after in *.
    assert (Hs : 0 <= sumZ r).
    { clear - Hr'. induction r as [|x r IH]; simpl; [lia|]. inversion Hr' as [|? ? [Hx _] Hr'']; subst. specialize (IH Hr''). lia. }
    destruct (piq2 <? ts) eqn:E; split; try split; lia.
Qed.

(* in general (odd amounts): within half a penny per fill, for every tie-break *)
Theorem lone_order_bounds tb : forall tss piq2 rem,
  0 <= rem -> 0 <= piq2 -> Forall (fun ts => 0 <= ts) tss ->
  let '(q, rm, tot) := lone_run tb piq2 rem tss in
  0 <= tot <= rem /\ rm = rem - tot /\ 2 * tot <= Z.max 0 (sumZ tss - piq2) + Z.of_nat (length tss) /\
  (sumZ tss <= piq2 -> tot = 0).
Proof.
  induction tss as [|ts r IH]; intros piq2 rem Hr Hq Hall; cbn [lone_run sumZ length]; [lia|].
  inversion Hall as [|? ? Hts Hr']; subst.
  destruct (fill_bounds tb piq2 rem ts Hr Hq) as [Hb1 Hb2].
  assert (Hpa : 0 <= piq_after piq2 ts) by (unfold piq_after; destruct (piq2 <? ts) eqn:Eq; lia).
  specialize (IH (piq_after piq2 ts) (rem - fill_of tb piq2 rem ts) ltac:(lia) Hpa Hr').
  destruct (lone_run tb (piq_after piq2 ts) (rem - fill_of tb piq2 rem ts) r) as [[q rm] tot].
  destruct IH as (I1 & I2 & I3 & I4).
  assert (Hs : 0 <= sumZ r).
  { clear - Hr'. induction r as [|x r IH]; simpl; [lia|]. inversion Hr'; subst. specialize (IH H2). lia. }
  unfold piq_after, fill_of in *. destruct (piq2 <? ts) eqn:E; repeat split; try lia.
Qed.

Lemma Forall2_weaken {A B} (P Q : A -> B -> Prop) l1 l2 : (forall a b, P a b -> Q a b) -> Forall2 P l1 l2 -> Forall2 Q l1 l2.
Proof. intros H F. induction F; constructor; auto. Qed.

(* ---------- C06.2: one order against the traded dict of one update ---------- *)
Definition eligible (o : sorder) (tp : Z) : bool :=
  match so_side o with Back => so_price o <=? tp | Lay => tp <=? so_price o end.

Lemma process_traded_spec tb pt : forall tr o, frags_ok o -> 0 <= remaining o -> 0 <= so_piq2 o ->
  Forall (fun e => 0 <= snd e) tr ->
  let '(o', tr') := process_traded tb pt tr o in
  frags_ok o' /\ 0 <= remaining o' /\ 0 <= so_piq2 o' /\ so_price o' = so_price o /\ so_side o' = so_side o /\
  map fst tr' = map fst tr /\ Forall (fun e => 0 <= snd e) tr' /\
  Forall2 (fun e e' => snd e' <= snd e /\ (eligible o (fst e) = false -> snd e' = snd e)) tr tr' /\
  so_matched o <= so_matched o' /\
  2 * (so_matched o' - so_matched o) <= (sumZ (map snd tr) - sumZ (map snd tr')) + Z.of_nat (length tr) /\
  remaining o' = remaining o - (so_matched o' - so_matched o).
Proof.
  induction tr as [|[tp ts] r IH]; intros o Hok Hr Hq Hall; cbn [process_traded].
  - split; [exact Hok|]. repeat split; try lia; try assumption; constructor.
  - inversion Hall as [|? ? Hts Hr']; subst. cbn in Hts. fold (eligible o tp).
    destruct (eligible o tp) eqn:El.
    + pose proof (calc_traded_abs tb pt ts o Hok Hr Hq) as Hc.
      destruct (calc_traded tb pt ts o) as [o1 m].
      destruct Hc as (Hok1 & Hq1 & Hm & Hmat & Hrem & Hp1 & Hs1).
      destruct (fill_bounds tb (so_piq2 o) (remaining o) ts Hr Hq) as [Hb1 Hb2].
      assert (Hq1' : 0 <= so_piq2 o1) by (rewrite Hq1; unfold piq_after; destruct (so_piq2 o <? ts) eqn:Eq; lia).
      specialize (IH o1 Hok1 ltac:(lia) Hq1' Hr').
      destruct (process_traded tb pt r o1) as [o2 r'].
      destruct IH as (A & B & C & D & E & F & G & H & I & J & K).
      assert (Hel : forall x, eligible o1 x = eligible o x) by (intros x; unfold eligible; rewrite Hp1, Hs1; reflexivity).
      split; [exact A|]. split; [exact B|]. split; [exact C|]. split; [congruence|]. split; [congruence|].
      split; [cbn [map fst]; f_equal; exact F|].
      set (ts' := if m =? 0 then ts else zmax (ts - m) 0).
      assert (Hts' : 0 <= ts' <= ts /\ ts - ts' + 1 >= 2 * fill_of tb (so_piq2 o) (remaining o) ts).
      { unfold ts'. rewrite zmax_spec. subst m. unfold returned, fill_of in *. destruct (so_piq2 o <? ts) eqn:Eq.
        - destruct (so_piq2 o + 2 * rnd tb (zmin (2 * remaining o) (ts - so_piq2 o)) 2 =? 0) eqn:Ez; lia.
        - destruct (ts =? 0) eqn:Ez; lia. }
      split; [constructor; [cbn; lia|exact G]|].
      split. { constructor; [cbn; split; [lia|intros; congruence]|].
               eapply Forall2_weaken; [|exact H]. cbn. intros a b [H1 H2]. split; [exact H1|]. intros Ha. apply H2. rewrite Hel. exact Ha. }
      split; [lia|]. split; [cbn [map snd sumZ length]; lia|lia].
    + specialize (IH o Hok Hr Hq Hr').
      destruct (process_traded tb pt r o) as [o2 r'].
      destruct IH as (A & B & C & D & E & F & G & H & I & J & K).
      split; [exact A|]. split; [exact B|]. split; [exact C|]. split; [exact D|]. split; [exact E|].
      split; [cbn [map fst]; f_equal; exact F|].
      split; [constructor; [cbn; lia|exact G]|].
      split; [constructor; [cbn; split; [lia|reflexivity]|exact H]|].
      split; [exact I|]. split; [cbn [map snd sumZ length]; lia|exact K].
Qed.

(* ---------- several orders consuming ONE copy of the traded volume: never double counted ---------- *)
Fixpoint many_orders (tb : tiebreak) (pt : Z) (tr : traded) (os : list sorder) : list sorder * traded :=
  match os with
  | [] => ([], tr)
  | o :: r => let '(o', tr') := process_traded tb pt tr o in
              let '(r', tr'') := many_orders tb pt tr' r in (o' :: r', tr'')
  end.

Definition total_matched (os : list sorder) : Z := sumZ (map so_matched os).

Theorem no_double_counting tb pt : forall os tr,
  Forall (fun o => frags_ok o /\ 0 <= remaining o /\ 0 <= so_piq2 o) os -> Forall (fun e => 0 <= snd e) tr ->
  let '(os', tr') := many_orders tb pt tr os in
  Forall (fun e => 0 <= snd e) tr' /\ length os' = length os /\
  2 * (total_matched os' - total_matched os) <= (sumZ (map snd tr) - sumZ (map snd tr')) + Z.of_nat (length tr * length os) /\
  2 * (total_matched os' - total_matched os) <= sumZ (map snd tr) + Z.of_nat (length tr * length os).
Proof.
  induction os as [|o r IH]; intros tr Hos Htr; cbn [many_orders].
  - unfold total_matched. simpl. rewrite Nat.mul_0_r. repeat split; try lia; try assumption.
    clear - Htr. induction tr as [|e t IH]; simpl; [lia|]. inversion Htr; subst. specialize (IH H2). lia.
  - inversion Hos as [|? ? (Hok & Hr & Hq) Hos']; subst.
    pose proof (process_traded_spec tb pt tr o Hok Hr Hq Htr) as Hp.
    destruct (process_traded tb pt tr o) as [o' tr1].
    destruct Hp as (A & B & C & D & E & F & G & H & I & J & K).
    specialize (IH tr1 Hos' G). destruct (many_orders tb pt tr1 r) as [r' tr2].
    destruct IH as (I1 & I2 & I3 & I4).
    assert (Hlen : length tr1 = length tr) by (rewrite <- (map_length fst tr1), F, map_length; reflexivity).
    assert (Hnn : forall l, Forall (fun e : Z * Z => 0 <= snd e) l -> 0 <= sumZ (map snd l)).
    { clear. induction l as [|e t IH]; simpl; intros H; [lia|]. inversion H; subst. specialize (IH H3). lia. }
    pose proof (Hnn _ I1). pose proof (Hnn _ G).
    unfold total_matched in *. cbn [map sumZ length]. rewrite Hlen in *.
    split; [exact I1|]. split; [lia|]. split; nia.
Qed.

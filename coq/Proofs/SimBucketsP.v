(* SimBucketsP.v — C04 (bucket algebra of the simulated order) and C09 (runner removal). *)
From Coq Require Import ZArith List Bool Lia ZifyBool.
From V Require Import Model.Num Model.Status Model.Sim Model.SimLoop Proofs.NumP Proofs.SimPlaceP Proofs.SimPlaceP2 Proofs.SimTradedP.
Open Scope Z_scope.

(* a limit order whose buckets are sound: the property's "matched and remaining are never negative,
   size = matched + remaining + cancelled + lapsed + voided" (the identity itself is the definition of
   [remaining], exactly as size_remaining is a derived property in the code) *)
Definition good (o : sorder) : Prop :=
  so_type o = TLimit /\ frags_pos (so_frags o) /\ so_matched o = frag_sum (so_frags o) /\
  0 <= remaining o /\ 0 <= so_cancelled o /\ 0 <= so_lapsed o /\ 0 <= so_voided o.

Lemma good_conserved o : good o ->
  so_size o = so_matched o + remaining o + so_cancelled o + so_lapsed o + so_voided o /\ 0 <= so_matched o /\ 0 <= remaining o.
Proof.
  intros (T & P & M & R & C & L & V). unfold remaining in *. rewrite T in *. split; [lia|]. split; [|exact R].
  rewrite M. clear -P. unfold frag_sum. induction (so_frags o) as [|f r IH]; simpl; [lia|]. inversion P as [|? ? [Hs _] Hr]; subst. specialize (IH Hr). lia.
Qed.

Lemma fresh_good o : fresh o -> good o.
Proof.
  intros (F & M & A & C & L & V & T & S). unfold good, remaining. rewrite T, F, M, C, L, V.
  repeat split; try lia. constructor.
Qed.

(* ---- the primitives only MOVE size between buckets ---- *)
Lemma good_add_frag tb o pt p s : good o -> 0 < p -> 0 < s <= remaining o ->
  good (add_frag tb o pt p s) /\ so_matched (add_frag tb o pt p s) = so_matched o + s /\
  remaining (add_frag tb o pt p s) = remaining o - s /\
  so_cancelled (add_frag tb o pt p s) = so_cancelled o /\ so_lapsed (add_frag tb o pt p s) = so_lapsed o /\
  so_voided (add_frag tb o pt p s) = so_voided o /\ so_size (add_frag tb o pt p s) = so_size o.
Proof.
  intros (T & P & M & R & C & L & V) Hp Hs. unfold add_frag.
  set (fr := so_frags o ++ [{| f_pt := pt; f_price := p; f_size := s |}]).
  destruct (set_frags_fields tb o fr) as (F&S&Cc&Ll&Vv&Tt&Pp&Sd&Mm&A).
  assert (Hpos : frags_pos fr) by (unfold fr, frags_pos; apply Forall_app; split; [exact P|constructor; [cbn; lia|constructor]]).
  assert (Hsum : frag_sum fr = frag_sum (so_frags o) + s) by (unfold fr, frag_sum; rewrite map_app, sumZ_app; simpl; lia).
  assert (M' : so_matched (set_frags tb o fr) = so_matched o + s) by (rewrite Mm, wap_matched by exact Hpos; lia).
  assert (R' : remaining (set_frags tb o fr) = remaining o - s) by (unfold remaining; rewrite Tt, S, Cc, Ll, Vv, M', T; lia).
  split; [|repeat split; assumption || lia].
  unfold good. rewrite Tt, F, Cc, Ll, Vv, R', M', Hsum. repeat split; try assumption; lia.
Qed.

Lemma good_buckets o c l v : good o -> 0 <= c -> 0 <= l -> 0 <= v ->
  c + l + v <= remaining o + so_cancelled o + so_lapsed o + so_voided o -> good (upd_buckets o c l v).
Proof.
  intros (T & P & M & R & C & L & V) Hc Hl Hv Hsum. unfold good, upd_buckets, remaining in *. cbn. rewrite T in *.
  repeat split; try assumption; lia.
Qed.

(* cancel: full, partial, or a reduction larger than the remainder *)
Theorem cancel_moves_size b o : good o -> (match so_red o with Some x => 0 <= x | None => True end) ->
  let '(o', ok, c) := sim_cancel b o in
  (ok = false -> o' = o) /\
  (ok = true -> good o' /\ 0 <= c <= remaining o /\
                c = (match so_red o with Some x => if x =? 0 then remaining o else Z.min x (remaining o) | None => remaining o end) /\
                so_cancelled o' = so_cancelled o + c /\ remaining o' = remaining o - c /\
                so_matched o' = so_matched o /\ so_lapsed o' = so_lapsed o /\ so_voided o' = so_voided o /\ so_frags o' = so_frags o).
Proof.
  intros Hg Hred. pose proof Hg as (T & P & M & R & C & L & V). unfold sim_cancel.
  destruct (negb (mstatus_eqb (b_status b) MOpen)); [split; [reflexivity|discriminate]|].
  rewrite T. split; [discriminate|]. intros _.
  set (red := match so_red o with Some x => if x =? 0 then remaining o else x | None => remaining o end).
  rewrite zmin_spec.
  assert (Hr : 0 <= Z.min red (remaining o) <= remaining o).
  { unfold red. destruct (so_red o) as [x|]; [destruct (x =? 0) eqn:E|]; lia. }
  split.
  { unfold add_cancelled. apply good_buckets; try assumption; lia. }
  split; [exact Hr|]. split.
  { unfold red. destruct (so_red o) as [x|]; [destruct (x =? 0)|]; lia. }
  unfold add_cancelled, upd_buckets, remaining. cbn. rewrite T. repeat split; lia.
Qed.

(* lapse on suspension with a material change (version) for a LAPSE-persistence order: everything left lapses *)
Theorem suspension_lapses tb c b r tr o : good o -> so_bsp o = true \/ b_bsp_rec b = false ->
  so_mver o <> Some (b_version b) -> b_status b = MSuspended -> so_persist o = PLapse ->
  let '(o', tr', done) := on_book tb c b r tr o in
  tr' = tr /\ done = false /\ remaining o' = 0 /\ so_lapsed o' = so_lapsed o + remaining o /\
  so_matched o' = so_matched o /\ so_cancelled o' = so_cancelled o /\ so_voided o' = so_voided o /\ so_frags o' = so_frags o.
Proof.
  intros Hg Hb Hv Hs Hp. pose proof Hg as (T & _). unfold on_book.
  assert (E : (negb (so_bsp o) && b_bsp_rec b) = false) by (destruct Hb as [-> | ->]; [reflexivity|apply andb_false_r]).
  rewrite E. rewrite T.
  assert (Ev : negb (opt_eqb Z.eqb (so_mver o) (Some (b_version b))) = true).
  { destruct (so_mver o) as [v|]; cbn; [|reflexivity]. destruct (v =? b_version b) eqn:Ee; [exfalso; apply Hv; f_equal; lia|reflexivity]. }
  rewrite Ev, Hs. cbn [mstatus_eqb andb].
  change (so_persist (upd_sim o (Some (b_version b)) (so_piq2 o) (so_bsp o))) with (so_persist o). rewrite Hp. cbn [persist_eqb].
  unfold add_lapsed, upd_buckets, upd_sim, remaining. cbn. rewrite T. repeat split; lia.
Qed.

(* ---- C09 / C04: runner removal ---- *)
(* void of a bet on the removed runner, for an order with nothing cancelled or lapsed: complete void *)
Theorem removal_voids tb mt b rsel adj min_adj o : so_sel o = rsel -> so_type o = TLimit ->
  exists o', removal_order tb mt b rsel adj min_adj o = Some o' /\
    so_matched o' = 0 /\ so_frags o' = [] /\ so_avg o' = 0 /\ so_voided o' = so_size o /\
    remaining o' = - (so_cancelled o + so_lapsed o) /\ so_cancelled o' = so_cancelled o /\ so_lapsed o' = so_lapsed o.
Proof.
  intros Hs Ht. unfold removal_order. rewrite Hs, Z.eqb_refl. eexists. split; [reflexivity|].
  unfold upd_buckets, remaining, set_frags. cbn. rewrite Ht. repeat split; lia.
Qed.

Corollary removal_voids_clean tb mt b rsel adj min_adj o : so_sel o = rsel -> so_type o = TLimit ->
  so_cancelled o = 0 -> so_lapsed o = 0 ->
  exists o', removal_order tb mt b rsel adj min_adj o = Some o' /\ remaining o' = 0 /\ so_matched o' = 0 /\ so_voided o' = so_size o.
Proof.
  intros Hs Ht Hc Hl. destruct (removal_voids tb mt b rsel adj min_adj o Hs Ht) as [o' (E & M & F & A & V & R & _)].
  exists o'. repeat split; try assumption. lia.
Qed.

(* reduction of the fills on the other runners: price' = max(round(price (1 - f/100), 2), 1.01) when f >= 2.5,
   unchanged when f is absent, zero or below the threshold; sizes never change *)
Theorem removal_reduces tb mt b rsel adj min_adj o :
  so_sel o <> rsel -> (so_type o <> TMoc \/ so_side o = Back) ->
  exists o', removal_order tb mt b rsel adj min_adj o = Some o' /\
    so_matched o' = so_matched o /\ map f_size (so_frags o') = map f_size (so_frags o) /\ map f_pt (so_frags o') = map f_pt (so_frags o) /\
    map f_price (so_frags o') =
      (match adj with
       | Some a => if negb (a =? 0) && (min_adj <=? a) then map (fun f => reduce_price tb (f_price f) a) (so_frags o) else map f_price (so_frags o)
       | None => map f_price (so_frags o)
       end) /\
    so_cancelled o' = so_cancelled o /\ so_lapsed o' = so_lapsed o /\ so_voided o' = so_voided o /\ so_size o' = so_size o.
Proof.
  intros Hs Hk. unfold removal_order. replace (so_sel o =? rsel) with false by lia.
  assert (Hnot : match so_type o, so_side o with TMoc, Lay => False | _, _ => True end).
  { destruct Hk as [Hk|Hk]; destruct (so_type o), (so_side o); try exact I; congruence. }
  assert (ID : exists o', Some o = Some o' /\ so_matched o' = so_matched o /\ map f_size (so_frags o') = map f_size (so_frags o) /\
            map f_pt (so_frags o') = map f_pt (so_frags o) /\ map f_price (so_frags o') = map f_price (so_frags o) /\
            so_cancelled o' = so_cancelled o /\ so_lapsed o' = so_lapsed o /\ so_voided o' = so_voided o /\ so_size o' = so_size o)
    by (exists o; repeat split; reflexivity).
  destruct (so_type o) eqn:Et, (so_side o) eqn:Es; try contradiction;
    (destruct adj as [a|]; [|exact ID]; destruct (negb (a =? 0) && (min_adj <=? a)); [|exact ID];
     eexists; split; [reflexivity|];
     destruct (set_frags_fields tb o (map (fun f => {| f_pt := f_pt f; f_price := reduce_price tb (f_price f) a; f_size := f_size f |}) (so_frags o)))
       as (F&S&C&L&V&T&P&Sd&M&A);
     cbn; rewrite !map_map; cbn; rewrite ?C, ?L, ?V, ?S; repeat split; reflexivity).
Qed.

Theorem reduce_price_spec tb p a : 0 <= a <= 10000 -> 0 < p ->
  10100 <= reduce_price tb p a /\ (reduce_price tb p a = 10100 \/ Z.abs (2 * (10000 * reduce_price tb p a - p * (10000 - a))) <= 1000000).
Proof.
  intros Ha Hp. unfold reduce_price. rewrite zmax_spec. split; [lia|].
  destruct (Z_le_gt_dec (100 * rnd tb (p * (10000 - a)) 1000000) 10100) as [H|H]; [left; lia|right].
  replace (Z.max (100 * rnd tb (p * (10000 - a)) 1000000) 10100) with (100 * rnd tb (p * (10000 - a)) 1000000) by lia.
  pose proof (rnd_half tb (p * (10000 - a)) 1000000 ltac:(lia)). lia.
Qed.

(* market-on-close LAY liabilities on the other runners: the exchange's non-runner formula, unrounded *)
Theorem removal_scales_moc_lay tb mt b rsel a min_adj o r :
  so_sel o <> rsel -> so_type o = TMoc -> so_side o = Lay ->
  find_runner b (so_sel o) = Some r -> a <> 0 ->
  let ra := match r_adj r with Some x => x | None => 0 end in
  exists o', removal_order tb mt b rsel (Some a) min_adj o = Some o' /\
    (match mt with
     | MWin => so_liab_n o' = so_liab_n o * (10000 - ra - a) /\ so_liab_d o' = so_liab_d o * (10000 - ra)
     | MPlace | MOtherPlace => so_liab_n o' = so_liab_n o * (10000 - a) /\ so_liab_d o' = so_liab_d o * 10000
     | _ => o' = o
     end).
Proof.
  intros Hs Ht Hsd Hr Ha. cbv zeta. unfold removal_order. replace (so_sel o =? rsel) with false by lia.
  rewrite Ht, Hsd, Hr. replace (a =? 0) with false by lia. destruct mt; eexists; (split; [reflexivity|]); cbn; try split; reflexivity.
Qed.
(* without an adjustment factor (None or 0) there is nothing to reduce: the order is left as it is (repair of F-C09-2: the Python used to
   raise a TypeError inside the middleware, which skipped the matching of that update) *)
Theorem removal_without_factor_keeps_moc_lay tb mt b rsel adj min_adj o :
  so_sel o <> rsel -> so_type o = TMoc -> so_side o = Lay -> adj = None \/ adj = Some 0 -> removal_order tb mt b rsel adj min_adj o = Some o.
Proof.
  intros Hs Ht Hsd Ha. unfold removal_order. replace (so_sel o =? rsel) with false by lia. rewrite Ht, Hsd. destruct Ha as [->| ->]; reflexivity.
Qed.

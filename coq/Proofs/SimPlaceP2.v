(* SimPlaceP2.v — C05 at the level of SimulatedOrder.place. *)
From Coq Require Import ZArith List Bool Lia ZifyBool.
From V Require Import Model.Num Model.Status Model.Sim Proofs.NumP Proofs.SimPlaceP.
Open Scope Z_scope.

Definition wf_ladder (l : list (Z * Z)) : Prop := Forall (fun ps => 0 < fst ps /\ 0 < snd ps) l.
Definition minfill_of (o : sorder) : Z :=
  match so_minfill o with Some m => if m =? 0 then so_size o else m | None => so_size o end.

Lemma rem_add_cancelled o : so_type o = TLimit -> remaining (add_cancelled o (remaining o)) = 0.
Proof. intros H. unfold remaining, add_cancelled, upd_buckets. cbn. rewrite H. lia. Qed.
Lemma rem_add_lapsed o : so_type o = TLimit -> remaining (add_lapsed o (remaining o)) = 0.
Proof. intros H. unfold remaining, add_lapsed, upd_buckets. cbn. rewrite H. lia. Qed.
Lemma rem_add_voided o : so_type o = TLimit -> remaining (add_voided o (remaining o)) = 0.
Proof. intros H. unfold remaining, add_voided, upd_buckets. cbn. rewrite H. lia. Qed.

Lemma place_resp_done tb c o s : remaining o = 0 -> place_resp tb c o s = (o, s).
Proof. intros H. unfold place_resp. rewrite H. cbn. rewrite !andb_false_r. reflexivity. Qed.

Lemma upd_sim_fields o mv p b :
  so_frags (upd_sim o mv p b) = so_frags o /\ so_matched (upd_sim o mv p b) = so_matched o /\
  so_type (upd_sim o mv p b) = so_type o /\ remaining (upd_sim o mv p b) = remaining o /\
  so_size (upd_sim o mv p b) = so_size o /\ so_cancelled (upd_sim o mv p b) = so_cancelled o /\
  so_lapsed (upd_sim o mv p b) = so_lapsed o /\ so_voided (upd_sim o mv p b) = so_voided o /\
  so_price (upd_sim o mv p b) = so_price o /\ so_side (upd_sim o mv p b) = so_side o /\ so_avg (upd_sim o mv p b) = so_avg o.
Proof. unfold upd_sim, remaining. cbn. repeat split; reflexivity. Qed.

Lemma buckets_fields o c l v :
  so_frags (upd_buckets o c l v) = so_frags o /\ so_matched (upd_buckets o c l v) = so_matched o /\
  so_type (upd_buckets o c l v) = so_type o /\ so_avg (upd_buckets o c l v) = so_avg o /\ so_size (upd_buckets o c l v) = so_size o.
Proof. unfold upd_buckets. cbn. repeat split; reflexivity. Qed.

Lemma add_fills_type tb pt : forall fs o, so_type (add_fills tb pt o fs) = so_type o /\ so_size (add_fills tb pt o fs) = so_size o
   /\ so_cancelled (add_fills tb pt o fs) = so_cancelled o /\ so_lapsed (add_fills tb pt o fs) = so_lapsed o /\ so_voided (add_fills tb pt o fs) = so_voided o.
Proof.
  induction fs as [|ps fs IH]; intros o; cbn [add_fills fold_left]; [repeat split; reflexivity|].
  fold (add_fills tb pt (add_frag tb o pt (fst ps) (snd ps)) fs).
  destruct (IH (add_frag tb o pt (fst ps) (snd ps))) as (A&B&C&D&E). unfold add_frag in *.
  destruct (set_frags_fields tb o (so_frags o ++ [{| f_pt := pt; f_price := fst ps; f_size := snd ps |}])) as (_&S&Cc&L&V&T&_).
  rewrite A, B, C, D, E, T, S, Cc, L, V. repeat split; reflexivity.
Qed.

Lemma add_fills_last tb pt : forall fs o, fs <> [] ->
  so_matched (add_fills tb pt o fs) = fst (wap tb (so_frags (add_fills tb pt o fs))) /\
  so_avg (add_fills tb pt o fs) = snd (wap tb (so_frags (add_fills tb pt o fs))).
Proof.
  induction fs as [|ps fs IH]; intros o Hne; [congruence|]. cbn [add_fills fold_left].
  fold (add_fills tb pt (add_frag tb o pt (fst ps) (snd ps)) fs).
  destruct fs as [|qs fs'].
  - cbn [add_fills fold_left]. unfold add_frag.
    destruct (set_frags_fields tb o (so_frags o ++ [{| f_pt := pt; f_price := fst ps; f_size := snd ps |}])) as (F&_&_&_&_&_&_&_&M&A).
    rewrite F, M, A. split; reflexivity.
  - apply IH. discriminate.
Qed.

Lemma add_fills_matched tb pt fs o : so_frags o = [] -> so_matched o = 0 -> Forall (fun ps => 0 < fst ps /\ 0 < snd ps) fs ->
  so_matched (add_fills tb pt o fs) = sumZ (map snd fs).
Proof.
  intros Hf Hm Hpos. destruct fs as [|ps fs]; [cbn; exact Hm|].
  destruct (add_fills_last tb pt (ps :: fs) o ltac:(discriminate)) as [M _]. rewrite M.
  rewrite add_fills_frags, Hf. cbn [app]. rewrite wap_matched.
  - unfold frag_sum. rewrite map_map. reflexivity.
  - unfold frags_pos. rewrite Forall_forall in *. intros f Hin. apply in_map_iff in Hin as [qs [<- Hq]]. cbn. specialize (Hpos qs Hq). lia.
Qed.

Lemma fills_pos sd price : forall avail rem, 0 <= rem -> wf_ladder avail ->
  Forall (fun ps => 0 < fst ps /\ 0 < snd ps) (fills sd price rem avail).
Proof.
  induction avail as [|[ap asz] r IH]; intros rem Hrem Hwf; cbn [fills]; [constructor|].
  inversion Hwf as [|? ? [Hp Hs] Hr]; subst. cbn in Hp, Hs.
  destruct (rem =? 0) eqn:E0; [constructor|].
  destruct (match sd with Back => price <=? ap | Lay => ap <=? price end); [|constructor].
  rewrite zmax_spec. constructor.
  - cbn. split; [lia|]. destruct (Z.max (rem - asz) 0 =? 0) eqn:E; lia.
  - apply IH; [lia|exact Hr].
Qed.

(* C05.4: a fill-or-kill order is filled by at least its minimum fill size or not at all, and never rests *)
Theorem fok_all_or_nothing tb c ms b mv o r :
  fresh o -> so_fok o = true -> so_repl o = false -> find_runner b (so_sel o) = Some r ->
  wf_ladder (r_atb r) -> wf_ladder (r_atl r) ->
  let o' := fst (sim_place tb c ms b mv o) in
  remaining o' = 0 /\ (so_matched o' = 0 \/ minfill_of o <= so_matched o').
Proof.
  intros Hfresh Hfok Hrepl Hr Wb Wl. pose proof Hfresh as (Hf & Hm & Ha & Hc & Hl & Hv & Ht & Hs).
  cbv zeta. unfold sim_place.
  assert (R0 : forall x, so_type x = TLimit -> so_matched x = 0 ->
               remaining (fst (place_resp tb c (add_voided x (remaining x)) false)) = 0 /\
               so_matched (fst (place_resp tb c (add_voided x (remaining x)) false)) = 0).
  { intros x Tx Mx. rewrite place_resp_done by (apply rem_add_voided; exact Tx). cbn [fst].
    split; [apply rem_add_voided; exact Tx|]. unfold add_voided. destruct (buckets_fields x (so_cancelled x) (so_lapsed x) (so_voided x + remaining x)) as (_&M&_). rewrite M. exact Mx. }
  assert (R1 : forall x s, so_type x = TLimit -> so_matched x = 0 ->
               remaining (fst (place_resp tb c (add_lapsed x (remaining x)) s)) = 0 /\
               so_matched (fst (place_resp tb c (add_lapsed x (remaining x)) s)) = 0).
  { intros x s Tx Mx. rewrite place_resp_done by (apply rem_add_lapsed; exact Tx). cbn [fst].
    split; [apply rem_add_lapsed; exact Tx|]. unfold add_lapsed. destruct (buckets_fields x (so_cancelled x) (so_lapsed x + remaining x) (so_voided x)) as (_&M&_). rewrite M. exact Mx. }
  assert (R2 : forall x s, so_type x = TLimit ->
               remaining (fst (place_resp tb c (add_cancelled x (remaining x)) s)) = 0 /\
               so_matched (fst (place_resp tb c (add_cancelled x (remaining x)) s)) = so_matched x).
  { intros x s Tx. rewrite place_resp_done by (apply rem_add_cancelled; exact Tx). cbn [fst].
    split; [apply rem_add_cancelled; exact Tx|]. unfold add_cancelled. destruct (buckets_fields x (so_cancelled x + remaining x) (so_lapsed x) (so_voided x)) as (_&M&_). exact M. }
  destruct (negb (mstatus_eqb (b_status b) MOpen)).
  { destruct (R0 o Ht Hm) as [A B]. split; [exact A|left; exact B]. }
  set (o1 := upd_sim o (Some (b_version b)) (so_piq2 o) (so_bsp o)).
  destruct (upd_sim_fields o (Some (b_version b)) (so_piq2 o) (so_bsp o)) as (F1&M1&T1&Rm1&S1&C1&L1&V1&P1&Sd1&A1). fold o1 in F1, M1, T1, Rm1, S1, C1, L1, V1, P1, Sd1, A1.
  assert (Hsel : so_sel o1 = so_sel o) by reflexivity. assert (Hty : so_type o1 = TLimit) by congruence.
  assert (Hm1 : so_matched o1 = 0) by congruence.
  destruct (match mv with Some v => negb (v =? 0) && negb (v =? b_version b) | None => false end).
  { destruct (R1 o1 false Hty Hm1) as [A B]. split; [exact A|left; exact B]. }
  rewrite Hsel, Hr.
  destruct (match r_status r with RRemoved => true | _ => false end).
  { destruct (R0 o1 Hty Hm1) as [A B]. split; [exact A|left; exact B]. }
  rewrite Hty.
  assert (Hfk : so_fok o1 = true) by (unfold o1, upd_sim; cbn; exact Hfok).
  assert (Hrp : so_repl o1 = false) by (unfold o1, upd_sim; cbn; exact Hrepl).
  assert (Hmf : so_minfill o1 = so_minfill o) by reflexivity.
  rewrite Hfk, Hrp. cbn [negb andb]. rewrite Hmf, S1.
  fold (minfill_of o). set (mf := minfill_of o).
  destruct (so_size o <? mf) eqn:Esz.
  { destruct (R2 o1 false Hty) as [A B]. split; [exact A|left; congruence]. }
  assert (Fr1 : so_frags o1 = []) by congruence.
  rewrite P1, Sd1.
  (* common tail for the three fill-or-kill sub-branches, given the order after matching *)
  assert (TAIL : forall x s, so_type x = TLimit -> (so_matched x = 0 \/ mf <= so_matched x) ->
            remaining (fst (place_resp tb c (add_cancelled x (remaining x)) s)) = 0 /\
            (so_matched (fst (place_resp tb c (add_cancelled x (remaining x)) s)) = 0 \/
             mf <= so_matched (fst (place_resp tb c (add_cancelled x (remaining x)) s)))).
  { intros x s Tx Hx. destruct (R2 x s Tx) as [A B]. split; [exact A|rewrite B; exact Hx]. }
  assert (PM : forall sd avail, wf_ladder avail -> avail <> [] ->
            (match sd with Back => so_price o <=? fst (hd (0,0) avail) | Lay => fst (hd (0,0) avail) <=? so_price o end) = true ->
            mf <= first_size avail ->
            so_type (price_matched tb (b_pt b) sd (so_price o) (so_size o) avail o1) = TLimit /\
            mf <= so_matched (price_matched tb (b_pt b) sd (so_price o) (so_size o) avail o1)).
  { intros sd avail Wa Hne Hcond Hfs. rewrite price_matched_is_fills.
    destruct (add_fills_type tb (b_pt b) (fills sd (so_price o) (so_size o) avail) o1) as (Tt&_).
    split; [congruence|].
    rewrite add_fills_matched by (assumption || apply fills_pos; (lia || assumption)).
    destruct avail as [|[ap asz] rr]; [congruence|]. cbn [hd fst] in Hcond. cbn [first_size] in Hfs.
    inversion Wa as [|? ? [Hp Hz] Wr]; subst. cbn in Hp, Hz.
    cbn [fills]. replace (so_size o =? 0) with false by lia. rewrite Hcond. cbn [map sumZ snd].
    pose proof (fills_total sd (so_price o) rr (zmax (so_size o - asz) 0) ltac:(rewrite zmax_spec; lia)
                 ltac:(unfold wf_ladder in Wr; rewrite Forall_forall in *; intros x Hx; apply Wr; exact Hx)) as Ht2.
    rewrite zmax_spec in *. destruct (Z.max (so_size o - asz) 0 =? 0) eqn:E; lia. }
  destruct (so_side o).
  - (* BACK *)
    destruct (negb (c_bpe c) && (so_price o <? first_price (r_atb r) 10100)).
    { destruct (R1 o1 false Hty Hm1) as [A B]. split; [exact A|left; exact B]. }
    destruct (first_price (r_atb r) 10100 <? so_price o).
    { apply TAIL; [exact Hty|left; exact Hm1]. }
    destruct (so_price o =? first_price (r_atb r) 10100) eqn:Eeq.
    + destruct (mf <=? first_size (r_atb r)) eqn:Efs.
      * destruct (r_atb r) as [|[ap asz] rr] eqn:Eatb; [cbn [price_matched]; apply TAIL; [exact Hty|left; exact Hm1]|].
        assert (Hcond : (so_price o <=? fst (hd (0,0) ((ap, asz) :: rr))) = true).
        { cbn [hd fst]. cbn [first_price] in Eeq. inversion Wb as [|? ? [Hp _] _]; subst. cbn in Hp. replace (ap =? 0) with false in Eeq by lia. lia. }
        destruct (PM Back ((ap, asz) :: rr) Wb ltac:(discriminate) Hcond ltac:(lia)) as [Tt Mm].
        apply TAIL; [exact Tt|right; exact Mm].
      * apply TAIL; [exact Hty|left; exact Hm1].
    + assert (Fo1 : fresh o1) by (unfold fresh; repeat split; congruence).
      pose proof (vwap_all_or_nothing tb (b_pt b) Back (so_price o) (so_size o) (r_atb r) mf o1 Fo1) as Hv2. cbv zeta in Hv2.
      apply TAIL.
      * unfold vwap_matched. destruct (so_matched (vwap_loop tb (b_pt b) Back (so_price o) (so_size o) (r_atb r) o1) <? mf).
        -- unfold add_cancelled. destruct (buckets_fields (set_frags tb (vwap_loop tb (b_pt b) Back (so_price o) (so_size o) (r_atb r) o1) [])
              (so_cancelled (set_frags tb (vwap_loop tb (b_pt b) Back (so_price o) (so_size o) (r_atb r) o1) []) + remaining (set_frags tb (vwap_loop tb (b_pt b) Back (so_price o) (so_size o) (r_atb r) o1) []))
              (so_lapsed (set_frags tb (vwap_loop tb (b_pt b) Back (so_price o) (so_size o) (r_atb r) o1) []))
              (so_voided (set_frags tb (vwap_loop tb (b_pt b) Back (so_price o) (so_size o) (r_atb r) o1) []))) as (_&_&Tt&_).
           rewrite Tt. destruct (set_frags_fields tb (vwap_loop tb (b_pt b) Back (so_price o) (so_size o) (r_atb r) o1) []) as (_&_&_&_&_&Tt2&_). rewrite Tt2.
           clear - Hty. revert Hty. generalize (so_size o). generalize o1. induction (r_atb r) as [|[ap asz] rr IH]; intros x sz Tx; cbn [vwap_loop]; [exact Tx|].
           destruct (sz =? 0); [exact Tx|].
           destruct (so_price o <=? snd (wap tb (so_frags x ++ [{| f_pt := b_pt b; f_price := ap; f_size := if zmax (sz - asz) 0 =? 0 then sz else asz |}]))); [|exact Tx].
           apply IH. unfold add_frag. destruct (set_frags_fields tb x (so_frags x ++ [{| f_pt := b_pt b; f_price := ap; f_size := if zmax (sz - asz) 0 =? 0 then sz else asz |}])) as (_&_&_&_&_&Tt&_). congruence.
        -- clear - Hty. revert Hty. generalize (so_size o). generalize o1. induction (r_atb r) as [|[ap asz] rr IH]; intros x sz Tx; cbn [vwap_loop]; [exact Tx|].
           destruct (sz =? 0); [exact Tx|].
           destruct (so_price o <=? snd (wap tb (so_frags x ++ [{| f_pt := b_pt b; f_price := ap; f_size := if zmax (sz - asz) 0 =? 0 then sz else asz |}]))); [|exact Tx].
           apply IH. unfold add_frag. destruct (set_frags_fields tb x (so_frags x ++ [{| f_pt := b_pt b; f_price := ap; f_size := if zmax (sz - asz) 0 =? 0 then sz else asz |}])) as (_&_&_&_&_&Tt&_). congruence.
      * destruct Hv2 as [[_ Hz]|[Hge _]]; [left; exact Hz|right; exact Hge].
  - (* LAY *)
    destruct (negb (c_bpe c) && (first_price (r_atl r) 10000000 <? so_price o)).
    { destruct (R1 o1 false Hty Hm1) as [A B]. split; [exact A|left; exact B]. }
    destruct (so_price o <? first_price (r_atl r) 10000000).
    { apply TAIL; [exact Hty|left; exact Hm1]. }
    destruct (so_price o =? first_price (r_atl r) 10000000) eqn:Eeq.
    + destruct (mf <=? first_size (r_atl r)) eqn:Efs.
      * destruct (r_atl r) as [|[ap asz] rr] eqn:Eatl; [cbn [price_matched]; apply TAIL; [exact Hty|left; exact Hm1]|].
        assert (Hcond : (fst (hd (0,0) ((ap, asz) :: rr)) <=? so_price o) = true).
        { cbn [hd fst]. cbn [first_price] in Eeq. inversion Wl as [|? ? [Hp _] _]; subst. cbn in Hp. replace (ap =? 0) with false in Eeq by lia. lia. }
        destruct (PM Lay ((ap, asz) :: rr) Wl ltac:(discriminate) Hcond ltac:(lia)) as [Tt Mm].
        apply TAIL; [exact Tt|right; exact Mm].
      * apply TAIL; [exact Hty|left; exact Hm1].
    + assert (Fo1 : fresh o1) by (unfold fresh; repeat split; congruence).
      pose proof (vwap_all_or_nothing tb (b_pt b) Lay (so_price o) (so_size o) (r_atl r) mf o1 Fo1) as Hv2. cbv zeta in Hv2.
      apply TAIL.
      * unfold vwap_matched. destruct (so_matched (vwap_loop tb (b_pt b) Lay (so_price o) (so_size o) (r_atl r) o1) <? mf).
        -- unfold add_cancelled. destruct (buckets_fields (set_frags tb (vwap_loop tb (b_pt b) Lay (so_price o) (so_size o) (r_atl r) o1) [])
              (so_cancelled (set_frags tb (vwap_loop tb (b_pt b) Lay (so_price o) (so_size o) (r_atl r) o1) []) + remaining (set_frags tb (vwap_loop tb (b_pt b) Lay (so_price o) (so_size o) (r_atl r) o1) []))
              (so_lapsed (set_frags tb (vwap_loop tb (b_pt b) Lay (so_price o) (so_size o) (r_atl r) o1) []))
              (so_voided (set_frags tb (vwap_loop tb (b_pt b) Lay (so_price o) (so_size o) (r_atl r) o1) []))) as (_&_&Tt&_).
           rewrite Tt. destruct (set_frags_fields tb (vwap_loop tb (b_pt b) Lay (so_price o) (so_size o) (r_atl r) o1) []) as (_&_&_&_&_&Tt2&_). rewrite Tt2.
           clear - Hty. revert Hty. generalize (so_size o). generalize o1. induction (r_atl r) as [|[ap asz] rr IH]; intros x sz Tx; cbn [vwap_loop]; [exact Tx|].
           destruct (sz =? 0); [exact Tx|].
           destruct (snd (wap tb (so_frags x ++ [{| f_pt := b_pt b; f_price := ap; f_size := if zmax (sz - asz) 0 =? 0 then sz else asz |}])) <=? so_price o); [|exact Tx].
           apply IH. unfold add_frag. destruct (set_frags_fields tb x (so_frags x ++ [{| f_pt := b_pt b; f_price := ap; f_size := if zmax (sz - asz) 0 =? 0 then sz else asz |}])) as (_&_&_&_&_&Tt&_). congruence.
        -- clear - Hty. revert Hty. generalize (so_size o). generalize o1. induction (r_atl r) as [|[ap asz] rr IH]; intros x sz Tx; cbn [vwap_loop]; [exact Tx|].
           destruct (sz =? 0); [exact Tx|].
           destruct (snd (wap tb (so_frags x ++ [{| f_pt := b_pt b; f_price := ap; f_size := if zmax (sz - asz) 0 =? 0 then sz else asz |}])) <=? so_price o); [|exact Tx].
           apply IH. unfold add_frag. destruct (set_frags_fields tb x (so_frags x ++ [{| f_pt := b_pt b; f_price := ap; f_size := if zmax (sz - asz) 0 =? 0 then sz else asz |}])) as (_&_&_&_&_&Tt&_). congruence.
      * destruct Hv2 as [[_ Hz]|[Hge _]]; [left; exact Hz|right; exact Hge].
Qed.

(* C05.1 + C05.3 for an ordinary (non fill-or-kill) limit order: the fragments created on arrival are
   exactly the prefix of the opposing ladder at prices at or better than the limit, each no larger
   than the level, in total no more than the order's size *)
Theorem place_fills_from_book tb c ms b mv o r :
  fresh o -> (so_fok o && negb (so_repl o)) = false -> c_full c = false -> find_runner b (so_sel o) = Some r ->
  wf_ladder (r_atb r) -> wf_ladder (r_atl r) ->
  let o' := fst (sim_place tb c ms b mv o) in
  let avail := match so_side o with Back => r_atb r | Lay => r_atl r end in
  exists fs, so_frags o' = map (fun ps => {| f_pt := b_pt b; f_price := fst ps; f_size := snd ps |}) fs /\
    Forall (fun ps => match so_side o with Back => so_price o <= fst ps | Lay => fst ps <= so_price o end) fs /\
    Forall2 (fun f lv => fst f = fst lv /\ 0 < snd f <= snd lv) fs (firstn (length fs) avail) /\
    0 <= sumZ (map snd fs) <= so_size o.
Proof.
  intros Hfresh Hfok Hfull Hr Wb Wl. pose proof Hfresh as (Hf & Hm & Ha & Hc & Hl & Hv & Ht & Hs).
  cbv zeta. unfold sim_place.
  assert (NOFILL : forall x s, so_frags x = [] ->
     exists fs, so_frags (fst (place_resp tb c x s)) = map (fun ps => {| f_pt := b_pt b; f_price := fst ps; f_size := snd ps |}) fs /\
       Forall (fun ps => match so_side o with Back => so_price o <= fst ps | Lay => fst ps <= so_price o end) fs /\
       Forall2 (fun f lv => fst f = fst lv /\ 0 < snd f <= snd lv) fs (firstn (length fs) (match so_side o with Back => r_atb r | Lay => r_atl r end)) /\
       0 <= sumZ (map snd fs) <= so_size o).
  { intros x s Fx. exists []. unfold place_resp. rewrite Hfull. cbn [andb fst map]. split; [exact Fx|].
    split; [constructor|]. split; [constructor|]. simpl. lia. }
  assert (BK : forall x c0 l0 v0, so_frags (upd_buckets x c0 l0 v0) = so_frags x) by (intros; reflexivity).
  destruct (negb (mstatus_eqb (b_status b) MOpen)); [apply NOFILL; unfold add_voided; rewrite BK; exact Hf|].
  set (o1 := upd_sim o (Some (b_version b)) (so_piq2 o) (so_bsp o)).
  destruct (upd_sim_fields o (Some (b_version b)) (so_piq2 o) (so_bsp o)) as (F1&M1&T1&Rm1&S1&C1&L1&V1&P1&Sd1&A1). fold o1 in F1, M1, T1, Rm1, S1, C1, L1, V1, P1, Sd1, A1.
  assert (Fr1 : so_frags o1 = []) by congruence.
  destruct (match mv with Some v => negb (v =? 0) && negb (v =? b_version b) | None => false end);
    [apply NOFILL; unfold add_lapsed; rewrite BK; exact Fr1|].
  change (so_sel o1) with (so_sel o). rewrite Hr.
  destruct (match r_status r with RRemoved => true | _ => false end); [apply NOFILL; unfold add_voided; rewrite BK; exact Fr1|].
  replace (so_type o1) with TLimit by congruence.
  change (so_fok o1) with (so_fok o). change (so_repl o1) with (so_repl o). rewrite Hfok. cbn [andb].
  rewrite P1, S1, Sd1.
  assert (MATCH : forall sd, sd = so_side o ->
     exists fs, so_frags (fst (place_resp tb c (price_matched tb (b_pt b) sd (so_price o) (so_size o) (match sd with Back => r_atb r | Lay => r_atl r end) o1) true)) =
                map (fun ps => {| f_pt := b_pt b; f_price := fst ps; f_size := snd ps |}) fs /\
       Forall (fun ps => match so_side o with Back => so_price o <= fst ps | Lay => fst ps <= so_price o end) fs /\
       Forall2 (fun f lv => fst f = fst lv /\ 0 < snd f <= snd lv) fs (firstn (length fs) (match so_side o with Back => r_atb r | Lay => r_atl r end)) /\
       0 <= sumZ (map snd fs) <= so_size o).
  { intros sd ->. set (avail := match so_side o with Back => r_atb r | Lay => r_atl r end).
    assert (Wa : wf_ladder avail) by (unfold avail; destruct (so_side o); assumption).
    exists (fills (so_side o) (so_price o) (so_size o) avail).
    unfold place_resp. rewrite Hfull. cbn [andb fst]. rewrite price_matched_is_fills, add_fills_frags, Fr1. cbn [app].
    split; [reflexivity|]. split; [apply fills_respect_limit|].
    assert (Wa' : Forall (fun ps => 0 < snd ps) avail) by (unfold wf_ladder in Wa; rewrite Forall_forall in *; intros x Hx; apply Wa; exact Hx).
    split; [apply fills_within_levels; [lia|exact Wa']|apply fills_total; [lia|exact Wa']]. }
  destruct (so_side o) eqn:Eside.
  - destruct (negb (c_bpe c) && (so_price o <? first_price (r_atb r) 10100)); [apply NOFILL; unfold add_lapsed; rewrite BK; exact Fr1|].
    destruct (so_price o <=? first_price (r_atb r) 10100); [apply (MATCH Back eq_refl)|].
    apply NOFILL. destruct (piq_of (so_price o) (r_atl r)); exact Fr1.
  - destruct (negb (c_bpe c) && (first_price (r_atl r) 10000000 <? so_price o)); [apply NOFILL; unfold add_lapsed; rewrite BK; exact Fr1|].
    destruct (first_price (r_atl r) 10000000 <=? so_price o); [apply (MATCH Lay eq_refl)|].
    apply NOFILL. destruct (piq_of (so_price o) (r_atb r)); exact Fr1.
Qed.

(* C05.5: with best-price execution disabled, an order priced through the best available price lapses *)
Theorem bpe_off_lapses tb c ms b mv o r :
  fresh o -> c_bpe c = false -> b_status b = MOpen ->
  (match mv with Some v => negb (v =? 0) && negb (v =? b_version b) | None => false end) = false ->
  find_runner b (so_sel o) = Some r -> r_status r = RActive ->
  (so_fok o && negb (so_repl o) && (so_size o <? minfill_of o)) = false ->
  (match so_side o with Back => so_price o < first_price (r_atb r) 10100 | Lay => first_price (r_atl r) 10000000 < so_price o end) ->
  let res := sim_place tb c ms b mv o in
  snd res = false /\ so_frags (fst res) = [] /\ so_matched (fst res) = 0 /\ so_lapsed (fst res) = so_size o /\ remaining (fst res) = 0.
Proof.
  intros Hfresh Hbpe Hopen Hmv Hr Hact Hmf Hbest. pose proof Hfresh as (Hf & Hm & Ha & Hc & Hl & Hv & Ht & Hs).
  set (o1 := upd_sim o (Some (b_version b)) (so_piq2 o) (so_bsp o)).
  destruct (upd_sim_fields o (Some (b_version b)) (so_piq2 o) (so_bsp o)) as (F1&M1&T1&Rm1&S1&C1&L1&V1&P1&Sd1&A1). fold o1 in F1, M1, T1, Rm1, S1, C1, L1, V1, P1, Sd1, A1.
  assert (E : sim_place tb c ms b mv o = (add_lapsed o1 (remaining o1), false)).
  { unfold sim_place. rewrite Hopen. cbn [mstatus_eqb negb]. fold o1. rewrite Hmv.
    change (so_sel o1) with (so_sel o). rewrite Hr. cbv beta iota. rewrite Hact. cbv beta iota.
    assert (Et : so_type o1 = TLimit) by congruence.
    destruct (so_type o1) eqn:Et2; [|discriminate|discriminate].
    change (so_fok o1) with (so_fok o). change (so_repl o1) with (so_repl o). change (so_minfill o1) with (so_minfill o).
    rewrite S1, P1, Sd1.
    assert (Hmf' : (so_fok o && negb (so_repl o) && (so_size o <? (if so_repl o then 0 else match so_minfill o with Some m => if m =? 0 then so_size o else m | None => so_size o end))) = false).
    { destruct (so_repl o) eqn:Er; [rewrite andb_false_r; reflexivity|]. exact Hmf. }
    rewrite Hmf'. rewrite Hbpe. cbn [negb andb].
    assert (LAPSE : place_resp tb c (add_lapsed o1 (remaining o1)) false = (add_lapsed o1 (remaining o1), false)).
    { apply place_resp_done. apply rem_add_lapsed. congruence. }
    destruct (so_side o).
    - replace (so_price o <? first_price (r_atb r) 10100) with true by lia. exact LAPSE.
    - replace (first_price (r_atl r) 10000000 <? so_price o) with true by lia. exact LAPSE. }
  cbv zeta. rewrite E. cbn [fst snd]. split; [reflexivity|].
  unfold add_lapsed, upd_buckets, remaining, o1, upd_sim. cbn. rewrite Ht.
  repeat split; try congruence; lia.
Qed.

(* C05 resting case: a passive fill produced by traded volume is at the order's own limit price *)
Theorem passive_fill_at_limit tb pt ts o :
  let o' := fst (calc_traded tb pt ts o) in
  exists ext, so_frags o' = so_frags o ++ ext /\ Forall (fun f => f_price f = so_price o /\ f_pt f = pt) ext.
Proof.
  cbv zeta. unfold calc_traded. destruct (so_piq2 o <? ts).
  - cbn [fst]. set (size := rnd tb (zmin (2 * remaining o) (ts - so_piq2 o)) 2).
    destruct (size =? 0).
    + exists []. rewrite app_nil_r. split; [reflexivity|constructor].
    + exists [{| f_pt := pt; f_price := so_price o; f_size := size |}]. split.
      * unfold add_frag. destruct (set_frags_fields tb o (so_frags o ++ [{| f_pt := pt; f_price := so_price o; f_size := size |}])) as [E _].
        cbn [upd_sim so_frags]. exact E.
      * constructor; [cbn; split; reflexivity|constructor].
  - exists []. rewrite app_nil_r. split; [reflexivity|constructor].
Qed.

(* SimNamesP.v — order names are unique per market in every reachable state of a run whose script uses every (market, name) once and
   only names below the first replacement name.  This is the hypothesis NoDup (map so_name orders) of the non-interference theorems
   (C13), discharged for whole runs. *)
From Coq Require Import ZArith List Bool Lia ZifyBool.
From V Require Import Model.Num Model.Status Model.Sim Model.SimLoop Proofs.NumP Proofs.SimPlaceP Proofs.SimPlaceP2 Proofs.SimIsolationP
     Proofs.SimRemovalsP Model.SimGuard Proofs.SimRunP.
Open Scope Z_scope.

Definition names (os : list sorder) : list Z := map so_name os.

(* ---------- name preservation of the order-level functions ---------- *)
Lemma nm_add_frag tb o pt p s : so_name (add_frag tb o pt p s) = so_name o.
Proof. pose proof (ns_add_frag tb o pt p s) as H. apply (f_equal fst) in H. exact H. Qed.
Lemma nm_set_frags tb o fr : so_name (set_frags tb o fr) = so_name o.
Proof. pose proof (ns_set_frags tb o fr) as H. apply (f_equal fst) in H. exact H. Qed.
Lemma nm_place_resp tb c o s : so_name (fst (place_resp tb c o s)) = so_name o.
Proof. unfold place_resp. destruct (c_full c && s && negb (remaining o =? 0)); [apply nm_add_frag|reflexivity]. Qed.
Lemma nm_price_matched tb pt sd price : forall avail rem o, so_name (price_matched tb pt sd price rem avail o) = so_name o.
Proof.
  induction avail as [|[ap asz] r IH]; intros rem o; cbn [price_matched]; [reflexivity|].
  destruct (rem =? 0); [reflexivity|]. destruct (match sd with Back => price <=? ap | Lay => ap <=? price end); [|reflexivity].
  rewrite IH. apply nm_add_frag.
Qed.
Lemma nm_vwap_loop tb pt sd price : forall avail rem o, so_name (vwap_loop tb pt sd price rem avail o) = so_name o.
Proof.
  induction avail as [|[ap asz] r IH]; intros rem o; cbn [vwap_loop]; [reflexivity|].
  destruct (rem =? 0); [reflexivity|]. cbv zeta. match goal with |- so_name (if ?c then _ else _) = _ => destruct c end; [|reflexivity].
  rewrite IH. apply nm_add_frag.
Qed.
Lemma nm_vwap_matched tb pt sd price size avail minfill o : so_name (vwap_matched tb pt sd price size avail minfill o) = so_name o.
Proof.
  unfold vwap_matched. destruct (so_matched (vwap_loop tb pt sd price size avail o) <? minfill); [|apply nm_vwap_loop].
  change (so_name (add_cancelled ?x _)) with (so_name x). rewrite nm_set_frags. apply nm_vwap_loop.
Qed.
Lemma nm_buckets o c l v : so_name (upd_buckets o c l v) = so_name o.
Proof. reflexivity. Qed.
Lemma nm_sim_place tb c ms b mv o : so_name (fst (sim_place tb c ms b mv o)) = so_name o.
Proof.
  unfold sim_place.
  destruct (negb (mstatus_eqb (b_status b) MOpen)); [rewrite nm_place_resp; reflexivity|].
  destruct (match mv with Some v => negb (v =? 0) && negb (v =? b_version b) | None => false end); [rewrite nm_place_resp; reflexivity|].
  destruct (find_runner b _) as [r|]; [|rewrite nm_place_resp; reflexivity].
  destruct (match r_status r with RRemoved => true | _ => false end); [rewrite nm_place_resp; reflexivity|].
  destruct (so_type _); [|destruct (negb (ms_bsp ms) || b_bsp_rec b || b_inplay b); rewrite nm_place_resp; reflexivity
                          |destruct (negb (ms_bsp ms) || b_bsp_rec b || b_inplay b); rewrite nm_place_resp; reflexivity].
  cbv zeta.
  repeat match goal with
         | |- so_name (fst (if ?c then _ else _)) = _ => destruct c
         | |- so_name (fst (match ?x with Back => _ | Lay => _ end)) = _ => destruct x
         end;
    rewrite nm_place_resp; unfold add_cancelled, add_lapsed, add_voided;
    repeat match goal with
           | |- context [if ?c then _ else _] => destruct c
           | |- context [match piq_of ?a ?b with _ => _ end] => destruct (piq_of a b)
           end;
    rewrite ?nm_buckets, ?nm_vwap_matched, ?nm_price_matched; reflexivity.
Qed.
Lemma nm_sim_cancel b o : so_name (fst (fst (sim_cancel b o))) = so_name o.
Proof. unfold sim_cancel. destruct (negb (mstatus_eqb (b_status b) MOpen)); [reflexivity|]. destruct (so_type o); reflexivity. Qed.
Lemma nm_reset_order cs now o : so_name (reset_order cs now o) = so_name o.
Proof. unfold reset_order. destruct (status_eqb (so_status o) SExecComplete); reflexivity. Qed.

Lemma nm_removal_order tb mt b rsel adj min_adj o o' : removal_order tb mt b rsel adj min_adj o = Some o' -> so_name o' = so_name o.
Proof.
  unfold removal_order. destruct (so_sel o =? rsel).
  - intros H. inversion H; subst. change (so_name (upd_buckets ?x _ _ _)) with (so_name x). apply nm_set_frags.
  - destruct (so_type o); destruct (so_side o); destruct adj as [a|];
      repeat match goal with
             | |- context [if ?c then _ else _] => destruct c
             | |- context [match ?mt0 with MWin => _ | _ => _ end] => destruct mt0
             | |- context [match find_runner ?x ?y with _ => _ end] => destruct (find_runner x y)
             end;
      intros H; inversion H; subst; try reflexivity;
      try (cbn [so_name]; apply nm_set_frags).
Qed.

(* ---------- list level ---------- *)
Lemma names_upd_order n f : (forall o, so_name (f o) = so_name o) -> forall os, names (upd_order n f os) = names os.
Proof.
  intros Hf. induction os as [|x r IH]; [reflexivity|]. cbn [upd_order]. destruct (so_name x =? n); cbn [names map]; [rewrite Hf; reflexivity|].
  f_equal. exact IH.
Qed.
Lemma names_put n o' os : so_name o' = n -> names (upd_order n (fun _ => o') os) = names os.
Proof.
  intros Hn. induction os as [|x r IH]; [reflexivity|]. cbn [upd_order]. destruct (so_name x =? n) eqn:E; cbn [names map]; [f_equal; lia|].
  f_equal. exact IH.
Qed.
Lemma names_apply_removal (f : sorder -> option sorder) : (forall o o', f o = Some o' -> so_name o' = so_name o) ->
  forall os, names (fst (apply_removal f os)) = names os.
Proof.
  intros Hf. induction os as [|o r IH]; [reflexivity|]. cbn [apply_removal]. destruct (f o) as [o'|] eqn:E; [|reflexivity].
  destruct (apply_removal f r) as [r' e]. cbn [fst names map] in *. rewrite (Hf o o' E). f_equal. exact IH.
Qed.
Lemma names_of_ns_eq os os' : map ns os' = map ns os -> names os' = names os.
Proof. intros H. unfold names. rewrite !names_of_ns, H. reflexivity. Qed.

Lemma names_process_sim_orders tb cf b ans os : names (process_sim_orders tb cf b ans os) = names os.
Proof.
  apply names_of_ns_eq. unfold process_sim_orders. destruct (cf_isolation cf).
  - assert (G : forall sts os0, map ns (fold_left (fun os1 st => let live := filter (fun o => (so_strat o =? st) && status_in (so_status o) (cf_mw_live cf)) os1 in
                                                    match live with [] => os1 | _ :: _ => match_orders tb cf b ans live os1 end) sts os0) = map ns os0).
    { induction sts as [|s r IH]; intros os0; cbn [fold_left]; [reflexivity|]. rewrite IH. cbv zeta.
      destruct (filter _ os0); [reflexivity|apply match_orders_ns]. }
    apply G.
  - cbv zeta. destruct (filter (fun o => so_in_live o) os) as [|l0 ls]; [reflexivity|].
    match goal with |- map ns (fst (fold_left ?F _ _)) = _ => set (F0 := F) end.
    assert (G : forall l st, map ns (fst (fold_left F0 l st)) = map ns (fst st)).
    { induction l as [|x r IH]; intros st; cbn [fold_left]; [reflexivity|]. rewrite IH.
      destruct st as [os1 lk]. unfold F0. destruct (get_order (so_name x) os1) as [o|] eqn:Eg; [|reflexivity].
      destruct (negb (status_in (so_status o) (cf_mw_live cf))); [reflexivity|].
      pose proof (mstep_ns tb cf b os1 lk x) as Hm. unfold mstep in Hm. rewrite Eg in Hm. exact Hm. }
    apply G.
Qed.
Lemma names_completion_sweep cf now os : names (completion_sweep cf now os) = names os.
Proof.
  unfold completion_sweep, names. rewrite map_map. apply map_ext. intros o.
  destruct (negb (so_in_live o)); [reflexivity|]. destruct (so_complete o); [reflexivity|].
  destruct (so_type o); [destruct (remaining o =? 0)|destruct (so_bsp o)|destruct (so_bsp o)]; reflexivity.
Qed.

Lemma nodup_app_r {A} (l1 l2 : list A) : NoDup (l1 ++ l2) -> NoDup l2.
Proof. induction l1 as [|x r IH]; cbn; intros H; [exact H|]. inversion H; subst. apply IH. assumption. Qed.
Lemma nodup_app_notin {A} (l1 l2 : list A) x : NoDup (l1 ++ l2) -> In x l1 -> ~ In x l2.
Proof.
  induction l1 as [|y r IH]; cbn; intros H Hin; [destruct Hin|]. inversion H; subst. destruct Hin as [->|Hin].
  - intro Hc. apply H2. apply in_or_app. right. exact Hc.
  - apply IH; assumption.
Qed.
Lemma nodup_app_intro {A} (l1 l2 : list A) : NoDup l1 -> NoDup l2 -> (forall x, In x l1 -> In x l2 -> False) -> NoDup (l1 ++ l2).
Proof.
  induction l1 as [|y r IH]; cbn; intros H1 H2 Hd; [exact H2|]. inversion H1; subst. constructor.
  - intro Hc. apply in_app_or in Hc as [Hc|Hc]; [contradiction|]. apply (Hd y); [left; reflexivity|exact Hc].
  - apply IH; [assumption|assumption|]. intros x Hx. apply Hd. right. exact Hx.
Qed.

(* ---------- the invariant ---------- *)
Definition mkN (next : Z) (fut : list (Z * Z)) (m : market) : Prop :=
  NoDup (names (mk_orders m)) /\ forall n, In n (names (mk_orders m)) -> n < next /\ ~ In (mk_id m, n) fut.
Definition simN (fut : list (Z * Z)) (s : sim) : Prop :=
  NoDup (map mk_id (s_markets s)) /\ Forall (mkN (s_next_name s) fut) (s_markets s) /\ 1000 <= s_next_name s /\
  NoDup fut /\ Forall (fun k => snd k < 1000) fut.

Lemma mkN_mono next next' fut fut' m : mkN next fut m -> next <= next' -> (forall k, In k fut' -> In k fut) -> mkN next' fut' m.
Proof. intros [A B] Hn Hf. split; [exact A|]. intros n Hin. destruct (B n Hin) as [C D]. split; [lia|]. intro H. apply D, Hf, H. Qed.
Lemma mkN_same_names next fut m m' : mk_id m' = mk_id m -> names (mk_orders m') = names (mk_orders m) -> mkN next fut m -> mkN next fut m'.
Proof. intros Ei En [A B]. unfold mkN. rewrite En, Ei. split; assumption. Qed.

Lemma ids_upd_market_c id f : (forall m, mk_id m = id -> mk_id (f m) = id) -> forall l, map mk_id (upd_market id f l) = map mk_id l.
Proof. intros Hf. induction l as [|m r IH]; [reflexivity|]. cbn [upd_market]. destruct (mk_id m =? id) eqn:E; cbn [map]; [rewrite Hf by lia; f_equal; lia|f_equal; exact IH]. Qed.
Lemma ids_upd_market id f : (forall m, mk_id (f m) = mk_id m) -> forall l, map mk_id (upd_market id f l) = map mk_id l.
Proof. intros Hf. apply ids_upd_market_c. intros m Hm. rewrite Hf. exact Hm. Qed.
Lemma Forall_upd_market2 (P Q : market -> Prop) id f : forall l, Forall P l -> (forall m, P m -> Q (f m)) -> (forall m, P m -> Q m) -> Forall Q (upd_market id f l).
Proof.
  induction l as [|m r IH]; intros H Hf Hq; cbn [upd_market]; [constructor|]. inversion H; subst.
  destruct (mk_id m =? id); constructor; auto. rewrite Forall_forall in *. intros x Hx. apply Hq. auto.
Qed.

Lemma simN_drop k fut s : simN (k ++ fut) s -> simN fut s.
Proof.
  intros (A & B & C & D & E). split; [exact A|]. split; [|split; [exact C|split]].
  - rewrite Forall_forall in *. intros m Hm. eapply mkN_mono; [apply B; exact Hm|lia|]. intros x Hx. apply in_or_app. right. exact Hx.
  - apply nodup_app_r in D. exact D.
  - apply Forall_app in E. apply E.
Qed.

Lemma names_set_orders_put m o' : names (mk_orders (set_orders m (upd_order (so_name o') (fun _ => o') (mk_orders m)))) = names (mk_orders m).
Proof. cbn [set_orders mk_orders]. apply names_put. reflexivity. Qed.

Lemma put_N next fut mid l o' : Forall (mkN next fut) l ->
  Forall (mkN next fut) (upd_market mid (fun m => set_orders m (upd_order (so_name o') (fun _ => o') (mk_orders m))) l).
Proof.
  intros H. apply Forall_upd_market; [exact H|]. intros m Hm. apply (mkN_same_names next fut m); [reflexivity|apply names_set_orders_put|exact Hm].
Qed.
Lemma put_ids mid l o' : map mk_id (upd_market mid (fun m => set_orders m (upd_order (so_name o') (fun _ => o') (mk_orders m))) l) = map mk_id l.
Proof. apply ids_upd_market. reflexivity. Qed.

(* a new order under a name that is not used in its market *)
Lemma append_N next next' fut fut' mid l o' :
  Forall (mkN next fut) l -> next <= next' -> (forall k, In k fut' -> In k fut) -> so_name o' < next' -> (forall m, In m l -> mk_id m = mid -> ~ In (so_name o') (names (mk_orders m))) ->
  ~ In (mid, so_name o') fut' ->
  Forall (mkN next' fut') (upd_market mid (fun m => set_orders m (mk_orders m ++ [o'])) l).
Proof.
  intros H Hn Hf Hlt Hfresh Hk.
  assert (G : forall l0, (forall m, In m l0 -> In m l) -> Forall (mkN next fut) l0 -> Forall (mkN next' fut') (upd_market mid (fun m => set_orders m (mk_orders m ++ [o'])) l0)).
  { induction l0 as [|m r IH]; intros Hsub H0; cbn [upd_market]; [constructor|]. inversion H0; subst.
    destruct (mk_id m =? mid) eqn:E.
    - constructor; [|rewrite Forall_forall in *; intros x Hx; eapply mkN_mono; [apply H4; exact Hx|exact Hn|exact Hf]].
      destruct H3 as [A B]. unfold mkN. cbn [set_orders mk_orders mk_id]. unfold names in *. rewrite map_app. cbn [map]. split.
      + apply nodup_app_intro; [exact A|constructor; [intros []|constructor]|]. intros x Hx [<-|[]]. apply (Hfresh m); [apply Hsub; left; reflexivity|lia|exact Hx].
      + intros n0 Hin. apply in_app_or in Hin as [Hin|[<-|[]]].
        * destruct (B n0 Hin) as [C D]. split; [lia|]. intro Hc. apply D, Hf, Hc.
        * split; [exact Hlt|]. replace (mk_id m) with mid by lia. exact Hk.
    - constructor; [eapply mkN_mono; eassumption|]. apply IH; [intros x Hx; apply Hsub; right; exact Hx|exact H4]. }
  apply G; [auto|exact H].
Qed.

(* ---------- packages ---------- *)
Lemma get_market_id mid l m : get_market mid l = Some m -> In m l /\ mk_id m = mid.
Proof. unfold get_market. intros H. apply find_some in H as [A B]. split; [exact A|lia]. Qed.

Lemma nodup_ids_unique l m1 m2 : NoDup (map mk_id l) -> In m1 l -> In m2 l -> mk_id m1 = mk_id m2 -> m1 = m2.
Proof.
  induction l as [|x r IH]; intros Hn H1 H2 He; [destruct H1|]. cbn [map] in Hn. inversion Hn; subst.
  destruct H1 as [->|H1], H2 as [->|H2]; try reflexivity.
  - exfalso. apply H3. rewrite He. apply in_map. exact H2.
  - exfalso. apply H3. rewrite <- He. apply in_map. exact H1.
  - apply IH; assumption.
Qed.

Theorem exec_pkg_N tb cf now fut s p : simN fut s -> simN fut (exec_pkg tb cf now s p).
Proof.
  intros HI. pose proof HI as (Hid & Hm & Hn & Hd & Hk). unfold exec_pkg.
  destruct (get_market (pk_market p) (s_markets s)) as [m|] eqn:Em; [|exact HI].
  destruct (mk_book m) as [b|] eqn:Eb; [|exact HI].
  destruct (get_order (pk_order p) (mk_orders m)) as [o|] eqn:Eo; [|exact HI].
  destruct (status_eqb (so_status o) SViolation); [destruct (pk_kind p); exact HI|].
  cbv zeta.
  assert (SAME : forall o' bet ab tx txf, simN fut {| s_markets := upd_market (pk_market p) (fun m0 => set_orders m0 (upd_order (so_name o') (fun _ => o') (mk_orders m0))) (s_markets s);
             s_queue := s_queue s; s_bet := bet; s_removals := s_removals s; s_next_name := s_next_name s; s_aborted := ab; s_tx := tx; s_tx_failed := txf |}).
  { intros o' bet ab tx txf. unfold simN. cbn [s_markets s_next_name]. rewrite put_ids. split; [exact Hid|]. split; [apply put_N; exact Hm|]. split; [exact Hn|split; assumption]. }
  destruct (pk_kind p).
  - destruct (sim_place tb (client_of cf (so_strat o)) (mk_static m) b (pk_mv p) o) as [o1 ok]. apply SAME.
  - destruct (sim_cancel b o) as [[o1 ok] c]. apply SAME.
  - apply SAME.
  - destruct (status_eqb (so_status o) SExecComplete).
    { unfold simN. cbn [s_markets s_next_name]. repeat split; assumption. }
    destruct (sim_cancel b o) as [[o1 ok] sc]. destruct (negb ok); [apply SAME|].
    destruct (sc =? 0); [apply SAME|].
    match goal with |- context [sim_place tb ?c ?ms b ?mv ?r0] =>
      pose proof (nm_sim_place tb c ms b mv r0) as HS; destruct (sim_place tb c ms b mv r0) as [r1 okp] end.
    cbn [fst] in HS. destruct okp; [|apply SAME].
    (* the replacement order enters its market under the next free name *)
    unfold simN. cbn [s_markets s_next_name].
    rewrite ids_upd_market by reflexivity. rewrite put_ids. split; [exact Hid|].
    split; [|split; [lia|split; assumption]].
    match goal with |- Forall _ (upd_market _ (fun m0 => set_orders m0 (mk_orders m0 ++ [?x])) _) => set (r4 := x) end.
    assert (Hr4 : so_name r4 = s_next_name s) by (subst r4; cbn [executable set_status set_live set_bet_placed upd_ord so_name]; rewrite HS; reflexivity).
    apply (append_N (s_next_name s) (s_next_name s + 1) fut fut); [apply put_N; exact Hm|lia|auto|lia| |].
    + intros m0 Hin0 _ Hc. rewrite Hr4 in Hc.
      assert (HF : Forall (mkN (s_next_name s) fut) (upd_market (pk_market p) (fun m1 => set_orders m1 (upd_order (so_name (exec_complete (cf_complete cf) now o1)) (fun _ => exec_complete (cf_complete cf) now o1) (mk_orders m1))) (s_markets s)))
        by (apply put_N; exact Hm).
      rewrite Forall_forall in HF. destruct (HF m0 Hin0) as [_ B]. destruct (B _ Hc) as [C _]. lia.
    + rewrite Hr4. intro Hc. rewrite Forall_forall in Hk. specialize (Hk _ Hc). cbn in Hk. lia.
Qed.

Lemma check_pending_N tb cf now mid fut s : simN fut s -> simN fut (check_pending tb cf now mid s).
Proof.
  intros HI. unfold check_pending.
  set (ps := filter (fun p => (pk_market p =? mid) && due cf now p) (s_queue s)).
  assert (G : forall l s0, simN fut s0 -> simN fut (fold_left (fun s1 p => if s_aborted s1 then s1 else exec_pkg tb cf now s1 p) l s0)).
  { induction l as [|p l IH]; intros s0 H0; cbn [fold_left]; [exact H0|]. apply IH. destruct (s_aborted s0); [exact H0|apply exec_pkg_N; exact H0]. }
  specialize (G ps s HI). unfold simN in *. cbn [s_markets s_next_name]. exact G.
Qed.

(* ---------- the middleware ---------- *)
Lemma middleware_N tb cf s m b :
  s_markets (fst (middleware tb cf s m b)) = s_markets s /\ s_next_name (fst (middleware tb cf s m b)) = s_next_name s /\
  mk_id (snd (middleware tb cf s m b)) = mk_id m /\ names (mk_orders (snd (middleware tb cf s m b))) = names (mk_orders m).
Proof.
  rewrite middleware_unfold.
  destruct (collect (mk_id m) (b_runners b) (mk_analytics m, s_removals s, [])) as [[ans rems] newrems].
  assert (G : forall l st, names (fst (fold_left (fun (st : list sorder * bool) k => if snd st then st
                 else apply_removal (removal_order tb (ms_type (mk_static m)) b (fst k) (snd k) (cf_min_adj cf)) (fst st)) l st)) = names (fst st)).
  { induction l as [|k l IH]; intros st; cbn [fold_left]; [reflexivity|]. rewrite IH. destruct (snd st); [reflexivity|].
    apply names_apply_removal. intros o o' E. eapply nm_removal_order. exact E. }
  unfold apply_new. specialize (G newrems (mk_orders m, false)).
  destruct (fold_left _ newrems (mk_orders m, false)) as [orders1 raised]. cbn [fst snd] in *.
  split; [reflexivity|]. split; [reflexivity|]. split; [reflexivity|]. cbn [mk_orders].
  destruct raised; [exact G|]. destruct (mk_active m); [rewrite names_process_sim_orders; exact G|exact G].
Qed.

(* ---------- requests ---------- *)

Lemma nm_set_status cs now o st c : so_name (set_status cs now o st c) = so_name o.  Proof. reflexivity. Qed.

Theorem request0_N cf now st mid fut s a : simN (act_keys0 mid a ++ fut) s -> simN fut (request0 cf now st mid s a).
Proof.
  intros HI. pose proof (simN_drop _ _ _ HI) as HD. pose proof HD as (Hid & Hm & Hn & Hd & Hk).
  unfold request0. destruct (get_market mid (s_markets s)) as [m|] eqn:Em; [|exact HD].
  destruct (get_market_id _ _ _ Em) as [Hin Hmid].
  assert (SAME : forall f q, (forall o, so_name (f o) = so_name o) -> forall n0,
            simN fut {| s_markets := upd_market mid (fun m0 => set_orders m0 (upd_order n0 f (mk_orders m))) (s_markets s); s_queue := q; s_bet := s_bet s;
                        s_removals := s_removals s; s_next_name := s_next_name s; s_aborted := s_aborted s; s_tx := s_tx s; s_tx_failed := s_tx_failed s |}).
  { intros f q Hf n0. unfold simN. cbn [s_markets s_next_name]. rewrite ids_upd_market by reflexivity. split; [exact Hid|].
    split; [|split; [exact Hn|split; assumption]].
    assert (G : forall l, (forall x, In x l -> In x (s_markets s)) -> Forall (mkN (s_next_name s) fut) l ->
                Forall (mkN (s_next_name s) fut) (upd_market mid (fun m0 => set_orders m0 (upd_order n0 f (mk_orders m))) l)).
    { induction l as [|x r IH]; intros Hsub H0; cbn [upd_market]; [constructor|].
      pose proof (Forall_inv H0) as Hx. pose proof (Forall_inv_tail H0) as Hr.
      destruct (mk_id x =? mid) eqn:E; constructor; try assumption; [|apply IH; [intros y Hy; apply Hsub; right; exact Hy|assumption]].
      assert (Hxm : x = m) by (apply (nodup_ids_unique (s_markets s)); [exact Hid|apply Hsub; left; reflexivity|exact Hin|lia]). rewrite Hxm in *.
      apply (mkN_same_names _ _ m); [reflexivity| |assumption]. cbn [set_orders mk_orders]. apply names_upd_order. exact Hf. }
    apply G; [auto|exact Hm]. }
  destruct a as [name sel sd t mv|name red|name p|name price mv|mid' a']; [| | | |exact HD].
  - destruct (negb (market_open m)); [exact HD|].
    (* the new order: its key is the head of the keys still to be used *)
    pose proof HI as (_ & Hm0 & _ & Hd0 & Hk0). cbn [act_keys0 app] in Hm0, Hd0, Hk0.
    unfold simN. cbn [s_markets s_next_name]. rewrite ids_upd_market by reflexivity. split; [exact Hid|].
    split; [|split; [exact Hn|split; assumption]].
    set (o1 := set_live (set_status (cf_complete cf) now (new_order name st mid sel sd t now false) SPending false) true).
    assert (Hname : so_name o1 = name) by (subst o1; destruct t; reflexivity).
    pose proof (NoDup_cons_iff (mid, name) fut) as Hnc. apply Hnc in Hd0 as [Hnotin Hnd]. pose proof (Forall_inv Hk0) as Hlt. cbn in Hlt.
    assert (E : upd_market mid (fun m0 => set_orders m0 (mk_orders m ++ [o1])) (s_markets s) = upd_market mid (fun m0 => set_orders m0 (mk_orders m0 ++ [o1])) (s_markets s)).
    { clear - Hid Hin Hmid. assert (G : forall l, (forall x, In x l -> In x (s_markets s)) ->
          upd_market mid (fun m0 => set_orders m0 (mk_orders m ++ [o1])) l = upd_market mid (fun m0 => set_orders m0 (mk_orders m0 ++ [o1])) l).
      { induction l as [|x r IH]; intros Hsub; cbn [upd_market]; [reflexivity|]. destruct (mk_id x =? mid) eqn:E.
        - assert (Hxm : x = m) by (apply (nodup_ids_unique (s_markets s)); [exact Hid|apply Hsub; left; reflexivity|exact Hin|lia]). rewrite Hxm. reflexivity.
        - f_equal. apply IH. intros y Hy. apply Hsub. right. exact Hy. }
      apply G. auto. }
    rewrite E.
    apply (append_N (s_next_name s) (s_next_name s) ((mid, name) :: fut) fut); [exact Hm0|lia|intros k Hk'; right; exact Hk'|rewrite Hname; lia| |rewrite Hname; exact Hnotin].
    intros m0 Hin0 Hid0 Hc. rewrite Hname in Hc. rewrite Forall_forall in Hm0. destruct (Hm0 m0 Hin0) as [_ B]. destruct (B name Hc) as [_ D]. apply D. left. rewrite Hid0. reflexivity.
  - destruct (get_order name (mk_orders m)) as [o|]; [|exact HD].
    destruct (negb (order_validation_ok o) || negb (market_open m)); [exact HD|].
    destruct (so_bet o); [|exact HD]. destruct (so_type o); try exact HD.
    destruct (match red with Some x => negb (x =? 0) && (remaining o - x <? 0) | None => false end); [exact HD|].
    destruct (negb (status_eqb (so_status o) SExecutable)); [exact HD|]. apply SAME. intros o0. reflexivity.
  - destruct (get_order name (mk_orders m)) as [o|]; [|exact HD].
    destruct (negb (order_validation_ok o) || negb (market_open m)); [exact HD|].
    destruct (so_bet o); [|exact HD]. destruct (so_type o); try exact HD.
    destruct (persist_eqb (so_persist o) p); [exact HD|].
    destruct (negb (status_eqb (so_status o) SExecutable)); [exact HD|]. apply SAME. intros o0. reflexivity.
  - destruct (get_order name (mk_orders m)) as [o|]; [|exact HD].
    destruct (negb (order_validation_ok o) || negb (market_open m)); [exact HD|].
    destruct (so_bet o); [|exact HD].
    destruct (so_type o); try exact HD;
    (destruct (so_price o =? price); [exact HD|]; destruct (negb (status_eqb (so_status o) SExecutable)); [exact HD|]; apply SAME; intros o0; reflexivity).
Qed.

Theorem request_N cf now st mid fut s a : simN (act_keys mid a ++ fut) s -> simN fut (request cf now st mid s a).
Proof. unfold request, act_keys. destruct a; apply request0_N. Qed.

Lemma requests_N cf now st mid : forall acts fut s, simN (flat_map (act_keys mid) acts ++ fut) s -> simN fut (fold_left (request cf now st mid) acts s).
Proof.
  induction acts as [|a acts IH]; intros fut s HI; cbn [fold_left flat_map app] in *; [exact HI|].
  apply IH. apply request_N. rewrite app_assoc. exact HI.
Qed.


Lemma strategies_N cf now mid (f : Z -> list action) : forall sts fut s,
  simN (flat_map (fun st => flat_map (act_keys mid) (f st)) sts ++ fut) s ->
  simN fut (fold_left (fun s st => fold_left (request cf now st mid) (f st) s) sts s).
Proof.
  induction sts as [|st sts IH]; intros fut s HI; cbn [fold_left flat_map app] in *; [exact HI|].
  apply IH. apply requests_N. rewrite app_assoc. exact HI.
Qed.

Theorem step_N tb cf n sc fut s e : simN (ev_keys sc n e ++ fut) s -> simN fut (step tb cf n sc s e).
Proof.
  intros HI. unfold step. destruct (s_aborted s); [eapply simN_drop; exact HI|].
  set (s1 := match s_queue s with [] => s | _ => check_pending tb cf (b_pt (ev_book e)) (ev_market e) s end).
  assert (H1 : simN (ev_keys sc n e ++ fut) s1) by (subst s1; destruct (s_queue s); [exact HI|apply check_pending_N; exact HI]).
  destruct (s_aborted s1); [eapply simN_drop; exact H1|].
  destruct (get_market (ev_market e) (s_markets s1)) as [m|] eqn:Em; [|eapply simN_drop; exact H1].
  destruct (get_market_id _ _ _ Em) as [Hin Hmid].
  pose proof H1 as (Hid & Hm & Hn & Hd & Hk).
  destruct (mstatus_eqb (b_status (ev_book e)) MClosed).
  - eapply simN_drop. destruct (mk_seen m); [|exact H1]. unfold simN. cbn [s_markets s_next_name].
    rewrite ids_upd_market by reflexivity. split; [exact Hid|]. split; [|split; [exact Hn|split; assumption]].
    apply Forall_upd_market; [exact Hm|]. intros m' Hm'. exact Hm'.
  - match goal with |- context [middleware tb cf s1 ?m0 ?b] =>
      pose proof (middleware_N tb cf s1 m0 b) as (E1 & E2 & E3 & E4); destruct (middleware tb cf s1 m0 b) as [s2 m1] end.
    cbn [fst snd mk_id mk_orders] in E1, E2, E3, E4.
    apply strategies_N. unfold ev_keys in H1. unfold simN. cbn [s_markets s_next_name]. rewrite E1, E2.
    rewrite ids_upd_market_c by (intros m0 _; destruct (mk_active m1); cbn [set_orders mk_id]; lia).
    split; [exact Hid|]. split; [|split; [exact Hn|split; assumption]].
    assert (G : forall l, (forall x, In x l -> In x (s_markets s1)) -> Forall (mkN (s_next_name s1) (ev_keys sc n e ++ fut)) l ->
                Forall (mkN (s_next_name s1) (ev_keys sc n e ++ fut)) (upd_market (ev_market e) (fun _ => if mk_active m1 then set_orders m1 (completion_sweep cf (b_pt (ev_book e)) (mk_orders m1)) else m1) l)).
    { induction l as [|x r IH]; intros Hsub H0; cbn [upd_market]; [constructor|].
      pose proof (Forall_inv H0) as Hx. pose proof (Forall_inv_tail H0) as Hr.
      destruct (mk_id x =? ev_market e) eqn:E; constructor; try assumption; [|apply IH; [intros y Hy; apply Hsub; right; exact Hy|assumption]].
      assert (Hxm : x = m) by (apply (nodup_ids_unique (s_markets s1)); [exact Hid|apply Hsub; left; reflexivity|exact Hin|lia]). rewrite Hxm in *.
      apply (mkN_same_names _ _ m); [destruct (mk_active m1); cbn; congruence| |assumption].
      destruct (mk_active m1); [cbn [set_orders mk_orders]; rewrite names_completion_sweep|]; exact E4. }
    apply G; [auto|exact Hm].
Qed.

Theorem run_N tb cf n sc : forall es fut s, simN (run_keys sc n es ++ fut) s -> simN fut (fold_left (step tb cf n sc) es s).
Proof.
  induction es as [|e es IH]; intros fut s HI; cbn [fold_left run_keys flat_map app] in *; [exact HI|].
  apply IH. apply step_N. unfold run_keys. rewrite app_assoc. exact HI.
Qed.

(* every reachable state: order names are unique per market *)
Theorem run_names_unique tb cf n sc es s m :
  NoDup (map mk_id (s_markets s)) -> (forall m0, In m0 (s_markets s) -> mk_orders m0 = []) -> 1000 <= s_next_name s ->
  NoDup (run_keys sc n es) -> Forall (fun k => snd k < 1000) (run_keys sc n es) ->
  In m (s_markets (fold_left (step tb cf n sc) es s)) -> NoDup (map so_name (mk_orders m)).
Proof.
  intros Hid H0 Hn Hd Hk Hm.
  assert (HI : simN (run_keys sc n es ++ []) s).
  { rewrite app_nil_r. split; [exact Hid|]. split; [|split; [exact Hn|split; assumption]].
    rewrite Forall_forall. intros m0 Hm0. unfold mkN, names. rewrite (H0 m0 Hm0). split; [constructor|intros x []]. }
  pose proof (run_N tb cf n sc es [] s HI) as (_ & Hf & _). rewrite Forall_forall in Hf. destruct (Hf m Hm) as [A _]. exact A.
Qed.

(* hence matcher non-interference (SimIsolationP.isolation_matching) applies at every update of every such run *)
Theorem non_interference_at_every_update tb cf n sc es s m b ans st :
  NoDup (map mk_id (s_markets s)) -> (forall m0, In m0 (s_markets s) -> mk_orders m0 = []) -> 1000 <= s_next_name s ->
  NoDup (run_keys sc n es) -> Forall (fun k => snd k < 1000) (run_keys sc n es) -> cf_isolation cf = true ->
  In m (s_markets (fold_left (step tb cf n sc) es s)) ->
  proj_strat st (process_sim_orders tb cf b ans (mk_orders m)) = process_sim_orders tb cf b ans (proj_strat st (mk_orders m)).
Proof.
  intros H1 H2 H3 H4 H5 Hiso Hm. apply isolation_matching; [exact Hiso|].
  exact (run_names_unique tb cf n sc es s m H1 H2 H3 H4 H5 Hm).
Qed.

(* the boolean side condition (Model/SimGuard.v keys_ok_b) *)
Lemma nodup_keys_b_sound : forall l, nodup_keys_b l = true -> NoDup l.
Proof.
  induction l as [|k r IH]; intros H; [constructor|]. cbn [nodup_keys_b] in H. apply andb_true_iff in H as [H1 H2]. constructor; [|apply IH; exact H2].
  intro Hin. apply negb_true_iff in H1. assert (Hex : existsb (fun x => (fst x =? fst k) && (snd x =? snd k)) r = true).
  { apply existsb_exists. exists k. split; [exact Hin|]. rewrite !Z.eqb_refl. reflexivity. }
  congruence.
Qed.
Lemma keys_ok_b_sound sc n es : keys_ok_b sc n es = true -> NoDup (run_keys sc n es) /\ Forall (fun k => snd k < 1000) (run_keys sc n es).
Proof.
  unfold keys_ok_b. intros H. apply andb_true_iff in H as [H1 H2]. split; [apply nodup_keys_b_sound; exact H1|].
  rewrite forallb_forall in H2. rewrite Forall_forall. intros k Hk. specialize (H2 k Hk). lia.
Qed.
Theorem run_names_unique_b tb cf n sc es s m :
  NoDup (map mk_id (s_markets s)) -> (forall m0, In m0 (s_markets s) -> mk_orders m0 = []) -> 1000 <= s_next_name s ->
  keys_ok_b sc n es = true -> In m (s_markets (fold_left (step tb cf n sc) es s)) -> NoDup (map so_name (mk_orders m)).
Proof. intros H1 H2 H3 Hk Hm. destruct (keys_ok_b_sound sc n es Hk) as [A B]. exact (run_names_unique tb cf n sc es s m H1 H2 H3 A B Hm). Qed.

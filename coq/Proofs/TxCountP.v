(* TxCountP.v — C18. *)
From Coq Require Import ZArith List Bool Lia ZifyBool Permutation.
From V Require Import Model.Num Model.TxCount Proofs.NumP.
Open Scope Z_scope.

Definition adds_sum (es : list ev) : Z :=
  sumZ (map (fun e => match e with Add n _ => n | _ => 0 end) es).
Definition adds_ok (es : list ev) : Prop := Forall (fun e => match e with Add n _ => 0 <= n | _ => True end) es.

Lemma step_tot limit s e : tot_total (fst (step limit s e)) = tot_total s + adds_sum [e].
Proof.
  destruct e as [n f|now force]; cbn [step fst].
  - unfold add, tot_total, adds_sum. destruct f; simpl; lia.
  - destruct force; cbn [fst]; unfold adds_sum; simpl; [lia|].
    unfold validate, check_hour, set_next_hour, tot_total. cbn [fst].
    destruct (next_hour s) as [nh|]; [destruct (nh =? hour_of now + 1)|]; simpl; lia.
Qed.

(* 1. totals = everything ever added, whatever requests are interleaved *)
Theorem totals_exact limit es : forall s, tot_total (fst (run limit s es)) = tot_total s + adds_sum es.
Proof.
  induction es as [|e r IH]; intros s; [unfold adds_sum; simpl; lia|].
  cbn [run]. destruct (step limit s e) as [s1 o] eqn:E1. destruct (run limit s1 r) as [s2 os] eqn:E2.
  cbn [fst]. specialize (IH s1). rewrite E2 in IH. cbn [fst] in IH.
  pose proof (step_tot limit s e) as H. rewrite E1 in H. cbn [fst] in H.
  unfold adds_sum in *. cbn [map sumZ] in *. lia.
Qed.

(* adds commute: executions completing in either order leave the same state *)
Theorem adds_commute s n1 f1 n2 f2 : add (add s n1 f1) n2 f2 = add (add s n2 f2) n1 f1.
Proof. unfold add. destruct f1, f2; cbn; f_equal; lia. Qed.

Lemma run_app limit a : forall s b, fst (run limit s (a ++ b)) = fst (run limit (fst (run limit s a)) b).
Proof.
  induction a as [|e a IH]; intros s b; [reflexivity|]. cbn [app run].
  destruct (step limit s e) as [s1 o]. specialize (IH s1 b).
  destruct (run limit s1 (a ++ b)) as [s2 os]. destruct (run limit s1 a) as [s3 os3]. cbn [fst] in *. exact IH.
Qed.

Definition only_adds (es : list ev) : Prop := Forall (fun e => match e with Add _ _ => True | _ => False end) es.

Lemma run_adds_perm limit a b : Permutation a b -> only_adds a -> forall s, fst (run limit s a) = fst (run limit s b).
Proof.
  induction 1 as [|x l l' Hp IH|x y l|l l' l'' H1 IH1 H2 IH2]; intros Ha s.
  - reflexivity.
  - inversion Ha; subst. cbn [run]. destruct (step limit s x) as [s1 o]. specialize (IH H2 s1).
    destruct (run limit s1 l), (run limit s1 l'). cbn [fst] in *. exact IH.
  - inversion Ha as [|? ? Hy Ha']; subst. inversion Ha' as [|? ? Hx Ha'']; subst.
    destruct x as [nx fx|]; [|contradiction]. destruct y as [ny fy|]; [|contradiction].
    cbn [run step]. rewrite adds_commute.
    destruct (run limit (add (add s nx fx) ny fy) l). reflexivity.
  - rewrite IH1 by assumption. apply IH2.
    unfold only_adds in *. rewrite Forall_forall in *. intros e He. apply Ha. eapply Permutation_in; [symmetry; exact H1|exact He].
Qed.

(* any interleaving (permutation) of a batch of concurrent add_transaction calls gives the same counters *)
Theorem concurrent_adds_any_order limit s a b :
  Permutation a b -> only_adds a -> fst (run limit s a) = fst (run limit s b).
Proof. intros Hp Ha. apply run_adds_perm; assumption. Qed.

(* 2. restart rule *)
Theorem restart_iff_new_clock_hour s now :
  let s' := check_hour s now in
  next_hour s' = Some (hour_of now + 1) /\
  ((next_hour s = Some (hour_of now + 1) /\ s' = s) \/
   (next_hour s <> Some (hour_of now + 1) /\ cur s' = 0 /\ cur_failed s' = 0 /\ tot s' = tot s /\ tot_failed s' = tot_failed s)).
Proof.
  cbv zeta. unfold check_hour, set_next_hour. destruct (next_hour s) as [nh|] eqn:E.
  - destruct (nh =? hour_of now + 1) eqn:E2.
    + apply Z.eqb_eq in E2. subst nh. split; [exact E|]. left. split; reflexivity.
    + split; [reflexivity|]. right. cbn. split; [intro H; inversion H; lia|repeat split].
  - split; [reflexivity|]. right. cbn. split; [discriminate|repeat split].
Qed.

(* hourly counters = the adds since the last restart; stated as an invariant over any event list
   that stays inside one clock hour *)
Definition in_hour (h : Z) (es : list ev) : Prop :=
  Forall (fun e => match e with Req now false => hour_of now = h | _ => True end) es.

Lemma run_in_hour limit h es : forall s, next_hour s = Some (h + 1) -> in_hour h es ->
  let s' := fst (run limit s es) in
  next_hour s' = Some (h + 1) /\ cur_total s' = cur_total s + adds_sum es.
Proof.
  induction es as [|e r IH]; intros s Hs Hin; cbv zeta; [unfold adds_sum; simpl; split; [exact Hs|lia]|].
  inversion Hin as [|? ? He Hr]; subst. cbn [run].
  destruct (step limit s e) as [s1 o] eqn:E1. destruct (run limit s1 r) as [s2 os] eqn:E2. cbn [fst].
  assert (H1 : next_hour s1 = Some (h + 1) /\ cur_total s1 = cur_total s + adds_sum [e]).
  { destruct e as [n f|now force]; cbn [step] in E1.
    - inversion E1; subst. unfold add, cur_total, adds_sum. destruct f; cbn; split; (exact Hs || lia).
    - destruct force; [inversion E1; subst; unfold adds_sum; simpl; split; [exact Hs|lia]|].
      unfold validate, check_hour in E1. rewrite Hs in E1. rewrite He in E1. rewrite Z.eqb_refl in E1.
      inversion E1; subst. unfold adds_sum; simpl. split; [exact Hs|lia]. }
  destruct H1 as [Hn Hc]. specialize (IH s1 Hn Hr). cbv zeta in IH. rewrite E2 in IH. cbn [fst] in IH.
  destruct IH as [IH1 IH2]. split; [exact IH1|]. unfold adds_sum in *. cbn [map sumZ] in *. lia.
Qed.

Theorem hourly_counts_since_restart limit s now es :
  in_hour (hour_of now) es ->
  let s0 := check_hour s now in
  let s' := fst (run limit s0 es) in
  cur_total s' = cur_total s0 + adds_sum es.
Proof.
  intros Hin. cbv zeta. destruct (restart_iff_new_clock_hour s now) as [Hn _]. cbv zeta in Hn.
  apply (run_in_hour limit (hour_of now) es _ Hn Hin).
Qed.

(* 3. blocking: once over the limit, every non-forced request in the same clock hour is refused,
      whatever non-negative adds happen in between *)
Lemma run_outputs_refused limit l h es : forall s,
  limit = Some l -> next_hour s = Some (h + 1) -> l < cur_total s -> in_hour h es -> adds_ok es ->
  Forall (fun o => match o with Some true => False | _ => True end)
         (map (fun eo => match fst eo with Req _ true => None | _ => snd eo end) (combine es (snd (run limit s es)))).
Proof.
  induction es as [|e r IH]; intros s Hl Hs Hover Hin Hok; [constructor|].
  inversion Hin as [|? ? He Hr]; subst. inversion Hok as [|? ? Hoe Hor]; subst.
  cbn [run]. destruct (step (Some l) s e) as [s1 o] eqn:E1. destruct (run (Some l) s1 r) as [s2 os] eqn:E2.
  cbn [snd combine map fst].
  assert (H1 : next_hour s1 = Some (h + 1) /\ l < cur_total s1 /\ match e with Req _ true => True | _ => o <> Some true end).
  { destruct e as [n f|now force]; cbn [step] in E1.
    - inversion E1; subst. unfold add, cur_total in *. destruct f; cbn; repeat split; try exact Hs; try lia; discriminate.
    - destruct force; [inversion E1; subst; repeat split; assumption|].
      unfold validate, check_hour in E1. rewrite Hs, He, Z.eqb_refl in E1. inversion E1; subst.
      repeat split; try assumption. unfold safe. intro H. inversion H. lia. }
  destruct H1 as [Hn [Hc Ho]]. constructor.
  - destruct e as [n f|now [|]]; try exact I; destruct o as [[|]|]; try exact I; congruence.
  - specialize (IH s1 eq_refl Hn Hc Hr Hor). rewrite E2 in IH. exact IH.
Qed.

Theorem blocked_until_new_hour limit l h es s :
  limit = Some l -> next_hour s = Some (h + 1) -> l < cur_total s -> in_hour h es -> adds_ok es ->
  Forall (fun o => match o with Some true => False | _ => True end)
         (map (fun eo => match fst eo with Req _ true => None | _ => snd eo end) (combine es (snd (run limit s es)))).
Proof. intros. eapply run_outputs_refused; eassumption. Qed.

(* the first request in another clock hour restarts from zero and is accepted (limit >= 0) *)
Theorem new_hour_unblocks l s now : 0 <= l -> next_hour s <> Some (hour_of now + 1) ->
  let '(s', ok) := validate (Some l) s now in ok = true /\ cur_total s' = 0.
Proof.
  intros Hl Hn. unfold validate.
  destruct (restart_iff_new_clock_hour s now) as [_ [[H _]|[_ [H1 [H2 _]]]]]; [contradiction|].
  cbv zeta in *. unfold safe, cur_total. rewrite H1, H2. split; [lia|reflexivity].
Qed.

Theorem no_limit_never_blocks s now : snd (validate None s now) = true.
Proof. reflexivity. Qed.

Theorem forced_bypasses limit s now : step limit s (Req now true) = (s, Some true).
Proof. reflexivity. Qed.

(* 4. count sites *)
Theorem charges_total k len nfail s limit : 0 <= nfail ->
  tot_total (fst (run limit s (charges k len nfail))) =
  tot_total s + match k with PPlace => len | PCancel | PUpdate => nfail | PReplace => len + nfail end.
Proof.
  intros Hn. rewrite totals_exact. unfold charges, adds_sum.
  destruct k; destruct (nfail =? 0) eqn:E; simpl; lia.
Qed.

(* SimPlaceP.v — C05: fills on arrival never breach the limit, never exceed what a level offers;
   fill-or-kill is all-or-nothing; best-price-execution off lapses. *)
From Coq Require Import ZArith List Bool Lia ZifyBool.
From V Require Import Model.Num Model.Status Model.Sim Proofs.NumP.
Open Scope Z_scope.

(* ---------- wap / set_frags / add_frag are bucket-neutral ---------- *)
Lemma set_frags_fields tb o fr :
  so_frags (set_frags tb o fr) = fr /\ so_size (set_frags tb o fr) = so_size o /\
  so_cancelled (set_frags tb o fr) = so_cancelled o /\ so_lapsed (set_frags tb o fr) = so_lapsed o /\
  so_voided (set_frags tb o fr) = so_voided o /\ so_type (set_frags tb o fr) = so_type o /\
  so_price (set_frags tb o fr) = so_price o /\ so_side (set_frags tb o fr) = so_side o /\
  so_matched (set_frags tb o fr) = fst (wap tb fr) /\ so_avg (set_frags tb o fr) = snd (wap tb fr).
Proof. unfold set_frags. destruct (wap tb fr) as [m a]. cbn. repeat split; reflexivity. Qed.

Definition frag_sum (fr : list frag) : Z := sumZ (map f_size fr).

Definition frags_pos (fr : list frag) : Prop := Forall (fun f => 0 < f_size f /\ 0 < f_price f) fr.

Lemma frags_pos_sums fr : frags_pos fr -> fr <> [] ->
  0 < sumZ (map f_size fr) /\ 0 < sumZ (map (fun f => f_price f * f_size f) fr).
Proof.
  intros H Hne. induction fr as [|f r IH]; [congruence|].
  inversion H as [|? ? [Hs Hp] Hr]; subst. destruct r as [|g r'].
  - simpl. split; nia.
  - destruct (IH Hr ltac:(discriminate)) as [I1 I2]. cbn [map sumZ] in *. split; nia.
Qed.

(* with positive fragments the reported matched size is the sum of the fragments *)
Lemma wap_matched tb fr : frags_pos fr -> fst (wap tb fr) = frag_sum fr.
Proof.
  intros H. unfold wap, frag_sum. destruct fr as [|f r]; [reflexivity|].
  destruct (frags_pos_sums (f :: r) H ltac:(discriminate)) as [H1 H2].
  destruct (sumZ (map f_size (f :: r)) =? 0) eqn:E1; [lia|].
  destruct (sumZ (map (fun f0 => f_price f0 * f_size f0) (f :: r)) =? 0) eqn:E2; [lia|]. reflexivity.
Qed.

(* ---------- the fills of _process_price_matched as a pure list ---------- *)
Fixpoint fills (sd : side) (price rem : Z) (avail : list (Z * Z)) : list (Z * Z) :=
  match avail with
  | [] => []
  | (ap, asz) :: r =>
      if rem =? 0 then []
      else if (match sd with Back => price <=? ap | Lay => ap <=? price end) then
             let rem' := zmax (rem - asz) 0 in
             (ap, if rem' =? 0 then rem else asz) :: fills sd price rem' r
           else []
  end.

Definition add_fills (tb : tiebreak) (pt : Z) (o : sorder) (fs : list (Z * Z)) : sorder :=
  fold_left (fun o ps => add_frag tb o pt (fst ps) (snd ps)) fs o.

Lemma price_matched_is_fills tb pt sd price : forall avail rem o,
  price_matched tb pt sd price rem avail o = add_fills tb pt o (fills sd price rem avail).
Proof.
  induction avail as [|[ap asz] r IH]; intros rem o; cbn [price_matched fills]; [reflexivity|].
  destruct (rem =? 0); [reflexivity|].
  destruct (match sd with Back => price <=? ap | Lay => ap <=? price end); [|reflexivity].
  cbn [add_fills fold_left fst snd]. apply IH.
Qed.

Lemma add_fills_frags tb pt : forall fs o,
  so_frags (add_fills tb pt o fs) = so_frags o ++ map (fun ps => {| f_pt := pt; f_price := fst ps; f_size := snd ps |}) fs.
Proof.
  induction fs as [|ps fs IH]; intros o; cbn [add_fills fold_left map]; [rewrite app_nil_r; reflexivity|].
  fold (add_fills tb pt (add_frag tb o pt (fst ps) (snd ps)) fs). rewrite IH. unfold add_frag.
  destruct (set_frags_fields tb o (so_frags o ++ [{| f_pt := pt; f_price := fst ps; f_size := snd ps |}])) as [E _].
  rewrite E, <- app_assoc. reflexivity.
Qed.

(* C05.1 limit: every fill is at the limit or better *)
Lemma fills_respect_limit sd price : forall avail rem,
  Forall (fun ps => match sd with Back => price <= fst ps | Lay => fst ps <= price end) (fills sd price rem avail).
Proof.
  induction avail as [|[ap asz] r IH]; intros rem; cbn [fills]; [constructor|].
  destruct (rem =? 0); [constructor|].
  destruct sd.
  - destruct (price <=? ap) eqn:E; [|constructor]. constructor; [cbn; lia|apply IH].
  - destruct (ap <=? price) eqn:E; [|constructor]. constructor; [cbn; lia|apply IH].
Qed.

(* C05.3 availability: the i-th fill is taken from the i-th level, at that level's price, and is
   no larger than what the level offers *)
Lemma fills_within_levels sd price : forall avail rem, 0 <= rem -> Forall (fun ps => 0 < snd ps) avail ->
  Forall2 (fun f lv => fst f = fst lv /\ 0 < snd f <= snd lv) (fills sd price rem avail) (firstn (length (fills sd price rem avail)) avail).
Proof.
  induction avail as [|[ap asz] r IH]; intros rem Hrem Hpos; cbn [fills]; [constructor|].
  inversion Hpos as [|? ? Hp Hr]; subst. cbn in Hp.
  destruct (rem =? 0) eqn:E0; [constructor|].
  destruct (match sd with Back => price <=? ap | Lay => ap <=? price end); [|constructor].
  cbn [length firstn]. constructor.
  - cbn [fst snd]. split; [reflexivity|]. rewrite zmax_spec. destruct (Z.max (rem - asz) 0 =? 0) eqn:E; lia.
  - apply IH; [rewrite zmax_spec; lia|exact Hr].
Qed.

(* total taken never exceeds the requested size *)
Lemma fills_total sd price : forall avail rem, 0 <= rem -> Forall (fun ps => 0 < snd ps) avail ->
  0 <= sumZ (map snd (fills sd price rem avail)) <= rem.
Proof.
  induction avail as [|[ap asz] r IH]; intros rem Hrem Hpos; cbn [fills]; [simpl; lia|].
  inversion Hpos as [|? ? Hp Hr]; subst. cbn in Hp.
  destruct (rem =? 0) eqn:E0; [simpl; lia|].
  destruct (match sd with Back => price <=? ap | Lay => ap <=? price end); [|simpl; lia].
  cbn [map sumZ snd]. rewrite zmax_spec in *.
  specialize (IH (Z.max (rem - asz) 0) ltac:(lia) Hr).
  destruct (Z.max (rem - asz) 0 =? 0) eqn:E; lia.
Qed.

(* ---------- fill-or-kill: VWAP path ---------- *)
Lemma vwap_loop_frags_ext tb pt sd price : forall avail rem o,
  exists ext, so_frags (vwap_loop tb pt sd price rem avail o) = so_frags o ++ ext /\
              Forall2 (fun f lv => f_price f = fst lv /\ f_pt f = pt) ext (firstn (length ext) avail).
Proof.
  induction avail as [|[ap asz] r IH]; intros rem o; cbn [vwap_loop]; [exists []; rewrite app_nil_r; split; [reflexivity|constructor]|].
  destruct (rem =? 0); [exists []; rewrite app_nil_r; split; [reflexivity|constructor]|].
  set (m := if zmax (rem - asz) 0 =? 0 then rem else asz).
  destruct (match sd with Back => price <=? snd (wap tb (so_frags o ++ [{| f_pt := pt; f_price := ap; f_size := m |}]))
                        | Lay => snd (wap tb (so_frags o ++ [{| f_pt := pt; f_price := ap; f_size := m |}])) <=? price end).
  - destruct (IH (zmax (rem - asz) 0) (add_frag tb o pt ap m)) as [ext [E F]].
    exists ({| f_pt := pt; f_price := ap; f_size := m |} :: ext). split.
    + rewrite E. unfold add_frag.
      destruct (set_frags_fields tb o (so_frags o ++ [{| f_pt := pt; f_price := ap; f_size := m |}])) as [E' _].
      rewrite E', <- app_assoc. reflexivity.
    + cbn [length firstn]. constructor; [cbn; split; reflexivity|exact F].
  - exists []. rewrite app_nil_r. split; [reflexivity|constructor].
Qed.

(* the volume-weighted average that the loop tests is the one of ALL fragments kept: after the loop
   either nothing was added or the rounded average of the kept fragments satisfies the limit *)
Lemma vwap_loop_avg tb pt sd price : forall avail rem o,
  so_frags (vwap_loop tb pt sd price rem avail o) = so_frags o \/
  (match sd with Back => price <= so_avg (vwap_loop tb pt sd price rem avail o)
               | Lay => so_avg (vwap_loop tb pt sd price rem avail o) <= price end).
Proof.
  induction avail as [|[ap asz] r IH]; intros rem o; cbn [vwap_loop]; [left; reflexivity|].
  destruct (rem =? 0); [left; reflexivity|].
  set (m := if zmax (rem - asz) 0 =? 0 then rem else asz).
  set (all := so_frags o ++ [{| f_pt := pt; f_price := ap; f_size := m |}]).
  destruct (match sd with Back => price <=? snd (wap tb all) | Lay => snd (wap tb all) <=? price end) eqn:E; [|left; reflexivity].
  right. destruct (IH (zmax (rem - asz) 0) (add_frag tb o pt ap m)) as [Hs|Hs]; [|exact Hs].
  (* nothing further added: the order is add_frag o, whose avg is exactly the tested one *)
  assert (Havg : so_avg (add_frag tb o pt ap m) = snd (wap tb all)).
  { unfold add_frag. fold all. destruct (set_frags_fields tb o all) as (_&_&_&_&_&_&_&_&_&A). exact A. }
  (* vwap_loop from a state either keeps that state's avg (if it adds nothing it returns the state itself) *)
  assert (Hkeep : forall avail' rem' o', so_frags (vwap_loop tb pt sd price rem' avail' o') = so_frags o' ->
                  vwap_loop tb pt sd price rem' avail' o' = o').
  { clear. induction avail' as [|[ap' asz'] r' IH']; intros rem' o' H; cbn [vwap_loop] in *; [reflexivity|].
    destruct (rem' =? 0); [reflexivity|].
    set (m' := if zmax (rem' - asz') 0 =? 0 then rem' else asz') in *.
    destruct (match sd with Back => price <=? snd (wap tb (so_frags o' ++ [{| f_pt := pt; f_price := ap'; f_size := m' |}]))
                          | Lay => snd (wap tb (so_frags o' ++ [{| f_pt := pt; f_price := ap'; f_size := m' |}])) <=? price end); [|reflexivity].
    exfalso.
    destruct (vwap_loop_frags_ext tb pt sd price r' (zmax (rem' - asz') 0) (add_frag tb o' pt ap' m')) as [ext [E' _]].
    rewrite E' in H. unfold add_frag in H.
    destruct (set_frags_fields tb o' (so_frags o' ++ [{| f_pt := pt; f_price := ap'; f_size := m' |}])) as [E'' _].
    rewrite E'' in H. rewrite <- app_assoc in H.
    apply (f_equal (@length frag)) in H. rewrite !app_length in H. simpl in H. lia. }
  rewrite (Hkeep _ _ _ Hs). rewrite Havg. destruct sd; lia.
Qed.

Definition fresh (o : sorder) : Prop :=
  so_frags o = [] /\ so_matched o = 0 /\ so_avg o = 0 /\ so_cancelled o = 0 /\ so_lapsed o = 0 /\ so_voided o = 0 /\
  so_type o = TLimit /\ 0 < so_size o.

(* C05.2 / C05.4 on the VWAP path: afterwards either nothing is matched, or at least min_fill is matched
   and the reported (2 dp) average satisfies the limit *)
Theorem vwap_all_or_nothing tb pt sd price size avail minfill o : fresh o ->
  let o' := vwap_matched tb pt sd price size avail minfill o in
  (so_frags o' = [] /\ so_matched o' = 0) \/
  (minfill <= so_matched o' /\ match sd with Back => price <= so_avg o' | Lay => so_avg o' <= price end).
Proof.
  intros (Hf & Hm & Ha & _). cbv zeta. unfold vwap_matched.
  destruct (so_matched (vwap_loop tb pt sd price size avail o) <? minfill) eqn:E.
  - left. unfold add_cancelled, upd_buckets. cbn [so_frags so_matched].
    destruct (set_frags_fields tb (vwap_loop tb pt sd price size avail o) []) as (F&_&_&_&_&_&_&_&M&_).
    rewrite F, M. split; reflexivity.
  - destruct (vwap_loop_avg tb pt sd price avail size o) as [Hs|Hs].
    + (* nothing added: matched = 0 *)
      assert (Hkeep : vwap_loop tb pt sd price size avail o = o).
      { clear - Hs. revert size o Hs. induction avail as [|[ap asz] r IH]; intros size o Hs; cbn [vwap_loop] in *; [reflexivity|].
        destruct (size =? 0); [reflexivity|].
        set (m := if zmax (size - asz) 0 =? 0 then size else asz) in *.
        destruct (match sd with Back => price <=? snd (wap tb (so_frags o ++ [{| f_pt := pt; f_price := ap; f_size := m |}]))
                              | Lay => snd (wap tb (so_frags o ++ [{| f_pt := pt; f_price := ap; f_size := m |}])) <=? price end); [|reflexivity].
        exfalso. destruct (vwap_loop_frags_ext tb pt sd price r (zmax (size - asz) 0) (add_frag tb o pt ap m)) as [ext [E' _]].
        rewrite E' in Hs. unfold add_frag in Hs.
        destruct (set_frags_fields tb o (so_frags o ++ [{| f_pt := pt; f_price := ap; f_size := m |}])) as [E'' _].
        rewrite E'', <- app_assoc in Hs. apply (f_equal (@length frag)) in Hs. rewrite !app_length in Hs. simpl in Hs. lia. }
      rewrite Hkeep in *. left. split; assumption.
    + right. split; [lia|exact Hs].
Qed.

(* ExposureP.v — C16: reported exposure = true worst case (selection level). *)
From Coq Require Import ZArith List Bool Lia ZifyBool.
From V Require Import Model.Num Model.Status Model.Exposure Model.ExposureSpec Proofs.NumP.
Open Scope Z_scope.

(* ---------- list_min over the cube of fill vectors ---------- *)
Lemma lm_cons d x l : l <> [] -> list_min d (x :: l) = Z.min x (list_min d l).
Proof. destruct l; [congruence|reflexivity]. Qed.

Lemma lm_app d l1 l2 : l1 <> [] -> l2 <> [] ->
  list_min d (l1 ++ l2) = Z.min (list_min d l1) (list_min d l2).
Proof.
  intros H1 H2. induction l1 as [|x l1 IH]; [congruence|].
  destruct l1 as [|y l1].
  - simpl app. rewrite lm_cons by assumption. reflexivity.
  - change ((x :: y :: l1) ++ l2) with (x :: ((y :: l1) ++ l2)).
    rewrite lm_cons by (simpl; discriminate). rewrite IH by discriminate.
    rewrite (lm_cons d x (y :: l1)) by discriminate. lia.
Qed.

Lemma lm_map_add {A} d c (f : A -> Z) l : l <> [] ->
  list_min d (map (fun x => c + f x) l) = c + list_min d (map f l).
Proof.
  intros H. induction l as [|x l IH]; [congruence|].
  destruct l as [|y l]; [reflexivity|].
  change (map (fun x0 => c + f x0) (x :: y :: l)) with ((c + f x) :: map (fun x0 => c + f x0) (y :: l)).
  change (map f (x :: y :: l)) with (f x :: map f (y :: l)).
  rewrite !lm_cons by (simpl; discriminate). rewrite IH by discriminate. lia.
Qed.

Lemma all_bools_nonempty n : all_bools n <> [].
Proof. induction n as [|n IH]; simpl; [discriminate|]. destruct (all_bools n); [congruence|simpl; discriminate]. Qed.

Definition contrib (win : bool) (o : osum) : Z := matched_pl win o + Z.min 0 (open_pl win o).

(* the minimum over all subsets of fills is the sum of the per-order minima *)
Theorem worst_is_sum win pos : worst win pos = sumZ (map (contrib win) pos).
Proof.
  unfold worst. induction pos as [|o r IH]; [reflexivity|].
  cbn [length all_bools map sumZ]. rewrite map_app, !map_map.
  rewrite lm_app by (intro H; apply map_eq_nil in H; apply (all_bools_nonempty _ H)).
  cbn [outcome_pl].
  rewrite (lm_map_add 0 (matched_pl win o + open_pl win o) (fun f => outcome_pl win f r))
    by apply all_bools_nonempty.
  rewrite (map_ext (fun x => matched_pl win o + 0 + outcome_pl win x r) (fun x => matched_pl win o + outcome_pl win x r))
    by (intros; lia).
  rewrite (lm_map_add 0 (matched_pl win o) (fun f => outcome_pl win f r)) by apply all_bools_nonempty.
  rewrite IH. unfold contrib. lia.
Qed.

(* ---------- the accumulator computes exactly those sums ---------- *)
Definition Wraw (a : acc) := matched_win_raw a + unmatched_win_raw a + 100 * moc_win a.
Definition Lraw (a : acc) := matched_lose_raw a + unmatched_lose_raw a + 100 * moc_lose a.

Lemma sum_ps_snoc l p s : sum_ps (l ++ [(p, s)]) = sum_ps l + (p - 100) * s.
Proof. unfold sum_ps. rewrite map_app, sumZ_app. simpl. lia. Qed.
Lemma sum_s_snoc l p s : sum_s (l ++ [(p, s)]) = sum_s l + s.
Proof. unfold sum_s. rewrite map_app, sumZ_app. simpl. lia. Qed.

Lemma add_order_raw pending excl a o : wf_o o = true ->
  Wraw (add_order pending excl a o) = Wraw a + (if counted pending excl o then contrib true o else 0) /\
  Lraw (add_order pending excl a o) = Lraw a + (if counted pending excl o then contrib false o else 0).
Proof.
  intros Hwf. unfold wf_o in Hwf. unfold add_order, counted.
  destruct (match excl with Some e => e =? o_id o | None => false end) eqn:Ex; cbn [negb andb]; [lia|].
  destruct (status_in (o_status o) pending) eqn:Es; cbn [negb]; [lia|].
  unfold contrib, matched_pl, open_pl, open_size, eff_avg, eff_price, bet_pl in *.
  unfold Wraw, Lraw, matched_win_raw, matched_lose_raw, unmatched_win_raw, unmatched_lose_raw.
  destruct (o_kind o) as [line|]; [|destruct (o_side o); cbn [mb ml ub ul moc_win moc_lose]; lia].
  destruct (o_matched o =? 0) eqn:Em; destruct (o_complete o) eqn:Ec;
    try (destruct ((if line then 200 else o_price o) =? 0) eqn:Ep);
    try (destruct (o_remaining o =? 0) eqn:Er);
    destruct (o_side o); destruct line; cbn [orb mb ml ub ul moc_win moc_lose];
    rewrite ?sum_ps_snoc, ?sum_s_snoc; nia.
Qed.

Lemma fold_raw pending excl L : forall a, forallb wf_o L = true ->
  Wraw (fold_left (add_order pending excl) L a) = Wraw a + sumZ (map (contrib true) (filter (counted pending excl) L)) /\
  Lraw (fold_left (add_order pending excl) L a) = Lraw a + sumZ (map (contrib false) (filter (counted pending excl) L)).
Proof.
  induction L as [|o L IH]; intros a Hwf; [simpl; lia|].
  cbn [forallb] in Hwf. apply andb_true_iff in Hwf as [Ho HL].
  cbn [fold_left filter]. destruct (IH (add_order pending excl a o) HL) as [IW IL].
  destruct (add_order_raw pending excl a o Ho) as [AW AL].
  rewrite IW, IL, AW, AL. destruct (counted pending excl o); cbn [map sumZ]; lia.
Qed.

(* ---------- C16.1: selection figures vs. the brute-force worst case ---------- *)
Theorem selection_within_a_penny tb pending orders excl new :
  forallb wf_o (orders ++ match new with Some n => [n] | None => [] end) = true ->
  let e := get_exposures tb pending orders excl new in
  let pos := position pending excl orders new in
  Z.abs (100 * e_win e - worst true pos) <= 100 /\ Z.abs (100 * e_lose e - worst false pos) <= 100.
Proof.
  intros Hwf e pos. subst e pos. unfold get_exposures, position.
  set (L := orders ++ match new with Some n => [n] | None => [] end) in *.
  destruct (fold_raw pending excl L acc0 Hwf) as [HW HL].
  set (a := fold_left (add_order pending excl) L acc0) in *.
  rewrite !worst_is_sum.
  change (Wraw acc0) with 0 in HW. change (Lraw acc0) with 0 in HL.
  unfold of_acc; cbn [e_win e_lose]. unfold Wraw, Lraw in *.
  pose proof (rnd_half tb (matched_win_raw a) 100 ltac:(lia)).
  pose proof (rnd_half tb (unmatched_win_raw a) 100 ltac:(lia)).
  pose proof (rnd_half tb (matched_lose_raw a) 100 ltac:(lia)).
  pose proof (rnd_half tb (unmatched_lose_raw a) 100 ltac:(lia)).
  lia.
Qed.

(* exact equality when the four raw sums lie on the penny grid *)
Theorem selection_exact_on_grid tb pending orders excl new :
  forallb wf_o (orders ++ match new with Some n => [n] | None => [] end) = true ->
  let a := fold_left (add_order pending excl) (orders ++ match new with Some n => [n] | None => [] end) acc0 in
  (matched_win_raw a) mod 100 = 0 -> (unmatched_win_raw a) mod 100 = 0 ->
  (matched_lose_raw a) mod 100 = 0 -> (unmatched_lose_raw a) mod 100 = 0 ->
  let e := get_exposures tb pending orders excl new in
  let pos := position pending excl orders new in
  100 * e_win e = worst true pos /\ 100 * e_lose e = worst false pos.
Proof.
  intros Hwf. cbv zeta. unfold get_exposures, position.
  set (L := orders ++ match new with Some n => [n] | None => [] end) in *.
  destruct (fold_raw pending excl L acc0 Hwf) as [HW HL].
  set (a := fold_left (add_order pending excl) L acc0) in *.
  intros M1 M2 M3 M4.
  rewrite !worst_is_sum.
  change (Wraw acc0) with 0 in HW. change (Lraw acc0) with 0 in HL.
  unfold of_acc; cbn [e_win e_lose]. unfold Wraw, Lraw in *.
  assert (E : forall n, n mod 100 = 0 -> 100 * rnd tb n 100 = n).
  { intros n Hn. replace n with ((n / 100) * 100) at 1 by (pose proof (Z_div_mod_eq_full n 100); lia).
    rewrite rnd_exact by lia. pose proof (Z_div_mod_eq_full n 100). lia. }
  pose proof (E _ M1). pose proof (E _ M2). pose proof (E _ M3). pose proof (E _ M4). lia.
Qed.

(* ---------- C16.3/4: status filter, exclusion and prospective order ---------- *)
Lemma fold_excl pending excl L : forall a,
  fold_left (add_order pending excl) L a =
  fold_left (add_order pending None) (filter (fun o => negb (match excl with Some e => e =? o_id o | None => false end)) L) a.
Proof.
  induction L as [|o L IH]; intros a; [reflexivity|]. cbn [fold_left filter].
  destruct (match excl with Some e => e =? o_id o | None => false end) eqn:E; cbn [negb].
  - rewrite IH. unfold add_order at 2. rewrite E. reflexivity.
  - cbn [fold_left]. rewrite IH. f_equal. unfold add_order. rewrite E. reflexivity.
Qed.

(* an order named as exclusion is handled exactly as if it had been removed, a prospective
   new order exactly as if it had been appended - provided they are different orders *)
Theorem exclusion_and_new_as_if tb pending orders e n :
  e <> o_id n ->
  get_exposures tb pending orders (Some e) (Some n) =
  get_exposures tb pending (filter (fun o => negb (e =? o_id o)) orders ++ [n]) None None.
Proof.
  intros Hne. unfold get_exposures. rewrite fold_excl, app_nil_r. rewrite filter_app. cbn [filter].
  replace (e =? o_id n) with false by lia. reflexivity.
Qed.

Theorem pending_orders_left_out tb pending orders excl new o :
  status_in (o_status o) pending = true ->
  get_exposures tb pending (o :: orders) excl new = get_exposures tb pending orders excl new.
Proof.
  intros H. unfold get_exposures. cbn [app fold_left]. unfold add_order at 2. rewrite H.
  destruct (match excl with Some e => e =? o_id o | None => false end); reflexivity.
Qed.

(* the case StrategyExposure really uses for REPLACE: exclusion == new_order.  The prospective
   order is then dropped as well: the figures are those of the book WITHOUT the order. *)
Theorem exclusion_equals_new_drops_it tb pending orders n :
  get_exposures tb pending orders (Some (o_id n)) (Some n) =
  get_exposures tb pending (filter (fun o => negb (o_id n =? o_id o)) orders) None None.
Proof.
  unfold get_exposures. rewrite fold_excl, app_nil_r. rewrite filter_app. cbn [filter].
  rewrite Z.eqb_refl. cbn [negb]. rewrite app_nil_r. reflexivity.
Qed.

Theorem selection_exposure_spec tb pending orders :
  let e := get_exposures tb pending orders None None in
  selection_exposure tb pending orders = Z.max 0 (- Z.min (e_win e) (e_lose e)).
Proof. cbv zeta. unfold selection_exposure. rewrite zmax_spec, zmin_spec. lia. Qed.

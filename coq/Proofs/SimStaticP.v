(* SimStaticP.v — the whole-run theorems of C04 / C05 / C07 with STATIC hypotheses only: what is assumed is decidable by looking at the
   scenario (its books, its script, its configuration), nothing about the run itself. *)
From Coq Require Import ZArith List Bool Lia ZifyBool.
From V Require Import Model.Num Model.Status Model.Sim Model.SimLoop Model.SimGuard Proofs.SimPlaceP Proofs.SimRunP Proofs.SimLimitRunP
     Proofs.SimAckRunP Proofs.SimNamesP Proofs.SimLinkP.
Open Scope Z_scope.

Lemma event_b2_sound sc n e : event_b2 sc n e = true -> event_ok2 sc n e.
Proof. unfold event_b2, event_ok2. intros H. apply andb_true_iff in H as [A B]. split; [apply event_b_sound; exact A|lia]. Qed.
Lemma cfg_ok_b_sound cf : cfg_ok_b cf = true -> cfg_ok cf.
Proof. unfold cfg_ok_b, cfg_ok. intros H. apply andb_true_iff in H as [A B]. split; [destruct (status_in SPending _); [discriminate|reflexivity]|destruct (status_in SExecComplete _); [discriminate|reflexivity]]. Qed.
Lemma initial_b_sound s : initial_b s = true -> initial_ok s.
Proof.
  unfold initial_b, initial_ok. intros H. apply andb_true_iff in H as [H H4]. apply andb_true_iff in H as [H H3]. apply andb_true_iff in H as [H1 H2].
  split; [|split; [|split; [destruct (s_queue s); [reflexivity|discriminate]|lia]]].
  - apply nodup_keys_b_sound in H1. clear - H1. induction (s_markets s) as [|m r IH]; [constructor|]. cbn [map] in *. apply NoDup_cons_iff in H1 as [A B].
    constructor; [|apply IH; exact B]. intro Hc. apply A. apply in_map_iff in Hc as [x [Hx Hin]]. apply in_map_iff. exists x. split; [rewrite Hx; reflexivity|exact Hin].
  - rewrite forallb_forall in H2. intros m Hm. specialize (H2 m Hm). destruct (mk_orders m); [|discriminate]. destruct (mk_analytics m); [|discriminate]. destruct (mk_book m); [discriminate|].
    repeat split; reflexivity.
Qed.

Section Static.
  Variables (tb : tiebreak) (cf : config) (n : Z) (sc : script) (es : list event) (s : sim).
  Hypothesis Hcfg : cfg_ok_b cf = true.
  Hypothesis Hinit : initial_b s = true.
  Hypothesis Hev : forallb (event_b2 sc n) es = true.
  Hypothesis Hkeys : keys_ok_b sc n es = true.

  Lemma static_guards : run_guard tb cf n sc es s /\ run_ack_guard tb cf n sc es s.
  Proof.
    destruct (keys_ok_b_sound sc n es Hkeys) as [Hd Hk].
    apply guards_hold; [apply cfg_ok_b_sound; exact Hcfg|apply initial_b_sound; exact Hinit| |exact Hd|exact Hk].
    rewrite forallb_forall in Hev. rewrite Forall_forall. intros e He. apply event_b2_sound. apply Hev. exact He.
  Qed.
  Lemma static_events : Forall (event_ok sc n) es.
  Proof. rewrite forallb_forall in Hev. rewrite Forall_forall. intros e He. apply (event_b2_sound sc n e (Hev e He)). Qed.
  Lemma static_initial : forall m0, In m0 (s_markets s) -> mk_orders m0 = [] /\ mk_analytics m0 = [] /\ mk_book m0 = None.
  Proof. destruct (initial_b_sound s Hinit) as (_ & H & _). exact H. Qed.

  Theorem run_conserves_static m o :
    In m (s_markets (fold_left (step tb cf n sc) es s)) -> In o (mk_orders m) -> so_type o = TLimit ->
    so_size o = so_matched o + remaining o + so_cancelled o + so_lapsed o + so_voided o /\
    0 <= so_matched o /\ 0 <= remaining o /\ 0 <= so_cancelled o /\ 0 <= so_lapsed o /\ 0 <= so_voided o /\
    so_matched o = frag_sum (so_frags o) /\ frags_pos (so_frags o).
  Proof. apply run_conserves; [apply simI_initial; exact static_initial|exact static_events|apply static_guards]. Qed.

  Theorem run_respects_limits_static m o f :
    In m (s_markets (fold_left (step tb cf n sc) es s)) -> In o (mk_orders m) -> so_type o = TLimit -> so_fok o = false -> In f (so_frags o) ->
    match so_side o with Back => so_price o <= f_price f | Lay => f_price f <= so_price o end.
  Proof.
    intros Hm Ho T F Hf.
    assert (HI : simL s) by (unfold simL; rewrite Forall_forall; intros m0 Hm0; unfold mktL; destruct (static_initial m0 Hm0) as [A _]; rewrite A; constructor).
    pose proof (run_L tb cf n sc es s HI static_events (proj1 static_guards)) as H. unfold simL in H. rewrite Forall_forall in H.
    specialize (H m Hm). unfold mktL in H. rewrite Forall_forall in H. specialize (H o Ho T F). unfold within in H. rewrite Forall_forall in H. exact (H f Hf).
  Qed.

  Theorem run_ack_after_latency_static m o t :
    In m (s_markets (fold_left (step tb cf n sc) es s)) -> In o (mk_orders m) -> so_placed o = Some t ->
    (if so_repl o then cf_lat_replace cf else cf_lat_place cf) < t - so_created o.
  Proof.
    intros Hm Ho Ht.
    assert (HI : simA cf s) by (unfold simA; rewrite Forall_forall; intros m0 Hm0; unfold mktA; destruct (static_initial m0 Hm0) as [A _]; rewrite A; constructor).
    pose proof (run_A tb cf n sc es s HI (proj2 static_guards)) as H. unfold simA in H. rewrite Forall_forall in H.
    specialize (H m Hm). unfold mktA in H. rewrite Forall_forall in H. exact (H o Ho t Ht).
  Qed.
End Static.

(* C07 "until then a new order is pending with no fills", over whole runs: in every reachable state an order whose placement has not been
   executed yet is exactly as it was created - no fragments, nothing matched, cancelled, lapsed or voided, no bet id - and is not among the
   statuses the matcher looks at *)
Section StaticPending.
  Variables (tb : tiebreak) (cf : config) (n : Z) (sc : script) (es : list event) (s : sim).
  Hypothesis Hcfg : cfg_ok_b cf = true.
  Hypothesis Hinit : initial_b s = true.
  Hypothesis Hev : forallb (event_b2 sc n) es = true.
  Hypothesis Hkeys : keys_ok_b sc n es = true.

  Theorem run_unplaced_untouched_static m o :
    In m (s_markets (fold_left (step tb cf n sc) es s)) -> In o (mk_orders m) -> so_placed o = None ->
    so_frags o = [] /\ so_matched o = 0 /\ so_cancelled o = 0 /\ so_lapsed o = 0 /\ so_voided o = 0 /\ so_bet o = None /\
    status_in (so_status o) (cf_mw_live cf) = false.
  Proof.
    intros Hm Ho Hp. destruct (keys_ok_b_sound sc n es Hkeys) as [Hd Hk].
    assert (He : Forall (event_ok2 sc n) es) by (rewrite forallb_forall in Hev; rewrite Forall_forall; intros e He; apply event_b2_sound; apply Hev; exact He).
    destruct (run_QB tb cf n sc (cfg_ok_b_sound cf Hcfg) es [] s He (initial_QB cf _ s (initial_b_sound s Hinit) Hd Hk)) as (_ & _ & [[_ HL] _]).
    destruct HL as [LA _ _ _ _ _]. destruct (LA m Hm o Ho Hp) as ((F & M & C & L & V) & B & _ & _ & St). repeat split; assumption.
  Qed.
End StaticPending.

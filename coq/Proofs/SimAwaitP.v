(* SimAwaitP.v — C12 (simulated execution) over whole runs: no order is ever stranded.  In every reachable state that has not aborted, an order
   whose status says it is awaiting an answer (Pending, Cancelling, Updating, Replacing) has the package of that request still in the queue,
   addressed to it and of the matching kind - so it will be answered at a later update of its market; every other operation of the loop
   (matching, starting-price conversion, runner removal, sweep, other packages) only ever moves an order to Executable / Execution complete. *)
From Coq Require Import ZArith List Bool Lia ZifyBool Permutation.
From V Require Import Model.Num Model.Status Model.Sim Model.SimLoop Model.SimGuard Proofs.NumP Proofs.SimPlaceP Proofs.SimPlaceP2
     Proofs.SimIsolationP Proofs.SimRemovalsP Proofs.SimRunP Proofs.SimAckRunP Proofs.SimNamesP Proofs.SimLinkP.
Open Scope Z_scope.

Definition awaits (st : status) (k : pkind) : Prop :=
  match st, k with
  | SPending, KPlace | SCancelling, KCancel | SUpdating, KUpdate | SReplacing, KReplace => True
  | _, _ => False
  end.
Definition awaiting (o : sorder) : Prop := exists k, awaits (so_status o) k.

Lemma not_awaiting_executable o : so_status o = SExecutable \/ so_status o = SExecComplete \/ so_status o = SViolation -> ~ awaiting o.
Proof. intros H [k Hk]. destruct H as [H|[H|H]]; rewrite H in Hk; destruct k; exact Hk. Qed.

(* ---------- the status is not touched by the order-level functions of the matcher ---------- *)
Lemma st_set_frags tb o fr : so_status (set_frags tb o fr) = so_status o.
Proof. unfold set_frags. destruct (wap tb fr). reflexivity. Qed.
Lemma st_add_frag tb o pt p s : so_status (add_frag tb o pt p s) = so_status o.
Proof. apply st_set_frags. Qed.
Lemma st_calc_traded tb pt ts o : so_status (fst (calc_traded tb pt ts o)) = so_status o.
Proof.
  unfold calc_traded. destruct (so_piq2 o <? ts); [|reflexivity]. cbv zeta. cbn [fst].
  destruct (rnd tb (zmin (2 * remaining o) (ts - so_piq2 o)) 2 =? 0); [reflexivity|].
  change (so_status (upd_sim ?x _ _ _)) with (so_status x). apply st_add_frag.
Qed.
Lemma st_process_traded tb pt : forall tr o, so_status (fst (process_traded tb pt tr o)) = so_status o.
Proof.
  induction tr as [|[tp ts] r IH]; intros o; cbn [process_traded]; [reflexivity|].
  destruct (match so_side o with Back => so_price o <=? tp | Lay => tp <=? so_price o end).
  - pose proof (st_calc_traded tb pt ts o) as H1. destruct (calc_traded tb pt ts o) as [o1 m]. cbn [fst] in H1.
    pose proof (IH o1) as H2. destruct (process_traded tb pt r o1) as [o2 r']. cbn [fst] in *. congruence.
  - pose proof (IH o) as H2. destruct (process_traded tb pt r o) as [o2 r']. exact H2.
Qed.
Lemma st_process_sp tb c pt r o : so_status (fst (process_sp tb c pt r o)) = so_status o.
Proof.
  unfold process_sp. destruct (r_sp r) as [sp|]; [|reflexivity]. destruct (sp =? 0); [reflexivity|]. cbv zeta.
  set (o' := upd_sim o (so_mver o) (so_piq2 o) true). assert (H0 : so_status o' = so_status o) by reflexivity.
  destruct (so_type o'); destruct (so_side o'); cbn [fst];
    repeat match goal with |- context [if ?c then _ else _] => destruct c end; cbn [fst]; rewrite ?st_add_frag; try exact H0; reflexivity.
Qed.
Lemma st_on_book tb c b r tr o : so_status (fst (fst (on_book tb c b r tr o))) = so_status o.
Proof.
  unfold on_book. cbv zeta.
  destruct (negb (so_bsp o) && b_bsp_rec b) eqn:E1.
  - destruct (take_sp o).
    + pose proof (st_process_sp tb c (b_pt b) r o) as H. destruct (process_sp tb c (b_pt b) r o) as [o1 d]. exact H.
    + set (o' := upd_sim o (so_mver o) (so_piq2 o) true). assert (H0 : so_status o' = so_status o) by reflexivity.
      destruct (so_type o'); [|exact H0|exact H0].
      set (o1 := if negb (opt_eqb Z.eqb (so_mver o') (Some (b_version b))) then upd_sim o' (Some (b_version b)) (so_piq2 o') (so_bsp o') else o').
      assert (H1 : so_status o1 = so_status o) by (unfold o1; destruct (negb (opt_eqb Z.eqb (so_mver o') (Some (b_version b)))); exact H0).
      destruct (negb (opt_eqb Z.eqb (so_mver o') (Some (b_version b))) && mstatus_eqb (b_status b) MSuspended && persist_eqb (so_persist o1) PLapse); [exact H1|].
      destruct tr as [|t0 tr0]; [exact H1|]. pose proof (st_process_traded tb (b_pt b) (t0 :: tr0) o1) as H.
      destruct (process_traded tb (b_pt b) (t0 :: tr0) o1) as [o2 tr']. cbn [fst] in *. rewrite H. exact H1.
  - destruct (so_type o); [|reflexivity|reflexivity].
    set (o1 := if negb (opt_eqb Z.eqb (so_mver o) (Some (b_version b))) then upd_sim o (Some (b_version b)) (so_piq2 o) (so_bsp o) else o).
    assert (H1 : so_status o1 = so_status o) by (unfold o1; destruct (negb (opt_eqb Z.eqb (so_mver o) (Some (b_version b)))); reflexivity).
    destruct (negb (opt_eqb Z.eqb (so_mver o) (Some (b_version b))) && mstatus_eqb (b_status b) MSuspended && persist_eqb (so_persist o1) PLapse); [exact H1|].
    destruct tr as [|t0 tr0]; [exact H1|]. pose proof (st_process_traded tb (b_pt b) (t0 :: tr0) o1) as H.
    destruct (process_traded tb (b_pt b) (t0 :: tr0) o1) as [o2 tr']. cbn [fst] in *. rewrite H. exact H1.
Qed.
Lemma st_removal_order tb mt b rsel adj min_adj o o' : removal_order tb mt b rsel adj min_adj o = Some o' -> so_status o' = so_status o.
Proof.
  unfold removal_order. destruct (so_sel o =? rsel).
  - intros H. inversion H; subst. change (so_status (upd_buckets ?x _ _ _)) with (so_status x). apply st_set_frags.
  - destruct (so_type o); destruct (so_side o); destruct adj as [a|];
      repeat match goal with
             | |- context [if ?c then _ else _] => destruct c
             | |- context [match ?mt0 with MWin => _ | _ => _ end] => destruct mt0
             | |- context [match find_runner ?x ?y with _ => _ end] => destruct (find_runner x y)
             end;
      intros H; inversion H; subst; try reflexivity; try (cbn [so_status]; apply st_set_frags).
Qed.

(* ---------- what every operation other than a request does to an order: it keeps its name and never makes it await anything new ---------- *)
Definition calm (o o' : sorder) : Prop := so_name o' = so_name o /\ (awaiting o' -> so_status o' = so_status o).
Lemma calm_refl o : calm o o.  Proof. split; [reflexivity|auto]. Qed.
Lemma calm_trans a b c : calm a b -> calm b c -> calm a c.
Proof. intros [N1 S1] [N2 S2]. split; [congruence|]. intros H. pose proof (S2 H) as E. rewrite E. apply S1. destruct H as [k Hk]. exists k. rewrite <- E. exact Hk. Qed.
Lemma calm_same o o' : so_name o' = so_name o -> so_status o' = so_status o -> calm o o'.
Proof. intros N S. split; [exact N|intros _; exact S]. Qed.
Lemma calm_settled o o' : so_name o' = so_name o -> so_status o' = SExecutable \/ so_status o' = SExecComplete \/ so_status o' = SViolation -> calm o o'.
Proof. intros N S. split; [exact N|]. intros H. exfalso. exact (not_awaiting_executable o' S H). Qed.

Lemma F2_calm_refl os : Forall2 calm os os.  Proof. induction os; constructor; [apply calm_refl|assumption]. Qed.
Lemma F2_calm_trans a b c : Forall2 calm a b -> Forall2 calm b c -> Forall2 calm a c.
Proof. intros H. revert c. induction H as [|x y l l' Hxy Hl IH]; intros c Hc; inversion Hc; subst; constructor; [eapply calm_trans; eassumption|apply IH; assumption]. Qed.
Lemma upd_order_first_calm n o2 : forall os o, get_order n os = Some o -> calm o o2 -> Forall2 calm os (upd_order n (fun _ => o2) os).
Proof. apply (upd_order_first_R calm n o2 calm_refl). Qed.

Lemma mstep_calm tb cf b os lk o0 : Forall2 calm os (fst (mstep tb cf b (os, lk) o0)).
Proof.
  unfold mstep. destruct (get_order (so_name o0) os) as [o|] eqn:Eg; [|apply F2_calm_refl].
  cbv zeta. destruct (find_runner b (so_sel o)) as [r|]; [|apply F2_calm_refl].
  set (tr := match find (fun e => fst e =? so_sel o) lk with Some e => snd e | None => [] end).
  pose proof (st_on_book tb (client_of cf (so_strat o)) b r tr o) as HS.
  pose proof (ns_on_book tb (client_of cf (so_strat o)) b r tr o) as HN. apply (f_equal fst) in HN. cbn [ns fst] in HN.
  destruct (on_book tb (client_of cf (so_strat o)) b r tr o) as [[o1 tr'] done]. cbn [fst snd] in *.
  destruct (get_order_in _ _ _ Eg) as [_ Hn]. rewrite Hn.
  eapply upd_order_first_calm; [exact Eg|]. destruct done; [apply calm_settled; [exact HN|right; left; reflexivity]|apply calm_same; assumption].
Qed.
Lemma match_orders_calm tb cf b ans live os : Forall2 calm os (match_orders tb cf b ans live os).
Proof.
  rewrite match_orders_fold.
  assert (G : forall l os0 lk, Forall2 calm os0 (fst (fold_left (mstep tb cf b) l (os0, lk)))).
  { induction l as [|x l IH]; intros os0 lk; cbn [fold_left]; [apply F2_calm_refl|].
    pose proof (mstep_calm tb cf b os0 lk x) as H1. destruct (mstep tb cf b (os0, lk) x) as [os1 lk1]. cbn [fst] in H1.
    eapply F2_calm_trans; [exact H1|apply IH]. }
  apply G.
Qed.
Theorem process_sim_orders_calm tb cf b ans os : Forall2 calm os (process_sim_orders tb cf b ans os).
Proof.
  unfold process_sim_orders. destruct (cf_isolation cf).
  - assert (G : forall sts os0, Forall2 calm os0 (fold_left (fun os1 st => let live := filter (fun o => (so_strat o =? st) && status_in (so_status o) (cf_mw_live cf)) os1 in
                                                    match live with [] => os1 | _ :: _ => match_orders tb cf b ans live os1 end) sts os0)).
    { induction sts as [|s r IH]; intros os0; cbn [fold_left]; [apply F2_calm_refl|]. cbv zeta.
      eapply F2_calm_trans; [|apply IH]. destruct (filter _ os0); [apply F2_calm_refl|apply match_orders_calm]. }
    apply G.
  - cbv zeta. destruct (filter (fun o => so_in_live o) os) as [|l0 ls]; [apply F2_calm_refl|].
    match goal with |- Forall2 _ _ (fst (fold_left ?F ?l _)) => set (F0 := F); generalize l end. intros l.
    assert (G : forall lx st, Forall2 calm (fst st) (fst (fold_left F0 lx st))).
    { induction lx as [|x r IH]; intros st; cbn [fold_left]; [apply F2_calm_refl|].
      eapply F2_calm_trans; [|apply IH]. destruct st as [os1 lk]. unfold F0. cbn [fst].
      destruct (get_order (so_name x) os1) as [o|] eqn:Eg; [|apply F2_calm_refl].
      destruct (negb (status_in (so_status o) (cf_mw_live cf))); [apply F2_calm_refl|].
      pose proof (mstep_calm tb cf b os1 lk x) as Hm. unfold mstep in Hm. rewrite Eg in Hm. exact Hm. }
    apply (G l (os, map (fun a => (an_sel a, an_traded a)) ans)).
Qed.
Lemma completion_sweep_calm cf now os : Forall2 calm os (completion_sweep cf now os).
Proof.
  unfold completion_sweep. induction os as [|o r IH]; cbn [map]; constructor; [|exact IH].
  destruct (negb (so_in_live o)); [apply calm_refl|]. destruct (so_complete o); [apply calm_same; reflexivity|].
  destruct (so_type o); [destruct (remaining o =? 0)|destruct (so_bsp o)|destruct (so_bsp o)]; try apply calm_refl;
    (apply calm_settled; [reflexivity|right; left; reflexivity]).
Qed.
Lemma apply_removal_calm (f : sorder -> option sorder) : (forall o o', f o = Some o' -> so_name o' = so_name o /\ so_status o' = so_status o) ->
  forall os, Forall2 calm os (fst (apply_removal f os)).
Proof.
  intros Hf. induction os as [|o r IH]; cbn [apply_removal]; [constructor|]. destruct (f o) as [o'|] eqn:E; [|apply F2_calm_refl].
  destruct (apply_removal f r) as [r' e]. cbn [fst] in *. destruct (Hf o o' E) as [A B]. constructor; [apply calm_same; assumption|exact IH].
Qed.
Theorem middleware_calm tb cf s m b : Forall2 calm (mk_orders m) (mk_orders (snd (middleware tb cf s m b))).
Proof.
  rewrite middleware_unfold.
  destruct (collect (mk_id m) (b_runners b) (mk_analytics m, s_removals s, [])) as [[ans rems] newrems].
  assert (G : forall l st, Forall2 calm (fst st) (fst (fold_left (fun (st : list sorder * bool) k => if snd st then st
                 else apply_removal (removal_order tb (ms_type (mk_static m)) b (fst k) (snd k) (cf_min_adj cf)) (fst st)) l st))).
  { induction l as [|k l IH]; intros st; cbn [fold_left]; [apply F2_calm_refl|]. eapply F2_calm_trans; [|apply IH]. destruct (snd st); [apply F2_calm_refl|].
    apply apply_removal_calm. intros o o' E. split; [eapply nm_removal_order; exact E|eapply st_removal_order; exact E]. }
  unfold apply_new. specialize (G newrems (mk_orders m, false)).
  destruct (fold_left _ newrems (mk_orders m, false)) as [orders1 raised]. cbn [fst snd mk_orders] in *.
  destruct raised; [exact G|]. destruct (mk_active m); [eapply F2_calm_trans; [exact G|apply process_sim_orders_calm]|exact G].
Qed.

(* ====================== the invariant ====================== *)
Definition awaitsI (L : list pkg) (ms : list market) : Prop :=
  forall m o k, In m ms -> In o (mk_orders m) -> awaits (so_status o) k -> exists p, In p L /\ pkey p = (mk_id m, so_name o) /\ pk_kind p = k.
Definition booksI (ms : list market) : Prop := forall m, In m ms -> mk_orders m <> [] -> mk_book m <> None.

Section AwaitStep.
  Variables (Lold Lnew : list pkg) (ms : list market) (mid : Z) (m m' : market) (os1 ex : list sorder).
  Hypothesis Hids : NoDup (map mk_id ms).
  Hypothesis Hget : get_market mid ms = Some m.
  Hypothesis Hid' : mk_id m' = mid.
  Hypothesis Horders : mk_orders m' = os1 ++ ex.
  Hypothesis Hpair : Forall2 (fun o o' => so_name o' = so_name o /\ forall k, awaits (so_status o') k ->
                        (exists p, In p Lnew /\ pkey p = (mid, so_name o) /\ pk_kind p = k) \/
                        (awaits (so_status o) k /\ forall p0, In p0 Lold -> pkey p0 = (mid, so_name o) -> pk_kind p0 = k -> In p0 Lnew)) (mk_orders m) os1.
  Hypothesis Hex : forall x k, In x ex -> awaits (so_status x) k -> exists p, In p Lnew /\ pkey p = (mid, so_name x) /\ pk_kind p = k.
  Hypothesis Hother : forall p0, In p0 Lold -> pk_market p0 <> mid -> In p0 Lnew.
  Hypothesis HW : awaitsI Lold ms.

  Theorem await_step : awaitsI Lnew (upd_market mid (fun _ => m') ms).
  Proof.
    destruct (get_market_id _ _ _ Hget) as [Hin Hmid].
    intros m0 o' k Hm0 Ho' Hk. destruct (upd_const_in mid m' m ms m0 Hids Hin Hmid Hm0) as [->|[A Hne]].
    - rewrite Horders in Ho'. apply in_app_or in Ho' as [Ho'|Ho'].
      + destruct (Forall2_in_r _ _ _ _ Hpair Ho') as [o [Ho [N HP]]]. destruct (HP k Hk) as [(p & A & B & C)|[Hk0 Hkeep]].
        * exists p. split; [exact A|]. split; [rewrite Hid', N; exact B|exact C].
        * destruct (HW m o k Hin Ho Hk0) as (p0 & A & B & C). exists p0. split; [apply Hkeep; [exact A|rewrite B, Hmid; reflexivity|exact C]|].
          split; [rewrite Hid', N, B, Hmid; reflexivity|exact C].
      + destruct (Hex o' k Ho' Hk) as (p & A & B & C). exists p. split; [exact A|]. split; [rewrite Hid'; exact B|exact C].
    - destruct (HW m0 o' k A Ho' Hk) as (p0 & A0 & B & C). exists p0. split; [apply Hother; [exact A0|]|split; assumption].
      unfold pkey in B. inversion B. lia.
  Qed.
End AwaitStep.

Lemma awaitsI_incl L L' ms : awaitsI L ms -> (forall p, In p L -> In p L') -> awaitsI L' ms.
Proof. intros H Hsub m o k Hm Ho Hk. destruct (H m o k Hm Ho Hk) as (p & A & B & C). exists p. split; [apply Hsub; exact A|split; assumption]. Qed.

Lemma awaitsI_drop p L ms : awaitsI (p :: L) ms ->
  (forall m o, In m ms -> In o (mk_orders m) -> pkey p = (mk_id m, so_name o) -> ~ awaits (so_status o) (pk_kind p)) -> awaitsI L ms.
Proof.
  intros H Hno m o k Hm Ho Hk. destruct (H m o k Hm Ho Hk) as (p0 & [<-|A] & B & C); [|exists p0; split; [exact A|split; assumption]].
  exfalso. apply (Hno m o Hm Ho B). rewrite C. exact Hk.
Qed.

Lemma upd_order_first_R2 (R : sorder -> sorder -> Prop) n o2 : forall os o, NoDup (names os) -> get_order n os = Some o -> R o o2 ->
  (forall x, In x os -> so_name x <> n -> R x x) -> Forall2 R os (upd_order n (fun _ => o2) os).
Proof.
  induction os as [|x r IH]; intros o Hn Hg Hk Hrefl; [discriminate|]. unfold get_order in Hg. cbn [find] in Hg. cbn [upd_order].
  cbn [names map] in Hn. apply NoDup_cons_iff in Hn as [Hn1 Hn2].
  destruct (so_name x =? n) eqn:E.
  - inversion Hg; subst. constructor; [exact Hk|]. clear - Hn1 Hrefl E. assert (G : forall l, (forall y, In y l -> so_name y <> n) -> (forall y, In y l -> so_name y <> n -> R y y) -> Forall2 R l l).
    { induction l as [|y l IHl]; intros H1 H2; constructor; [apply H2; [left; reflexivity|apply H1; left; reflexivity]|apply IHl; intros z Hz; [apply H1|apply H2]; right; exact Hz]. }
    apply G; [|intros y Hy; apply Hrefl; right; exact Hy]. intros y Hy Hc. apply Hn1. replace (so_name o) with (so_name y) by lia. apply in_map. exact Hy.
  - constructor; [apply Hrefl; [left; reflexivity|lia]|]. eapply IH; [exact Hn2|exact Hg|exact Hk|]. intros y Hy. apply Hrefl. right. exact Hy.
Qed.

Lemma booksI_upd ms mid m m' : NoDup (map mk_id ms) -> get_market mid ms = Some m -> mk_id m' = mid -> (mk_orders m' <> [] -> mk_book m' <> None) ->
  booksI ms -> booksI (upd_market mid (fun _ => m') ms).
Proof.
  intros Hids Em Hid' Hb HB m0 Hm0. destruct (get_market_id _ _ _ Em) as [Hin Hmid].
  destruct (upd_const_in mid m' m ms m0 Hids Hin Hmid Hm0) as [->|[A _]]; [exact Hb|apply HB; exact A].
Qed.

(* ---------- one package ---------- *)
Theorem exec_pkg_W tb cf now fut s p L :
  simN fut s -> booksI (s_markets s) -> awaitsI (p :: L) (s_markets s) ->
  awaitsI L (s_markets (exec_pkg tb cf now s p)) /\ booksI (s_markets (exec_pkg tb cf now s p)).
Proof.
  intros HN HB HW. pose proof HN as (Hids & Hmk & _).
  assert (UNCH : (forall m o, In m (s_markets s) -> In o (mk_orders m) -> pkey p = (mk_id m, so_name o) -> ~ awaits (so_status o) (pk_kind p)) ->
                 awaitsI L (s_markets s) /\ booksI (s_markets s)) by (intros H; split; [eapply awaitsI_drop; eassumption|exact HB]).
  unfold exec_pkg.
  destruct (get_market (pk_market p) (s_markets s)) as [m|] eqn:Em.
  2:{ apply UNCH. intros m0 o0 Hm0 Ho0 Hk _. unfold pkey in Hk. inversion Hk as [[E1 E2]]. unfold get_market in Em.
      apply (find_none _ _ Em) in Hm0. lia. }
  destruct (get_market_id _ _ _ Em) as [Hin Hmid].
  assert (Hnd : NoDup (names (mk_orders m))) by (rewrite Forall_forall in Hmk; apply (Hmk m Hin)).
  assert (SAMEM : forall m0, In m0 (s_markets s) -> mk_id m0 = pk_market p -> m0 = m) by (intros m0 H0 E0; apply (nodup_ids_unique (s_markets s)); [exact Hids|exact H0|exact Hin|lia]).
  destruct (get_order (pk_order p) (mk_orders m)) as [o|] eqn:Eo.
  2:{ assert (X : awaitsI L (s_markets s) /\ booksI (s_markets s)).
      { apply UNCH. intros m0 o0 Hm0 Ho0 Hk _. unfold pkey in Hk. inversion Hk as [[E1 E2]]. rewrite (SAMEM m0 Hm0 (eq_sym E1)) in Ho0.
        unfold get_order in Eo. apply (find_none _ _ Eo) in Ho0. lia. }
      destruct (mk_book m); exact X. }
  destruct (get_order_in _ _ _ Eo) as [Hino Hname].
  assert (TARGET : forall m0 o0, In m0 (s_markets s) -> In o0 (mk_orders m0) -> pkey p = (mk_id m0, so_name o0) -> o0 = o).
  { intros m0 o0 Hm0 Ho0 Hk. unfold pkey in Hk. inversion Hk as [[E1 E2]]. rewrite (SAMEM m0 Hm0 (eq_sym E1)) in Ho0.
    apply (unique_by_name (mk_orders m)); [exact Hnd|exact Ho0|exact Hino|lia]. }
  destruct (mk_book m) as [b|] eqn:Eb.
  2:{ exfalso. apply (HB m Hin); [intro Hc; rewrite Hc in Hino; destruct Hino|exact Eb]. }
  destruct (status_eqb (so_status o) SViolation) eqn:Ev.
  { assert (X : awaitsI L (s_markets s) /\ booksI (s_markets s)).
    { apply UNCH. intros m0 o0 Hm0 Ho0 Hk Hc. rewrite (TARGET m0 o0 Hm0 Ho0 Hk) in Hc. destruct (so_status o); try discriminate. destruct (pk_kind p); exact Hc. }
    destruct (pk_kind p); exact X. }
  cbv zeta.
  (* the generic shape: the target is replaced by a settled order, possibly one settled order is appended *)
  assert (SHAPE : forall m' o' ex, mk_id m' = pk_market p -> mk_book m' = mk_book m -> mk_orders m' = upd_order (so_name o') (fun _ => o') (mk_orders m) ++ ex ->
            so_name o' = so_name o -> (so_status o' = SExecutable \/ so_status o' = SExecComplete \/ so_status o' = SViolation) ->
            (forall x, In x ex -> so_status x = SExecutable) ->
            awaitsI L (upd_market (pk_market p) (fun _ => m') (s_markets s)) /\ booksI (upd_market (pk_market p) (fun _ => m') (s_markets s))).
  { intros m' o' ex Hid' Hbk' Hord' Hn' Hst Hex. split.
    - apply (await_step (p :: L) L (s_markets s) (pk_market p) m m' (upd_order (so_name o') (fun _ => o') (mk_orders m)) ex Hids Em Hid' Hord'); [| | |exact HW].
      + apply (upd_order_first_R2 _ (so_name o') o' (mk_orders m) o); [exact Hnd|rewrite Hn', Hname; exact Eo| |].
        * split; [exact Hn'|]. intros k Hk. exfalso. apply (not_awaiting_executable o' Hst). exists k. exact Hk.
        * intros x Hx Hne. split; [reflexivity|]. intros k Hk. right. split; [exact Hk|]. intros p0 [<-|H0] Hpk _; [|exact H0].
          exfalso. apply Hne. unfold pkey in Hpk. inversion Hpk. lia.
      + intros x k Hx Hk. rewrite (Hex x Hx) in Hk. destruct k; destruct Hk.
      + intros p0 [<-|H0] Hne; [contradiction|exact H0].
    - apply (booksI_upd (s_markets s) (pk_market p) m m' Hids Em Hid'); [|exact HB]. intros _. rewrite Hbk', Eb. discriminate. }
  assert (PUT : forall o', so_name o' = so_name o -> (so_status o' = SExecutable \/ so_status o' = SExecComplete \/ so_status o' = SViolation) ->
            awaitsI L (upd_market (pk_market p) (fun m0 => set_orders m0 (upd_order (so_name o') (fun _ => o') (mk_orders m0))) (s_markets s)) /\
            booksI (upd_market (pk_market p) (fun m0 => set_orders m0 (upd_order (so_name o') (fun _ => o') (mk_orders m0))) (s_markets s))).
  { intros o' Hn' Hst. rewrite (upd_market_const _ _ m _ Em).
    apply (SHAPE _ o' []); [exact Hmid|reflexivity|cbn [set_orders mk_orders]; rewrite app_nil_r; reflexivity|exact Hn'|exact Hst|intros x []]. }
  assert (RST : forall x, so_status (reset_order (cf_complete cf) now x) = SExecutable \/ so_status (reset_order (cf_complete cf) now x) = SExecComplete \/ so_status (reset_order (cf_complete cf) now x) = SViolation).
  { intros x. unfold reset_order. destruct (status_eqb (so_status x) SExecComplete) eqn:E; [right; left; destruct (so_status x); try discriminate; reflexivity|left; reflexivity]. }
  destruct (pk_kind p) eqn:Ek.
  - pose proof (nm_sim_place tb (client_of cf (so_strat o)) (mk_static m) b (pk_mv p) o) as HNm.
    destruct (sim_place tb (client_of cf (so_strat o)) (mk_static m) b (pk_mv p) o) as [o1 ok]. cbn [fst] in HNm. rewrite mk_sim_markets.
    destruct ok; apply PUT; try (cbn; exact HNm); [left|right; left]; reflexivity.
  - pose proof (nm_sim_cancel b o) as HNm.
    destruct (sim_cancel b o) as [[o1 ok] c]. cbn [fst] in HNm. rewrite mk_sim_markets.
    destruct ok; [destruct (remaining o1 =? 0)|]; apply PUT; try (cbn; rewrite ?nm_reset_order; exact HNm); [right; left; reflexivity|left; reflexivity|apply RST].
  - rewrite mk_sim_markets. apply PUT; [apply nm_reset_order|apply RST].
  - destruct (status_eqb (so_status o) SExecComplete) eqn:Ec.
    { rewrite mk_sim_markets. apply UNCH. intros m0 o0 Hm0 Ho0 Hk Hc. rewrite (TARGET m0 o0 Hm0 Ho0 Hk) in Hc. destruct (so_status o); try discriminate. exact Hc. }
    pose proof (nm_sim_cancel b o) as HNm.
    destruct (sim_cancel b o) as [[o1 ok] sc]. cbn [fst] in HNm.
    destruct (negb ok); [rewrite mk_sim_markets; apply PUT; [rewrite nm_reset_order; exact HNm|apply RST]|].
    set (o2 := exec_complete (cf_complete cf) now o1). assert (N2 : so_name o2 = so_name o) by exact HNm.
    destruct (sc =? 0); [rewrite mk_sim_markets; apply PUT; [exact N2|right; left; reflexivity]|].
    match goal with |- context [sim_place tb ?c ?ms0 b ?mv ?r0] => destruct (sim_place tb c ms0 b mv r0) as [r1 okp] end.
    destruct okp; rewrite mk_sim_markets.
    + rewrite upd_market_twice by reflexivity. rewrite (upd_market_const _ _ m _ Em).
      match goal with |- context [set_orders _ (_ ++ [?x])] => set (r4 := x) end.
      apply (SHAPE _ o2 [r4]); [exact Hmid|reflexivity|reflexivity|exact N2|right; left; reflexivity|]. intros x [<-|[]]. reflexivity.
    + apply PUT; [rewrite nm_reset_order; exact N2|apply RST].
Qed.

(* ---------- requests ---------- *)
Lemma manage_W ms q mid m name o (f : sorder -> sorder) k st now bd mv :
  NoDup (map mk_id ms) -> get_market mid ms = Some m -> NoDup (names (mk_orders m)) -> get_order name (mk_orders m) = Some o ->
  (forall x, so_name (f x) = so_name x) -> (forall x, so_status (f x) = st) -> awaits st k ->
  awaitsI q ms -> awaitsI (q ++ [pkg_of k mid name now bd mv]) (upd_market mid (fun m0 => set_orders m0 (upd_order name f (mk_orders m))) ms).
Proof.
  intros Hids Em Hnd Eo Hfn Hfs Hk HW. destruct (get_market_id _ _ _ Em) as [Hin Hmid]. destruct (get_order_in _ _ _ Eo) as [Hino Hname].
  rewrite (upd_market_const _ _ m _ Em).
  apply (await_step q (q ++ [pkg_of k mid name now bd mv]) ms mid m (set_orders m (upd_order name f (mk_orders m))) (upd_order name f (mk_orders m)) [] Hids Em Hmid); [cbn [set_orders mk_orders]; rewrite app_nil_r; reflexivity| | | |exact HW].
  - assert (G : forall os, (forall x, In x os -> In x (mk_orders m)) -> Forall2 (fun o0 o' => so_name o' = so_name o0 /\ forall k0, awaits (so_status o') k0 ->
                        (exists p, In p (q ++ [pkg_of k mid name now bd mv]) /\ pkey p = (mid, so_name o0) /\ pk_kind p = k0) \/
                        (awaits (so_status o0) k0 /\ forall p0, In p0 q -> pkey p0 = (mid, so_name o0) -> pk_kind p0 = k0 -> In p0 (q ++ [pkg_of k mid name now bd mv]))) os (upd_order name f os)).
    { induction os as [|x r IH]; intros Hsub; cbn [upd_order]; [constructor|]. destruct (so_name x =? name) eqn:E.
      - constructor.
        + split; [apply Hfn|]. intros k0 Hk0. left. exists (pkg_of k mid name now bd mv). split; [apply in_or_app; right; left; reflexivity|].
          split; [unfold pkey; cbn; f_equal; lia|]. cbn. rewrite Hfs in Hk0. destruct st, k, k0; try destruct Hk; try destruct Hk0; reflexivity.
        + clear. induction r as [|y r IHr]; constructor; [|exact IHr]. split; [reflexivity|]. intros k0 Hk0. right. split; [exact Hk0|]. intros p0 H0 _ _. apply in_or_app. left. exact H0.
      - constructor; [|apply IH; intros y Hy; apply Hsub; right; exact Hy]. split; [reflexivity|]. intros k0 Hk0. right. split; [exact Hk0|].
        intros p0 H0 _ _. apply in_or_app. left. exact H0. }
    apply G. auto.
  - intros x k0 [].
  - intros p0 H0 _. apply in_or_app. left. exact H0.
Qed.

Theorem request0_W cf now st mid fut s a :
  simN (act_keys0 mid a ++ fut) s -> booksI (s_markets s) -> awaitsI (s_queue s) (s_markets s) ->
  awaitsI (s_queue (request0 cf now st mid s a)) (s_markets (request0 cf now st mid s a)) /\ booksI (s_markets (request0 cf now st mid s a)).
Proof.
  intros HN HB HW. pose proof HN as (Hids & Hmk & _).
  unfold request0. destruct (get_market mid (s_markets s)) as [m|] eqn:Em; [|split; assumption].
  destruct (get_market_id _ _ _ Em) as [Hin Hmid].
  assert (Hnd : NoDup (names (mk_orders m))) by (rewrite Forall_forall in Hmk; apply (Hmk m Hin)).
  assert (BK : forall os, market_open m = true \/ mk_orders m <> [] -> booksI (upd_market mid (fun m0 => set_orders m0 os) (s_markets s))).
  { intros os Hopen. rewrite (upd_market_const _ _ m _ Em). apply (booksI_upd (s_markets s) mid m (set_orders m os) Hids Em Hmid); [|exact HB]. intros _. cbn [set_orders mk_book].
    destruct Hopen as [Ho|Hne]; [unfold market_open in Ho; destruct (mk_book m); [discriminate|discriminate]|apply (HB m Hin Hne)]. }
  destruct a as [name sel sd t mv|name red|name p|name price mv|mid' a']; [| | | |split; assumption].
  - destruct (negb (market_open m)) eqn:Eo; [split; assumption|]. cbn [s_queue s_markets]. split; [|apply BK; left; destruct (market_open m); [reflexivity|discriminate]].
    rewrite (upd_market_const _ _ m _ Em).
    set (o1 := set_live (set_status (cf_complete cf) now (new_order name st mid sel sd t now false) SPending false) true).
    assert (Hn1 : so_name o1 = name) by (subst o1; destruct t; reflexivity).
    set (pn := {| pk_kind := KPlace; pk_market := mid; pk_order := name; pk_created := now; pk_bet_delay := match mk_book m with Some b => b_delay b | None => 0 end; pk_mv := mv |}).
    apply (await_step (s_queue s) (s_queue s ++ [pn]) (s_markets s) mid m (set_orders m (mk_orders m ++ [o1])) (mk_orders m) [o1] Hids Em Hmid eq_refl); [| | |exact HW].
    + clear. induction (mk_orders m) as [|y r IHr]; constructor; [|exact IHr]. split; [reflexivity|]. intros k0 Hk0. right. split; [exact Hk0|]. intros p0 H0 _ _. apply in_or_app. left. exact H0.
    + intros x k0 [Hx|[]] Hk0. rewrite <- Hx in *. exists pn. split; [apply in_or_app; right; left; reflexivity|]. split; [unfold pkey; cbn [pk_market pk_order pn]; rewrite Hn1; reflexivity|].
      unfold o1 in Hk0. cbn in Hk0. destruct k0; try destruct Hk0. reflexivity.
    + intros p0 H0 _. apply in_or_app. left. exact H0.
  - destruct (get_order name (mk_orders m)) as [o|] eqn:Eo; [|split; assumption].
    destruct (negb (order_validation_ok o) || negb (market_open m)); [split; assumption|].
    destruct (so_bet o); [|split; assumption]. destruct (so_type o); try (split; assumption).
    destruct (match red with Some x => negb (x =? 0) && (remaining o - x <? 0) | None => false end); [split; assumption|].
    destruct (negb (status_eqb (so_status o) SExecutable)); [split; assumption|]. cbn [s_queue s_markets].
    split; [|apply BK; right; destruct (get_order_in _ _ _ Eo) as [Hx _]; intro Hc; rewrite Hc in Hx; destruct Hx].
    apply (manage_W (s_markets s) (s_queue s) mid m name o _ KCancel SCancelling now _ None Hids Em Hnd Eo); [reflexivity|reflexivity|exact I|exact HW].
  - destruct (get_order name (mk_orders m)) as [o|] eqn:Eo; [|split; assumption].
    destruct (negb (order_validation_ok o) || negb (market_open m)); [split; assumption|].
    destruct (so_bet o); [|split; assumption]. destruct (so_type o); try (split; assumption).
    destruct (persist_eqb (so_persist o) p); [split; assumption|].
    destruct (negb (status_eqb (so_status o) SExecutable)); [split; assumption|]. cbn [s_queue s_markets].
    split; [|apply BK; right; destruct (get_order_in _ _ _ Eo) as [Hx _]; intro Hc; rewrite Hc in Hx; destruct Hx].
    apply (manage_W (s_markets s) (s_queue s) mid m name o _ KUpdate SUpdating now _ None Hids Em Hnd Eo); [reflexivity|reflexivity|exact I|exact HW].
  - destruct (get_order name (mk_orders m)) as [o|] eqn:Eo; [|split; assumption].
    destruct (negb (order_validation_ok o) || negb (market_open m)); [split; assumption|].
    destruct (so_bet o); [|split; assumption].
    destruct (so_type o); try (split; assumption);
    (destruct (so_price o =? price); [split; assumption|]; destruct (negb (status_eqb (so_status o) SExecutable)); [split; assumption|]; cbn [s_queue s_markets];
     split; [|apply BK; right; destruct (get_order_in _ _ _ Eo) as [Hx _]; intro Hc; rewrite Hc in Hx; destruct Hx];
     apply (manage_W (s_markets s) (s_queue s) mid m name o _ KReplace SReplacing now _ mv Hids Em Hnd Eo); [reflexivity|reflexivity|exact I|exact HW]).
Qed.

(* ---------- the loop ---------- *)
Definition awaitQ (fut : list (Z * Z)) (s : sim) : Prop :=
  simN fut s /\ booksI (s_markets s) /\ (s_aborted s = false -> awaitsI (s_queue s) (s_markets s)).

Lemma fold_aborted tb cf now : forall ps s, s_aborted s = true -> fold_left (fun s1 p => if s_aborted s1 then s1 else exec_pkg tb cf now s1 p) ps s = s.
Proof. induction ps as [|p ps IH]; intros s H; cbn [fold_left]; [reflexivity|]. rewrite H. apply IH. exact H. Qed.

Lemma fold_exec_W tb cf now fut rest : forall ps s, simN fut s -> booksI (s_markets s) -> (s_aborted s = false -> awaitsI (ps ++ rest) (s_markets s)) ->
  let s' := fold_left (fun s1 p => if s_aborted s1 then s1 else exec_pkg tb cf now s1 p) ps s in
  simN fut s' /\ booksI (s_markets s') /\ (s_aborted s' = false -> awaitsI rest (s_markets s')).
Proof.
  induction ps as [|p ps IH]; intros s HN HB HW; cbn [fold_left app] in *; [split; [exact HN|split; assumption]|].
  destruct (s_aborted s) eqn:Ea.
  - cbv zeta. rewrite (fold_aborted tb cf now ps s Ea). split; [exact HN|split; [exact HB|intros Hc; congruence]].
  - destruct (exec_pkg_W tb cf now fut s p (ps ++ rest) HN HB (HW eq_refl)) as [A B].
    apply IH; [apply exec_pkg_N; exact HN|exact B|intros _; exact A].
Qed.

Lemma in_partition {A} (f : A -> bool) l x : In x l -> In x (filter f l ++ filter (fun y => negb (f y)) l).
Proof. intros H. apply in_or_app. destruct (f x) eqn:E; [left|right]; apply filter_In; split; try exact H; rewrite ?E; reflexivity. Qed.

Theorem check_pending_W tb cf now mid fut s : awaitQ fut s -> awaitQ fut (check_pending tb cf now mid s).
Proof.
  intros (HN & HB & HW). unfold check_pending, awaitQ.
  set (fr := fun p => (pk_market p =? mid) && due cf now p).
  set (ps := filter fr (s_queue s)). set (rest := filter (fun p => negb (fr p)) (s_queue s)).
  assert (HW' : s_aborted s = false -> awaitsI (ps ++ rest) (s_markets s)) by (intros Ha; apply (awaitsI_incl (s_queue s)); [apply HW; exact Ha|intros p Hp; apply in_partition; exact Hp]).
  destruct (fold_exec_W tb cf now fut rest ps s HN HB HW') as (A & B & C).
  assert (Eq : s_queue (fold_left (fun s1 p => if s_aborted s1 then s1 else exec_pkg tb cf now s1 p) ps s) = s_queue s).
  { assert (G : forall l s0, s_queue (fold_left (fun s1 p => if s_aborted s1 then s1 else exec_pkg tb cf now s1 p) l s0) = s_queue s0).
    { induction l as [|p l IH]; intros s0; cbn [fold_left]; [reflexivity|]. rewrite IH. destruct (s_aborted s0); [reflexivity|apply exec_pkg_queue']. }
    apply G. }
  split; [unfold simN in *; cbn [s_markets s_next_name]; exact A|]. split; [cbn [s_markets]; exact B|].
  cbn [s_aborted s_queue s_markets]. rewrite Eq. exact C.
Qed.

Lemma request0_aborted cf now st mid s a : s_aborted (request0 cf now st mid s a) = s_aborted s.
Proof.
  unfold request0. destruct (get_market mid (s_markets s)) as [m|]; [|reflexivity].
  destruct a as [name sel sd t mv|name red|name p|name price mv|mid' a']; [| | | |reflexivity].
  - destruct (negb (market_open m)); reflexivity.
  - destruct (get_order name (mk_orders m)) as [o|]; [|reflexivity]. destruct (negb (order_validation_ok o) || negb (market_open m)); [reflexivity|].
    destruct (so_bet o); [|reflexivity]. destruct (so_type o); try reflexivity.
    destruct (match red with Some x => negb (x =? 0) && (remaining o - x <? 0) | None => false end); [reflexivity|]. destruct (negb (status_eqb (so_status o) SExecutable)); reflexivity.
  - destruct (get_order name (mk_orders m)) as [o|]; [|reflexivity]. destruct (negb (order_validation_ok o) || negb (market_open m)); [reflexivity|].
    destruct (so_bet o); [|reflexivity]. destruct (so_type o); try reflexivity.
    destruct (persist_eqb (so_persist o) p); [reflexivity|]. destruct (negb (status_eqb (so_status o) SExecutable)); reflexivity.
  - destruct (get_order name (mk_orders m)) as [o|]; [|reflexivity]. destruct (negb (order_validation_ok o) || negb (market_open m)); [reflexivity|].
    destruct (so_bet o); [|reflexivity]. destruct (so_type o); try reflexivity;
    (destruct (so_price o =? price); [reflexivity|]; destruct (negb (status_eqb (so_status o) SExecutable)); reflexivity).
Qed.
Lemma request_aborted cf now st mid s a : s_aborted (request cf now st mid s a) = s_aborted s.
Proof. unfold request. destruct a; apply request0_aborted. Qed.

(* requests are only ever issued on a state that has not aborted (step returns before them otherwise) *)
Lemma requests_W cf now st mid : forall acts fut s, s_aborted s = false -> awaitQ (flat_map (act_keys mid) acts ++ fut) s ->
  s_aborted (fold_left (request cf now st mid) acts s) = false /\ awaitQ fut (fold_left (request cf now st mid) acts s).
Proof.
  induction acts as [|a acts IH]; intros fut s Ha HI; cbn [fold_left flat_map app] in *; [split; assumption|].
  rewrite <- app_assoc in HI. destruct HI as (HN & HB & HW).
  apply IH; [rewrite request_aborted; exact Ha|].
  split; [apply request_N; exact HN|].
  unfold request, act_keys in *. destruct a;
    (destruct (request0_W cf now st _ _ s _ HN HB (HW Ha)) as [A B]; split; [exact B|intros _; exact A]).
Qed.
Lemma strategies_W cf now mid (f : Z -> list action) : forall sts fut s, s_aborted s = false ->
  awaitQ (flat_map (fun st => flat_map (act_keys mid) (f st)) sts ++ fut) s ->
  s_aborted (fold_left (fun s st => fold_left (request cf now st mid) (f st) s) sts s) = false /\
  awaitQ fut (fold_left (fun s st => fold_left (request cf now st mid) (f st) s) sts s).
Proof.
  induction sts as [|st sts IH]; intros fut s Ha HI; cbn [fold_left flat_map app] in *; [split; assumption|].
  rewrite <- app_assoc in HI. destruct (requests_W cf now st mid (f st) _ s Ha HI) as [A B]. apply IH; assumption.
Qed.

Lemma awaitQ_drop k fut s : awaitQ (k ++ fut) s -> awaitQ fut s.
Proof. intros (A & B & C). split; [eapply simN_drop; exact A|split; assumption]. Qed.

Theorem step_W tb cf n sc fut s e : awaitQ (ev_keys sc n e ++ fut) s -> awaitQ fut (step tb cf n sc s e).
Proof.
  intros HI. unfold step. destruct (s_aborted s) eqn:Eab; [eapply awaitQ_drop; exact HI|].
  set (s1 := match s_queue s with [] => s | _ => check_pending tb cf (b_pt (ev_book e)) (ev_market e) s end).
  assert (H1 : awaitQ (ev_keys sc n e ++ fut) s1) by (subst s1; destruct (s_queue s); [exact HI|apply check_pending_W; exact HI]).
  destruct (s_aborted s1) eqn:Ea1; [eapply awaitQ_drop; exact H1|].
  destruct (get_market (ev_market e) (s_markets s1)) as [m|] eqn:Em; [|eapply awaitQ_drop; exact H1].
  destruct (get_market_id _ _ _ Em) as [Hin Hmid].
  destruct H1 as (HN1 & HB1 & HW1). specialize (HW1 Ea1). pose proof HN1 as (Hids & Hmk & Hnx & Hd & Hk).
  destruct (mstatus_eqb (b_status (ev_book e)) MClosed).
  - apply (awaitQ_drop (ev_keys sc n e)). destruct (mk_seen m); [|split; [exact HN1|split; [exact HB1|intros _; exact HW1]]].
    split; [|split].
    + unfold simN. cbn [s_markets s_next_name]. rewrite ids_upd_market by reflexivity. split; [exact Hids|]. split; [|split; [exact Hnx|split; assumption]].
      apply Forall_upd_market; [exact Hmk|]. intros m' Hm'. exact Hm'.
    + cbn [s_markets]. rewrite (upd_market_const _ _ m _ Em). match goal with |- booksI (upd_market _ (fun _ => ?mm) _) => apply (booksI_upd (s_markets s1) (ev_market e) m mm Hids Em Hmid) end; [cbn; discriminate|exact HB1].
    + intros _. cbn [s_queue s_markets]. rewrite (upd_market_const _ _ m _ Em).
      match goal with |- awaitsI _ (upd_market _ (fun _ => ?mm) _) => apply (await_step (s_queue s1) (s_queue s1) (s_markets s1) (ev_market e) m mm (mk_orders m) [] Hids Em Hmid) end;
        [cbn; rewrite app_nil_r; reflexivity| |intros x k []|auto|exact HW1].
      clear. induction (mk_orders m) as [|y r IHr]; constructor; [|exact IHr]. split; [reflexivity|]. intros k0 Hk0. right. split; [exact Hk0|auto].
  - match goal with |- context [middleware tb cf s1 ?mm ?b] => set (m0 := mm) end.
    pose proof (middleware_N tb cf s1 m0 (ev_book e)) as (E1 & E2 & E3 & E4).
    pose proof (middleware_queue tb cf s1 m0 (ev_book e)) as E5.
    pose proof (middleware_book tb cf s1 m0 (ev_book e)) as E6.
    pose proof (middleware_calm tb cf s1 m0 (ev_book e)) as HK.
    assert (Eab2 : s_aborted (fst (middleware tb cf s1 m0 (ev_book e))) = s_aborted s1).
    { rewrite middleware_unfold. destruct (collect (mk_id m0) (b_runners (ev_book e)) (mk_analytics m0, s_removals s1, [])) as [[ans rems] newrems].
      destruct (apply_new tb cf m0 (ev_book e) newrems) as [oo rr]. reflexivity. }
    destruct (middleware tb cf s1 m0 (ev_book e)) as [s2 m1]. cbn [fst snd] in *. unfold m0 in E3, E4, HK. cbn [mk_id mk_orders] in E3, E4, HK.
    set (m2 := if mk_active m1 then set_orders m1 (completion_sweep cf (b_pt (ev_book e)) (mk_orders m1)) else m1).
    assert (HK2 : Forall2 calm (mk_orders m) (mk_orders m2)).
    { subst m2. destruct (mk_active m1); [|exact HK]. cbn [set_orders mk_orders]. eapply F2_calm_trans; [exact HK|apply completion_sweep_calm]. }
    assert (Hid2 : mk_id m2 = ev_market e) by (subst m2; destruct (mk_active m1); cbn; lia).
    assert (Hbk2 : mk_book m2 <> None) by (subst m2; destruct (mk_active m1); cbn [set_orders mk_book]; rewrite E6; discriminate).
    apply (fun H0 H => proj2 (strategies_W cf (b_pt (ev_book e)) (ev_market e) (fun st => sc st (ev_market e) (ev_idx e)) _ fut _ H0 H)); [cbn [s_aborted]; rewrite Eab2; exact Ea1|].
    fold (ev_keys sc n e). split; [|split].
    + unfold simN. cbn [s_markets s_next_name]. rewrite E1, E2.
      rewrite ids_upd_market_c by (intros x _; exact Hid2). split; [exact Hids|]. split; [|split; [exact Hnx|split; assumption]].
      rewrite Forall_forall in Hmk. rewrite Forall_forall. intros x Hx.
      destruct (upd_const_in (ev_market e) m2 m (s_markets s1) x Hids Hin Hmid Hx) as [->|[Hx' _]]; [|apply Hmk; exact Hx'].
      apply (mkN_same_names _ _ m); [lia| |apply Hmk; exact Hin].
      clear - HK2. induction HK2 as [|a b l l' [Hab _] Hl IH]; [reflexivity|]. cbn [names map]. rewrite Hab. f_equal. exact IH.
    + cbn [s_markets]. rewrite E1. apply (booksI_upd (s_markets s1) (ev_market e) m m2 Hids Em Hid2); [intros _; exact Hbk2|exact HB1].
    + intros _. cbn [s_queue s_markets]. rewrite E1, E5.
      apply (await_step (s_queue s1) (s_queue s1) (s_markets s1) (ev_market e) m m2 (mk_orders m2) [] Hids Em Hid2); [rewrite app_nil_r; reflexivity| |intros x k []|auto|exact HW1].
      clear - HK2. induction HK2 as [|a b l l' [Hab Hst] Hl IH]; constructor; [|exact IH]. split; [exact Hab|]. intros k0 Hk0. right.
      assert (E : so_status b = so_status a) by (apply Hst; exists k0; exact Hk0). split; [rewrite <- E; exact Hk0|auto].
Qed.

Theorem run_W tb cf n sc : forall es fut s, awaitQ (run_keys sc n es ++ fut) s -> awaitQ fut (fold_left (step tb cf n sc) es s).
Proof.
  induction es as [|e es IH]; intros fut s HI; cbn [fold_left run_keys flat_map app] in *; [exact HI|].
  apply IH. apply step_W. unfold run_keys. rewrite app_assoc. exact HI.
Qed.

(* C12 (simulation) over whole runs: nothing is stranded *)
Theorem run_nothing_stranded tb cf n sc es s m o k :
  initial_ok s -> NoDup (run_keys sc n es) -> Forall (fun x => snd x < 1000) (run_keys sc n es) ->
  let s' := fold_left (step tb cf n sc) es s in
  s_aborted s' = false -> In m (s_markets s') -> In o (mk_orders m) -> awaits (so_status o) k ->
  exists p, In p (s_queue s') /\ pk_market p = mk_id m /\ pk_order p = so_name o /\ pk_kind p = k.
Proof.
  intros (Hid & H0 & Hq & Hn) Hd Hk s' Hab Hm Ho Haw.
  assert (HI : awaitQ (run_keys sc n es ++ []) s).
  { rewrite app_nil_r. split; [|split].
    - split; [exact Hid|]. split; [|split; [exact Hn|split; assumption]].
      rewrite Forall_forall. intros m0 Hm0. destruct (H0 m0 Hm0) as (A & _). unfold mkN, names. rewrite A. split; [constructor|intros x []].
    - intros m0 Hm0 Hne. destruct (H0 m0 Hm0) as (A & _). contradiction.
    - intros _ m0 o0 k0 Hm0 Ho0. destruct (H0 m0 Hm0) as (A & _). rewrite A in Ho0. destruct Ho0. }
  destruct (run_W tb cf n sc es [] s HI) as (_ & _ & HW). destruct (HW Hab m o k Hm Ho Haw) as (p & A & B & C).
  exists p. unfold pkey in B. inversion B. repeat split; assumption.
Qed.

From V Require Import Proofs.SimStaticP.
Theorem run_nothing_stranded_b tb cf n sc es s m o k :
  initial_b s = true -> keys_ok_b sc n es = true ->
  let s' := fold_left (step tb cf n sc) es s in
  s_aborted s' = false -> In m (s_markets s') -> In o (mk_orders m) -> awaits (so_status o) k ->
  exists p, In p (s_queue s') /\ pk_market p = mk_id m /\ pk_order p = so_name o /\ pk_kind p = k.
Proof.
  intros Hi Hk. destruct (keys_ok_b_sound sc n es Hk) as [A B]. apply run_nothing_stranded; [apply initial_b_sound; exact Hi|exact A|exact B].
Qed.
(* in particular: once every request has been answered nothing awaits anything *)
Corollary run_quiescent_is_settled tb cf n sc es s m o :
  initial_b s = true -> keys_ok_b sc n es = true ->
  let s' := fold_left (step tb cf n sc) es s in
  s_aborted s' = false -> s_queue s' = [] -> In m (s_markets s') -> In o (mk_orders m) ->
  so_status o <> SPending /\ so_status o <> SCancelling /\ so_status o <> SUpdating /\ so_status o <> SReplacing.
Proof.
  intros Hi Hk s' Hab Hq Hm Ho.
  assert (G : forall k, ~ awaits (so_status o) k).
  { intros k Hk0. destruct (run_nothing_stranded_b tb cf n sc es s m o k Hi Hk Hab Hm Ho Hk0) as (p & A & _). fold s' in A. rewrite Hq in A. destruct A. }
  repeat split; intro E; [apply (G KPlace)|apply (G KCancel)|apply (G KUpdate)|apply (G KReplace)]; rewrite E; exact I.
Qed.

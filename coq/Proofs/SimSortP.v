(* SimSortP.v — C06.3: processing order = LAY by descending price, then BACK by ascending price, then market-on-close. *)
From Coq Require Import ZArith List Bool Lia Permutation Sorting.Sorted.
From V Require Import Model.Num Model.Status Model.Sim Model.SimLoop.
Open Scope Z_scope.

Lemma insert_perm key o : forall l, Permutation (insert_by key o l) (o :: l).
Proof.
  induction l as [|x r IH]; cbn [insert_by]; [reflexivity|].
  destruct (key o <? key x); [reflexivity|]. rewrite IH. apply perm_swap.
Qed.

Lemma sort_by_perm_aux key : forall l acc, Permutation (fold_left (fun acc o => insert_by key o acc) l acc) (l ++ acc).
Proof.
  induction l as [|o l IH]; intros acc; cbn [fold_left app]; [reflexivity|].
  rewrite IH. rewrite insert_perm. symmetry. apply Permutation_middle.
Qed.
Theorem sort_by_perm key l : Permutation (sort_by key l) l.
Proof. unfold sort_by. rewrite sort_by_perm_aux, app_nil_r. reflexivity. Qed.

Definition key_sorted (key : sorder -> Z) (l : list sorder) : Prop := StronglySorted (fun a b => key a <= key b) l.

Lemma insert_sorted key o : forall l, key_sorted key l -> key_sorted key (insert_by key o l).
Proof.
  induction l as [|x r IH]; intros Hs; cbn [insert_by]; [constructor; constructor|].
  inversion Hs as [|? ? Hr Hall]; subst.
  destruct (key o <? key x) eqn:E.
  - constructor; [exact Hs|]. constructor; [lia|]. rewrite Forall_forall in *. intros y Hy. specialize (Hall y Hy). lia.
  - constructor; [apply IH; exact Hr|].
    rewrite Forall_forall in *. intros y Hy.
    assert (Hin : In y (o :: r)) by (eapply Permutation_in; [apply insert_perm|exact Hy]).
    destruct Hin as [->|Hin]; [lia|apply Hall; exact Hin].
Qed.

Theorem sort_by_sorted key l : key_sorted key (sort_by key l).
Proof.
  unfold sort_by. assert (H : forall l acc, key_sorted key acc -> key_sorted key (fold_left (fun acc o => insert_by key o acc) l acc)).
  { induction l0 as [|o l0 IH]; intros acc Ha; cbn [fold_left]; [exact Ha|]. apply IH, insert_sorted, Ha. }
  apply H. constructor.
Qed.

(* the processing order: a permutation of the live orders; lays first by descending price (the better
   price for the other side first), then backs by ascending price, market-on-close orders last *)
Theorem sort_orders_spec l :
  Permutation (sort_orders l) l /\
  exists lays backs mocs, sort_orders l = lays ++ backs ++ mocs /\
    key_sorted (fun o => - so_price o) lays /\ key_sorted so_price backs /\
    Forall (fun o => so_side o = Lay /\ is_moc o = false) lays /\
    Forall (fun o => so_side o = Back /\ is_moc o = false) backs /\ Forall (fun o => is_moc o = true) mocs.
Proof.
  split.
  - unfold sort_orders.
    transitivity (filter (fun o => side_eqb (so_side o) Lay && negb (is_moc o)) l ++
                  filter (fun o => side_eqb (so_side o) Back && negb (is_moc o)) l ++ filter is_moc l).
    { apply Permutation_app; [apply sort_by_perm|]. apply Permutation_app; [apply sort_by_perm|reflexivity]. }
    induction l as [|o l IH]; [reflexivity|]. cbn [filter].
    destruct (so_side o), (is_moc o); cbn [side_eqb negb andb app].
    + symmetry. rewrite app_assoc. apply Permutation_cons_app. rewrite <- app_assoc. symmetry. exact IH.
    + symmetry. apply Permutation_cons_app. symmetry. exact IH.
    + symmetry. rewrite app_assoc. apply Permutation_cons_app. rewrite <- app_assoc. symmetry. exact IH.
    + apply perm_skip. exact IH.
  - eexists. eexists. eexists. split; [reflexivity|].
    split; [apply sort_by_sorted|]. split; [apply sort_by_sorted|].
    assert (F : forall key (P : sorder -> bool) l0, Forall (fun o => P o = true) (sort_by key (filter P l0))).
    { intros key P l0. rewrite Forall_forall. intros x Hx.
      assert (In x (filter P l0)) by (eapply Permutation_in; [apply sort_by_perm|exact Hx]).
      apply filter_In in H. apply H. }
    split; [|split].
    + pose proof (F sort_key_lay (fun o => side_eqb (so_side o) Lay && negb (is_moc o)) l) as H. rewrite Forall_forall in *.
      intros x Hx. specialize (H x Hx). cbn in H. destruct (so_side x), (is_moc x); cbn in H; try discriminate. auto.
    + pose proof (F so_price (fun o => side_eqb (so_side o) Back && negb (is_moc o)) l) as H. rewrite Forall_forall in *.
      intros x Hx. specialize (H x Hx). cbn in H. destruct (so_side x), (is_moc x); cbn in H; try discriminate. auto.
    + rewrite Forall_forall. intros x Hx. apply filter_In in Hx. apply Hx.
Qed.

(* RefsP.v — proofs for C19. *)
From Coq Require Import ZArith List Bool Lia ZifyBool.
From V Require Import Model.Num Model.Refs Gen.RefsC Proofs.NumP.
Ltac Zify.zify_post_hook ::= Z.to_euclidean_division_equations.
Open Scope Z_scope.

Lemma firstn_app_exact {A} (a b : list A) : firstn (length a) (a ++ b) = a.
Proof. induction a as [|x a IH]; simpl; [destruct b; reflexivity|]. rewrite IH. reflexivity. Qed.
Lemma skipn_app_exact {A} (a b : list A) : skipn (length a) (a ++ b) = b.
Proof. induction a as [|x a IH]; simpl; [reflexivity|exact IH]. Qed.

(* 1. round trip, for every hash of the configured length, every one-character separator, every id *)
Theorem roundtrip hl h sep id : length h = hl -> length sep = 1%nat ->
  parse_hash hl (mk_ref h sep id) = h /\ parse_id hl (mk_ref h sep id) = id.
Proof.
  intros Hh Hs. unfold parse_hash, parse_id, mk_ref. subst hl. split.
  - apply firstn_app_exact.
  - destruct sep as [|c [|c' sep']]; simpl in Hs; try lia.
    replace (h ++ [c] ++ id) with ((h ++ [c]) ++ id) by (rewrite <- app_assoc; reflexivity).
    replace (S (length h)) with (length (h ++ [c])) by (rewrite app_length; simpl; lia).
    apply skipn_app_exact.
Qed.

(* 2. characters *)
Lemma all_valid_app v a b : all_valid v (a ++ b) = all_valid v a && all_valid v b.
Proof. unfold all_valid. apply forallb_app. Qed.

Lemma hex_valid : forallb (fun x => implb (is_hex x) (existsb (Z.eqb x) VALID_CHARS)) (map Z.of_nat (seq 0 256)) = true.
Proof. vm_compute. reflexivity. Qed.

Lemma is_hex_range x : is_hex x = true -> 0 <= x < 256.
Proof. unfold is_hex. lia. Qed.

Lemma hex_char_valid x : is_hex x = true -> existsb (Z.eqb x) VALID_CHARS = true.
Proof.
  intros H. pose proof (is_hex_range x H) as Hr.
  pose proof hex_valid as Hv. rewrite forallb_forall in Hv.
  assert (Hin : In x (map Z.of_nat (seq 0 256))).
  { apply in_map_iff. exists (Z.to_nat x). split; [lia|]. apply in_seq. lia. }
  specialize (Hv x Hin). cbv beta in Hv. rewrite H in Hv. exact Hv.
Qed.

Lemma digit_is_hex x : is_digit x = true -> is_hex x = true.
Proof. unfold is_digit, is_hex. lia. Qed.

Theorem ref_chars_valid h sep id :
  forallb is_hex h = true -> valid_sep VALID_CHARS sep = true -> forallb is_digit id = true ->
  all_valid VALID_CHARS (mk_ref h sep id) = true.
Proof.
  intros Hh Hs Hi. unfold mk_ref. rewrite !all_valid_app. apply andb_true_iff. split; [|apply andb_true_iff; split].
  - unfold all_valid. rewrite forallb_forall in *. intros x Hx. apply hex_char_valid, Hh, Hx.
  - destruct sep as [|c [|c' r]]; cbn [valid_sep] in Hs; try discriminate. unfold all_valid. cbn [forallb]. rewrite Hs. reflexivity.
  - unfold all_valid. rewrite forallb_forall in *. intros x Hx. apply hex_char_valid, digit_is_hex, Hi, Hx.
Qed.

Theorem valid_sep_iff c : valid_sep VALID_CHARS c = true <-> exists x, c = [x] /\ In x VALID_CHARS.
Proof.
  split.
  - destruct c as [|x [|y r]]; cbn [valid_sep]; try discriminate. intros H. exists x. split; [reflexivity|].
    apply existsb_exists in H as [y [Hy He]]. apply Z.eqb_eq in He. subst. exact Hy.
  - intros [x [-> Hin]]. cbn [valid_sep]. apply existsb_exists. exists x. split; [exact Hin|apply Z.eqb_refl].
Qed.

(* 3. length *)
Theorem ref_length h sep id : length (mk_ref h sep id) = (length h + length sep + length id)%nat.
Proof. unfold mk_ref. rewrite !app_length. lia. Qed.

Lemma digits_aux_len : forall fuel k n acc, (k <= fuel)%nat -> (1 <= k)%nat ->
  0 <= n -> (10 ^ (Z.of_nat k - 1) <= n \/ k = 1%nat) -> n < 10 ^ Z.of_nat k ->
  length (digits_aux fuel n acc) = (length acc + k)%nat.
Proof.
  induction fuel as [|f IH]; intros k n acc Hk H1 Hn Hlo Hhi; [lia|].
  cbn [digits_aux]. destruct (n <? 10) eqn:E.
  - assert (k = 1%nat).
    { destruct Hlo as [Hlo|]; [|assumption]. destruct (Nat.eq_dec k 1); [assumption|].
      assert (10 ^ 1 <= 10 ^ (Z.of_nat k - 1)) by (apply Z.pow_le_mono_r; lia). lia. }
    subst k. simpl. lia.
  - assert (Hk2 : (2 <= k)%nat).
    { destruct (Nat.eq_dec k 1) as [->|]; [change (10 ^ Z.of_nat 1) with 10 in Hhi; lia|lia]. }
    rewrite (IH (k - 1)%nat); [simpl; lia|lia|lia|lia| |].
    + left. replace (Z.of_nat (k - 1) - 1) with (Z.of_nat k - 2) by lia.
      destruct Hlo as [Hlo|]; [|lia].
      replace (Z.of_nat k - 1) with ((Z.of_nat k - 2) + 1) in Hlo by lia.
      rewrite Z.pow_add_r in Hlo by lia. change (10 ^ 1) with 10 in Hlo.
      assert (0 < 10 ^ (Z.of_nat k - 2)) by (apply Z.pow_pos_nonneg; lia). nia.
    + replace (Z.of_nat k) with (Z.of_nat (k - 1) + 1) in Hhi by lia.
      rewrite Z.pow_add_r in Hhi by lia. change (10 ^ 1) with 10 in Hhi.
      assert (0 < 10 ^ Z.of_nat (k - 1)) by (apply Z.pow_pos_nonneg; lia). nia.
Qed.

(* an id below 10^18 has at most 18 digits, one at or above has at least 19 *)
Theorem digits_len_le_18 n : 0 <= n < 10 ^ 18 -> (length (digits n) <= 18)%nat.
Proof.
  intros [Hn Hlt]. unfold digits.
  assert (Hex : exists k, (1 <= k <= 18)%nat /\ (10 ^ (Z.of_nat k - 1) <= n \/ k = 1%nat) /\ n < 10 ^ Z.of_nat k).
  { assert (Hind : forall m, (1 <= m)%nat -> n < 10 ^ Z.of_nat m ->
        exists k, (1 <= k <= m)%nat /\ (10 ^ (Z.of_nat k - 1) <= n \/ k = 1%nat) /\ n < 10 ^ Z.of_nat k).
    { induction m as [|m IHm]; intros Hm Hb; [lia|].
      destruct (Nat.eq_dec m 0) as [->|Hm0]; [exists 1%nat; split; [lia|split; [right; reflexivity|exact Hb]]|].
      destruct (Z_lt_ge_dec n (10 ^ Z.of_nat m)) as [Hl|Hg].
      - destruct (IHm ltac:(lia) Hl) as [k [Hk1 Hk2]]. exists k. split; [lia|exact Hk2].
      - exists (S m). split; [lia|]. split; [left; replace (Z.of_nat (S m) - 1) with (Z.of_nat m) by lia; lia|exact Hb]. }
    apply (Hind 18%nat); [lia|exact Hlt]. }
  destruct Hex as [k [Hk [Hlo Hhi]]].
  rewrite (digits_aux_len 80 k n []); simpl; lia.
Qed.

Theorem digits_len_ge_19 n : 10 ^ 18 <= n < 10 ^ 19 -> length (digits n) = 19%nat.
Proof.
  intros [Hlo Hhi]. unfold digits. rewrite (digits_aux_len 80 19 n []); simpl; lia.
Qed.

Theorem ref_length_bound h sep n : length h = HASH_LEN -> length sep = 1%nat -> 0 <= n < 10 ^ 18 ->
  (length (mk_ref h sep (digits n)) <= 32)%nat.
Proof.
  intros Hh Hs Hn. rewrite ref_length, Hh, Hs. pose proof (digits_len_le_18 n Hn).
  change HASH_LEN with 13%nat. lia.
Qed.

(* 4. uniqueness / attribution: equal references have equal hash and equal id *)
Theorem ref_injective hl h1 s1 i1 h2 s2 i2 :
  length h1 = hl -> length h2 = hl -> length s1 = 1%nat -> length s2 = 1%nat ->
  mk_ref h1 s1 i1 = mk_ref h2 s2 i2 -> h1 = h2 /\ i1 = i2.
Proof.
  intros A B C D E.
  destruct (roundtrip hl h1 s1 i1 A C) as [P1 P2]. destruct (roundtrip hl h2 s2 i2 B D) as [Q1 Q2].
  rewrite E in P1, P2. split; congruence.
Qed.

(* distinct ids (the uuid1().time oracle is injective) give distinct references, whatever the separators *)
Corollary ref_unique hl h s1 s2 i1 i2 : length h = hl -> length s1 = 1%nat -> length s2 = 1%nat ->
  i1 <> i2 -> mk_ref h s1 i1 <> mk_ref h s2 i2.
Proof. intros A C D N E. destruct (ref_injective hl h s1 i1 h s2 i2 A A C D E). contradiction. Qed.

Lemma find_idx_sound k : forall l i j, find_idx lz_eqb k l i = Some j ->
  (i <= j)%nat /\ nth_error l (j - i) = Some k.
Proof.
  induction l as [|x l IH]; intros i j H; simpl in H; [discriminate|].
  destruct (lz_eqb x k) eqn:E.
  - inversion H; subst. apply list_eqb_Z_eq in E. subst. rewrite Nat.sub_diag. split; [lia|reflexivity].
  - destruct (IH _ _ H) as [Hle Hn]. split; [lia|].
    replace (j - i)%nat with (S (j - S i)) by lia. exact Hn.
Qed.

(* the order / strategy resolved from a reference produced by mk_ref are the ones that made it *)
Theorem resolve_attribution hl ids hashes h sep id o s :
  length h = hl -> length sep = 1%nat ->
  resolve hl ids hashes (mk_ref h sep id) = (Some o, Some s) ->
  nth_error ids o = Some id /\ nth_error hashes s = Some h.
Proof.
  intros Hh Hs. unfold resolve. destruct (roundtrip hl h sep id Hh Hs) as [-> ->].
  intros E. inversion E as [[E1 E2]].
  apply find_idx_sound in E1 as [_ E1]. apply find_idx_sound in E2 as [_ E2].
  rewrite Nat.sub_0_r in *. split; assumption.
Qed.

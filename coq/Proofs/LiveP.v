(* LiveP.v — lemmas about the live model (Model/Live.v): C12 (no stranding, counts, attribution), C10 (no trade left Pending),
   C03 (what a handler may write), C11 (what a snapshot row does). *)
From Coq Require Import ZArith List Bool Lia ZifyBool.
From V Require Import Model.Num Model.Status Model.Live.
Open Scope Z_scope.

Definition ostat (s : lstate) (n : Z) : option status := option_map lo_status (oget n (ls_orders s)).
Definition final2 : list (option status) := [Some SExecutable; Some SExecComplete].

(* ---------- orders: who writes what ---------- *)
Lemma oget_oupd n m f l : (forall o, lo_name (f o) = lo_name o) ->
  oget n (oupd m f l) = if n =? m then option_map f (oget n l) else oget n l.
Proof.
  intros Hf. unfold oget, oupd. induction l as [|o r IH]; cbn [map find]; [destruct (n =? m); reflexivity|].
  destruct (lo_name o =? m) eqn:E1.
  - rewrite Hf. destruct (lo_name o =? n) eqn:E2.
    + replace (n =? m) with true by lia. reflexivity.
    + exact IH.
  - destruct (lo_name o =? n) eqn:E2.
    + replace (n =? m) with false by lia. reflexivity.
    + exact IH.
Qed.

Lemma orders_complete_trade s t : ls_orders (complete_trade s t) = ls_orders s.
Proof. unfold complete_trade. destruct (tget' t (ls_trades s)); reflexivity. Qed.
Lemma orders_trade_set s t st : ls_orders (trade_set s t st) = ls_orders s.
Proof.
  unfold trade_set. cbv zeta.
  match goal with |- context [match ?x with Some _ => _ | None => _ end] => destruct x end; [|reflexivity].
  match goal with |- context [if ?c then _ else _] => destruct c end; [rewrite orders_complete_trade|]; reflexivity.
Qed.
Lemma orders_order_status s m st : ls_orders (order_status s m st) = oupd m (fun o => set_lo o st (ls_complete s)) (ls_orders s).
Proof.
  unfold order_status. cbv zeta.
  match goal with |- context [match ?x with Some _ => _ | None => _ end] => destruct x end; [|reflexivity].
  match goal with |- context [if ?c then _ else _] => destruct c end; [|reflexivity].
  match goal with |- context [match ?x with Some _ => _ | None => _ end] => destruct x end; [|reflexivity].
  match goal with |- context [if ?c then _ else _] => destruct c end; [rewrite orders_complete_trade|]; reflexivity.
Qed.
Lemma orders_set_fields s n f : ls_orders (set_fields s n f) = oupd n f (ls_orders s).
Proof. reflexivity. Qed.

Lemma ostat_trade_set s t st n : ostat (trade_set s t st) n = ostat s n.
Proof. unfold ostat. rewrite orders_trade_set. reflexivity. Qed.
Lemma ostat_order_status s m st n : ostat (order_status s m st) n = if n =? m then option_map (fun _ => st) (ostat s n) else ostat s n.
Proof.
  unfold ostat. rewrite orders_order_status, oget_oupd by reflexivity. destruct (n =? m); [|reflexivity].
  destruct (oget n (ls_orders s)); reflexivity.
Qed.
Lemma ostat_set_fields s m f n : (forall o, lo_name (f o) = lo_name o) -> (forall o, lo_status (f o) = lo_status o) ->
  ostat (set_fields s m f) n = ostat s n.
Proof.
  intros H1 H2. unfold ostat. rewrite orders_set_fields, oget_oupd by exact H1. destruct (n =? m); [|reflexivity].
  destruct (oget n (ls_orders s)); cbn; [rewrite H2|]; reflexivity.
Qed.

(* ---------- the relation "only Executable / Execution complete were written" ---------- *)
Definition wrote_final (s s' : lstate) : Prop :=
  forall n, (ostat s' n = ostat s n \/ In (ostat s' n) final2) /\ (ostat s n <> None -> ostat s' n <> None).
Lemma wf_refl s : wrote_final s s.
Proof. intros n. split; [left; reflexivity|auto]. Qed.
Lemma wf_trans s1 s2 s3 : wrote_final s1 s2 -> wrote_final s2 s3 -> wrote_final s1 s3.
Proof.
  intros H12 H23 n. destruct (H12 n) as [A1 B1], (H23 n) as [A2 B2]. split; [|auto].
  destruct A2 as [A2|A2]; [rewrite A2; exact A1|right; exact A2].
Qed.
Lemma wf_eq s s' : (forall n, ostat s' n = ostat s n) -> wrote_final s s'.
Proof. intros H n. rewrite H. split; [left; reflexivity|auto]. Qed.
Lemma wf_trade_set s t st : wrote_final s (trade_set s t st).
Proof. apply wf_eq. intros n. apply ostat_trade_set. Qed.
Lemma wf_order_status s m st : In (Some st) final2 -> wrote_final s (order_status s m st).
Proof.
  intros Hst n. rewrite ostat_order_status. destruct (n =? m); [|split; [left; reflexivity|auto]].
  destruct (ostat s n); cbn; [split; [right; exact Hst|discriminate]|split; [left; reflexivity|auto]].
Qed.
Lemma wf_set_fields s m f : (forall o, lo_name (f o) = lo_name o) -> (forall o, lo_status (f o) = lo_status o) -> wrote_final s (set_fields s m f).
Proof. intros H1 H2. apply wf_eq. intros n. apply ostat_set_fields; assumption. Qed.
Lemma wf_with_trade s n body : (forall x, wrote_final x (body x)) -> wrote_final s (with_trade s n body).
Proof.
  intros Hb. unfold with_trade. destruct (oget n (ls_orders s)); [|apply wf_refl].
  eapply wf_trans; [apply wf_trade_set|]. eapply wf_trans; [apply Hb|]. apply wf_trade_set.
Qed.
Lemma wf_fold {A} (f : lstate -> A -> lstate) l : (forall s x, wrote_final s (f s x)) -> forall s, wrote_final s (fold_left f l s).
Proof. intros Hf. induction l as [|x r IH]; intros s; cbn [fold_left]; [apply wf_refl|]. eapply wf_trans; [apply Hf|apply IH]. Qed.
Lemma wf_add_tx s a b : wrote_final s (add_tx s a b).
Proof. apply wf_eq. reflexivity. Qed.

Definition settled (s : lstate) (n : Z) : Prop := In (ostat s n) final2.
Lemma settled_kept s s' n : wrote_final s s' -> settled s n -> settled s' n.
Proof. intros H Q. destruct (H n) as [[A|A] _]; [unfold settled; rewrite A; exact Q|exact A]. Qed.
Lemma exists_kept s s' n : wrote_final s s' -> ostat s n <> None -> ostat s' n <> None.
Proof. intros H. apply (H n). Qed.

Lemma settle_step s n st : In (Some st) final2 -> ostat s n <> None -> settled (with_trade s n (fun x => order_status x n st)) n.
Proof.
  intros Hst Hex. unfold with_trade, settled. destruct (oget n (ls_orders s)) eqn:E; [|unfold ostat in Hex; rewrite E in Hex; cbn in Hex; congruence].
  rewrite ostat_trade_set, ostat_order_status, Z.eqb_refl, ostat_trade_set. unfold ostat. rewrite E. cbn. exact Hst.
Qed.

Lemma in_pkg_exists s names n : In n (pkg_orders s names) -> ostat s n <> None.
Proof.
  unfold pkg_orders. rewrite filter_In. intros [_ H]. unfold ostat. destruct (oget n (ls_orders s)); [cbn; discriminate|discriminate].
Qed.

(* ---------- generic: a fold whose steps write only final statuses settles every key it visits ---------- *)
Lemma fold_settles {A} (f : lstate -> A -> lstate) (key : A -> Z) (good : A -> Prop) l :
  (forall s x, wrote_final s (f s x)) ->
  (forall s x, good x -> ostat s (key x) <> None -> settled (f s x) (key x)) ->
  forall s x0, In x0 l -> good x0 -> ostat s (key x0) <> None -> settled (fold_left f l s) (key x0).
Proof.
  intros Hw Hs. induction l as [|x r IH]; intros s x0 Hin Hg Hex; [destruct Hin|]. cbn [fold_left]. destruct Hin as [->|Hin].
  - eapply settled_kept; [apply wf_fold; exact Hw|]. apply Hs; assumption.
  - apply IH; [exact Hin|exact Hg|]. eapply exists_kept; [apply Hw|exact Hex].
Qed.

Lemma zip_in {A B} (a : list A) (b : list B) x : In x a -> (length a <= length b)%nat -> exists y, In (x, y) (zip a b).
Proof.
  revert b. induction a as [|h t IH]; intros b Hin Hl; [destruct Hin|]. destruct b as [|y b]; [cbn in Hl; lia|]. cbn [zip]. destruct Hin as [->|Hin].
  - exists y. left. reflexivity.
  - destruct (IH b Hin) as [y' Hy]; [cbn in Hl; lia|]. exists y'. right. exact Hy.
Qed.

(* ---------- reset_orders (retries exhausted) ---------- *)
Theorem reset_orders_settles s names c n : In n (pkg_orders s names) -> settled (reset_orders s names c) n.
Proof.
  intros Hin. unfold reset_orders.
  apply (fold_settles (fun s n => with_trade s n (fun s0 => order_status s0 n (if c then SExecComplete else SExecutable))) (fun n => n) (fun _ => True)).
  - intros s0 x. apply wf_with_trade. intros y. apply wf_order_status. destruct c; cbn; auto.
  - intros s0 x _ Hex. apply settle_step; [destruct c; cbn; auto|exact Hex].
  - exact Hin.
  - exact I.
  - eapply in_pkg_exists; exact Hin.
Qed.
Theorem reset_orders_exact s names c n : In n (pkg_orders s names) ->
  ostat (reset_orders s names c) n = Some (if c then SExecComplete else SExecutable).
Proof.
  intros Hin. unfold reset_orders.
  set (st := if c then SExecComplete else SExecutable).
  assert (G : forall l s0, ostat s0 n <> None -> (In n l \/ ostat s0 n = Some st) ->
            ostat (fold_left (fun s n => with_trade s n (fun s1 => order_status s1 n st)) l s0) n = Some st).
  { induction l as [|x r IH]; intros s0 Hex H; cbn [fold_left]; [destruct H as [[]|H]; exact H|].
    assert (Hstep : forall m, ostat (with_trade s0 x (fun s1 => order_status s1 x st)) m = if (m =? x) then (match ostat s0 x with None => ostat s0 m | Some _ => option_map (fun _ => st) (ostat s0 m) end) else ostat s0 m).
    { intros m. unfold with_trade. destruct (oget x (ls_orders s0)) eqn:E.
      - rewrite ostat_trade_set, ostat_order_status, ostat_trade_set. destruct (m =? x); [|reflexivity]. unfold ostat at 2. rewrite E. reflexivity.
      - unfold ostat at 2. rewrite E. cbn. destruct (m =? x); reflexivity. }
    apply IH.
    - rewrite Hstep. destruct (n =? x) eqn:E; [|exact Hex]. replace x with n by lia. destruct (ostat s0 n); [cbn; discriminate|congruence].
    - destruct H as [[->|H]|H]; [right|left; exact H|].
      + rewrite Hstep, Z.eqb_refl. destruct (ostat s0 n); [reflexivity|congruence].
      + right. rewrite Hstep. destruct (n =? x) eqn:E; [|exact H]. replace x with n by lia. rewrite H. reflexivity. }
  apply G; [eapply in_pkg_exists; exact Hin|left; exact Hin].
Qed.

(* ---------- update ---------- *)
Theorem exec_update_settles s names reports n : In n (pkg_orders s names) -> (length (pkg_orders s names) <= length reports)%nat ->
  settled (exec_update s names reports) n.
Proof.
  intros Hin Hl. unfold exec_update. eapply settled_kept; [apply wf_add_tx|].
  destruct (zip_in _ reports n Hin Hl) as [r Hr].
  apply (fold_settles (fun s (nr : Z * ustat) => with_trade s (fst nr) (fun s0 => order_status s0 (fst nr) SExecutable)) fst (fun _ => True) _) with (x0 := (n, r)).
  - intros s0 x. apply wf_with_trade. intros y. apply wf_order_status. cbn; auto.
  - intros s0 x _ Hex. apply settle_step; [cbn; auto|exact Hex].
  - exact Hr.
  - exact I.
  - eapply in_pkg_exists; exact Hin.
Qed.

(* ---------- place ---------- *)
Lemma settle_after x n st : In (Some st) final2 -> ostat x n <> None -> settled (order_status x n st) n.
Proof. intros Hst Hex. unfold settled. rewrite ostat_order_status, Z.eqb_refl. destruct (ostat x n); [cbn; exact Hst|congruence]. Qed.
Lemma with_trade_settled s n body : ostat s n <> None -> (forall x, ostat x n <> None -> settled (body x) n) -> settled (with_trade s n body) n.
Proof.
  intros Hex Hb. unfold with_trade. destruct (oget n (ls_orders s)) eqn:E; [|unfold ostat in Hex; rewrite E in Hex; cbn in Hex; congruence].
  unfold settled. rewrite ostat_trade_set. apply Hb. rewrite ostat_trade_set. exact Hex.
Qed.

Definition decisive (r : pstat) : Prop := match r with PSuccess os _ _ => os <> 1 | PFailure _ => True | PTimeout _ => False end.

Lemma ostat_setbet s n b m k : ostat (setbet s n b m) k = ostat s k.
Proof. unfold setbet. apply ostat_set_fields; intros; reflexivity. Qed.
Lemma ostat_force_zero s n b k : ostat (force_zero s n b) k = ostat s k.
Proof.
  unfold force_zero. destruct (oget n (ls_orders s)) as [o|]; [|reflexivity]. destruct (lo_view o); [reflexivity|]. destruct b; [reflexivity|].
  apply ostat_set_fields; intros; reflexivity.
Qed.
Lemma wf_place_body n r x : wrote_final x (place_body n r x).
Proof.
  destruct r as [os b m|b|b]; cbn [place_body].
  - cbv zeta. destruct (os =? 1); [apply wf_eq; intros; apply ostat_setbet|].
    destruct (os =? 2); (eapply wf_trans; [apply wf_eq; intros k; apply ostat_setbet|apply wf_order_status; cbn; auto]).
  - eapply wf_trans; [|apply wf_order_status; cbn; auto]. apply wf_eq. intros k. rewrite ostat_force_zero. apply ostat_setbet.
  - apply wf_eq; intros; apply ostat_setbet.
Qed.
Lemma place_body_settles n r x : decisive r -> ostat x n <> None -> settled (place_body n r x) n.
Proof.
  intros Hd Hx. destruct r as [os b m|b|b]; cbn [place_body] in *; cbn in Hd.
  - cbv zeta. destruct (os =? 1) eqn:E1; [lia|]. destruct (os =? 2); apply settle_after; cbn; auto; rewrite ostat_setbet; exact Hx.
  - apply settle_after; [cbn; auto|]. rewrite ostat_force_zero, ostat_setbet. exact Hx.
  - destruct Hd.
Qed.

Lemma zip_in_fst {A B} (a : list A) (b : list B) x y : In (x, y) (zip a b) -> In x a.
Proof.
  revert b. induction a as [|h t IH]; intros [|z b] H; cbn [zip] in H; try destruct H as [H|H]; try (inversion H; subst; left; reflexivity). right. eapply IH. exact H.
Qed.

Theorem exec_place_settles s names reports n r :
  In (n, r) (zip (pkg_orders s names) reports) -> decisive r -> settled (exec_place s names reports) n.
Proof.
  intros Hin Hd. unfold exec_place. cbv zeta. eapply settled_kept; [apply wf_add_tx|].
  assert (Hex : ostat s n <> None) by (eapply in_pkg_exists; eapply zip_in_fst; exact Hin).
  apply (fold_settles (fun s (nr : Z * pstat) => with_trade s (fst nr) (place_body (fst nr) (snd nr))) fst (fun nr => decisive (snd nr)) _) with (x0 := (n, r)); [| |exact Hin|exact Hd|exact Hex].
  - intros s0 x. apply wf_with_trade. intros y. apply wf_place_body.
  - intros s0 x Hd0 Hex0. apply with_trade_settled; [exact Hex0|]. intros y Hy. apply place_body_settles; assumption.
Qed.
(* an undecided report (TIMEOUT, async PENDING) leaves the status as it was - the order may stay Pending *)
Lemma place_body_undecided n r x k : ~ decisive r -> ostat (place_body n r x) k = ostat x k.
Proof.
  intros Hd. destruct r as [os b m|b|b]; cbn [place_body] in *; cbn in Hd.
  - cbv zeta. destruct (os =? 1) eqn:E; [apply ostat_setbet|lia].
  - tauto.
  - apply ostat_setbet.
Qed.

(* ---------- cancel: reports in any order, duplicated, missing ---------- *)
Lemma cancel_status_final rem r : In (Some (cancel_status rem r)) final2.
Proof. destruct r as [sc|[|]|]; cbn; try (destruct ((sc =? rem) || (rem =? 0))); cbn; auto. Qed.
Lemma wf_cancel_body n r x : wrote_final x (cancel_body n r x).
Proof. unfold cancel_body. destruct (oget n (ls_orders x)); [apply wf_order_status, cancel_status_final|apply wf_refl]. Qed.
Lemma cancel_body_settles n r x : ostat x n <> None -> settled (cancel_body n r x) n.
Proof.
  intros Hx. unfold cancel_body. destruct (oget n (ls_orders x)) eqn:E; [|unfold ostat in Hx; rewrite E in Hx; cbn in Hx; congruence].
  apply settle_after; [apply cancel_status_final|exact Hx].
Qed.

Definition cancel_inv (s0 : lstate) (pk : list Z) (acc : lstate * list Z * Z) : Prop :=
  wrote_final s0 (fst (fst acc)) /\ (forall n, In n pk -> In n (snd (fst acc)) \/ settled (fst (fst acc)) n) /\ (forall n, In n (snd (fst acc)) -> In n pk).

Lemma cancel_step_inv s0 pk acc br : (forall n, In n pk -> ostat s0 n <> None) -> cancel_inv s0 pk acc -> cancel_inv s0 pk (cancel_step s0 pk acc br).
Proof.
  intros Hex (Hw & Hc & Hr). destruct acc as [[s rest] nf]. cbn [fst snd] in *. unfold cancel_step.
  destruct (by_bet s0 pk (fst br)) as [n|]; [|unfold cancel_inv; cbn [fst snd]; split; [exact Hw|split; [exact Hc|exact Hr]]].
  destruct (negb (existsb (Z.eqb n) rest)) eqn:E; [unfold cancel_inv; cbn [fst snd]; split; [exact Hw|split; [exact Hc|exact Hr]]|].
  apply negb_false_iff, existsb_exists in E. destruct E as [n' [Hn' En']]. assert (n' = n) by lia. subst n'.
  unfold cancel_inv. cbn [fst snd]. split; [|split].
  - eapply wf_trans; [exact Hw|]. apply wf_with_trade. intros x. apply wf_cancel_body.
  - intros m Hm. destruct (Z.eq_dec m n) as [->|Hne].
    + right. apply with_trade_settled; [eapply exists_kept; [exact Hw|apply Hex; exact Hm]|]. intros x Hx. apply cancel_body_settles. exact Hx.
    + destruct (Hc m Hm) as [H|H].
      * left. apply filter_In. split; [exact H|]. apply negb_true_iff. lia.
      * right. eapply settled_kept; [|exact H]. apply wf_with_trade. intros x. apply wf_cancel_body.
  - intros m Hm. apply filter_In in Hm. apply Hr. tauto.
Qed.

Theorem exec_cancel_settles s names reports n : In n (pkg_orders s names) -> settled (exec_cancel s names reports) n.
Proof.
  intros Hin. unfold exec_cancel. cbv zeta. eapply settled_kept; [apply wf_add_tx|].
  set (pk := pkg_orders s names) in *.
  assert (Hex : forall m, In m pk -> ostat s m <> None) by (intros m Hm; eapply in_pkg_exists; exact Hm).
  assert (Hinv : cancel_inv s pk (fold_left (cancel_step s pk) reports (s, pk, 0))).
  { assert (G : forall l acc, cancel_inv s pk acc -> cancel_inv s pk (fold_left (cancel_step s pk) l acc)).
    { induction l as [|x r IH]; intros acc Ha; cbn [fold_left]; [exact Ha|]. apply IH. apply cancel_step_inv; assumption. }
    apply G. split; [apply wf_refl|]. split; [intros m Hm; left; exact Hm|intros m Hm; exact Hm]. }
  destruct Hinv as (Hw & Hc & Hr).
  set (acc := fold_left (cancel_step s pk) reports (s, pk, 0)) in *.
  assert (Hstepw : forall s1 x, wrote_final s1 (with_trade s1 x (fun s2 => order_status s2 x SExecutable))).
  { intros s1 x. apply wf_with_trade. intros y. apply wf_order_status. cbn; auto. }
  destruct (Hc n Hin) as [H|H].
  - apply (fold_settles (fun s n => with_trade s n (fun s0 => order_status s0 n SExecutable)) (fun n => n) (fun _ => True)); [exact Hstepw| |exact H|exact I|].
    + intros s1 x _ Hx. apply settle_step; [cbn; auto|exact Hx].
    + eapply exists_kept; [exact Hw|apply Hex; exact Hin].
  - eapply settled_kept; [apply wf_fold; exact Hstepw|exact H].
Qed.

(* ---------- replace ---------- *)
Lemma oget_app k l r : oget k (l ++ [r]) = match oget k l with Some o => Some o | None => if lo_name r =? k then Some r else None end.
Proof. unfold oget. induction l as [|o t IH]; cbn [app find]; [destruct (lo_name r =? k); reflexivity|]. destruct (lo_name o =? k); [reflexivity|exact IH]. Qed.

Lemma ostat_add_replacement s o0 bet price size k :
  ostat (add_replacement s o0 bet price size) k = if k =? ls_next_name s then Some SExecutable else ostat s k.
Proof.
  unfold add_replacement. cbv zeta. rewrite ostat_order_status. unfold ostat. cbn [ls_orders]. rewrite oget_app. cbn [lo_name].
  destruct (k =? ls_next_name s) eqn:E.
  - replace (ls_next_name s =? k) with true by lia. destruct (oget k (ls_orders s)); reflexivity.
  - replace (ls_next_name s =? k) with false by lia. destruct (oget k (ls_orders s)); reflexivity.
Qed.
Lemma wf_add_replacement s o0 bet price size : wrote_final s (add_replacement s o0 bet price size).
Proof.
  intros k. rewrite ostat_add_replacement. destruct (k =? ls_next_name s); [split; [right; cbn; auto|discriminate]|split; [left; reflexivity|auto]].
Qed.
Lemma wf_replace_body n o0 r x : wrote_final x (replace_body n o0 r x).
Proof.
  destruct r as [c p]. cbn [replace_body]. cbv zeta.
  assert (H1 : wrote_final x (match c with CSuccess _ => order_status x n SExecComplete | CFailure _ => order_status x n SExecutable | CTimeout => order_status x n SExecutable end))
    by (destruct c; apply wf_order_status; cbn; auto).
  destruct p as [[[bet price] size]|]; [|exact H1]. eapply wf_trans; [exact H1|apply wf_add_replacement].
Qed.
Lemma replace_body_settles n o0 r x : ostat x n <> None -> settled (replace_body n o0 r x) n.
Proof.
  intros Hx. destruct r as [c p]. cbn [replace_body]. cbv zeta.
  assert (H1 : settled (match c with CSuccess _ => order_status x n SExecComplete | CFailure _ => order_status x n SExecutable | CTimeout => order_status x n SExecutable end) n)
    by (destruct c; apply settle_after; cbn; auto).
  destruct p as [[[bet price] size]|]; [|exact H1]. eapply settled_kept; [apply wf_add_replacement|exact H1].
Qed.
Lemma wf_replace_step acc nr : wrote_final (fst acc) (fst (replace_step acc nr)).
Proof.
  unfold replace_step. destruct (oget (fst nr) (ls_orders (fst acc))); [|apply wf_refl]. cbn [fst]. apply wf_with_trade. intros x. apply wf_replace_body.
Qed.

Lemma sendable_in_pkg s names n : In n (pkg_sendable s names) -> In n (pkg_orders s names).
Proof. unfold pkg_sendable. rewrite filter_In. tauto. Qed.
Theorem exec_replace_settles s names reports n r : In (n, r) (zip (pkg_sendable s names) reports) -> settled (exec_replace s names reports) n.
Proof.
  intros Hin. unfold exec_replace. cbv zeta. eapply settled_kept; [apply wf_add_tx|].
  assert (Hex : ostat s n <> None) by (eapply in_pkg_exists; eapply sendable_in_pkg; eapply zip_in_fst; exact Hin).
  assert (G : forall l acc, In (n, r) l -> ostat (fst acc) n <> None -> settled (fst (fold_left replace_step l acc)) n).
  { induction l as [|x t IH]; intros acc Hl Hx; [destruct Hl|]. cbn [fold_left]. destruct Hl as [->|Hl].
    - assert (Hs : settled (fst (replace_step acc (n, r))) n).
      { unfold replace_step. cbn [fst snd]. destruct (oget n (ls_orders (fst acc))) eqn:E; [|unfold ostat in Hx; rewrite E in Hx; cbn in Hx; congruence].
        cbn [fst]. apply with_trade_settled; [exact Hx|]. intros y Hy. apply replace_body_settles. exact Hy. }
      clear IH. revert Hs. generalize (replace_step acc (n, r)). induction t as [|y t IH]; intros a Hs; [exact Hs|]. cbn [fold_left]. apply IH.
      eapply settled_kept; [apply wf_replace_step|exact Hs].
    - apply IH; [exact Hl|]. eapply exists_kept; [apply wf_replace_step|exact Hx]. }
  apply G; [exact Hin|exact Hex].
Qed.

(* ---------- trades: nothing is left Pending (C12, C10) ---------- *)
Definition npl (l : list ltrade) : Prop := forall t, In t l -> lt_status t <> TPending.
Definition npl_ex (tid : Z) (l : list ltrade) : Prop := forall t, In t l -> lt_id t <> tid -> lt_status t <> TPending.
Definition np (s : lstate) : Prop := npl (ls_trades s).

(* the only thing that happens to trades inside a handler body: some of them are completed *)
Inductive OC : list ltrade -> list ltrade -> Prop :=
  | OC_nil : OC [] []
  | OC_same t l l' : OC l l' -> OC (t :: l) (t :: l')
  | OC_done t t' l l' : lt_id t' = lt_id t -> lt_status t' = TComplete -> OC l l' -> OC (t :: l) (t' :: l').
Lemma OC_refl l : OC l l.
Proof. induction l; constructor; assumption. Qed.
Lemma OC_trans l1 l2 l3 : OC l1 l2 -> OC l2 l3 -> OC l1 l3.
Proof.
  intros H12. revert l3. induction H12 as [|t l l' H IH|t t' l l' Hi Hs H IH]; intros l3 H23; inversion H23; subst.
  - constructor.
  - apply OC_same. apply IH. assumption.
  - eapply OC_done; eauto.
  - eapply OC_done; eauto.
  - eapply OC_done; [congruence|assumption|]. apply IH. assumption.
Qed.
Lemma OC_npl l l' : OC l l' -> npl l -> npl l'.
Proof.
  induction 1 as [|t l l' H IH|t t' l l' Hi Hs H IH]; intros Hn x Hx; [destruct Hx| |].
  - destruct Hx as [->|Hx]; [apply Hn; left; reflexivity|apply IH; [intros y Hy; apply Hn; right; exact Hy|exact Hx]].
  - destruct Hx as [<-|Hx]; [congruence|apply IH; [intros y Hy; apply Hn; right; exact Hy|exact Hx]].
Qed.
Lemma OC_npl_ex tid l l' : OC l l' -> npl_ex tid l -> npl_ex tid l'.
Proof.
  induction 1 as [|t l l' H IH|t t' l l' Hi Hs H IH]; intros Hn x Hx Hne; [destruct Hx| |].
  - destruct Hx as [->|Hx]; [apply Hn; [left; reflexivity|exact Hne]|apply IH; [intros y Hy; apply Hn; right; exact Hy|exact Hx|exact Hne]].
  - destruct Hx as [<-|Hx]; [congruence|apply IH; [intros y Hy; apply Hn; right; exact Hy|exact Hx|exact Hne]].
Qed.
Lemma OC_complete tid l : OC l (tupd' tid (fun t => {| lt_id := lt_id t; lt_status := TComplete; lt_log := lt_log t ++ [TComplete]; lt_pending_orders := lt_pending_orders t; lt_strat := lt_strat t; lt_sel := lt_sel t |}) l).
Proof. unfold tupd'. induction l as [|t r IH]; cbn [map]; [constructor|]. destruct (lt_id t =? tid); [eapply OC_done; [reflexivity|reflexivity|exact IH]|apply OC_same; exact IH]. Qed.

Definition ocr (s s' : lstate) : Prop := OC (ls_trades s) (ls_trades s').
Lemma ocr_refl s : ocr s s. Proof. apply OC_refl. Qed.
Lemma ocr_trans a b c : ocr a b -> ocr b c -> ocr a c. Proof. apply OC_trans. Qed.
Lemma ocr_complete_trade s t : ocr s (complete_trade s t).
Proof. unfold ocr, complete_trade. destruct (tget' t (ls_trades s)); [apply OC_complete|apply OC_refl]. Qed.
Lemma ocr_order_status s m st : ocr s (order_status s m st).
Proof.
  unfold order_status. cbv zeta.
  set (s1 := with_ls s _ (ls_trades s) (ls_ctx s)).
  assert (H1 : ocr s s1) by apply OC_refl.
  match goal with |- context [match ?x with Some _ => _ | None => _ end] => destruct x end; [|exact H1].
  match goal with |- context [if ?c then _ else _] => destruct c end; [|exact H1].
  match goal with |- context [match ?x with Some _ => _ | None => _ end] => destruct x end; [|exact H1].
  match goal with |- context [if ?c then _ else _] => destruct c end; [|exact H1].
  eapply ocr_trans; [exact H1|apply ocr_complete_trade].
Qed.
Lemma ocr_set_fields s n f : ocr s (set_fields s n f). Proof. apply OC_refl. Qed.
Lemma ocr_setbet s n b m : ocr s (setbet s n b m). Proof. apply OC_refl. Qed.
Lemma ocr_force_zero s n b : ocr s (force_zero s n b).
Proof. unfold force_zero. destruct (oget n (ls_orders s)) as [o|]; [|apply ocr_refl]. destruct (lo_view o); [apply ocr_refl|]. destruct b; apply OC_refl. Qed.
Lemma ocr_place_body n r x : ocr x (place_body n r x).
Proof.
  destruct r as [os b m|b|b]; cbn [place_body]; cbv zeta.
  - destruct (os =? 1); [apply ocr_setbet|]. destruct (os =? 2); (eapply ocr_trans; [apply ocr_setbet|apply ocr_order_status]).
  - eapply ocr_trans; [apply ocr_setbet|]. eapply ocr_trans; [apply ocr_force_zero|apply ocr_order_status].
  - apply ocr_setbet.
Qed.
Lemma ocr_cancel_body n r x : ocr x (cancel_body n r x).
Proof. unfold cancel_body. destruct (oget n (ls_orders x)); [apply ocr_order_status|apply ocr_refl]. Qed.
Lemma ocr_add_replacement s o0 bet price size : ocr s (add_replacement s o0 bet price size).
Proof. unfold add_replacement. cbv zeta. match goal with |- ocr _ (order_status ?a ?b ?c) => apply (ocr_trans _ a); [apply OC_refl|apply ocr_order_status] end. Qed.
Lemma ocr_replace_body n o0 r x : ocr x (replace_body n o0 r x).
Proof.
  destruct r as [c p]. cbn [replace_body]. cbv zeta.
  assert (H1 : ocr x (match c with CSuccess _ => order_status x n SExecComplete | CFailure _ => order_status x n SExecutable | CTimeout => order_status x n SExecutable end))
    by (destruct c; apply ocr_order_status).
  destruct p as [[[bet price] size]|]; [|exact H1]. eapply ocr_trans; [exact H1|apply ocr_add_replacement].
Qed.

Lemma np_ocr s s' : ocr s s' -> np s -> np s'.
Proof. apply OC_npl. Qed.

Lemma trade_set_pending s tid : np s -> npl_ex tid (ls_trades (trade_set s tid TPending)).
Proof.
  intros Hn. unfold trade_set. cbv zeta.
  set (s1 := with_ls s (ls_orders s) _ (ls_ctx s)).
  assert (H1 : npl_ex tid (ls_trades s1)).
  { unfold s1, with_ls, tupd'. cbn [ls_trades]. intros t Ht Hne. apply in_map_iff in Ht. destruct Ht as [t0 [<- Ht0]].
    destruct (lt_id t0 =? tid) eqn:E; [cbn [lt_id] in Hne; lia|apply Hn; exact Ht0]. }
  destruct (tget' tid (ls_trades s1)) as [t|]; [|exact H1]. destruct (trade_complete s1 t); [|exact H1].
  eapply OC_npl_ex; [apply ocr_complete_trade|exact H1].
Qed.
Lemma trade_set_live s tid : npl_ex tid (ls_trades s) -> np (trade_set s tid TLive).
Proof.
  intros Hn. unfold trade_set. cbv zeta.
  set (s1 := with_ls s (ls_orders s) _ (ls_ctx s)).
  assert (H1 : np s1).
  { unfold s1, np, with_ls, tupd'. cbn [ls_trades]. intros t Ht. apply in_map_iff in Ht. destruct Ht as [t0 [<- Ht0]].
    destruct (lt_id t0 =? tid) eqn:E; [cbn; discriminate|apply Hn; [exact Ht0|lia]]. }
  destruct (tget' tid (ls_trades s1)) as [t|]; [|exact H1]. destruct (trade_complete s1 t); [|exact H1].
  eapply np_ocr; [apply ocr_complete_trade|exact H1].
Qed.
Lemma np_with_trade s n body : (forall x, ocr x (body x)) -> np s -> np (with_trade s n body).
Proof.
  intros Hb Hn. unfold with_trade. destruct (oget n (ls_orders s)) as [o|]; [|exact Hn].
  apply trade_set_live. eapply OC_npl_ex; [apply Hb|]. apply trade_set_pending. exact Hn.
Qed.
Lemma np_fold {A} (f : lstate -> A -> lstate) l : (forall s x, np s -> np (f s x)) -> forall s, np s -> np (fold_left f l s).
Proof. intros Hf. induction l as [|x r IH]; intros s Hs; cbn [fold_left]; [exact Hs|]. apply IH. apply Hf. exact Hs. Qed.
Lemma np_add_tx s a b : np s -> np (add_tx s a b). Proof. exact (fun H => H). Qed.

Theorem np_exec_place s names reports : np s -> np (exec_place s names reports).
Proof. intros H. unfold exec_place. cbv zeta. apply np_add_tx. apply np_fold; [|exact H]. intros s0 x H0. apply np_with_trade; [intros y; apply ocr_place_body|exact H0]. Qed.
Theorem np_exec_update s names reports : np s -> np (exec_update s names reports).
Proof. intros H. unfold exec_update. cbv zeta. apply np_add_tx. apply np_fold; [|exact H]. intros s0 x H0. apply np_with_trade; [intros y; apply ocr_order_status|exact H0]. Qed.
Theorem np_reset_orders s names c : np s -> np (reset_orders s names c).
Proof. intros H. unfold reset_orders. apply np_fold; [|exact H]. intros s0 x H0. apply np_with_trade; [intros y; apply ocr_order_status|exact H0]. Qed.
Theorem np_exec_cancel s names reports : np s -> np (exec_cancel s names reports).
Proof.
  intros H. unfold exec_cancel. cbv zeta. apply np_add_tx. apply np_fold; [intros s0 x H0; apply np_with_trade; [intros y; apply ocr_order_status|exact H0]|].
  assert (G : forall l acc, np (fst (fst acc)) -> np (fst (fst (fold_left (cancel_step s (pkg_orders s names)) l acc)))).
  { induction l as [|x r IH]; intros acc Ha; cbn [fold_left]; [exact Ha|]. apply IH. destruct acc as [[s0 rest] nf]. unfold cancel_step. cbn [fst snd] in *.
    destruct (by_bet s (pkg_orders s names) (fst x)); [|exact Ha]. destruct (negb (existsb (Z.eqb z) rest)); [exact Ha|]. cbn [fst].
    apply np_with_trade; [intros y; apply ocr_cancel_body|exact Ha]. }
  apply G. exact H.
Qed.
Theorem np_exec_replace s names reports : np s -> np (exec_replace s names reports).
Proof.
  intros H. unfold exec_replace. cbv zeta. apply np_add_tx.
  assert (G : forall l acc, np (fst acc) -> np (fst (fold_left replace_step l acc))).
  { induction l as [|x r IH]; intros acc Ha; cbn [fold_left]; [exact Ha|]. apply IH. unfold replace_step.
    destruct (oget (fst x) (ls_orders (fst acc))); [|exact Ha]. cbn [fst]. apply np_with_trade; [intros y; apply ocr_replace_body|exact Ha]. }
  apply G. exact H.
Qed.

(* ---------- order stream ---------- *)
Lemma ocr_row_status s n r : ocr s (row_status s n r).
Proof.
  unfold row_status. destruct (oget n (ls_orders s)) as [o|]; [|apply ocr_refl].
  destruct (lo_bet o); destruct (lo_status o); try apply ocr_refl; try apply ocr_order_status; destruct (rw_complete r); try apply ocr_refl; apply ocr_order_status.
Qed.
Lemma ocr_leave_live s n : ocr s (leave_live s n).
Proof. unfold leave_live. destruct (oget n (ls_orders s)) as [o|]; [|apply ocr_refl]. destruct (lo_complete o); [apply OC_refl|apply ocr_refl]. Qed.
Lemma ocr_apply_row s n r : ocr s (apply_row s n r).
Proof. unfold apply_row. eapply ocr_trans; [|apply ocr_leave_live]. eapply ocr_trans; [|apply ocr_row_status]. apply OC_refl. Qed.

Lemma npl_app l x : npl l -> lt_status x <> TPending -> npl (l ++ [x]).
Proof. intros H Hx t Ht. apply in_app_or in Ht. destruct Ht as [Ht|[<-|[]]]; [apply H; exact Ht|exact Hx]. Qed.

Lemma np_process_row s x : np s -> np (process_row s x).
Proof.
  intros H. unfold process_row. destruct (oget (sr_name x) (ls_orders s)) as [o|].
  - destruct (lo_bet o) as [b|]; [|eapply np_ocr; [apply ocr_apply_row|exact H]].
    destruct (b =? rw_bet (sr_row x)); [eapply np_ocr; [apply ocr_apply_row|exact H]|].
    destruct (find _ _); [eapply np_ocr; [apply ocr_apply_row|exact H]|exact H].
  - destruct (sr_strategy x) as [st|]; [|exact H]. eapply np_ocr; [apply ocr_apply_row|].
    unfold np, adopt. cbn [ls_trades]. apply npl_app; [exact H|cbn; discriminate].
Qed.

Lemma np_req_other s n k p : np s -> np (req_other s n k p).
Proof.
  intros H. unfold req_other. destruct (oget n (ls_orders s)) as [o|]; [|exact H]. destruct (lo_bet o); [|exact H].
  destruct (status_eqb (lo_status o) SExecutable); [|exact H]. eapply np_ocr; [apply ocr_order_status|]. destruct (k =? 2); exact H.
Qed.
Lemma np_req_place s n t st sl sz p a : np s -> np (req_place s n t st sl sz p a).
Proof.
  intros H. unfold req_place, np. cbn [ls_trades]. destruct (tget' t (ls_trades s)); [exact H|]. apply npl_app; [exact H|cbn; discriminate].
Qed.

(* C12 / C10: at handler granularity no trade is ever left in its transient Pending state - for every history of events *)
Theorem lstep_np s e : np s -> np (lstep s e).
Proof.
  intros H. destruct e; cbn [lstep].
  - apply np_req_place; exact H.
  - apply np_req_other; exact H.
  - apply np_exec_place; exact H.
  - apply np_exec_cancel; exact H.
  - apply np_exec_update; exact H.
  - apply np_exec_replace; exact H.
  - apply np_reset_orders; exact H.
  - exact H.
  - unfold process_snapshot. apply np_fold; [intros; apply np_process_row; assumption|exact H].
  - exact H.
  - exact H.
  - exact H.
  - intros t Ht. destruct Ht.
Qed.
Theorem lrun_np cs es : np (lrun (lstate0 cs) es).
Proof.
  unfold lrun. assert (G : forall l s, np s -> np (fold_left lstep l s)).
  { induction l as [|e r IH]; intros s Hs; cbn [fold_left]; [exact Hs|]. apply IH. apply lstep_np. exact Hs. }
  apply G. intros t Ht. destruct Ht.
Qed.

(* ---------- transaction counters (C12 (3), shared with C18) ---------- *)
Definition txr (s s' : lstate) : Prop := ls_tx s' = ls_tx s /\ ls_tx_failed s' = ls_tx_failed s.
Lemma txr_refl s : txr s s. Proof. split; reflexivity. Qed.
Lemma txr_trans a b c : txr a b -> txr b c -> txr a c. Proof. intros [A B] [C D]. split; congruence. Qed.
Lemma txr_complete_trade s t : txr s (complete_trade s t).
Proof. unfold complete_trade. destruct (tget' t (ls_trades s)); split; reflexivity. Qed.
Lemma txr_order_status s m st : txr s (order_status s m st).
Proof.
  unfold order_status. cbv zeta. set (s1 := with_ls s _ (ls_trades s) (ls_ctx s)). assert (H1 : txr s s1) by (split; reflexivity).
  match goal with |- context [match ?x with Some _ => _ | None => _ end] => destruct x end; [|exact H1].
  match goal with |- context [if ?c then _ else _] => destruct c end; [|exact H1].
  match goal with |- context [match ?x with Some _ => _ | None => _ end] => destruct x end; [|exact H1].
  match goal with |- context [if ?c then _ else _] => destruct c end; [|exact H1].
  eapply txr_trans; [exact H1|apply txr_complete_trade].
Qed.
Lemma txr_trade_set s t st : txr s (trade_set s t st).
Proof.
  unfold trade_set. cbv zeta. set (s1 := with_ls s (ls_orders s) _ (ls_ctx s)). assert (H1 : txr s s1) by (split; reflexivity).
  destruct (tget' t (ls_trades s1)) as [x|]; [|exact H1]. destruct (trade_complete s1 x); [|exact H1]. eapply txr_trans; [exact H1|apply txr_complete_trade].
Qed.
Lemma txr_with_trade s n body : (forall x, txr x (body x)) -> txr s (with_trade s n body).
Proof.
  intros Hb. unfold with_trade. destruct (oget n (ls_orders s)); [|apply txr_refl].
  eapply txr_trans; [apply txr_trade_set|]. eapply txr_trans; [apply Hb|apply txr_trade_set].
Qed.
Lemma txr_fold {A} (f : lstate -> A -> lstate) l : (forall s x, txr s (f s x)) -> forall s, txr s (fold_left f l s).
Proof. intros Hf. induction l as [|x r IH]; intros s; cbn [fold_left]; [apply txr_refl|]. eapply txr_trans; [apply Hf|apply IH]. Qed.
Lemma txr_force_zero s n b : txr s (force_zero s n b).
Proof. unfold force_zero. destruct (oget n (ls_orders s)) as [o|]; [|apply txr_refl]. destruct (lo_view o); [apply txr_refl|]. destruct b; split; reflexivity. Qed.
Lemma txr_place_body n r x : txr x (place_body n r x).
Proof.
  assert (Hsb : forall y b m, txr y (setbet y n b m)) by (intros; split; reflexivity).
  destruct r as [os b m|b|b]; cbn [place_body]; cbv zeta.
  - destruct (os =? 1); [apply Hsb|]. destruct (os =? 2); (eapply txr_trans; [apply Hsb|apply txr_order_status]).
  - eapply txr_trans; [apply Hsb|]. eapply txr_trans; [apply txr_force_zero|apply txr_order_status].
  - apply Hsb.
Qed.
Lemma txr_cancel_body n r x : txr x (cancel_body n r x).
Proof. unfold cancel_body. destruct (oget n (ls_orders x)); [apply txr_order_status|apply txr_refl]. Qed.

(* a write-final step on name m leaves every other name alone *)
Lemma ostat_with_trade_other s m body k : (forall x, ostat (body x) k = ostat x k) -> ostat (with_trade s m body) k = ostat s k.
Proof. intros Hb. unfold with_trade. destruct (oget m (ls_orders s)); [|reflexivity]. rewrite ostat_trade_set, Hb, ostat_trade_set. reflexivity. Qed.
Lemma ostat_place_body_other n r x k : k <> n -> ostat (place_body n r x) k = ostat x k.
Proof.
  intros Hk. assert (E : (k =? n) = false) by lia.
  destruct r as [os b m|b|b]; cbn [place_body]; cbv zeta.
  - destruct (os =? 1); [apply ostat_setbet|]. destruct (os =? 2); rewrite ostat_order_status, E; apply ostat_setbet.
  - rewrite ostat_order_status, E, ostat_force_zero. apply ostat_setbet.
  - apply ostat_setbet.
Qed.

Definition keep (s : lstate) (n : Z) : bool := match oget n (ls_orders s) with Some o => negb (status_eqb (lo_status o) SViolation) | None => false end.
Lemma keep_ostat s n : keep s n = match ostat s n with Some st => negb (status_eqb st SViolation) | None => false end.
Proof. unfold keep, ostat. destruct (oget n (ls_orders s)); reflexivity. Qed.
Lemma pkg_orders_keep s names : pkg_orders s names = filter (keep s) names.
Proof. reflexivity. Qed.

Lemma fold_untouched {A} (f : lstate -> A -> lstate) (key : A -> Z) l k :
  (forall s x, k <> key x -> ostat (f s x) k = ostat s k) -> ~ In k (map key l) -> forall s, ostat (fold_left f l s) k = ostat s k.
Proof.
  intros Hf. induction l as [|x r IH]; intros Hn s; cbn [fold_left]; [reflexivity|]. cbn [map In] in Hn.
  rewrite IH by tauto. apply Hf. intro E. apply Hn. left. symmetry. exact E.
Qed.

Lemma keep_after s s' pk names : wrote_final s s' -> (forall k, ~ In k pk -> ostat s' k = ostat s k) -> (forall k, In k pk -> keep s k = true) ->
  filter (keep s') names = filter (keep s) names.
Proof.
  intros Hw Hu Hp. apply filter_ext. intros k. rewrite !keep_ostat.
  destruct (in_dec Z.eq_dec k pk) as [Hk|Hk]; [|rewrite Hu by exact Hk; reflexivity].
  specialize (Hp k Hk). rewrite keep_ostat in Hp. destruct (Hw k) as [[A|A] B]; [rewrite A; reflexivity|].
  rewrite Hp. destruct A as [A|[A|[]]]; rewrite <- A; reflexivity.
Qed.

Lemma zip_fst_incl {A B} (a : list A) (b : list B) : forall x, In x (map fst (zip a b)) -> In x a.
Proof. revert b. induction a as [|h t IH]; intros [|y b] x H; cbn in H; try destruct H as [H|H]; try tauto; [left; exact H|right; eapply IH; exact H]. Qed.

Theorem tx_exec_place s names reports :
  ls_tx (exec_place s names reports) = ls_tx s + Z.of_nat (length (pkg_orders s names)) /\ ls_tx_failed (exec_place s names reports) = ls_tx_failed s.
Proof.
  unfold exec_place. cbv zeta.
  set (f := fun s (nr : Z * pstat) => with_trade s (fst nr) (place_body (fst nr) (snd nr))).
  set (s1 := fold_left f (zip (pkg_orders s names) reports) s).
  assert (Ht : txr s s1) by (apply txr_fold; intros s0 x; apply txr_with_trade; intros y; apply txr_place_body).
  assert (Hw : wrote_final s s1) by (apply wf_fold; intros s0 x; apply wf_with_trade; intros y; apply wf_place_body).
  assert (Hk : pkg_orders s1 names = pkg_orders s names).
  { rewrite !pkg_orders_keep. apply (keep_after s s1 (pkg_orders s names)); [exact Hw| |].
    - intros k Hk. apply (fold_untouched f fst).
      + intros s0 x Hne. apply ostat_with_trade_other. intros y. apply ostat_place_body_other. exact Hne.
      + intro Hin. apply Hk. eapply zip_fst_incl. exact Hin.
    - intros k Hk. rewrite pkg_orders_keep in Hk. apply filter_In in Hk. tauto. }
  destruct Ht as [T1 T2]. cbn [add_tx ls_tx ls_tx_failed]. rewrite Hk, T1, T2. split; lia.
Qed.

Theorem tx_exec_update s names reports :
  ls_tx (exec_update s names reports) = ls_tx s /\
  ls_tx_failed (exec_update s names reports) = ls_tx_failed s + Z.of_nat (length (filter (fun nr => match snd nr with UFailure => true | _ => false end) (zip (pkg_orders s names) reports))).
Proof.
  unfold exec_update. cbv zeta.
  match goal with |- context [fold_left ?f ?l s] => assert (Ht : txr s (fold_left f l s)) by (apply txr_fold; intros s0 x; apply txr_with_trade; intros y; apply txr_order_status) end.
  destruct Ht as [T1 T2]. cbn [add_tx ls_tx ls_tx_failed]. rewrite T1, T2. split; lia.
Qed.

Theorem tx_reset_orders s names c : txr s (reset_orders s names c).
Proof. unfold reset_orders. apply txr_fold. intros s0 x. apply txr_with_trade. intros y. apply txr_order_status. Qed.

(* cancel: nothing is charged as a bet; failed instructions: at most the FAILURE reports, each counted once *)
Theorem tx_exec_cancel s names reports :
  ls_tx (exec_cancel s names reports) = ls_tx s /\
  ls_tx_failed s <= ls_tx_failed (exec_cancel s names reports) <= ls_tx_failed s + Z.of_nat (length (filter (fun br => match snd br with CFailure _ => true | _ => false end) reports)).
Proof.
  unfold exec_cancel. cbv zeta. set (pk := pkg_orders s names).
  assert (G : forall l acc, let acc' := fold_left (cancel_step s pk) l acc in
            txr (fst (fst acc)) (fst (fst acc')) /\ snd acc <= snd acc' <= snd acc + Z.of_nat (length (filter (fun br : Z * cstat => match snd br with CFailure _ => true | _ => false end) l))).
  { induction l as [|x r IH]; intros acc; cbn [fold_left]; [cbv zeta; split; [apply txr_refl|cbn; lia]|].
    specialize (IH (cancel_step s pk acc x)). cbv zeta in *. destruct IH as [I1 I2].
    assert (S1 : txr (fst (fst acc)) (fst (fst (cancel_step s pk acc x))) /\ snd acc <= snd (cancel_step s pk acc x) <= snd acc + (match snd x with CFailure _ => 1 | _ => 0 end)).
    { destruct acc as [[s0 rest] nf]. unfold cancel_step. cbn [fst snd]. destruct (by_bet s pk (fst x)); [|cbn [fst snd]; split; [apply txr_refl|destruct (snd x); lia]].
      destruct (negb (existsb (Z.eqb z) rest)); [cbn [fst snd]; split; [apply txr_refl|destruct (snd x); lia]|]. cbn [fst snd].
      split; [apply txr_with_trade; intros y; apply txr_cancel_body|destruct (snd x); lia]. }
    destruct S1 as [S1 S2]. split; [eapply txr_trans; eassumption|]. cbn [filter]. destruct (snd x); cbn [length]; lia. }
  specialize (G reports (s, pk, 0)). cbv zeta in G. cbn [fst snd] in G. destruct G as [[G1 G2] G3].
  set (acc := fold_left (cancel_step s pk) reports (s, pk, 0)) in *.
  match goal with |- context [fold_left ?f ?l (fst (fst acc))] => assert (Ht : txr (fst (fst acc)) (fold_left f l (fst (fst acc)))) by (apply txr_fold; intros s0 x; apply txr_with_trade; intros y; apply txr_order_status) end.
  destruct Ht as [T1 T2]. cbn [add_tx ls_tx ls_tx_failed]. rewrite T1, T2, G1, G2. lia.
Qed.

(* ---------- attribution of cancel reports: each order gets the outcome of ITS report, wherever that report is in the list ---------- *)
Definition orem (s : lstate) (n : Z) : option Z := option_map lo_remaining (oget n (ls_orders s)).
Lemma orem_order_status s m st n : orem (order_status s m st) n = orem s n.
Proof.
  unfold orem. rewrite orders_order_status, oget_oupd by reflexivity. destruct (n =? m); [|reflexivity]. destruct (oget n (ls_orders s)); reflexivity.
Qed.
Lemma orem_trade_set s t st n : orem (trade_set s t st) n = orem s n.
Proof. unfold orem. rewrite orders_trade_set. reflexivity. Qed.
Lemma orem_cancel_body m r x n : orem (cancel_body m r x) n = orem x n.
Proof. unfold cancel_body. destruct (oget m (ls_orders x)); [apply orem_order_status|reflexivity]. Qed.
Lemma orem_with_trade s m body n : (forall x, orem (body x) n = orem x n) -> orem (with_trade s m body) n = orem s n.
Proof. intros Hb. unfold with_trade. destruct (oget m (ls_orders s)); [|reflexivity]. rewrite orem_trade_set, Hb, orem_trade_set. reflexivity. Qed.
Lemma ostat_cancel_body_other m r x k : k <> m -> ostat (cancel_body m r x) k = ostat x k.
Proof. intros Hk. unfold cancel_body. destruct (oget m (ls_orders x)); [|reflexivity]. rewrite ostat_order_status. replace (k =? m) with false by lia. reflexivity. Qed.
Lemma ostat_cancel_body_self n r x rem : orem x n = Some rem -> ostat (cancel_body n r x) n = Some (cancel_status rem r).
Proof.
  unfold orem, cancel_body. destruct (oget n (ls_orders x)) eqn:E; [|discriminate]. cbn. intros H. inversion H; subst.
  rewrite ostat_order_status, Z.eqb_refl. unfold ostat. rewrite E. reflexivity.
Qed.

Definition first_report (b : Z) (reports : list (Z * cstat)) : option cstat := option_map snd (find (fun br => fst br =? b) reports).

Theorem cancel_attribution s names reports n o b :
  let pk := pkg_orders s names in
  In n pk -> oget n (ls_orders s) = Some o -> lo_bet o = Some b ->
  (forall n', In n' pk -> (match oget n' (ls_orders s) with Some o' => opt_eqb Z.eqb (lo_bet o') (Some b) | None => false end) = true -> n' = n) ->
  ostat (exec_cancel s names reports) n =
    Some (match first_report b reports with Some r => cancel_status (lo_remaining o) r | None => SExecutable end).
Proof.
  intros pk Hin Ho Hb Hinj. unfold exec_cancel. cbv zeta. fold pk.
  assert (Hbb : by_bet s pk b = Some n).
  { unfold by_bet. clear - Hin Ho Hb Hinj. induction pk as [|h t IH]; [destruct Hin|]. cbn [find].
    destruct (match oget h (ls_orders s) with Some o' => opt_eqb Z.eqb (lo_bet o') (Some b) | None => false end) eqn:E.
    - f_equal. apply Hinj; [left; reflexivity|exact E].
    - destruct Hin as [->|Hin]; [rewrite Ho, Hb in E; cbn in E; rewrite Z.eqb_refl in E; discriminate|]. apply IH; [exact Hin|].
      intros n' Hn' H'. apply Hinj; [right; exact Hn'|exact H']. }
  assert (Hother : forall b', b' <> b -> by_bet s pk b' <> Some n).
  { intros b' Hne H. unfold by_bet in H. apply find_some in H. destruct H as [_ H]. rewrite Ho, Hb in H. cbn in H. lia. }
  set (rem := lo_remaining o).
  (* invariant over the reports *)
  assert (G : forall l acc, orem (fst (fst acc)) n = Some rem -> ostat (fst (fst acc)) n <> None ->
            forall seen : option cstat,
            (match seen with None => In n (snd (fst acc)) | Some r => ~ In n (snd (fst acc)) /\ ostat (fst (fst acc)) n = Some (cancel_status rem r) end) ->
            let acc' := fold_left (cancel_step s pk) l acc in
            let seen' := match seen with Some r => Some r | None => first_report b l end in
            orem (fst (fst acc')) n = Some rem /\
            (match seen' with None => In n (snd (fst acc')) /\ ostat (fst (fst acc')) n = ostat (fst (fst acc)) n | Some r => ~ In n (snd (fst acc')) /\ ostat (fst (fst acc')) n = Some (cancel_status rem r) end)).
  { induction l as [|x r IH]; intros acc Hr Hex seen Hs; cbn [fold_left]; cbv zeta.
    - destruct seen; cbn; [split; [exact Hr|exact Hs]|split; [exact Hr|split; [exact Hs|reflexivity]]].
    - destruct acc as [[s0 rest] nf]. cbn [fst snd] in *.
      destruct (Z.eq_dec (fst x) b) as [Eb|Eb].
      + (* a report for our bet *)
        unfold first_report. cbn [find]. replace (fst x =? b) with true by lia. cbn [option_map].
        destruct seen as [r0|].
        * (* already handled: skipped *)
          destruct Hs as [Hs1 Hs2].
          assert (Est : cancel_step s pk (s0, rest, nf) x = (s0, rest, nf)).
          { unfold cancel_step. rewrite Eb, Hbb. destruct (negb (existsb (Z.eqb n) rest)) eqn:E; [reflexivity|].
            apply negb_false_iff, existsb_exists in E. destruct E as [n' [H1 H2]]. exfalso. apply Hs1. replace n with n' by lia. exact H1. }
          rewrite Est. specialize (IH (s0, rest, nf) Hr Hex (Some r0) (conj Hs1 Hs2)). exact IH.
        * assert (Est : cancel_step s pk (s0, rest, nf) x = (with_trade s0 n (cancel_body n (snd x)), filter (fun y => negb (y =? n)) rest, nf + match snd x with CFailure _ => 1 | _ => 0 end)).
          { unfold cancel_step. rewrite Eb, Hbb. destruct (negb (existsb (Z.eqb n) rest)) eqn:E; [|reflexivity].
            apply negb_true_iff in E. exfalso. assert (existsb (Z.eqb n) rest = true) by (apply existsb_exists; exists n; split; [exact Hs|lia]). congruence. }
          rewrite Est.
          assert (Hst : ostat (with_trade s0 n (cancel_body n (snd x))) n = Some (cancel_status rem (snd x))).
          { unfold with_trade. destruct (oget n (ls_orders s0)) eqn:E; [|unfold ostat in Hex; rewrite E in Hex; cbn in Hex; congruence].
            rewrite ostat_trade_set. apply ostat_cancel_body_self. rewrite orem_trade_set. exact Hr. }
          specialize (IH (with_trade s0 n (cancel_body n (snd x)), filter (fun y => negb (y =? n)) rest, nf + match snd x with CFailure _ => 1 | _ => 0 end)).
          cbn [fst snd] in IH. specialize (IH ltac:(rewrite orem_with_trade by (intros; apply orem_cancel_body); exact Hr) ltac:(rewrite Hst; discriminate) (Some (snd x))).
          cbv zeta in IH. apply IH. split; [|exact Hst]. intro H. apply filter_In in H. destruct H as [_ H]. rewrite Z.eqb_refl in H. discriminate.
      + (* a report for another bet: our order is not touched *)
        assert (Hfr : first_report b (x :: r) = first_report b r) by (unfold first_report; cbn [find]; replace (fst x =? b) with false by lia; reflexivity).
        rewrite Hfr.
        assert (Hstep : let a := cancel_step s pk (s0, rest, nf) x in
                 orem (fst (fst a)) n = orem s0 n /\ ostat (fst (fst a)) n = ostat s0 n /\ (In n (snd (fst a)) <-> In n rest)).
        { unfold cancel_step. cbn [fst snd]. destruct (by_bet s pk (fst x)) as [m|] eqn:Em; [|cbn; tauto].
          destruct (negb (existsb (Z.eqb m) rest)); [cbn; tauto|]. cbn [fst snd].
          assert (Hmn : m <> n) by (intro; subst m; eapply Hother; [exact Eb|exact Em]).
          split; [apply orem_with_trade; intros; apply orem_cancel_body|]. split; [apply ostat_with_trade_other; intros; apply ostat_cancel_body_other; lia|].
          rewrite filter_In. split; [tauto|]. intros H. split; [exact H|]. apply negb_true_iff. lia. }
        cbv zeta in Hstep. destruct Hstep as (H1 & H2 & H3).
        specialize (IH (cancel_step s pk (s0, rest, nf) x) ltac:(rewrite H1; exact Hr) ltac:(rewrite H2; exact Hex) seen).
        cbv zeta in IH.
        assert (Hs' : match seen with None => In n (snd (fst (cancel_step s pk (s0, rest, nf) x))) | Some r0 => ~ In n (snd (fst (cancel_step s pk (s0, rest, nf) x))) /\ ostat (fst (fst (cancel_step s pk (s0, rest, nf) x))) n = Some (cancel_status rem r0) end).
        { destruct seen; [rewrite H3, H2; exact Hs|apply H3; exact Hs]. }
        specialize (IH Hs'). destruct IH as [I1 I2]. split; [exact I1|].
        destruct seen; [exact I2|]. destruct (first_report b r); [exact I2|]. rewrite H2 in I2. exact I2. }
  assert (Hrem : orem s n = Some rem) by (unfold orem; rewrite Ho; reflexivity).
  assert (Hex : ostat s n <> None) by (unfold ostat; rewrite Ho; discriminate).
  specialize (G reports (s, pk, 0) Hrem Hex None Hin). cbv zeta in G. cbn [fst snd] in G.
  set (acc := fold_left (cancel_step s pk) reports (s, pk, 0)) in *. destruct G as [G1 G2].
  set (f := fun s0 n0 => with_trade s0 n0 (fun s1 => order_status s1 n0 SExecutable)).
  change (ostat (add_tx (fold_left f (snd (fst acc)) (fst (fst acc))) 0 (snd acc)) n = Some match first_report b reports with Some r => cancel_status rem r | None => SExecutable end).
  assert (Ea : forall x a c, ostat (add_tx x a c) n = ostat x n) by reflexivity. rewrite Ea.
  destruct (first_report b reports) as [r|].
  - destruct G2 as [G2 G3]. rewrite (fold_untouched f (fun k => k) (snd (fst acc)) n); [exact G3| |rewrite map_id; exact G2].
    intros s0 x Hne. apply ostat_with_trade_other. intros y. rewrite ostat_order_status. replace (n =? x) with false by lia. reflexivity.
  - destruct G2 as [G2 G3].
    assert (Hx : ostat (fst (fst acc)) n <> None) by (rewrite G3; exact Hex).
    pose proof (reset_orders_exact) as _.
    assert (Gf : forall l s0, ostat s0 n <> None -> (In n l \/ ostat s0 n = Some SExecutable) -> ostat (fold_left f l s0) n = Some SExecutable).
    { induction l as [|x t IH]; intros s0 Hex0 H; cbn [fold_left]; [destruct H as [[]|H]; exact H|].
      assert (Hstep : ostat (f s0 x) n = if n =? x then (match ostat s0 x with None => ostat s0 n | Some _ => Some SExecutable end) else ostat s0 n).
      { unfold f, with_trade. destruct (oget x (ls_orders s0)) eqn:E.
        - rewrite ostat_trade_set, ostat_order_status, ostat_trade_set. destruct (n =? x) eqn:En; [|reflexivity]. unfold ostat at 2. rewrite E. cbn.
          destruct (ostat s0 n) eqn:E2; [reflexivity|congruence].
        - unfold ostat at 2. rewrite E. cbn. destruct (n =? x); reflexivity. }
      apply IH.
      - rewrite Hstep. destruct (n =? x) eqn:En; [|exact Hex0]. replace x with n by lia. destruct (ostat s0 n); [discriminate|congruence].
      - destruct H as [[->|H]|H]; [right|left; exact H|].
        + rewrite Hstep, Z.eqb_refl. destruct (ostat s0 n); [reflexivity|congruence].
        + right. rewrite Hstep. destruct (n =? x) eqn:En; [|exact H]. replace x with n by lia. rewrite H. reflexivity. }
    apply Gf; [exact Hx|left; exact G2].
Qed.

(* ---------- C03: guards, what handlers may write, the stream never re-opens ---------- *)
Theorem req_other_guard s n k p o : oget n (ls_orders s) = Some o -> (lo_status o <> SExecutable \/ lo_bet o = None) -> req_other s n k p = s.
Proof.
  intros Ho H. unfold req_other. rewrite Ho. destruct (lo_bet o); [|reflexivity]. destruct H as [H|H]; [|discriminate].
  destruct (lo_status o); try reflexivity. congruence.
Qed.
Theorem req_other_unknown s n k p : oget n (ls_orders s) = None -> req_other s n k p = s.
Proof. intros Ho. unfold req_other. rewrite Ho. reflexivity. Qed.
Theorem req_other_accepts s n k p o b : oget n (ls_orders s) = Some o -> lo_status o = SExecutable -> lo_bet o = Some b ->
  ostat (req_other s n k p) n = Some (if k =? 0 then SCancelling else if k =? 1 then SUpdating else SReplacing) /\
  (forall m, m <> n -> ostat (req_other s n k p) m = ostat s m).
Proof.
  intros Ho Hs Hb. unfold req_other. rewrite Ho, Hb, Hs. cbn [status_eqb]. split.
  - rewrite ostat_order_status, Z.eqb_refl. destruct (k =? 2).
    + rewrite ostat_set_fields by (intros; reflexivity). unfold ostat. rewrite Ho. reflexivity.
    + unfold ostat. rewrite Ho. reflexivity.
  - intros m Hm. rewrite ostat_order_status. replace (m =? n) with false by lia. destruct (k =? 2); [apply ostat_set_fields; intros; reflexivity|reflexivity].
Qed.

Lemma wf_row_status s n r : wrote_final s (row_status s n r).
Proof.
  unfold row_status. destruct (oget n (ls_orders s)) as [o|]; [|apply wf_refl].
  destruct (lo_bet o); destruct (lo_status o); try apply wf_refl; destruct (rw_complete r); try apply wf_refl; apply wf_order_status; cbn; auto.
Qed.
Lemma wf_leave_live s n : wrote_final s (leave_live s n).
Proof. unfold leave_live. destruct (oget n (ls_orders s)) as [o|]; [|apply wf_refl]. destruct (lo_complete o); [apply wf_set_fields; intros; reflexivity|apply wf_refl]. Qed.
Lemma wf_apply_row s n r : wrote_final s (apply_row s n r).
Proof.
  unfold apply_row. eapply wf_trans; [|apply wf_leave_live]. eapply wf_trans; [|apply wf_row_status]. apply wf_set_fields; intros; reflexivity.
Qed.

(* the order stream acts on PENDING (with a bet id) and EXECUTABLE orders only: a complete order is never re-opened by it *)
Theorem row_status_only_pending_or_executable s n r o : oget n (ls_orders s) = Some o -> lo_status o <> SPending -> lo_status o <> SExecutable -> row_status s n r = s.
Proof. intros Ho H1 H2. unfold row_status. rewrite Ho. destruct (lo_bet o); destruct (lo_status o); try reflexivity; congruence. Qed.
Theorem apply_row_keeps_status_of_complete s n r o k :
  oget n (ls_orders s) = Some o -> lo_status o <> SPending -> lo_status o <> SExecutable -> ostat (apply_row s n r) k = ostat s k.
Proof.
  intros Ho H1 H2. unfold apply_row.
  set (s1 := set_fields s n (fun o0 => set_view o0 r)).
  assert (Ho1 : oget n (ls_orders s1) = Some (set_view o r)) by (unfold s1; rewrite orders_set_fields, oget_oupd by reflexivity; rewrite Z.eqb_refl, Ho; reflexivity).
  rewrite (row_status_only_pending_or_executable s1 n r (set_view o r) Ho1) by (cbn; assumption).
  unfold leave_live. rewrite Ho1. destruct (lo_complete (set_view o r)); [rewrite ostat_set_fields by (intros; reflexivity)|]; unfold s1; apply ostat_set_fields; intros; reflexivity.
Qed.

Definition live_status (a : status) : bool := match a with SPending | SExecutable | SCancelling | SUpdating | SReplacing => true | _ => false end.
Definition legal (a b : status) : bool :=
  match a, b with
  | SNone, SPending | SNone, SViolation => true
  | SPending, SExecutable | SPending, SExecComplete | SPending, SExpired | SPending, SViolation => true
  | SExecutable, SCancelling | SExecutable, SUpdating | SExecutable, SReplacing | SExecutable, SExecComplete => true
  | SCancelling, SExecutable | SCancelling, SExecComplete | SUpdating, SExecutable | SUpdating, SExecComplete | SReplacing, SExecutable | SReplacing, SExecComplete => true
  | _, _ => false
  end.
(* whatever a response, an exhausted retry or a snapshot writes on an order that is live is a documented transition (or leaves Executable as it is) *)
Theorem final_write_is_legal a b : live_status a = true -> In (Some b) final2 -> legal a b = true \/ (a = SExecutable /\ b = SExecutable).
Proof. intros Ha [H|[H|[]]]; inversion H; subst; destruct a; cbn in *; try discriminate; auto. Qed.

Lemma ostat_row_status_other s n r k : k <> n -> ostat (row_status s n r) k = ostat s k.
Proof.
  intros Hk. unfold row_status. destruct (oget n (ls_orders s)) as [o|]; [|reflexivity].
  destruct (lo_bet o); destruct (lo_status o); try reflexivity; destruct (rw_complete r); try reflexivity; rewrite ostat_order_status; replace (k =? n) with false by lia; reflexivity.
Qed.
Lemma ostat_leave_live s n k : ostat (leave_live s n) k = ostat s k.
Proof. unfold leave_live. destruct (oget n (ls_orders s)) as [o|]; [|reflexivity]. destruct (lo_complete o); [apply ostat_set_fields; intros; reflexivity|reflexivity]. Qed.
Lemma ostat_apply_row_other s n r k : k <> n -> ostat (apply_row s n r) k = ostat s k.
Proof. intros Hk. unfold apply_row. rewrite ostat_leave_live, ostat_row_status_other by exact Hk. apply ostat_set_fields; intros; reflexivity. Qed.

Lemma ostat_adopt s x st k : oget (sr_name x) (ls_orders s) = None -> ostat (adopt s x st) k = if k =? sr_name x then Some SPending else ostat s k.
Proof.
  intros Hn. unfold adopt, ostat. cbn [ls_orders]. rewrite oget_app. cbn [lo_name]. destruct (k =? sr_name x) eqn:E.
  - replace k with (sr_name x) by lia. rewrite Hn, Z.eqb_refl. reflexivity.
  - replace (sr_name x =? k) with false by lia. destruct (oget k (ls_orders s)); reflexivity.
Qed.
Lemma adopted_is_settled s x st : oget (sr_name x) (ls_orders s) = None -> settled (apply_row (adopt s x st) (sr_name x) (sr_row x)) (sr_name x).
Proof.
  intros Hn. unfold apply_row, settled. rewrite ostat_leave_live.
  set (s1 := set_fields (adopt s x st) (sr_name x) (fun o => set_view o (sr_row x))).
  assert (Ho : exists o, oget (sr_name x) (ls_orders s1) = Some o /\ lo_status o = SPending /\ lo_bet o = Some (rw_bet (sr_row x))).
  { unfold s1. rewrite orders_set_fields, oget_oupd by reflexivity. rewrite Z.eqb_refl. unfold adopt. cbn [ls_orders]. rewrite oget_app, Hn. cbn [lo_name]. rewrite Z.eqb_refl.
    eexists. split; [reflexivity|]. cbn. split; reflexivity. }
  destruct Ho as (o & Ho & Hs & Hb). unfold row_status. rewrite Ho, Hb, Hs.
  rewrite ostat_order_status, Z.eqb_refl. unfold ostat. rewrite Ho. cbn. destruct (rw_complete (sr_row x)); auto.
Qed.
Lemma wf_process_row s x : wrote_final s (process_row s x).
Proof.
  unfold process_row. destruct (oget (sr_name x) (ls_orders s)) as [o|] eqn:E.
  - destruct (lo_bet o) as [b|]; [|apply wf_apply_row]. destruct (b =? rw_bet (sr_row x)); [apply wf_apply_row|]. destruct (find _ _); [apply wf_apply_row|apply wf_refl].
  - destruct (sr_strategy x) as [st|]; [|apply wf_refl]. intros k. destruct (Z.eq_dec k (sr_name x)) as [->|Hk].
    + split; [right; apply adopted_is_settled; exact E|]. intros H. unfold ostat in H. rewrite E in H. cbn in H. congruence.
    + rewrite ostat_apply_row_other by exact Hk. rewrite ostat_adopt by exact E. replace (k =? sr_name x) with false by lia. split; [left; reflexivity|auto].
Qed.

Definition is_answer (e : levent) : bool :=
  match e with LResponsePlace _ _ | LResponseCancel _ _ | LResponseUpdate _ _ | LResponseReplace _ _ | LExhausted _ _ | LSnapshot _ => true | _ => false end.
(* C03: every status written by a response, by exhausted retries or by the order stream is Executable or Execution complete *)
Theorem answers_write_only_final s e : is_answer e = true -> wrote_final s (lstep s e).
Proof.
  intros He. destruct e; try discriminate; cbn [lstep].
  - unfold exec_place. cbv zeta. eapply wf_trans; [|apply wf_add_tx]. apply wf_fold. intros s0 x. apply wf_with_trade. intros y. apply wf_place_body.
  - unfold exec_cancel. cbv zeta. eapply wf_trans; [|apply wf_add_tx].
    assert (G : forall l acc, wrote_final (fst (fst acc)) (fst (fst (fold_left (cancel_step s (pkg_orders s names)) l acc)))).
    { induction l as [|x r IH]; intros acc; cbn [fold_left]; [apply wf_refl|]. eapply wf_trans; [|apply IH].
      destruct acc as [[s0 rest] nf]. unfold cancel_step. cbn [fst snd]. destruct (by_bet s (pkg_orders s names) (fst x)); [|apply wf_refl].
      destruct (negb (existsb (Z.eqb z) rest)); [apply wf_refl|]. cbn [fst]. apply wf_with_trade. intros y. apply wf_cancel_body. }
    eapply wf_trans; [apply (G reports (s, pkg_orders s names, 0))|]. apply wf_fold. intros s0 x. apply wf_with_trade. intros y. apply wf_order_status. cbn; auto.
  - unfold exec_update. cbv zeta. eapply wf_trans; [|apply wf_add_tx]. apply wf_fold. intros s0 x. apply wf_with_trade. intros y. apply wf_order_status. cbn; auto.
  - unfold exec_replace. cbv zeta. eapply wf_trans; [|apply wf_add_tx].
    assert (G : forall l acc, wrote_final (fst acc) (fst (fold_left replace_step l acc))).
    { induction l as [|x r IH]; intros acc; cbn [fold_left]; [apply wf_refl|]. eapply wf_trans; [apply wf_replace_step|apply IH]. }
    apply (G _ (s, 0)).
  - unfold reset_orders. apply wf_fold. intros s0 x. apply wf_with_trade. intros y. apply wf_order_status. destruct is_place; cbn; auto.
  - unfold process_snapshot. apply wf_fold. intros s0 x. apply wf_process_row.
Qed.

(* ---------- C11: what one row of a snapshot does ---------- *)
Lemma oget_order_status s m st n : oget n (ls_orders (order_status s m st)) = if n =? m then option_map (fun o => set_lo o st (ls_complete s)) (oget n (ls_orders s)) else oget n (ls_orders s).
Proof. rewrite orders_order_status. apply oget_oupd. reflexivity. Qed.
Lemma oget_set_fields s m f n : (forall o, lo_name (f o) = lo_name o) -> oget n (ls_orders (set_fields s m f)) = if n =? m then option_map f (oget n (ls_orders s)) else oget n (ls_orders s).
Proof. intros Hf. rewrite orders_set_fields. apply oget_oupd. exact Hf. Qed.
Lemma complete_set_fields s m f : ls_complete (set_fields s m f) = ls_complete s. Proof. reflexivity. Qed.

Definition tracks (o : lorder) (r : row) : Prop := lo_view o = Some r /\ lo_complete o = rw_complete r /\ (rw_complete r = true -> lo_in_live o = false).

Theorem row_converges s n r o :
  status_in SExecComplete (ls_complete s) = true -> status_in SExecutable (ls_complete s) = false ->
  oget n (ls_orders s) = Some o -> lo_complete o = status_in (lo_status o) (ls_complete s) ->
  (lo_status o = SExecutable \/ (lo_status o = SPending /\ (lo_bet o <> None \/ lo_async o = true))) ->
  exists o', oget n (ls_orders (apply_row s n r)) = Some o' /\ tracks o' r /\
             lo_bet o' = (if lo_async o then match lo_bet o with None => Some (rw_bet r) | b => b end else lo_bet o) /\
             lo_matched o' = rw_matched r /\ lo_remaining o' = rw_remaining r.
Proof.
  intros Hc1 Hc2 Ho Hco Hpre. unfold apply_row.
  set (s1 := set_fields s n (fun o0 => set_view o0 r)).
  assert (Ho1 : oget n (ls_orders s1) = Some (set_view o r)) by (unfold s1; rewrite oget_set_fields by reflexivity; rewrite Z.eqb_refl, Ho; reflexivity).
  assert (Hcs : ls_complete s1 = ls_complete s) by reflexivity.
  assert (Hbet : lo_bet (set_view o r) <> None \/ lo_status o = SExecutable).
  { destruct Hpre as [H|[H1 [H2|H2]]]; [right; exact H|left|left]; cbn [set_view lo_bet].
    - destruct (lo_async o); [destruct (lo_bet o); [discriminate|congruence]|exact H2].
    - rewrite H2. destruct (lo_bet o); discriminate. }
  (* the state after the status mapping and the order found in it *)
  assert (Hrs : exists o2, oget n (ls_orders (row_status s1 n r)) = Some o2 /\ lo_view o2 = Some r /\ lo_complete o2 = rw_complete r /\
                          lo_bet o2 = lo_bet (set_view o r) /\ lo_place_resp o2 = lo_place_resp o /\ lo_size o2 = lo_size o /\ lo_name o2 = lo_name o).
  { unfold row_status. rewrite Ho1.
    assert (Est : lo_status (set_view o r) = lo_status o) by reflexivity. rewrite Est.
    destruct Hpre as [Hs|[Hs _]]; rewrite Hs.
    - assert (E : forall (X : option Z), (match X with Some _ => if rw_complete r then order_status s1 n SExecComplete else s1 | None => if rw_complete r then order_status s1 n SExecComplete else s1 end)
                  = if rw_complete r then order_status s1 n SExecComplete else s1) by (intros [|]; reflexivity).
      rewrite E. destruct (rw_complete r) eqn:Er.
      + rewrite oget_order_status, Z.eqb_refl, Ho1. cbn [option_map]. eexists. split; [reflexivity|]. cbn [set_lo lo_view lo_complete lo_bet lo_place_resp lo_size lo_name set_view].
        rewrite ?Hcs, Hc1. repeat split; reflexivity.
      + rewrite Ho1. eexists. split; [reflexivity|]. cbn [lo_view lo_complete lo_bet lo_place_resp lo_size lo_name set_view]. rewrite Hco, Hs, Hc2. repeat split; reflexivity.
    - destruct Hbet as [Hb|Hb]; [|congruence].
      destruct (lo_bet (set_view o r)) eqn:Eb; [|congruence].
      rewrite oget_order_status, Z.eqb_refl, Ho1. cbn [option_map]. eexists. split; [reflexivity|]. cbn [set_lo lo_view lo_complete lo_bet lo_place_resp lo_size lo_name set_view].
      rewrite ?Hcs. destruct (rw_complete r); [rewrite Hc1|rewrite Hc2]; repeat split; try reflexivity; exact Eb. }
  destruct Hrs as (o2 & Ho2 & Hv & Hcm & Hb2 & Hp & Hsz & Hnm).
  unfold leave_live. rewrite Ho2. destruct (lo_complete o2) eqn:Ec.
  - rewrite oget_set_fields by reflexivity. rewrite Z.eqb_refl, Ho2. cbn [option_map]. eexists. split; [reflexivity|].
    unfold tracks, lo_matched, lo_remaining. cbn. rewrite Hv. repeat split; try reflexivity; try congruence. rewrite Hb2. reflexivity.
  - rewrite Ho2. eexists. split; [reflexivity|]. unfold tracks, lo_matched, lo_remaining. rewrite Hv. repeat split; try reflexivity; try congruence. rewrite Hb2. reflexivity.
Qed.

Theorem unknown_strategy_ignored s x : oget (sr_name x) (ls_orders s) = None -> sr_strategy x = None -> process_row s x = s.
Proof. intros H1 H2. unfold process_row. rewrite H1, H2. reflexivity. Qed.

Lemma length_oupd m f l : length (oupd m f l) = length l. Proof. apply map_length. Qed.
Lemma length_order_status s m st : length (ls_orders (order_status s m st)) = length (ls_orders s).
Proof. rewrite orders_order_status. apply length_oupd. Qed.
Lemma length_apply_row s n r : length (ls_orders (apply_row s n r)) = length (ls_orders s).
Proof.
  unfold apply_row, leave_live.
  assert (H1 : forall x, length (ls_orders (row_status x n r)) = length (ls_orders x)).
  { intros x. unfold row_status. destruct (oget n (ls_orders x)) as [o|]; [|reflexivity].
    destruct (lo_bet o); destruct (lo_status o); try reflexivity; destruct (rw_complete r); try reflexivity; apply length_order_status. }
  match goal with |- context [oget n (ls_orders ?X)] => destruct (oget n (ls_orders X)) as [o|] end.
  - destruct (lo_complete o); [rewrite orders_set_fields, length_oupd|]; rewrite H1, orders_set_fields; apply length_oupd.
  - rewrite H1, orders_set_fields. apply length_oupd.
Qed.
(* adoption: exactly one new order for a row of a known strategy whose reference is unknown locally; none otherwise *)
Theorem process_row_adopts_exactly s x :
  length (ls_orders (process_row s x)) =
  (length (ls_orders s) + match oget (sr_name x) (ls_orders s), sr_strategy x with None, Some _ => 1 | _, _ => 0 end)%nat.
Proof.
  unfold process_row. destruct (oget (sr_name x) (ls_orders s)) as [o|] eqn:E.
  - destruct (lo_bet o) as [b|]; [|rewrite length_apply_row; lia]. destruct (b =? rw_bet (sr_row x)); [rewrite length_apply_row; lia|].
    destruct (find _ _); [rewrite length_apply_row; lia|lia].
  - destruct (sr_strategy x) as [st|]; [|lia]. rewrite length_apply_row. unfold adopt. cbn [ls_orders]. rewrite app_length. cbn. lia.
Qed.
(* once adopted the reference is known: the same row again adds nothing *)
Theorem adopted_once s x st : oget (sr_name x) (ls_orders s) = None -> sr_strategy x = Some st ->
  let s1 := process_row s x in
  oget (sr_name x) (ls_orders s1) <> None /\ length (ls_orders (process_row s1 x)) = length (ls_orders s1).
Proof.
  intros H1 H2. cbv zeta.
  assert (Hex : oget (sr_name x) (ls_orders (process_row s x)) <> None).
  { pose proof (wf_process_row s x (sr_name x)) as [_ _]. unfold process_row. rewrite H1, H2.
    pose proof (adopted_is_settled s x st H1) as Hs. unfold settled, ostat in Hs. destruct (oget (sr_name x) (ls_orders (apply_row (adopt s x st) (sr_name x) (sr_row x)))); [discriminate|cbn in Hs; destruct Hs as [Hs|[Hs|[]]]; discriminate]. }
  split; [exact Hex|]. rewrite process_row_adopts_exactly. destruct (oget (sr_name x) (ls_orders (process_row s x))); [lia|congruence].
Qed.

(* ---------- C10: runner-context bookkeeping ---------- *)
Lemma ctx_place_charges tid st sl cx :
  exists c, In c (ctx_place tid st sl cx) /\ rc_strat c = st /\ rc_sel c = sl /\ In tid (rc_trades c) /\ In tid (rc_live c).
Proof.
  unfold ctx_place. cbv zeta. destruct (existsb (fun c => (rc_strat c =? st) && (rc_sel c =? sl)) cx) eqn:E.
  - apply existsb_exists in E. destruct E as [c [Hc Hk]]. eexists. split; [apply in_map_iff; exists c; split; [reflexivity|exact Hc]|]. rewrite Hk. cbn.
    assert (Hadd : forall l, In tid (if existsb (Z.eqb tid) l then l else l ++ [tid])).
    { intros l. destruct (existsb (Z.eqb tid) l) eqn:El; [apply existsb_exists in El; destruct El as [y [Hy Ey]]; replace tid with y by lia; exact Hy|apply in_or_app; right; left; reflexivity]. }
    repeat split; try lia; apply Hadd.
  - eexists. split; [apply in_or_app; right; left; reflexivity|]. cbn. auto.
Qed.
Lemma NoDup_app_snoc (l : list Z) x : NoDup l -> ~ In x l -> NoDup (l ++ [x]).
Proof.
  induction l as [|h t IH]; intros H Hn; cbn [app]; [constructor; [intros []|constructor]|].
  inversion H; subst. constructor.
  - intro Hin. apply in_app_or in Hin. destruct Hin as [Hin|[Hin|[]]]; [tauto|]. apply Hn. left. congruence.
  - apply IH; [assumption|]. intro. apply Hn. right. assumption.
Qed.
(* charging is idempotent: a trade is counted once however many of its orders are placed *)
Lemma add_idem tid l : NoDup l -> NoDup (if existsb (Z.eqb tid) l then l else l ++ [tid]).
Proof.
  intros H. destruct (existsb (Z.eqb tid) l) eqn:E; [exact H|]. apply NoDup_app_snoc; [exact H|]. intro Hin.
  assert (existsb (Z.eqb tid) l = true) by (apply existsb_exists; exists tid; split; [exact Hin|lia]). congruence.
Qed.

Theorem ctx_place_nodup tid st sl cx : (forall c, In c cx -> NoDup (rc_trades c) /\ NoDup (rc_live c)) ->
  forall c, In c (ctx_place tid st sl cx) -> NoDup (rc_trades c) /\ NoDup (rc_live c).
Proof.
  intros H c Hc. unfold ctx_place in Hc. cbv zeta in Hc. destruct (existsb (fun c => (rc_strat c =? st) && (rc_sel c =? sl)) cx).
  - apply in_map_iff in Hc. destruct Hc as [c0 [<- Hc0]]. destruct (H c0 Hc0) as [H1 H2]. destruct ((rc_strat c0 =? st) && (rc_sel c0 =? sl)); [cbn; split; apply add_idem; assumption|split; assumption].
  - apply in_app_or in Hc. destruct Hc as [Hc|[<-|[]]]; [apply H; exact Hc|]. cbn. split; constructor; try (intros []); constructor.
Qed.
(* completing a trade frees its slot: with no duplicates in live_trades the trade is not charged afterwards *)
Theorem ctx_reset_frees tid st sl cx c : In c (ctx_reset tid st sl cx) -> rc_strat c = st -> rc_sel c = sl ->
  (forall c0, In c0 cx -> NoDup (rc_live c0)) -> ~ In tid (rc_live c).
Proof.
  intros Hc Hs Hl Hnd. unfold ctx_reset in Hc. apply in_map_iff in Hc. destruct Hc as [c0 [<- Hc0]].
  destruct ((rc_strat c0 =? st) && (rc_sel c0 =? sl)) eqn:E.
  - cbn [rc_live]. specialize (Hnd c0 Hc0). clear - Hnd. induction (rc_live c0) as [|x r IH]; [intros []|]. inversion Hnd; subst.
    destruct (x =? tid) eqn:Ex; [replace tid with x by lia; assumption|]. intros [H|H]; [lia|]. apply IH; assumption.
  - cbn in Hs, Hl. lia.
Qed.

(* the trade hook of a status change completes a trade only when every one of its orders is complete *)
Theorem order_status_completes_soundly s n st t' :
  In t' (ls_trades (order_status s n st)) -> lt_status t' = TComplete ->
  (exists t, In t (ls_trades s) /\ lt_id t = lt_id t' /\ lt_status t = TComplete) \/
  (forall o, In o (ls_orders (order_status s n st)) -> lo_trade o = lt_id t' -> lo_complete o = true).
Proof.
  intros Hin Hst. unfold order_status in *. cbv zeta in *.
  set (s1 := with_ls s (oupd n (fun o => set_lo o st (ls_complete s)) (ls_orders s)) (ls_trades s) (ls_ctx s)) in *.
  destruct (oget n (ls_orders s1)) as [o|]; [|left; exists t'; auto].
  destruct (lo_complete o && negb (status_eqb st SViolation)); [|left; exists t'; auto].
  destruct (tget' (lo_trade o) (ls_trades s1)) as [t|] eqn:Et; [|left; exists t'; auto].
  destruct (trade_complete s1 t) eqn:Etc; [|left; exists t'; auto].
  unfold complete_trade in *. rewrite Et in *. cbn [ls_trades ls_orders with_ls] in *. unfold tupd' in Hin. apply in_map_iff in Hin. destruct Hin as [t0 [E0 Hin0]].
  destruct (lt_id t0 =? lo_trade o) eqn:Eid; [|left; exists t0; subst t'; auto].
  right. intros o1 Ho1 Htr. unfold trade_complete in Etc. apply andb_true_iff in Etc. destruct Etc as [_ Hall]. rewrite forallb_forall in Hall.
  specialize (Hall o1 Ho1). apply orb_true_iff in Hall. destruct Hall as [Hall|Hall]; [|exact Hall].
  apply negb_true_iff in Hall. unfold tget' in Et. apply find_some in Et. subst t'. cbn [lt_id] in Htr. lia.
Qed.

(* ---------- C10: the completion hooks never miss ---------- *)

Lemma oget_in n l o : oget n l = Some o -> In o l /\ lo_name o = n.
Proof. unfold oget. intros H. apply find_some in H. destruct H as [H1 H2]. split; [exact H1|lia]. Qed.

Lemma tget_unique tid l t t1 : NoDup (map lt_id l) -> tget' tid l = Some t1 -> In t l -> lt_id t = tid -> t = t1.
Proof.
  unfold tget'. intros Hnd Hf Hin Hid. subst tid. revert Hnd Hf Hin. induction l as [|x r IH]; intros Hnd Hf Hin; [destruct Hin|]. cbn [find] in Hf. cbn [map] in Hnd. inversion Hnd as [|? ? Hx Hr]; subst.
  destruct (lt_id x =? lt_id t) eqn:E.
  - inversion Hf; subst. destruct Hin as [->|Hin]; [reflexivity|]. exfalso. apply Hx. apply in_map_iff. exists t. split; [lia|exact Hin].
  - destruct Hin as [->|Hin]; [lia|]. apply IH; assumption.
Qed.

(* the hook never misses a completion: after a status change (other than the VIOLATION mark) the trade of that order is not left
   "completable" - Live, not expecting further orders, every order complete - without having been completed *)
Theorem order_status_never_misses s n st o t :
  NoDup (map lt_id (ls_trades s)) -> st <> SViolation ->
  oget n (ls_orders (order_status s n st)) = Some o -> In t (ls_trades (order_status s n st)) -> lt_id t = lo_trade o ->
  trade_complete (order_status s n st) t = false.
Proof.
  intros Hnd Hst Ho Hin Hid. rewrite orders_order_status in Ho.
  unfold order_status in Hin |- *. cbv zeta in Hin |- *.
  set (s1 := with_ls s (oupd n (fun o0 => set_lo o0 st (ls_complete s)) (ls_orders s)) (ls_trades s) (ls_ctx s)) in *.
  change (oget n (ls_orders s1) = Some o) in Ho. rewrite Ho in Hin |- *.
  destruct (lo_complete o && negb (status_eqb st SViolation)) eqn:Ec.
  - destruct (tget' (lo_trade o) (ls_trades s1)) as [t1|] eqn:Et.
    + destruct (trade_complete s1 t1) eqn:Etc.
      * (* completed: every trade with that id is now Complete *)
        unfold complete_trade in *. rewrite Et in *. cbn [ls_trades with_ls] in Hin. unfold tupd' in Hin. apply in_map_iff in Hin. destruct Hin as [t0 [E0 Hin0]].
        unfold trade_complete. destruct (lt_id t0 =? lo_trade o) eqn:Eid; [subst t; reflexivity|]. subst t. lia.
      * assert (t = t1) by (eapply tget_unique; [exact Hnd|exact Et|exact Hin|exact Hid]). subst t1. exact Etc.
    + exfalso. unfold tget' in Et. apply (find_none _ _ Et) in Hin. lia.
  - (* the order is not complete (or only marked VIOLATION): the trade cannot be completable *)
    apply andb_false_iff in Ec. destruct Ec as [Ec|Ec]; [|destruct st; cbn in Ec; try discriminate; congruence].
    unfold trade_complete. apply andb_false_iff. right. apply not_true_is_false. intro Hall. rewrite forallb_forall in Hall.
    destruct (oget_in _ _ _ Ho) as [Hino _]. specialize (Hall o Hino). rewrite Ec in Hall. rewrite orb_false_r in Hall. apply negb_true_iff in Hall. lia.
Qed.

(* ... and neither does the exit of the trade context manager (`with order.trade:` -> LIVE -> completion check) *)
Theorem trade_exit_never_misses s tid t :
  NoDup (map lt_id (ls_trades s)) -> In t (ls_trades (trade_set s tid TLive)) -> lt_id t = tid -> trade_complete (trade_set s tid TLive) t = false.
Proof.
  intros Hnd Hin Hid. unfold trade_set in Hin |- *. cbv zeta in Hin |- *.
  set (f := fun t0 : ltrade => {| lt_id := lt_id t0; lt_status := TLive; lt_log := lt_log t0 ++ [TLive]; lt_pending_orders := lt_pending_orders t0; lt_strat := lt_strat t0; lt_sel := lt_sel t0 |}) in *.
  set (s1 := with_ls s (ls_orders s) (tupd' tid f (ls_trades s)) (ls_ctx s)) in *.
  assert (Hnd1 : NoDup (map lt_id (ls_trades s1))).
  { unfold s1, with_ls, tupd'. cbn [ls_trades]. rewrite map_map. erewrite map_ext; [exact Hnd|]. intros a. destruct (lt_id a =? tid); reflexivity. }
  destruct (tget' tid (ls_trades s1)) as [t1|] eqn:Et.
  - destruct (trade_complete s1 t1) eqn:Etc.
    + unfold complete_trade in *. rewrite Et in *. cbn [ls_trades with_ls] in Hin. unfold tupd' in Hin at 1. apply in_map_iff in Hin. destruct Hin as [t0 [E0 Hin0]].
      unfold trade_complete. destruct (lt_id t0 =? tid) eqn:Eid; [subst t; reflexivity|]. subst t. lia.
    + assert (t = t1) by (eapply tget_unique; [exact Hnd1|exact Et|exact Hin|exact Hid]). subst t1. exact Etc.
  - exfalso. unfold tget' in Et. apply (find_none _ _ Et) in Hin. lia.
Qed.

(* ---------- C11: a whole snapshot ---------- *)

Lemma oget_row_status_other s n r k : k <> n -> oget k (ls_orders (row_status s n r)) = oget k (ls_orders s).
Proof.
  intros Hk. unfold row_status. destruct (oget n (ls_orders s)) as [o|]; [|reflexivity].
  destruct (lo_bet o); destruct (lo_status o); try reflexivity; destruct (rw_complete r); try reflexivity; rewrite oget_order_status; replace (k =? n) with false by lia; reflexivity.
Qed.
Lemma oget_leave_live_other s n k : k <> n -> oget k (ls_orders (leave_live s n)) = oget k (ls_orders s).
Proof.
  intros Hk. unfold leave_live. destruct (oget n (ls_orders s)) as [o|]; [|reflexivity]. destruct (lo_complete o); [|reflexivity].
  rewrite oget_set_fields by reflexivity. replace (k =? n) with false by lia. reflexivity.
Qed.
Lemma oget_apply_row_other s n r k : k <> n -> oget k (ls_orders (apply_row s n r)) = oget k (ls_orders s).
Proof.
  intros Hk. unfold apply_row. rewrite oget_leave_live_other, oget_row_status_other by exact Hk.
  rewrite oget_set_fields by reflexivity. replace (k =? n) with false by lia. reflexivity.
Qed.
Lemma complete_order_status s m st : ls_complete (order_status s m st) = ls_complete s.
Proof.
  unfold order_status. cbv zeta.
  match goal with |- context [match ?x with Some _ => _ | None => _ end] => destruct x end; [|reflexivity].
  match goal with |- context [if ?c then _ else _] => destruct c end; [|reflexivity].
  match goal with |- context [match ?x with Some _ => _ | None => _ end] => destruct x end; [|reflexivity].
  match goal with |- context [if ?c then _ else _] => destruct c end; [|reflexivity].
  unfold complete_trade. match goal with |- context [match ?x with Some _ => _ | None => _ end] => destruct x end; reflexivity.
Qed.
Lemma complete_apply_row s n r : ls_complete (apply_row s n r) = ls_complete s.
Proof.
  unfold apply_row, leave_live.
  assert (H1 : forall x, ls_complete (row_status x n r) = ls_complete x).
  { intros x. unfold row_status. destruct (oget n (ls_orders x)) as [o|]; [|reflexivity].
    destruct (lo_bet o); destruct (lo_status o); try reflexivity; destruct (rw_complete r); try reflexivity; apply complete_order_status. }
  match goal with |- context [oget n (ls_orders ?X)] => destruct (oget n (ls_orders X)) as [o|] end.
  - destruct (lo_complete o); [cbn [set_fields with_ls ls_complete]|]; rewrite H1; reflexivity.
  - rewrite H1. reflexivity.
Qed.

(* an order is linked to a row when the row is filed under its reference and carries its bet id *)
Definition ready (s : lstate) (x : srow) : Prop :=
  exists o, oget (sr_name x) (ls_orders s) = Some o /\ lo_bet o = Some (rw_bet (sr_row x)) /\
            lo_complete o = status_in (lo_status o) (ls_complete s) /\ (lo_status o = SExecutable \/ lo_status o = SPending).

Lemma ready_row_is_apply s y : ready s y -> process_row s y = apply_row s (sr_name y) (sr_row y).
Proof. intros (o & Ho & Hb & _). unfold process_row. rewrite Ho, Hb, Z.eqb_refl. reflexivity. Qed.
Lemma ready_after_row s y r : ~ In (sr_name y) (map sr_name r) -> (forall z, In z r -> ready s z) ->
  forall z, In z r -> ready (apply_row s (sr_name y) (sr_row y)) z.
Proof.
  intros Hny Hready z Hz. destruct (Hready z Hz) as (o & Ho & Hb & Hco & Hst).
  assert (Hne : sr_name z <> sr_name y) by (intro E; apply Hny; rewrite <- E; apply in_map; exact Hz).
  exists o. rewrite oget_apply_row_other by exact Hne. rewrite complete_apply_row. auto.
Qed.
Lemma snapshot_frame l : NoDup (map sr_name l) -> forall s0 k, ~ In k (map sr_name l) -> (forall z, In z l -> ready s0 z) ->
  oget k (ls_orders (fold_left process_row l s0)) = oget k (ls_orders s0).
Proof.
  induction l as [|z l IH]; intros Hnd s0 k Hn Hrd; cbn [fold_left]; [reflexivity|]. cbn [map In] in Hn, Hnd. inversion Hnd as [|? ? Hz Hndl]; subst.
  rewrite (ready_row_is_apply s0 z) by (apply Hrd; left; reflexivity).
  rewrite IH; [apply oget_apply_row_other; intro E; apply Hn; left; symmetry; exact E|exact Hndl|tauto|].
  apply ready_after_row; [exact Hz|intros w Hw; apply Hrd; right; exact Hw].
Qed.

(* the latest snapshot, any number of orders: every order that is linked to its row and has nothing outstanding holds that row afterwards *)
Theorem snapshot_converges rows : NoDup (map sr_name rows) -> forall s,
  status_in SExecComplete (ls_complete s) = true -> status_in SExecutable (ls_complete s) = false ->
  (forall x, In x rows -> ready s x) ->
  forall x, In x rows -> exists o', oget (sr_name x) (ls_orders (process_snapshot s rows)) = Some o' /\ tracks o' (sr_row x) /\
                                    lo_matched o' = rw_matched (sr_row x) /\ lo_remaining o' = rw_remaining (sr_row x).
Proof.
  unfold process_snapshot. induction rows as [|y r IH]; intros Hnd s Hc1 Hc2 Hready x Hx; [destruct Hx|].
  cbn [map] in Hnd. inversion Hnd as [|? ? Hny Hndr]; subst. cbn [fold_left].
  rewrite (ready_row_is_apply s y) by (apply Hready; left; reflexivity).
  assert (Hcs : ls_complete (apply_row s (sr_name y) (sr_row y)) = ls_complete s) by apply complete_apply_row.
  assert (Hready' : forall z, In z r -> ready (apply_row s (sr_name y) (sr_row y)) z)
    by (apply ready_after_row; [exact Hny|intros w Hw; apply Hready; right; exact Hw]).
  destruct Hx as [->|Hx].
  - destruct (Hready x (or_introl eq_refl)) as (o & Ho & Hb & Hco & Hst).
    destruct (row_converges s (sr_name x) (sr_row x) o Hc1 Hc2 Ho Hco) as (o' & Ho' & Htr & _ & Hm & Hr).
    { destruct Hst as [Hst|Hst]; [left; exact Hst|right; split; [exact Hst|left; rewrite Hb; discriminate]]. }
    exists o'. split; [|auto]. rewrite snapshot_frame; [exact Ho'|exact Hndr|exact Hny|exact Hready'].
  - apply IH; [exact Hndr|rewrite Hcs; exact Hc1|rewrite Hcs; exact Hc2|exact Hready'|exact Hx].
Qed.

(* ---------- C10: invariant over histories - no completable trade is left uncompleted ---------- *)

(* every order of trade tid is complete *)
Definition allc (os : list lorder) (tid : Z) : bool := forallb (fun o => negb (lo_trade o =? tid) || lo_complete o) os.
Lemma trade_complete_allc s t : trade_complete s t = tstatus_eqb (lt_status t) TLive && negb (lt_pending_orders t) && allc (ls_orders s) (lt_id t).
Proof. reflexivity. Qed.

(* nothing completable is left uncompleted *)
Definition ncl (s : lstate) : Prop := forall t, In t (ls_trades s) -> trade_complete s t = false.
Definition uniq (s : lstate) : Prop := NoDup (map lt_id (ls_trades s)) /\ NoDup (map lo_name (ls_orders s)).

(* the trade of the order named n *)
Definition trade_of (s : lstate) (n : Z) : option Z := option_map lo_trade (oget n (ls_orders s)).

Lemma allc_oupd_other os n f tid : (forall o, lo_trade (f o) = lo_trade o) ->
  (forall o, In o os -> lo_name o = n -> lo_trade o <> tid) -> allc (oupd n f os) tid = allc os tid.
Proof.
  intros Hf Hn. unfold allc, oupd. induction os as [|o r IH]; [reflexivity|]. cbn [map forallb].
  rewrite IH by (intros x Hx; apply Hn; right; exact Hx). f_equal.
  destruct (lo_name o =? n) eqn:E; [|reflexivity]. rewrite Hf.
  assert (lo_trade o <> tid) by (apply Hn; [left; reflexivity|lia]). replace (lo_trade o =? tid) with false by lia. reflexivity.
Qed.

Lemma uniq_name_trade os n o x : NoDup (map lo_name os) -> oget n os = Some o -> In x os -> lo_name x = n -> x = o.
Proof.
  unfold oget. intros Hnd Hf Hin Hx. subst n. revert Hnd Hf Hin. induction os as [|y r IH]; intros Hnd Hf Hin; [destruct Hin|]. cbn [find] in Hf. cbn [map] in Hnd. inversion Hnd as [|? ? Hy Hr]; subst.
  destruct (lo_name y =? lo_name x) eqn:E.
  - inversion Hf; subst. destruct Hin as [->|Hin]; [reflexivity|]. exfalso. apply Hy. apply in_map_iff. exists x. split; [lia|exact Hin].
  - destruct Hin as [->|Hin]; [lia|]. apply IH; assumption.
Qed.

Definition set_complete (t : ltrade) : ltrade :=
  {| lt_id := lt_id t; lt_status := TComplete; lt_log := lt_log t ++ [TComplete]; lt_pending_orders := lt_pending_orders t; lt_strat := lt_strat t; lt_sel := lt_sel t |}.

Lemma trades_complete_trade s tid : ls_trades (complete_trade s tid) = ls_trades s \/ ls_trades (complete_trade s tid) = tupd' tid set_complete (ls_trades s).
Proof. unfold complete_trade. destruct (tget' tid (ls_trades s)); [right; reflexivity|left; reflexivity]. Qed.

Lemma trades_order_status s n st :
  ls_trades (order_status s n st) = ls_trades s \/
  exists o, oget n (oupd n (fun o0 => set_lo o0 st (ls_complete s)) (ls_orders s)) = Some o /\ ls_trades (order_status s n st) = tupd' (lo_trade o) set_complete (ls_trades s).
Proof.
  unfold order_status. cbv zeta.
  set (s1 := with_ls s (oupd n (fun o0 => set_lo o0 st (ls_complete s)) (ls_orders s)) (ls_trades s) (ls_ctx s)).
  change (oupd n (fun o0 => set_lo o0 st (ls_complete s)) (ls_orders s)) with (ls_orders s1).
  destruct (oget n (ls_orders s1)) as [o|] eqn:Eo; [|left; reflexivity].
  destruct (lo_complete o && negb (status_eqb st SViolation)); [|left; reflexivity].
  destruct (tget' (lo_trade o) (ls_trades s1)) as [t|]; [|left; reflexivity].
  destruct (trade_complete s1 t); [|left; reflexivity].
  destruct (trades_complete_trade s1 (lo_trade o)) as [H|H]; [left; exact H|right; exists o; split; [reflexivity|exact H]].
Qed.

Lemma in_tupd_other tid f l t : In t (tupd' tid f l) -> (forall x, lt_id (f x) = lt_id x) -> lt_id t <> tid -> In t l.
Proof.
  unfold tupd'. intros Hin Hf Hne. apply in_map_iff in Hin. destruct Hin as [x [E Hx]]. destruct (lt_id x =? tid) eqn:Ex; [|subst; exact Hx].
  subst t. rewrite Hf in Hne. lia.
Qed.

Lemma oget_oupd_self n f l o : (forall x, lo_name (f x) = lo_name x) -> oget n (oupd n f l) = Some o -> exists o0, oget n l = Some o0 /\ o = f o0.
Proof. intros Hf H. rewrite oget_oupd in H by exact Hf. rewrite Z.eqb_refl in H. destruct (oget n l) as [o0|]; [|discriminate]. inversion H. exists o0. auto. Qed.

Theorem ncl_order_status s n st : uniq s -> st <> SViolation -> ncl s -> ncl (order_status s n st).
Proof.
  intros [Hut Huo] Hst Hn t Hin.
  destruct (oget n (ls_orders (order_status s n st))) as [o|] eqn:Eo.
  - destruct (Z.eq_dec (lt_id t) (lo_trade o)) as [E|E]; [eapply order_status_never_misses; eassumption|].
    (* another trade: its record and its orders are as they were *)
    pose proof Eo as Eo'. rewrite orders_order_status in Eo'. destruct (oget_oupd_self n (fun o1 => set_lo o1 st (ls_complete s)) (ls_orders s) o ltac:(reflexivity) Eo') as (o0 & Ho0 & ->).
    assert (Hint : In t (ls_trades s)).
    { destruct (trades_order_status s n st) as [H|(o1 & Ho1 & H)]; [rewrite H in Hin; exact Hin|].
      rewrite Ho1 in Eo'. inversion Eo'; subst o1. rewrite H in Hin. eapply in_tupd_other; [exact Hin|reflexivity|exact E]. }
    specialize (Hn t Hint). rewrite trade_complete_allc in Hn |- *. rewrite orders_order_status.
    rewrite allc_oupd_other; [exact Hn|reflexivity|].
    intros x Hx Hxn. assert (x = o0) by (eapply uniq_name_trade; eassumption). subst x. exact (fun H => E (eq_sym H)).
  - (* no order of that name: nothing changed *)
    assert (Hnone : oget n (ls_orders s) = None).
    { rewrite orders_order_status, oget_oupd in Eo by reflexivity. rewrite Z.eqb_refl in Eo. destruct (oget n (ls_orders s)); [discriminate|reflexivity]. }
    assert (Hos : ls_orders (order_status s n st) = ls_orders s).
    { rewrite orders_order_status. unfold oupd. erewrite map_ext_in; [apply map_id|]. intros a Ha. destruct (lo_name a =? n) eqn:Ea; [|reflexivity].
      exfalso. unfold oget in Hnone. apply (find_none _ _ Hnone) in Ha. lia. }
    assert (Hts : ls_trades (order_status s n st) = ls_trades s).
    { destruct (trades_order_status s n st) as [H|(o1 & Ho1 & _)]; [exact H|]. rewrite oget_oupd in Ho1 by reflexivity. rewrite Z.eqb_refl, Hnone in Ho1. discriminate. }
    rewrite Hts in Hin. specialize (Hn t Hin). rewrite trade_complete_allc in Hn |- *. rewrite Hos. exact Hn.
Qed.

(* ---------- the invariant ---------- *)
Definition proj3 (o : lorder) : Z * Z * bool := (lo_name o, lo_trade o, lo_complete o).
Definition INV (s : lstate) : Prop :=
  ncl s /\ NoDup (map lt_id (ls_trades s)) /\ NoDup (map lo_name (ls_orders s)) /\
  (forall o, In o (ls_orders s) -> lo_name o < ls_next_name s) /\ (forall t, In t (ls_trades s) -> lt_id t < ls_next_trade s).

Definition same_tc (s s' : lstate) : Prop :=
  ls_trades s' = ls_trades s /\ map proj3 (ls_orders s') = map proj3 (ls_orders s) /\ ls_next_name s' = ls_next_name s /\ ls_next_trade s' = ls_next_trade s.

Lemma allc_proj os tid : allc os tid = forallb (fun p => negb (snd (fst p) =? tid) || snd p) (map proj3 os).
Proof. unfold allc. induction os as [|o r IH]; [reflexivity|]. cbn [map forallb]. rewrite IH. reflexivity. Qed.

Lemma names_proj os : map lo_name os = map (fun p => fst (fst p)) (map proj3 os).
Proof. rewrite map_map. reflexivity. Qed.

Lemma INV_same_tc s s' : same_tc s s' -> INV s -> INV s'.
Proof.
  intros (Ht & Ho & Hn & Hnt) (Hncl & Hut & Huo & Hfn & Hft). split; [|split; [|split; [|split]]].
  - intros t Hin. rewrite Ht in Hin. specialize (Hncl t Hin). rewrite trade_complete_allc in *. rewrite allc_proj in *. rewrite Ho. exact Hncl.
  - rewrite Ht. exact Hut.
  - rewrite names_proj, Ho, <- names_proj. exact Huo.
  - intros o Hin. rewrite Hn.
    assert (In (lo_name o) (map lo_name (ls_orders s))) by (rewrite names_proj, <- Ho, <- names_proj; apply in_map; exact Hin).
    apply in_map_iff in H. destruct H as [o0 [E H0]]. rewrite <- E. apply Hfn. exact H0.
  - intros t Hin. rewrite Hnt. rewrite Ht in Hin. apply Hft. exact Hin.
Qed.

Lemma same_tc_set_fields s n f : (forall o, proj3 (f o) = proj3 o) -> same_tc s (set_fields s n f).
Proof.
  intros Hf. split; [reflexivity|]. split; [|split; reflexivity]. rewrite orders_set_fields. unfold oupd. rewrite map_map. apply map_ext.
  intros a. destruct (lo_name a =? n); [apply Hf|reflexivity].
Qed.
Lemma same_tc_refl s : same_tc s s. Proof. repeat split; reflexivity. Qed.
Lemma same_tc_trans a b c : same_tc a b -> same_tc b c -> same_tc a c.
Proof. intros (A1 & A2 & A3 & A4) (B1 & B2 & B3 & B4). repeat split; congruence. Qed.
Lemma same_tc_setbet s n b m : same_tc s (setbet s n b m). Proof. apply same_tc_set_fields. reflexivity. Qed.
Lemma same_tc_force_zero s n b : same_tc s (force_zero s n b).
Proof. unfold force_zero. destruct (oget n (ls_orders s)) as [o|]; [|apply same_tc_refl]. destruct (lo_view o); [apply same_tc_refl|]. destruct b; [apply same_tc_refl|apply same_tc_set_fields; reflexivity]. Qed.
Lemma same_tc_leave_live s n : same_tc s (leave_live s n).
Proof. unfold leave_live. destruct (oget n (ls_orders s)) as [o|]; [|apply same_tc_refl]. destruct (lo_complete o); [apply same_tc_set_fields; reflexivity|apply same_tc_refl]. Qed.

(* order_status keeps the rest of the invariant *)
Lemma INV_order_status s n st : st <> SViolation -> INV s -> INV (order_status s n st).
Proof.
  intros Hst (Hncl & Hut & Huo & Hfn & Hft). split; [apply ncl_order_status; [split; assumption|exact Hst|exact Hncl]|].
  assert (Hnames : map lo_name (ls_orders (order_status s n st)) = map lo_name (ls_orders s)).
  { rewrite orders_order_status. unfold oupd. rewrite map_map. apply map_ext. intros a. destruct (lo_name a =? n); reflexivity. }
  assert (Hids : map lt_id (ls_trades (order_status s n st)) = map lt_id (ls_trades s)).
  { destruct (trades_order_status s n st) as [H|(o & _ & H)]; rewrite H; [reflexivity|]. unfold tupd'. rewrite map_map. apply map_ext. intros a. destruct (lt_id a =? lo_trade o); reflexivity. }
  assert (Hnn : ls_next_name (order_status s n st) = ls_next_name s /\ ls_next_trade (order_status s n st) = ls_next_trade s).
  { unfold order_status. cbv zeta.
    repeat match goal with
           | |- context [match ?x with Some _ => _ | None => _ end] => destruct x
           | |- context [if ?c then _ else _] => destruct c
           end; unfold complete_trade; repeat match goal with |- context [match ?x with Some _ => _ | None => _ end] => destruct x end; split; reflexivity. }
  destruct Hnn as [Hn1 Hn2].
  split; [rewrite Hids; exact Hut|]. split; [rewrite Hnames; exact Huo|]. split.
  - intros o Hin. rewrite Hn1. assert (In (lo_name o) (map lo_name (ls_orders s))) by (rewrite <- Hnames; apply in_map; exact Hin).
    apply in_map_iff in H. destruct H as [o0 [E H0]]. rewrite <- E. apply Hfn. exact H0.
  - intros t Hin. rewrite Hn2. assert (In (lt_id t) (map lt_id (ls_trades s))) by (rewrite <- Hids; apply in_map; exact Hin).
    apply in_map_iff in H. destruct H as [t0 [E H0]]. rewrite <- E. apply Hft. exact H0.
Qed.

Definition set_tstatus (st : tstatus) (t : ltrade) : ltrade :=
  {| lt_id := lt_id t; lt_status := st; lt_log := lt_log t ++ [st]; lt_pending_orders := lt_pending_orders t; lt_strat := lt_strat t; lt_sel := lt_sel t |}.

Lemma trades_trade_set s tid st :
  ls_trades (trade_set s tid st) = tupd' tid (set_tstatus st) (ls_trades s) \/
  ls_trades (trade_set s tid st) = tupd' tid set_complete (tupd' tid (set_tstatus st) (ls_trades s)).
Proof.
  unfold trade_set. cbv zeta. set (s1 := with_ls s (ls_orders s) _ (ls_ctx s)).
  destruct (tget' tid (ls_trades s1)) as [t|]; [|left; reflexivity]. destruct (trade_complete s1 t); [|left; reflexivity].
  destruct (trades_complete_trade s1 tid) as [H|H]; [left; exact H|right; exact H].
Qed.
Lemma nn_trade_set s tid st : ls_next_name (trade_set s tid st) = ls_next_name s /\ ls_next_trade (trade_set s tid st) = ls_next_trade s.
Proof.
  unfold trade_set. cbv zeta. set (s1 := with_ls s (ls_orders s) _ (ls_ctx s)).
  destruct (tget' tid (ls_trades s1)) as [t|]; [|split; reflexivity]. destruct (trade_complete s1 t); [|split; reflexivity].
  unfold complete_trade. destruct (tget' tid (ls_trades s1)); split; reflexivity.
Qed.
Lemma ids_tupd tid f l : (forall x, lt_id (f x) = lt_id x) -> map lt_id (tupd' tid f l) = map lt_id l.
Proof. intros Hf. unfold tupd'. rewrite map_map. apply map_ext. intros a. destruct (lt_id a =? tid); [apply Hf|reflexivity]. Qed.

Lemma INV_trade_set s tid st : st = TPending \/ st = TLive -> INV s -> INV (trade_set s tid st).
Proof.
  intros Hst (Hncl & Hut & Huo & Hfn & Hft).
  assert (Hids : map lt_id (ls_trades (trade_set s tid st)) = map lt_id (ls_trades s)).
  { destruct (trades_trade_set s tid st) as [H|H]; rewrite H; rewrite ?ids_tupd by reflexivity; reflexivity. }
  destruct (nn_trade_set s tid st) as [Hn1 Hn2].
  split; [|split; [rewrite Hids; exact Hut|split; [rewrite orders_trade_set; exact Huo|split]]].
  - intros t Hin. destruct (Z.eq_dec (lt_id t) tid) as [E|E].
    + destruct Hst as [->| ->].
      * (* Pending: not completable whatever its orders *)
        assert (lt_status t = TPending).
        { unfold trade_set in Hin. cbv zeta in Hin. set (s1 := with_ls s (ls_orders s) (tupd' tid (fun t0 => {| lt_id := lt_id t0; lt_status := TPending; lt_log := lt_log t0 ++ [TPending]; lt_pending_orders := lt_pending_orders t0; lt_strat := lt_strat t0; lt_sel := lt_sel t0 |}) (ls_trades s)) (ls_ctx s)) in *.
          assert (Hs1 : forall x, In x (ls_trades s1) -> lt_id x = tid -> lt_status x = TPending).
          { intros x Hx Hid. unfold s1, with_ls, tupd' in Hx. cbn [ls_trades] in Hx. apply in_map_iff in Hx. destruct Hx as [x0 [Ex Hx0]]. destruct (lt_id x0 =? tid) eqn:E0; [subst x; reflexivity|subst x; lia]. }
          destruct (tget' tid (ls_trades s1)) as [t1|] eqn:Et; [|apply Hs1; assumption].
          assert (Htc : trade_complete s1 t1 = false).
          { unfold trade_complete. unfold tget' in Et. apply find_some in Et. destruct Et as [Et1 Et2]. rewrite (Hs1 t1 Et1 ltac:(lia)). reflexivity. }
          rewrite Htc in Hin. apply Hs1; assumption. }
        unfold trade_complete. rewrite H. reflexivity.
      * apply trade_exit_never_misses; assumption.
    + assert (Hint : In t (ls_trades s)).
      { destruct (trades_trade_set s tid st) as [H|H]; rewrite H in Hin.
        - eapply in_tupd_other; [exact Hin|reflexivity|exact E].
        - eapply in_tupd_other; [eapply in_tupd_other; [exact Hin|reflexivity|exact E]|reflexivity|exact E]. }
      specialize (Hncl t Hint). rewrite trade_complete_allc in *. rewrite orders_trade_set. exact Hncl.
  - intros o Hin. rewrite Hn1. rewrite orders_trade_set in Hin. apply Hfn. exact Hin.
  - intros t Hin. rewrite Hn2. assert (In (lt_id t) (map lt_id (ls_trades s))) by (rewrite <- Hids; apply in_map; exact Hin).
    apply in_map_iff in H. destruct H as [t0 [E H0]]. rewrite <- E. apply Hft. exact H0.
Qed.

Lemma INV_with_trade s n body : (forall x, INV x -> INV (body x)) -> INV s -> INV (with_trade s n body).
Proof.
  intros Hb Hs. unfold with_trade. destruct (oget n (ls_orders s)) as [o|]; [|exact Hs].
  apply INV_trade_set; [right; reflexivity|]. apply Hb. apply INV_trade_set; [left; reflexivity|exact Hs].
Qed.

Lemma INV_place_body n r x : INV x -> INV (place_body n r x).
Proof.
  intros H. destruct r as [os b m|b|b]; cbn [place_body]; cbv zeta.
  - destruct (os =? 1); [eapply INV_same_tc; [apply same_tc_setbet|exact H]|].
    destruct (os =? 2); apply INV_order_status; try discriminate; (eapply INV_same_tc; [apply same_tc_setbet|exact H]).
  - apply INV_order_status; [discriminate|]. eapply INV_same_tc; [apply same_tc_force_zero|]. eapply INV_same_tc; [apply same_tc_setbet|exact H].
  - eapply INV_same_tc; [apply same_tc_setbet|exact H].
Qed.
Lemma cancel_status_not_violation rem r : cancel_status rem r <> SViolation.
Proof. destruct r as [sc|[|]|]; cbn; try discriminate. destruct ((sc =? rem) || (rem =? 0)); discriminate. Qed.
Lemma INV_cancel_body n r x : INV x -> INV (cancel_body n r x).
Proof. intros H. unfold cancel_body. destruct (oget n (ls_orders x)); [apply INV_order_status; [apply cancel_status_not_violation|exact H]|exact H]. Qed.

(* appending an order that is not complete, with a fresh name, to whatever trade *)
Lemma INV_append s o : INV s -> lo_complete o = false -> lo_name o = ls_next_name s ->
  INV {| ls_orders := ls_orders s ++ [o]; ls_trades := ls_trades s; ls_ctx := ls_ctx s; ls_bet_lookup := ls_bet_lookup s ++ [(lo_bet o, lo_name o)];
         ls_tx := ls_tx s; ls_tx_failed := ls_tx_failed s; ls_next_name := ls_next_name s + 1; ls_next_trade := ls_next_trade s; ls_complete := ls_complete s |}.
Proof.
  intros (Hncl & Hut & Huo & Hfn & Hft) Hc Hname. split; [|split; [exact Hut|split; [|split]]]; cbn [ls_orders ls_trades ls_next_name ls_next_trade].
  - intros t Hin. specialize (Hncl t Hin). rewrite trade_complete_allc in *. cbn [ls_orders]. unfold allc in *. rewrite forallb_app. cbn [forallb]. rewrite Hc.
    apply andb_false_iff in Hncl. destruct Hncl as [Hncl|Hncl]; [rewrite Hncl; reflexivity|rewrite Hncl; rewrite andb_false_r; cbn; destruct (tstatus_eqb (lt_status t) TLive && negb (lt_pending_orders t)); reflexivity].
  - rewrite map_app. cbn [map]. apply NoDup_app_snoc; [exact Huo|]. intro Hin. apply in_map_iff in Hin. destruct Hin as [o0 [E H0]]. specialize (Hfn o0 H0). lia.
  - intros x Hx. apply in_app_or in Hx. destruct Hx as [Hx|[<-|[]]]; [specialize (Hfn x Hx); lia|lia].
  - exact Hft.
Qed.
Lemma INV_add_replacement s o0 bet price size : INV s -> INV (add_replacement s o0 bet price size).
Proof.
  intros H. unfold add_replacement. cbv zeta. apply INV_order_status; [discriminate|].
  match goal with |- INV {| ls_orders := _ ++ [?r]; ls_trades := _; ls_ctx := _; ls_bet_lookup := _; ls_tx := _; ls_tx_failed := _; ls_next_name := _; ls_next_trade := _; ls_complete := _ |} =>
    exact (INV_append s r H eq_refl eq_refl) end.
Qed.
Lemma INV_replace_body n o0 r x : INV x -> INV (replace_body n o0 r x).
Proof.
  intros H. destruct r as [c p]. cbn [replace_body]. cbv zeta.
  assert (H1 : INV (match c with CSuccess _ => order_status x n SExecComplete | CFailure _ => order_status x n SExecutable | CTimeout => order_status x n SExecutable end))
    by (destruct c; apply INV_order_status; try discriminate; exact H).
  destruct p as [[[bet price] size]|]; [|exact H1]. apply INV_add_replacement. exact H1.
Qed.
Lemma INV_fold {A} (f : lstate -> A -> lstate) l : (forall s x, INV s -> INV (f s x)) -> forall s, INV s -> INV (fold_left f l s).
Proof. intros Hf. induction l as [|x r IH]; intros s Hs; cbn [fold_left]; [exact Hs|]. apply IH. apply Hf. exact Hs. Qed.
Lemma INV_add_tx s a b : INV s -> INV (add_tx s a b). Proof. exact (fun H => H). Qed.

Lemma INV_row_status s n r : INV s -> INV (row_status s n r).
Proof.
  intros H. unfold row_status. destruct (oget n (ls_orders s)) as [o|]; [|exact H].
  destruct (lo_bet o); destruct (lo_status o); try exact H; destruct (rw_complete r); try exact H; apply INV_order_status; try discriminate; exact H.
Qed.
Lemma INV_apply_row s n r : INV s -> INV (apply_row s n r).
Proof.
  intros H. unfold apply_row. eapply INV_same_tc; [apply same_tc_leave_live|]. apply INV_row_status. eapply INV_same_tc; [apply same_tc_set_fields; reflexivity|exact H].
Qed.

(* a new incomplete order (fresh name) in trade tid, the trade record appended if it is new *)
Lemma INV_new_order s o tid newt cx bl nt :
  INV s -> lo_complete o = false -> lo_trade o = tid -> oget (lo_name o) (ls_orders s) = None -> lo_name o < ls_next_name s ->
  (match newt with Some t => lt_id t = tid /\ tget' tid (ls_trades s) = None | None => True end) -> tid < nt -> ls_next_trade s <= nt ->
  INV {| ls_orders := ls_orders s ++ [o]; ls_trades := ls_trades s ++ match newt with Some t => [t] | None => [] end; ls_ctx := cx; ls_bet_lookup := bl;
         ls_tx := ls_tx s; ls_tx_failed := ls_tx_failed s; ls_next_name := ls_next_name s; ls_next_trade := nt; ls_complete := ls_complete s |}.
Proof.
  intros (Hncl & Hut & Huo & Hfn & Hft) Hc Htr Hfresh Hlt Hnew Hnt1 Hnt2.
  split; [|split; [|split; [|split]]]; cbn [ls_orders ls_trades ls_next_name ls_next_trade].
  - intros t Hin. rewrite trade_complete_allc. cbn [ls_orders]. unfold allc. rewrite forallb_app. cbn [forallb]. rewrite Hc, Htr.
    destruct (Z.eq_dec (lt_id t) tid) as [E|E].
    + replace (tid =? lt_id t) with true by lia. cbn. rewrite !andb_false_r. reflexivity.
    + replace (tid =? lt_id t) with false by lia. cbn. rewrite andb_true_r.
      apply in_app_or in Hin. destruct Hin as [Hin|Hin]; [apply (Hncl t Hin)|]. destruct newt as [t0|]; [|destruct Hin]. destruct Hin as [<-|[]]. destruct Hnew as [Hid _]. congruence.
  - rewrite map_app. destruct newt as [t0|]; cbn [map]; [|rewrite app_nil_r; exact Hut]. destruct Hnew as [Hid Hnone]. apply NoDup_app_snoc; [exact Hut|].
    intro Hin. apply in_map_iff in Hin. destruct Hin as [x [E Hx]]. unfold tget' in Hnone. apply (find_none _ _ Hnone) in Hx. lia.
  - rewrite map_app. cbn [map]. apply NoDup_app_snoc; [exact Huo|]. intro Hin. apply in_map_iff in Hin. destruct Hin as [x [E Hx]].
    unfold oget in Hfresh. apply (find_none _ _ Hfresh) in Hx. lia.
  - intros x Hx. apply in_app_or in Hx. destruct Hx as [Hx|[<-|[]]]; [apply Hfn; exact Hx|exact Hlt].
  - intros t Hin. apply in_app_or in Hin. destruct Hin as [Hin|Hin]; [specialize (Hft t Hin); lia|]. destruct newt as [t0|]; [|destruct Hin]. destruct Hin as [<-|[]]. destruct Hnew as [Hid _]. lia.
Qed.

Lemma INV_req_place s n t st sl sz p a : INV s -> oget n (ls_orders s) = None -> n < ls_next_name s -> INV (req_place s n t st sl sz p a).
Proof.
  intros H Hf Hlt. unfold req_place. cbv zeta.
  set (o := {| lo_name := n; lo_trade := t; lo_strat := st; lo_sel := sl; lo_size := sz; lo_price := p; lo_status := SPending; lo_log := [SPending]; lo_complete := false;
               lo_bet := None; lo_async := a; lo_view := None; lo_place_resp := None; lo_in_live := true; lo_in_blotter := true; lo_newprice := None |}).
  destruct (tget' t (ls_trades s)) as [t0|] eqn:Et.
  - pose proof (INV_new_order s o t None (ctx_place t st sl (ls_ctx s)) (ls_bet_lookup s ++ [(None, n)]) (Z.max (ls_next_trade s) (t + 1)) H eq_refl eq_refl Hf Hlt I ltac:(lia) ltac:(lia)) as P.
    cbn [app] in P. rewrite app_nil_r in P. exact P.
  - exact (INV_new_order s o t (Some {| lt_id := t; lt_status := TLive; lt_log := []; lt_pending_orders := false; lt_strat := st; lt_sel := sl |})
             (ctx_place t st sl (ls_ctx s)) (ls_bet_lookup s ++ [(None, n)]) (Z.max (ls_next_trade s) (t + 1)) H eq_refl eq_refl Hf Hlt (conj eq_refl Et) ltac:(lia) ltac:(lia)).
Qed.

Lemma INV_process_row s x : INV s -> sr_name x < ls_next_name s -> INV (process_row s x).
Proof.
  intros H Hlt. unfold process_row. destruct (oget (sr_name x) (ls_orders s)) as [o|] eqn:E.
  - destruct (lo_bet o) as [b|]; [|apply INV_apply_row; exact H]. destruct (b =? rw_bet (sr_row x)); [apply INV_apply_row; exact H|].
    destruct (find _ _); [apply INV_apply_row; exact H|exact H].
  - destruct (sr_strategy x) as [st|]; [|exact H]. apply INV_apply_row. unfold adopt. cbv zeta.
    assert (Hnone : tget' (ls_next_trade s) (ls_trades s) = None).
    { destruct H as (_ & _ & _ & _ & Hft). unfold tget'. destruct (find (fun t => lt_id t =? ls_next_trade s) (ls_trades s)) as [t0|] eqn:Ef; [|reflexivity].
      apply find_some in Ef. destruct Ef as [Hin Heq]. specialize (Hft t0 Hin). lia. }
    exact (INV_new_order s {| lo_name := sr_name x; lo_trade := ls_next_trade s; lo_strat := st; lo_sel := sr_sel x; lo_size := sr_size x; lo_price := sr_price x;
                              lo_status := SPending; lo_log := [SPending]; lo_complete := false; lo_bet := Some (rw_bet (sr_row x)); lo_async := false; lo_view := None; lo_place_resp := None;
                              lo_in_live := true; lo_in_blotter := true; lo_newprice := None |} (ls_next_trade s)
             (Some {| lt_id := ls_next_trade s; lt_status := TLive; lt_log := []; lt_pending_orders := false; lt_strat := st; lt_sel := sr_sel x |})
             (ctx_place (ls_next_trade s) st (sr_sel x) (ls_ctx s)) (ls_bet_lookup s ++ [(Some (rw_bet (sr_row x)), sr_name x)]) (ls_next_trade s + 1)
             H eq_refl eq_refl E Hlt (conj eq_refl Hnone) ltac:(lia) ltac:(lia)).
Qed.
Lemma next_name_apply_row s n r : ls_next_name (apply_row s n r) = ls_next_name s.
Proof.
  pose proof (same_tc_leave_live (row_status (set_fields s n (fun o => set_view o r)) n r) n) as (_ & _ & H1 & _). unfold apply_row. rewrite H1.
  unfold row_status. destruct (oget n _) as [o|]; [|reflexivity].
  assert (Hos : forall y m st, ls_next_name (order_status y m st) = ls_next_name y).
  { intros y m st. unfold order_status. cbv zeta.
    repeat match goal with
           | |- context [match ?z with Some _ => _ | None => _ end] => destruct z
           | |- context [if ?c then _ else _] => destruct c
           end; unfold complete_trade; repeat match goal with |- context [match ?z with Some _ => _ | None => _ end] => destruct z end; reflexivity. }
  destruct (lo_bet o); destruct (lo_status o); try reflexivity; destruct (rw_complete r); try reflexivity; rewrite Hos; reflexivity.
Qed.
Lemma next_name_process_row s x : ls_next_name (process_row s x) = ls_next_name s.
Proof.
  unfold process_row. destruct (oget (sr_name x) (ls_orders s)) as [o|].
  - destruct (lo_bet o) as [b|]; [|apply next_name_apply_row]. destruct (b =? rw_bet (sr_row x)); [apply next_name_apply_row|]. destruct (find _ _); [apply next_name_apply_row|reflexivity].
  - destruct (sr_strategy x); [|reflexivity]. rewrite next_name_apply_row. reflexivity.
Qed.

Lemma INV_exec_place s names reports : INV s -> INV (exec_place s names reports).
Proof. intros H. unfold exec_place. cbv zeta. apply INV_add_tx. apply INV_fold; [|exact H]. intros s0 x H0. apply INV_with_trade; [intros y; apply INV_place_body|exact H0]. Qed.
Lemma INV_exec_update s names reports : INV s -> INV (exec_update s names reports).
Proof. intros H. unfold exec_update. cbv zeta. apply INV_add_tx. apply INV_fold; [|exact H]. intros s0 x H0. apply INV_with_trade; [intros y Hy; apply INV_order_status; [discriminate|exact Hy]|exact H0]. Qed.
Lemma INV_reset_orders s names c : INV s -> INV (reset_orders s names c).
Proof. intros H. unfold reset_orders. apply INV_fold; [|exact H]. intros s0 x H0. apply INV_with_trade; [intros y Hy; apply INV_order_status; [destruct c; discriminate|exact Hy]|exact H0]. Qed.
Lemma INV_exec_cancel s names reports : INV s -> INV (exec_cancel s names reports).
Proof.
  intros H. unfold exec_cancel. cbv zeta. apply INV_add_tx.
  apply INV_fold; [intros s0 x H0; apply INV_with_trade; [intros y Hy; apply INV_order_status; [discriminate|exact Hy]|exact H0]|].
  assert (G : forall l acc, INV (fst (fst acc)) -> INV (fst (fst (fold_left (cancel_step s (pkg_orders s names)) l acc)))).
  { induction l as [|x r IH]; intros acc Ha; cbn [fold_left]; [exact Ha|]. apply IH. destruct acc as [[s0 rest] nf]. unfold cancel_step. cbn [fst snd] in *.
    destruct (by_bet s (pkg_orders s names) (fst x)); [|exact Ha]. destruct (negb (existsb (Z.eqb z) rest)); [exact Ha|]. cbn [fst].
    apply INV_with_trade; [intros y; apply INV_cancel_body|exact Ha]. }
  apply G. exact H.
Qed.
Lemma INV_exec_replace s names reports : INV s -> INV (exec_replace s names reports).
Proof.
  intros H. unfold exec_replace. cbv zeta. apply INV_add_tx.
  assert (G : forall l acc, INV (fst acc) -> INV (fst (fold_left replace_step l acc))).
  { induction l as [|x r IH]; intros acc Ha; cbn [fold_left]; [exact Ha|]. apply IH. unfold replace_step.
    destruct (oget (fst x) (ls_orders (fst acc))); [|exact Ha]. cbn [fst]. apply INV_with_trade; [intros y; apply INV_replace_body|exact Ha]. }
  apply G. exact H.
Qed.
Lemma INV_req_other s n k p : INV s -> INV (req_other s n k p).
Proof.
  intros H. unfold req_other. destruct (oget n (ls_orders s)) as [o|]; [|exact H]. destruct (lo_bet o); [|exact H].
  destruct (status_eqb (lo_status o) SExecutable); [|exact H]. apply INV_order_status; [destruct (k =? 0); [discriminate|destruct (k =? 1); discriminate]|].
  destruct (k =? 2); [eapply INV_same_tc; [apply same_tc_set_fields; reflexivity|exact H]|exact H].
Qed.
Lemma INV_snapshot rows : forall s, INV s -> (forall x, In x rows -> sr_name x < ls_next_name s) -> INV (process_snapshot s rows).
Proof.
  unfold process_snapshot. induction rows as [|x r IH]; intros s H Hlt; cbn [fold_left]; [exact H|].
  apply IH; [apply INV_process_row; [exact H|apply Hlt; left; reflexivity]|].
  intros y Hy. rewrite next_name_process_row. apply Hlt. right. exact Hy.
Qed.
(* a placement refused by the strategy / a control: the order (VIOLATION, complete) is listed in trade.orders but is never in the blotter *)
Lemma INV_place_refused s n t st sl sz p : INV s -> oget n (ls_orders s) = None -> n < ls_next_name s -> INV (lstep s (LPlaceRefused n t st sl sz p)).
Proof.
  intros (Hncl & Hut & Huo & Hfn & Hft) Hf Hlt. cbn [lstep]. cbv zeta.
  split; [|split; [exact Hut|split; [|split]]]; cbn [ls_orders ls_trades ls_next_name ls_next_trade].
  - intros t0 Hin. specialize (Hncl t0 Hin). rewrite trade_complete_allc in *. cbn [ls_orders]. unfold allc in *. rewrite forallb_app. cbn [forallb lo_complete]. rewrite orb_true_r, andb_true_r. exact Hncl.
  - rewrite map_app. cbn [map lo_name]. apply NoDup_app_snoc; [exact Huo|]. intro Hin. apply in_map_iff in Hin. destruct Hin as [x [E Hx]].
    unfold oget in Hf. apply (find_none _ _ Hf) in Hx. lia.
  - intros x Hx. apply in_app_or in Hx. destruct Hx as [Hx|[<-|[]]]; [apply Hfn; exact Hx|exact Hlt].
  - intros t0 Hin. specialize (Hft t0 Hin). lia.
Qed.

(* well-formed event: new references are new (the harness / the exchange never re-uses a reference) *)
Definition wfe (s : lstate) (e : levent) : Prop :=
  match e with
  | LPlace n _ _ _ _ _ _ => oget n (ls_orders s) = None /\ n < ls_next_name s
  | LPlaceRefused n _ _ _ _ _ => oget n (ls_orders s) = None /\ n < ls_next_name s
  | LSnapshot rows => forall x, In x rows -> sr_name x < ls_next_name s
  | _ => True
  end.

Theorem lstep_INV s e : INV s -> wfe s e -> INV (lstep s e).
Proof.
  intros H Hw. destruct e; cbn [lstep]; cbn [wfe] in Hw.
  - destruct Hw. apply INV_req_place; assumption.
  - apply INV_req_other; exact H.
  - apply INV_exec_place; exact H.
  - apply INV_exec_cancel; exact H.
  - apply INV_exec_update; exact H.
  - apply INV_exec_replace; exact H.
  - apply INV_reset_orders; exact H.
  - exact H.
  - apply INV_snapshot; assumption.
  - exact H.
  - destruct Hw. apply (INV_place_refused s name tid strat sel size price); assumption.
  - exact H.
  - destruct H as (_ & _ & _ & _ & _). split; [intros t []|]. split; [constructor|]. split; [constructor|]. split; intros x [].
Qed.

(* histories in which every new reference is new *)
Fixpoint wf_history (s : lstate) (es : list levent) : Prop :=
  match es with [] => True | e :: r => wfe s e /\ wf_history (lstep s e) r end.
Theorem lrun_INV cs es : wf_history (lstate0 cs) es -> INV (lrun (lstate0 cs) es).
Proof.
  unfold lrun. assert (G : forall l s, INV s -> wf_history s l -> INV (fold_left lstep l s)).
  { induction l as [|e r IH]; intros s Hs Hw; cbn [fold_left]; [exact Hs|]. destruct Hw as [Hw1 Hw2]. apply IH; [apply lstep_INV; assumption|exact Hw2]. }
  apply G. split; [intros t []|]. split; [constructor|]. split; [constructor|]. split; intros x [].
Qed.
(* hence: at handler granularity, whenever every order of a trade that is Live and not flagged pending_orders is complete, the trade
   HAS been completed - the completion is never missed *)
Corollary live_trade_has_incomplete_order cs es t : wf_history (lstate0 cs) es -> let s := lrun (lstate0 cs) es in
  In t (ls_trades s) -> lt_status t = TLive -> lt_pending_orders t = false -> exists o, In o (ls_orders s) /\ lo_trade o = lt_id t /\ lo_complete o = false.
Proof.
  intros Hw s Hin Hst Hp. destruct (lrun_INV cs es Hw) as (Hncl & _). specialize (Hncl t Hin). fold s in Hncl.
  unfold trade_complete in Hncl. rewrite Hst, Hp in Hncl. cbn in Hncl.
  destruct (forallb (fun o => negb (lo_trade o =? lt_id t) || lo_complete o) (ls_orders s)) eqn:E; [discriminate|].
  assert (Hex : exists o, In o (ls_orders s) /\ (negb (lo_trade o =? lt_id t) || lo_complete o) = false).
  { clear -E. induction (ls_orders s) as [|o r IH]; [discriminate|]. cbn [forallb] in E. apply andb_false_iff in E. destruct E as [E|E]; [exists o; split; [left; reflexivity|exact E]|].
    destruct (IH E) as [x [Hx Ex]]. exists x. split; [right; exact Hx|exact Ex]. }
  destruct Hex as [o [Hin' Ho]]. apply orb_false_iff in Ho. destruct Ho as [Ho1 Ho2]. apply negb_false_iff in Ho1. exists o. repeat split; [exact Hin'|lia|exact Ho2].
Qed.

Lemma wfe_b_sound s e : wfe_b s e = true -> wfe s e.
Proof.
  destruct e; cbn [wfe_b wfe]; intros H; try exact I.
  - apply andb_true_iff in H. destruct H as [H1 H2]. destruct (oget name (ls_orders s)); [discriminate|]. split; [reflexivity|lia].
  - rewrite forallb_forall in H. intros x Hx. specialize (H x Hx). lia.
  - apply andb_true_iff in H. destruct H as [H1 H2]. destruct (oget name (ls_orders s)); [discriminate|]. split; [reflexivity|lia].
Qed.

(* ---------- C12 (4), replace packages after the repair of F-C12-1: an order of the package that had completed before the response is
   skipped - it stays as it is, and the reports go to the orders their instructions were built for ---------- *)
Lemma ostat_replace_body_other m o0 r x k : k <> m -> k <> ls_next_name x -> (forall st, ls_next_name (order_status x m st) = ls_next_name x) ->
  ostat (replace_body m o0 r x) k = ostat x k.
Proof.
  intros Hk Hn Hnn. destruct r as [c p]. cbn [replace_body]. cbv zeta.
  assert (E : (k =? m) = false) by lia.
  assert (H1 : ostat (match c with CSuccess _ => order_status x m SExecComplete | CFailure _ => order_status x m SExecutable | CTimeout => order_status x m SExecutable end) k = ostat x k)
    by (destruct c; rewrite ostat_order_status, E; reflexivity).
  destruct p as [[[bet price] size]|]; [|exact H1]. rewrite ostat_add_replacement.
  assert (Hnx : ls_next_name (match c with CSuccess _ => order_status x m SExecComplete | CFailure _ => order_status x m SExecutable | CTimeout => order_status x m SExecutable end) = ls_next_name x)
    by (destruct c; apply Hnn).
  rewrite Hnx. replace (k =? ls_next_name x) with false by lia. exact H1.
Qed.
Lemma next_name_order_status y m st : ls_next_name (order_status y m st) = ls_next_name y.
Proof.
  unfold order_status. cbv zeta.
  repeat match goal with
         | |- context [match ?z with Some _ => _ | None => _ end] => destruct z
         | |- context [if ?c then _ else _] => destruct c
         end; unfold complete_trade; repeat match goal with |- context [match ?z with Some _ => _ | None => _ end] => destruct z end; reflexivity.
Qed.

Theorem replace_skips_completed s names reports n : INV s -> ostat s n = Some SExecComplete -> ostat (exec_replace s names reports) n = Some SExecComplete.
Proof.
  intros Hinv Hn. unfold exec_replace. cbv zeta.
  assert (Ea : forall x a c, ostat (add_tx x a c) n = ostat x n) by reflexivity. rewrite Ea.
  assert (Hbound : forall x, INV x -> ostat x n <> None -> n < ls_next_name x).
  { intros x (_ & _ & _ & Hfn & _) Hx. unfold ostat in Hx. destruct (oget n (ls_orders x)) as [o|] eqn:E; [|cbn in Hx; congruence].
    destruct (oget_in _ _ _ E) as [Hin Hname]. specialize (Hfn o Hin). lia. }
  assert (G : forall l acc, INV (fst acc) -> ostat (fst acc) n = Some SExecComplete -> ~ In n (map fst l) -> ostat (fst (fold_left replace_step l acc)) n = Some SExecComplete).
  { induction l as [|x r IH]; intros acc Hi Ho Hnot; cbn [fold_left]; [exact Ho|]. cbn [map In] in Hnot.
    assert (Hstep : INV (fst (replace_step acc x)) /\ ostat (fst (replace_step acc x)) n = Some SExecComplete).
    { unfold replace_step. destruct (oget (fst x) (ls_orders (fst acc))) as [o0|] eqn:Eo; [|split; assumption]. cbn [fst]. split.
      - apply INV_with_trade; [intros y; apply INV_replace_body|exact Hi].
      - unfold with_trade. rewrite Eo. rewrite ostat_trade_set.
        set (y := trade_set (fst acc) (lo_trade o0) TPending).
        assert (Hy : ostat y n = ostat (fst acc) n) by apply ostat_trade_set.
        assert (Hny : ls_next_name y = ls_next_name (fst acc)) by (destruct (nn_trade_set (fst acc) (lo_trade o0) TPending) as [A _]; exact A).
        rewrite ostat_replace_body_other; [rewrite Hy; exact Ho|intro; apply Hnot; left; congruence| |intros; apply next_name_order_status].
        rewrite Hny. assert (n < ls_next_name (fst acc)) by (apply Hbound; [exact Hi|rewrite Ho; discriminate]). lia. }
    destruct Hstep as [H1 H2]. apply IH; [exact H1|exact H2|tauto]. }
  apply G; [exact Hinv|exact Hn|].
  intro Hin. apply zip_fst_incl in Hin. unfold pkg_sendable in Hin. apply filter_In in Hin. destruct Hin as [_ Hin].
  unfold ostat in Hn. destruct (oget n (ls_orders s)) as [o|]; [|discriminate]. cbn in Hn. inversion Hn as [E]. rewrite E in Hin. discriminate.
Qed.

(* ---------- C12 (3): failed cancel instructions are counted exactly when the exchange answers each instruction of the package at most once ---------- *)
Lemma by_bet_bet s pk b n : by_bet s pk b = Some n -> In n pk /\ exists o, oget n (ls_orders s) = Some o /\ lo_bet o = Some b.
Proof.
  unfold by_bet. intros H. apply find_some in H. destruct H as [Hin H]. split; [exact Hin|].
  destruct (oget n (ls_orders s)) as [o|]; [|discriminate]. exists o. split; [reflexivity|].
  destruct (lo_bet o) as [b'|]; cbn in H; [|discriminate]. f_equal. lia.
Qed.
Lemma by_bet_inj s pk b1 b2 n : by_bet s pk b1 = Some n -> by_bet s pk b2 = Some n -> b1 = b2.
Proof.
  intros H1 H2. destruct (by_bet_bet _ _ _ _ H1) as (_ & o1 & Ho1 & Hb1). destruct (by_bet_bet _ _ _ _ H2) as (_ & o2 & Ho2 & Hb2). congruence.
Qed.

Definition count_failures (reports : list (Z * cstat)) : Z := Z.of_nat (length (filter (fun br => match snd br with CFailure _ => true | _ => false end) reports)).

Theorem tx_exec_cancel_exact s names reports :
  NoDup (map fst reports) -> (forall br, In br reports -> by_bet s (pkg_orders s names) (fst br) <> None) ->
  ls_tx_failed (exec_cancel s names reports) = ls_tx_failed s + count_failures reports.
Proof.
  intros Hnd Hall. unfold exec_cancel. cbv zeta. set (pk := pkg_orders s names) in *.
  assert (G : forall l acc, NoDup (map fst l) -> (forall br, In br l -> exists n, by_bet s pk (fst br) = Some n /\ In n (snd (fst acc))) ->
            (forall br br', In br l -> In br' l -> by_bet s pk (fst br) = by_bet s pk (fst br') -> fst br = fst br') ->
            let acc' := fold_left (cancel_step s pk) l acc in
            txr (fst (fst acc)) (fst (fst acc')) /\ snd acc' = snd acc + count_failures l).
  { induction l as [|x r IH]; intros acc Hn Hin Hinj; cbn [fold_left]; cbv zeta; [split; [apply txr_refl|unfold count_failures; cbn; lia]|].
    cbn [map] in Hn. inversion Hn as [|? ? Hx Hr]; subst.
    destruct acc as [[s0 rest] nf]. cbn [fst snd] in *.
    destruct (Hin x (or_introl eq_refl)) as (n & Hb & Hrest).
    assert (Est : cancel_step s pk (s0, rest, nf) x = (with_trade s0 n (cancel_body n (snd x)), filter (fun y => negb (y =? n)) rest, nf + match snd x with CFailure _ => 1 | _ => 0 end)).
    { unfold cancel_step. rewrite Hb. destruct (negb (existsb (Z.eqb n) rest)) eqn:E; [|reflexivity].
      apply negb_true_iff in E. exfalso. assert (existsb (Z.eqb n) rest = true) by (apply existsb_exists; exists n; split; [exact Hrest|lia]). congruence. }
    rewrite Est.
    specialize (IH (with_trade s0 n (cancel_body n (snd x)), filter (fun y => negb (y =? n)) rest, nf + match snd x with CFailure _ => 1 | _ => 0 end) Hr).
    cbn [fst snd] in IH. cbv zeta in IH.
    destruct IH as [I1 I2].
    - intros br Hbr. destruct (Hin br (or_intror Hbr)) as (m & Hm & Hmr). exists m. split; [exact Hm|]. apply filter_In. split; [exact Hmr|]. apply negb_true_iff.
      destruct (Z.eq_dec m n) as [->|Hne]; [|lia]. exfalso. apply Hx. apply in_map_iff. exists br. split; [|exact Hbr].
      apply (Hinj br x (or_intror Hbr) (or_introl eq_refl)). congruence.
    - intros br br' H1 H2. apply Hinj; right; assumption.
    - split; [eapply txr_trans; [apply txr_with_trade; intros y; apply txr_cancel_body|exact I1]|].
      rewrite I2. unfold count_failures. cbn [filter]. destruct (snd x); cbn [length]; lia. }
  specialize (G reports (s, pk, 0) Hnd). cbv zeta in G. cbn [fst snd] in G.
  destruct G as [[G1 G2] G3].
  - intros br Hbr. specialize (Hall br Hbr). destruct (by_bet s pk (fst br)) as [n|] eqn:E; [|congruence]. exists n. split; [reflexivity|]. apply (by_bet_bet _ _ _ _ E).
  - intros br br' H1 H2 E. specialize (Hall br H1). destruct (by_bet s pk (fst br)) as [n|] eqn:E1; [|congruence]. symmetry in E. eapply by_bet_inj; eassumption.
  - set (acc := fold_left (cancel_step s pk) reports (s, pk, 0)) in *.
    match goal with |- context [fold_left ?f ?l (fst (fst acc))] => assert (Ht : txr (fst (fst acc)) (fold_left f l (fst (fst acc)))) by (apply txr_fold; intros s0 x; apply txr_with_trade; intros y; apply txr_order_status) end.
    destruct Ht as [T1 T2]. cbn [add_tx ls_tx ls_tx_failed]. rewrite T2, G2, G3. lia.
Qed.

(* ---------- C12 (4): attribution for the position-matched handlers (place, update): the i-th report decides the i-th order, and only it ---------- *)
Lemma fold_attribution {A} (f : lstate -> A -> lstate) (key : A -> Z) (g : A -> option status -> option status) :
  (forall s x k, k <> key x -> ostat (f s x) k = ostat s k) ->
  (forall s x, ostat (f s x) (key x) = g x (ostat s (key x))) ->
  forall l x0 s, NoDup (map key l) -> In x0 l -> ostat (fold_left f l s) (key x0) = g x0 (ostat s (key x0)).
Proof.
  intros Hother Hself. induction l as [|x r IH]; intros x0 s Hnd Hin; [destruct Hin|]. cbn [fold_left]. cbn [map] in Hnd. inversion Hnd as [|? ? Hx Hr]; subst.
  destruct Hin as [->|Hin].
  - rewrite (fold_untouched f key r (key x0)); [apply Hself| |exact Hx]. intros s0 y Hne. apply Hother. exact Hne.
  - rewrite IH by assumption. f_equal. apply Hother. intro E. apply Hx. rewrite <- E. apply in_map. exact Hin.
Qed.

Definition place_status (r : pstat) : status :=
  match r with PSuccess os _ _ => if os =? 2 then SExecComplete else SExecutable | PFailure _ => SExecComplete | PTimeout _ => SExecutable end.
Definition place_outcome (r : pstat) (before : option status) : option status :=
  match before with None => None | Some st => Some (match r with PSuccess os _ _ => if os =? 1 then st else place_status r | PFailure _ => SExecComplete | PTimeout _ => st end) end.

Lemma ostat_place_body_self n r x : ostat (place_body n r x) n = place_outcome r (ostat x n).
Proof.
  destruct r as [os b m|b|b]; cbn [place_body]; cbv zeta.
  - destruct (os =? 1) eqn:E1.
    + rewrite ostat_setbet. destruct (ostat x n); cbn [place_outcome]; rewrite ?E1; reflexivity.
    + destruct (os =? 2) eqn:E2; rewrite ostat_order_status, Z.eqb_refl, ostat_setbet; destruct (ostat x n); cbn [place_outcome place_status option_map]; rewrite ?E1, ?E2; reflexivity.
  - rewrite ostat_order_status, Z.eqb_refl, ostat_force_zero, ostat_setbet. destruct (ostat x n); reflexivity.
  - rewrite ostat_setbet. destruct (ostat x n); reflexivity.
Qed.
Lemma ostat_with_trade_self s n body g : (forall x, ostat (body x) n = g (ostat x n)) -> g None = None -> ostat (with_trade s n body) n = g (ostat s n).
Proof.
  intros Hb Hg. unfold with_trade. destruct (oget n (ls_orders s)) eqn:E.
  - rewrite ostat_trade_set, Hb, ostat_trade_set. reflexivity.
  - unfold ostat. rewrite E. cbn. symmetry. exact Hg.
Qed.

Theorem place_attribution s names reports n r : NoDup (pkg_orders s names) -> In (n, r) (zip (pkg_orders s names) reports) ->
  ostat (exec_place s names reports) n = place_outcome r (ostat s n).
Proof.
  intros Hnd Hin. unfold exec_place. cbv zeta.
  assert (Ea : forall x a c, ostat (add_tx x a c) n = ostat x n) by reflexivity. rewrite Ea.
  apply (fold_attribution (fun s (nr : Z * pstat) => with_trade s (fst nr) (place_body (fst nr) (snd nr))) fst (fun nr => place_outcome (snd nr))) with (x0 := (n, r)); [| | |exact Hin].
  - intros s0 x k Hk. apply ostat_with_trade_other. intros y. apply ostat_place_body_other. exact Hk.
  - intros s0 x. apply ostat_with_trade_self; [intros y; apply ostat_place_body_self|destruct (snd x); reflexivity].
  - clear - Hnd. revert reports. induction (pkg_orders s names) as [|h t IH]; intros [|y b]; cbn [zip map]; try constructor.
    + intro Hin. inversion Hnd; subst. apply zip_fst_incl in Hin. tauto.
    + apply IH. inversion Hnd; assumption.
Qed.

(* ---------- C11: an adopted order is charged to the runner context of its strategy and selection ---------- *)
Theorem adoption_charges_context s x st :
  exists c, In c (ls_ctx (adopt s x st)) /\ rc_strat c = st /\ rc_sel c = sr_sel x /\ In (ls_next_trade s) (rc_trades c) /\ In (ls_next_trade s) (rc_live c).
Proof. unfold adopt. cbv zeta. cbn [ls_ctx]. apply ctx_place_charges. Qed.

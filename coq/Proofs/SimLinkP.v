(* SimLinkP.v — the side conditions of the whole-run theorems (a placement package finds the order it was created with, untouched) derived
   from static facts: the script uses every (market, name) once (keys_ok_b), books are in the domain, sizes / bet delays are not negative.
   Method: every operation of the loop transforms the order list of a market POSITIONALLY (Forall2) by a relation that keeps names and
   stamps and keeps an unplaced order exactly as it was created; only the execution of a placement package changes its own target. *)
From Coq Require Import ZArith List Bool Lia ZifyBool.
From V Require Import Model.Num Model.Status Model.Sim Model.SimLoop Model.SimGuard Proofs.NumP Proofs.SimPlaceP Proofs.SimPlaceP2
     Proofs.SimIsolationP Proofs.SimRemovalsP Proofs.SimRunP Proofs.SimAckRunP Proofs.SimNamesP.
Open Scope Z_scope.

(* an order that has been requested but not yet placed *)
Definition unpl (cf : config) (o : sorder) : Prop :=
  untouched o /\ so_bet o = None /\ so_repl o = false /\ 0 <= so_size o /\ status_in (so_status o) (cf_mw_live cf) = false.

(* what every operation (other than the execution of the order's own placement package) does to an order *)
Definition keeps (cf : config) (o o' : sorder) : Prop :=
  so_name o' = so_name o /\ stamp o' = stamp o /\ (so_placed o = None -> unpl cf o -> unpl cf o').

Lemma keeps_refl cf o : keeps cf o o.
Proof. split; [reflexivity|split; [reflexivity|auto]]. Qed.
Lemma keeps_trans cf a b c : keeps cf a b -> keeps cf b c -> keeps cf a c.
Proof.
  intros (N1 & S1 & U1) (N2 & S2 & U2). split; [congruence|]. split; [congruence|]. intros Hp Hu. apply U2; [|apply U1; assumption].
  unfold stamp in S1. inversion S1. congruence.
Qed.
(* an order that is placed is kept by anything that keeps name and stamp *)
Lemma keeps_placed cf o o' : so_name o' = so_name o -> stamp o' = stamp o -> so_placed o <> None -> keeps cf o o'.
Proof. intros N S P. split; [exact N|split; [exact S|intros Hp; contradiction]]. Qed.

(* ---------- positional evolution of an order list ---------- *)
Lemma Forall2_refl_keeps cf os : Forall2 (keeps cf) os os.
Proof. induction os; constructor; [apply keeps_refl|assumption]. Qed.
Lemma Forall2_trans_keeps cf a b c : Forall2 (keeps cf) a b -> Forall2 (keeps cf) b c -> Forall2 (keeps cf) a c.
Proof.
  intros H. revert c. induction H as [|x y l l' Hxy Hl IH]; intros c Hc; inversion Hc; subst; constructor; [eapply keeps_trans; eassumption|apply IH; assumption].
Qed.
Lemma Forall2_names cf a b : Forall2 (keeps cf) a b -> names b = names a.
Proof. induction 1 as [|x y l l' Hxy Hl IH]; [reflexivity|]. cbn [names map]. destruct Hxy as (N & _). rewrite N. f_equal. exact IH. Qed.

Lemma upd_order_keeps cf n f : forall os, (forall o, In o os -> so_name o = n -> keeps cf o (f o)) -> Forall2 (keeps cf) os (upd_order n f os).
Proof.
  induction os as [|x r IH]; intros H; cbn [upd_order]; [constructor|]. destruct (so_name x =? n) eqn:E.
  - constructor; [apply H; [left; reflexivity|lia]|apply Forall2_refl_keeps].
  - constructor; [apply keeps_refl|]. apply IH. intros o Ho. apply H. right. exact Ho.
Qed.

(* the element related to a given one *)
Lemma Forall2_in_l {A B} (R : A -> B -> Prop) l l' x : Forall2 R l l' -> In x l -> exists y, In y l' /\ R x y.
Proof. induction 1 as [|a b l l' Hab Hl IH]; intros Hin; [destruct Hin|]. destruct Hin as [<-|Hin]; [exists b; split; [left; reflexivity|exact Hab]|]. destruct (IH Hin) as [y [Hy Hr]]. exists y. split; [right; exact Hy|exact Hr]. Qed.
Lemma Forall2_in_r {A B} (R : A -> B -> Prop) l l' y : Forall2 R l l' -> In y l' -> exists x, In x l /\ R x y.
Proof. induction 1 as [|a b l l' Hab Hl IH]; intros Hin; [destruct Hin|]. destruct Hin as [<-|Hin]; [exists a; split; [left; reflexivity|exact Hab]|]. destruct (IH Hin) as [x [Hx Hr]]. exists x. split; [right; exact Hx|exact Hr]. Qed.

(* in a list with unique names the element of a given name is unique *)
Lemma unique_by_name os a b : NoDup (names os) -> In a os -> In b os -> so_name a = so_name b -> a = b.
Proof.
  induction os as [|x r IH]; intros Hn Ha Hb He; [destruct Ha|]. cbn [names map] in Hn. inversion Hn; subst.
  destruct Ha as [->|Ha], Hb as [->|Hb]; try reflexivity.
  - exfalso. apply H1. rewrite He. apply in_map. exact Hb.
  - exfalso. apply H1. rewrite <- He. apply in_map. exact Ha.
  - apply IH; assumption.
Qed.

Lemma get_order_Forall2 cf n : forall a b, Forall2 (keeps cf) a b -> forall o', get_order n b = Some o' -> exists o, get_order n a = Some o /\ keeps cf o o'.
Proof.
  induction 1 as [|x y l l' Hxy Hl IH]; intros o' H; [discriminate|]. unfold get_order in *. cbn [find] in *.
  destruct Hxy as (N & S & U). rewrite N in H. destruct (so_name x =? n).
  - inversion H; subst. exists x. split; [reflexivity|split; [exact N|split; assumption]].
  - apply IH. exact H.
Qed.
Lemma upd_order_first_keeps cf n o2 : forall os o, get_order n os = Some o -> keeps cf o o2 -> Forall2 (keeps cf) os (upd_order n (fun _ => o2) os).
Proof.
  induction os as [|x r IH]; intros o Hg Hk; [discriminate|]. unfold get_order in Hg. cbn [find] in Hg. cbn [upd_order].
  destruct (so_name x =? n).
  - inversion Hg; subst. constructor; [exact Hk|apply Forall2_refl_keeps].
  - constructor; [apply keeps_refl|]. eapply IH; [exact Hg|exact Hk].
Qed.

(* the invariant on one market's orders that the matcher needs *)
Definition unplI (cf : config) (os : list sorder) : Prop := forall o, In o os -> so_placed o = None -> unpl cf o.
Lemma unplI_keeps cf a b : Forall2 (keeps cf) a b -> unplI cf a -> unplI cf b.
Proof.
  intros H HA o' Hin Hp. destruct (Forall2_in_r _ _ _ _ H Hin) as [o [Ho (N & S & U)]].
  assert (Hp0 : so_placed o = None) by (unfold stamp in S; inversion S; congruence). apply U; [exact Hp0|apply HA; assumption].
Qed.

Section MatchKeeps.
  Variables (cfi : config) (tb : tiebreak) (cf : config) (b : book).
  Hypothesis Hlive : cf_mw_live cfi = cf_mw_live cf.

  Lemma mstep_keeps os lk o0 : (forall o, get_order (so_name o0) os = Some o -> so_placed o <> None) ->
    Forall2 (keeps cfi) os (fst (mstep tb cf b (os, lk) o0)).
  Proof.
    intros Hpl. unfold mstep. destruct (get_order (so_name o0) os) as [o|] eqn:Eg; [|apply Forall2_refl_keeps].
    cbv zeta. destruct (find_runner b (so_sel o)) as [r|]; [|apply Forall2_refl_keeps].
    set (tr := match find (fun e => fst e =? so_sel o) lk with Some e => snd e | None => [] end).
    pose proof (stamp_on_book tb (client_of cf (so_strat o)) b r tr o) as HS.
    pose proof (ns_on_book tb (client_of cf (so_strat o)) b r tr o) as HN. apply (f_equal fst) in HN. cbn [ns fst] in HN.
    destruct (on_book tb (client_of cf (so_strat o)) b r tr o) as [[o1 tr'] done]. cbn [fst snd] in *.
    destruct (get_order_in _ _ _ Eg) as [_ Hn]. rewrite Hn.
    eapply upd_order_first_keeps; [exact Eg|]. apply keeps_placed; [destruct done; cbn; exact HN|destruct done; cbn; exact HS|apply Hpl; reflexivity].
  Qed.

  (* the orders in [live] are placed, so is whatever carries their name later in the fold *)
  Lemma fold_mstep_keeps : forall l os lk, (forall o0, In o0 l -> forall o, get_order (so_name o0) os = Some o -> so_placed o <> None) ->
    Forall2 (keeps cfi) os (fst (fold_left (mstep tb cf b) l (os, lk))).
  Proof.
    induction l as [|x l IH]; intros os lk H; cbn [fold_left]; [apply Forall2_refl_keeps|].
    pose proof (mstep_keeps os lk x (H x (or_introl eq_refl))) as H1.
    destruct (mstep tb cf b (os, lk) x) as [os1 lk1] eqn:E. cbn [fst] in H1.
    eapply Forall2_trans_keeps; [exact H1|]. apply IH. intros o0 Ho0 o' Hg.
    destruct (get_order_Forall2 cfi (so_name o0) os os1 H1 o' Hg) as [o [Hg0 (_ & S & _)]].
    pose proof (H o0 (or_intror Ho0) o Hg0) as Hp. unfold stamp in S. inversion S. congruence.
  Qed.

  Lemma live_is_placed os (f : sorder -> bool) : NoDup (names os) -> unplI cfi os -> (forall o, f o = true -> status_in (so_status o) (cf_mw_live cf) = true) ->
    forall o0, In o0 (sort_orders (filter f os)) -> forall o, get_order (so_name o0) os = Some o -> so_placed o <> None.
  Proof.
    intros Hn HA Hf o0 Hin o Hg. apply sort_orders_in in Hin. apply filter_In in Hin as [Hin0 Hf0].
    destruct (get_order_in _ _ _ Hg) as [Hino Hname]. assert (o = o0) by (apply (unique_by_name os); [exact Hn|exact Hino|exact Hin0|exact Hname]). subst o.
    intro Hp. destruct (HA o0 Hin0 Hp) as (_ & _ & _ & _ & Hst). rewrite Hlive in Hst. rewrite (Hf o0 Hf0) in Hst. discriminate.
  Qed.

  Lemma match_orders_keeps ans os (f : sorder -> bool) : NoDup (names os) -> unplI cfi os -> (forall o, f o = true -> status_in (so_status o) (cf_mw_live cf) = true) ->
    Forall2 (keeps cfi) os (match_orders tb cf b ans (filter f os) os).
  Proof. intros Hn HA Hf. rewrite match_orders_fold. apply fold_mstep_keeps. apply live_is_placed; assumption. Qed.
End MatchKeeps.

Lemma nodup_names_keeps cf a b : Forall2 (keeps cf) a b -> NoDup (names a) -> NoDup (names b).
Proof. intros H Hn. rewrite (Forall2_names cf a b H). exact Hn. Qed.

Theorem process_sim_orders_keeps tb cf b ans os : NoDup (names os) -> unplI cf os -> Forall2 (keeps cf) os (process_sim_orders tb cf b ans os).
Proof.
  intros Hn HA. unfold process_sim_orders. destruct (cf_isolation cf).
  - assert (G : forall sts os0, NoDup (names os0) -> unplI cf os0 ->
              Forall2 (keeps cf) os0 (fold_left (fun os1 st => let live := filter (fun o => (so_strat o =? st) && status_in (so_status o) (cf_mw_live cf)) os1 in
                                                    match live with [] => os1 | _ :: _ => match_orders tb cf b ans live os1 end) sts os0)).
    { induction sts as [|s r IH]; intros os0 Hn0 HA0; cbn [fold_left]; [apply Forall2_refl_keeps|]. cbv zeta.
      set (fl := fun o => (so_strat o =? s) && status_in (so_status o) (cf_mw_live cf)).
      assert (H1 : Forall2 (keeps cf) os0 (match filter fl os0 with [] => os0 | _ :: _ => match_orders tb cf b ans (filter fl os0) os0 end)).
      { destruct (filter fl os0) eqn:Ef; [apply Forall2_refl_keeps|]. rewrite <- Ef.
        apply (match_orders_keeps cf tb cf b eq_refl ans os0 fl Hn0 HA0). intros o Ho. unfold fl in Ho. apply andb_true_iff in Ho. apply Ho. }
      eapply Forall2_trans_keeps; [exact H1|]. apply IH; [eapply nodup_names_keeps; eassumption|eapply unplI_keeps; eassumption]. }
    apply G; assumption.
  - cbv zeta. destruct (filter (fun o => so_in_live o) os) as [|l0 ls]; [apply Forall2_refl_keeps|].
    match goal with |- Forall2 _ _ (fst (fold_left ?F ?l _)) => set (F0 := F); generalize l end. intros l.
    assert (G : forall lx st, unplI cf (fst st) -> Forall2 (keeps cf) (fst st) (fst (fold_left F0 lx st))).
    { induction lx as [|x r IH]; intros st HA0; cbn [fold_left]; [apply Forall2_refl_keeps|].
      assert (H1 : Forall2 (keeps cf) (fst st) (fst (F0 st x))).
      { destruct st as [os1 lk]. unfold F0. cbn [fst]. destruct (get_order (so_name x) os1) as [o|] eqn:Eg; [|apply Forall2_refl_keeps].
        destruct (negb (status_in (so_status o) (cf_mw_live cf))) eqn:Est; [apply Forall2_refl_keeps|].
        pose proof (mstep_keeps cf tb cf b os1 lk x) as Hm. unfold mstep in Hm. rewrite Eg in Hm. apply Hm.
        intros o' Ho'. inversion Ho'; subst o'. intro Hp. destruct (get_order_in _ _ _ Eg) as [Hino _].
        destruct (HA0 o Hino Hp) as (_ & _ & _ & _ & Hst). apply negb_false_iff in Est. congruence. }
      eapply Forall2_trans_keeps; [exact H1|]. apply IH. eapply unplI_keeps; eassumption. }
    apply (G l (os, map (fun a => (an_sel a, an_traded a)) ans)). exact HA.
Qed.

Lemma completion_sweep_keeps cf now os : status_in SExecComplete (cf_mw_live cf) = false -> Forall2 (keeps cf) os (completion_sweep cf now os).
Proof.
  intros Hc. unfold completion_sweep. induction os as [|o r IH]; cbn [map]; constructor; [|exact IH].
  assert (K : forall st cl, status_in st (cf_mw_live cf) = false \/ st = so_status o -> keeps cf o (set_live (set_status (cf_complete cf) now o st cl) false)).
  { intros st cl Hst. split; [reflexivity|split; [reflexivity|]]. intros _ (U & B & R & S & St). split; [exact U|split; [exact B|split; [exact R|split; [exact S|]]]].
    cbn. destruct Hst as [Hst| ->]; assumption. }
  assert (K2 : keeps cf o (set_live o false)).
  { split; [reflexivity|split; [reflexivity|]]. intros _ H. exact H. }
  destruct (negb (so_in_live o)); [apply keeps_refl|]. destruct (so_complete o); [exact K2|].
  destruct (so_type o); [destruct (remaining o =? 0)|destruct (so_bsp o)|destruct (so_bsp o)]; try apply keeps_refl; apply K; left; exact Hc.
Qed.

(* the middleware on a book of the domain (no removed runner): positional evolution of the market's orders *)
Theorem middleware_keeps tb cf s m b : wf_book b -> NoDup (names (mk_orders m)) -> unplI cf (mk_orders m) ->
  Forall2 (keeps cf) (mk_orders m) (mk_orders (snd (middleware tb cf s m b))).
Proof.
  intros (Hb & Hl & Hr) Hn HA. rewrite middleware_unfold.
  assert (NR : forall r, In r (b_runners b) -> r_status r = RRemoved -> recorded (mk_id m) (r_sel r, r_adj r) (s_removals s) = true).
  { intros r Hin Hst. rewrite Forall_forall in Hr. destruct (Hr r Hin) as [_ Hne]. congruence. }
  destruct (collect_nothing_new (mk_id m) (b_runners b) (mk_analytics m) (s_removals s) NR) as [ans E]. rewrite E.
  unfold apply_new. cbn [fold_left fst snd mk_orders].
  destruct (mk_active m); [apply process_sim_orders_keeps; assumption|apply Forall2_refl_keeps].
Qed.

(* ====================== packages and the orders they name ====================== *)
Definition is_place (p : pkg) : bool := match pk_kind p with KPlace => true | _ => false end.
Definition pkey (p : pkg) : Z * Z := (pk_market p, pk_order p).
Definition at_key (ms : list market) (k : Z * Z) (o : sorder) : Prop :=
  exists m, In m ms /\ mk_id m = fst k /\ In o (mk_orders m) /\ so_name o = snd k.

Record linkI (cf : config) (Q : list pkg) (ms : list market) : Prop := {
  l_A : forall m, In m ms -> unplI cf (mk_orders m);
  l_B : forall p, In p Q -> is_place p = false -> forall o, at_key ms (pkey p) o -> so_placed o <> None;
  l_C : forall p, In p Q -> is_place p = true ->
        0 <= pk_bet_delay p /\ forall o, at_key ms (pkey p) o -> so_placed o = None /\ so_created o = pk_created p;
  l_D1 : NoDup (map pkey (filter is_place Q));
  l_D2 : forall p, In p Q -> exists o, at_key ms (pkey p) o;
  l_E : forall m, In m ms -> match mk_book m with Some b => 0 <= b_delay b | None => True end }.

Lemma in_upd_market_const mid m' : forall ms x, In x (upd_market mid (fun _ => m') ms) -> x = m' \/ (In x ms /\ True).
Proof.
  induction ms as [|y r IH]; intros x H; cbn [upd_market] in H; [destruct H|]. destruct (mk_id y =? mid).
  - destruct H as [<-|H]; [left; reflexivity|right; split; [right; exact H|exact I]].
  - destruct H as [<-|H]; [right; split; [left; reflexivity|exact I]|]. destruct (IH x H) as [->|[Hin _]]; [left; reflexivity|right; split; [right; exact Hin|exact I]].
Qed.

Lemma upd_const_in mid m' m : forall l x, NoDup (map mk_id l) -> In m l -> mk_id m = mid ->
  In x (upd_market mid (fun _ => m') l) -> x = m' \/ (In x l /\ mk_id x <> mid).
Proof.
  induction l as [|y r IH]; intros x Hn Hin Hmid H; cbn [upd_market] in H; [destruct H|]. cbn [map] in Hn.
  apply NoDup_cons_iff in Hn as [Hn1 Hn2].
  destruct (mk_id y =? mid) eqn:E.
  - destruct H as [<-|H]; [left; reflexivity|]. right. split; [right; exact H|]. intro Hc. apply Hn1. replace (mk_id y) with (mk_id x) by lia. apply in_map. exact H.
  - destruct H as [<-|H]; [right; split; [left; reflexivity|lia]|].
    destruct Hin as [Hy|Hin]; [rewrite Hy in E; lia|]. destruct (IH x Hn2 Hin Hmid H) as [->|[A B]]; [left; reflexivity|right; split; [right; exact A|exact B]].
Qed.
Lemma upd_const_keep mid m' : forall l x, In x l -> mk_id x <> mid -> In x (upd_market mid (fun _ => m') l).
Proof.
  induction l as [|y r IH]; intros x H Hne; [destruct H|]. cbn [upd_market]. destruct (mk_id y =? mid) eqn:E.
  - destruct H as [Hy|H]; [rewrite Hy in E; lia|right; exact H].
  - destruct H as [Hy|H]; [left; exact Hy|right; apply IH; assumption].
Qed.
Lemma upd_const_new mid m' m : forall l, In m l -> mk_id m = mid -> In m' (upd_market mid (fun _ => m') l).
Proof.
  induction l as [|y r IH]; intros Hin Hmid; [destruct Hin|]. cbn [upd_market].
  destruct (mk_id y =? mid) eqn:E; [left; reflexivity|]. destruct Hin as [Hy|Hin]; [rewrite Hy in E; lia|right; apply IH; assumption].
Qed.

Section MarketStep.
  Variables (cf : config) (Q : list pkg) (ms : list market) (mid : Z) (m m' : market) (os1 ex : list sorder).
  Hypothesis Hids : NoDup (map mk_id ms).
  Hypothesis Hget : get_market mid ms = Some m.
  Hypothesis Hid' : mk_id m' = mid.
  Hypothesis Hnames : NoDup (names (mk_orders m)).
  Hypothesis Horders : mk_orders m' = os1 ++ ex.
  (* positional evolution; an order may be changed otherwise only if it becomes placed and no package of Q names it *)
  Hypothesis Hevo : Forall2 (fun o o' => keeps cf o o' \/ (so_name o' = so_name o /\ so_placed o' <> None /\ forall p, In p Q -> pkey p <> (mid, so_name o))) (mk_orders m) os1.
  Hypothesis Hex : forall x, In x ex -> ~ In (so_name x) (names (mk_orders m)) /\ (so_placed x <> None \/ unpl cf x).
  Hypothesis Hbook : match mk_book m' with Some b => 0 <= b_delay b | None => True end.
  Hypothesis HL : linkI cf Q ms.

  Let ms' := upd_market mid (fun _ => m') ms.

  Lemma ms'_in x : In x ms' -> x = m' \/ (In x ms /\ mk_id x <> mid).
  Proof. destruct (get_market_id _ _ _ Hget) as [Hin Hmid]. apply (upd_const_in mid m' m ms x Hids Hin Hmid). Qed.
  Lemma ms'_keep x : In x ms -> mk_id x <> mid -> In x ms'.
  Proof. apply upd_const_keep. Qed.
  Lemma ms'_new : In m' ms'.
  Proof. destruct (get_market_id _ _ _ Hget) as [Hin Hmid]. apply (upd_const_new mid m' m ms Hin Hmid). Qed.
  Lemma m_unique x : In x ms -> mk_id x = mid -> x = m.
  Proof. intros Hx Hi. destruct (get_market_id _ _ _ Hget) as [Hin Hmid]. apply (nodup_ids_unique ms); [exact Hids|exact Hx|exact Hin|lia]. Qed.

  (* an order of the new market comes from one of the old market at the same name, or is an extra *)
  Lemma new_order_cases o' : In o' (mk_orders m') ->
    (exists o, In o (mk_orders m) /\ so_name o' = so_name o /\
               (keeps cf o o' \/ (so_placed o' <> None /\ forall p, In p Q -> pkey p <> (mid, so_name o)))) \/ In o' ex.
  Proof.
    rewrite Horders. intros H. apply in_app_or in H as [H|H]; [left|right; exact H].
    destruct (Forall2_in_r _ _ _ _ Hevo H) as [o [Ho [K|(N & P & F)]]]; exists o; (split; [exact Ho|]).
    - split; [apply K|left; exact K].
    - split; [exact N|right; split; assumption].
  Qed.
  Lemma old_order_persists o : In o (mk_orders m) -> exists o', In o' (mk_orders m') /\ so_name o' = so_name o.
  Proof.
    intros H. destruct (Forall2_in_l _ _ _ _ Hevo H) as [o' [Ho' R]]. exists o'. rewrite Horders. split; [apply in_or_app; left; exact Ho'|].
    destruct R as [K|(N & _)]; [apply K|exact N].
  Qed.

  Lemma at_key_old k o : at_key ms k o -> fst k <> mid -> at_key ms' k o.
  Proof. intros (m0 & A & B & C & D) Hne. exists m0. split; [apply ms'_keep; [exact A|lia]|]. split; [exact B|split; assumption]. Qed.

  Theorem market_step_link : linkI cf Q ms'.
  Proof.
    destruct HL as [LA LB LC LD1 LD2 LE]. destruct (get_market_id _ _ _ Hget) as [Hin Hmid].
    (* what an order found at a key of the new state is *)
    assert (CASES : forall k o', at_key ms' k o' ->
              (fst k <> mid /\ at_key ms k o') \/
              (fst k = mid /\ ((exists o, at_key ms k o /\ (keeps cf o o' \/ (so_placed o' <> None /\ forall p, In p Q -> pkey p <> k))) \/
                               (In o' ex)))).
    { intros k o' (m0 & A & B & C & D). destruct (ms'_in m0 A) as [->|[A' Hne]].
      - right. split; [lia|]. destruct (new_order_cases o' C) as [(o & Ho & N & R)|Hx]; [left|right; exact Hx].
        exists o. split; [exists m; split; [exact Hin|split; [lia|split; [exact Ho|lia]]]|].
        destruct R as [K|(P & F)]; [left; exact K|right; split; [exact P|]]. intros p Hp. replace k with (mid, so_name o); [apply F; exact Hp|]. destruct k; cbn in *; f_equal; lia.
      - left. split; [lia|]. exists m0. split; [exact A'|split; [exact B|split; assumption]]. }
    (* an extra order is not at the key of any package of Q *)
    assert (EXTRA : forall p o', In p Q -> at_key ms' (pkey p) o' -> fst (pkey p) = mid -> In o' ex -> False).
    { intros p o' Hp (m0 & A & B & C & D) Hk Hx. destruct (LD2 p Hp) as [o (m1 & A1 & B1 & C1 & D1)].
      assert (m1 = m) by (apply m_unique; [exact A1|lia]). subst m1. destruct (Hex o' Hx) as [Hfresh _]. apply Hfresh.
      unfold names. apply in_map_iff. exists o. split; [lia|exact C1]. }
    constructor.
    - intros m0 Hm0 o' Ho' Hp. destruct (ms'_in m0 Hm0) as [->|[A Hne]]; [|apply (LA m0 A o' Ho' Hp)].
      destruct (new_order_cases o' Ho') as [(o & Ho & N & [K|(P & _)])|Hx].
      + destruct K as (_ & S & U). assert (Hp0 : so_placed o = None) by (unfold stamp in S; inversion S; congruence). apply U; [exact Hp0|apply (LA m Hin o Ho Hp0)].
      + contradiction.
      + destruct (Hex o' Hx) as [_ [P|U]]; [contradiction|exact U].
    - intros p Hp Hk o' Hat. destruct (CASES _ _ Hat) as [[Hne Hold]|[He [(o & Ho & [K|(P & _)])|Hx]]].
      + apply (LB p Hp Hk o' Hold).
      + pose proof (LB p Hp Hk o Ho) as P. destruct K as (_ & S & _). unfold stamp in S. inversion S. congruence.
      + exact P.
      + exfalso. eapply EXTRA; eassumption.
    - intros p Hp Hk. destruct (LC p Hp Hk) as [Hbd HC]. split; [exact Hbd|]. intros o' Hat.
      destruct (CASES _ _ Hat) as [[Hne Hold]|[He [(o & Ho & [K|(P & F)])|Hx]]].
      + apply HC. exact Hold.
      + destruct (HC o Ho) as [P Cr]. destruct K as (_ & S & _). unfold stamp in S. inversion S. split; congruence.
      + exfalso. apply (F p Hp). reflexivity.
      + exfalso. eapply EXTRA; eassumption.
    - exact LD1.
    - intros p Hp. destruct (LD2 p Hp) as [o (m0 & A & B & C & D)]. destruct (Z.eq_dec (mk_id m0) mid) as [E|E].
      + assert (m0 = m) by (apply m_unique; assumption). subst m0. destruct (old_order_persists o C) as [o' [Ho' N]].
        exists o'. exists m'. split; [apply ms'_new|split; [lia|split; [exact Ho'|lia]]].
      + exists o. exists m0. split; [apply ms'_keep; assumption|split; [exact B|split; assumption]].
    - intros m0 Hm0. destruct (ms'_in m0 Hm0) as [->|[A _]]; [exact Hbook|apply LE; exact A].
  Qed.
End MarketStep.

(* ---------- plumbing ---------- *)
Lemma upd_market_const mid f m : forall ms, get_market mid ms = Some m -> upd_market mid f ms = upd_market mid (fun _ => f m) ms.
Proof.
  induction ms as [|y r IH]; intros H; [reflexivity|]. unfold get_market in H. cbn [find] in H. cbn [upd_market].
  destruct (mk_id y =? mid); [inversion H; reflexivity|f_equal; apply IH; exact H].
Qed.
Lemma upd_market_twice mid f g : forall ms, (forall x, mk_id (f x) = mk_id x) -> upd_market mid g (upd_market mid f ms) = upd_market mid (fun x => g (f x)) ms.
Proof.
  intros ms Hf. induction ms as [|y r IH]; [reflexivity|]. cbn [upd_market]. destruct (mk_id y =? mid) eqn:E; cbn [upd_market].
  - rewrite Hf, E. reflexivity.
  - rewrite E. f_equal. exact IH.
Qed.
Lemma upd_order_first_R (R : sorder -> sorder -> Prop) n o2 : (forall x, R x x) -> forall os o, get_order n os = Some o -> R o o2 -> Forall2 R os (upd_order n (fun _ => o2) os).
Proof.
  intros Hrefl. assert (RR : forall l, Forall2 R l l) by (induction l; constructor; auto).
  induction os as [|x r IH]; intros o Hg Hk; [discriminate|]. unfold get_order in Hg. cbn [find] in Hg. cbn [upd_order].
  destruct (so_name x =? n).
  - inversion Hg; subst. constructor; [exact Hk|apply RR].
  - constructor; [apply Hrefl|]. eapply IH; [exact Hg|exact Hk].
Qed.

(* ---------- changing the package list ---------- *)
Lemma linkI_incl cf Q Q' ms : linkI cf Q ms -> (forall p, In p Q' -> In p Q) -> NoDup (map pkey (filter is_place Q')) -> linkI cf Q' ms.
Proof.
  intros [LA LB LC LD1 LD2 LE] Hsub Hnd. constructor; try assumption.
  - intros p Hp. apply LB. apply Hsub. exact Hp.
  - intros p Hp. apply LC. apply Hsub. exact Hp.
  - intros p Hp. apply LD2. apply Hsub. exact Hp.
Qed.
Lemma linkI_tail cf p Q ms : linkI cf (p :: Q) ms -> linkI cf Q ms.
Proof.
  intros H. apply (linkI_incl cf (p :: Q)); [exact H|intros x Hx; right; exact Hx|].
  destruct H as [_ _ _ LD1 _ _]. cbn [filter] in LD1. destruct (is_place p); [cbn [map] in LD1; apply NoDup_cons_iff in LD1; apply LD1|exact LD1].
Qed.
(* the head package's key is not the key of another placement package of the list *)
Lemma head_key_fresh cf p Q ms : linkI cf (p :: Q) ms -> is_place p = true -> forall p2, In p2 Q -> is_place p2 = true -> pkey p2 <> pkey p.
Proof.
  intros [_ _ _ LD1 _ _] Hp p2 H2 Hk Heq. cbn [filter] in LD1. rewrite Hp in LD1. cbn [map] in LD1. apply NoDup_cons_iff in LD1 as [Hn _].
  apply Hn. rewrite <- Heq. apply in_map. apply filter_In. split; assumption.
Qed.

(* at a key there is at most one order *)
Lemma at_key_unique ms k a b : NoDup (map mk_id ms) -> (forall m, In m ms -> NoDup (names (mk_orders m))) -> at_key ms k a -> at_key ms k b -> a = b.
Proof.
  intros Hid Hn (m1 & A1 & B1 & C1 & D1) (m2 & A2 & B2 & C2 & D2).
  assert (m1 = m2) by (apply (nodup_ids_unique ms); [exact Hid|exact A1|exact A2|lia]). subst m2.
  apply (unique_by_name (mk_orders m1)); [apply Hn; exact A1|exact C1|exact C2|lia].
Qed.

(* ---------- one package ---------- *)
Definition Rstep (cf : config) (Q : list pkg) (mid : Z) (o o' : sorder) : Prop :=
  keeps cf o o' \/ (so_name o' = so_name o /\ so_placed o' <> None /\ forall p, In p Q -> pkey p <> (mid, so_name o)).

Lemma mk_sim_markets mks q bet rem nn ab tx txf :
  s_markets {| s_markets := mks; s_queue := q; s_bet := bet; s_removals := rem; s_next_name := nn; s_aborted := ab; s_tx := tx; s_tx_failed := txf |} = mks.
Proof. reflexivity. Qed.

Theorem exec_pkg_link tb cf now fut s p Q :
  simN fut s -> linkI cf (p :: Q) (s_markets s) -> linkI cf Q (s_markets (exec_pkg tb cf now s p)).
Proof.
  intros HN HL. pose proof (linkI_tail _ _ _ _ HL) as HLQ. pose proof HN as (Hids & Hmk & Hnx & _ & _).
  unfold exec_pkg.
  destruct (get_market (pk_market p) (s_markets s)) as [m|] eqn:Em; [|exact HLQ].
  destruct (get_market_id _ _ _ Em) as [Hin Hmid].
  destruct (mk_book m) as [b|] eqn:Eb; [|exact HLQ].
  destruct (get_order (pk_order p) (mk_orders m)) as [o|] eqn:Eo; [|exact HLQ].
  destruct (get_order_in _ _ _ Eo) as [Hino Hname].
  destruct (status_eqb (so_status o) SViolation); [destruct (pk_kind p); exact HLQ|].
  cbv zeta.
  assert (Hnm : NoDup (names (mk_orders m)) /\ forall n0, In n0 (names (mk_orders m)) -> n0 < s_next_name s).
  { rewrite Forall_forall in Hmk. destruct (Hmk m Hin) as [A B]. split; [exact A|intros n0 Hn0; apply (B n0 Hn0)]. }
  destruct Hnm as [Hnd Hlt].
  assert (Hat : at_key (s_markets s) (pkey p) o) by (exists m; split; [exact Hin|split; [exact Hmid|split; [exact Hino|exact Hname]]]).
  assert (HE : match mk_book m with Some b0 => 0 <= b_delay b0 | None => True end) by (destruct HL as [_ _ _ _ _ LE]; apply LE; exact Hin).
  (* the generic shape: the target is replaced by o', possibly one placed order with the next free name is appended *)
  assert (SHAPE : forall m' o' ex, mk_id m' = pk_market p -> mk_book m' = mk_book m -> mk_orders m' = upd_order (so_name o') (fun _ => o') (mk_orders m) ++ ex ->
            so_name o' = so_name o -> Rstep cf Q (pk_market p) o o' ->
            (forall x, In x ex -> so_name x = s_next_name s /\ so_placed x <> None) ->
            linkI cf Q (upd_market (pk_market p) (fun _ => m') (s_markets s))).
  { intros m' o' ex Hid' Hbk' Hord' Hn' HR Hex.
    assert (Hevo : Forall2 (Rstep cf Q (pk_market p)) (mk_orders m) (upd_order (so_name o') (fun _ => o') (mk_orders m)))
      by (apply (upd_order_first_R (Rstep cf Q (pk_market p)) (so_name o') o' (fun x => or_introl (keeps_refl cf x)) (mk_orders m) o); [rewrite Hn', Hname; exact Eo|exact HR]).
    assert (Hex' : forall x, In x ex -> ~ In (so_name x) (names (mk_orders m)) /\ (so_placed x <> None \/ unpl cf x)).
    { intros x Hx. destruct (Hex x Hx) as [A B]. split; [|left; exact B]. intro Hc. rewrite A in Hc. specialize (Hlt _ Hc). lia. }
    assert (HE' : match mk_book m' with Some b0 => 0 <= b_delay b0 | None => True end) by (rewrite Hbk'; exact HE).
    exact (market_step_link cf Q (s_markets s) (pk_market p) m m'
             (upd_order (so_name o') (fun _ => o') (mk_orders m)) ex Hids Em Hid' Hord' Hevo Hex' HE' HLQ). }
  assert (PUT : forall o', so_name o' = so_name o -> Rstep cf Q (pk_market p) o o' ->
            linkI cf Q (upd_market (pk_market p) (fun m0 => set_orders m0 (upd_order (so_name o') (fun _ => o') (mk_orders m0))) (s_markets s))).
  { intros o' Hn' HR. rewrite (upd_market_const _ _ m _ Em).
    apply (SHAPE _ o' []); [exact Hmid|reflexivity|cbn [set_orders mk_orders]; rewrite app_nil_r; reflexivity|exact Hn'|exact HR|intros x []]. }
  (* a placed target is kept by anything that preserves name and stamp *)
  assert (KP : is_place p = false -> forall o', so_name o' = so_name o -> stamp o' = stamp o -> Rstep cf Q (pk_market p) o o').
  { intros Hk o' Hn' Hs. left. apply keeps_placed; [exact Hn'|exact Hs|]. destruct HL as [_ LB _ _ _ _]. apply (LB p (or_introl eq_refl) Hk o Hat). }
  destruct (pk_kind p) eqn:Ek.
  - (* place: the target becomes placed; no other package of Q names it *)
    pose proof (nm_sim_place tb (client_of cf (so_strat o)) (mk_static m) b (pk_mv p) o) as HNm.
    destruct (sim_place tb (client_of cf (so_strat o)) (mk_static m) b (pk_mv p) o) as [o1 ok]. cbn [fst] in HNm. rewrite mk_sim_markets.
    assert (EXC : forall p2, In p2 Q -> pkey p2 <> (pk_market p, so_name o)).
    { intros p2 H2 Heq. assert (Hpk : pkey p2 = pkey p) by (rewrite Heq; unfold pkey; rewrite Hname; reflexivity).
      destruct (is_place p2) eqn:E2.
      - assert (Hpl : is_place p = true) by (unfold is_place; rewrite Ek; reflexivity). exact (head_key_fresh cf p Q (s_markets s) HL Hpl p2 H2 E2 Hpk).
      - destruct HL as [_ LB LC _ _ _]. destruct (LC p (or_introl eq_refl)) as [_ HC]; [unfold is_place; rewrite Ek; reflexivity|].
        destruct (HC o Hat) as [Hp0 _]. apply (LB p2 (or_intror H2) E2 o); [rewrite Hpk; exact Hat|exact Hp0]. }
    destruct ok; apply PUT; try (cbn; exact HNm); right; (split; [cbn; exact HNm|split; [cbn; discriminate|exact EXC]]).
  - assert (Hk : is_place p = false) by (unfold is_place; rewrite Ek; reflexivity).
    pose proof (nm_sim_cancel b o) as HNm. pose proof (stamp_sim_cancel b o) as HSt.
    destruct (sim_cancel b o) as [[o1 ok] c]. cbn [fst] in HNm, HSt. rewrite mk_sim_markets.
    destruct ok; [destruct (remaining o1 =? 0)|]; apply PUT; try (cbn; rewrite ?nm_reset_order; exact HNm); apply KP; try exact Hk;
      try (cbn; rewrite ?nm_reset_order; exact HNm); try (cbn; exact HSt).
    unfold reset_order. destruct (status_eqb (so_status o1) SExecComplete); [exact HSt|cbn; exact HSt].
  - assert (Hk : is_place p = false) by (unfold is_place; rewrite Ek; reflexivity). rewrite mk_sim_markets.
    apply PUT; [apply nm_reset_order|apply KP; [exact Hk|apply nm_reset_order|]].
    unfold reset_order. destruct (status_eqb (so_status o) SExecComplete); reflexivity.
  - assert (Hk : is_place p = false) by (unfold is_place; rewrite Ek; reflexivity).
    destruct (status_eqb (so_status o) SExecComplete); [exact HLQ|].
    pose proof (nm_sim_cancel b o) as HNm. pose proof (stamp_sim_cancel b o) as HSt.
    destruct (sim_cancel b o) as [[o1 ok] sc]. cbn [fst] in HNm, HSt.
    assert (RS : forall x, so_name x = so_name o1 -> stamp x = stamp o1 -> Rstep cf Q (pk_market p) o x)
      by (intros x A B; apply KP; [exact Hk|congruence|congruence]).
    assert (HR1 : stamp (reset_order (cf_complete cf) now o1) = stamp o1) by (unfold reset_order; destruct (status_eqb (so_status o1) SExecComplete); reflexivity).
    destruct (negb ok); [rewrite mk_sim_markets; apply PUT; [rewrite nm_reset_order; exact HNm|apply RS; [apply nm_reset_order|exact HR1]]|].
    set (o2 := exec_complete (cf_complete cf) now o1).
    assert (N2 : so_name o2 = so_name o) by exact HNm. assert (R2 : Rstep cf Q (pk_market p) o o2) by (apply RS; reflexivity).
    destruct (sc =? 0); [rewrite mk_sim_markets; apply PUT; assumption|].
    match goal with |- context [sim_place tb ?c ?ms0 b ?mv ?r0] =>
      pose proof (nm_sim_place tb c ms0 b mv r0) as HS; destruct (sim_place tb c ms0 b mv r0) as [r1 okp] end.
    cbn [fst] in HS. destruct okp; rewrite mk_sim_markets.
    + rewrite upd_market_twice by reflexivity. rewrite (upd_market_const _ _ m _ Em).
      match goal with |- linkI _ _ (upd_market _ (fun _ => set_orders _ (_ ++ [?x])) _) => set (r4 := x) end.
      apply (SHAPE _ o2 [r4]); [exact Hmid|reflexivity|reflexivity|exact N2|exact R2|].
      intros x [<-|[]]. split; [subst r4; cbn; exact HS|subst r4; cbn; discriminate].
    + apply PUT; [rewrite nm_reset_order; exact N2|]. apply KP; [exact Hk|rewrite nm_reset_order; exact N2|].
      unfold reset_order. destruct (status_eqb (so_status o2) SExecComplete); [exact HSt|cbn; exact HSt].
Qed.

(* ---------- a whole market replaced by one that evolved positionally (middleware, sweep, closing update) ---------- *)
Lemma market_evolves_link cf Q ms mid m m' :
  NoDup (map mk_id ms) -> get_market mid ms = Some m -> mk_id m' = mid -> Forall2 (keeps cf) (mk_orders m) (mk_orders m') ->
  match mk_book m' with Some b => 0 <= b_delay b | None => True end -> linkI cf Q ms -> linkI cf Q (upd_market mid (fun _ => m') ms).
Proof.
  intros Hids Em Hid' Hevo Hbk HL.
  apply (market_step_link cf Q ms mid m m' (mk_orders m') [] Hids Em Hid'); [rewrite app_nil_r; reflexivity| |intros x []|exact Hbk|exact HL].
  clear - Hevo. induction Hevo; constructor; [left; assumption|assumption].
Qed.

(* ---------- requests ---------- *)
Definition pkg_of (k : pkind) (mid name now bd : Z) (mv : option Z) : pkg :=
  {| pk_kind := k; pk_market := mid; pk_order := name; pk_created := now; pk_bet_delay := bd; pk_mv := mv |}.

Lemma linkI_add cf Q ms p : linkI cf Q ms ->
  (exists o, at_key ms (pkey p) o) ->
  (is_place p = false -> forall o, at_key ms (pkey p) o -> so_placed o <> None) ->
  (is_place p = true -> 0 <= pk_bet_delay p /\ (forall o, at_key ms (pkey p) o -> so_placed o = None /\ so_created o = pk_created p) /\
                        ~ In (pkey p) (map pkey (filter is_place Q))) ->
  linkI cf (Q ++ [p]) ms.
Proof.
  intros [LA LB LC LD1 LD2 LE] Hex Hb Hc. constructor; try assumption.
  - intros p0 Hp0 Hk. apply in_app_or in Hp0 as [Hp0|[<-|[]]]; [apply LB; assumption|apply Hb; exact Hk].
  - intros p0 Hp0 Hk. apply in_app_or in Hp0 as [Hp0|[<-|[]]]; [apply LC; assumption|]. destruct (Hc Hk) as (A & B & _). split; assumption.
  - rewrite filter_app, map_app. cbn [filter]. destruct (is_place p) eqn:E; [|cbn; rewrite app_nil_r; exact LD1].
    cbn [map]. apply nodup_app_intro; [exact LD1|constructor; [intros []|constructor]|]. intros x Hx [<-|[]]. destruct (Hc eq_refl) as (_ & _ & C). exact (C Hx).
  - intros p0 Hp0. apply in_app_or in Hp0 as [Hp0|[<-|[]]]; [apply LD2; exact Hp0|exact Hex].
Qed.

Lemma at_key_in_new_market ms mid m m' k o : NoDup (map mk_id ms) -> get_market mid ms = Some m -> mk_id m' = mid -> fst k = mid ->
  at_key (upd_market mid (fun _ => m') ms) k o -> In o (mk_orders m') /\ so_name o = snd k.
Proof.
  intros Hids Em Hid' Hk (m0 & A & B & C & D). destruct (get_market_id _ _ _ Em) as [Hin Hmid].
  destruct (upd_const_in mid m' m ms m0 Hids Hin Hmid A) as [->|[_ Hne]]; [split; assumption|lia].
Qed.

(* a managing request (cancel / update / replace) on an order that carries a bet id *)
Lemma manage_link cf ms q mid m name o (f : sorder -> sorder) k now bd mv :
  NoDup (map mk_id ms) -> get_market mid ms = Some m -> NoDup (names (mk_orders m)) -> get_order name (mk_orders m) = Some o -> so_bet o <> None ->
  (forall x, so_name (f x) = so_name x) -> (forall x, stamp (f x) = stamp x) -> k <> KPlace ->
  linkI cf q ms -> linkI cf (q ++ [pkg_of k mid name now bd mv]) (upd_market mid (fun m0 => set_orders m0 (upd_order name f (mk_orders m))) ms).
Proof.
  intros Hids Em Hnd Eo Hbet Hfn Hfs Hk HL. destruct (get_market_id _ _ _ Em) as [Hin Hmid]. destruct (get_order_in _ _ _ Eo) as [Hino Hname].
  assert (Hpl : so_placed o <> None).
  { intro Hp. destruct HL as [LA _ _ _ _ _]. destruct (LA m Hin o Hino Hp) as (_ & B & _). contradiction. }
  rewrite (upd_market_const _ _ m _ Em).
  assert (Hevo : Forall2 (keeps cf) (mk_orders m) (upd_order name f (mk_orders m))).
  { apply upd_order_keeps. intros x Hx Hn. assert (x = o) by (apply (unique_by_name (mk_orders m)); [exact Hnd|exact Hx|exact Hino|lia]). subst x.
    apply keeps_placed; [apply Hfn|apply Hfs|exact Hpl]. }
  assert (HE : match mk_book (set_orders m (upd_order name f (mk_orders m))) with Some b => 0 <= b_delay b | None => True end)
    by (destruct HL as [_ _ _ _ _ LE]; apply (LE m Hin)).
  pose proof (market_evolves_link cf q ms mid m (set_orders m (upd_order name f (mk_orders m))) Hids Em Hmid Hevo HE HL) as H1.
  assert (Hp : is_place (pkg_of k mid name now bd mv) = false) by (destruct k; [contradiction| | |]; reflexivity).
  apply linkI_add; [exact H1| | |rewrite Hp; discriminate].
  - destruct (Forall2_in_l _ _ _ _ Hevo Hino) as [o' [Ho' (N & _)]]. exists o'. exists (set_orders m (upd_order name f (mk_orders m))).
    split; [apply (upd_const_new mid _ m ms Hin Hmid)|]. split; [exact Hmid|split; [exact Ho'|cbn; lia]].
  - intros _ o' Hat. destruct (at_key_in_new_market ms mid m (set_orders m (upd_order name f (mk_orders m))) (pkey (pkg_of k mid name now bd mv)) o' Hids Em Hmid eq_refl Hat) as [Hin' Hn'].
    destruct (Forall2_in_r _ _ _ _ Hevo Hin') as [x [Hx (N & S & _)]]. cbn in Hn'.
    assert (x = o) by (apply (unique_by_name (mk_orders m)); [exact Hnd|exact Hx|exact Hino|lia]). subst x. unfold stamp in S. inversion S. congruence.
Qed.

Theorem request0_link cf now st mid fut s a :
  status_in SPending (cf_mw_live cf) = false -> action_ok0 a ->
  simN (act_keys0 mid a ++ fut) s -> linkI cf (s_queue s) (s_markets s) ->
  linkI cf (s_queue (request0 cf now st mid s a)) (s_markets (request0 cf now st mid s a)).
Proof.
  intros Hcfg Ha HN HL. pose proof HN as (Hids & Hmk & Hnx & Hdup & Hk).
  unfold request0. destruct (get_market mid (s_markets s)) as [m|] eqn:Em; [|exact HL].
  destruct (get_market_id _ _ _ Em) as [Hin Hmid].
  assert (Hnd : NoDup (names (mk_orders m))) by (rewrite Forall_forall in Hmk; apply (Hmk m Hin)).
  destruct a as [name sel sd t mv|name red|name p|name price mv|mid' a']; [| | | |exact HL].
  - destruct (negb (market_open m)); [exact HL|]. cbn [s_queue s_markets].
    set (o1 := set_live (set_status (cf_complete cf) now (new_order name st mid sel sd t now false) SPending false) true).
    assert (Hn1 : so_name o1 = name) by (subst o1; destruct t; reflexivity).
    assert (Hfresh : ~ In name (names (mk_orders m))).
    { intro Hc. rewrite Forall_forall in Hmk. destruct (Hmk m Hin) as [_ B]. destruct (B name Hc) as [_ D]. apply D. left. rewrite Hmid. reflexivity. }
    assert (Hu1 : unpl cf o1).
    { subst o1. destruct t as [pp ss pe ff mf|l pp|l]; cbn in Ha; (split; [unfold untouched; cbn; repeat split; reflexivity|]);
        (split; [reflexivity|split; [reflexivity|split; [cbn; lia|cbn; exact Hcfg]]]). }
    rewrite (upd_market_const _ _ m _ Em).
    assert (H1 : linkI cf (s_queue s) (upd_market mid (fun _ => set_orders m (mk_orders m ++ [o1])) (s_markets s))).
    { apply (market_step_link cf (s_queue s) (s_markets s) mid m (set_orders m (mk_orders m ++ [o1])) (mk_orders m) [o1] Hids Em Hmid eq_refl); [| | |exact HL].
      - clear. induction (mk_orders m); constructor; [left; apply keeps_refl|assumption].
      - intros x [<-|[]]. rewrite Hn1. split; [exact Hfresh|right; exact Hu1].
      - destruct HL as [_ _ _ _ _ LE]. apply (LE m Hin). }
    apply linkI_add; [exact H1| |discriminate|].
    + exists o1. exists (set_orders m (mk_orders m ++ [o1])). split; [apply (upd_const_new mid _ m _ Hin Hmid)|]. split; [exact Hmid|split; [cbn; apply in_or_app; right; left; reflexivity|exact Hn1]].
    + intros _. split; [destruct HL as [_ _ _ _ _ LE]; specialize (LE m Hin); cbn; destruct (mk_book m); [exact LE|lia]|]. split.
      * intros o' Hat. destruct (at_key_in_new_market (s_markets s) mid m (set_orders m (mk_orders m ++ [o1])) (mid, name) o' Hids Em Hmid eq_refl Hat) as [Hin' Hn']. cbn in Hin', Hn'.
        apply in_app_or in Hin' as [Hold|[<-|[]]]; [exfalso; apply Hfresh; unfold names; apply in_map_iff; exists o'; split; [exact Hn'|exact Hold]|].
        subst o1. destruct t; split; reflexivity.
      * intro Hc. apply in_map_iff in Hc as [p2 [Hpk H2]]. apply filter_In in H2 as [H2 _].
        destruct HL as [_ _ _ _ LD2 _]. destruct (LD2 p2 H2) as [o (m0 & A & B & C & D)]. rewrite Hpk in B, D. cbn in B, D.
        assert (m0 = m) by (apply (nodup_ids_unique (s_markets s)); [exact Hids|exact A|exact Hin|lia]). subst m0.
        apply Hfresh. unfold names. apply in_map_iff. exists o. split; [exact D|exact C].
  - destruct (get_order name (mk_orders m)) as [o|] eqn:Eo; [|exact HL].
    destruct (negb (order_validation_ok o) || negb (market_open m)); [exact HL|].
    destruct (so_bet o) eqn:Eb; [|exact HL]. destruct (so_type o); try exact HL.
    destruct (match red with Some x => negb (x =? 0) && (remaining o - x <? 0) | None => false end); [exact HL|].
    destruct (negb (status_eqb (so_status o) SExecutable)); [exact HL|]. cbn [s_queue s_markets].
    apply (manage_link cf (s_markets s) (s_queue s) mid m name o _ KCancel now _ None Hids Em Hnd Eo); [rewrite Eb; discriminate|reflexivity|reflexivity|discriminate|exact HL].
  - destruct (get_order name (mk_orders m)) as [o|] eqn:Eo; [|exact HL].
    destruct (negb (order_validation_ok o) || negb (market_open m)); [exact HL|].
    destruct (so_bet o) eqn:Eb; [|exact HL]. destruct (so_type o); try exact HL.
    destruct (persist_eqb (so_persist o) p); [exact HL|].
    destruct (negb (status_eqb (so_status o) SExecutable)); [exact HL|]. cbn [s_queue s_markets].
    apply (manage_link cf (s_markets s) (s_queue s) mid m name o _ KUpdate now _ None Hids Em Hnd Eo); [rewrite Eb; discriminate|reflexivity|reflexivity|discriminate|exact HL].
  - destruct (get_order name (mk_orders m)) as [o|] eqn:Eo; [|exact HL].
    destruct (negb (order_validation_ok o) || negb (market_open m)); [exact HL|].
    destruct (so_bet o) eqn:Eb; [|exact HL].
    destruct (so_type o); try exact HL;
    (destruct (so_price o =? price); [exact HL|]; destruct (negb (status_eqb (so_status o) SExecutable)); [exact HL|]; cbn [s_queue s_markets];
     apply (manage_link cf (s_markets s) (s_queue s) mid m name o _ KReplace now _ mv Hids Em Hnd Eo); [rewrite Eb; discriminate|reflexivity|reflexivity|discriminate|exact HL]).
Qed.

(* ====================== the combined invariant over the loop ====================== *)
From Coq Require Import Permutation.

Definition cfg_ok (cf : config) : Prop := status_in SPending (cf_mw_live cf) = false /\ status_in SExecComplete (cf_mw_live cf) = false.
Definition simQ (cf : config) (fut : list (Z * Z)) (s : sim) : Prop := simN fut s /\ linkI cf (s_queue s) (s_markets s).

Lemma filter_partition_perm {A} (f : A -> bool) : forall l, Permutation (filter f l ++ filter (fun x => negb (f x)) l) l.
Proof.
  induction l as [|x r IH]; [constructor|]. cbn [filter]. destruct (f x); cbn [negb app].
  - constructor. exact IH.
  - apply Permutation_sym. apply Permutation_cons_app. apply Permutation_sym. exact IH.
Qed.
Lemma perm_filter {A} (f : A -> bool) l l' : Permutation l l' -> Permutation (filter f l) (filter f l').
Proof.
  induction 1; cbn [filter]; try constructor.
  - destruct (f x); [constructor|]; assumption.
  - destruct (f x), (f y); try constructor; apply Permutation_refl.
  - eapply Permutation_trans; eassumption.
Qed.
Lemma linkI_perm cf Q Q' ms : Permutation Q' Q -> linkI cf Q ms -> linkI cf Q' ms.
Proof.
  intros HP HL. apply (linkI_incl cf Q Q' ms HL); [intros p Hp; eapply Permutation_in; eassumption|].
  destruct HL as [_ _ _ LD1 _ _]. eapply Permutation_NoDup; [|exact LD1]. apply Permutation_sym. apply Permutation_map. apply perm_filter. exact HP.
Qed.

Lemma exec_pkg_queue' tb cf now s p : s_queue (exec_pkg tb cf now s p) = s_queue s.
Proof.
  unfold exec_pkg. destruct (get_market (pk_market p) (s_markets s)) as [m|]; [|reflexivity].
  destruct (mk_book m) as [b|]; [|reflexivity]. destruct (get_order (pk_order p) (mk_orders m)) as [o|]; [|reflexivity].
  destruct (status_eqb (so_status o) SViolation); [destruct (pk_kind p); reflexivity|].
  destruct (pk_kind p).
  - destruct (sim_place tb (client_of cf (so_strat o)) (mk_static m) b (pk_mv p) o) as [o1 ok]. reflexivity.
  - destruct (sim_cancel b o) as [[o1 ok] c]. reflexivity.
  - reflexivity.
  - destruct (status_eqb (so_status o) SExecComplete); [reflexivity|].
    destruct (sim_cancel b o) as [[o1 ok] sc]. destruct (negb ok); [reflexivity|].
    destruct (sc =? 0); [reflexivity|].
    destruct (sim_place tb (client_of cf (so_strat o)) (mk_static m) b (pk_mv p) _) as [r1 okp]. destruct okp; reflexivity.
Qed.

(* the guards of the head package follow from the link invariant *)
Lemma place_guard_of_link cf p Q s : linkI cf (p :: Q) (s_markets s) -> place_guard s p.
Proof.
  intros HL Ek m o Em Eo T. destruct (get_market_id _ _ _ Em) as [Hin Hmid]. destruct (get_order_in _ _ _ Eo) as [Hino Hname].
  assert (Hat : at_key (s_markets s) (pkey p) o) by (exists m; split; [exact Hin|split; [exact Hmid|split; [exact Hino|exact Hname]]]).
  destruct HL as [LA _ LC _ _ _]. destruct (LC p (or_introl eq_refl)) as [_ HC]; [unfold is_place; rewrite Ek; reflexivity|].
  destruct (HC o Hat) as [Hp _]. destruct (LA m Hin o Hino Hp) as (U & _ & _ & Sz & _). split; assumption.
Qed.
Lemma ack_guard_of_link cf p Q s : linkI cf (p :: Q) (s_markets s) -> (forall p0, In p0 (p :: Q) -> 0 <= pk_bet_delay p0) -> ack_guard s p.
Proof.
  intros HL Hbd. unfold ack_guard. destruct (pk_kind p) eqn:Ek; try exact I; [|apply Hbd; left; reflexivity].
  split; [apply Hbd; left; reflexivity|]. intros m o Em Eo. destruct (get_market_id _ _ _ Em) as [Hin Hmid]. destruct (get_order_in _ _ _ Eo) as [Hino Hname].
  assert (Hat : at_key (s_markets s) (pkey p) o) by (exists m; split; [exact Hin|split; [exact Hmid|split; [exact Hino|exact Hname]]]).
  destruct HL as [LA _ LC _ _ _]. destruct (LC p (or_introl eq_refl)) as [_ HC]; [unfold is_place; rewrite Ek; reflexivity|].
  destruct (HC o Hat) as [Hp Hc]. destruct (LA m Hin o Hino Hp) as (_ & _ & R & _). split; assumption.
Qed.

(* the pending phase: the guards hold for every package executed, and the invariant survives with the remaining queue *)
Lemma fold_exec_link tb cf now fut rest : (forall p0, In p0 rest -> 0 <= pk_bet_delay p0) ->
  forall ps s, (forall p0, In p0 ps -> 0 <= pk_bet_delay p0) -> simN fut s -> linkI cf (ps ++ rest) (s_markets s) ->
  pkgs_guard tb cf now ps s /\ pkgs_ack_guard tb cf now ps s /\
  simN fut (fold_left (fun s1 p => if s_aborted s1 then s1 else exec_pkg tb cf now s1 p) ps s) /\
  linkI cf rest (s_markets (fold_left (fun s1 p => if s_aborted s1 then s1 else exec_pkg tb cf now s1 p) ps s)).
Proof.
  intros Hrest. induction ps as [|p ps IH]; intros s Hbd HN HL; cbn [fold_left pkgs_guard pkgs_ack_guard app] in *.
  - split; [exact I|split; [exact I|split; assumption]].
  - assert (Hbd' : forall p0, In p0 ps -> 0 <= pk_bet_delay p0) by (intros p0 H0; apply Hbd; right; exact H0).
    assert (Hall : forall p0, In p0 (p :: ps ++ rest) -> 0 <= pk_bet_delay p0).
    { intros p0 [<-|H0]; [apply Hbd; left; reflexivity|]. apply in_app_or in H0 as [H0|H0]; [apply Hbd; right; exact H0|apply Hrest; exact H0]. }
    destruct (s_aborted s) eqn:Ea.
    + destruct (IH s Hbd' HN (linkI_tail _ _ _ _ HL)) as (A & B & C & D). split; [split; [intros Hc; discriminate|exact A]|]. split; [split; [intros Hc; discriminate|exact B]|]. split; assumption.
    + destruct (IH (exec_pkg tb cf now s p) Hbd' (exec_pkg_N tb cf now fut s p HN) (exec_pkg_link tb cf now fut s p (ps ++ rest) HN HL)) as (A & B & C & D).
      split; [split; [intros _; eapply place_guard_of_link; exact HL|exact A]|]. split; [split; [intros _; eapply ack_guard_of_link; [exact HL|exact Hall]|exact B]|]. split; assumption.
Qed.

(* bet delays of queued packages are those of stored books: kept as part of the invariant through E of linkI at request time; here as a list fact *)
Definition queue_bd_ok (s : sim) : Prop := forall p, In p (s_queue s) -> 0 <= pk_bet_delay p.

Theorem check_pending_link tb cf now mid fut s : simQ cf fut s -> queue_bd_ok s ->
  pending_guard tb cf now mid s /\ pkgs_ack_guard tb cf now (ready cf now mid s) s /\
  simQ cf fut (check_pending tb cf now mid s) /\ queue_bd_ok (check_pending tb cf now mid s).
Proof.
  intros [HN HL] Hbd. unfold pending_guard, ready, check_pending.
  set (fr := fun p => (pk_market p =? mid) && due cf now p).
  set (ps := filter fr (s_queue s)). set (rest := filter (fun p => negb (fr p)) (s_queue s)).
  assert (HL' : linkI cf (ps ++ rest) (s_markets s)) by (apply (linkI_perm cf (s_queue s)); [apply filter_partition_perm|exact HL]).
  assert (Hr : forall p0, In p0 rest -> 0 <= pk_bet_delay p0) by (intros p0 H0; apply Hbd; apply filter_In in H0; apply H0).
  assert (Hp : forall p0, In p0 ps -> 0 <= pk_bet_delay p0) by (intros p0 H0; apply Hbd; apply filter_In in H0; apply H0).
  destruct (fold_exec_link tb cf now fut rest Hr ps s Hp HN HL') as (A & B & C & D).
  split; [exact A|]. split; [exact B|].
  assert (Eq : s_queue (fold_left (fun s1 p => if s_aborted s1 then s1 else exec_pkg tb cf now s1 p) ps s) = s_queue s).
  { assert (G : forall l s0, s_queue (fold_left (fun s1 p => if s_aborted s1 then s1 else exec_pkg tb cf now s1 p) l s0) = s_queue s0).
    { induction l as [|p l IH]; intros s0; cbn [fold_left]; [reflexivity|]. rewrite IH. destruct (s_aborted s0); [reflexivity|apply exec_pkg_queue']. }
    apply G. }
  split; [split|].
  - unfold simN in *. cbn [s_markets s_next_name]. exact C.
  - cbn [s_queue s_markets]. rewrite Eq. exact D.
  - unfold queue_bd_ok. cbn [s_queue]. rewrite Eq. intros p0 H0. apply Hbd. apply filter_In in H0. apply H0.
Qed.

(* ---------- requests keep the combined invariant ---------- *)
Lemma request0_bd cf now st mid s a : linkI cf (s_queue s) (s_markets s) -> queue_bd_ok s -> queue_bd_ok (request0 cf now st mid s a).
Proof.
  intros HL Hbd. unfold request0. destruct (get_market mid (s_markets s)) as [m|] eqn:Em; [|exact Hbd].
  destruct (get_market_id _ _ _ Em) as [Hin _].
  assert (HE : 0 <= match mk_book m with Some b => b_delay b | None => 0 end).
  { destruct HL as [_ _ _ _ _ LE]. specialize (LE m Hin). destruct (mk_book m); [exact LE|lia]. }
  assert (ADD : forall k name mv q, q = s_queue s -> forall p, In p (q ++ [pkg_of k mid name now (match mk_book m with Some b => b_delay b | None => 0 end) mv]) -> 0 <= pk_bet_delay p).
  { intros k name mv q -> p Hp. apply in_app_or in Hp as [Hp|[<-|[]]]; [apply Hbd; exact Hp|exact HE]. }
  destruct a as [name sel sd t mv|name red|name p|name price mv|mid' a']; [| | | |exact Hbd].
  - destruct (negb (market_open m)); [exact Hbd|]. unfold queue_bd_ok. cbn [s_queue]. apply (ADD KPlace name mv _ eq_refl).
  - destruct (get_order name (mk_orders m)) as [o|]; [|exact Hbd].
    destruct (negb (order_validation_ok o) || negb (market_open m)); [exact Hbd|].
    destruct (so_bet o); [|exact Hbd]. destruct (so_type o); try exact Hbd.
    destruct (match red with Some x => negb (x =? 0) && (remaining o - x <? 0) | None => false end); [exact Hbd|].
    destruct (negb (status_eqb (so_status o) SExecutable)); [exact Hbd|]. unfold queue_bd_ok. cbn [s_queue]. apply (ADD KCancel name None _ eq_refl).
  - destruct (get_order name (mk_orders m)) as [o|]; [|exact Hbd].
    destruct (negb (order_validation_ok o) || negb (market_open m)); [exact Hbd|].
    destruct (so_bet o); [|exact Hbd]. destruct (so_type o); try exact Hbd.
    destruct (persist_eqb (so_persist o) p); [exact Hbd|].
    destruct (negb (status_eqb (so_status o) SExecutable)); [exact Hbd|]. unfold queue_bd_ok. cbn [s_queue]. apply (ADD KUpdate name None _ eq_refl).
  - destruct (get_order name (mk_orders m)) as [o|]; [|exact Hbd].
    destruct (negb (order_validation_ok o) || negb (market_open m)); [exact Hbd|].
    destruct (so_bet o); [|exact Hbd].
    destruct (so_type o); try exact Hbd;
    (destruct (so_price o =? price); [exact Hbd|]; destruct (negb (status_eqb (so_status o) SExecutable)); [exact Hbd|]; unfold queue_bd_ok; cbn [s_queue]; apply (ADD KReplace name mv _ eq_refl)).
Qed.

Definition simQB (cf : config) (fut : list (Z * Z)) (s : sim) : Prop := simQ cf fut s /\ queue_bd_ok s.

Theorem request_QB cf now st mid fut s a : cfg_ok cf -> action_ok a -> simQB cf (act_keys mid a ++ fut) s -> simQB cf fut (request cf now st mid s a).
Proof.
  intros [Hc1 _] Ha [[HN HL] Hbd]. unfold request, act_keys, action_ok in *.
  destruct a as [name sel sd t mv|name red|name p|name price mv|mid' a'];
    (split; [split; [apply request0_N; exact HN|apply (request0_link cf now st _ fut s _ Hc1 Ha HN HL)]|apply request0_bd; assumption]).
Qed.

Lemma requests_QB cf now st mid : cfg_ok cf -> forall acts fut s, Forall action_ok acts -> simQB cf (flat_map (act_keys mid) acts ++ fut) s ->
  simQB cf fut (fold_left (request cf now st mid) acts s).
Proof.
  intros Hc. induction acts as [|a acts IH]; intros fut s Ha HI; cbn [fold_left flat_map app] in *; [exact HI|].
  inversion Ha; subst. apply IH; [assumption|]. apply request_QB; [exact Hc|assumption|]. rewrite app_assoc. exact HI.
Qed.
Lemma strategies_QB cf now mid (f : Z -> list action) : cfg_ok cf -> forall sts fut s, (forall st, In st sts -> Forall action_ok (f st)) ->
  simQB cf (flat_map (fun st => flat_map (act_keys mid) (f st)) sts ++ fut) s ->
  simQB cf fut (fold_left (fun s st => fold_left (request cf now st mid) (f st) s) sts s).
Proof.
  intros Hc. induction sts as [|st sts IH]; intros fut s Hf HI; cbn [fold_left flat_map app] in *; [exact HI|].
  apply IH; [intros st' H'; apply Hf; right; exact H'|]. apply requests_QB; [exact Hc|apply Hf; left; reflexivity|]. rewrite app_assoc. exact HI.
Qed.

(* ---------- one event ---------- *)
Definition event_ok2 (sc : script) (n : Z) (e : event) : Prop := event_ok sc n e /\ 0 <= b_delay (ev_book e).

Lemma middleware_book tb cf s m b : mk_book (snd (middleware tb cf s m b)) = Some b.
Proof.
  rewrite middleware_unfold. destruct (collect (mk_id m) (b_runners b) (mk_analytics m, s_removals s, [])) as [[ans rems] newrems].
  destruct (apply_new tb cf m b newrems) as [o1 raised]. reflexivity.
Qed.
Lemma middleware_queue tb cf s m b : s_queue (fst (middleware tb cf s m b)) = s_queue s.
Proof.
  rewrite middleware_unfold. destruct (collect (mk_id m) (b_runners b) (mk_analytics m, s_removals s, [])) as [[ans rems] newrems].
  destruct (apply_new tb cf m b newrems) as [o1 raised]. reflexivity.
Qed.

Theorem step_QB tb cf n sc fut s e : cfg_ok cf -> event_ok2 sc n e -> simQB cf (ev_keys sc n e ++ fut) s ->
  step_guard tb cf s e /\ step_ack_guard tb cf s e /\ simQB cf fut (step tb cf n sc s e).
Proof.
  intros Hc [[Hbk Hsc] Hdl] [[HN HL] Hbd].
  assert (DROP : forall s0, simQB cf (ev_keys sc n e ++ fut) s0 -> simQB cf fut s0).
  { intros s0 [[A B] C]. split; [split; [eapply simN_drop; exact A|exact B]|exact C]. }
  unfold step_guard, step_ack_guard, step. destruct (s_aborted s) eqn:Eab.
  { split; [intros Hx; discriminate|]. split; [intros Hx; discriminate|]. apply DROP. split; [split|]; assumption. }
  set (s1 := match s_queue s with [] => s | _ => check_pending tb cf (b_pt (ev_book e)) (ev_market e) s end).
  assert (H1 : (match s_queue s with [] => True | _ => pending_guard tb cf (b_pt (ev_book e)) (ev_market e) s end) /\
               (match s_queue s with [] => True | _ => pkgs_ack_guard tb cf (b_pt (ev_book e)) (ready cf (b_pt (ev_book e)) (ev_market e) s) s end) /\
               simQB cf (ev_keys sc n e ++ fut) s1).
  { subst s1. destruct (check_pending_link tb cf (b_pt (ev_book e)) (ev_market e) _ s (conj HN HL) Hbd) as (A & B & C & D).
    destruct (s_queue s) eqn:Eq; [split; [exact I|split; [exact I|rewrite <- Eq in HL; exact (conj (conj HN HL) Hbd)]]|].
    split; [exact A|split; [exact B|exact (conj C D)]]. }
  destruct H1 as (G1 & G2 & H1). split; [intros _; exact G1|]. split; [intros _; exact G2|].
  destruct (s_aborted s1); [apply DROP; exact H1|].
  destruct (get_market (ev_market e) (s_markets s1)) as [m|] eqn:Em; [|apply DROP; exact H1].
  destruct (get_market_id _ _ _ Em) as [Hin Hmid].
  destruct H1 as [[HN1 HL1] Hbd1]. pose proof HN1 as (Hids & Hmk & _).
  assert (Hnd : NoDup (names (mk_orders m))) by (rewrite Forall_forall in Hmk; apply (Hmk m Hin)).
  destruct (mstatus_eqb (b_status (ev_book e)) MClosed) eqn:Ecl.
  - apply DROP. destruct (mk_seen m); [|split; [split|]; assumption].
    split; [split|].
    + pose proof (step_N tb cf n sc fut s e) as _. unfold simN in *. cbn [s_markets s_next_name]. destruct HN1 as (A & B & C & D & E).
      rewrite ids_upd_market by reflexivity. split; [exact A|]. split; [|split; [exact C|split; assumption]].
      apply Forall_upd_market; [exact B|]. intros m' Hm'. exact Hm'.
    + cbn [s_queue s_markets]. rewrite (upd_market_const _ _ m _ Em).
      match goal with |- linkI _ _ (upd_market _ (fun _ => ?mm) _) => apply (market_evolves_link cf (s_queue s1) (s_markets s1) (ev_market e) m mm Hids Em Hmid) end; [apply Forall2_refl_keeps|cbn; exact Hdl|exact HL1].
    + exact Hbd1.
  - match goal with |- context [middleware tb cf s1 ?mm ?b] => set (m0 := mm) end.
    pose proof (middleware_N tb cf s1 m0 (ev_book e)) as (E1 & E2 & E3 & E4).
    pose proof (middleware_queue tb cf s1 m0 (ev_book e)) as E5.
    pose proof (middleware_book tb cf s1 m0 (ev_book e)) as E6.
    assert (HK : Forall2 (keeps cf) (mk_orders m) (mk_orders (snd (middleware tb cf s1 m0 (ev_book e)))))
      by (apply (middleware_keeps tb cf s1 m0 (ev_book e) Hbk Hnd); destruct HL1 as [LA _ _ _ _ _]; apply (LA m Hin)).
    destruct (middleware tb cf s1 m0 (ev_book e)) as [s2 m1]. cbn [fst snd] in *. unfold m0 in E3, E4. cbn [mk_id mk_orders] in E3, E4, HK.
    set (m2 := if mk_active m1 then set_orders m1 (completion_sweep cf (b_pt (ev_book e)) (mk_orders m1)) else m1).
    assert (HK2 : Forall2 (keeps cf) (mk_orders m) (mk_orders m2)).
    { subst m2. destruct (mk_active m1); [|exact HK]. cbn [set_orders mk_orders]. eapply Forall2_trans_keeps; [exact HK|]. apply completion_sweep_keeps. apply Hc. }
    assert (Hid2 : mk_id m2 = ev_market e) by (subst m2; destruct (mk_active m1); cbn; lia).
    assert (Hbk2 : match mk_book m2 with Some b => 0 <= b_delay b | None => True end)
      by (subst m2; destruct (mk_active m1); cbn [set_orders mk_book]; rewrite E6; exact Hdl).
    apply (strategies_QB cf (b_pt (ev_book e)) (ev_market e) (fun st => sc st (ev_market e) (ev_idx e)) Hc); [exact Hsc|].
    fold (ev_keys sc n e). split; [split|].
    + (* names *)
      pose proof (step_N tb cf n sc fut s e) as _.
      destruct HN1 as (A & B & C & D & E). unfold simN. cbn [s_markets s_next_name]. rewrite E1, E2.
      rewrite ids_upd_market_c by (intros x _; exact Hid2). split; [exact A|]. split; [|split; [exact C|split; assumption]].
      rewrite (Forall_forall) in B. rewrite Forall_forall. intros x Hx.
      destruct (upd_const_in (ev_market e) m2 m (s_markets s1) x A Hin Hmid Hx) as [->|[Hx' _]]; [|apply B; exact Hx'].
      apply (mkN_same_names _ _ m); [lia|rewrite (Forall2_names cf _ _ HK2); reflexivity|apply B; exact Hin].
    + cbn [s_queue s_markets]. rewrite E1, E5. apply (market_evolves_link cf (s_queue s1) (s_markets s1) (ev_market e) m m2 Hids Em Hid2 HK2 Hbk2 HL1).
    + unfold queue_bd_ok. cbn [s_queue]. rewrite E5. exact Hbd1.
Qed.

(* ---------- whole runs: both dynamic guards are consequences of static facts ---------- *)
Theorem run_QB tb cf n sc : cfg_ok cf -> forall es fut s, Forall (event_ok2 sc n) es -> simQB cf (run_keys sc n es ++ fut) s ->
  run_guard tb cf n sc es s /\ run_ack_guard tb cf n sc es s /\ simQB cf fut (fold_left (step tb cf n sc) es s).
Proof.
  intros Hc. induction es as [|e es IH]; intros fut s He HI; cbn [fold_left run_guard run_ack_guard run_keys flat_map app] in *.
  - split; [exact I|split; [exact I|exact HI]].
  - inversion He as [|? ? He1 He2]; subst. unfold run_keys in HI. rewrite <- app_assoc in HI.
    destruct (step_QB tb cf n sc (flat_map (ev_keys sc n) es ++ fut) s e Hc He1 HI) as (A & B & C).
    destruct (IH fut (step tb cf n sc s e) He2 C) as (A2 & B2 & C2).
    split; [split; assumption|]. split; [split; assumption|exact C2].
Qed.

Definition initial_ok (s : sim) : Prop :=
  NoDup (map mk_id (s_markets s)) /\ (forall m, In m (s_markets s) -> mk_orders m = [] /\ mk_analytics m = [] /\ mk_book m = None) /\
  s_queue s = [] /\ 1000 <= s_next_name s.

Lemma initial_QB cf keys s : initial_ok s -> NoDup keys -> Forall (fun k => snd k < 1000) keys -> simQB cf (keys ++ []) s.
Proof.
  intros (Hid & H0 & Hq & Hn) Hd Hk. rewrite app_nil_r. split; [split|].
  - split; [exact Hid|]. split; [|split; [exact Hn|split; assumption]].
    rewrite Forall_forall. intros m Hm. destruct (H0 m Hm) as (A & _). unfold mkN, names. rewrite A. split; [constructor|intros x []].
  - rewrite Hq. constructor.
    + intros m Hm o Ho. destruct (H0 m Hm) as (A & _). rewrite A in Ho. destruct Ho.
    + intros p [].
    + intros p [].
    + constructor.
    + intros p [].
    + intros m Hm. destruct (H0 m Hm) as (_ & _ & B). rewrite B. exact I.
  - unfold queue_bd_ok. rewrite Hq. intros p [].
Qed.

(* THE STATIC VERSION: the two dynamic side conditions hold in every run whose script uses each (market, name) once (below the first replacement
   name), whose books are in the domain with non-negative bet delays, whose requests are well-formed, started from markets without orders *)
Theorem guards_hold tb cf n sc es s :
  cfg_ok cf -> initial_ok s -> Forall (event_ok2 sc n) es -> NoDup (run_keys sc n es) -> Forall (fun k => snd k < 1000) (run_keys sc n es) ->
  run_guard tb cf n sc es s /\ run_ack_guard tb cf n sc es s.
Proof.
  intros Hc Hi He Hd Hk. destruct (run_QB tb cf n sc Hc es [] s He (initial_QB cf _ s Hi Hd Hk)) as (A & B & _). split; assumption.
Qed.

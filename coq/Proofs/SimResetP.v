(* SimResetP.v — C03 (simulation): after the repair of F-C03-1 the answer to a cancel / update / replace never re-opens an order that
   completed while the request was in flight. *)
From Coq Require Import ZArith List Bool Lia.
From V Require Import Model.Num Model.Status Model.Sim Model.SimLoop.
Open Scope Z_scope.

Lemma status_executable cs now o : so_status (executable cs now o) = SExecutable.
Proof. reflexivity. Qed.
Lemma log_executable cs now o : so_log (executable cs now o) = so_log o ++ [SExecutable].
Proof. reflexivity. Qed.

Theorem reset_order_keeps_complete cs now o : so_status o = SExecComplete -> reset_order cs now o = o.
Proof. intros H. unfold reset_order. rewrite H. reflexivity. Qed.
Theorem reset_order_reopens_only_live cs now o : so_status o <> SExecComplete -> reset_order cs now o = executable cs now o.
Proof. intros H. unfold reset_order. destruct (so_status o); try reflexivity. congruence. Qed.
(* the status log never gets `Execution complete, Executable` from an answer *)
Theorem reset_order_log cs now o :
  so_log (reset_order cs now o) = so_log o \/ (so_status o <> SExecComplete /\ so_log (reset_order cs now o) = so_log o ++ [SExecutable]).
Proof.
  destruct (status_eqb (so_status o) SExecComplete) eqn:E.
  - left. unfold reset_order. rewrite E. reflexivity.
  - right. split; [intro H; rewrite H in E; discriminate|]. unfold reset_order. rewrite E. reflexivity.
Qed.

(* ClosureP.v — C20. *)
From Coq Require Import ZArith List Bool Lia ZifyBool.
From V Require Import Model.Num Model.Closure.
Open Scope Z_scope.

Definition cout_eq_dec : forall a b : cout, {a = b} + {a <> b}.
Proof. decide equality; apply Z.eq_dec. Defined.

Definition closed_cbs (m : Z) (o : list cout) : list Z :=
  concat (map (fun x => match x with OClosedCb st m' => if m' =? m then [st] else [] | _ => [] end) o).

Lemma closed_cbs_map m subs : closed_cbs m (map (fun st => OClosedCb st m) subs) = subs.
Proof. unfold closed_cbs. induction subs as [|s r IH]; [reflexivity|]. cbn [map concat]. rewrite Z.eqb_refl. cbn. f_equal. exact IH. Qed.

Lemma closed_cbs_app m a b : closed_cbs m (a ++ b) = closed_cbs m a ++ closed_cbs m b.
Proof. unfold closed_cbs. rewrite map_app, concat_app. reflexivity. Qed.

Lemma cget_cupd m f l : cget m (cupd m f l) = match cget m l with Some x => if cm_id (f x) =? m then Some (f x) else cget m (cupd m f l) | None => None end.
Proof.
  induction l as [|x r IH]; [reflexivity|]. unfold cget in *. cbn [cupd find].
  destruct (cm_id x =? m) eqn:E; cbn [find]; [destruct (cm_id (f x) =? m); reflexivity|]. rewrite E. exact IH.
Qed.

(* 1. live: every CLOSED update delivers the closed-market callback to exactly the subscribed strategies, once each *)
Theorem live_closed_callbacks s m subs : closed_cbs m (snd (live_step s (EBook m CsClosed subs))) = subs.
Proof. cbn [live_step snd]. apply closed_cbs_map. Qed.

(*    simulation: the same for every market already known to the framework, with one cleared-orders report iff the
      market has orders and one cleared-market summary per client *)
Theorem sim_closed_callbacks n ho s m subs x : cget m (cs_markets s) = Some x ->
  let o := snd (sim_step n ho s (EBook m CsClosed subs)) in
  closed_cbs m o = subs /\
  (count_occ cout_eq_dec o (OClearedOrders m) = if ho m then 1%nat else 0%nat).
Proof.
  intros Hg. cbn [sim_step]. rewrite Hg. cbn [snd]. split.
  - rewrite !closed_cbs_app, closed_cbs_map.
    assert (A : closed_cbs m (if ho m then [OClearedOrders m] else []) = []) by (destruct (ho m); reflexivity).
    assert (B : forall l, closed_cbs m (map (fun c => OClearedMarket m (Z.of_nat c)) l) = []) by (induction l; [reflexivity|exact IHl]).
    rewrite A, B, !app_nil_r. reflexivity.
  - rewrite !count_occ_app.
    assert (A : forall l, count_occ cout_eq_dec (map (fun st => OClosedCb st m) l) (OClearedOrders m) = 0%nat).
    { induction l as [|a l IH]; [reflexivity|]. cbn [map]. rewrite count_occ_cons_neq by discriminate. exact IH. }
    assert (B : forall l, count_occ cout_eq_dec (map (fun c => OClearedMarket m (Z.of_nat c)) l) (OClearedOrders m) = 0%nat).
    { induction l as [|a l IH]; [reflexivity|]. cbn [map]. rewrite count_occ_cons_neq by discriminate. exact IH. }
    rewrite A, B. destruct (ho m); [rewrite count_occ_cons_eq by reflexivity|]; reflexivity.
Qed.

(* the corner: in simulation a CLOSED book for a market never seen before is dropped: no callback at all *)
Theorem sim_close_of_unseen_market_dropped n ho s m subs : cget m (cs_markets s) = None ->
  sim_step n ho s (EBook m CsClosed subs) = (s, []).
Proof. intros Hg. cbn [sim_step]. rewrite Hg. reflexivity. Qed.

(* 2. data for a closed market re-opens it with its cleared flags reset *)
Theorem reopen_resets x : cm_closed x = true -> cm_closed (reopen x) = false /\ cm_flags (reopen x) = false /\ cm_ctx (reopen x) = cm_ctx x.
Proof. intros H. unfold reopen. rewrite H. repeat split. Qed.

(* 3. live: a market disappears in a step only if that step is a close, the market is closed, and has been closed
      for more than an hour; open markets are never removed *)
Lemma in_cupd x m f l : In x (cupd m f l) -> In x l \/ exists y, In y l /\ x = f y.
Proof.
  induction l as [|a r IH]; cbn [cupd]; [intros []|]. destruct (cm_id a =? m).
  - intros [<-|H]; [right; exists a; split; [left; reflexivity|reflexivity]|left; right; exact H].
  - intros [<-|H]; [left; left; reflexivity|]. destruct (IH H) as [H1|[y [Hy ->]]]; [left; right; exact H1|right; exists y; split; [right; exact Hy|reflexivity]].
Qed.

Theorem live_removal_only_after_an_hour s e s' o : live_step s e = (s', o) ->
  forall x, In x (cs_markets s') -> ~ (cm_closed x = true /\ 3600 < cs_now s' - cm_closed_at x) \/
            (match e with EBook _ CsClosed _ => False | _ => True end).
Proof.
  intros H x Hx. destruct e as [m st subs|d|m].
  - destruct st; try (right; exact I). left. cbn [live_step] in H. inversion H; subst. cbn [cs_markets cs_now] in *.
    apply filter_In in Hx as [_ Hf]. intros [Hc Ht]. rewrite Hc in Hf. cbn in Hf. lia.
  - right. exact I.
  - right. exact I.
Qed.

Theorem live_never_removes_open_or_recent s m st subs x :
  In x (cs_markets s) -> cm_id x <> m -> (cm_closed x = false \/ cs_now s - cm_closed_at x <= 3600) ->
  In x (cs_markets (fst (live_step s (EBook m st subs)))).
Proof.
  intros Hin Hne Hok. cbn [live_step].
  assert (K : forall f l, In x l -> In x (cupd m f l)).
  { intros f l. induction l as [|a r IH]; [intros []|]. cbn [cupd]. intros [<-|H].
    - replace (cm_id a =? m) with false by lia. left. reflexivity.
    - destruct (cm_id a =? m); right; [exact H|apply IH; exact H]. }
  assert (H1 : In x (match cget m (cs_markets s) with None => cs_markets s ++ [fresh_market m] | Some _ => cupd m reopen (cs_markets s) end)).
  { destruct (cget m (cs_markets s)); [apply K; exact Hin|apply in_or_app; left; exact Hin]. }
  destruct st; cbn [fst cs_markets]; try (apply K; exact H1).
  apply filter_In. split; [apply K; exact H1|]. destruct Hok as [-> | Hok]; [reflexivity|].
  destruct (cm_closed x); [|reflexivity]. cbn. lia.
Qed.

(* simulation: at each close the runner accounting and middleware state of the market are released, the market kept *)
Theorem sim_close_releases n ho s m subs x : cget m (cs_markets s) = Some x ->
  exists y, cget m (cs_markets (fst (sim_step n ho s (EBook m CsClosed subs)))) = Some y /\ cm_closed y = true /\ cm_ctx y = [] /\ cm_mw y = false.
Proof.
  intros Hg. cbn [sim_step]. rewrite Hg. cbn [fst cs_markets].
  unfold cget in *. induction (cs_markets s) as [|a r IH]; [discriminate|]. cbn [find cupd] in *.
  destruct (cm_id a =? m) eqn:E.
  - cbn [find release close_at cm_id]. rewrite E. eexists. split; [reflexivity|]. repeat split.
  - cbn [find]. rewrite E. apply IH. exact Hg.
Qed.

(* ExposureCtlP.v — C01 (decision level). *)
From Coq Require Import ZArith List Bool Lia ZifyBool.
From V Require Import Model.Num Model.Status Model.Exposure Model.ExposureSpec Model.ExposureCtl Proofs.NumP Proofs.ExposureP.
Open Scope Z_scope.

(* a NEW order as the control sees it: nothing matched, not complete, status not pending/refused *)
Definition new_order_wf (pending : list status) (o : osum) : Prop :=
  o_matched o = 0 /\ o_complete o = false /\ status_in (o_status o) pending = false /\ 0 <= o_remaining o /\ 0 <= o_liab o /\
  (match o_kind o with KLimit false => 100 <= o_price o | _ => True end).

(* what the new order adds to the worst case on its own losing side = its exposure (x100); nothing on the other side *)
Lemma new_order_contrib pending o : new_order_wf pending o ->
  contrib (match o_side o with Back => false | Lay => true end) o = - order_exposure100 o /\
  contrib (match o_side o with Back => true | Lay => false end) o = 0.
Proof.
  intros (Hm & Hc & Hs & Hr & Hl & Hp). unfold contrib, matched_pl, open_pl, open_size, eff_price, eff_avg, bet_pl, order_exposure100.
  destruct (o_kind o) as [[|]|]; rewrite ?Hm, ?Hc; destruct (o_side o); cbv iota beta;
    try (change (200 =? 0) with false; cbv iota); try (destruct (o_price o =? 0) eqn:E); nia.
Qed.

Lemma worst_snoc win pos o : worst win (pos ++ [o]) = worst win pos + contrib win o.
Proof. rewrite !worst_is_sum, map_app, sumZ_app. simpl. lia. Qed.

(* 1. decision for a new order: accepted => each configured limit holds with the order counted IN FULL
      (epsilon = one penny: the two roundings of the reported figure), for every tie-break *)
Theorem place_decision tb pending lim orders active nwin o :
  new_order_wf pending o -> forallb wf_o (filter (fun x => o_sel x =? o_sel o) orders) = true ->
  exposure_ok tb pending lim PkPlace orders active nwin o = true ->
  (forall m, max_order lim = Some m -> order_exposure100 o <= 100 * m) /\
  (forall m, max_sel lim = Some m ->
     let pos := position pending None (filter (fun x => o_sel x =? o_sel o) orders) None in
     - worst (match o_side o with Back => false | Lay => true end) (pos ++ [o]) <= 100 * m + 100 /\
     worst (match o_side o with Back => true | Lay => false end) (pos ++ [o]) = worst (match o_side o with Back => true | Lay => false end) pos) /\
  (forall m, max_mkt lim = Some m -> - market_exposure tb pending orders active nwin None (Some o) <= m).
Proof.
  intros Hwf Hpos Hok. unfold exposure_ok in Hok. cbv zeta in Hok. apply andb_true_iff in Hok as [Hok Hm]. apply andb_true_iff in Hok as [Ho Hs].
  destruct (new_order_contrib pending o Hwf) as [Hc1 Hc2].
  split; [|split].
  - intros m Hmo. rewrite Hmo in Ho. apply negb_true_iff, Z.ltb_ge in Ho. exact Ho.
  - intros m Hms. rewrite Hms in Hs. cbv zeta. rewrite !worst_snoc, Hc1, Hc2. split; [|lia].
    set (L := filter (fun x => o_sel x =? o_sel o) orders) in *.
    pose proof (selection_within_a_penny tb pending L None None ltac:(rewrite app_nil_r; exact Hpos)) as [Hw Hl]. cbv zeta in Hw, Hl.
    apply negb_true_iff, Z.ltb_ge in Hs. clear - Hs Hw Hl. destruct (o_side o); lia.
  - intros m Hmm. rewrite Hmm in Hm. apply negb_true_iff, Z.ltb_ge in Hm. exact Hm.
Qed.

(* one-step invariant: if both sides of the selection were within the limit, they still are after an accepted order *)
Theorem place_keeps_selection_within_limit tb pending lim orders active nwin o m :
  new_order_wf pending o -> forallb wf_o (filter (fun x => o_sel x =? o_sel o) orders) = true ->
  max_sel lim = Some m -> exposure_ok tb pending lim PkPlace orders active nwin o = true ->
  let pos := position pending None (filter (fun x => o_sel x =? o_sel o) orders) None in
  - worst true pos <= 100 * m + 100 -> - worst false pos <= 100 * m + 100 ->
  - worst true (pos ++ [o]) <= 100 * m + 100 /\ - worst false (pos ++ [o]) <= 100 * m + 100.
Proof.
  intros Hwf Hpos Hms Hok. cbv zeta. intros Ht Hf.
  destruct (place_decision tb pending lim orders active nwin o Hwf Hpos Hok) as (_ & H2 & _).
  specialize (H2 m Hms). cbv zeta in H2. destruct H2 as [Ha Hb]. destruct (o_side o); split; lia.
Qed.

(* 2. a refused request: the model returns false exactly when one of the three tests fails (restating the decision rule) *)
Theorem refusal_iff tb pending lim k orders active nwin o :
  exposure_ok tb pending lim k orders active nwin o = false <->
  (exists m, max_order lim = Some m /\ 100 * m < order_exposure100 o) \/
  (exists m, max_sel lim = Some m /\
     let excl := match k with PkReplace => Some (o_id o) | PkPlace => None end in
     let e := get_exposures tb pending (filter (fun x => o_sel x =? o_sel o) orders) excl None in
     100 * m < 100 * (match o_side o with Back => - e_lose e | Lay => - e_win e end) + order_exposure100 o) \/
  (exists m, max_mkt lim = Some m /\
     m < - market_exposure tb pending orders active nwin (match k with PkReplace => Some (o_id o) | PkPlace => None end) (Some o)).
Proof.
  unfold exposure_ok. cbv zeta. rewrite !andb_false_iff. split.
  - intros [[H|H]|H].
    + left. destruct (max_order lim) as [m|]; [|discriminate]. exists m. split; [reflexivity|lia].
    + right. left. destruct (max_sel lim) as [m|]; [|discriminate]. exists m. split; [reflexivity|]. cbv zeta. lia.
    + right. right. destruct (max_mkt lim) as [m|]; [|discriminate]. exists m. split; [reflexivity|lia].
  - intros [[m [E H]]|[[m [E H]]|[m [E H]]]]; rewrite E.
    + left. left. lia.
    + left. right. cbv zeta in H. lia.
    + right. lia.
Qed.

(* BlotterP.v — C15: the views are exactly the orders placed, each once, in placement order. *)
From Coq Require Import ZArith List Bool Lia ZifyBool.
From V Require Import Model.Num Model.Status Model.Blotter.
Open Scope Z_scope.

Definition place_all (os : list bord) : blotter := fold_left setitem os blotter0.

Lemma view_get_add {K} (eqb : K -> K -> bool) (Heq : forall a b, eqb a b = true <-> a = b) k k' id (v : view K) :
  view_get eqb k (view_add eqb k' id v) = if eqb k' k then view_get eqb k v ++ [id] else view_get eqb k v.
Proof.
  assert (Hsym : forall a b, eqb a b = eqb b a).
  { intros a b. destruct (eqb a b) eqn:E1, (eqb b a) eqn:E2; try reflexivity; [apply Heq in E1; subst; rewrite (proj2 (Heq b b) eq_refl) in E2; discriminate|apply Heq in E2; subst; rewrite (proj2 (Heq a a) eq_refl) in E1; discriminate]. }
  unfold view_get. induction v as [|[a l] r IH]; cbn [view_add find fst snd].
  - rewrite (Hsym k' k). destruct (eqb k k'); reflexivity.
  - destruct (eqb a k') eqn:E.
    + apply Heq in E. subst a. cbn [find fst snd]. destruct (eqb k' k) eqn:E2; [reflexivity|reflexivity].
    + cbn [find fst snd]. destruct (eqb a k) eqn:E2.
      * apply Heq in E2. subst a. rewrite (Hsym k' k), E. reflexivity.
      * exact IH.
Qed.

Lemma Zeqb_iff a b : Z.eqb a b = true <-> a = b. Proof. apply Z.eqb_eq. Qed.
Lemma zz_eqb_iff (a b : Z * Z) : zz_eqb a b = true <-> a = b.
Proof. destruct a, b. unfold zz_eqb, pair_eqb. cbn. rewrite andb_true_iff, !Z.eqb_eq. split; [intros [-> ->]; reflexivity|intros H; inversion H; auto]. Qed.

(* 1. every view contains each order of its key exactly once, in placement order, and nothing else:
      refinement to the abstract spec "filter the list of orders placed" - for any number of placements *)
Theorem views_are_the_orders_placed : forall os b,
  (forall k, view_get Z.eqb k (bl_by_strategy (fold_left setitem os b)) = view_get Z.eqb k (bl_by_strategy b) ++ spec_view bo_strat Z.eqb k os) /\
  (forall k, view_get zz_eqb k (bl_by_selection (fold_left setitem os b)) = view_get zz_eqb k (bl_by_selection b) ++ spec_view (fun o => (bo_strat o, bo_sel o)) zz_eqb k os) /\
  (forall k, view_get Z.eqb k (bl_by_client (fold_left setitem os b)) = view_get Z.eqb k (bl_by_client b) ++ spec_view bo_client Z.eqb k os) /\
  (forall k, view_get zz_eqb k (bl_by_client_strategy (fold_left setitem os b)) = view_get zz_eqb k (bl_by_client_strategy b) ++ spec_view (fun o => (bo_client o, bo_strat o)) zz_eqb k os) /\
  (forall k, view_get Z.eqb k (bl_by_trade (fold_left setitem os b)) = view_get Z.eqb k (bl_by_trade b) ++ spec_view bo_trade Z.eqb k os) /\
  bl_live (fold_left setitem os b) = bl_live b ++ map bo_id os.
Proof.
  induction os as [|o os IH]; intros b; cbn [fold_left].
  - unfold spec_view. cbn. repeat split; intros; rewrite ?app_nil_r; reflexivity.
  - destruct (IH (setitem b o)) as (I1 & I2 & I3 & I4 & I5 & I6).
    unfold spec_view in *. cbn [filter map].
    split; [intros k|split; [intros k|split; [intros k|split; [intros k|split; [intros k|]]]]].
    + rewrite I1. cbn [setitem bl_by_strategy]. rewrite (view_get_add Z.eqb Zeqb_iff).
      destruct (bo_strat o =? k) eqn:E; cbn [map]; rewrite <- ?app_assoc; reflexivity.
    + rewrite I2. cbn [setitem bl_by_selection]. rewrite (view_get_add zz_eqb zz_eqb_iff).
      destruct (zz_eqb (bo_strat o, bo_sel o) k) eqn:E; cbn [map]; rewrite <- ?app_assoc; reflexivity.
    + rewrite I3. cbn [setitem bl_by_client]. rewrite (view_get_add Z.eqb Zeqb_iff).
      destruct (bo_client o =? k) eqn:E; cbn [map]; rewrite <- ?app_assoc; reflexivity.
    + rewrite I4. cbn [setitem bl_by_client_strategy]. rewrite (view_get_add zz_eqb zz_eqb_iff).
      destruct (zz_eqb (bo_client o, bo_strat o) k) eqn:E; cbn [map]; rewrite <- ?app_assoc; reflexivity.
    + rewrite I5. cbn [setitem bl_by_trade]. rewrite (view_get_add Z.eqb Zeqb_iff).
      destruct (bo_trade o =? k) eqn:E; cbn [map]; rewrite <- ?app_assoc; reflexivity.
    + rewrite I6. cbn [setitem bl_live]. rewrite <- app_assoc. reflexivity.
Qed.

Corollary views_from_empty os :
  (forall k, view_get Z.eqb k (bl_by_strategy (place_all os)) = spec_view bo_strat Z.eqb k os) /\
  (forall k, view_get zz_eqb k (bl_by_selection (place_all os)) = spec_view (fun o => (bo_strat o, bo_sel o)) zz_eqb k os) /\
  (forall k, view_get Z.eqb k (bl_by_client (place_all os)) = spec_view bo_client Z.eqb k os) /\
  (forall k, view_get zz_eqb k (bl_by_client_strategy (place_all os)) = spec_view (fun o => (bo_client o, bo_strat o)) zz_eqb k os) /\
  (forall k, view_get Z.eqb k (bl_by_trade (place_all os)) = spec_view bo_trade Z.eqb k os) /\
  bl_live (place_all os) = map bo_id os.
Proof. unfold place_all. destruct (views_are_the_orders_placed os blotter0) as (A & B & C & D & E & F). cbn [blotter0 bl_by_strategy bl_by_selection bl_by_client bl_by_client_strategy bl_by_trade bl_live view_get find app] in *. repeat split; intros; auto. Qed.

(* distinct ids: the blotter itself is a bijection with the orders placed *)
Lemma dict_set_fresh {V} k (v : V) l : ~ In k (map fst l) -> dict_set k v l = l ++ [(k, v)].
Proof.
  induction l as [|[a b] r IH]; intros H; cbn [dict_set]; [reflexivity|].
  cbn [map fst In] in H. destruct (a =? k) eqn:E; [exfalso; apply H; left; lia|]. rewrite IH by tauto. reflexivity.
Qed.
Theorem orders_bijection os : NoDup (map bo_id os) -> bl_orders (place_all os) = map (fun o => (bo_id o, o)) os.
Proof.
  unfold place_all. assert (G : forall os b, NoDup (map fst (bl_orders b) ++ map bo_id os) ->
     bl_orders (fold_left setitem os b) = bl_orders b ++ map (fun o => (bo_id o, o)) os).
  { induction os0 as [|o os0 IH]; intros b Hnd; cbn [fold_left map]; [rewrite app_nil_r; reflexivity|].
    cbn [map] in Hnd.
    assert (Hfresh : ~ In (bo_id o) (map fst (bl_orders b))).
    { apply NoDup_remove_2 in Hnd. intro H. apply Hnd. apply in_or_app. left. exact H. }
    assert (Eo : bl_orders (setitem b o) = bl_orders b ++ [(bo_id o, o)]) by (cbn [setitem bl_orders]; apply dict_set_fresh; exact Hfresh).
    rewrite IH; [rewrite Eo, <- app_assoc; reflexivity|].
    rewrite Eo, map_app. cbn [map fst]. rewrite <- app_assoc. exact Hnd. }
  intros Hnd. rewrite G; [reflexivity|exact Hnd].
Qed.

(* 2. the live list loses an order only through complete_order, and only one occurrence of it *)
Lemma remove_first_spec x : forall l l', remove_first x l = Some l' -> exists a b, l = a ++ x :: b /\ l' = a ++ b /\ ~ In x a.
Proof.
  induction l as [|y r IH]; intros l' H; cbn [remove_first] in H; [discriminate|].
  destruct (y =? x) eqn:E.
  - injection H as Hr. subst l'. exists [], r. replace y with x by lia. repeat split; auto.
  - destruct (remove_first x r) as [r'|] eqn:Er; [|discriminate]. injection H as Hr. subst l'.
    destruct (IH r' eq_refl) as (a & b & -> & -> & Hn). exists (y :: a), b. split; [reflexivity|]. split; [reflexivity|]. intros [Hx|Hx]; [lia|tauto].
Qed.
Theorem complete_order_removes_exactly_one b id b' : complete_order b id = Some b' ->
  exists a c, bl_live b = a ++ id :: c /\ bl_live b' = a ++ c /\ bl_orders b' = bl_orders b /\ bl_by_strategy b' = bl_by_strategy b.
Proof.
  unfold complete_order. destruct (remove_first id (bl_live b)) as [l|] eqn:E; [|discriminate]. intros H. inversion H; subst. cbn.
  destruct (remove_first_spec id _ _ E) as (a & c & H1 & H2 & _). exists a, c. repeat split; assumption.
Qed.
Theorem complete_order_not_live_raises b id : ~ In id (bl_live b) -> complete_order b id = None.
Proof.
  intros H. unfold complete_order. assert (E : remove_first id (bl_live b) = None).
  { induction (bl_live b) as [|y r IH]; [reflexivity|]. cbn [remove_first]. destruct (y =? id) eqn:E; [exfalso; apply H; left; lia|].
    rewrite IH; [reflexivity|intro Hx; apply H; right; exact Hx]. }
  rewrite E. reflexivity.
Qed.

(* 3. filters return precisely the orders satisfying them, in order *)
Theorem filters_spec orders st mo o : st <> [] ->
  In o (apply_filters orders st mo) <-> (In o orders /\ status_in (bo_status o) st = true /\ (mo = true -> 0 < bo_matched o)).
Proof.
  intros Hst. unfold apply_filters. destruct st as [|s st']; [congruence|]. destruct mo.
  - rewrite !filter_In. split; [intros [[A B] C]; repeat split; [assumption|assumption|intros _; lia]|intros (A & B & C); repeat split; try assumption; specialize (C eq_refl); lia].
  - rewrite filter_In. split; [intros [A B]; repeat split; [assumption|assumption|discriminate]|intros (A & B & _); split; assumption].
Qed.

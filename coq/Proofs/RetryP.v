(* RetryP.v — C12 (2): the retry budget of _execution_helper. *)
From Coq Require Import ZArith List Bool Lia ZifyBool.
From V Require Import Model.Retry.
Open Scope Z_scope.

Lemma helper_spec : forall fuel c max errors, 0 <= c <= max -> (Z.of_nat fuel >= max - c + 2) -> 0 <= errors ->
  c <= errors ->
  helper fuel c max errors c = (Z.min errors max + 1, errors <=? max).
Proof.
  induction fuel as [|f IH]; intros c max errors Hc Hf He Hce.
  - lia.
  - cbn [helper]. destruct (c <? errors) eqn:E1.
    + destruct (c <? max) eqn:E2.
      * rewrite IH by lia. reflexivity.
      * f_equal; lia.
    + f_equal; lia.
Qed.

Theorem retry_budget max errors : 0 <= max -> 0 <= errors ->
  let r := run_helper max errors in
  fst r = Z.min errors max + 1 /\ fst r <= max + 1 /\ (snd r = true <-> errors <= max).
Proof.
  intros Hm He. unfold run_helper. rewrite helper_spec by lia. cbn [fst snd]. split; [reflexivity|]. split; [lia|]. lia.
Qed.

(* SimPkgP.v — C12 (simulated half): no package of SimulatedExecution strands its order. *)
From Coq Require Import ZArith List Bool Lia ZifyBool.
From V Require Import Model.Num Model.Status Model.Sim Model.SimLoop.
Open Scope Z_scope.

Definition final_status (o : sorder) : Prop := so_status o = SExecutable \/ so_status o = SExecComplete.

Lemma in_upd_order_const n o2 l x : In x (upd_order n (fun _ => o2) l) -> In x l \/ x = o2.
Proof.
  induction l as [|y r IH]; intros H; [destruct H|]. cbn [upd_order] in H. destruct (so_name y =? n).
  - destruct H as [<-|H]; [right; reflexivity|left; right; exact H].
  - destruct H as [<-|H]; [left; left; reflexivity|]. destruct (IH H) as [H1|H1]; [left; right; exact H1|right; exact H1].
Qed.
Lemma get_order_upd_const n o2 l o : get_order n l = Some o -> so_name o2 = n -> get_order n (upd_order n (fun _ => o2) l) = Some o2.
Proof.
  unfold get_order. induction l as [|y r IH]; intros Hg Hn; [discriminate|]. cbn [find] in Hg. cbn [upd_order]. destruct (so_name y =? n) eqn:E.
  - cbn [find]. replace (so_name o2 =? n) with true by lia. reflexivity.
  - cbn [find]. rewrite E. apply IH; assumption.
Qed.
Lemma get_market_upd mid f l m : get_market mid l = Some m -> mk_id (f m) = mk_id m -> get_market mid (upd_market mid f l) = Some (f m).
Proof.
  unfold get_market. induction l as [|y r IH]; intros Hg Hn; [discriminate|]. cbn [find] in Hg. cbn [upd_market]. destruct (mk_id y =? mid) eqn:E.
  - inversion Hg; subst y. cbn [find]. rewrite Hn, E. reflexivity.
  - cbn [find]. rewrite E. apply IH; assumption.
Qed.
Lemma sim_cancel_fail b o o1 c : sim_cancel b o = (o1, false, c) -> o1 = o.
Proof. unfold sim_cancel. destruct (negb (mstatus_eqb (b_status b) MOpen)); [intros H; inversion H; reflexivity|]. destruct (so_type o); intros H; inversion H; reflexivity. Qed.
Lemma sim_cancel_name b o : so_name (fst (fst (sim_cancel b o))) = so_name o.
Proof. unfold sim_cancel. destruct (negb (mstatus_eqb (b_status b) MOpen)); [reflexivity|]. destruct (so_type o); reflexivity. Qed.
Lemma reset_order_final cs now o : final_status (reset_order cs now o) \/ reset_order cs now o = o.
Proof. unfold reset_order. destruct (status_eqb (so_status o) SExecComplete); [right; reflexivity|left; left; reflexivity]. Qed.
Lemma reset_order_final' cs now o : final_status (reset_order cs now o).
Proof. unfold reset_order, final_status. destruct (so_status o) eqn:E; cbn; auto. Qed.
Lemma reset_order_name cs now o : so_name (reset_order cs now o) = so_name o.
Proof. unfold reset_order. destruct (status_eqb (so_status o) SExecComplete); reflexivity. Qed.



Lemma name_set_frags tb o fr : so_name (set_frags tb o fr) = so_name o.
Proof. unfold set_frags. destruct (wap tb fr). reflexivity. Qed.
Lemma name_add_frag tb o pt p s : so_name (add_frag tb o pt p s) = so_name o.
Proof. apply name_set_frags. Qed.
Lemma name_price_matched tb pt sd price : forall avail rem o, so_name (price_matched tb pt sd price rem avail o) = so_name o.
Proof.
  induction avail as [|[ap asz] r IH]; intros rem o; cbn [price_matched]; [reflexivity|].
  destruct (rem =? 0); [reflexivity|]. destruct (match sd with Back => price <=? ap | Lay => ap <=? price end); [|reflexivity].
  cbv zeta. rewrite IH. apply name_add_frag.
Qed.
Lemma name_vwap_loop tb pt sd price : forall avail rem o, so_name (vwap_loop tb pt sd price rem avail o) = so_name o.
Proof.
  induction avail as [|[ap asz] r IH]; intros rem o; cbn [vwap_loop]; [reflexivity|].
  destruct (rem =? 0); [reflexivity|]. cbv zeta.
  match goal with |- context [if ?c then _ else _] => destruct c end; [|reflexivity]. rewrite IH. apply name_add_frag.
Qed.
Lemma name_vwap_matched tb pt sd price size avail minfill o : so_name (vwap_matched tb pt sd price size avail minfill o) = so_name o.
Proof.
  unfold vwap_matched. cbv zeta. destruct (so_matched (vwap_loop tb pt sd price size avail o) <? minfill); [|apply name_vwap_loop].
  cbn [add_cancelled upd_buckets so_name]. rewrite name_set_frags. apply name_vwap_loop.
Qed.
Lemma name_place_resp tb c o ok : so_name (fst (place_resp tb c o ok)) = so_name o.
Proof. unfold place_resp. destruct (c_full c && ok && negb (remaining o =? 0)); [apply name_add_frag|reflexivity]. Qed.

Lemma name_sim_place tb c ms b mv o : so_name (fst (sim_place tb c ms b mv o)) = so_name o.
Proof.
  unfold sim_place.
  repeat (first
    [ rewrite name_place_resp
    | match goal with
      | |- context [if ?c then _ else _] => destruct c
      | |- context [match find_runner ?x ?y with _ => _ end] => destruct (find_runner x y)
      | |- context [match so_type ?x with _ => _ end] => destruct (so_type x)
      | |- context [match so_side ?x with _ => _ end] => destruct (so_side x)
      | |- context [match piq_of ?x ?y with _ => _ end] => destruct (piq_of x y)
      end
    | progress cbv zeta ]);
  cbn [add_voided add_lapsed add_cancelled upd_buckets upd_sim so_name]; rewrite ?name_price_matched, ?name_vwap_matched; try reflexivity.
Qed.

(* every package of the simulated execution (place / cancel / update / replace), whatever the simulated exchange answers: the order of the
   package is Executable or Execution complete afterwards - never left Pending / Cancelling / Updating / Replacing *)
Theorem exec_pkg_settles tb cf now s p m b o :
  get_market (pk_market p) (s_markets s) = Some m -> mk_book m = Some b -> get_order (pk_order p) (mk_orders m) = Some o ->
  so_status o <> SViolation ->
  exists m' o', get_market (pk_market p) (s_markets (exec_pkg tb cf now s p)) = Some m' /\ get_order (pk_order p) (mk_orders m') = Some o' /\ final_status o'.
Proof.
  intros Hm Hb Ho Hv. unfold exec_pkg. rewrite Hm, Hb, Ho.
  replace (status_eqb (so_status o) SViolation) with false by (destruct (so_status o); try reflexivity; congruence).
  cbv zeta.
  assert (Hname : so_name o = pk_order p) by (unfold get_order in Ho; apply find_some in Ho; destruct Ho as [_ Ho]; lia).
  assert (Hput : forall o2, so_name o2 = pk_order p -> final_status o2 ->
            exists m' o', get_market (pk_market p) (upd_market (pk_market p) (fun m0 => set_orders m0 (upd_order (so_name o2) (fun _ => o2) (mk_orders m0))) (s_markets s)) = Some m' /\
                          get_order (pk_order p) (mk_orders m') = Some o' /\ final_status o').
  { intros o2 Hn Hf. eexists. exists o2. split; [apply get_market_upd; [exact Hm|reflexivity]|]. split; [|exact Hf].
    cbn [set_orders mk_orders]. rewrite Hn. apply (get_order_upd_const _ _ _ o); [exact Ho|exact Hn]. }
  destruct (pk_kind p).
  - (* place: the simulated exchange always decides *)
    pose proof (name_sim_place tb (client_of cf (so_strat o)) (mk_static m) b (pk_mv p) o) as Hn1.
    destruct (sim_place tb (client_of cf (so_strat o)) (mk_static m) b (pk_mv p) o) as [o1 ok]. cbn [fst] in Hn1. cbn [s_markets].
    apply Hput; [destruct ok; cbn; congruence|destruct ok; [left|right]; reflexivity].
  - (* cancel *)
    destruct (sim_cancel b o) as [[o1 ok] c] eqn:Ec. cbn [s_markets].
    pose proof (sim_cancel_name b o) as Hn1. rewrite Ec in Hn1. cbn [fst] in Hn1.
    apply Hput.
    + destruct ok; [destruct (remaining o1 =? 0)|]; cbn; rewrite ?reset_order_name; congruence.
    + destruct ok; [destruct (remaining o1 =? 0); [right|left]; reflexivity|apply reset_order_final'].
  - (* update *)
    cbn [s_markets]. apply Hput; [rewrite reset_order_name; exact Hname|apply reset_order_final'].
  - (* replace *)
    destruct (status_eqb (so_status o) SExecComplete) eqn:Ecomp.
    + cbn [s_markets]. exists m, o. split; [exact Hm|]. split; [exact Ho|]. right. destruct (so_status o); try discriminate. reflexivity.
    + destruct (sim_cancel b o) as [[o1 ok] sc] eqn:Ec.
      pose proof (sim_cancel_name b o) as Hn1. rewrite Ec in Hn1. cbn [fst] in Hn1.
      destruct ok; cbn [negb].
      * destruct (sc =? 0); [cbn [s_markets]; apply Hput; [cbn; congruence|right; reflexivity]|].
        match goal with |- context [sim_place ?a ?c ?d ?e ?f ?g] => destruct (sim_place a c d e f g) as [r1 okp] end.
        destruct okp; cbn [s_markets].
        -- (* the replacement is appended after the original: the original is still found first *)
           set (o2 := exec_complete (cf_complete cf) now o1).
           assert (Hn2 : so_name o2 = pk_order p) by (cbn; congruence).
           set (f1 := fun m0 : market => set_orders m0 (upd_order (so_name o2) (fun _ => o2) (mk_orders m0))).
           pose proof (get_market_upd (pk_market p) f1 (s_markets s) m Hm eq_refl) as G1.
           match goal with |- context [upd_market (pk_market p) ?f2 (upd_market (pk_market p) f1 (s_markets s))] =>
             pose proof (get_market_upd (pk_market p) f2 (upd_market (pk_market p) f1 (s_markets s)) (f1 m) G1 eq_refl) as G2 end.
           eexists. exists o2. split; [exact G2|]. split; [|right; reflexivity].
           cbn [set_orders mk_orders f1]. unfold get_order. 
           assert (Hfind : find (fun o0 => so_name o0 =? pk_order p) (upd_order (so_name o2) (fun _ => o2) (mk_orders m)) = Some o2)
             by (rewrite Hn2; apply (get_order_upd_const _ _ _ o); [exact Ho|exact Hn2]).
           clear - Hfind. revert Hfind. generalize (upd_order (so_name o2) (fun _ : sorder => o2) (mk_orders m)). intros l Hl.
           induction l as [|y r IH]; [discriminate|]. cbn [app find] in *. destruct (so_name y =? pk_order p); [exact Hl|apply IH; exact Hl].
        -- apply Hput; [rewrite reset_order_name; cbn; congruence|apply reset_order_final'].
      * cbn [s_markets]. apply Hput; [rewrite reset_order_name; congruence|apply reset_order_final'].
Qed.

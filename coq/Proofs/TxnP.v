(* TxnP.v — C02. *)
From Coq Require Import ZArith List Bool Lia ZifyBool Permutation.
From V Require Import Model.Num Model.Status Model.Sim Model.Txn.
Open Scope Z_scope.

(* ---------- chunks ---------- *)
Lemma chunks_aux_concat {A} n : forall fuel (l : list A), (0 < n)%nat -> (length l <= fuel)%nat -> concat (chunks_aux fuel n l) = l.
Proof.
  induction fuel as [|f IH]; intros l Hn Hl; [destruct l; [reflexivity|simpl in Hl; lia]|].
  cbn [chunks_aux]. destruct l as [|x r]; [reflexivity|]. cbn [concat]. rewrite IH; [apply firstn_skipn|exact Hn|].
  rewrite skipn_length. cbn [length] in *. lia.
Qed.
Theorem chunks_concat {A} n (l : list A) : (0 < n)%nat -> concat (chunks n l) = l.
Proof. intros Hn. apply chunks_aux_concat; [exact Hn|lia]. Qed.

Lemma chunks_aux_sizes {A} n : forall fuel (l : list A), (0 < n)%nat ->
  Forall (fun c => (1 <= length c <= n)%nat) (chunks_aux fuel n l).
Proof.
  induction fuel as [|f IH]; intros l Hn; cbn [chunks_aux]; [constructor|].
  destruct l as [|x r]; [constructor|]. constructor; [|apply IH; exact Hn].
  rewrite firstn_length. simpl. destruct n; [lia|]. simpl. lia.
Qed.
Theorem chunks_sizes {A} n (l : list A) : (0 < n)%nat -> Forall (fun c => (1 <= length c <= n)%nat) (chunks n l).
Proof. intros Hn. apply chunks_aux_sizes. exact Hn. Qed.

(* ---------- grouping by market version ---------- *)
Lemma keys_in_order_spec l : forall seen k, In k (keys_in_order seen l) <-> (In k (map snd l) /\ existsb (opt_eqb Z.eqb k) seen = false).
Proof.
  induction l as [|[n kk] r IH]; intros seen k; cbn [keys_in_order map snd]; [split; [intros []|intros [[] _]]|].
  assert (Heq : forall a b : option Z, opt_eqb Z.eqb a b = true <-> a = b).
  { intros [a|] [b|]; cbn; split; intros H; try discriminate; try reflexivity; [f_equal; lia|inversion H; lia]. }
  destruct (existsb (opt_eqb Z.eqb kk) seen) eqn:E.
  - rewrite IH. split.
    + intros [H1 H2]. split; [right; exact H1|exact H2].
    + intros [[H1|H1] H2]; [|split; assumption]. subst kk. congruence.
  - cbn [In]. rewrite IH. cbn [existsb]. split.
    + intros [->|[H1 H2]]; [split; [left; reflexivity|exact E]|]. apply orb_false_iff in H2 as [_ H2]. split; [right; exact H1|exact H2].
    + intros [[H1|H1] H2]; [left; exact H1|].
      destruct (opt_eqb Z.eqb k kk) eqn:Ek; [left; symmetry; apply Heq; exact Ek|right; split; [exact H1|exact H2]].
Qed.

Lemma keys_nodup l : forall seen, NoDup (keys_in_order seen l).
Proof.
  induction l as [|[n kk] r IH]; intros seen; cbn [keys_in_order]; [constructor|].
  destruct (existsb (opt_eqb Z.eqb kk) seen); [apply IH|]. constructor; [|apply IH].
  rewrite keys_in_order_spec. intros [_ H]. cbn [existsb] in H. apply orb_false_iff in H as [H _].
  destruct kk; cbn in H; [rewrite Z.eqb_refl in H|]; discriminate.
Qed.

(* every request lands in exactly one group - the one of its version - and keeps its place in the request order *)
Theorem group_members l k ns : In (k, ns) (group_by_version l) -> ns = map fst (filter (fun e => opt_eqb Z.eqb (snd e) k) l).
Proof. unfold group_by_version. rewrite in_map_iff. intros [k' [E _]]. inversion E; subst. reflexivity. Qed.

Theorem group_keys_distinct l : NoDup (map fst (group_by_version l)).
Proof. unfold group_by_version. rewrite map_map. cbn. rewrite map_id. apply keys_nodup. Qed.

(* ---------- packages ---------- *)
Theorem packages_wellformed limit k pending : (0 < limit)%nat ->
  Forall (fun p => pg_kind p = k /\ (1 <= length (pg_orders p) <= limit)%nat) (create_packages limit k pending).
Proof.
  intros Hl. unfold create_packages. rewrite Forall_forall. intros p Hp. apply in_concat in Hp as [ps [Hps Hp]].
  apply in_map_iff in Hps as [g [<- Hg]]. apply in_map_iff in Hp as [ch [<- Hch]]. cbn. split; [reflexivity|].
  pose proof (chunks_sizes limit (snd g) Hl) as H. rewrite Forall_forall in H. apply H, Hch.
Qed.

(* the orders of the packages of one version group, concatenated, are exactly that group in request order *)
Theorem packages_of_group limit k pending g : (0 < limit)%nat -> In g (group_by_version pending) ->
  concat (map pg_orders (map (fun ch => {| pg_kind := k; pg_mv := fst g; pg_orders := ch |}) (chunks limit (snd g)))) = snd g.
Proof. intros Hl _. rewrite map_map. cbn. rewrite map_id. apply chunks_concat. exact Hl. Qed.

(* all orders delivered by create_packages = all pending requests (as a multiset): nothing lost, nothing twice *)
Lemma filter_partition_perm {A} (l : list (A * option Z)) : forall keys, NoDup keys -> (forall e, In e l -> In (snd e) keys) ->
  Permutation (concat (map (fun k => filter (fun e => opt_eqb Z.eqb (snd e) k) l) keys)) l.
Proof.
  assert (Heq : forall a b : option Z, opt_eqb Z.eqb a b = true <-> a = b).
  { intros [a|] [b|]; cbn; split; intros H; try discriminate; try reflexivity; [f_equal; lia|inversion H; lia]. }
  induction l as [|e r IH]; intros keys Hnd Hall.
  - induction keys; [reflexivity|]. cbn. apply IHkeys. inversion Hnd; assumption. intros e [].
  - assert (Hk : In (snd e) keys) by (apply Hall; left; reflexivity).
    apply in_split in Hk as [k1 [k2 Hk]]. subst keys.
    assert (Hn1 : ~ In (snd e) k1 /\ ~ In (snd e) k2).
    { apply NoDup_remove_2 in Hnd. split; intro H; apply Hnd; apply in_or_app; [left|right]; exact H. }
    destruct Hn1 as [Hn1 Hn2].
    assert (Hf : forall ks, ~ In (snd e) ks -> map (fun k => filter (fun e0 => opt_eqb Z.eqb (snd e0) k) (e :: r)) ks = map (fun k => filter (fun e0 => opt_eqb Z.eqb (snd e0) k) r) ks).
    { induction ks as [|k ks IHk]; intros Hni; [reflexivity|]. cbn [map filter].
      destruct (opt_eqb Z.eqb (snd e) k) eqn:Ek; [exfalso; apply Hni; left; symmetry; apply Heq; exact Ek|].
      f_equal. apply IHk. intro H. apply Hni. right. exact H. }
    rewrite map_app, concat_app. cbn [map concat]. rewrite (Hf k1 Hn1), (Hf k2 Hn2).
    cbn [filter]. rewrite (proj2 (Heq (snd e) (snd e)) eq_refl).
    specialize (IH (k1 ++ snd e :: k2) Hnd ltac:(intros x Hx; apply Hall; right; exact Hx)).
    rewrite map_app, concat_app in IH. cbn [map concat] in IH.
    etransitivity; [|apply perm_skip; exact IH].
    cbn [app]. symmetry. apply Permutation_middle.
Qed.

Theorem packages_deliver_everything_once limit k pending : (0 < limit)%nat ->
  Permutation (concat (map pg_orders (create_packages limit k pending))) (map fst pending).
Proof.
  intros Hl. unfold create_packages.
  assert (E : concat (map pg_orders (concat (map (fun g => map (fun ch => {| pg_kind := k; pg_mv := fst g; pg_orders := ch |}) (chunks limit (snd g))) (group_by_version pending))))
              = concat (map snd (group_by_version pending))).
  { induction (group_by_version pending) as [|g gs IH]; [reflexivity|]. cbn [map concat]. rewrite map_app, concat_app, IH. f_equal.
    rewrite map_map. cbn. rewrite map_id. apply chunks_concat. exact Hl. }
  rewrite E. unfold group_by_version. rewrite map_map. cbn [snd].
  rewrite <- (map_map (fun k0 => filter (fun e => opt_eqb Z.eqb (snd e) k0) pending) (map fst)), <- concat_map.
  apply Permutation_map. apply filter_partition_perm; [apply keys_nodup|].
  intros e He. apply keys_in_order_spec. split; [apply in_map; exact He|reflexivity].
Qed.

(* one market version per package *)
Theorem package_single_version limit k pending p : (0 < limit)%nat -> In p (create_packages limit k pending) ->
  forall n, In n (pg_orders p) -> In (n, pg_mv p) pending.
Proof.
  unfold create_packages. intros Hl Hp n Hn. apply in_concat in Hp as [ps [Hps Hp]].
  apply in_map_iff in Hps as [g [<- Hg]]. apply in_map_iff in Hp as [ch [<- Hch]]. cbn in *.
  destruct g as [kk ns]. pose proof (group_members pending kk ns Hg) as ->. cbn in *.
  assert (Hin : In n (map fst (filter (fun e => opt_eqb Z.eqb (snd e) kk) pending))).
  { rewrite <- (chunks_concat limit (map fst (filter (fun e => opt_eqb Z.eqb (snd e) kk) pending)) Hl).
    apply in_concat. exists ch. split; assumption. }
  apply in_map_iff in Hin as [[n' k'] [<- Hf]]. apply filter_In in Hf as [Hf Hk]. cbn in *.
  destruct k' as [a|], kk as [b|]; cbn in Hk; try discriminate; [replace b with a by lia|]; exact Hf.
Qed.

(* ---------- execute / exit ---------- *)
Definition pending_total (t : txn) : nat := (length (tx_place t) + length (tx_cancel t) + length (tx_update t) + length (tx_replace t))%nat.

(* nothing is left queued after execute(); a second execute / the __exit__ after an explicit execute sends nothing *)
Theorem execute_clears lim t : pending_total (fst (execute lim t)) = 0%nat.
Proof. reflexivity. Qed.

Theorem execute_twice_sends_nothing lim t : snd (execute lim (fst (execute lim t))) = [].
Proof. reflexivity. Qed.

Theorem exit_after_execute_sends_nothing lim t : (forall k, 0 < lim k)%nat -> snd (txn_exit lim (fst (execute lim t))) = [].
Proof.
  intros Hl. unfold txn_exit. destruct (tx_pending_flag (fst (execute lim t))); reflexivity.
Qed.

(* every pending request is delivered by execute exactly once, in a package of its own kind *)
Theorem execute_delivers lim t : (forall k, 0 < lim k)%nat ->
  let ps := snd (execute lim t) in
  Permutation (concat (map pg_orders (filter (fun p => kind_eqb (pg_kind p) KdPlace) ps))) (map fst (tx_place t)) /\
  Permutation (concat (map pg_orders (filter (fun p => kind_eqb (pg_kind p) KdCancel) ps))) (map fst (tx_cancel t)) /\
  Permutation (concat (map pg_orders (filter (fun p => kind_eqb (pg_kind p) KdUpdate) ps))) (map fst (tx_update t)) /\
  Permutation (concat (map pg_orders (filter (fun p => kind_eqb (pg_kind p) KdReplace) ps))) (map fst (tx_replace t)).
Proof.
  intros Hl. cbv zeta. unfold execute. cbn [snd].
  assert (K : forall k l, (match l with [] => [] | a :: l0 => create_packages (lim k) k (a :: l0) end) = create_packages (lim k) k l).
  { intros k l. destruct l; reflexivity. }
  rewrite !K.
  assert (F : forall k k' l, filter (fun p => kind_eqb (pg_kind p) k') (create_packages (lim k) k l) = if kind_eqb k k' then create_packages (lim k) k l else []).
  { intros k k' l. pose proof (packages_wellformed (lim k) k l (Hl k)) as Hw. rewrite Forall_forall in Hw.
    induction (create_packages (lim k) k l) as [|p ps IH]; [destruct (kind_eqb k k'); reflexivity|].
    cbn [filter]. destruct (Hw p (or_introl eq_refl)) as [Hk _]. rewrite Hk.
    rewrite IH by (intros x Hx; apply Hw; right; exact Hx). destruct (kind_eqb k k'); reflexivity. }
  rewrite !filter_app, !F. cbn [kind_eqb]. rewrite ?app_nil_r, ?app_nil_l.
  repeat split; apply packages_deliver_everything_once; apply Hl.
Qed.

(* ---------- refused requests ---------- *)
(* a request rejected by an order guard or a client mismatch changes nothing at all *)
Theorem guard_rejection_is_noop ctl t os r t' os' res : do_req ctl t os r = (t', os', res) ->
  (res = TRaisedGuard \/ res = TRaisedClient) -> t' = t /\ (match r with TPlace _ _ _ _ => True | _ => os' = os end).
Proof.
  intros H Hres. destruct r as [name mv ex force|name red force|name p force|name price mv force]; cbn [do_req] in H;
    destruct (tget name os) as [o|]; try (inversion H; subst; split; [reflexivity|trivial]; fail).
  - repeat (match type of H with context [if ?c then _ else _] => destruct c end); inversion H; subst; destruct Hres; try discriminate; split; trivial.
  - repeat (match type of H with
            | context [if ?c then _ else _] => destruct c
            | context [match to_type ?x with _ => _ end] => destruct (to_type x)
            end); inversion H; subst; destruct Hres; try discriminate; split; reflexivity.
  - repeat (match type of H with
            | context [if ?c then _ else _] => destruct c
            | context [match to_type ?x with _ => _ end] => destruct (to_type x)
            end); inversion H; subst; destruct Hres; try discriminate; split; reflexivity.
  - repeat (match type of H with
            | context [if ?c then _ else _] => destruct c
            | context [match to_type ?x with _ => _ end] => destruct (to_type x)
            end); inversion H; subst; destruct Hres; try discriminate; split; reflexivity.
Qed.

(* a refusal by a control: nothing is queued; for a NEW order the only effect is the VIOLATION mark *)
Theorem control_refusal_queues_nothing ctl t os r t' os' : do_req ctl t os r = (t', os', TRefused) -> t' = t.
Proof.
  intros H. destruct r as [name mv ex force|name red force|name p force|name price mv force]; cbn [do_req] in H;
    destruct (tget name os) as [o|]; try discriminate;
    repeat (match type of H with
            | context [if ?c then _ else _] => destruct c
            | context [match to_type ?x with _ => _ end] => destruct (to_type x)
            end); inversion H; subst; reflexivity.
Qed.

(* a forced request skips the controls and nothing else: same outcome as an accepting control *)
Theorem force_skips_controls_only ctl t os name mv ex : do_req ctl t os (TPlace name mv ex true) = do_req true t os (TPlace name mv ex true).
Proof. cbn [do_req]. destruct (tget name os); [|reflexivity]. cbn [negb andb]. rewrite !andb_false_r. reflexivity. Qed.
Theorem force_skips_controls_only_cancel ctl t os name red : do_req ctl t os (TCancel name red true) = do_req true t os (TCancel name red true).
Proof. cbn [do_req]. destruct (tget name os); reflexivity. Qed.

(* after the repair of F-C02-1: a control refusing a cancel / update / replace leaves every order that has been placed exactly as it was *)
Lemma tupd_id name f l : (forall o, In o l -> f o = o) -> tupd name f l = l.
Proof.
  induction l as [|o r IH]; intros H; cbn [tupd]; [reflexivity|]. destruct (to_name o =? name); [rewrite (H o) by (left; reflexivity); reflexivity|].
  rewrite IH; [reflexivity|]. intros x Hx. apply H. right. exact Hx.
Qed.
Theorem control_refusal_leaves_placed_orders ctl t os r t' os' : do_req ctl t os r = (t', os', TRefused) ->
  (match r with TPlace _ _ _ _ => False | _ => True end) -> (forall o, In o os -> to_status o <> SNone) -> t' = t /\ os' = os.
Proof.
  intros H Hr Hst.
  assert (Hid : forall name, tupd name refuse_mark os = os).
  { intros name. apply tupd_id. intros o Ho. unfold refuse_mark. specialize (Hst o Ho). destruct (to_status o); try reflexivity. congruence. }
  destruct r as [name mv ex force|name red force|name p force|name price mv force]; [destruct Hr| | |]; cbn [do_req] in H;
    destruct (tget name os) as [o|]; try discriminate;
    repeat (match type of H with
            | context [if ?c then _ else _] => destruct c
            | context [match to_type ?x with _ => _ end] => destruct (to_type x)
            end); inversion H; subst; split; try reflexivity; apply Hid.
Qed.

(* after the repair of F-C02-2: placing an order that is already in the blotter raises and leaves every order's status as it was
   (only update_client has run) *)
Lemma tget_tupd name f l : (forall o, to_name (f o) = to_name o) -> tget name (tupd name f l) = option_map f (tget name l).
Proof.
  intros Hf. unfold tget. induction l as [|o r IH]; [reflexivity|]. cbn [tupd find]. destruct (to_name o =? name) eqn:E.
  - cbn [find]. rewrite Hf, E. reflexivity.
  - cbn [find]. rewrite E. exact IH.
Qed.
Lemma status_tupd_client name c l : map to_status (tupd name (fun o => {| to_name := to_name o; to_status := to_status o; to_bet := to_bet o; to_type := to_type o; to_persist := to_persist o; to_price := to_price o;
                                          to_remaining := to_remaining o; to_in_blotter := to_in_blotter o; to_client := c; to_red := to_red o; to_newprice := to_newprice o; to_ctx := to_ctx o |}) l) = map to_status l.
Proof. induction l as [|o r IH]; [reflexivity|]. cbn [tupd]. destruct (to_name o =? name); cbn [map to_status]; [reflexivity|f_equal; exact IH]. Qed.
Theorem place_of_placed_order_changes_no_status ctl t os name mv ex force o t' os' res :
  tget name os = Some o -> to_in_blotter o = true -> (ex && negb force && negb ctl) = false ->
  do_req ctl t os (TPlace name mv ex force) = (t', os', res) -> res = TRaisedPlaced /\ t' = t /\ map to_status os' = map to_status os.
Proof.
  intros Hg Hb Hc H. cbn [do_req] in H. rewrite Hg in H. cbv zeta in H. rewrite Hc in H.
  rewrite Hb in H.
  inversion H; subst. split; [reflexivity|]. split; [reflexivity|]. apply status_tupd_client.
Qed.

From Coq Require Import ZArith List Bool Lia ZifyBool.
From V Require Import Model.Num Model.Status Model.Live Proofs.LiveP.

(* C19 — Order references are unique, valid and round-trip. Statements only. *)
From Coq Require Import ZArith List Bool.
From V Require Import Model.Num Model.Refs Gen.RefsC Proofs.RefsP.
Open Scope Z_scope.

(* oracles (trusted base): strategy.name_hash = sha1(name).hexdigest()[:HASH_LEN] is a string of
   HASH_LEN hex characters, whatever the name; order ids are str(uuid1().time): decimal digits,
   pairwise distinct within a run.  The theorems quantify over all such hashes and ids. *)

Theorem C19_roundtrip : forall hl h sep id, length h = hl -> length sep = 1%nat ->
  parse_hash hl (mk_ref h sep id) = h /\ parse_id hl (mk_ref h sep id) = id.
Proof. exact roundtrip. Qed.
Print Assumptions C19_roundtrip.

Theorem C19_chars : forall h sep id,
  forallb is_hex h = true -> valid_sep VALID_CHARS sep = true -> forallb is_digit id = true ->
  all_valid VALID_CHARS (mk_ref h sep id) = true.
Proof. exact ref_chars_valid. Qed.
Print Assumptions C19_chars.

Theorem C19_valid_sep : forall c, valid_sep VALID_CHARS c = true <-> exists x, c = [x] /\ In x VALID_CHARS.
Proof. exact valid_sep_iff. Qed.
Print Assumptions C19_valid_sep.

(* 13 + 1 + digits: within the exchange's 32 characters for every id below 10^18, i.e. for every
   uuid1 clock reading before the year 4751; the bound is part of the statement *)
Theorem C19_length : forall h sep n, length h = HASH_LEN -> length sep = 1%nat -> 0 <= n < 10 ^ 18 ->
  (length (mk_ref h sep (digits n)) <= 32)%nat.
Proof. exact ref_length_bound. Qed.
Print Assumptions C19_length.
Theorem C19_length_19 : forall n, 10 ^ 18 <= n < 10 ^ 19 -> length (digits n) = 19%nat.
Proof. exact digits_len_ge_19. Qed.
Print Assumptions C19_length_19.

Theorem C19_injective : forall hl h1 s1 i1 h2 s2 i2,
  length h1 = hl -> length h2 = hl -> length s1 = 1%nat -> length s2 = 1%nat ->
  mk_ref h1 s1 i1 = mk_ref h2 s2 i2 -> h1 = h2 /\ i1 = i2.
Proof. exact ref_injective. Qed.
Print Assumptions C19_injective.

Theorem C19_unique : forall hl h s1 s2 i1 i2, length h = hl -> length s1 = 1%nat -> length s2 = 1%nat ->
  i1 <> i2 -> mk_ref h s1 i1 <> mk_ref h s2 i2.
Proof. exact ref_unique. Qed.
Print Assumptions C19_unique.

Theorem C19_attribution : forall hl ids hashes h sep id o s,
  length h = hl -> length sep = 1%nat ->
  resolve hl ids hashes (mk_ref h sep id) = (Some o, Some s) ->
  nth_error ids o = Some id /\ nth_error hashes s = Some h.
Proof. exact resolve_attribution. Qed.
Print Assumptions C19_attribution.

Example C19_nonvacuous :
  let h := [97;98;99;100;101;102;48;49;50;51;52;53;54] in
  length h = HASH_LEN /\ forallb is_hex h = true /\ valid_sep VALID_CHARS DEFAULT_SEP = true /\
  parse_id HASH_LEN (mk_ref h DEFAULT_SEP (digits 139000000000000000)) = digits 139000000000000000 /\
  length (mk_ref h DEFAULT_SEP (digits 139000000000000000)) = 32%nat /\
  valid_sep VALID_CHARS [44] = false /\ valid_sep VALID_CHARS [45; 45] = false /\ valid_sep VALID_CHARS [] = false.
Proof. vm_compute. repeat split; reflexivity. Qed.

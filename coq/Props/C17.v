(* C17 — Price helpers and order validation agree with the exchange's ladders.
   Only statements, each closed by [exact]; proofs are in Proofs/Ladder*.v. *)
From Coq Require Import ZArith List Bool.
From V Require Import Model.Num Model.Ladder Gen.LadderC Proofs.LadderP Proofs.LadderNearP Proofs.LadderTicksP.
Open Scope Z_scope.

(* the model's make_prices, run on the generated cut-offs, is the list the module built *)
Theorem C17_model_builds_impl_ladders :
  make_prices MIN_PRICE MAX_PRICE CUTOFFS = PRICES /\ PRICES_FLOAT = PRICES /\
  make_prices BETDAQ_MIN_PRICE BETDAQ_MAX_PRICE BETDAQ_CUTOFFS = BETDAQ_PRICES /\
  BETDAQ_PRICES_FLOAT = BETDAQ_PRICES /\
  (FINEST_LEN, FINEST_FIRST, FINEST_PENULT, FINEST_LAST, FINEST_CONSECUTIVE) = (99900, 101, 99999, 100000, true).
Proof. exact (conj prices_eq_impl (conj prices_float_eq (conj betdaq_prices_eq_impl (conj betdaq_prices_float_eq finest_summary)))). Qed.
Print Assumptions C17_model_builds_impl_ladders.

(* 1. the ladders are the exchange's published increment tables *)
Theorem C17_classic_ladder : forall p, In p PRICES <-> valid_tick p = true.
Proof. exact ladder_is_spec. Qed.
Print Assumptions C17_classic_ladder.
Theorem C17_betdaq_ladder : forall p, In p BETDAQ_PRICES <-> valid_betdaq_tick p = true.
Proof. exact betdaq_ladder_is_spec. Qed.
Print Assumptions C17_betdaq_ladder.
Theorem C17_finest_ladder : forall p,
  In p (make_prices 101 100000 [(100000, 1)]) <-> valid_finest_tick p = true.
Proof. exact finest_is_spec. Qed.
Print Assumptions C17_finest_ladder.

(* 2. get_nearest_price, for every rational n/d: a tick, the closest one, ties upward,
      clamped, idempotent *)
Theorem C17_nearest_is_tick : forall n d, 0 < d -> valid_tick (near n d) = true.
Proof. exact nearest_is_tick. Qed.
Print Assumptions C17_nearest_is_tick.
Theorem C17_nearest_is_closest : forall n d t, 0 < d -> valid_tick t = true ->
  Z.abs (near n d * d - 100 * n) <= Z.abs (t * d - 100 * n).
Proof. exact nearest_is_closest. Qed.
Print Assumptions C17_nearest_is_closest.
Theorem C17_nearest_tie_up : forall n d t, 0 < d -> valid_tick t = true ->
  Z.abs (near n d * d - 100 * n) = Z.abs (t * d - 100 * n) -> t <= near n d.
Proof. exact nearest_tie_up. Qed.
Print Assumptions C17_nearest_tie_up.
Theorem C17_nearest_clamped : forall n d, 0 < d -> 101 <= near n d <= 100000.
Proof. exact nearest_clamped. Qed.
Print Assumptions C17_nearest_clamped.
Theorem C17_nearest_idempotent : forall n d, 0 < d -> near (near n d) 100 = near n d.
Proof. exact nearest_idempotent. Qed.
Print Assumptions C17_nearest_idempotent.

(* 3. price_ticks_away from a valid price, for every n : Z *)
Theorem C17_ticks_away : forall p n, valid_tick p = true ->
  exists i r, index_of p PRICES = Some i /\
    ticks_away MIN_PRICE MAX_PRICE PRICES p n = Some r /\ valid_tick r = true /\
    (0 <= Z.of_nat i + n < 350 -> index_of r PRICES = Some (Z.to_nat (Z.of_nat i + n))) /\
    (Z.of_nat i + n < 0 -> r = MIN_PRICE) /\ (350 <= Z.of_nat i + n -> r = MAX_PRICE).
Proof. exact ticks_away_valid. Qed.
Print Assumptions C17_ticks_away.

(* 4. OrderValidation accepts exactly the orders the exchange's rules allow *)
Theorem C17_validate : forall x c sd t,
  validate PRICES BETDAQ_PRICES x c sd t = validate_spec x c sd t.
Proof. exact validate_is_spec. Qed.
Print Assumptions C17_validate.
Theorem C17_validate_limit_meaning : forall c sd p s,
  validate PRICES BETDAQ_PRICES XBetfair c sd (VLimit p s Classic) = true <->
  (0 < s /\ s mod 10 = 0 /\ p mod 10 = 0 /\ valid_tick (p / 10) = true /\
   (min_validation c = true -> ~ (s < min_bet_size c /\ p * s < min_bet_payout c * 1000))).
Proof. exact validate_limit_meaning. Qed.
Print Assumptions C17_validate_limit_meaning.

(* non-vacuity *)
Example C17_nonvacuous :
  near 2005 1000 = 200 /\ near 2995 1000 = 300 /\ near 1 1 = 101 /\ near 5000 1 = 100000 /\
  near 1015 1000 = 102 /\ ticks_away MIN_PRICE MAX_PRICE PRICES 200 3 = Some 206 /\
  ticks_away MIN_PRICE MAX_PRICE PRICES 200 (-500) = Some 101 /\ ticks_away MIN_PRICE MAX_PRICE PRICES 201 1 = None /\
  validate PRICES BETDAQ_PRICES XBetfair {| min_validation := true; min_bet_size := 1000; min_bet_payout := 10000; min_bsp_liability := 10000 |} VBack (VLimit 20000 500 Classic) = true /\
  validate PRICES BETDAQ_PRICES XBetfair {| min_validation := true; min_bet_size := 1000; min_bet_payout := 10000; min_bsp_liability := 10000 |} VBack (VLimit 19500 500 Classic) = false.
Proof. vm_compute. repeat split; reflexivity. Qed.

(* C07 — Simulated latency and bet delay: no look-ahead and no free speed.  Statements only. *)
From Coq Require Import ZArith List Bool.
From V Require Import Model.Num Model.Status Model.Sim Model.SimLoop Gen.StatusC Gen.DelayC Model.SimCases Model.Examples Model.SimGuard Proofs.SimLatencyP Proofs.SimAckRunP Proofs.SimStaticP.
Open Scope Z_scope.

(* the real float comparison elapsed_seconds > simulated_delay, tabulated from the source for the four
   request kinds and bet delays 0..12, is the strict ">" on milliseconds used by the model *)
Theorem C07_threshold_table :
  forallb (fun row => let '(k, bd, ms) := row in delay_ms default_cfg k bd + 1 =? ms) DELAY_TABLE = true /\ length DELAY_TABLE = 52%nat.
Proof. exact delay_table_is_strict. Qed.
Print Assumptions C07_threshold_table.

(* 1. effect time: exactly the due packages of the updated market leave the queue; a package is executed only at an
      update of ITS market more than latency (+ bet delay for place/replace) after the request; all others wait *)
Theorem C07_queue_after_update : forall tb cf now mid s,
  s_queue (check_pending tb cf now mid s) = filter (fun p => negb ((pk_market p =? mid) && due cf now p)) (s_queue s).
Proof. exact pending_phase_queue. Qed.
Print Assumptions C07_queue_after_update.
Theorem C07_executed_only_when_due : forall tb cf now mid s p,
  In p (s_queue s) -> ~ In p (s_queue (check_pending tb cf now mid s)) ->
  pk_market p = mid /\ delay_ms cf (pk_kind p) (pk_bet_delay p) < now - pk_created p.
Proof. exact executed_only_when_due. Qed.
Print Assumptions C07_executed_only_when_due.
Theorem C07_not_due_waits : forall tb cf now mid s p,
  In p (s_queue s) -> (pk_market p <> mid \/ now - pk_created p <= delay_ms cf (pk_kind p) (pk_bet_delay p)) ->
  In p (s_queue (check_pending tb cf now mid s)).
Proof. exact not_due_stays_queued. Qed.
Print Assumptions C07_not_due_waits.

(* 1b. the time a request was made = the time of the update being processed when the strategy issued it, also when the request is for
       ANOTHER market than the one being processed (AOn: updates of other markets of the same event in between); the bet delay is
       that of the target market's current book *)
Theorem C07_request_is_stamped_with_the_current_update : forall cf now st mid s a p,
  In p (s_queue (request cf now st mid s a)) -> In p (s_queue s) \/
  (pk_created p = now /\
   exists target m, pk_market p = target /\ (target = mid \/ exists a', a = AOn target a') /\
                    get_market target (s_markets s) = Some m /\ pk_bet_delay p = match mk_book m with Some b => b_delay b | None => 0 end).
Proof. exact request_stamp. Qed.
Print Assumptions C07_request_is_stamped_with_the_current_update.

(* 2./5. state used, no look-ahead: the execution phase of an update is a function of the update's time and market and
      of the state BEFORE the update - the triggering book is not an argument *)
Theorem C07_no_lookahead : forall tb cf s e1 e2,
  ev_market e1 = ev_market e2 -> b_pt (ev_book e1) = b_pt (ev_book e2) ->
  check_pending tb cf (b_pt (ev_book e1)) (ev_market e1) s = check_pending tb cf (b_pt (ev_book e2)) (ev_market e2) s.
Proof. exact pending_phase_ignores_triggering_book. Qed.

(* 3. meanwhile: a new order is pending and invisible to the matcher; an order being cancelled/updated/replaced is still matched *)
Theorem C07_meanwhile : status_in SPending MW_LIVE_STATUS = false /\
  status_in SCancelling MW_LIVE_STATUS = true /\ status_in SUpdating MW_LIVE_STATUS = true /\ status_in SReplacing MW_LIVE_STATUS = true.
Proof. exact pending_is_not_live_for_matching. Qed.

(* 4. acknowledgement time of a placement = publish time of the executing update (hence, with (1), later than request + delay) *)
Theorem C07_ack_time : forall tb cf now s p m b o,
  get_market (pk_market p) (s_markets s) = Some m -> mk_book m = Some b -> get_order (pk_order p) (mk_orders m) = Some o ->
  so_status o <> SViolation -> pk_kind p = KPlace ->
  exists o', In o' (concat (map mk_orders (s_markets (exec_pkg tb cf now s p)))) /\ so_name o' = so_name o /\
             so_placed o' = Some now /\ so_stat_t o' = now /\ (so_status o' = SExecutable \/ so_status o' = SExecComplete).
Proof. exact place_ack_time. Qed.
Print Assumptions C07_ack_time.

(* 4'. REFUTED for aggressive fills (finding F-C07-1): the fragment of an order matched on arrival carries the publish
   time of the book it was matched against - the PREVIOUS update - which precedes request time + latency.
   Witness: request at t=1400 (latency 120), next update at t=6000 executes it; the fragment is stamped 1400. *)
Definition c07_book (pt : Z) := xbook pt MOpen 1 [xrunner 1 RActive None [(30000, 500)] [(31000, 500)] []].
Definition c07_events := [ {| ev_market := 0; ev_idx := 0; ev_book := c07_book 1000 |};
                           {| ev_market := 0; ev_idx := 1; ev_book := c07_book 1400 |};
                           {| ev_market := 0; ev_idx := 2; ev_book := c07_book 6000 |} ].
(* 4b. WHOLE RUNS, every book (removals, starting-price reconciliation, suspensions, closures and re-openings included), any script: at the
       end of the run (hence after every prefix) an order that carries an acknowledgement time t was acknowledged more than the configured
       latency after its request time - the placement latency, or the replacement latency for the order a replace creates (whose request
       time is the replace request's); nothing else in a run ever rewrites request or acknowledgement times (stamp lemmas: matching,
       SP conversion, removal, sweep, later requests).  The boolean hypothesis (a placement package finds the order it was created with,
       bet delays are not negative) is evaluated by the harness on every scenario. *)
Theorem C07_run_ack_after_latency : forall tb cf n sc es s m o t,
  (forall m0, In m0 (s_markets s) -> mk_orders m0 = []) -> run_ack_guard_b tb cf n sc es s = true ->
  In m (s_markets (fold_left (step tb cf n sc) es s)) -> In o (mk_orders m) -> so_placed o = Some t ->
  (if so_repl o then cf_lat_replace cf else cf_lat_place cf) < t - so_created o.
Proof. exact run_ack_after_latency. Qed.
Print Assumptions C07_run_ack_after_latency.
(* on the domain of the static side conditions (see C04_run_conserves_static) the boolean hypothesis above is itself a theorem *)
Theorem C07_run_ack_after_latency_static : forall tb cf n sc es s,
  cfg_ok_b cf = true -> initial_b s = true -> forallb (event_b2 sc n) es = true -> keys_ok_b sc n es = true ->
  forall m o t, In m (s_markets (fold_left (step tb cf n sc) es s)) -> In o (mk_orders m) -> so_placed o = Some t ->
  (if so_repl o then cf_lat_replace cf else cf_lat_place cf) < t - so_created o.
Proof. exact run_ack_after_latency_static. Qed.
Print Assumptions C07_run_ack_after_latency_static.
(* 3b. "until then a new order is pending with no fills", in every reachable state of a run (static hypotheses): an order whose placement package
       has not been executed is exactly as created and invisible to the matcher *)
Theorem C07_unplaced_order_is_untouched_static : forall tb cf n sc es s,
  cfg_ok_b cf = true -> initial_b s = true -> forallb (event_b2 sc n) es = true -> keys_ok_b sc n es = true ->
  forall m o, In m (s_markets (fold_left (step tb cf n sc) es s)) -> In o (mk_orders m) -> so_placed o = None ->
  so_frags o = [] /\ so_matched o = 0 /\ so_cancelled o = 0 /\ so_lapsed o = 0 /\ so_voided o = 0 /\ so_bet o = None /\
  status_in (so_status o) (cf_mw_live cf) = false.
Proof. exact run_unplaced_untouched_static. Qed.
Print Assumptions C07_unplaced_order_is_untouched_static.

Definition c07_script := [(0, 0, 1, [APlace 1 1 Back (OLimit 20000 200 PLapse false None) None])].
Theorem C07_fragment_time_refuted :
  let '(obs, _) := run_obs tb_up std_cfg 1 (script_of c07_script) (sim0 [mkmarket 0 std_static]) c07_events in
  map (fun x => map (fun o => (so_created o, so_placed o, map f_pt (so_frags o))) (fst x)) obs =
    [ []; []; [(1400, Some 6000, [1400])] ] /\ 1400 < 1400 + 120.
Proof. vm_compute. split; reflexivity. Qed.
Print Assumptions C07_fragment_time_refuted.

(* C14 — Simulation is deterministic, complete and chronological.  Statements only. *)
From Coq Require Import ZArith List Bool Permutation Sorting.Sorted.
From V Require Import Model.Num Model.Merge Proofs.MergeP Model.C14Cases.
Open Scope Z_scope.

(* complete: every update of every stream of the event group is delivered exactly once *)
Theorem C14_merge_complete : forall streams, Permutation (run_merge streams) (concat streams).
Proof. exact run_merge_complete. Qed.
Print Assumptions C14_merge_complete.
Theorem C14_merge_perm : forall fuel cycles, Forall nonempty cycles -> (length (concat cycles) <= fuel)%nat ->
  Permutation (merge fuel cycles) (concat cycles).
Proof. exact merge_perm. Qed.

(* each market's own order is preserved *)
Theorem C14_stream_order_preserved : forall fuel cycles, Forall nonempty cycles -> (length (concat cycles) <= fuel)%nat ->
  forall s, In s cycles -> subseq s (merge fuel cycles).
Proof. exact merge_keeps_stream_order. Qed.
Print Assumptions C14_stream_order_preserved.

(* chronological: non-decreasing publish time whenever each market file is *)
Theorem C14_chronological : forall fuel cycles, Forall nonempty cycles -> Forall stream_sorted cycles ->
  StronglySorted (fun a b => fst a <= fst b) (merge fuel cycles).
Proof. exact merge_chronological. Qed.
Print Assumptions C14_chronological.

(* determinism of the model is definitional (it is a function); the implementation's determinism is the
   correspondence itself, run in fresh processes under different PYTHONHASHSEED and required to equal this output *)
Example C14_nonvacuous :
  run_merge [[(10, 1); (30, 2); (30, 3)]; [(10, 4); (20, 5)]; [(5, 6)]] = [(5, 6); (10, 1); (10, 4); (20, 5); (30, 2); (30, 3)] /\
  map mu_pt (delivered {| lo_inplay := Some true; lo_seconds_to_start := None; lo_max_inplay := Some 2 |} fstate0
             [mk_u 0 true false 0; mk_u 1000 true true 0; mk_u 3000 true true 0; mk_u 3001 true true 0; mk_u 9000 false true 0]) = [1000; 3000; 9000].
Proof. vm_compute. split; reflexivity. Qed.
